#!/usr/bin/env python3
"""seedeval.py <src-dir> <seed-id> --dest <pkg dir for demo files> --cmd '<demo command>' --checks C05[,C04] [--tier quick]

Confirms a seeded change (made by an independent sub-agent that saw only the property text) in a scratch
worktree of /repo and runs the registered checks against it:
  1. demo passes on a clean worktree of /repo's HEAD,
  2. patch applies, the tree builds, demo FAILS with it,
  3. the pinned baseline suite still passes with the patch (baseline.sh),
  4. ./check <ID> with VERIF_REPO=<worktree> for every listed check: exit 1 expected (detected).
Writes /verif/seeded/<seed-id>/{patch.diff, demo/, meta.json} when 1-3 hold. The worktree and the private
harness copy are removed afterwards. Nothing is ever applied to /repo itself.
"""
import argparse, glob, hashlib, json, os, shutil, subprocess, sys, time

V = os.path.dirname(os.path.abspath(__file__))
ENV = dict(os.environ, GOFLAGS="-mod=mod", GOPROXY="off", GOSUMDB="off", GOTOOLCHAIN="local")


def sh(cmd, cwd=None, env=None, timeout=3600):
    e = dict(ENV)
    if env:
        e.update(env)
    p = subprocess.run(cmd, shell=True, cwd=cwd, env=e, stdout=subprocess.PIPE, stderr=subprocess.STDOUT, text=True,
                       errors="replace", timeout=timeout)
    return p.returncode, p.stdout


def main():
    ap = argparse.ArgumentParser()
    ap.add_argument("src")
    ap.add_argument("sid")
    ap.add_argument("--dest", required=True)
    ap.add_argument("--cmd", required=True)
    ap.add_argument("--checks", required=True)
    ap.add_argument("--tier", default="quick")
    ap.add_argument("--skip-baseline", action="store_true")
    ap.add_argument("--seeds", default="1")
    a = ap.parse_args()
    src = os.path.abspath(a.src)
    wt = "/tmp/mut/" + a.sid
    os.makedirs("/tmp/mut", exist_ok=True)
    sh("git -C /repo worktree remove --force %s" % wt)
    shutil.rmtree(wt, ignore_errors=True)
    rc, out = sh("git -C /repo worktree add --detach %s HEAD" % wt)
    if rc:
        sys.exit("worktree: " + out)
    res = {"seed": a.sid, "repo_head": sh("git -C /repo rev-parse --short HEAD")[1].strip()}
    try:
        demo_files = []
        for f in glob.glob(os.path.join(src, "demo", "*")):
            dst = os.path.join(wt, a.dest, os.path.basename(f))
            if os.path.isdir(f):
                shutil.copytree(f, dst)
            else:
                os.makedirs(os.path.dirname(dst), exist_ok=True)
                shutil.copy(f, dst)
            demo_files.append(dst)
        rc, out = sh(a.cmd, cwd=wt, timeout=1800)
        res["demo_without_patch"] = "pass" if rc == 0 else "FAIL rc=%d: %s" % (rc, out[-1500:])
        rc, out = sh("git apply --3way %s/patch.diff || git apply %s/patch.diff" % (src, src), cwd=wt)
        res["patch_applies"] = rc == 0
        if rc:
            res["apply_output"] = out[-1500:]
        rc, out = sh("go build ./ygot/... ./ytypes/... ./util/... ./ygen/... ./gogen/... ./protogen/... ./ypathgen/ ./protomap/ ./generator/ ./proto_generator/", cwd=wt)
        res["builds"] = rc == 0
        if rc:
            res["build_output"] = out[-1500:]
        rc, out = sh(a.cmd, cwd=wt, timeout=1800)
        res["demo_with_patch"] = "fail: " + out[-1200:] if rc != 0 else "PASS (demo does not fail!)"
        for f in demo_files:
            if os.path.isdir(f):
                shutil.rmtree(f)
            else:
                os.remove(f)
        if not a.skip_baseline:
            rc, out = sh("%s/baseline.sh %s" % (V, wt), timeout=3000)
            res["baseline"] = out.strip().splitlines()[0] if out.strip() else "no output"
            res["baseline_ok"] = rc == 0
        ok = res["demo_without_patch"] == "pass" and res["patch_applies"] and res["builds"] and \
            res["demo_with_patch"].startswith("fail") and (a.skip_baseline or res["baseline_ok"])
        res["confirmed"] = ok
        res["checks"] = {}
        if ok:
            for cid in a.checks.split(","):
                for seed in a.seeds.split(","):
                    t0 = time.time()
                    rc, out = sh("./check %s --tier %s" % (cid, a.tier), cwd=V, env={"VERIF_REPO": wt, "VERIF_SEED": seed}, timeout=7200)
                    viol = [l for l in out.splitlines() if l.startswith("VIOLATION")]
                    tail = [l for l in out.splitlines() if "rapid] failed" in l or "--- FAIL" in l or "INCONCLUSIVE" in l][:4]
                    res["checks"]["%s@%s/seed%s" % (cid, a.tier, seed)] = {"exit": rc, "detected": rc == 1 and bool(viol), "wall_s": round(time.time() - t0),
                                                                  "lines": [l[:400] for l in (viol[:2] + tail)]}
    finally:
        sh("git -C /repo worktree remove --force %s" % wt)
        shutil.rmtree(wt, ignore_errors=True)
        h = hashlib.sha1(os.path.realpath(wt).encode()).hexdigest()[:10]
        shutil.rmtree(os.path.join(V, ".out", "alt-" + h), ignore_errors=True)
    print(json.dumps(res, indent=1)[:6000])
    if res.get("confirmed"):
        d = os.path.join(V, "seeded", a.sid)
        os.makedirs(d, exist_ok=True)
        shutil.copy(os.path.join(src, "patch.diff"), os.path.join(d, "patch.diff"))
        shutil.rmtree(os.path.join(d, "demo"), ignore_errors=True)
        shutil.copytree(os.path.join(src, "demo"), os.path.join(d, "demo"))
        meta = {}
        try:
            meta = json.load(open(os.path.join(src, "meta.json")))
        except Exception:
            pass
        old = {}
        try:
            old = json.load(open(os.path.join(d, "meta.json")))
        except Exception:
            pass
        runs = old.get("check_runs", [])
        runs.append({"repo_head": res["repo_head"], "checks": res["checks"]})
        out = {"property": meta.get("property"), "summary": meta.get("summary"), "needs_to_manifest": meta.get("needs_to_manifest"),
               "files_changed": meta.get("files_changed"), "demo_dest": a.dest, "demo_cmd": a.cmd,
               "confirmed_by_me": {k: res[k] for k in ("demo_without_patch", "patch_applies", "builds", "baseline", "baseline_ok") if k in res},
               "demo_with_patch": res["demo_with_patch"][:600], "check_runs": runs}
        # a later run with --skip-baseline keeps the baseline result of the run that did confirm it
        for k in ("baseline", "baseline_ok"):
            if k not in out["confirmed_by_me"] and k in old.get("confirmed_by_me", {}):
                out["confirmed_by_me"][k] = old["confirmed_by_me"][k]
        json.dump(out, open(os.path.join(d, "meta.json"), "w"), indent=1)


if __name__ == "__main__":
    main()
