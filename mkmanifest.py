#!/usr/bin/env python3
"""Regenerates MANIFEST.json from props.json (what is registered) and the per-property texts below."""
import json, os
V = os.path.dirname(os.path.abspath(__file__))
props = json.load(open(os.path.join(V, "props.json")))
allp = [json.loads(l) for l in open(os.path.join(V, "properties.jsonl"))]
claimed = set(json.load(open(os.path.join(V, "claimed.json"))))
props = {k: v for k, v in props.items() if k in claimed}

TECH = {
 "C01": "rapid PBT: generated trees over 6 generated-code variants; round-trip + re-render oracle",
 "C02": "rapid PBT: generated trees and subtree sites; gNMI round-trip + element-wise decode against the model",
 "C03": "rapid PBT: mutated/independent tree pairs and histories; reference path-set diff + apply-and-compare",
 "C04": "rapid PBT: aliasing detector (scribble all reachable memory of one side, observe the other)",
 "C05": "rapid PBT: overlay-derived pairs; reference merge with conflict detection on the model",
 "C06": "rapid PBT: random restrictions and values; exact big-integer / AST-matcher oracles",
 "C07": "rapid PBT: valid-by-construction trees and single-fault injection from a closed catalogue",
 "C08": "rapid PBT: generated gNMI paths; round-trip and injectivity",
 "C09": "bounded-exhaustive enumeration with a set-denotation oracle + rapid PBT on larger paths",
 "C10": "rapid stateful PBT: SetNode histories against a model; GetNode + whole-tree frame check",
 "C11": "rapid PBT: before/after deep comparison of every argument of each API",
 "C12": "rapid stateful PBT: DeleteNode histories against reference delete-and-prune semantics",
 "C13": "rapid stateful PBT: SetRequest/Notification histories against reference gNMI Set semantics",
 "C14": "rapid PBT: trees with injected empty branches; invariants + idempotence + BuildEmptyTree round trip",
 "C15": "rapid state machine + bounded-exhaustive op sequences against an insertion-ordered map model",
 "C16": "rapid PBT: every keyed list x key value space; ygot's own key strings fed back to Get/Set/DeleteNode",
 "C17": "rapid PBT + enumeration of all enum types: name<->value bijection, goyang as ground truth",
 "C18": "rapid PBT: grammar of JSON scalars / TypedValues x leaf types against a strict decoder",
 "C19": "rapid PBT: generated trees; output walked with a goyang-derived schema and RFC 7950 lexical rules",
 "C20": "rapid structured-malformed inputs + Go native coverage-guided fuzzing (thorough); panic oracle",
 "C21": "rapid-generated concurrent schedules under the race detector; sequential-equivalence oracle",
 "C22": "rapid PBT: SetRequests and intent-preserving rewrites (metamorphic) + reflexivity/swap laws",
 "C23": "rapid PBT: SetRequest -> reference leaf set -> notifications with single-leaf edits; exact classification",
 "C24": "rapid PBT: descriptor-driven message generator; round-trip + independent annotation-path reference",
 "C25": "rapid PBT over schemas x flags: same command in 3 processes, byte comparison",
 "C26": "rapid PBT: random YANG modules -> generate -> build + vet -> reflection/tag/schema conformance checker",
 "C27": "rapid PBT: random YANG modules; embedded schema vs independent goyang compilation",
 "C28": "rapid PBT: random YANG modules -> proto_generator -> own proto3 parser + protodesc validation; metamorphic tag stability; adversarial tag collisions",
 "C29": "rapid PBT + reflective walk of the generated path API; ResolvePath vs GoStruct tags vs goyang",
 "C30": "rapid PBT: trees with satisfied/dangling leafrefs; reference XPath-subset evaluator",
 "C31": "rapid PBT: (existing tree, document) pairs; reference merge semantics; unknown-member injection",
 "C32": "rapid PBT: trees over config/state mixes; reference prune from goyang config flags",
 "C33": "rapid PBT: trees with defaults of every type; reference populate from goyang defaults + validity preservation",
 "C34": "rapid state machine + bounded-exhaustive helper-call sequences against a keyed-map model",
}
LEVEL = "Exploration: generated cases checked against an explicit, ygot-independent oracle; finds violations inside the generated domain, establishes nothing outside it. Counts, class histogram and samples of what was generated are in the evidence file."
NOTE = "Trusts: Go toolchain, pgregory.net/rapid, goyang (schema ground truth), the protobuf runtime, and the harness's own model/oracles (self-checked by observe(build(m)) == m and parse(render(m)) == m). Generated code under test is regenerated from /repo's templates on every run."

checks = []
for p in allp:
    pid = p["id"]
    if pid not in props:
        continue
    checks.append({
        "property_id": pid,
        "quick_cmd": "./check %s --tier quick" % pid,
        "thorough_cmd": "./check %s --tier thorough" % pid,
        "evidence_file": "/verif/evidence/%s.json" % pid,
        "replay_cmd_template": "./check %s --replay {path}" % pid,
        "engine": "rapid",
        "level_claimed": {"category": "exploration", "text": LEVEL, "design_ref": "DESIGN.md section 5/" + pid},
        "level_note": NOTE,
        "technique": TECH.get(pid, "rapid property-based testing"),
    })
na = [{"property_id": p["id"], "reason": "check not implemented yet in this session (planned: DESIGN.md section 5/%s); not claimed" % p["id"]}
      for p in allp if p["id"] not in props]
m = {
 "version": 1,
 "setup_cmd": "./setup.sh",
 "hooks": {"guard": "verif", "enable": "no hooks are needed: the checks drive the public API of the unmodified packages (go test of /verif/harness with a replace directive to /repo)",
           "baseline_off_cmd": "cd /repo && GOFLAGS=-mod=mod GOPROXY=off GOSUMDB=off GOTOOLCHAIN=local go1.26.8 test -mod=mod -json -vet=off -count=1 -timeout 25m ./...",
           "source_commits": [], "add_only": True},
 "engines": [{"name": "rapid", "path": "/verif/harness", "serves_properties": [c["property_id"] for c in checks], "kind_free_text": "pgregory.net/rapid v1.3.0 property-based tests driven by /verif/check (shards, seeds, evidence, replay); Go native fuzzing for C20 thorough"}],
 "checks": checks,
 "notes": "All checks: ./check <ID> --tier quick|thorough; env VERIF_SEED; exit 0 held / 1 VIOLATION / 2 inconclusive. Known findings: /verif/KNOWN_FINDINGS.json. Design: /verif/DESIGN.md.",
 "not_applicable": na,
}
json.dump(m, open(os.path.join(V, "MANIFEST.json"), "w"), indent=1)
print("claimed:", len(checks), "not claimed:", len(na))
