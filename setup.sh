#!/bin/bash
# setup_cmd: offline build of the framework from files on disk: harness go.mod/go.sum, generator
# binaries from /repo's current tree, generated corpus variants, warm build cache of the test packages.
set -e
cd "$(dirname "$0")"
python3 - <<'PY'
import json, vlib, sys
vlib.prepare()
props = json.load(open('props.json'))
done = set()
for pid, spec in sorted(props.items()):
    key = (spec['pkg'], bool(spec.get('race')))
    if key in done:
        continue
    done.add(key)
    try:
        vlib.build_test(spec['pkg'], race=bool(spec.get('race')))
        print("built", key)
    except vlib.Inconclusive as e:
        print("setup: build of %s failed: %s" % (key, str(e)[:2000]), file=sys.stderr)
        sys.exit(1)
PY
