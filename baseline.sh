#!/bin/bash
# Runs the repository's pinned baseline (guard off) and compares with /root/.vp/BASELINE.json stable_pass.
# usage: baseline.sh [repo]
REPO=${1:-/repo}
OUT=$(mktemp /verif/.out/baseline.XXXXXX.json)
mkdir -p /verif/.out
cd "$REPO" && GOFLAGS=-mod=mod GOPROXY=off GOSUMDB=off GOTOOLCHAIN=local go1.26.8 test -mod=mod -json -vet=off -count=1 -timeout 25m ./... > "$OUT" 2>/dev/null
python3 - "$OUT" <<'PY'
import json,sys
want=set(json.load(open('/root/.vp/BASELINE.json'))['stable_pass'])
got=set(); failed=set()
for l in open(sys.argv[1]):
    try: e=json.loads(l)
    except Exception: continue
    if e.get('Test') and e.get('Action') in ('pass','fail'):
        n=e['Package']+'::'+e['Test']
        (got if e['Action']=='pass' else failed).add(n)
missing=sorted(want-got)
print("baseline: %d/%d stable tests pass; %d failed; %d missing" % (len(want&got), len(want), len(failed), len(missing)))
for m in missing[:30]: print("  MISSING/FAILED:", m)
sys.exit(0 if not missing else 1)
PY
rc=$?
rm -f "$OUT"
exit $rc
