"""Native-fuzzing stage of C20 (custom hook of ./check, see props.json "custom": "fuzzdrv").

run(pid, spec, tier, seed, outdir) is called by ./check after the rapid shards. In the thorough tier it runs
Go's coverage-guided fuzzer on the five targets of harness/props/t6, one after the other, all cores,
FUZZTIME each (default 90s; VERIF_FUZZTIME overrides). A new file under testdata/fuzz/<Target>/ is a crasher:
it is moved to replays/C20/<Target>-<name>.fuzz (+ .log) -- moved, not copied, so that the unchanged tree
stays quiet on the next run -- and reported as a violation, unless its panic carries the signature of an
OPEN known finding (then it is only counted as excluded). What was done is written to <outdir>/C20.fuzz.json
and, in the format of ev.Flush, to the side file <outdir>/C20.<n>.json that merge_evidence picks up.
"""
import glob, json, os, re, shutil, subprocess, time

import vlib

TARGETS = ["FuzzUnmarshalJSON", "FuzzSetGetDelete", "FuzzSetRequest", "FuzzStringToPath", "FuzzGnmidiff"]
PKG = "props/t6"

# panic signatures of known findings: id -> (regexp on the panic line, regexp on the stack)
SIGNATURES = {
    "F4-unmarshal-list-panic": (r"interface conversion: interface \{\} is .*, not map\[string\]interface \{\}", r"ytypes\.unmarshalList"),
    "F16-gnmidiff-leaflist-panic": (r"comparing uncomparable type \[\]interface \{\}", r"gnmidiff\.\(\*setRequestIntent\)\.writeUpdate"),
    "F80-nil-repeated-element-panic": (r"invalid memory address or nil pointer dereference",
                                       r"ytypes\.(setNode|joinPrefixToUpdate|replacePaths|UnmarshalNotifications)|gnmidiff\.(minimalSetRequestIntent|DiffSetRequestToNotifications)|ygot\.PathToStrings"),
}


def known_findings():
    p = os.environ.get("VERIF_KF") or os.path.join(vlib.VERIF, "KNOWN_FINDINGS.json")
    try:
        return {f["id"]: f for f in json.load(open(p)).get("findings", [])}
    except Exception:
        return {}


def match_known(output):
    """id of the OPEN known finding whose signature the fuzz failure output carries, or None."""
    kf = known_findings()
    for fid, (pv, st) in SIGNATURES.items():
        if kf.get(fid, {}).get("status") == "open" and re.search(pv, output) and re.search(st, output):
            return fid
    return None


def listing(d):
    try:
        return set(os.listdir(d))
    except FileNotFoundError:
        return set()


def next_side_index(outdir, pid):
    n = 0
    for f in glob.glob(os.path.join(outdir, pid + ".*.json")):
        m = re.match(re.escape(pid) + r"\.(\d+)\.json$", os.path.basename(f))
        if m:
            n = max(n, int(m.group(1)) + 1)
    return max(n, 100)


def run(pid, spec, tier, seed, outdir):
    report = dict(tier=tier, ran=False, targets={}, crashers=[], excluded={}, fuzztime=None)
    viol = []
    if tier != "thorough":
        report["note"] = "native fuzzing runs in the thorough tier only (the quick tier replays the committed corpus)"
        json.dump(report, open(os.path.join(outdir, pid + ".fuzz.json"), "w"), indent=1)
        return viol
    fuzztime = os.environ.get("VERIF_FUZZTIME", "90s")
    report.update(ran=True, fuzztime=fuzztime)
    cache = os.path.join(vlib.OUTDIR, "fuzzcache", pid)
    os.makedirs(cache, exist_ok=True)
    excl_prefix = os.path.join(outdir, "fuzz-excluded")
    rdir = os.path.join(vlib.REPLAYS, pid)
    total_execs, total_new = 0, 0
    classes = {}
    for tg in TARGETS:
        tdir = os.path.join(vlib.HARNESS, PKG, "testdata", "fuzz", tg)
        before = listing(tdir)
        env = dict(vlib.ENV)
        env.update(VERIF_TIER=tier, VERIF_SEED=str(seed), VERIF_FUZZ_EXCL=excl_prefix)
        cmd = ["go", "test", "./" + PKG, "-run", "^$", "-fuzz", "^%s$" % tg, "-fuzztime", fuzztime,
               "-parallel", str(vlib.NCPU), "-test.fuzzcachedir", cache, "-timeout", "30m"]
        t0 = time.time()
        for attempt in range(3):
            try:
                p = subprocess.run(cmd, cwd=vlib.HARNESS, env=env, stdout=subprocess.PIPE, stderr=subprocess.STDOUT,
                                   text=True, errors="replace", timeout=3600)
                out, rc = p.stdout, p.returncode
            except subprocess.TimeoutExpired as e:
                out, rc = (e.stdout or "") + "\nTIMEOUT", -1
            # a fuzz worker that is killed or starved on a busy machine ends the run without saving an input
            # ("fuzzing process hung or terminated unexpectedly"): not a verdict, try again
            if rc != 0 and not (listing(tdir) - before) and "hung or terminated unexpectedly" in out and attempt < 2:
                report.setdefault("retries", []).append(tg)
                continue
            # ... or it dies while an input is being minimised, and the fuzzer then saves whatever it was holding
            # (seen: the one-byte input "\x01" while twelve other jobs were using the machine). The saved input is
            # the reproducible unit: it is replayed in a plain test run, and only an input that fails there is a
            # crasher. One that passes is dropped and the campaign is repeated.
            if rc != 0 and "hung or terminated unexpectedly" in out:
                unconfirmed = []
                for name in sorted(listing(tdir) - before):
                    try:
                        rp = subprocess.run(["go", "test", "./" + PKG, "-run", "^%s$/^%s$" % (tg, name), "-count=1", "-timeout", "10m"],
                                            cwd=vlib.HARNESS, env=env, stdout=subprocess.PIPE, stderr=subprocess.STDOUT,
                                            text=True, errors="replace", timeout=900)
                        passed = rp.returncode == 0 and "no tests to run" not in rp.stdout
                    except subprocess.TimeoutExpired:
                        passed = False
                    if passed:
                        unconfirmed.append(name)
                        os.remove(os.path.join(tdir, name))
                if unconfirmed:
                    report.setdefault("unconfirmed_inputs", []).extend("%s/%s" % (tg, n) for n in unconfirmed)
                    if not (listing(tdir) - before):
                        if attempt < 2:
                            continue
                        # three campaigns ended by worker deaths and no input fails: INCONCLUSIVE below
            break
        wall = time.time() - t0
        open(os.path.join(outdir, "fuzz-%s.log" % tg), "w").write(out)
        execs = [int(x) for x in re.findall(r"execs: (\d+)", out)]
        news = [int(x) for x in re.findall(r"new interesting: (\d+)", out)]
        tinfo = dict(rc=rc, wall_s=round(wall, 1), execs=execs[-1] if execs else 0, new_interesting=news[-1] if news else 0, crashers=[])
        total_execs += tinfo["execs"]
        total_new += tinfo["new_interesting"]
        new_files = sorted(listing(tdir) - before)
        for name in new_files:
            src = os.path.join(tdir, name)
            os.makedirs(rdir, exist_ok=True)
            dst = os.path.join(rdir, "%s-%s.fuzz" % (tg, name))
            shutil.copy(src, dst)
            os.remove(src)                      # keep the tree quiet for the next run
            open(dst + ".log", "w").write(out[-200000:])
            fid = match_known(out)
            tinfo["crashers"].append(dict(file=dst, known=fid))
            if fid:
                report["excluded"][fid] = report["excluded"].get(fid, 0) + 1
            else:
                viol.append(dst)
                report["crashers"].append(dst)
        try:
            if not os.listdir(tdir):
                os.rmdir(tdir)
        except OSError:
            pass
        if rc != 0 and not new_files:
            # build failure / timeout / worker crash without a saved input: not a verdict
            tinfo["problem"] = out[-3000:]
            report["targets"][tg] = tinfo
            json.dump(report, open(os.path.join(outdir, pid + ".fuzz.json"), "w"), indent=1)
            raise vlib.Inconclusive("native fuzzing of %s failed without a crasher (rc=%s):\n%s" % (tg, rc, out[-3000:]))
        classes["fuzz-target:" + tg] = tinfo["execs"]
        report["targets"][tg] = tinfo
    # exclusions counted by the fuzz workers themselves (recovered known panics)
    for f in glob.glob(excl_prefix + ".*"):
        for line in open(f):
            fid = line.strip()
            if fid:
                report["excluded"][fid] = report["excluded"].get(fid, 0) + 1
        os.remove(f)
    fdir = os.path.join(vlib.HARNESS, PKG, "testdata", "fuzz")
    if os.path.isdir(fdir) and not os.listdir(fdir):
        os.rmdir(fdir)
    json.dump(report, open(os.path.join(outdir, pid + ".fuzz.json"), "w"), indent=1)
    # side file in ev.Flush format so that merge_evidence folds the fuzzing into evidence/C20.json
    side = dict(property_id=pid, shard=next_side_index(outdir, pid), evaluations=total_execs, distinct_nontrivial=0, rule="",
                classes=classes, excluded_known=report["excluded"], samples=[],
                extra=dict(fuzz=dict(fuzztime=fuzztime, targets=report["targets"], execs=total_execs, new_interesting=total_new,
                                     crashers=report["crashers"])),
                witness={}, assumptions=["Go's native fuzzer cannot be seeded: the saved crasher is the reproducible unit (DESIGN.md section 8)"],
                exhaustive=False, violations=[dict(kind="fuzz-crasher", file=c) for c in report["crashers"]], failed=bool(viol))
    json.dump(side, open(os.path.join(outdir, "%s.%d.json" % (pid, side["shard"])), "w"), indent=1)
    return viol
