"""Shared driver code for /verif checks: environment, go.mod, generators, variants, shards, evidence.

Everything a registered command needs lives under /verif (nothing under /tmp survives).
"""
import fcntl, glob, hashlib, json, os, re, shutil, subprocess, sys, tempfile, time

VERIF = os.path.dirname(os.path.abspath(__file__))
REPO = os.environ.get("VERIF_REPO", "/repo")
SRC_HARNESS = os.path.join(VERIF, "harness")
CORPUS = os.path.join(VERIF, "corpus", "yang")
ALT = os.path.realpath(REPO) != "/repo"
if ALT:
    # sensitivity runs against a scratch copy of the repo: private harness copy, bin, out and evidence
    _h = hashlib.sha1(os.path.realpath(REPO).encode()).hexdigest()[:10]
    OUTDIR = os.path.join(VERIF, ".out", "alt-" + _h)
    HARNESS = os.path.join(OUTDIR, "harness")
    BIN = os.path.join(OUTDIR, "bin")
    EVIDENCE = os.path.join(OUTDIR, "evidence")
    REPLAYS = os.path.join(OUTDIR, "replays")
else:
    OUTDIR = os.path.join(VERIF, ".out")
    HARNESS = SRC_HARNESS
    BIN = os.path.join(VERIF, ".bin")
    EVIDENCE = os.path.join(VERIF, "evidence")
    REPLAYS = os.path.join(VERIF, "replays")
NCPU = os.cpu_count() or 4

ENV = dict(os.environ)
ENV.update({
    "GOFLAGS": "-mod=mod", "GOPROXY": "off", "GOSUMDB": "off", "GOTOOLCHAIN": "local",
    "GONOSUMDB": "*", "GONOSUMCHECK": "1", "GOFLAGS_EXTRA": "",
    "VERIF_DIR": VERIF, "VERIF_REPO": REPO, "VERIF_HARNESS": HARNESS, "VERIF_BIN": BIN, "VERIF_OUTDIR": OUTDIR,
})
ENV.pop("GOFLAGS_EXTRA")


class Inconclusive(Exception):
    pass


def log(*a):
    print(*a, file=sys.stderr, flush=True)


def run(cmd, cwd=None, env=None, timeout=None, check=False, capture=True):
    e = dict(ENV)
    if env:
        e.update(env)
    p = subprocess.run(cmd, cwd=cwd, env=e, timeout=timeout,
                       stdout=subprocess.PIPE if capture else None,
                       stderr=subprocess.STDOUT if capture else None, text=True, errors="replace")
    if check and p.returncode != 0:
        raise Inconclusive("command failed (%d): %s\n%s" % (p.returncode, " ".join(cmd), (p.stdout or "")[-4000:]))
    return p


def splitmix(seed, shard):
    z = (seed * 0x9E3779B97F4A7C15 + (shard + 1) * 0xBF58476D1CE4E5B9) & 0xFFFFFFFFFFFFFFFF
    z ^= z >> 30
    z = (z * 0xBF58476D1CE4E5B9) & 0xFFFFFFFFFFFFFFFF
    z ^= z >> 27
    z = (z * 0x94D049BB133111EB) & 0xFFFFFFFFFFFFFFFF
    z ^= z >> 31
    z &= 0x7FFFFFFFFFFFFFFF
    return z or 1


class Lock:
    def __init__(self, name="prepare"):
        os.makedirs(OUTDIR, exist_ok=True)
        self.path = os.path.join(OUTDIR, name + ".lock")

    def __enter__(self):
        self.f = open(self.path, "w")
        fcntl.flock(self.f, fcntl.LOCK_EX)
        return self

    def __exit__(self, *a):
        fcntl.flock(self.f, fcntl.LOCK_UN)
        self.f.close()


def write_if_changed(path, data):
    if isinstance(data, str):
        data = data.encode()
    try:
        with open(path, "rb") as f:
            if f.read() == data:
                return False
    except FileNotFoundError:
        pass
    os.makedirs(os.path.dirname(path), exist_ok=True)
    tmp = path + ".tmp%d" % os.getpid()
    with open(tmp, "wb") as f:
        f.write(data)
    os.replace(tmp, path)
    return True


def gomod_text(module, repo=None, extra_replace=""):
    repo = repo or REPO
    src = open(os.path.join(repo, "go.mod")).read()
    reqs = re.findall(r"require \((.*?)\)", src, re.S)
    gov = re.search(r"^go (\S+)", src, re.M).group(1)
    out = "module %s\n\ngo %s\n\n" % (module, gov)
    for r in reqs:
        out += "require (" + r + ")\n\n"
    out += "require (\n\tgithub.com/openconfig/ygot v0.9999.0\n\tpgregory.net/rapid v1.3.0\n)\n\n"
    out += "replace github.com/openconfig/ygot => %s\n%s" % (repo, extra_replace)
    return out


RAPID_SUM = ("pgregory.net/rapid v1.3.0 h1:vBvO0VSqti75J1jjYqpgPNBLKMd1+gxa9fYo7vk/Exc=\n"
             "pgregory.net/rapid v1.3.0/go.mod h1:dPlE4OBBxgXPqkP79flB6sJL1dx5azpI7HQ9MY9Z7uk=\n")


def gosum_text(repo=None):
    repo = repo or REPO
    s = open(os.path.join(repo, "go.sum")).read()
    if "pgregory.net/rapid v1.3.0 " not in s:
        s += RAPID_SUM
    return s


def write_gomod():
    write_if_changed(os.path.join(HARNESS, "go.mod"), gomod_text("verifharness"))
    # go.sum: union of repo's go.sum, rapid lines and whatever go added earlier
    want = gosum_text()
    path = os.path.join(HARNESS, "go.sum")
    try:
        have = open(path).read()
    except FileNotFoundError:
        have = ""
    lines = set(have.splitlines()) | set(want.splitlines())
    write_if_changed(path, "\n".join(sorted(lines)) + "\n")


def build_generators():
    os.makedirs(BIN, exist_ok=True)
    for name in ("generator", "proto_generator"):
        run(["go", "build", "-o", os.path.join(BIN, name), "github.com/openconfig/ygot/" + name],
            cwd=HARNESS, check=True, timeout=900)


def variants():
    return json.load(open(os.path.join(VERIF, "corpus", "variants.json")))


def generate_variant(name, spec, common):
    """Run /repo's generator for one variant into a temp dir, then sync changed files into harness/gen/<name>."""
    dst = os.path.join(HARNESS, "gen", name)
    tmp = tempfile.mkdtemp(prefix="gen-%s-" % name, dir=OUTDIR)
    try:
        cmd = [os.path.join(BIN, "generator"), "-path=" + CORPUS, "-package_name=" + spec.get("package", name),
               "-output_file=" + os.path.join(tmp, name + ".go")] + common + spec.get("flags", [])
        if spec.get("path_structs"):
            cmd += ["-generate_path_structs", "-path_structs_output_file=" + os.path.join(tmp, name + "_path.go")]
        cmd += [os.path.join(CORPUS, y) for y in spec["yang"]]
        p = run(cmd, timeout=300)
        if p.returncode != 0:
            raise Inconclusive("generator failed for variant %s:\n%s" % (name, p.stdout[-3000:]))
        os.makedirs(dst, exist_ok=True)
        keep = set()
        for f in os.listdir(tmp):
            keep.add(f)
            write_if_changed(os.path.join(dst, f), open(os.path.join(tmp, f), "rb").read())
        for f in os.listdir(dst):
            if f not in keep:
                os.remove(os.path.join(dst, f))
    finally:
        shutil.rmtree(tmp, ignore_errors=True)


def generate_variants(names=None):
    v = variants()
    for name, spec in v["variants"].items():
        if names and name not in names:
            continue
        generate_variant(name, spec, v["common"])


def sync_alt_harness():
    os.makedirs(HARNESS, exist_ok=True)
    run(["rsync", "-a", "--delete", "--exclude", "/gen/", "--exclude", "/go.mod", "--exclude", "/go.sum",
         "--exclude", "testdata/rapid/", SRC_HARNESS + "/", HARNESS + "/"], check=True)


def prepare(need_variants=True):
    with Lock():
        if ALT:
            sync_alt_harness()
        write_gomod()
        build_generators()
        if need_variants:
            generate_variants()


def build_test(pkg, race=False, tags=None):
    """go test -c for harness package pkg (relative to HARNESS); returns binary path."""
    out = os.path.join(BIN, pkg.replace("/", "_") + (".race" if race else "") + ".test")
    cmd = ["go", "test", "-c", "-o", out]
    if race:
        cmd.append("-race")
    if tags:
        cmd += ["-tags", tags]
    cmd.append("./" + pkg)
    with Lock("build-" + os.path.basename(out)):
        p = run(cmd, cwd=HARNESS, timeout=1800)
    if p.returncode != 0:
        raise Inconclusive("harness build failed:\n" + p.stdout[-6000:])
    return out
