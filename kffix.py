#!/usr/bin/env python3
"""kffix.py <finding-id> <commit> : mark a finding as fixed by a 'fix:' commit in /repo."""
import json, sys
fid, commit = sys.argv[1], sys.argv[2]
k = json.load(open('/verif/KNOWN_FINDINGS.json'))
for f in k['findings']:
    if f['id'] == fid:
        if f['status'] == 'fixed':
            print('already fixed'); break
        f['status'] = 'fixed'; f['commit'] = commit
        f['what'] = 'fixed: property=%s %s %s' % (f['properties'][0], commit, f['what'])
        print('marked', fid); break
else:
    sys.exit('no such finding ' + fid)
json.dump(k, open('/verif/KNOWN_FINDINGS.json', 'w'), indent=1, ensure_ascii=False)
