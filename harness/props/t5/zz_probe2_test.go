package t5

import (
	"fmt"
	"strconv"
	"testing"

	gpb "github.com/openconfig/gnmi/proto/gnmi"
	"github.com/openconfig/ygot/gnmidiff"
	"github.com/openconfig/ygot/ytypes"
	"verifharness/variants"
)

func itemPath(key string, rest ...string) *gpb.Path {
	p := &gpb.Path{Elem: []*gpb.PathElem{{Name: "items"}, {Name: "item", Key: map[string]string{"name": key}}}}
	for _, r := range rest {
		p.Elem = append(p.Elem, &gpb.PathElem{Name: r})
	}
	return p
}

func TestProbe2(t *testing.T) {
	for _, vn := range []string{"", "vocu", "vocc"} {
		var sch func() *ytypes.Schema = func() *ytypes.Schema { return nil }
		if vn != "" {
			v := variants.Get(vn)
			sch = v.FreshSchema
		}
		fmt.Println("=========== schema", vn)
		for _, key := range []string{`a b`, `a/b`, `a\b`, `a//b`, `a/../b`, `a]/b`, `a[b`, `a]b`, `a=b`, `a"b`, `é世`, `a/./b`, `/a`, `a/`, `..`, `a:b`} {
			a := &gpb.SetRequest{Update: []*gpb.Update{
				{Path: itemPath(key, "config", "mtu"), Val: &gpb.TypedValue{Value: &gpb.TypedValue_UintVal{UintVal: 100}}},
				{Path: itemPath(key, "name"), Val: &gpb.TypedValue{Value: &gpb.TypedValue_StringVal{StringVal: key}}},
			}}
			doc := `{"item":[{"name":` + strconv.Quote(key) + `,"config":{"mtu":100}}]}`
			b := &gpb.SetRequest{Update: []*gpb.Update{
				{Path: &gpb.Path{Elem: []*gpb.PathElem{{Name: "items"}}}, Val: &gpb.TypedValue{Value: &gpb.TypedValue_JsonIetfVal{JsonIetfVal: []byte(doc)}}},
			}}
			doc2 := `{"name":` + strconv.Quote(key) + `,"config":{"mtu":100}}`
			c := &gpb.SetRequest{Update: []*gpb.Update{
				{Path: itemPath(key), Val: &gpb.TypedValue{Value: &gpb.TypedValue_JsonIetfVal{JsonIetfVal: []byte(doc2)}}},
			}}
			show(t, fmt.Sprintf("key %q leaf-vs-json@items", key), a, b, sch())
			show(t, fmt.Sprintf("key %q leaf-vs-json@entry", key), a, c, sch())
		}
		// identityref prefixed string_val, json scalar, module-prefixed member names, augment
		a := &gpb.SetRequest{Update: []*gpb.Update{
			{Path: itemPath("x", "config", "kind"), Val: &gpb.TypedValue{Value: &gpb.TypedValue_StringVal{StringVal: "voc-types:KIND_A"}}},
			{Path: itemPath("x", "config", "extra"), Val: &gpb.TypedValue{Value: &gpb.TypedValue_JsonIetfVal{JsonIetfVal: []byte(`"e"`)}}},
			{Path: itemPath("x", "config", "lon"), Val: &gpb.TypedValue{Value: &gpb.TypedValue_IntVal{IntVal: -7}}},
			{Path: itemPath("x", "config", "alias"), Val: &gpb.TypedValue{Value: &gpb.TypedValue_UintVal{UintVal: 7}}},
			{Path: itemPath("x", "config", "level"), Val: &gpb.TypedValue{Value: &gpb.TypedValue_StringVal{StringVal: "MID"}}},
			{Path: itemPath("x", "config", "secret"), Val: &gpb.TypedValue{Value: &gpb.TypedValue_BytesVal{BytesVal: []byte{1, 2, 3}}}},
			{Path: itemPath("x", "config", "levels"), Val: &gpb.TypedValue{Value: &gpb.TypedValue_LeaflistVal{LeaflistVal: &gpb.ScalarArray{Element: []*gpb.TypedValue{{Value: &gpb.TypedValue_StringVal{StringVal: "LOW"}}}}}}},
			{Path: itemPath("x", "augc", "config", "z"), Val: &gpb.TypedValue{Value: &gpb.TypedValue_UintVal{UintVal: 9}}},
		}}
		doc := `{"voc:config":{"kind":"voc-types:KIND_A","voc-aug:extra":"e","lon":"-7","alias":7,"level":"MID","secret":"AQID","levels":["LOW"]},"voc-aug:augc":{"config":{"z":9}}}`
		b := &gpb.SetRequest{Update: []*gpb.Update{
			{Path: itemPath("x"), Val: &gpb.TypedValue{Value: &gpb.TypedValue_JsonIetfVal{JsonIetfVal: []byte(doc)}}},
		}}
		show(t, "types leaf-vs-json@entry", a, b, sch())
		// notifications
		n := []*gpb.Notification{{Prefix: &gpb.Path{Elem: []*gpb.PathElem{{Name: "items"}}}, Update: []*gpb.Update{
			{Path: &gpb.Path{Elem: itemPath("x", "config", "kind").Elem[1:]}, Val: &gpb.TypedValue{Value: &gpb.TypedValue_StringVal{StringVal: "KIND_A"}}},
			{Path: &gpb.Path{Elem: itemPath("x", "config", "mtu").Elem[1:]}, Val: &gpb.TypedValue{Value: &gpb.TypedValue_UintVal{UintVal: 5}}},
			{Path: &gpb.Path{Elem: itemPath("q", "config", "mtu").Elem[1:]}, Val: &gpb.TypedValue{Value: &gpb.TypedValue_UintVal{UintVal: 5}}},
		}}}
		sr := &gpb.SetRequest{Delete: []*gpb.Path{itemPath("x", "config", "mtu"), {Elem: []*gpb.PathElem{{Name: "items"}, {Name: "item"}}}}, Update: a.Update[:1]}
		d, err := gnmidiff.DiffSetRequestToNotifications(sr, n, sch())
		fmt.Printf("notifs: err=%v\n%s\n", err, d.Format(gnmidiff.Format{Full: true}))
		sr = &gpb.SetRequest{Delete: []*gpb.Path{{Elem: []*gpb.PathElem{{Name: "items"}}}}, Update: a.Update[:1]}
		d, err = gnmidiff.DiffSetRequestToNotifications(sr, n, sch())
		fmt.Printf("notifs2: err=%v\n%s\n", err, d.Format(gnmidiff.Format{Full: true}))
	}
}
