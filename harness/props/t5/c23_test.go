package t5

import (
	"fmt"
	"reflect"
	"sort"
	"strings"
	"testing"

	gpb "github.com/openconfig/gnmi/proto/gnmi"
	"github.com/openconfig/ygot/gnmidiff"
	"github.com/openconfig/ygot/ytypes"
	"google.golang.org/protobuf/proto"
	"pgregory.net/rapid"
	"verifharness/ev"
	"verifharness/model"
	"verifharness/th"
	"verifharness/variants"
)

// ---- reference: what a request's intent writes and deletes (on the path view) ------------------------------------

type intent struct {
	writes  []int // sorted leaf indexes written by replaces and updates
	deleted []int // anchors of deleted / replaced subtrees (non-leaf paths)
}

func (w *world) intentOf(r *request) intent {
	var it intent
	wr := w.written(r)
	for l := range wr {
		it.writes = append(it.writes, l)
	}
	sort.Ints(it.writes)
	for _, o := range r.dels {
		if o.leaf < 0 {
			it.deleted = append(it.deleted, o.anchor)
		}
	}
	for _, o := range r.reps {
		if o.leaf < 0 {
			it.deleted = append(it.deleted, o.anchor)
		}
	}
	sort.Ints(it.deleted)
	return it
}

// ---- notifications ---------------------------------------------------------------------------------------------------

// nitem is one update of a notification: a leaf (with an optional value override) or a JSON document.
type nitem struct {
	op
}

type notif struct {
	prefixLen int
	items     []nitem
}

func (w *world) renderNotifs(ns []notif, rc renderCfg) []*gpb.Notification {
	var out []*gpb.Notification
	for i, n := range ns {
		pn := &gpb.Notification{Timestamp: int64(1000 + i)}
		if n.prefixLen > 0 {
			pn.Prefix = model.PathProto(w.opElems(n.items[0].op)[:n.prefixLen])
			if rc.legacyPrefix {
				pn.Prefix = legacyPath(pn.Prefix)
			}
		}
		for _, it := range n.items {
			if it.leaf >= 0 {
				l := w.leaves[it.leaf]
				pn.Update = append(pn.Update, &gpb.Update{Path: w.relPath(l.elems, n.prefixLen), Val: w.leafTV(l, it.enc, rc, it.val, it.ll)})
			} else {
				pn.Update = append(pn.Update, w.opUpdate(it.op, n.prefixLen, rc))
			}
		}
		out = append(out, pn)
	}
	return out
}

func notifsText(ns []*gpb.Notification) string {
	var sb strings.Builder
	for i, n := range ns {
		fmt.Fprintf(&sb, "-- notification %d --\n%s", i, ptext(n))
	}
	return sb.String()
}

// genNotifs spreads the leaves over 1-3 notifications; leaves in forceLeaf always travel as single leaf updates,
// the others are sometimes grouped into JSON_IETF documents that carry exactly a subset of `leaves`.
func (w *world) genNotifs(rt *rapid.T, leaves []int, forceLeaf map[int]bool, over map[int]nitem, md mode) []notif {
	nn := rapid.SampledFrom([]int{1, 1, 2, 3}).Draw(rt, "n-notifs")
	ns := make([]notif, nn)
	jsonPct := rapid.SampledFrom([]int{0, 0, 30, 70}).Draw(rt, "notif-json")
	rem := append([]int(nil), leaves...)
	inRem := func(i int) bool {
		for _, x := range rem {
			if x == i {
				return true
			}
		}
		return false
	}
	for guard := 0; len(rem) > 0 && guard < 500; guard++ {
		l0 := rem[0]
		var it nitem
		made := false
		if !forceLeaf[l0] && rapid.IntRange(0, 99).Draw(rt, "notif-json?") < jsonPct {
			var cand []int
			for _, x := range rem {
				if !forceLeaf[x] {
					cand = append(cand, x)
				}
			}
			if o, ok := w.genJSONGroup(rt, l0, cand, md, func(i int) bool { return inRem(i) && !forceLeaf[i] }); ok {
				it, made = nitem{op: o}, true
			}
		}
		if !made {
			it = nitem{op: op{leaf: l0, anchor: -1, enc: w.drawEnc(rt, w.leaves[l0], md)}}
			if ov, ok := over[l0]; ok {
				it.val, it.ll = ov.val, ov.ll
			}
		}
		k := rapid.IntRange(0, nn-1).Draw(rt, "which-notif")
		ns[k].items = append(ns[k].items, it)
		in := map[int]bool{}
		for _, l := range w.opLeaves(it.op) {
			in[l] = true
		}
		var nrem []int
		for _, x := range rem {
			if !in[x] {
				nrem = append(nrem, x)
			}
		}
		rem = nrem
	}
	var out []notif
	for _, n := range ns {
		if len(n.items) == 0 {
			continue
		}
		r := &request{}
		for _, it := range n.items {
			r.upds = append(r.upds, it.op)
		}
		if c := w.lcp(r); c > 0 && rapid.IntRange(0, 1).Draw(rt, "notif-prefix") == 1 {
			n.prefixLen = rapid.IntRange(1, c).Draw(rt, "notif-prefix-len")
		}
		out = append(out, n)
	}
	return out
}

// ---- result plumbing ----------------------------------------------------------------------------------------------------

type n2Res struct {
	d     gnmidiff.SetToNotifsDiff
	err   error
	panic interface{}
}

func runS2N(sr *gpb.SetRequest, ns []*gpb.Notification, sch *ytypes.Schema) (res n2Res) {
	defer func() {
		if p := recover(); p != nil {
			res.panic = p
		}
	}()
	cp := make([]*gpb.Notification, len(ns))
	for i, n := range ns {
		cp[i] = proto.Clone(n).(*gpb.Notification)
	}
	res.d, res.err = gnmidiff.DiffSetRequestToNotifications(proto.Clone(sr).(*gpb.SetRequest), cp, sch)
	return res
}

func (r n2Res) String() string {
	switch {
	case r.panic != nil:
		return fmt.Sprintf("PANIC: %v", r.panic)
	case r.err != nil:
		return fmt.Sprintf("error: %v", r.err)
	}
	return r.d.Format(gnmidiff.Format{Full: true})
}

func keysOf(m interface{}) []string {
	v := reflect.ValueOf(m)
	var out []string
	for _, k := range v.MapKeys() {
		out = append(out, k.String())
	}
	sort.Strings(out)
	return out
}

func sameStrs(a, b []string) bool {
	if len(a) != len(b) {
		return false
	}
	for i := range a {
		if a[i] != b[i] {
			return false
		}
	}
	return true
}

// symDiff returns the strings that are in exactly one of the two sorted sets.
func symDiff(a, b []string) []string {
	in := map[string]int{}
	for _, x := range a {
		in[x] |= 1
	}
	for _, x := range b {
		in[x] |= 2
	}
	var out []string
	for k, v := range in {
		if v != 3 {
			out = append(out, k)
		}
	}
	sort.Strings(out)
	return out
}

// expectation of one DiffSetRequestToNotifications call, as sets of the harness's own path strings
type expect struct{ missing, extra, mismatched, common []string }

// verdictFault compares the result with the expectation; it returns a description and the paths on which they
// disagree ("" = as expected).
func verdictFault(d gnmidiff.SetToNotifsDiff, e expect) (string, []string) {
	var f []string
	var bad []string
	chk := func(name string, got, want []string) {
		if !sameStrs(got, want) {
			f = append(f, fmt.Sprintf("%s = %q, want %q", name, got, want))
			bad = append(bad, symDiff(got, want)...)
		}
	}
	chk("missing", keysOf(d.MissingUpdates), e.missing)
	chk("extra", keysOf(d.ExtraUpdates), e.extra)
	chk("mismatched", keysOf(d.MismatchedUpdates), e.mismatched)
	chk("common", keysOf(d.CommonUpdates), e.common)
	sort.Strings(bad)
	return strings.Join(f, "; "), bad
}

func (w *world) paths(ls []int) []string {
	out := make([]string, 0, len(ls))
	for _, l := range ls {
		out = append(out, w.leaves[l].path)
	}
	sort.Strings(out)
	return out
}

// ---- witnesses -----------------------------------------------------------------------------------------------------------

// witnessS2N: notifications carry exactly the leaves the request writes, yet something is reported.
func witnessS2N(sr *gpb.SetRequest, ns []*gpb.Notification, md mode, wantCommon int) (bool, string) {
	res := runS2N(sr, ns, md.schema())
	if res.panic != nil {
		return true, fmt.Sprintf("DiffSetRequestToNotifications panics: %v", res.panic)
	}
	if res.err != nil {
		return false, ""
	}
	if len(res.d.MissingUpdates)+len(res.d.ExtraUpdates)+len(res.d.MismatchedUpdates) > 0 || len(res.d.CommonUpdates) != wantCommon {
		return true, fmt.Sprintf("DiffSetRequestToNotifications(%s | %s, %s): missing %v extra %v mismatched %v common %v (want %d common, nothing else)",
			ptextLine(sr), ptextLine(ns[0]), md, keysOf(res.d.MissingUpdates), keysOf(res.d.ExtraUpdates), keysOf(res.d.MismatchedUpdates), keysOf(res.d.CommonUpdates), wantCommon)
	}
	return false, ""
}

func registerC23Witnesses(rec *ev.Rec) {
	jsonReqLeafNotifs := func(key string, md mode) (*gpb.SetRequest, []*gpb.Notification) {
		leaves, doc := leafVsItemsJSON(key, md)
		return doc, []*gpb.Notification{{Timestamp: 1, Update: leaves.Update}}
	}
	rec.Witness(F17Esc, func() (bool, string) {
		sr, ns := jsonReqLeafNotifs("a=b", mNil)
		return witnessS2N(sr, ns, mNil, 2)
	})
	rec.Witness(F17Num, func() (bool, string) {
		sub := func(rest ...string) *gpb.Path {
			p := itemP("x", "subs")
			p.Elem = append(p.Elem, &gpb.PathElem{Name: "sub", Key: map[string]string{"index": "1000000"}})
			for _, r := range rest {
				p.Elem = append(p.Elem, &gpb.PathElem{Name: r})
			}
			return p
		}
		ns := []*gpb.Notification{{Timestamp: 1, Update: []*gpb.Update{{Path: sub("index"), Val: uintTV(1000000)}, {Path: sub("config", "descr"), Val: strTV("d")}}}}
		sr := &gpb.SetRequest{Update: []*gpb.Update{{Path: itemP("x", "subs"), Val: jsonTV(`{"sub":[{"index":1000000,"config":{"descr":"d"}}]}`)}}}
		return witnessS2N(sr, ns, mNil, 2)
	})
	rec.Witness(F10BS, func() (bool, string) {
		sr, ns := jsonReqLeafNotifs(`a\b`, mVocu)
		return witnessS2N(sr, ns, mVocu, 2)
	})
	rec.Witness(F10PC, func() (bool, string) {
		sr, ns := jsonReqLeafNotifs("a//b", mNil)
		return witnessS2N(sr, ns, mNil, 2)
	})
}

// ---- C23 -------------------------------------------------------------------------------------------------------------------

const (
	edNone   = "edit:none-possible"
	edDrop   = "edit:drop-leaf"
	edChange = "edit:change-value"
	edAdd    = "edit:add-leaf-under-deleted"
)

// changedValue draws a value for leaf l that differs from the tree's.
func (w *world) changedValue(rt *rapid.T, l *wleaf) (*model.Val, []model.Val, bool) {
	v := variants.Get("vocu")
	o := model.GenOpts{}
	if l.isLL() {
		// a different sequence: drop an element, or replace one by a value that does not occur
		if len(l.ll) > 1 && rapid.Bool().Draw(rt, "ll-shorter") {
			i := rapid.IntRange(0, len(l.ll)-1).Draw(rt, "ll-drop")
			nl := append(append([]model.Val(nil), l.ll[:i]...), l.ll[i+1:]...)
			return nil, nl, true
		}
		for tries := 0; tries < 8; tries++ {
			nv := model.GenVal(rt, v, l.f.Type, o, "changed")
			fresh := true
			for _, x := range l.ll {
				if x.LooseCanon() == nv.LooseCanon() {
					fresh = false
				}
			}
			if fresh {
				i := rapid.IntRange(0, len(l.ll)-1).Draw(rt, "ll-change")
				nl := append([]model.Val(nil), l.ll...)
				nl[i] = nv
				return nil, nl, true
			}
		}
		return nil, nil, false
	}
	for tries := 0; tries < 8; tries++ {
		nv := model.GenVal(rt, v, l.f.Type, o, "changed")
		if nv.LooseCanon() != l.v.LooseCanon() && nv.Lexical() != l.v.Lexical() {
			return &nv, nil, true
		}
	}
	return nil, nil, false
}

// C23: gnmidiff SetRequest-to-notifications diff classifies leaves exactly (DESIGN.md 5/C23).
func TestC23(t *testing.T) {
	rec := ev.Start(t, "C23")
	rec.Rule("uncompressed OpenConfig-style voc tree (config only) -> conflict-free SetRequest over it (as C22: deletes, leaf/JSON replaces, leaf/JSON updates, prefix) -> harness reference of its intent " +
		"(leaf path -> value written; deleted / replaced subtrees) -> 1-3 notifications (own renderer: one scalar TypedValue update per leaf, sometimes JSON_IETF documents carrying exactly a subset, optional prefix) " +
		"x schema argument (nil | vocu | compressed vocc); oracle: with exactly the written leaves nothing is missing/extra/mismatched and every written leaf is common; then one edit: drop one leaf -> exactly that leaf missing; " +
		"change one value -> exactly that leaf mismatched; add one unwritten leaf strictly below a deleted/replaced subtree -> exactly that leaf extra; all other leaves stay common; " +
		"non-trivial = request has a delete or replace and writes >= 3 leaves; distinct by schema mode + prototext of request and edited notifications")
	rec.Assume("without a schema only lossless scalar encodings are used (64-bit integers, decimal64 in RFC 7951 form; identityrefs spelled as in the documents)")
	rec.Assume("'under a deleted or replaced subtree' is taken as strictly below a deleted/replaced container, list entry or root; a leaf that reappears at a deleted leaf path, and entries of a list deleted by its key-less path (gnmidiff: 'TODO: handle wildcards'), are observed only (extra observation counters)")
	rec.Assume("a call that returns an error gives no classification and is not judged (budgeted by a generator-health threshold)")
	registerC23Witnesses(rec)

	var cases, errCases, excused int
	errKinds := map[string]int{}
	cl := map[string]int{}
	rapid.Check(t, func(rt *rapid.T) {
		md := mode(rapid.IntRange(0, 2).Draw(rt, "mode"))
		w := genWorld(rt, true)
		gc := genCfg{md: md}
		req := w.genRequest(rt, gc)
		it := w.intentOf(req)
		rc := renderCfg{md: md, jo: model.JSONOpts{Prefix: rapid.Bool().Draw(rt, "json-prefix"), IdentPrefix: rapid.Bool().Draw(rt, "ident-prefix")}, legacyPrefix: rapid.IntRange(0, 5).Draw(rt, "legacy-prefix") == 0}
		written := map[int]bool{}
		for _, l := range it.writes {
			written[l] = true
		}

		// choose the edit
		var dropC, changeC, addC []int
		for _, l := range it.writes {
			dropC = append(dropC, l)
			lf := w.leaves[l]
			if lf.keyOf < 0 && !(lf.partner >= 0 && w.leaves[lf.partner].keyOf >= 0) {
				changeC = append(changeC, l)
			}
		}
		for _, lf := range w.leaves {
			if written[lf.idx] {
				continue
			}
			for _, a := range it.deleted {
				if lf.under(a) {
					addC = append(addC, lf.idx)
					break
				}
			}
		}
		edit := edNone
		target := -1
		var kinds []string
		if len(dropC) > 0 {
			kinds = append(kinds, edDrop)
		}
		if len(changeC) > 0 {
			kinds = append(kinds, edChange)
		}
		if len(addC) > 0 {
			kinds = append(kinds, edAdd, edAdd) // rarer to be possible: weight it up
		}
		over := map[int]nitem{}
		if len(kinds) > 0 {
			edit = rapid.SampledFrom(kinds).Draw(rt, "edit")
			switch edit {
			case edDrop:
				target = pick(rt, dropC, "drop")
			case edChange:
				target = pick(rt, changeC, "change")
				nv, nl, ok := w.changedValue(rt, w.leaves[target])
				if !ok {
					edit, target = edDrop, pick(rt, dropC, "drop")
				} else {
					over[target] = nitem{op: op{val: nv, ll: nl}}
				}
			case edAdd:
				target = pick(rt, addC, "add")
			}
		}
		// the edited leaf (and, for the compressed schema, its twin) always travels as a single leaf update, so
		// that the edit is exactly one leaf
		force := map[int]bool{}
		if target >= 0 {
			force[target] = true
			if p := w.leaves[target].partner; p >= 0 {
				force[p] = true
			}
		}
		base := w.genNotifs(rt, it.writes, force, nil, md)
		var editedLeaves []int
		switch edit {
		case edDrop:
			for _, l := range it.writes {
				if l != target {
					editedLeaves = append(editedLeaves, l)
				}
			}
		case edAdd:
			editedLeaves = append(append([]int(nil), it.writes...), target)
			sort.Ints(editedLeaves)
		default:
			editedLeaves = it.writes
		}
		// the edited notifications keep the shape of the base ones: same grouping, the target removed / overridden / appended
		edited := make([]notif, 0, len(base)+1)
		for _, n := range base {
			c := notif{prefixLen: n.prefixLen}
			for _, x := range n.items {
				if x.leaf >= 0 && x.leaf == target {
					switch edit {
					case edDrop:
						continue
					case edChange:
						x.val, x.ll = over[target].val, over[target].ll
					}
				}
				c.items = append(c.items, x)
			}
			if len(c.items) > 0 {
				edited = append(edited, c)
			}
		}
		if edit == edAdd {
			x := nitem{op: op{leaf: target, anchor: -1, enc: w.drawEnc(rt, w.leaves[target], md)}}
			if len(edited) > 0 && rapid.Bool().Draw(rt, "add-into-existing") {
				k := rapid.IntRange(0, len(edited)-1).Draw(rt, "add-into")
				// the prefix of that notification must still fit
				r := &request{}
				for _, y := range edited[k].items {
					r.upds = append(r.upds, y.op)
				}
				r.upds = append(r.upds, x.op)
				if c := w.lcp(r); c < edited[k].prefixLen {
					edited[k].prefixLen = c
				}
				edited[k].items = append(edited[k].items, x)
			} else {
				edited = append(edited, notif{items: []nitem{x}})
			}
		}

		sr := w.render(req, rc)
		nb, ne := w.renderNotifs(base, rc), w.renderNotifs(edited, rc)
		ts, tnb, tne := ptext(sr), notifsText(nb), notifsText(ne)
		entries := w.touchedEntries(req)
		nontrivial := (len(req.dels) > 0 || len(req.reps) > 0) && len(it.writes) >= 3
		classes := append([]string{md.String(), edit}, w.keyClasses(entries)...)
		classes = append(classes, w.opClasses(req)...)
		if len(entries) > 0 {
			classes = append(classes, "req:list-entry")
		}
		if len(it.writes) >= 3 {
			classes = append(classes, "req:>=3-leaves")
		}
		if len(it.deleted) > 0 {
			classes = append(classes, "req:deleted-or-replaced-subtree")
		}
		for _, n := range base {
			if n.prefixLen > 0 {
				classes = append(classes, "notif:prefix")
				break
			}
		}
		jsonNotif := false
		for _, n := range base {
			for _, x := range n.items {
				jsonNotif = jsonNotif || x.leaf < 0
			}
		}
		if jsonNotif {
			classes = append(classes, "notif:json-document")
		}
		if len(base) > 1 {
			classes = append(classes, "notif:several")
		}
		seen := map[string]bool{}
		var ucl []string
		for _, c := range classes {
			if !seen[c] {
				seen[c] = true
				ucl = append(ucl, c)
			}
		}
		rec.Case(md.String()+"\n"+ts+"\n--\n"+tne, nontrivial, ucl...)
		cases++
		for _, c := range ucl {
			cl[c]++
		}
		if nontrivial {
			cl["nontrivial"]++
		}
		if rec.WantSample() {
			rec.Sample(map[string]string{"schema": md.String(), "setrequest": th.Trunc(ts, 1500), "edit": edit, "notifications(edited)": th.Trunc(tne, 1500)})
		}

		sch := md.schema()
		describe := func(what string, ntext string, res n2Res) string {
			tgt := ""
			if target >= 0 {
				tgt = w.leaves[target].path
			}
			return fmt.Sprintf("%s\nschema: %s  edit: %s %s\n---- SetRequest ----\n%s\n---- reference intent: writes %q deleted/replaced subtrees %v ----\n---- notifications ----\n%s\n---- result ----\n%s\n",
				what, md, edit, tgt, ts, w.paths(it.writes), w.anchorPaths(it.deleted), ntext, res)
		}
		judge := func(stage string, ns []*gpb.Notification, ntext string, e expect) bool {
			res := runS2N(sr, ns, sch)
			if res.panic != nil {
				rt.Fatalf("%s", describe(stage+": DiffSetRequestToNotifications panicked", ntext, res))
			}
			if res.err != nil {
				errCases++
				errKinds[errClass(res.err)]++
				return false
			}
			if f, bad := verdictFault(res.d, e); f != "" {
				if ok, ids := w.explained(bad, md, rec.Active); ok {
					for _, id := range ids {
						rec.Excuse(id, true)
					}
					excused++
					return false
				}
				rt.Fatalf("%s", describe(stage+": wrong classification: "+f, ntext, res))
			}
			return true
		}
		all := w.paths(it.writes)
		if !judge("exact notifications", nb, tnb, expect{common: all}) {
			return
		}
		if target < 0 {
			return
		}
		tp := []string{w.leaves[target].path}
		rest := w.paths(without(it.writes, target))
		switch edit {
		case edDrop:
			judge("one leaf dropped", ne, tne, expect{missing: tp, common: rest})
		case edChange:
			judge("one value changed", ne, tne, expect{mismatched: tp, common: rest})
		case edAdd:
			judge("one leaf added under a deleted/replaced subtree", ne, tne, expect{extra: tp, common: all})
		}
		_ = editedLeaves

		// observations outside the statement (never a failure): a deleted leaf that is still reported
		for _, o := range req.dels {
			if o.leaf < 0 || written[o.leaf] {
				continue
			}
			x := []notif{{items: []nitem{{op: op{leaf: o.leaf, anchor: -1, enc: encScalar}}}}}
			res := runS2N(sr, append(append([]*gpb.Notification(nil), nb...), w.renderNotifs(x, rc)...), sch)
			if res.err == nil && res.panic == nil {
				rec.Add("obs_deleted_leaf_still_present", 1)
				if _, ok := res.d.ExtraUpdates[w.leaves[o.leaf].path]; !ok {
					rec.Add("obs_deleted_leaf_still_present_not_reported_extra", 1)
				}
			}
			break
		}
	})

	if cases >= 100 {
		frac := func(c string) float64 { return float64(cl[c]) / float64(cases) }
		need := func(c string, min float64) {
			if frac(c) < min {
				t.Errorf("INCONCLUSIVE: class %q occurred in %.2f%% of %d cases (need >= %.2f%%)", c, 100*frac(c), cases, 100*min)
			}
		}
		need(edDrop, 0.15)
		need(edChange, 0.15)
		need(edAdd, 0.10)
		need("schema:nil", 0.2)
		need("schema:vocu", 0.2)
		need("schema:vocc", 0.2)
		need("nontrivial", 0.3)
		need("req:list-entry", 0.5)
		need("op:delete", 0.25)
		need("op:replace-leaf", 0.08)
		need("op:update-leaf", 0.3)
		need("op:update-json-entry", 0.1)
		need("notif:json-document", 0.1)
		need("notif:prefix", 0.08)
		need("val:leaf-list", 0.15)
		need("val:enum", 0.15)
		need("val:identityref", 0.10)
		need("key:numeric", 0.10)
		need("key:slash", 0.02)
		if cases >= 250 {
			need("op:replace-json-entry", 0.03)
			need("op:replace-json-container", 0.03)
			need("key:needs-escape(=])", 0.004)
		}
		if f := float64(errCases) / float64(cases); f > 0.15 {
			t.Errorf("INCONCLUSIVE: DiffSetRequestToNotifications returned an error in %.1f%% of %d cases (budget 15%%): %v", 100*f, cases, errKinds)
		}
	}
	rec.Set("diff_error_cases", errCases)
	rec.Set("diff_error_kinds", fmt.Sprint(errKinds))
	rec.Set("excused_cases", excused)
}

func without(l []int, x int) []int {
	var out []int
	for _, y := range l {
		if y != x {
			out = append(out, y)
		}
	}
	return out
}

func (w *world) anchorPaths(as []int) []string {
	var out []string
	for _, a := range as {
		p := w.anchors[a].path
		if p == "" {
			p = "/"
		}
		out = append(out, p)
	}
	return out
}
