// Package t5 holds the gnmidiff checks C22 (SetRequest intent diff) and C23 (SetRequest -> notifications).
//
// Shared machinery of both checks: a "world" (a generated uncompressed data tree with its leaves and its
// struct-valued positions), abstract requests over it (deletes, replaces, updates as sets of leaves below an
// anchor), their rendering to gNMI messages with the harness's own JSON / TypedValue renderers, the harness's
// own path strings, and the trigger-region predicates of the known findings that reach gnmidiff.
package t5

import (
	"bytes"
	"encoding/json"
	"fmt"
	"github.com/openconfig/ygot/ygot"
	stdpath "path"
	"sort"
	"strings"

	gpb "github.com/openconfig/gnmi/proto/gnmi"
	"github.com/openconfig/ygot/ytypes"
	"google.golang.org/protobuf/encoding/prototext"
	"google.golang.org/protobuf/proto"
	"pgregory.net/rapid"
	"verifharness/model"
	"verifharness/variants"
)

// ---- modes ------------------------------------------------------------------------------------------------

// mode says which schema argument gnmidiff gets. The data tree always is the uncompressed OpenConfig-style
// tree of the voc corpus (what gNMI paths address); the compressed schema sees it through its path tags.
type mode int

const (
	mNil  mode = iota // schema == nil: OpenConfig-style JSON is assumed by gnmidiff
	mVocu             // uncompressed generated schema
	mVocc             // compressed generated schema (prefer config, shadow paths ignored)
)

func (m mode) String() string { return [...]string{"schema:nil", "schema:vocu", "schema:vocc"}[m] }

func (m mode) schema() *ytypes.Schema {
	switch m {
	case mVocu:
		return variants.Get("vocu").FreshSchema()
	case mVocc:
		return variants.Get("vocc").FreshSchema()
	}
	return nil
}

// ---- world ------------------------------------------------------------------------------------------------

type wleaf struct {
	idx     int
	elems   []model.PElem
	f       *model.FieldInfo
	owner   *model.Node
	v       model.Val
	ll      []model.Val
	anc     []int // enclosing anchors from the root (anchor 0) down to the parent
	keyOf   int   // anchor index of the list entry whose list-level key leaf this is (-1 otherwise)
	partner int   // key leaf <-> the in-entry leaf its leafref points to (config/<key>); -1 if none
	path    string
}

func (l *wleaf) isLL() bool { return l.f.Kind == model.FLeafList }

type wanchor struct {
	idx       int
	elems     []model.PElem
	node      *model.Node
	entry     bool
	anc       []int // ancestors from the root down to and including itself
	keyLeaves []int
	path      string
	voccOK    bool // the compressed schema has a struct at this path
	trig      []string
}

type world struct {
	m       *model.Node
	leaves  []*wleaf
	anchors []*wanchor
	byID    map[string]int // leaf path id -> leaf index
}

func isPrefixElems(p, q []model.PElem) bool {
	if len(p) > len(q) {
		return false
	}
	return model.ElemsID(p) == model.ElemsID(q[:len(p)])
}

// newWorld indexes tree m (variant vocu).
func newWorld(m *model.Node) *world {
	w := &world{m: m, byID: map[string]int{}}
	vocc := variants.Get("vocc")
	sites := model.Sites(m)
	siteIdx := map[*model.Node]int{}
	for i, s := range sites {
		a := &wanchor{idx: i, elems: s.Elems, node: s.N, path: pathStr(s.Elems)}
		a.entry = len(s.Elems) > 0 && s.Elems[len(s.Elems)-1].Keys != nil
		if len(s.Elems) == 0 {
			a.voccOK = true
		} else if r, err := vocc.ResolvePath(model.PathProto(s.Elems)); err == nil && r.Last != nil &&
			(r.Last.Kind == model.FCont || r.AtEntry) {
			a.voccOK = true
		}
		siteIdx[s.N] = i
		w.anchors = append(w.anchors, a)
	}
	// ancestors: sites are produced in pre-order, so the parent of a site is the closest earlier site whose
	// path is a proper prefix.
	for i, a := range w.anchors {
		for j := i - 1; j >= 0; j-- {
			if len(w.anchors[j].elems) < len(a.elems) && isPrefixElems(w.anchors[j].elems, a.elems) {
				a.anc = append(append([]int(nil), w.anchors[j].anc...), i)
				break
			}
		}
		if a.anc == nil {
			a.anc = []int{i}
		}
		if a.entry {
			a.trig = entryTriggers(a.elems[len(a.elems)-1])
		}
	}
	for _, in := range model.Instances(m, nil, model.InstOpts{}) {
		ai, ok := siteIdx[in.Owner]
		if !ok {
			panic("HARNESS-BUG: leaf owner is not a site: " + in.ID())
		}
		l := &wleaf{idx: len(w.leaves), elems: in.Elems, f: in.F, owner: in.Owner, v: in.V, ll: in.LL, keyOf: -1, partner: -1,
			anc: w.anchors[ai].anc, path: pathStr(in.Elems)}
		if in.F.IsKey && w.anchors[ai].entry {
			l.keyOf = ai
			w.anchors[ai].keyLeaves = append(w.anchors[ai].keyLeaves, l.idx)
		}
		w.byID[in.ID()] = l.idx
		w.leaves = append(w.leaves, l)
	}
	// partners: key leaf `k` with leafref ../config/k  <->  config/k
	for _, l := range w.leaves {
		if l.keyOf < 0 || l.f.Type == nil || l.f.Type.Leafref == "" {
			continue
		}
		lp := model.ParseLeafrefPath(l.f.Type.Leafref)
		if lp.Absolute || len(lp.Steps) < 2 || !lp.Steps[0].Up {
			continue
		}
		el := append([]model.PElem(nil), w.anchors[l.keyOf].elems...)
		ok := true
		for _, s := range lp.Steps[1:] {
			if s.Up {
				ok = false
				break
			}
			el = append(el, model.PElem{Name: s.Name})
		}
		if !ok {
			continue
		}
		if pi, have := w.byID[model.ElemsID(el)]; have {
			l.partner = pi
			w.leaves[pi].partner = l.idx
		}
	}
	return w
}

func (l *wleaf) under(a int) bool {
	for _, x := range l.anc {
		if x == a {
			return true
		}
	}
	return false
}

// ---- the harness's own path strings -------------------------------------------------------------------------

// pathStr renders a data-tree path the way gnmidiff documents its map keys ("string representation of a
// gpb.Path"): /name[key=value].../name, keys sorted by name, '=' and ']' in values escaped with a backslash.
// The root is "".
func pathStr(el []model.PElem) string { return pathStrOpt(el, true, false) }

func pathStrOpt(el []model.PElem, escape, gfmt bool) string {
	var sb strings.Builder
	for _, e := range el {
		sb.WriteByte('/')
		sb.WriteString(e.Name)
		ks := make([]string, 0, len(e.Keys))
		for k := range e.Keys {
			ks = append(ks, k)
		}
		sort.Strings(ks)
		for _, k := range ks {
			v := model.KeyString(e.Keys[k])
			if gfmt && numericJSONKey(e.Keys[k]) {
				v = gForm(e.Keys[k])
			}
			if escape {
				v = strings.ReplaceAll(v, `=`, `\=`)
				v = strings.ReplaceAll(v, `]`, `\]`)
			}
			sb.WriteString("[" + k + "=" + v + "]")
		}
	}
	return sb.String()
}

// numericJSONKey: the key value is rendered as a JSON number by RFC 7951 (integers up to 32 bits).
func numericJSONKey(v model.Val) bool {
	return (v.K.Signed() || v.K.Unsigned()) && v.K.Bits() < 64
}

func gForm(v model.Val) string {
	if v.K.Signed() {
		return fmt.Sprintf("%g", float64(v.I))
	}
	return fmt.Sprintf("%g", float64(v.U))
}

// ---- trigger regions of the findings that reach gnmidiff ------------------------------------------------------

const (
	F16    = "F16-gnmidiff-leaflist-panic"
	F17Esc = "F17-gnmidiff-key-escaping"
	F17Num = "F17-gnmidiff-numeric-key-%g"
	F10BS  = "F10-backslash"
	F10PC  = "F10-pathclean"
	F70    = "F70-gnmidiff-leaf-delete-json-write"
)

// key classes of one key value (class labels and trigger regions)
func keyHasEsc(s string) bool { return strings.ContainsAny(s, "=]") }
func keyHasBS(s string) bool  { return strings.Contains(s, `\`) }
func keyPathClean(s string) bool {
	seg := strings.Split(s, "/")
	for i := 1; i < len(seg)-1; i++ {
		if seg[i] == "" || seg[i] == "." || seg[i] == ".." {
			return true
		}
	}
	return false
}
func keyBigNum(v model.Val) bool { return numericJSONKey(v) && gForm(v) != model.KeyString(v) }

// entryTriggers lists the findings in whose trigger region the keys of a list-entry path element lie.
func entryTriggers(e model.PElem) []string {
	var out []string
	add := func(id string) {
		for _, x := range out {
			if x == id {
				return
			}
		}
		out = append(out, id)
	}
	ks := make([]string, 0, len(e.Keys))
	for k := range e.Keys {
		ks = append(ks, k)
	}
	sort.Strings(ks)
	for _, k := range ks {
		v := e.Keys[k]
		s := model.KeyString(v)
		if v.K == model.KStr {
			if keyHasEsc(s) {
				add(F17Esc)
			}
			if keyHasBS(s) {
				add(F10BS)
			}
			if keyPathClean(s) {
				add(F10PC)
			}
		}
		if keyBigNum(v) {
			add(F17Num)
		}
	}
	return out
}

// prefixVariants are the spellings under which gnmidiff may render the path of a list entry whose keys are in
// a trigger region: escaped or raw key values, decimal or %g numbers, and each of them after path.Clean.
func prefixVariants(el []model.PElem) []string {
	var out []string
	for _, esc := range []bool{true, false} {
		for _, g := range []bool{false, true} {
			s := pathStrOpt(el, esc, g)
			out = append(out, s, stdpath.Clean(s))
			// the backslash that StringToStructuredPath swallows
			out = append(out, strings.ReplaceAll(s, `\`, ""))
		}
	}
	return out
}

// explained reports whether every path of `bad` lies below a list entry (touched by the requests) whose keys
// are in the trigger region of a finding for which active(id) holds; it returns the ids used.
func (w *world) explained(bad []string, md mode, active func(string) bool) (bool, []string) {
	type tp struct {
		pre []string
		ids []string
	}
	var tps []tp
	for _, a := range w.anchors {
		if !a.entry || len(a.trig) == 0 {
			continue
		}
		var ids []string
		for _, id := range a.trig {
			if id == F10BS && md == mNil {
				continue // without a schema the path string is never parsed back
			}
			if active(id) {
				ids = append(ids, id)
			}
		}
		if len(ids) > 0 {
			tps = append(tps, tp{prefixVariants(a.elems), ids})
		}
	}
	used := map[string]bool{}
	for _, b := range bad {
		ok := false
		for _, t := range tps {
			for _, p := range t.pre {
				if b == p || strings.HasPrefix(b, p+"/") {
					ok = true
					for _, id := range t.ids {
						used[id] = true
					}
				}
			}
		}
		if !ok {
			return false, nil
		}
	}
	var ids []string
	for id := range used {
		ids = append(ids, id)
	}
	sort.Strings(ids)
	return len(bad) > 0, ids
}

// ---- abstract requests ------------------------------------------------------------------------------------

const (
	encScalar = 0 // scalar TypedValue (leaflist_val for leaf-lists)
	encJSON   = 1 // json_ietf_val holding the RFC 7951 value
	encPfx    = 2 // scalar string_val of an identityref with its module prefix (schema modes)
)

// op is one delete / replace / update.
type op struct {
	leaf   int   // >= 0: the op addresses this leaf directly (value in encoding enc); for deletes: delete of that leaf
	anchor int   // leaf < 0: the op addresses this anchor (deletes: the subtree; else a JSON document with `leaves`)
	leaves []int // sorted leaf indexes carried by a JSON op
	enc    int
	val    *model.Val  // leaf ops: value written instead of the tree's (nil = the tree's value)
	ll     []model.Val // same for leaf-lists
}

func (o op) clone() op { o.leaves = append([]int(nil), o.leaves...); return o }

type request struct {
	prefixLen int
	dels      []op
	reps      []op
	upds      []op
}

func (r *request) clone() *request {
	c := &request{prefixLen: r.prefixLen}
	for _, o := range r.dels {
		c.dels = append(c.dels, o.clone())
	}
	for _, o := range r.reps {
		c.reps = append(c.reps, o.clone())
	}
	for _, o := range r.upds {
		c.upds = append(c.upds, o.clone())
	}
	return c
}

func (w *world) opElems(o op) []model.PElem {
	if o.leaf >= 0 {
		return w.leaves[o.leaf].elems
	}
	return w.anchors[o.anchor].elems
}

func (w *world) opLeaves(o op) []int {
	if o.leaf >= 0 {
		return []int{o.leaf}
	}
	return o.leaves
}

func (r *request) allOps() []op {
	return append(append(append([]op(nil), r.dels...), r.reps...), r.upds...)
}

// lcp is the length of the longest common path prefix of all ops (0 for an empty request).
func (w *world) lcp(r *request) int {
	ops := r.allOps()
	if len(ops) == 0 {
		return 0
	}
	first := w.opElems(ops[0])
	n := len(first)
	for _, o := range ops[1:] {
		el := w.opElems(o)
		if len(el) < n {
			n = len(el)
		}
		for i := 0; i < n; i++ {
			if model.ElemsID(first[i:i+1]) != model.ElemsID(el[i:i+1]) {
				n = i
				break
			}
		}
	}
	return n
}

// written returns how often each leaf is written by the request (replaces and updates).
func (w *world) written(r *request) map[int]int {
	out := map[int]int{}
	for _, o := range append(append([]op(nil), r.reps...), r.upds...) {
		for _, l := range w.opLeaves(o) {
			out[l]++
		}
	}
	return out
}

// closure adds, for JSON documents rooted at anchor a, what a document carrying leaves g necessarily carries
// as well: the key leaves of every list entry strictly below a that holds one of the leaves (OpenConfig style:
// the entry's keys are its direct leaf children), and - for the compressed schema, whose struct has one field
// for `k` and `config/k` - the twin of every key leaf.
func (w *world) closure(g []int, a int, md mode) []int {
	set := map[int]bool{}
	var work []int
	add := func(i int) {
		if !set[i] {
			set[i] = true
			work = append(work, i)
		}
	}
	for _, i := range g {
		add(i)
	}
	depth := len(w.anchors[a].elems)
	for len(work) > 0 {
		i := work[len(work)-1]
		work = work[:len(work)-1]
		l := w.leaves[i]
		for _, x := range l.anc {
			ax := w.anchors[x]
			if ax.entry && len(ax.elems) > depth {
				for _, k := range ax.keyLeaves {
					add(k)
				}
			}
		}
		if md == mVocc && l.partner >= 0 {
			add(l.partner)
		}
	}
	out := make([]int, 0, len(set))
	for i := range set {
		out = append(out, i)
	}
	sort.Ints(out)
	return out
}

func sameInts(a, b []int) bool {
	if len(a) != len(b) {
		return false
	}
	for i := range a {
		if a[i] != b[i] {
			return false
		}
	}
	return true
}

// anchorUsable: gnmidiff can take a JSON document at this anchor in this mode. With a schema the root is never
// accepted ("leafref schema device has empty path") and the compressed schema has no struct for compressed-out
// containers; such requests only yield errors, which say nothing about the property.
func (w *world) anchorUsable(a int, md mode) bool {
	switch md {
	case mVocu:
		return a != 0
	case mVocc:
		return a != 0 && w.anchors[a].voccOK
	}
	return true
}

// validAnchors lists the anchors at which a JSON document carrying exactly leaves g can be rooted.
func (w *world) validAnchors(g []int, md mode) []int {
	if len(g) == 0 {
		return nil
	}
	sorted := append([]int(nil), g...)
	sort.Ints(sorted)
	var out []int
	for _, a := range w.leaves[sorted[0]].anc {
		ok := w.anchorUsable(a, md)
		for _, i := range sorted {
			if !ok {
				break
			}
			ok = w.leaves[i].under(a)
		}
		if ok && sameInts(w.closure(sorted, a, md), sorted) {
			out = append(out, a)
		}
	}
	return out
}

// ---- rendering ----------------------------------------------------------------------------------------------

type renderCfg struct {
	md mode
	jo model.JSONOpts
	// legacyPrefix: the prefix of requests and notifications is given in the deprecated string-slice form
	// (Path.element, one string per element with the keys inside), which PathToString still reads
	legacyPrefix bool
}

// legacyPath rewrites p into the deprecated Path.element form.
func legacyPath(p *gpb.Path) *gpb.Path {
	if p == nil || len(p.Elem) == 0 {
		return p
	}
	strs, err := ygot.PathToStrings(p)
	if err != nil {
		panic("HARNESS-BUG: prefix cannot be written in the string-slice form: " + err.Error())
	}
	//lint:ignore SA1019 deliberately exercising the deprecated field
	return &gpb.Path{Element: strs, Origin: p.Origin, Target: p.Target}
}

func lossyWithoutSchema(v model.Val) bool {
	return v.K == model.KInt64 || v.K == model.KUint64 || v.K == model.KDec || v.K == model.KEmpty
}

// mustJSONEnc: without a schema, gnmidiff documents that TypedValue scalars of 64-bit integers cannot be told
// from their RFC 7951 string form (the same holds for decimal64: double_val versus the JSON string), so those
// leaves are written in their RFC 7951 form only.
func mustJSONEnc(l *wleaf, md mode) bool {
	if md != mNil {
		return false
	}
	if l.isLL() {
		for _, v := range l.ll {
			if lossyWithoutSchema(v) {
				return true
			}
		}
		return false
	}
	return lossyWithoutSchema(l.v)
}

func jsonBytes(v interface{}) []byte {
	var buf bytes.Buffer
	enc := json.NewEncoder(&buf)
	enc.SetEscapeHTML(false)
	if err := enc.Encode(v); err != nil {
		panic("HARNESS-BUG: " + err.Error())
	}
	return bytes.TrimRight(buf.Bytes(), "\n")
}

func scalarTV(v model.Val, enc int, rc renderCfg) *gpb.TypedValue {
	if v.K == model.KEnum && v.Ident {
		// without a schema the spelling of an identityref must be the one the JSON documents use; with a
		// schema both spellings denote the same identity.
		if (rc.md == mNil && (rc.jo.Prefix || rc.jo.IdentPrefix)) || (rc.md != mNil && enc == encPfx) {
			if v.Mod != "" {
				return &gpb.TypedValue{Value: &gpb.TypedValue_StringVal{StringVal: v.Mod + ":" + v.S}}
			}
		}
	}
	return model.ScalarTV(v)
}

// leafTV renders the value of a leaf (val / ll override the tree's value when non-nil).
func (w *world) leafTV(l *wleaf, enc int, rc renderCfg, val *model.Val, ll []model.Val) *gpb.TypedValue {
	v, list := l.v, l.ll
	if val != nil {
		v = *val
	}
	if ll != nil {
		list = ll
	}
	if enc == encJSON || mustJSONEnc(&wleaf{f: l.f, v: v, ll: list}, rc.md) {
		if l.isLL() {
			arr := make([]interface{}, len(list))
			for i, x := range list {
				arr[i] = model.RenderValue(x, rc.jo)
			}
			return model.JSONIETFTV(jsonBytes(arr))
		}
		return model.JSONIETFTV(jsonBytes(model.RenderValue(v, rc.jo)))
	}
	if l.isLL() {
		arr := &gpb.ScalarArray{}
		for _, x := range list {
			arr.Element = append(arr.Element, scalarTV(x, enc, rc))
		}
		return &gpb.TypedValue{Value: &gpb.TypedValue_LeaflistVal{LeaflistVal: arr}}
	}
	return scalarTV(v, enc, rc)
}

// prune copies the part of node n that holds the leaves in keep (nil if none).
func prune(n *model.Node, keep map[*model.Node]map[string]bool) *model.Node {
	out := model.NewNode(n.SI)
	any := false
	for _, f := range n.SI.Fields {
		switch f.Kind {
		case model.FLeaf:
			if v, ok := n.Leaf[f.Name]; ok && keep[n][f.Name] {
				out.Leaf[f.Name] = v
				any = true
			}
		case model.FLeafList:
			if l := n.LL[f.Name]; len(l) > 0 && keep[n][f.Name] {
				out.LL[f.Name] = l
				any = true
			}
		case model.FCont:
			if c, ok := n.Cont[f.Name]; ok {
				if pc := prune(c, keep); pc != nil {
					out.Cont[f.Name] = pc
					any = true
				}
			}
		case model.FList, model.FOrdList:
			for _, e := range n.List[f.Name] {
				if pe := prune(e.N, keep); pe != nil {
					out.List[f.Name] = append(out.List[f.Name], &model.Entry{Key: e.Key, N: pe})
					any = true
				}
			}
		}
	}
	if !any {
		return nil
	}
	return out
}

// docJSON renders the RFC 7951 document rooted at anchor a that carries exactly the given leaves.
func (w *world) docJSON(a int, leaves []int, rc renderCfg) []byte {
	keep := map[*model.Node]map[string]bool{}
	for _, i := range leaves {
		l := w.leaves[i]
		if !l.under(a) {
			panic(fmt.Sprintf("HARNESS-BUG: leaf %s is not below anchor %s", l.path, w.anchors[a].path))
		}
		if keep[l.owner] == nil {
			keep[l.owner] = map[string]bool{}
		}
		keep[l.owner][l.f.Name] = true
	}
	p := prune(w.anchors[a].node, keep)
	if p == nil {
		return []byte("{}")
	}
	return model.RenderJSON(p, rc.jo)
}

func (w *world) relPath(el []model.PElem, prefixLen int) *gpb.Path {
	p := model.PathProto(el[prefixLen:])
	if p.Elem == nil {
		p.Elem = []*gpb.PathElem{}
	}
	return p
}

func (w *world) opUpdate(o op, prefixLen int, rc renderCfg) *gpb.Update {
	if o.leaf >= 0 {
		l := w.leaves[o.leaf]
		return &gpb.Update{Path: w.relPath(l.elems, prefixLen), Val: w.leafTV(l, o.enc, rc, o.val, o.ll)}
	}
	return &gpb.Update{Path: w.relPath(w.anchors[o.anchor].elems, prefixLen), Val: model.JSONIETFTV(w.docJSON(o.anchor, o.leaves, rc))}
}

// render turns the abstract request into a gNMI SetRequest.
func (w *world) render(r *request, rc renderCfg) *gpb.SetRequest {
	sr := &gpb.SetRequest{}
	if r.prefixLen > 0 {
		ops := r.allOps()
		sr.Prefix = model.PathProto(w.opElems(ops[0])[:r.prefixLen])
		if rc.legacyPrefix {
			sr.Prefix = legacyPath(sr.Prefix)
		}
	}
	for _, o := range r.dels {
		sr.Delete = append(sr.Delete, w.relPath(w.opElems(o), r.prefixLen))
	}
	for _, o := range r.reps {
		sr.Replace = append(sr.Replace, w.opUpdate(o, r.prefixLen, rc))
	}
	for _, o := range r.upds {
		sr.Update = append(sr.Update, w.opUpdate(o, r.prefixLen, rc))
	}
	return sr
}

// ptext renders a SetRequest / Notification as prototext, one line per prefix / delete / replace / update.
func ptext(m proto.Message) string {
	var sb strings.Builder
	line := func(kind string, x proto.Message) { sb.WriteString(kind + ": {" + ptextLine(x) + "}\n") }
	switch v := m.(type) {
	case *gpb.SetRequest:
		if v.Prefix != nil {
			line("prefix", v.Prefix)
		}
		for _, d := range v.Delete {
			line("delete", d)
		}
		for _, u := range v.Replace {
			line("replace", u)
		}
		for _, u := range v.Update {
			line("update", u)
		}
		if sb.Len() == 0 {
			return "(empty SetRequest)\n"
		}
	case *gpb.Notification:
		fmt.Fprintf(&sb, "timestamp: %d\n", v.Timestamp)
		if v.Prefix != nil {
			line("prefix", v.Prefix)
		}
		for _, u := range v.Update {
			line("update", u)
		}
	default:
		return prototext.MarshalOptions{Multiline: true, Indent: " "}.Format(m)
	}
	return sb.String()
}

func ptextLine(m proto.Message) string { return prototext.MarshalOptions{}.Format(m) }

// ---- generation ----------------------------------------------------------------------------------------------

// genWorld draws the data tree. Keys in the trigger region of an open finding are kept with a small
// probability only (never zero), so that the search is not dominated by them.
func genWorld(rt *rapid.T, lowKeys bool) *world {
	v := variants.Get("vocu")
	o := model.GenOpts{NoState: true, NoUnkeyed: true, MaxList: 3, MaxLL: 3,
		Want: func(f *model.FieldInfo) bool {
			return f.Kind == model.FCont || f.Kind == model.FList || f.Kind == model.FOrdList
		}}
	if rapid.IntRange(0, 3).Draw(rt, "sparse") == 0 {
		o.Sparse = true
	}
	// a key value that lies in a trigger / error region is kept with probability 2^-k (a tree has 10-25 keys;
	// rapid's IntRange is far from uniform, so small probabilities are built from fair coin flips)
	strK, emptyK, numK := 4, 6, 3
	if lowKeys {
		strK, emptyK, numK = 5, 6, 3
	}
	o.Avoid = func(f *model.FieldInfo, x model.Val) bool {
		if !f.IsKey {
			return false
		}
		k := -1
		switch {
		case x.K == model.KStr && (keyHasEsc(x.S) || keyHasBS(x.S) || keyPathClean(x.S)):
			k = strK
		case x.K == model.KStr && x.S == "":
			k = emptyK // with a schema gnmidiff only answers "received null value for key"
		case keyBigNum(x):
			k = numK
		}
		if k < 0 {
			return false
		}
		return !chance(rt, "keep-trigger-key", k)
	}
	m := model.GenTree(rt, v, o)
	return newWorld(m)
}

type genCfg struct {
	md        mode
	conflicts bool // allow nested / duplicate delete-replace paths and overlapping writes (errors are legitimate)
	f16Active bool
	f70Active bool
}

// chance is true with probability 2^-k.
func chance(rt *rapid.T, label string, k int) bool {
	for i := 0; i < k; i++ {
		if !rapid.Bool().Draw(rt, label) {
			return false
		}
	}
	return true
}

// pick draws an element of a non-empty int slice.
func pick(rt *rapid.T, l []int, label string) int {
	return l[rapid.IntRange(0, len(l)-1).Draw(rt, label)]
}

func (w *world) drawEnc(rt *rapid.T, l *wleaf, md mode) int {
	if md == mNil {
		if rapid.IntRange(0, 3).Draw(rt, "enc") == 0 {
			return encJSON
		}
		return encScalar
	}
	switch rapid.IntRange(0, 5).Draw(rt, "enc") {
	case 0, 1:
		return encJSON
	case 2:
		return encPfx
	}
	return encScalar
}

// related: one path is a prefix of (or equal to) the other.
func related(a, b []model.PElem) bool { return isPrefixElems(a, b) || isPrefixElems(b, a) }

// genJSONGroup draws a JSON op rooted at an ancestor of leaf l0 carrying l0 and some of the candidate leaves.
// ok=false when no anchor is usable in this mode.
func (w *world) genJSONGroup(rt *rapid.T, l0 int, cand []int, md mode, allowed func(int) bool) (op, bool) {
	var as []int
	for _, a := range w.leaves[l0].anc {
		if w.anchorUsable(a, md) {
			as = append(as, a)
		}
	}
	if len(as) == 0 {
		return op{}, false
	}
	// bias toward deep anchors, but reach the top often enough
	a := as[len(as)-1]
	if len(as) > 1 && rapid.IntRange(0, 2).Draw(rt, "anchor-deep") != 0 {
		a = pick(rt, as, "anchor")
	}
	keepPct := rapid.SampledFrom([]int{25, 60, 100}).Draw(rt, "group-density")
	g := []int{l0}
	for _, c := range cand {
		if c != l0 && w.leaves[c].under(a) && rapid.IntRange(0, 99).Draw(rt, "in-group") < keepPct {
			g = append(g, c)
		}
	}
	g = w.closure(g, a, md)
	if allowed != nil {
		for _, i := range g {
			if !allowed(i) {
				return op{}, false
			}
		}
	}
	return op{leaf: -1, anchor: a, leaves: g}, true
}

// genRequest draws a request over the world.
func (w *world) genRequest(rt *rapid.T, gc genCfg) *request {
	r := &request{}
	if len(w.leaves) == 0 {
		return r
	}
	all := make([]int, len(w.leaves))
	for i := range all {
		all[i] = i
	}
	// one time out of three the request stays inside one top-level subtree, so that its paths share a
	// prefix that can be split off (the more top-level containers the corpus has, the rarer that is by chance)
	focused := false
	if rapid.IntRange(0, 2).Draw(rt, "focus") == 0 {
		top := w.leaves[pick(rt, all, "focus-leaf")].elems[0].Name
		var sub []int
		for _, i := range all {
			if w.leaves[i].elems[0].Name == top {
				sub = append(sub, i)
			}
		}
		all, focused = sub, true
	}
	var claimed [][]model.PElem // delete / replace paths
	free := func(el []model.PElem) bool {
		if gc.conflicts {
			return true
		}
		for _, c := range claimed {
			if related(c, el) {
				return false
			}
		}
		return true
	}
	writes := map[int]bool{}
	// deletes
	nd := rapid.SampledFrom([]int{0, 0, 1, 1, 2}).Draw(rt, "ndel")
	for i := 0; i < nd; i++ {
		var o op
		if rapid.IntRange(0, 3).Draw(rt, "del-leaf") == 0 {
			o = op{leaf: pick(rt, all, "del-leaf-i"), anchor: -1}
		} else {
			a := rapid.IntRange(0, len(w.anchors)-1).Draw(rt, "del-anchor")
			if focused {
				// an anchor on the way to a leaf of the subtree
				if as := w.leaves[pick(rt, all, "del-focus-leaf")].anc; len(as) > 1 {
					a = as[rapid.IntRange(1, len(as)-1).Draw(rt, "del-focus-anchor")]
				}
			}
			if a == 0 && !chance(rt, "del-root", 3) && len(w.anchors) > 1 {
				a = rapid.IntRange(1, len(w.anchors)-1).Draw(rt, "del-anchor2")
			}
			o = op{leaf: -1, anchor: a}
		}
		if el := w.opElems(o); free(el) {
			claimed = append(claimed, el)
			r.dels = append(r.dels, o)
		}
	}
	// replaces
	nr := rapid.SampledFrom([]int{0, 1, 1, 2}).Draw(rt, "nrep")
	for i := 0; i < nr; i++ {
		l0 := pick(rt, all, "rep-leaf")
		var o op
		if rapid.IntRange(0, 2).Draw(rt, "rep-leaf-form") == 0 {
			o = op{leaf: l0, anchor: -1, enc: w.drawEnc(rt, w.leaves[l0], gc.md)}
		} else {
			var ok bool
			o, ok = w.genJSONGroup(rt, l0, all, gc.md, func(i int) bool { return gc.conflicts || !writes[i] })
			if !ok {
				continue
			}
		}
		if el := w.opElems(o); free(el) {
			dup := false
			for _, l := range w.opLeaves(o) {
				dup = dup || writes[l]
			}
			if dup && !gc.conflicts {
				continue
			}
			claimed = append(claimed, el)
			r.reps = append(r.reps, o)
			for _, l := range w.opLeaves(o) {
				writes[l] = true
			}
		}
	}
	// updates
	pct := rapid.SampledFrom([]int{0, 10, 30, 60}).Draw(rt, "upd-density")
	// a deleted leaf that is written again is the trigger region of F70: rare but present
	delLeaf := map[int]bool{}
	if gc.f70Active && !chance(rt, "write-deleted-leaf", 2) {
		for _, o := range r.dels {
			if o.leaf >= 0 {
				delLeaf[o.leaf] = true
			}
		}
	}
	var rem []int
	for _, i := range all {
		if !writes[i] && !delLeaf[i] && rapid.IntRange(0, 99).Draw(rt, "upd?") < pct {
			rem = append(rem, i)
		}
	}
	for guard := 0; len(rem) > 0 && guard < 200; guard++ {
		l0 := pick(rt, rem, "upd-leaf")
		var o op
		done := false
		if rapid.IntRange(0, 1).Draw(rt, "upd-json") == 1 {
			o, done = w.genJSONGroup(rt, l0, rem, gc.md, nil)
		}
		if !done {
			o = op{leaf: l0, anchor: -1, enc: w.drawEnc(rt, w.leaves[l0], gc.md)}
		}
		r.upds = append(r.upds, o)
		in := map[int]bool{}
		for _, l := range w.opLeaves(o) {
			in[l] = true
			writes[l] = true
		}
		var nrem []int
		for _, x := range rem {
			if !in[x] {
				nrem = append(nrem, x)
			}
		}
		rem = nrem
	}
	// prefix
	if n := w.lcp(r); n > 0 && rapid.IntRange(0, 4).Draw(rt, "use-prefix") != 0 {
		r.prefixLen = rapid.IntRange(1, n).Draw(rt, "prefix-len")
	}
	return r
}

// ---- class labels ----------------------------------------------------------------------------------------------

// touchedEntries returns the entry anchors on the paths of the request's ops and leaves.
func (w *world) touchedEntries(rs ...*request) []int {
	set := map[int]bool{}
	mark := func(anc []int) {
		for _, a := range anc {
			if w.anchors[a].entry {
				set[a] = true
			}
		}
	}
	for _, r := range rs {
		for _, o := range r.allOps() {
			if o.leaf >= 0 {
				mark(w.leaves[o.leaf].anc)
			} else {
				mark(w.anchors[o.anchor].anc)
				for _, l := range o.leaves {
					mark(w.leaves[l].anc)
				}
			}
		}
	}
	out := make([]int, 0, len(set))
	for a := range set {
		out = append(out, a)
	}
	sort.Ints(out)
	return out
}

func (w *world) keyClasses(entries []int) []string {
	set := map[string]bool{}
	for _, a := range entries {
		e := w.anchors[a].elems[len(w.anchors[a].elems)-1]
		if len(e.Keys) > 1 {
			set["key:multi"] = true
		}
		for _, v := range e.Keys {
			s := model.KeyString(v)
			if v.K == model.KStr {
				set["key:string"] = true
				if keyHasEsc(s) {
					set["key:needs-escape(=])"] = true
				}
				if strings.Contains(s, "/") {
					set["key:slash"] = true
				}
				if strings.Contains(s, " ") {
					set["key:space"] = true
				}
				if keyHasBS(s) {
					set["key:backslash"] = true
				}
				if keyPathClean(s) {
					set["key:pathclean"] = true
				}
				if s == "" {
					set["key:empty-string"] = true
				}
				for _, r := range s {
					if r > 127 {
						set["key:non-ascii"] = true
						break
					}
				}
			} else if v.K.Signed() || v.K.Unsigned() {
				set["key:numeric"] = true
				if keyBigNum(v) {
					set["key:big-numeric(>=1e6)"] = true
				}
			}
		}
	}
	out := make([]string, 0, len(set))
	for k := range set {
		out = append(out, k)
	}
	sort.Strings(out)
	return out
}

func (w *world) opClasses(r *request) []string {
	set := map[string]bool{}
	if len(r.dels) > 0 {
		set["op:delete"] = true
	}
	for _, o := range r.dels {
		switch {
		case o.leaf >= 0:
			set["op:delete-leaf"] = true
		case o.anchor == 0:
			set["op:delete-root"] = true
		case w.anchors[o.anchor].entry:
			set["op:delete-entry"] = true
		default:
			set["op:delete-container"] = true
		}
	}
	lab := func(kind string, o op) {
		if o.leaf >= 0 {
			set["op:"+kind+"-leaf"] = true
			if o.enc == encJSON {
				set["op:"+kind+"-leaf-json-scalar"] = true
			}
			return
		}
		switch {
		case o.anchor == 0:
			set["op:"+kind+"-json-root"] = true
		case w.anchors[o.anchor].entry:
			set["op:"+kind+"-json-entry"] = true
		default:
			set["op:"+kind+"-json-container"] = true
		}
	}
	for _, o := range r.reps {
		lab("replace", o)
	}
	for _, o := range r.upds {
		lab("update", o)
	}
	if r.prefixLen > 0 {
		set["op:prefix"] = true
	}
	if len(r.reps) > 0 && len(r.upds) > 0 {
		set["op:replace+update"] = true
	}
	for l := range w.written(r) {
		lf := w.leaves[l]
		if lf.isLL() {
			set["val:leaf-list"] = true
		}
		vals := lf.ll
		if !lf.isLL() {
			vals = []model.Val{lf.v}
		}
		for _, v := range vals {
			switch {
			case v.K == model.KEnum && v.Ident:
				set["val:identityref"] = true
			case v.K == model.KEnum:
				set["val:enum"] = true
			case v.K == model.KInt64 || v.K == model.KUint64:
				set["val:64-bit"] = true
			case v.K == model.KDec:
				set["val:decimal64"] = true
			case v.K == model.KBin:
				set["val:binary"] = true
			}
		}
		if lf.f.ElemUnion {
			set["val:union"] = true
		}
	}
	out := make([]string, 0, len(set))
	for k := range set {
		out = append(out, k)
	}
	sort.Strings(out)
	return out
}
