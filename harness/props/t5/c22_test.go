package t5

import (
	"fmt"
	"os"
	"reflect"
	"sort"
	"strings"
	"testing"

	gpb "github.com/openconfig/gnmi/proto/gnmi"
	"github.com/openconfig/ygot/gnmidiff"
	"github.com/openconfig/ygot/ytypes"
	"google.golang.org/protobuf/proto"
	"pgregory.net/rapid"
	"verifharness/ev"
	"verifharness/model"
	"verifharness/th"
)

// ---- intent-preserving rewrites -------------------------------------------------------------------------------

const (
	rwRegroup  = "rewrite:leaf-updates<->json-update"
	rwPrefix   = "rewrite:prefix-split"
	rwReorder  = "rewrite:reorder"
	rwRepUpd   = "rewrite:leaf-replace<->update"
	rwDup      = "rewrite:duplicate-update"
	rwNone     = "rewrite:none-applicable"
	rwRegroupJ = "rewrite:regroup->json"
	rwRegroupL = "rewrite:regroup->leaves"
)

var rewriteKinds = []string{rwRegroup, rwPrefix, rwReorder, rwRepUpd, rwDup}

func shuffle(rt *rapid.T, ops []op, label string) []op {
	out := append([]op(nil), ops...)
	for i := len(out) - 1; i > 0; i-- {
		j := rapid.IntRange(0, i).Draw(rt, label)
		out[i], out[j] = out[j], out[i]
	}
	return out
}

func insertAt(ops []op, i int, o op) []op {
	out := append([]op(nil), ops[:i]...)
	out = append(out, o)
	return append(out, ops[i:]...)
}

func hasLL(w *world, o op) bool {
	for _, l := range w.opLeaves(o) {
		if w.leaves[l].isLL() {
			return true
		}
	}
	return false
}

// rewrite applies one intent-preserving rewrite of the given kind to r (in place on a clone made by the caller).
// It returns extra class labels, or ok=false when the kind does not apply to this request.
func (w *world) rewrite(rt *rapid.T, r *request, kind string, gc genCfg) (labels []string, ok bool) {
	switch kind {
	case rwRegroup:
		// (1) a set of leaf updates <-> one JSON update at a common ancestor carrying exactly those leaves
		// (and, by composition, one JSON update <-> JSON updates rooted elsewhere).
		if len(r.upds) == 0 {
			return nil, false
		}
		n := 1
		if len(r.upds) > 1 && rapid.Bool().Draw(rt, "regroup-many") {
			n = rapid.IntRange(2, len(r.upds)).Draw(rt, "regroup-n")
		}
		sel := map[int]bool{}
		idxs := make([]int, len(r.upds))
		for i := range idxs {
			idxs[i] = i
		}
		for i := len(idxs) - 1; i > 0; i-- {
			j := rapid.IntRange(0, i).Draw(rt, "regroup-pick")
			idxs[i], idxs[j] = idxs[j], idxs[i]
		}
		for _, i := range idxs[:n] {
			sel[i] = true
		}
		uset := map[int]bool{}
		var rest []op
		first := -1
		for i, o := range r.upds {
			if sel[i] {
				if first < 0 {
					first = len(rest)
				}
				for _, l := range w.opLeaves(o) {
					uset[l] = true
				}
			} else {
				rest = append(rest, o)
			}
		}
		u := make([]int, 0, len(uset))
		for l := range uset {
			u = append(u, l)
		}
		sort.Ints(u)
		var nops []op
		form := rapid.IntRange(0, 2).Draw(rt, "regroup-form")
		va := w.validAnchors(u, gc.md)
		switch {
		case form == 0 || len(va) == 0:
			for _, l := range u {
				nops = append(nops, op{leaf: l, anchor: -1, enc: w.drawEnc(rt, w.leaves[l], gc.md)})
			}
			labels = append(labels, rwRegroupL)
		case form == 1:
			nops = append(nops, op{leaf: -1, anchor: pick(rt, va, "regroup-anchor"), leaves: u})
			labels = append(labels, rwRegroupJ)
		default:
			// split into two parts, each a document where possible
			cut := rapid.IntRange(0, len(u)).Draw(rt, "regroup-cut")
			for _, part := range [][]int{u[:cut], u[cut:]} {
				if len(part) == 0 {
					continue
				}
				if pa := w.validAnchors(part, gc.md); len(pa) > 0 {
					nops = append(nops, op{leaf: -1, anchor: pick(rt, pa, "regroup-anchor"), leaves: append([]int(nil), part...)})
					labels = append(labels, rwRegroupJ)
				} else {
					for _, l := range part {
						nops = append(nops, op{leaf: l, anchor: -1, enc: w.drawEnc(rt, w.leaves[l], gc.md)})
					}
					labels = append(labels, rwRegroupL)
				}
			}
		}
		out := append([]op(nil), rest[:first]...)
		out = append(out, nops...)
		r.upds = append(out, rest[first:]...)
		return labels, true
	case rwPrefix:
		// (2) another split of the full paths into prefix and path
		n := w.lcp(r)
		if n == 0 {
			return nil, false
		}
		np := rapid.IntRange(0, n-1).Draw(rt, "new-prefix")
		if np >= r.prefixLen {
			np++
		}
		r.prefixLen = np
		return nil, true
	case rwReorder:
		// (3) reorder updates that touch distinct leaves (and deletes / replaces of disjoint subtrees)
		if len(r.upds)+len(r.reps)+len(r.dels) < 2 || (len(r.upds) < 2 && len(r.reps) < 2 && len(r.dels) < 2) {
			return nil, false
		}
		r.upds = shuffle(rt, r.upds, "shuffle-upd")
		r.reps = shuffle(rt, r.reps, "shuffle-rep")
		r.dels = shuffle(rt, r.dels, "shuffle-del")
		return nil, true
	case rwRepUpd:
		// (4) a leaf replace <-> an update of the same leaf
		var cand []int // >=0: index in reps (leaf op); <0: -(index in upds)-1
		for i, o := range r.reps {
			if o.leaf >= 0 {
				cand = append(cand, i)
			}
		}
		for i, o := range r.upds {
			if o.leaf < 0 {
				continue
			}
			clash := false
			for _, c := range append(append([]op(nil), r.dels...), r.reps...) {
				clash = clash || related(w.opElems(c), w.leaves[o.leaf].elems)
			}
			if !clash {
				cand = append(cand, -i-1)
			}
		}
		if len(cand) == 0 {
			return nil, false
		}
		c := pick(rt, cand, "repupd")
		if c >= 0 {
			o := r.reps[c]
			r.reps = append(append([]op(nil), r.reps[:c]...), r.reps[c+1:]...)
			r.upds = insertAt(r.upds, rapid.IntRange(0, len(r.upds)).Draw(rt, "repupd-pos"), o)
			return []string{"rewrite:leaf-replace->update"}, true
		}
		i := -c - 1
		o := r.upds[i]
		r.upds = append(append([]op(nil), r.upds[:i]...), r.upds[i+1:]...)
		r.reps = insertAt(r.reps, rapid.IntRange(0, len(r.reps)).Draw(rt, "repupd-pos"), o)
		return []string{"rewrite:leaf-update->replace"}, true
	case rwDup:
		// (5) duplicate an identical update; or an identical LEAF replace (replacing a leaf twice with the
		// same value is the same intent as doing it once)
		var leafReps []int
		for i, o := range r.reps {
			if o.leaf >= 0 {
				leafReps = append(leafReps, i)
			}
		}
		if len(leafReps) > 0 && (len(r.upds) == 0 || chance(rt, "dup-leaf-replace", 1)) {
			i := pick(rt, leafReps, "dup-rep")
			r.reps = insertAt(r.reps, rapid.IntRange(0, len(r.reps)).Draw(rt, "dup-rep-pos"), r.reps[i].clone())
			return []string{"rewrite:duplicate-leaf-replace"}, true
		}
		if len(r.upds) == 0 {
			return nil, false
		}
		var plain, withLL []int
		for i, o := range r.upds {
			if hasLL(w, o) {
				withLL = append(withLL, i)
			} else {
				plain = append(plain, i)
			}
		}
		cand := append(append([]int(nil), plain...), withLL...)
		// F16 (open): a duplicated leaf-list write panics; keep that region rare but present
		if gc.f16Active && len(plain) > 0 && !chance(rt, "dup-ll", 3) {
			cand = plain
		}
		i := pick(rt, cand, "dup")
		if hasLL(w, r.upds[i]) {
			labels = append(labels, "rewrite:duplicate-leaf-list-write")
		}
		r.upds = insertAt(r.upds, rapid.IntRange(0, len(r.upds)).Draw(rt, "dup-pos"), r.upds[i].clone())
		return labels, true
	}
	return nil, false
}

// ---- diff plumbing ----------------------------------------------------------------------------------------------

type diffRes struct {
	d     gnmidiff.SetRequestIntentDiff
	err   error
	panic interface{}
}

func runDiff(a, b *gpb.SetRequest, sch *ytypes.Schema) (res diffRes) {
	defer func() {
		if p := recover(); p != nil {
			res.panic = p
		}
	}()
	// gnmidiff gets private copies: it must not be able to make the two arguments of later calls differ
	res.d, res.err = gnmidiff.DiffSetRequest(proto.Clone(a).(*gpb.SetRequest), proto.Clone(b).(*gpb.SetRequest), sch)
	return res
}

func (r diffRes) String() string {
	switch {
	case r.panic != nil:
		return fmt.Sprintf("PANIC: %v", r.panic)
	case r.err != nil:
		return fmt.Sprintf("error: %v", r.err)
	}
	return r.d.Format(gnmidiff.Format{Full: true})
}

// badPaths lists the paths reported as missing, extra or mismatched (deletes and updates), sorted.
func badPaths(d gnmidiff.SetRequestIntentDiff) []string {
	var out []string
	for p := range d.MissingDeletes {
		out = append(out, p)
	}
	for p := range d.ExtraDeletes {
		out = append(out, p)
	}
	for p := range d.MissingUpdates {
		out = append(out, p)
	}
	for p := range d.ExtraUpdates {
		out = append(out, p)
	}
	for p := range d.MismatchedUpdates {
		out = append(out, p)
	}
	sort.Strings(out)
	return out
}

func lenOrZero(m interface{}) int {
	v := reflect.ValueOf(m)
	if !v.IsValid() || v.IsNil() {
		return 0
	}
	return v.Len()
}

func sameDel(a, b map[string]struct{}) bool {
	if len(a) != len(b) {
		return false
	}
	for k := range a {
		if _, ok := b[k]; !ok {
			return false
		}
	}
	return true
}

func sameUpd(a, b map[string]interface{}) bool {
	if len(a) != len(b) {
		return false
	}
	for k, v := range a {
		w, ok := b[k]
		if !ok || !reflect.DeepEqual(v, w) {
			return false
		}
	}
	return true
}

// swapFault describes how dBA fails to be dAB with missing<->extra and A<->B swapped and common kept ("" = ok).
func swapFault(ab, ba gnmidiff.SetRequestIntentDiff) string {
	var f []string
	if !sameDel(ab.MissingDeletes, ba.ExtraDeletes) {
		f = append(f, "MissingDeletes(a,b) != ExtraDeletes(b,a)")
	}
	if !sameDel(ab.ExtraDeletes, ba.MissingDeletes) {
		f = append(f, "ExtraDeletes(a,b) != MissingDeletes(b,a)")
	}
	if !sameDel(ab.CommonDeletes, ba.CommonDeletes) {
		f = append(f, "CommonDeletes differ")
	}
	if !sameUpd(ab.MissingUpdates, ba.ExtraUpdates) {
		f = append(f, "MissingUpdates(a,b) != ExtraUpdates(b,a)")
	}
	if !sameUpd(ab.ExtraUpdates, ba.MissingUpdates) {
		f = append(f, "ExtraUpdates(a,b) != MissingUpdates(b,a)")
	}
	if !sameUpd(ab.CommonUpdates, ba.CommonUpdates) {
		f = append(f, "CommonUpdates differ")
	}
	if len(ab.MismatchedUpdates) != len(ba.MismatchedUpdates) {
		f = append(f, "MismatchedUpdates have different sizes")
	} else {
		for k, v := range ab.MismatchedUpdates {
			w, ok := ba.MismatchedUpdates[k]
			if !ok || !reflect.DeepEqual(v.A, w.B) || !reflect.DeepEqual(v.B, w.A) {
				f = append(f, "MismatchedUpdates["+k+"] is not A<->B swapped")
				break
			}
		}
	}
	return strings.Join(f, "; ")
}

func isF16Panic(p interface{}) bool {
	return p != nil && strings.Contains(fmt.Sprint(p), "comparing uncomparable type []interface {}")
}

// writesLLTwice: some request writes one leaf-list path more than once (the trigger region of F16).
func (w *world) writesLLTwice(rs ...*request) bool {
	for _, r := range rs {
		wr := w.written(r)
		for l, n := range wr {
			if n > 1 && w.leaves[l].isLL() {
				return true
			}
		}
	}
	return false
}

// deletedAndWritten: path strings of the leaves that a request deletes (by their leaf path) and also writes.
func (w *world) deletedAndWritten(rs ...*request) map[string]bool {
	out := map[string]bool{}
	for _, r := range rs {
		wr := w.written(r)
		for _, o := range r.dels {
			if o.leaf >= 0 && wr[o.leaf] > 0 {
				out[w.leaves[o.leaf].path] = true
			}
		}
	}
	return out
}

// ---- witnesses ----------------------------------------------------------------------------------------------------

func itemP(key string, rest ...string) *gpb.Path {
	p := &gpb.Path{Elem: []*gpb.PathElem{{Name: "items"}, {Name: "item", Key: map[string]string{"name": key}}}}
	for _, r := range rest {
		p.Elem = append(p.Elem, &gpb.PathElem{Name: r})
	}
	return p
}

func uintTV(u uint64) *gpb.TypedValue {
	return &gpb.TypedValue{Value: &gpb.TypedValue_UintVal{UintVal: u}}
}
func strTV(s string) *gpb.TypedValue {
	return &gpb.TypedValue{Value: &gpb.TypedValue_StringVal{StringVal: s}}
}
func jsonTV(s string) *gpb.TypedValue { return model.JSONIETFTV([]byte(s)) }

// witnessPair runs DiffSetRequest on two requests of the same intent and reports a non-empty diff / panic.
func witnessPair(a, b *gpb.SetRequest, md mode) (bool, string) {
	res := runDiff(a, b, md.schema())
	switch {
	case res.panic != nil:
		return true, fmt.Sprintf("DiffSetRequest(%s | %s, %s) panics: %v", ptextLine(a), ptextLine(b), md, res.panic)
	case res.err != nil:
		return false, ""
	}
	if bp := badPaths(res.d); len(bp) > 0 {
		return true, fmt.Sprintf("DiffSetRequest(%s | %s, %s) is not empty: %v", ptextLine(a), ptextLine(b), md, bp)
	}
	return false, ""
}

func leafVsItemsJSON(key string, md mode) (a, b *gpb.SetRequest) {
	a = &gpb.SetRequest{Update: []*gpb.Update{
		{Path: itemP(key, "name"), Val: strTV(key)},
		{Path: itemP(key, "config", "mtu"), Val: uintTV(100)},
	}}
	doc := string(jsonBytes(map[string]interface{}{"name": key, "config": map[string]interface{}{"mtu": 100}}))
	if md == mNil {
		b = &gpb.SetRequest{Update: []*gpb.Update{{Path: &gpb.Path{Elem: []*gpb.PathElem{{Name: "items"}}}, Val: jsonTV(`{"item":[` + doc + `]}`)}}}
	} else {
		b = &gpb.SetRequest{Update: []*gpb.Update{{Path: itemP(key), Val: jsonTV(doc)}}}
	}
	return a, b
}

func registerC22Witnesses(rec *ev.Rec) {
	rec.Witness(F16, func() (bool, string) {
		u := &gpb.Update{Path: itemP("x", "config", "tags"), Val: &gpb.TypedValue{Value: &gpb.TypedValue_LeaflistVal{
			LeaflistVal: &gpb.ScalarArray{Element: []*gpb.TypedValue{strTV("a")}}}}}
		a := &gpb.SetRequest{Update: []*gpb.Update{u}}
		b := &gpb.SetRequest{Update: []*gpb.Update{u, proto.Clone(u).(*gpb.Update)}}
		return witnessPair(a, b, mNil)
	})
	rec.Witness(F17Esc, func() (bool, string) {
		a, b := leafVsItemsJSON("a=b", mNil)
		return witnessPair(a, b, mNil)
	})
	rec.Witness(F17Num, func() (bool, string) {
		sub := func(rest ...string) *gpb.Path {
			p := itemP("x", "subs")
			p.Elem = append(p.Elem, &gpb.PathElem{Name: "sub", Key: map[string]string{"index": "1000000"}})
			for _, r := range rest {
				p.Elem = append(p.Elem, &gpb.PathElem{Name: r})
			}
			return p
		}
		a := &gpb.SetRequest{Update: []*gpb.Update{{Path: sub("index"), Val: uintTV(1000000)}, {Path: sub("config", "descr"), Val: strTV("d")}}}
		b := &gpb.SetRequest{Update: []*gpb.Update{{Path: itemP("x", "subs"), Val: jsonTV(`{"sub":[{"index":1000000,"config":{"descr":"d"}}]}`)}}}
		return witnessPair(a, b, mNil)
	})
	rec.Witness(F10BS, func() (bool, string) {
		a, b := leafVsItemsJSON(`a\b`, mVocu)
		return witnessPair(a, b, mVocu)
	})
	rec.Witness(F70, func() (bool, string) {
		del := []*gpb.Path{itemP("x", "config", "mtu")}
		a := &gpb.SetRequest{Delete: del, Update: []*gpb.Update{{Path: itemP("x", "config", "mtu"), Val: uintTV(100)}}}
		b := &gpb.SetRequest{Delete: del, Update: []*gpb.Update{{Path: itemP("x", "config"), Val: jsonTV(`{"mtu":100}`)}}}
		return witnessPair(a, b, mNil)
	})
	rec.Witness(F10PC, func() (bool, string) {
		a, b := leafVsItemsJSON("a//b", mNil)
		return witnessPair(a, b, mNil)
	})
}

// ---- C22 ----------------------------------------------------------------------------------------------------------

// C22: gnmidiff SetRequest intent diff is a well-behaved comparison (DESIGN.md 5/C22).
func TestC22(t *testing.T) {
	rec := ev.Start(t, "C22")
	rec.Rule("uncompressed OpenConfig-style voc tree (config only) -> SetRequest a over it (deletes of leaves/containers/list entries, leaf and JSON_IETF replaces, leaf updates " +
		"as scalar TypedValues or JSON_IETF scalars, JSON_IETF updates at container / list-entry / root level, optional prefix) -> request b by 1-3 intent-preserving rewrites " +
		"(leaf updates <-> JSON update carrying exactly those leaves, prefix re-split, reorder, leaf replace <-> update, duplicated identical update) x schema argument (nil | vocu | compressed vocc); " +
		"plus an unrelated request c over the same tree with up to two changed values; oracle: DiffSetRequest(a,a) and (b,b) have nothing missing/extra/mismatched; (b,a) is (a,b) and (c,a) is (a,c) with missing<->extra, A<->B and the same common entries; whenever no error is returned (a,b) has nothing missing/extra/mismatched; a panic is a failed comparison; " +
		"non-trivial = the rewrite changed the message (prototext differs) and the request touches a list entry; distinct by schema mode + prototext of both requests")
	rec.Assume("without a schema only lossless scalar encodings are used: 64-bit integers and decimal64 leaves are written in RFC 7951 form (json_ietf_val), identityrefs are spelled the same way in TypedValues and documents (gnmidiff documents that TypedValue is lossy there)")
	rec.Assume("a JSON document rooted above a list entry carries the entry's key leaves (OpenConfig style); with the compressed schema a document carries `k` and `config/k` of a key together, because the compressed struct has one field for both")
	rec.Assume("requests with conflicting operations, the root as JSON target with a schema, or compressed-out containers as JSON target may return an error; only results without error are judged")
	registerC22Witnesses(rec)

	var cases, errCases, excusedCases, swapMism int
	errKinds := map[string]int{}
	cl := map[string]int{}
	rapid.Check(t, func(rt *rapid.T) {
		md := mode(rapid.IntRange(0, 2).Draw(rt, "mode"))
		w := genWorld(rt, false)
		gc := genCfg{md: md, conflicts: chance(rt, "conflicts", 5), f16Active: rec.Active(F16), f70Active: rec.Active(F70)}
		a := w.genRequest(rt, gc)
		b := a.clone()
		nrw := rapid.SampledFrom([]int{1, 1, 2, 3}).Draw(rt, "nrewrites")
		var labels []string
		for i := 0; i < nrw; i++ {
			k0 := rapid.IntRange(0, len(rewriteKinds)-1).Draw(rt, "rewrite-kind")
			applied := false
			for d := 0; d < len(rewriteKinds) && !applied; d++ {
				kind := rewriteKinds[(k0+d)%len(rewriteKinds)]
				if l, ok := w.rewrite(rt, b, kind, gc); ok {
					if n := w.lcp(b); b.prefixLen > n { // a document rooted higher up shortens the common prefix
						b.prefixLen = n
					}
					labels = append(labels, kind)
					labels = append(labels, l...)
					applied = true
				}
			}
			if !applied {
				labels = append(labels, rwNone)
			}
		}
		// c: an unrelated request over the same tree (another selection of leaves and operations) with up to two
		// leaf values changed, so that the swap law is exercised on diffs that have all four categories
		c := w.genRequest(rt, gc)
		nchg := rapid.IntRange(0, 2).Draw(rt, "c-changes")
		for i := 0; i < nchg; i++ {
			var cand []*op
			for _, l := range [][]op{c.reps, c.upds} {
				for j := range l {
					if o := &l[j]; o.leaf >= 0 && o.val == nil && o.ll == nil {
						if lf := w.leaves[o.leaf]; lf.keyOf < 0 && !(lf.partner >= 0 && w.leaves[lf.partner].keyOf >= 0) {
							cand = append(cand, o)
						}
					}
				}
			}
			if len(cand) == 0 {
				break
			}
			o := cand[rapid.IntRange(0, len(cand)-1).Draw(rt, "c-change")]
			if nv, nl, ok := w.changedValue(rt, w.leaves[o.leaf]); ok {
				o.val, o.ll = nv, nl
			}
		}
		rc := renderCfg{md: md, jo: model.JSONOpts{Prefix: rapid.Bool().Draw(rt, "json-prefix"), IdentPrefix: rapid.Bool().Draw(rt, "ident-prefix")}, legacyPrefix: rapid.IntRange(0, 5).Draw(rt, "legacy-prefix") == 0}
		ra, rb := w.render(a, rc), w.render(b, rc)
		rcq := w.render(c, rc)
		tc := ptext(rcq)
		ta, tb := ptext(ra), ptext(rb)
		entries := w.touchedEntries(a, b)
		nontrivial := ta != tb && len(entries) > 0
		classes := append([]string{md.String()}, labels...)
		classes = append(classes, w.keyClasses(entries)...)
		classes = append(classes, w.opClasses(a)...)
		if gc.conflicts {
			classes = append(classes, "gen:conflicts-allowed")
		}
		if len(a.allOps()) == 0 {
			classes = append(classes, "req:empty")
		}
		if len(entries) > 0 {
			classes = append(classes, "req:list-entry")
		}
		if ta != tb {
			classes = append(classes, "rewrite:changed-message")
		}
		// de-duplicate labels (a kind may be applied twice)
		seen := map[string]bool{}
		var ucl []string
		for _, c := range classes {
			if !seen[c] {
				seen[c] = true
				ucl = append(ucl, c)
			}
		}
		rec.Case(md.String()+"\n"+ta+"\n--\n"+tb+"\n--\n"+tc, nontrivial, ucl...)
		cases++
		for _, c := range ucl {
			cl[c]++
		}
		if nontrivial {
			cl["nontrivial"]++
		}
		if rec.WantSample() {
			rec.Sample(map[string]string{"schema": md.String(), "a": th.Trunc(ta, 1800), "b": th.Trunc(tb, 1800), "rewrites": strings.Join(labels, ", ")})
		}

		sch := md.schema()
		describe := func(what string, res ...diffRes) string {
			var sb strings.Builder
			fmt.Fprintf(&sb, "%s\nschema: %s  rewrites: %v\n---- request a ----\n%s\n---- request b ----\n%s\n", what, md, labels, ta, tb)
			for i, r := range res {
				fmt.Fprintf(&sb, "---- result %d ----\n%s\n", i+1, r)
			}
			return sb.String()
		}
		// excuseDiff: a non-empty diff between same-intent requests all of whose paths lie below list entries with
		// keys in the trigger region of an active finding.
		excuseDiff := func(d gnmidiff.SetRequestIntentDiff) bool {
			// F70: deletes (only deletes) of leaves that the request deletes and writes again
			dw := w.deletedAndWritten(a, b)
			f70 := map[string]bool{}
			if rec.Active(F70) {
				for _, m := range []map[string]struct{}{d.MissingDeletes, d.ExtraDeletes} {
					for p := range m {
						if dw[p] {
							f70[p] = true
						}
					}
				}
			}
			var rest []string
			updPaths := map[string]bool{}
			for _, p := range append(append(keysOf(d.MissingUpdates), keysOf(d.ExtraUpdates)...), keysOf(d.MismatchedUpdates)...) {
				updPaths[p] = true
			}
			for _, p := range badPaths(d) {
				if !f70[p] || updPaths[p] {
					rest = append(rest, p)
				}
			}
			var ids []string
			if len(rest) > 0 {
				var ok bool
				if ok, ids = w.explained(rest, md, rec.Active); !ok {
					return false
				}
			}
			if len(f70) > 0 {
				ids = append(ids, F70)
			}
			for _, id := range ids {
				rec.Excuse(id, true)
			}
			return len(ids) > 0
		}
		excusePanic := func(res diffRes, rs ...*request) bool {
			return rec.Excuse(F16, isF16Panic(res.panic) && w.writesLLTwice(rs...))
		}

		// reflexivity
		for i, x := range []struct {
			r  *request
			sr *gpb.SetRequest
		}{{a, ra}, {b, rb}} {
			res := runDiff(x.sr, x.sr, sch)
			name := string(rune('a' + i))
			if res.panic != nil {
				if excusePanic(res, x.r) {
					continue
				}
				rt.Fatalf("%s", describe("DiffSetRequest("+name+", "+name+") panicked", res))
			}
			if res.err != nil {
				continue
			}
			if bp := badPaths(res.d); len(bp) > 0 {
				rt.Fatalf("%s", describe(fmt.Sprintf("reflexivity: DiffSetRequest(%s, %s) reports missing/extra/mismatched %v", name, name, bp), res))
			}
		}
		// swap law on the unrelated pair (a, c)
		ac, ca := runDiff(ra, rcq, sch), runDiff(rcq, ra, sch)
		descC := func(what string) string {
			return fmt.Sprintf("%s\nschema: %s\n---- request a ----\n%s\n---- request c ----\n%s\n---- DiffSetRequest(a, c) ----\n%s\n---- DiffSetRequest(c, a) ----\n%s\n", what, md, ta, tc, ac, ca)
		}
		switch {
		case ac.panic != nil || ca.panic != nil:
			for _, r := range []diffRes{ac, ca} {
				if r.panic != nil && !excusePanic(r, a, c) {
					rt.Fatalf("%s", descC("DiffSetRequest panicked on the pair (a, c)"))
				}
			}
		case (ac.err == nil) != (ca.err == nil):
			rt.Fatalf("%s", descC("swap law: only one argument order returns an error"))
		case ac.err == nil:
			if f := swapFault(ac.d, ca.d); f != "" {
				rt.Fatalf("%s", descC("swap law violated: "+f))
			}
			n := 0
			for _, x := range []int{len(ac.d.MissingUpdates), len(ac.d.ExtraUpdates), len(ac.d.MismatchedUpdates), len(ac.d.CommonUpdates)} {
				if x > 0 {
					n++
				}
			}
			rec.Class(fmt.Sprintf("swap-pair:%d-of-4-update-categories", n))
			if len(ac.d.MissingDeletes)+len(ac.d.ExtraDeletes) > 0 {
				rec.Class("swap-pair:delete-difference")
			}
			if len(ac.d.MismatchedUpdates) > 0 {
				swapMism++
			}
		}

		// swap law and same-intent
		ab := runDiff(ra, rb, sch)
		ba := runDiff(rb, ra, sch)
		if ab.panic != nil || ba.panic != nil {
			if ab.panic != nil && !excusePanic(ab, a, b) {
				rt.Fatalf("%s", describe("DiffSetRequest(a, b) panicked", ab))
			}
			if ba.panic != nil && !excusePanic(ba, a, b) {
				rt.Fatalf("%s", describe("DiffSetRequest(b, a) panicked", ba))
			}
			errCases++
			return
		}
		if (ab.err == nil) != (ba.err == nil) {
			rt.Fatalf("%s", describe("swap law: only one argument order returns an error", ab, ba))
		}
		if ab.err != nil {
			errCases++
			errKinds[errClass(ab.err)]++
			if os.Getenv("T5_DEBUG") != "" {
				fmt.Println("ERR:", md, ab.err)
			}
			return
		}
		if f := swapFault(ab.d, ba.d); f != "" {
			rt.Fatalf("%s", describe("swap law violated: "+f, ab, ba))
		}
		if bp := badPaths(ab.d); len(bp) > 0 {
			if excuseDiff(ab.d) {
				excusedCases++
				return
			}
			rt.Fatalf("%s", describe(fmt.Sprintf("same intent, but DiffSetRequest(a, b) reports missing/extra/mismatched %v", bp), ab))
		}
	})

	// generator health
	if cases >= 100 {
		frac := func(c string) float64 { return float64(cl[c]) / float64(cases) }
		need := func(c string, min float64) {
			if frac(c) < min {
				t.Errorf("INCONCLUSIVE: class %q occurred in %.2f%% of %d cases (need >= %.2f%%)", c, 100*frac(c), cases, 100*min)
			}
		}
		for _, k := range rewriteKinds {
			need(k, 0.10)
		}
		need(rwRegroupJ, 0.05)
		need(rwRegroupL, 0.05)
		need("schema:nil", 0.2)
		need("schema:vocu", 0.2)
		need("schema:vocc", 0.2)
		need("req:list-entry", 0.5)
		need("nontrivial", 0.4)
		need("key:slash", 0.02)
		need("key:space", 0.02)
		need("key:numeric", 0.10)
		need("key:multi", 0.05)
		need("val:leaf-list", 0.15)
		need("val:enum", 0.15)
		need("val:identityref", 0.10)
		need("val:64-bit", 0.10)
		need("op:delete", 0.25)
		need("op:replace-leaf", 0.08)
		need("op:update-leaf", 0.3)
		need("op:update-json-entry", 0.1)
		need("op:update-json-container", 0.1)
		need("op:prefix", 0.1)
		if cases >= 250 {
			need("key:needs-escape(=])", 0.005)
			need("key:big-numeric(>=1e6)", 0.01)
			need("op:update-json-root", 0.01)
			need("op:replace-json-entry", 0.03)
			need("op:replace-json-container", 0.03)
		}
		if float64(swapMism)/float64(cases) < 0.1 {
			t.Errorf("INCONCLUSIVE: the unrelated pair (a, c) had mismatched updates in only %d of %d cases (need >= 10%%)", swapMism, cases)
		}
		if f := float64(errCases) / float64(cases); f > 0.25 {
			t.Errorf("INCONCLUSIVE: DiffSetRequest returned an error (or an excused panic) in %.1f%% of %d cases (budget 25%%): %v", 100*f, cases, errKinds)
		}
	}
	rec.Set("diff_error_cases", errCases)
	rec.Set("excused_cases", excusedCases)
	rec.Set("diff_error_kinds", fmt.Sprint(errKinds))
}

// errClass shortens an error to its stable beginning (for the error histogram).
func errClass(err error) string {
	s := err.Error()
	for _, k := range []string{"conflicting replaces", "leafref schema device has empty path", "failed to GetOrCreate the prefix node",
		"error parsing path", "error finding target schema", "leaf value set twice", "prefix match", "error unmarshalling update",
		"unrecognized JSON type", "error marshalling"} {
		if strings.Contains(s, k) {
			return k
		}
	}
	if len(s) > 60 {
		s = s[:60]
	}
	return s
}
