package t5

import (
	"fmt"
	"testing"

	gpb "github.com/openconfig/gnmi/proto/gnmi"
	"github.com/openconfig/ygot/gnmidiff"
	"github.com/openconfig/ygot/ytypes"
	"google.golang.org/protobuf/encoding/prototext"
	"verifharness/variants"
)

func mustPath(t *testing.T, s string) *gpb.Path {
	p := &gpb.Path{}
	if err := prototext.Unmarshal([]byte(s), p); err != nil {
		t.Fatal(err)
	}
	return p
}

func sreq(t *testing.T, s string) *gpb.SetRequest {
	p := &gpb.SetRequest{}
	if err := prototext.Unmarshal([]byte(s), p); err != nil {
		t.Fatal(err)
	}
	return p
}

func show(t *testing.T, name string, a, b *gpb.SetRequest, sch *ytypes.Schema) {
	defer func() {
		if r := recover(); r != nil {
			fmt.Printf("%s: PANIC %v\n", name, r)
		}
	}()
	d, err := gnmidiff.DiffSetRequest(a, b, sch)
	fmt.Printf("%s: err=%v\n%s\n", name, err, d.Format(gnmidiff.Format{Full: true}))
}

func TestProbe(t *testing.T) {
	for _, vn := range []string{"", "vocu", "vocc"} {
		var sch func() *ytypes.Schema = func() *ytypes.Schema { return nil }
		if vn != "" {
			v := variants.Get(vn)
			sch = v.FreshSchema
		}
		fmt.Println("=========== schema", vn)
		a := sreq(t, `update { path { elem {name:"items"} elem {name:"item" key{key:"name" value:"x"}} elem{name:"config"} elem{name:"mtu"} } val { uint_val: 100 } }
		update { path { elem {name:"items"} elem {name:"item" key{key:"name" value:"x"}} elem{name:"config"} elem{name:"kind"} } val { string_val: "KIND_A" } }
		update { path { elem {name:"items"} elem {name:"item" key{key:"name" value:"x"}} elem{name:"config"} elem{name:"big"} } val { int_val: 5 } }
		update { path { elem {name:"items"} elem {name:"item" key{key:"name" value:"x"}} elem{name:"config"} elem{name:"ratio"} } val { double_val: 1.0 } }
		update { path { elem {name:"items"} elem {name:"item" key{key:"name" value:"x"}} elem{name:"config"} elem{name:"name"} } val { string_val: "x" } }
		update { path { elem {name:"items"} elem {name:"item" key{key:"name" value:"x"}} elem{name:"name"} } val { string_val: "x" } }
		update { path { elem {name:"items"} elem {name:"item" key{key:"name" value:"x"}} elem{name:"config"} elem{name:"tags"} } val { leaflist_val { element {string_val:"a"} element {string_val:"b"}} } }
		`)
		b := sreq(t, `update { path { } val { json_ietf_val: "{\"voc:items\":{\"item\":[{\"name\":\"x\",\"config\":{\"name\":\"x\",\"mtu\":100,\"kind\":\"voc-types:KIND_A\",\"big\":\"5\",\"ratio\":\"1.0\",\"tags\":[\"a\",\"b\"]}}]}}" } }`)
		show(t, "leaf-vs-rootjson", a, b, sch())
		c := sreq(t, `prefix { elem {name:"items"} } update { path { elem {name:"item" key{key:"name" value:"x"}} } val { json_ietf_val: "{\"config\":{\"name\":\"x\",\"mtu\":100,\"kind\":\"KIND_A\",\"big\":\"5\",\"ratio\":\"1.0\",\"tags\":[\"a\",\"b\"]}}" } }`)
		show(t, "rootjson-vs-entryjson", b, c, sch())
		d := sreq(t, `update { path { elem {name:"items"} elem {name:"item" key{key:"name" value:"x"}} elem{name:"config"}  } val { json_ietf_val: "{\"name\":\"x\",\"mtu\":100,\"kind\":\"KIND_A\",\"big\":\"5\",\"ratio\":\"1.0\",\"tags\":[\"a\",\"b\"]}" } }`)
		show(t, "entryjson-vs-configjson", c, d, sch())
		e := sreq(t, `update { path { elem {name:"items"} elem {name:"item" key{key:"name" value:"x"}} elem{name:"config"} elem{name:"mtu"} } val { json_ietf_val: "100" } }
		update { path { elem {name:"items"} elem {name:"item" key{key:"name" value:"x"}} elem{name:"config"} elem{name:"tags"} } val { json_ietf_val: "[\"a\",\"b\"]" } }
		update { path { elem {name:"items"} elem {name:"item" key{key:"name" value:"x"}} elem{name:"config"} elem{name:"big"} } val { json_ietf_val: "\"5\"" } }`)
		show(t, "jsonscalars-vs-self", e, e, sch())
		f := sreq(t, `delete { elem {name:"items"} elem {name:"item" key{key:"name" value:"y"}} }
		delete { elem {name:"system"} elem {name:"config"} elem {name:"hostname"} }
		replace { path { elem {name:"items"} elem {name:"item" key{key:"name" value:"x"}} elem{name:"config"} elem{name:"mtu"} } val { uint_val: 100 } }
		replace { path { elem {name:"items"} elem {name:"item" key{key:"name" value:"z"}} elem{name:"config"} } val { json_ietf_val: "{\"mtu\": 77}" } }
		replace { path { elem {name:"policy"} } val { json_ietf_val: "{\"rules\":{\"rule\":[{\"id\":\"r1\",\"config\":{\"id\":\"r1\",\"weight\":3}}]}}" } }
		update { path { elem {name:"items"} elem {name:"item" key{key:"name" value:"z"}} elem{name:"config"} elem{name:"enabled"} } val { bool_val: true } }`)
		show(t, "mixed-self", f, f, sch())
		g := sreq(t, `replace { path { } val { json_ietf_val: "{\"system\":{\"config\":{\"hostname\":\"h\"}}}" } }`)
		show(t, "rootreplace-self", g, g, sch())
		h := sreq(t, `delete { }`)
		show(t, "rootdelete-self", h, h, sch())
		// escaping
		k1 := sreq(t, `update { path { elem {name:"items"} elem {name:"item" key{key:"name" value:"a=b"}} elem{name:"config"} elem{name:"mtu"} } val { uint_val: 100 } }`)
		k2 := sreq(t, `update { path { elem {name:"items"}  } val { json_ietf_val: "{\"item\":[{\"name\":\"a=b\",\"config\":{\"mtu\":100}}]}" } }`)
		show(t, "esc-leaf-vs-json", k1, k2, sch())
		k3 := sreq(t, `update { path { elem {name:"items"} elem {name:"item" key{key:"name" value:"x"}} elem {name:"subs"} elem {name:"sub" key{key:"index" value:"1000000"}} elem{name:"config"} elem{name:"descr"} } val { string_val: "d" } }`)
		k4 := sreq(t, `update { path { elem {name:"items"} elem {name:"item" key{key:"name" value:"x"}} elem {name:"subs"} } val { json_ietf_val: "{\"sub\":[{\"index\":1000000,\"config\":{\"descr\":\"d\"}}]}" } }`)
		show(t, "num-leaf-vs-json", k3, k4, sch())
		l1 := sreq(t, `update { path { elem {name:"items"} elem {name:"item" key{key:"name" value:"x"}} elem{name:"config"} elem{name:"tags"} } val { leaflist_val { element {string_val:"a"} element {string_val:"b"}} } }
		update { path { elem {name:"items"} elem {name:"item" key{key:"name" value:"x"}} elem{name:"config"} elem{name:"tags"} } val { leaflist_val { element {string_val:"a"} element {string_val:"b"}} } }`)
		show(t, "dup-leaflist", l1, l1, sch())
		// state path
		s1 := sreq(t, `update { path { elem {name:"items"} elem {name:"item" key{key:"name" value:"x"}} elem{name:"state"} elem{name:"mtu"} } val { uint_val: 100 } }`)
		show(t, "state-leaf", s1, s1, sch())
		// pair
		p1 := sreq(t, `update { path { elem {name:"pairs"} elem {name:"pair" key{key:"a" value:"x y"} key{key:"b" value:"3"}} elem{name:"config"} elem{name:"v"} } val { bool_val: true } }`)
		p2 := sreq(t, `update { path { elem {name:"pairs"} } val { json_ietf_val: "{\"pair\":[{\"a\":\"x y\",\"b\":3,\"config\":{\"v\":true}}]}" } }`)
		show(t, "pair-leaf-vs-json", p1, p2, sch())
	}
}
