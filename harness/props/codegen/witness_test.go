package codegen

import (
	"fmt"
	"os"
	"regexp"
	"sort"
	"strings"
	"sync"
	"testing"

	"verifharness/pipeline"
	"verifharness/yanggen"
)

// witness is the fixed minimal input of one finding (or of one collision class that was probed and
// found harmless: then id is "").
type witness struct {
	id      string            // finding id ("" = probe only)
	classes []string          // yanggen collision classes this finding covers (excluded from the draws while it is open)
	files   map[string]string // YANG
	roots   []string
	flags   pipeline.Flags
	stage   string                               // where it fails: "build" | "vet" | "generate" | "conformance"
	sig     *regexp.Regexp                       // failure signature in the compiler / generator output
	when    func(pipeline.Flags) bool            // flag condition of the trigger (nil: any flag set)
	clWhen  map[string]func(pipeline.Flags) bool // flag condition of single classes
}

const hdr = "yang-version 1.1; namespace \"urn:%s\"; prefix %s;"

func mod(name, body string) string {
	return fmt.Sprintf("module %s {\n  "+hdr+"\n%s}\n", name, name, name, body)
}

var witnesses = []witness{
	{
		id: "F23-identity-name-clash", classes: []string{yanggen.ClIdentSameName},
		files: map[string]string{
			"wa.yang": mod("wa", "  identity BASE;\n  identity foo { base BASE; }\n  container c { leaf l { type identityref { base BASE; } } }\n"),
			"wb.yang": mod("wb", "  import wa { prefix wa; }\n  identity foo { base wa:BASE; }\n  container d { leaf m { type identityref { base wa:BASE; } } }\n"),
		},
		roots: []string{"wa.yang", "wb.yang"}, flags: pipeline.Flags{FakeRoot: true},
		stage: "build", sig: regexp.MustCompile(`redeclared|duplicate`),
	},
	{
		id: "F25a-enum-sanitise-clash", classes: []string{yanggen.ClEnumSanitise, yanggen.ClIdentSanitise},
		files: map[string]string{"wa.yang": mod("wa", "  container c { leaf l { type enumeration { enum a-b; enum a_b; } } }\n")},
		roots: []string{"wa.yang"}, flags: pipeline.Flags{FakeRoot: true},
		stage: "build", sig: regexp.MustCompile(`redeclared|duplicate`),
	},
	{
		id: "F25b-enum-UNSET", classes: []string{yanggen.ClEnumUNSET},
		files: map[string]string{"wa.yang": mod("wa", "  container c { leaf l { type enumeration { enum UNSET; enum up; } } }\n")},
		roots: []string{"wa.yang"}, flags: pipeline.Flags{FakeRoot: true},
		stage: "build", sig: regexp.MustCompile(`redeclared|duplicate`),
	},
	{
		id: "F25c-method-name-clash", classes: []string{yanggen.ClMethodValidate, yanggen.ClMethodAccessor, yanggen.ClMethodAnnotation},
		clWhen: map[string]func(pipeline.Flags) bool{yanggen.ClMethodAnnotation: func(f pipeline.Flags) bool { return f.Annotations }},
		files:  map[string]string{"wa.yang": mod("wa", "  container c { leaf validate { type string; } }\n")},
		roots:  []string{"wa.yang"}, flags: pipeline.Flags{FakeRoot: true},
		stage: "build", sig: regexp.MustCompile(`field and method with the same name|redeclared|already declared`),
	},
	{
		id: "F25d-key-Key-swap", classes: []string{yanggen.ClKeyKey, yanggen.ClKeyOrder},
		files: map[string]string{"wa.yang": mod("wa", "  container c { list l { key \"key Key\"; leaf key { type string; } leaf Key { type uint8; } } }\n")},
		roots: []string{"wa.yang"}, flags: pipeline.Flags{FakeRoot: true},
		stage: "build", sig: regexp.MustCompile(`cannot use|mismatched types|redeclared`),
	},
	{
		id: "F34-key-param-shadows-list-struct", classes: []string{yanggen.ClKeyStructName},
		files: map[string]string{"wa.yang": mod("wa", "  container mtus { list mtu { key \"mtu\"; leaf mtu { type leafref { path \"../config/mtu\"; } }\n"+
			"    container config { leaf mtu { type string; } } container state { config false; leaf mtu { type string; } } } }\n")},
		roots: []string{"wa.yang"}, flags: pipeline.Flags{Compress: true, FakeRoot: true},
		stage: "build", sig: regexp.MustCompile(`is not a type`),
		when: func(f pipeline.Flags) bool { return f.Compress && f.FakeRoot },
	},
	{
		id: "F35-toplevel-struct-vs-package-helper", classes: []string{yanggen.ClTopHelper},
		files: map[string]string{"wa.yang": mod("wa", "  container unzip-schema { container config { leaf x { type string; } } container state { config false; leaf x { type string; } } }\n")},
		roots: []string{"wa.yang"}, flags: pipeline.Flags{Compress: true, FakeRoot: true},
		stage: "build", sig: regexp.MustCompile(`(Schema|SchemaTree|UnzipSchema|Unmarshal) (is not a type|redeclared)`),
		when: func(f pipeline.Flags) bool { return f.Compress },
	},
	{
		id: "F36-same-named-typedef-enums-conflated", classes: []string{yanggen.ClTypedefSameName},
		files: map[string]string{
			"wa.yang": mod("wa", "  typedef ratio { type enumeration { enum x25; enum up; } default x25; }\n"),
			"wb.yang": mod("wb", "  import wa { prefix wa; }\n  typedef ratio { type enumeration { enum auto; enum down; } }\n  container c { leaf l { type ratio; } leaf m { type wa:ratio; } }\n"),
		},
		roots: []string{"wb.yang"}, flags: pipeline.Flags{FakeRoot: true, PopulateDefaults: true},
		stage: "build", sig: regexp.MustCompile(`undefined: \w+_\w+`),
		when: func(f pipeline.Flags) bool { return !f.TypedefEnumWithDefmod },
	},
	{
		id:    "F29-split-files-unused-imports",
		files: map[string]string{"wa.yang": mod("wa", "  container c { leaf l { type string; } }\n")},
		roots: []string{"wa.yang"}, flags: pipeline.Flags{FakeRoot: true, SplitFiles: 1},
		stage: "build-unused-imports", sig: regexp.MustCompile(`imported and not used`),
	},
}

// probes: collision classes without a finding yet; run only by TestDevWitnesses.
var probes = []witness{
	{classes: []string{yanggen.ClMethodAccessor}, files: map[string]string{"wa.yang": mod("wa", "  container c { list l { key k; leaf k { type string; } } container get-l { leaf x { type string; } } container new-l { leaf y { type string; } } leaf m { type string; } leaf get-m { type string; } leaf set-m { type string; } container append-l { leaf z { type string; } } container delete-l { leaf z { type string; } } container rename-l { leaf z { type string; } } container get-or-create-l { leaf z { type string; } } }\n")},
		roots: []string{"wa.yang"}, flags: pipeline.Flags{FakeRoot: true, Getters: true, Append: true, Delete: true, Rename: true, LeafGetters: true, LeafSetters: true}},
	{classes: []string{yanggen.ClCamelSiblings, yanggen.ClDashUnderscore}, files: map[string]string{"wa.yang": mod("wa", "  container c { leaf leaf-one { type string; } leaf leaf-One { type uint8; } leaf leafOne { type int8; } container a-b { leaf x { type string; } } container a_b { leaf y { type string; } } list a.b { key k; leaf k { type string; } } }\n")},
		roots: []string{"wa.yang"}, flags: pipeline.Flags{FakeRoot: true, Getters: true, Append: true, Delete: true, Rename: true, LeafGetters: true, LeafSetters: true, PopulateDefaults: true}},
	// F25c, third form: annotation field vs generated Λ-method
	{classes: []string{yanggen.ClMethodAnnotation}, files: map[string]string{"wa.yang": mod("wa", "  container c { leaf belonging-module { type string; } leaf enum-type-map { type string; } list l { key k; leaf k { type string; } leaf list-key-map { type string; } } }\n")},
		roots: []string{"wa.yang"}, flags: pipeline.Flags{FakeRoot: true, Annotations: true}},
	{classes: []string{yanggen.ClMethodAnnotation}, files: map[string]string{"wa.yang": mod("wa", "  container c { leaf belonging-module { type string; } leaf enum-type-map { type string; } list l { key k; leaf k { type string; } leaf list-key-map { type string; } } }\n")},
		roots: []string{"wa.yang"}, flags: pipeline.Flags{FakeRoot: true}},
	// F25d, second form: a key and a non-key sibling (policy / Policy); third: benign orders (must compile)
	{classes: []string{yanggen.ClKeyOrder}, files: map[string]string{"wa.yang": mod("wa", "  container c { list l { key \"policy\"; leaf policy { type string; } leaf Policy { type uint8; } } }\n")},
		roots: []string{"wa.yang"}, flags: pipeline.Flags{FakeRoot: true}},
	{classes: []string{yanggen.ClKeyCamel}, files: map[string]string{"wa.yang": mod("wa", "  container c { list l { key \"Key key\"; leaf key { type string; } leaf Key { type uint8; } } list m { key \"Policy\"; leaf policy { type string; } leaf Policy { type uint8; } } list n { key \"vlan-id vlanId\"; leaf vlanId { type string; } leaf vlan-id { type uint8; } } }\n")},
		roots: []string{"wa.yang"}, flags: pipeline.Flags{FakeRoot: true, Getters: true, Append: true, Delete: true, Rename: true}},
	{classes: []string{yanggen.ClKeyListName, yanggen.ClKeyCamel, yanggen.ClListChildKey}, files: map[string]string{"wa.yang": mod("wa", "  container c { list l { key \"l\"; leaf l { type string; } } list m { key \"a-b a_b\"; leaf a-b { type string; } leaf a_b { type uint8; } } list n { key \"x y\"; leaf x { type string; } leaf y { type string; } container key { leaf z { type string; } } } }\n")},
		roots: []string{"wa.yang"}, flags: pipeline.Flags{FakeRoot: true, Getters: true, Append: true, Delete: true, Rename: true}},
	{classes: []string{yanggen.ClGoKeyword}, files: map[string]string{"wa.yang": mod("wa", "  container type { leaf func { type string; } leaf range { type uint8; } container map { leaf string { type string; } leaf nil { type string; } } list interface { key go; leaf go { type string; } leaf len { type enumeration { enum true; enum false; enum nil; } } } }\n")},
		roots: []string{"wa.yang"}, flags: pipeline.Flags{FakeRoot: true, Getters: true, Append: true, LeafGetters: true}},
	{classes: []string{yanggen.ClHelperName}, files: map[string]string{"wa.yang": mod("wa", "  container c { leaf key { type string; } leaf Key { type string; } leaf string { type string; } leaf String { type string; } leaf goStruct { type string; } leaf is-yang-go-struct { type string; } leaf populate-defaults { type string; } leaf unmarshal { type string; } leaf schema { type string; } container schema-tree { leaf x { type string; } } leaf binary { type binary; } leaf yang-empty { type empty; } leaf union { type union { type string; type uint8; } } list ordered-map { key keys; ordered-by user; leaf keys { type string; } leaf values { type string; } leaf len { type string; } leaf get { type string; } leaf append-new { type string; } } leaf e { type string; } leaf x { type string; } }\n")},
		roots: []string{"wa.yang"}, flags: pipeline.Flags{FakeRoot: true, Getters: true, Append: true, LeafGetters: true, PopulateDefaults: true}},
	{classes: []string{yanggen.ClDigitsDots}, files: map[string]string{"wa.yang": mod("wa", "  container c { leaf a.b { type string; } leaf x1.2 { type string; } leaf v4.x { type string; } leaf a-1 { type string; } leaf _x { type string; } leaf a..b { type string; } leaf A. { type string; } leaf x- { type string; } leaf r2-d2 { type string; } leaf _ { type string; } leaf __a { type string; } leaf B2B { type string; } container ipv4. { leaf a-.b { type string; } } }\n")},
		roots: []string{"wa.yang"}, flags: pipeline.Flags{FakeRoot: true, Getters: true, LeafGetters: true}},
	{classes: []string{yanggen.ClEnumCase}, files: map[string]string{"wa.yang": mod("wa", "  container c { leaf l { type enumeration { enum up; enum UP; enum Up; enum \"x.y\"; enum \"a b\"; enum \"c+d\"; enum \"e/f\"; enum \"g:h\"; enum \"i@j\"; enum \"k*\"; enum \"m,n\"; enum 10g; } } }\n")},
		roots: []string{"wa.yang"}, flags: pipeline.Flags{FakeRoot: true}},
}

// runWitness runs w through the pipeline and reports whether it still fails as recorded.
func runWitness(w witness) (bool, string) {
	sc, err := pipeline.NewScratch("wit")
	if err != nil {
		return false, "HARNESS-BUG: " + err.Error()
	}
	defer sc.Remove()
	dir := sc.Sub("yang")
	for n, s := range w.files {
		if err := os.WriteFile(dir+"/"+n, []byte(s), 0o644); err != nil {
			return false, "HARNESS-BUG: " + err.Error()
		}
	}
	c := pipeline.CheckGo(pipeline.Input{Name: "witness:" + w.id, Dir: dir, Roots: w.roots}, w.flags)
	return witnessFails(w, c)
}

func witnessFails(w witness, c *pipeline.GoCheck) (bool, string) {
	if c.HarnessError != "" {
		return false, "harness error (witness not evaluated): " + c.HarnessError
	}
	stage, out := "", ""
	switch {
	case c.GenFailed():
		stage, out = "generate", c.Gen.Output
	case c.UnusedImports != "" && (w.stage == "build-unused-imports" || !c.BuildFailed):
		stage, out = "build-unused-imports", c.UnusedImports
	case c.BuildFailed:
		stage, out = "build", c.BuildOutput
	case c.VetFailed:
		stage, out = "vet", c.VetOutput
	case c.RunFailed:
		stage, out = "run", c.RunOutput
	case c.Verdict != nil && len(c.Verdict.C26.Violations) > 0:
		stage, out = "conformance", strings.Join(c.Verdict.C26.Violations, "\n")
	default:
		return false, "generated code compiles, vets and conforms"
	}
	// a recorded finding is only "still there" when it fails the recorded way (stage + signature)
	if w.id != "" && (stage != w.stage || w.sig != nil && !w.sig.MatchString(out)) {
		return false, "fails, but not as recorded (want stage " + w.stage + "): " + stage + ": " + pipeline.Trunc(out, 1500)
	}
	return true, stage + ": " + pipeline.Trunc(out, 1500)
}

// TestDevWitnesses (development aid, CODEGEN_DEV=1): every witness and every probe, with output.
func TestDevWitnesses(t *testing.T) {
	if os.Getenv("CODEGEN_DEV") == "" {
		t.Skip("set CODEGEN_DEV")
	}
	all := append(append([]witness{}, witnesses...), probes...)
	res := make([]string, len(all))
	var wg sync.WaitGroup
	for i, w := range all {
		wg.Add(1)
		go func(i int, w witness) {
			defer wg.Done()
			bad, detail := runWitness(w)
			names := make([]string, 0, len(w.files))
			for n := range w.files {
				names = append(names, n)
			}
			sort.Strings(names)
			res[i] = fmt.Sprintf("== %q classes=%v fails=%v\n%s", w.id, w.classes, bad, detail)
		}(i, w)
	}
	wg.Wait()
	for _, r := range res {
		t.Log(r)
	}
}
