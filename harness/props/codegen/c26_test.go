package codegen

import (
	"crypto/sha256"
	"encoding/hex"
	"encoding/json"
	"fmt"
	"io"
	"os"
	"path/filepath"
	"strings"
	"sync"
	"syscall"
	"testing"

	"pgregory.net/rapid"
	"verifharness/ev"
	"verifharness/pipeline"
)

// One pipeline run (generate, build, vet, checker) serves C26 and C27: results are cached by the
// hash of input + flags within the process (the two properties draw the same cases from the same
// rapid seed when they run in one process; run separately the cache is simply cold).
var (
	runMu    sync.Mutex
	runCache = map[string]*pipeline.GoCheck{}
)

func checkGoCached(c *genCase, f pipeline.Flags) *pipeline.GoCheck {
	h := sha256.Sum256([]byte(c.key + "\x00" + f.String()))
	k := hex.EncodeToString(h[:12])
	runMu.Lock()
	r, ok := runCache[k]
	runMu.Unlock()
	if ok {
		return r
	}
	r = pipeline.CheckGo(c.in, f)
	if r.HarnessError == "" {
		r.Files = nil // keep the cache small
		runMu.Lock()
		if len(runCache) < 4096 {
			runCache[k] = r
		}
		runMu.Unlock()
	}
	return r
}

// c26Verdict evaluates one pipeline run for C26. It returns "" (holds), or the violation text.
// kind is "build", "vet", "run" or "conformance".
func c26Verdict(r *pipeline.GoCheck) (kind, detail string) {
	switch {
	case r.BuildFailed:
		return "build", "go build of the generated package failed:\n" + pipeline.Trunc(r.BuildOutput, 4000)
	case r.VetFailed:
		return "vet", "go vet of the generated package failed:\n" + pipeline.Trunc(r.VetOutput, 4000)
	case r.RunFailed:
		return "run", "the program linking the generated package crashed:\n" + pipeline.Trunc(r.RunOutput, 4000)
	case r.Verdict != nil && len(r.Verdict.C26.Violations) > 0:
		return "conformance", "struct/tag/schema conformance:\n  " + strings.Join(r.Verdict.C26.Violations, "\n  ")
	}
	return "", ""
}

// registerWitnesses replays the minimal inputs of the recorded findings (in parallel: each is a
// generate + compile) and returns the collision classes of the findings that are active.
func registerWitnesses(t *testing.T, rec *ev.Rec) map[string]bool {
	type res struct {
		bad    bool
		detail string
	}
	out := make([]res, len(witnesses))
	var wg sync.WaitGroup
	for i, w := range witnesses {
		wg.Add(1)
		go func(i int, w witness) {
			defer wg.Done()
			b, d := sharedWitness(w)
			out[i] = res{b, d}
		}(i, w)
	}
	wg.Wait()
	excluded := map[string]bool{}
	for i, w := range witnesses {
		r := out[i]
		if strings.HasPrefix(r.detail, "HARNESS-BUG") || strings.HasPrefix(r.detail, "harness error") {
			t.Fatalf("HARNESS-BUG: witness %s could not be evaluated: %s", w.id, r.detail)
		}
		rec.Witness(w.id, func() (bool, string) { return r.bad, r.detail })
		if rec.Active(w.id) {
			for _, c := range w.classes {
				excluded[c] = true
			}
		}
	}
	return excluded
}

// sharedWitness evaluates a witness once per check run: the shards of one run (separate processes
// with a common $VERIF_OUT, which the driver wipes before every run) share the result through a
// file guarded by flock. Outside the driver the witness is simply run.
func sharedWitness(w witness) (bool, string) {
	dir := os.Getenv("VERIF_OUT")
	if dir == "" || w.id == "" {
		return runWitness(w)
	}
	dir = filepath.Join(dir, "witness")
	if err := os.MkdirAll(dir, 0o755); err != nil {
		return runWitness(w)
	}
	f, err := os.OpenFile(filepath.Join(dir, w.id+".json"), os.O_RDWR|os.O_CREATE, 0o644)
	if err != nil {
		return runWitness(w)
	}
	defer f.Close()
	if err := syscall.Flock(int(f.Fd()), syscall.LOCK_EX); err != nil {
		return runWitness(w)
	}
	defer syscall.Flock(int(f.Fd()), syscall.LOCK_UN)
	var r struct {
		Bad    bool
		Detail string
	}
	if b, err := io.ReadAll(f); err == nil && len(b) > 0 && json.Unmarshal(b, &r) == nil {
		return r.Bad, r.Detail
	}
	r.Bad, r.Detail = runWitness(w)
	if strings.HasPrefix(r.Detail, "HARNESS-BUG") || strings.HasPrefix(r.Detail, "harness error") {
		return r.Bad, r.Detail // not stored: the next shard tries again
	}
	if b, err := json.Marshal(r); err == nil {
		f.Seek(0, 0)
		f.Truncate(0)
		f.Write(b)
	}
	return r.Bad, r.Detail
}

const f29 = "F29-split-files-unused-imports"

// excuse: an open finding whose trigger class is present in the input and whose signature matches.
func excuse(rec *ev.Rec, c *genCase, f pipeline.Flags, kind, detail string) bool {
	for _, w := range witnesses {
		trig := false
		for _, cl := range w.classes {
			if c.has("collision:"+cl) && (w.clWhen[cl] == nil || w.clWhen[cl](f)) {
				trig = true
			}
		}
		if w.when != nil && !w.when(f) {
			trig = false
		}
		if rec.Excuse(w.id, trig && kind == w.stage && w.sig.MatchString(detail)) {
			return true
		}
	}
	return false
}

// TestC26_Corpus: the six registered corpus variants. Any generator error, compile or vet failure
// or conformance difference on the fixed corpus is a violation.
func TestC26_Corpus(t *testing.T) {
	rec := ev.Start(t, "C26")
	corpusRun(t, rec, "C26")
}

func corpusRun(t *testing.T, rec *ev.Rec, prop string) {
	vs, err := pipeline.CorpusVariants()
	must(t, err)
	type job struct {
		v pipeline.Variant
		r *pipeline.GoCheck
	}
	var jobs []*job
	for i, v := range vs {
		if mine(i) {
			jobs = append(jobs, &job{v: v})
		}
	}
	var wg sync.WaitGroup
	sem := make(chan struct{}, 4)
	for _, j := range jobs {
		wg.Add(1)
		go func(j *job) {
			defer wg.Done()
			sem <- struct{}{}
			defer func() { <-sem }()
			c := &genCase{in: pipeline.Input{Name: "corpus:" + j.v.Name, Dir: pipeline.CorpusDir(), Roots: j.v.Yang}, key: "corpus-variant:" + j.v.Name}
			j.r = checkGoCached(c, j.v.Flags)
		}(j)
	}
	wg.Wait()
	for _, j := range jobs {
		r := j.r
		name := "corpus variant " + j.v.Name
		if r.HarnessError != "" {
			t.Fatalf("HARNESS-BUG: %s: %s", name, r.HarnessError)
		}
		rec.Case("corpus-variant:"+j.v.Name+"|"+j.v.Flags.String(), true, append(flagClasses(j.v.Flags), "src:corpus-variant")...)
		if r.GenFailed() {
			if prop == "C26" {
				rec.Violation(map[string]interface{}{"kind": "generator-error", "input": name, "detail": r.Describe("")})
				t.Errorf("C26 violated: the generator rejects %s\n%s", name, r.Describe(""))
			} else {
				t.Fatalf("INCONCLUSIVE: %s cannot be generated (C26 reports this): %s", name, pipeline.Trunc(r.Gen.Output, 1500))
			}
			continue
		}
		kind, detail := c26Verdict(r)
		if prop == "C26" {
			if kind != "" {
				rec.Violation(map[string]interface{}{"kind": kind, "input": name, "flags": j.v.Flags.String(), "detail": detail})
				t.Errorf("C26 violated on %s (flags %s):\n%s", name, j.v.Flags.String(), detail)
			}
			continue
		}
		// C27
		if kind == "build" || kind == "run" {
			t.Fatalf("INCONCLUSIVE: %s does not build/run (C26 reports this): %s", name, pipeline.Trunc(detail, 1500))
		}
		if v := r.Verdict.C27.Violations; len(v) > 0 {
			rec.Violation(map[string]interface{}{"kind": "schema-diff", "input": name, "flags": j.v.Flags.String(), "detail": v})
			t.Errorf("C27 violated on %s (flags %s): the embedded schema differs from the goyang compilation:\n  %s", name, j.v.Flags.String(), strings.Join(v, "\n  "))
		}
	}
}

// TestC26_Random: random schemas (hostile identifiers from the collision classes that are not
// covered by an open finding), corpus modules and repo YANG under random flag sets.
func TestC26_Random(t *testing.T) {
	rec := ev.Start(t, "C26")
	rec.Rule("case = (YANG input, generator flag set): random schema (plain or OpenConfig style; 70 % with hostile identifiers drawn from " +
		"explicit collision classes, minus the classes of open findings), corpus modules or a YANG file of the repo's testdata, with a " +
		"consistent random flag set (compression only for OpenConfig-style input). Generated package is built, vetted and linked with a " +
		"checker that walks all GoStructs by reflection against the embedded schema and against the harness's own goyang compilation. " +
		"Non-trivial: generation succeeded and the schema has a name collision or a multi-key list with mixed key types (corpus variants " +
		"have the latter). Key = YANG text + flags. Generator errors on random schemas are counted and capped at 5 %.")
	rec.Assume("supported subset = goyang accepts the modules and they contain nothing ygot documents as unsupported; generator errors on random modules are capped, not forbidden (DESIGN.md section 8).")
	excluded := registerWitnesses(t, rec)
	h := newHealth()
	rapid.Check(t, func(rt *rapid.T) {
		c := drawCase(rt, true, excluded, false)
		defer c.cleanup()
		hints := c.hints
		hints.NeedSchema = true
		f := pipeline.DrawFlags(rt, hints)
		r := checkGoCached(c, f)
		if r.HarnessError != "" {
			rt.Fatalf("HARNESS-BUG: %s\n%s", r.HarnessError, describe(c, f.String(), ""))
		}
		h.note(c, f)
		if c.schema != nil {
			for cl, n := range c.schema.ExcludedDraws {
				rec.Add("excluded_class_draws:"+cl, int64(n))
			}
		}
		cls := c.classes(flagClasses(f)...)
		if r.GenFailed() {
			if strings.HasPrefix(c.source, "random") {
				h.genErr++
			}
			rec.Case(c.key+"|"+f.String(), false, append(cls, "generator-rejected", "rejected:"+rejectClass(r.Gen.Output))...)
			if c.source == "corpus" && !flagDomainError(r.Gen.Output) {
				rt.Fatalf("C26 violated: the generator rejects the fixed corpus\n%s", r.Describe(c.text))
			}
			return
		}
		nt := c.collision() || c.has("list-multikey-mixed")
		rec.Case(c.key+"|"+f.String(), nt, cls...)
		if rec.WantSample() {
			rec.Sample(sample(c, f.String(), map[string]interface{}{"structs": len(r.Structs)}))
		}
		if r.UnusedImports != "" && !rec.Excuse(f29, f.SplitFiles > 0) {
			rt.Fatalf("C26 violated (build): the files written with -output_dir do not compile as generated:\n%s\ncommand: %s\n%s",
				pipeline.Trunc(r.UnusedImports, 3000), r.Gen.CmdLine(), describe(c, f.String(), ""))
		}
		kind, detail := c26Verdict(r)
		if kind == "" {
			return
		}
		if excuse(rec, c, f, kind, detail) {
			return
		}
		rt.Fatalf("C26 violated (%s):\n%s\ncommand: %s\n%s", kind, detail, r.Gen.CmdLine(), describe(c, f.String(), ""))
	})
	h.check(t, rec, []string{"src:random-plain", "src:random-oc", "collision:any", "list-multikey-mixed", "flag:compress", "augment", "choice", "union"})
}

// flagDomainError: generator messages that reject the flag combination rather than the schema.
func flagDomainError(out string) bool {
	return strings.Contains(out, "default value not supported for wrapper union") || strings.Contains(out, "requested ") && strings.Contains(out, "files, but must be between")
}

// rejectClass buckets generator error messages for the evidence histogram.
func rejectClass(out string) string {
	for _, p := range []struct{ sub, name string }{
		{"could not resolve leafref", "leafref-unresolved"},
		{"into a defined struct", "struct-unresolved"},
		{"enumSet: cannot retrieve type name", "enum-name-missing"},
		{"was duplicate with", "duplicate-child"},
		{"duplicate entry", "duplicate-root"},
		{"default value not supported for wrapper union", "wrapper-union-default"},
		{"default value conversion", "default-conversion"},
		{"files, but must be between", "split-count"},
		{"has a binary key", "binary-key"},
		{"unsupported statement", "unsupported-statement"},
		{"unknown entity type", "unknown-entity"},
		{"can't read", "missing-import"},
	} {
		if strings.Contains(out, p.sub) {
			return p.name
		}
	}
	return "other"
}

var _ = fmt.Sprintf
