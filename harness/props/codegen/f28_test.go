package codegen

import (
	"bytes"
	"compress/gzip"
	"encoding/json"
	"io"
	"regexp"
	"sort"
	"strconv"
	"strings"
)

// F28: the schema JSON embedded in generated Go code carries goyang's Entry.Augmented slices; when
// two modules augment the same node their order follows goyang's iteration over its module map,
// so the gzipped bytes differ from process to process.

var ySchemaRe = regexp.MustCompile(`(?s)ySchema = \[\]byte\{(.*?)\n\t\}`)
var hexRe = regexp.MustCompile(`0x[0-9a-fA-F]{2}`)

// splitSchema returns the file with the schema bytes blanked, and the decompressed schema JSON.
func splitSchema(src string) (rest string, js []byte, ok bool) {
	m := ySchemaRe.FindStringSubmatchIndex(src)
	if m == nil {
		return src, nil, false
	}
	var b []byte
	for _, h := range hexRe.FindAllString(src[m[2]:m[3]], -1) {
		v, _ := strconv.ParseUint(h[2:], 16, 8)
		b = append(b, byte(v))
	}
	zr, err := gzip.NewReader(bytes.NewReader(b))
	if err != nil {
		return src, nil, false
	}
	js, err = io.ReadAll(zr)
	if err != nil {
		return src, nil, false
	}
	return src[:m[2]] + "<schema>" + src[m[3]:], js, true
}

// normAugmented sorts every "Augmented" array of a decoded schema by the canonical JSON of its elements.
func normAugmented(v interface{}) interface{} {
	switch x := v.(type) {
	case map[string]interface{}:
		for k, e := range x {
			x[k] = normAugmented(e)
			if arr, ok := x[k].([]interface{}); ok && k == "Augmented" {
				sort.Slice(arr, func(i, j int) bool {
					a, _ := json.Marshal(arr[i])
					b, _ := json.Marshal(arr[j])
					return bytes.Compare(a, b) < 0
				})
			}
		}
	case []interface{}:
		for i := range x {
			x[i] = normAugmented(x[i])
		}
	}
	return v
}

// onlyAugmentedOrder reports whether two output trees differ in nothing but the order of
// "Augmented" arrays inside the embedded schema (the signature of F28).
func onlyAugmentedOrder(a, b map[string]string) bool {
	if len(a) != len(b) {
		return false
	}
	differed := false
	for n, x := range a {
		y, ok := b[n]
		if !ok {
			return false
		}
		if x == y {
			continue
		}
		if !strings.HasSuffix(n, ".go") {
			return false
		}
		rx, jx, okx := splitSchema(x)
		ry, jy, oky := splitSchema(y)
		if !okx || !oky || rx != ry {
			return false
		}
		var vx, vy interface{}
		if json.Unmarshal(jx, &vx) != nil || json.Unmarshal(jy, &vy) != nil {
			return false
		}
		cx, _ := json.Marshal(normAugmented(vx))
		cy, _ := json.Marshal(normAugmented(vy))
		if !bytes.Equal(cx, cy) {
			return false
		}
		differed = true
	}
	return differed
}
