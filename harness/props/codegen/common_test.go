// Package codegen holds the code-generation properties C25 (determinism), C26 (generated Go
// compiles, vets and matches its schema) and C27 (embedded schema is faithful). See DESIGN.md
// section 5 and harness/pipeline, harness/checker, harness/yanggen.
package codegen

import (
	"fmt"
	"math"
	"os"
	"sort"
	"strings"
	"sync"
	"testing"

	"pgregory.net/rapid"
	"verifharness/ev"
	"verifharness/pipeline"
	"verifharness/yanggen"
)

// genCase is one generator input drawn by a property.
type genCase struct {
	in      pipeline.Input
	source  string // random-plain | random-oc | corpus | repo
	text    string // YANG text (random) or the list of files (fixed inputs)
	key     string // canonical key of the input
	feats   map[string]int
	hints   pipeline.Hints
	schema  *yanggen.Schema
	scratch *pipeline.Scratch
}

func (c *genCase) cleanup() { c.scratch.Remove() }

func (c *genCase) classes(extra ...string) []string {
	cs := []string{"src:" + c.source}
	for k := range c.feats {
		cs = append(cs, k)
	}
	sort.Strings(cs)
	return append(cs, extra...)
}

func (c *genCase) has(f string) bool { return c.feats[f] > 0 }

func (c *genCase) collision() bool {
	for k, v := range c.feats {
		if v > 0 && strings.HasPrefix(k, "collision:") {
			return true
		}
	}
	return false
}

// the three corpus inputs that random flag sets are drawn for (DESIGN 3.1)
var corpusInputs = []struct {
	name  string
	roots []string
	hints pipeline.Hints
	feats map[string]int
}{
	{"vt", []string{"vt.yang"}, pipeline.Hints{MinStructs: 20}, map[string]int{"list": 20, "enumeration": 5, "list-multikey-mixed": 1, "typedef-union-use": 1, "identityref-cross-module": 1}},
	{"vt+udef", []string{"vt.yang", "vt-udef.yang"}, pipeline.Hints{MinStructs: 20, UnionDefault: true}, map[string]int{"list": 20, "enumeration": 5, "list-multikey-mixed": 1, "typedef-union-use": 1, "identityref-cross-module": 1, "union-default": 1, "augment": 1}},
	{"voc", []string{"voc.yang", "voc-aug.yang"}, pipeline.Hints{MinStructs: 8, OpenConfigStyle: true}, map[string]int{"list": 6, "enumeration": 3, "list-multikey-mixed": 1, "typedef-union-use": 1, "identityref-cross-module": 1, "augment": 1, "style-openconfig": 1}},
}

var (
	repoOnce sync.Once
	repoIn   []pipeline.RepoInput
)

func repoInputs() []pipeline.RepoInput {
	repoOnce.Do(func() { repoIn = pipeline.RepoInputs() })
	return repoIn
}

// drawCase draws the input of one case: a random schema (plain or OpenConfig style, hostile or
// not), the fixed corpus or a YANG file of the repository.
func drawCase(rt *rapid.T, hostile bool, excluded map[string]bool, small bool) *genCase {
	wRepo := 12
	if len(repoInputs()) == 0 {
		wRepo = 0
	}
	x := rapid.IntRange(0, 99).Draw(rt, "source")
	switch {
	case x < 38:
		return randomCase(rt, yanggen.Options{Hostile: hostile && rapid.IntRange(0, 9).Draw(rt, "hostile") < 7, Excluded: excluded, Small: small})
	case x < 76:
		return randomCase(rt, yanggen.Options{OpenConfigStyle: true, Hostile: hostile && rapid.IntRange(0, 9).Draw(rt, "hostile") < 7, Excluded: excluded, Small: small})
	case x < 76+wRepo:
		r := repoInputs()[rapid.IntRange(0, len(repoInputs())-1).Draw(rt, "repo-file")]
		return &genCase{in: r.Input, source: "repo", text: r.Name, key: r.Name, feats: map[string]int{},
			hints: pipeline.Hints{OpenConfigStyle: r.OpenConfigStyle, MinStructs: 1}}
	default:
		ci := corpusInputs[rapid.IntRange(0, len(corpusInputs)-1).Draw(rt, "corpus-input")]
		return &genCase{in: pipeline.Input{Name: "corpus:" + ci.name, Dir: pipeline.CorpusDir(), Roots: ci.roots}, source: "corpus",
			text: "corpus " + strings.Join(ci.roots, " "), key: "corpus:" + ci.name, feats: ci.feats, hints: ci.hints}
	}
}

// flagSteered: collision classes of open findings that only fail under certain flags and are kept
// in the schema generator; the flag drawer is steered instead (counted as an excluded draw).
var flagSteered = map[string]bool{yanggen.ClTypedefSameName: true}

func randomCase(rt *rapid.T, o yanggen.Options) *genCase {
	steer := map[string]bool{}
	if len(o.Excluded) > 0 {
		ex := map[string]bool{}
		for c, v := range o.Excluded {
			if v && flagSteered[c] {
				steer[c] = true
			} else {
				ex[c] = v
			}
		}
		o.Excluded = ex
	}
	s := yanggen.Draw(rt, o)
	sc, err := pipeline.NewScratch("yang")
	if err != nil {
		rt.Fatalf("HARNESS-BUG: %v", err)
	}
	if err := s.WriteTo(sc.Dir); err != nil {
		sc.Remove()
		rt.Fatalf("HARNESS-BUG: %v", err)
	}
	src := "random-plain"
	if o.OpenConfigStyle {
		src = "random-oc"
	}
	hints := pipeline.HintsFor(s.Features)
	if steer[yanggen.ClTypedefSameName] && s.Has("collision:"+yanggen.ClTypedefSameName) {
		hints.ForceTypedefDefmod = true
		s.ExcludedDraws[yanggen.ClTypedefSameName+"(without -typedef_enum_with_defmod)"]++
	}
	return &genCase{in: pipeline.Input{Name: src, Dir: sc.Dir, Roots: s.Roots}, source: src, text: s.Key(), key: s.Key(),
		feats: s.Features, hints: hints, schema: s, scratch: sc}
}

// allFindingClasses: the collision classes of every recorded finding (static exclusion list).
func allFindingClasses() map[string]bool {
	m := map[string]bool{}
	for _, w := range witnesses {
		for _, c := range w.classes {
			m[c] = true
		}
	}
	return m
}

// health is the generator-health bookkeeping of one test.
type health struct {
	random, genErr int
	seen           map[string]int
}

func newHealth() *health { return &health{seen: map[string]int{}} }

func (h *health) note(c *genCase, f pipeline.Flags) {
	if strings.HasPrefix(c.source, "random") {
		h.random++
	}
	h.seen["src:"+c.source]++
	for k, v := range c.feats {
		if v > 0 {
			h.seen[k]++
			if strings.HasPrefix(k, "collision:") {
				h.seen["collision:any"]++
			}
		}
	}
	if f.Compress {
		h.seen["flag:compress"]++
	}
}

// check fails the test with INCONCLUSIVE when an essential class (almost) never occurred or the
// generator rejected too many random schemas. Small runs (quick tier shards) only get the weak form.
func (h *health) check(t *testing.T, rec *ev.Rec, essential []string) {
	rec.Set("random_cases", h.random)
	rec.Set("generator_errors_on_random", h.genErr)
	// cap on generator rejections of random schemas: 5 % of the campaign. One shard only sees part of
	// it, so a small shard tests "significantly above 5 %" (two standard deviations of the binomial
	// count), a large one the plain 5 %. The merged counts are in the evidence file.
	n, k := float64(h.random), float64(h.genErr)
	switch {
	case h.random >= 60 && k > 0.05*n, h.random >= 10 && k > 0.05*n+2*math.Sqrt(n*0.05*0.95):
		t.Fatalf("INCONCLUSIVE: the generator rejected %d of %d random schemas (cap 5 %%): the random generator leaves the supported subset too often", h.genErr, h.random)
	case h.random >= 3 && h.genErr > (h.random+1)/2:
		t.Fatalf("INCONCLUSIVE: the generator rejected %d of %d random schemas", h.genErr, h.random)
	}
	if h.random >= 20 {
		for _, e := range essential {
			if h.seen[e] == 0 {
				t.Fatalf("INCONCLUSIVE: generator health: class %q never occurred in %d random cases", e, h.random)
			}
		}
	}
}

func sample(c *genCase, flags string, extra map[string]interface{}) map[string]interface{} {
	m := map[string]interface{}{"source": c.source, "input": c.in.Name, "flags": flags, "yang": pipeline.Trunc(c.text, 2500)}
	for k, v := range extra {
		m[k] = v
	}
	return m
}

func flagClasses(f pipeline.Flags) []string {
	var cs []string
	add := func(b bool, n string) {
		if b {
			cs = append(cs, "flag:"+n)
		}
	}
	add(f.Compress, "compress")
	add(f.PreferOperationalState, "prefer-state")
	add(f.ExcludeState, "exclude-state")
	add(f.FakeRoot, "fakeroot")
	add(f.SimpleUnions, "simple-unions")
	add(!f.SimpleUnions, "wrapper-unions")
	add(f.SplitFiles > 0, "split-files")
	add(f.PathStructs, "path-structs")
	add(f.UnorderedMaps, "unordered-maps")
	add(f.SkipEnumDedup, "skip-enum-dedup")
	add(f.Annotations, "annotations")
	return cs
}

func must(t *testing.T, err error) {
	t.Helper()
	if err != nil {
		t.Fatalf("HARNESS-BUG: %v", err)
	}
}

// shardOf distributes fixed cases over the shards of a thorough run.
func mine(i int) bool { return i%ev.Shards() == ev.Shard() }

func init() {
	// scratch directories of killed runs must not pile up: remove leftovers older than this process
	// only when they are not from a concurrently running check (age > 2h).
	_ = os.MkdirAll(pipeline.OutDir(), 0o755)
}

func describe(c *genCase, flags, detail string) string {
	return fmt.Sprintf("input: %s (%s)\nflags: %s\n%s\nYANG:\n%s", c.in.Name, c.source, flags, detail, pipeline.Trunc(c.text, 14000))
}
