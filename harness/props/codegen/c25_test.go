package codegen

import (
	"fmt"
	"os"
	"path/filepath"
	"strings"
	"sync"
	"testing"

	"pgregory.net/rapid"
	"verifharness/ev"
	"verifharness/pipeline"
	"verifharness/yanggen"
)

const c25Runs = 3

// runThrice runs the same generator command c25Runs times in separate processes (each process
// start re-randomises Go's map iteration order) and compares the complete output trees.
// It returns (difference, generatorFailedEveryTime, harnessError).
func runThrice(sc *pipeline.Scratch, run func(outDir string) *pipeline.Result) (diff string, rejected bool, cmd string, harness string) {
	diff, rejected, cmd, harness, _, _ = runN(sc, c25Runs, run)
	return
}

// runN is runThrice with a chosen number of runs; on a difference it also returns the two trees.
func runN(sc *pipeline.Scratch, n int, run func(outDir string) *pipeline.Result) (diff string, rejected bool, cmd string, harness string, ta, tb map[string]string) {
	out := filepath.Join(sc.Dir, "out") // the same path every time: the command line is identical
	var first map[string]string
	firstFailed := false
	for i := 0; i < n; i++ {
		os.RemoveAll(out)
		if err := os.MkdirAll(out, 0o755); err != nil {
			return "", false, "", err.Error(), nil, nil
		}
		r := run(out)
		cmd = r.CmdLine()
		if r.TimedOut {
			return "", false, cmd, "generator timed out", nil, nil
		}
		tree, err := pipeline.ReadTree(out)
		if err != nil {
			return "", false, cmd, err.Error(), nil, nil
		}
		if i == 0 {
			first, firstFailed = tree, r.Failed()
			continue
		}
		if r.Failed() != firstFailed {
			return fmt.Sprintf("run 1 failed=%v but run %d failed=%v\noutput of run %d:\n%s", firstFailed, i+1, r.Failed(), i+1, pipeline.Trunc(r.Output, 2000)), false, cmd, "", nil, nil
		}
		if firstFailed {
			continue // a rejected input: nothing (or partial files) is produced; only the exit status is compared
		}
		if d := pipeline.DiffTrees(first, tree); d != "" {
			return fmt.Sprintf("run 1 and run %d differ: %s", i+1, d), false, cmd, "", first, tree
		}
	}
	return "", firstFailed, cmd, "", nil, nil
}

func c25Nontrivial(c *genCase) bool {
	enums := c.feats["enumeration"] + c.feats["identityref"] + c.feats["typedef-enum"]
	return enums >= 2 && c.feats["list"] >= 2
}

// TestC25_Corpus: every corpus variant with its registered flags, Go and proto.
func TestC25_Corpus(t *testing.T) {
	rec := ev.Start(t, "C25")
	registerF28(t, rec)
	vs, err := pipeline.CorpusVariants()
	must(t, err)
	for i, v := range vs {
		if !mine(i) {
			continue
		}
		in := pipeline.Input{Name: "corpus:" + v.Name, Dir: pipeline.CorpusDir(), Roots: v.Yang}
		for _, proto := range []bool{false, true} {
			sc, err := pipeline.NewScratch("c25")
			must(t, err)
			pf := pipeline.ProtoFlags{Compress: v.Flags.Compress, FakeRoot: true, PreferOperationalState: v.Flags.PreferOperationalState}
			gf := v.Flags
			if i%2 == 1 {
				gf.SplitFiles, gf.PathSplitFiles = 2, 1
			}
			flags := gf.String()
			run := func(out string) *pipeline.Result { return pipeline.RunGenerator(in, gf, out, "gp") }
			if proto {
				flags = "proto: " + pf.String()
				run = func(out string) *pipeline.Result { return pipeline.RunProtoGenerator(in, pf, out) }
			}
			diff, rejected, cmd, harness, ta, tb := runN(sc, c25Runs, run)
			sc.Remove()
			if harness != "" {
				t.Fatalf("HARNESS-BUG: %s (%s)", harness, cmd)
			}
			rec.Case("corpus:"+v.Name+"|"+flags, !rejected, "src:corpus-variant", map[bool]string{true: "gen:proto", false: "gen:go"}[proto])
			if rejected && !proto {
				t.Errorf("corpus variant %s is rejected by the generator: %s", v.Name, cmd)
			}
			if diff != "" && rec.Excuse(f28, ta != nil && onlyAugmentedOrder(ta, tb)) {
				diff = ""
			}
			if diff != "" {
				rec.Violation(map[string]interface{}{"kind": "nondeterministic", "input": in.Name, "command": cmd, "diff": diff})
				t.Errorf("C25 violated: %d runs of the same command give different output\ncommand: %s\n%s", c25Runs, cmd, diff)
			}
		}
	}
}

// TestC25_Random: (random schemas ∪ corpus ∪ repo YANG) x random flag sets, Go and proto.
func TestC25_Random(t *testing.T) {
	rec := ev.Start(t, "C25")
	rec.Rule("case = (YANG input, generator binary, flag set): input is a random schema (plain or OpenConfig style, hostile identifiers " +
		"included since name uniquification is where map order can leak), a corpus module set or a YANG file of the repo's testdata; flags are " +
		"drawn consistently (pipeline.DrawFlags / DrawProtoFlags). The same command is run in 3 separate processes and the output trees " +
		"must be byte-identical. Non-trivial: the generator accepted the input and the schema has >= 2 enumerated types and >= 2 lists " +
		"(corpus variants count as such). Key = YANG text + binary + flags.")
	rec.Assume("Go randomises map iteration per process start; 3 processes per case sample that 'schedule' (DESIGN.md section 8, C25).")
	registerF28(t, rec)
	excluded := registerF23(t, rec)
	h := newHealth()
	rapid.Check(t, func(rt *rapid.T) {
		c := drawCase(rt, true, excluded, false)
		defer c.cleanup()
		proto := rapid.IntRange(0, 99).Draw(rt, "binary") < 35
		sc, err := pipeline.NewScratch("c25")
		if err != nil {
			rt.Fatalf("HARNESS-BUG: %v", err)
		}
		defer sc.Remove()
		var flags string
		var run func(string) *pipeline.Result
		var gf pipeline.Flags
		if proto {
			pf := pipeline.DrawProtoFlags(rt, c.hints)
			flags = "proto_generator " + pf.String()
			run = func(out string) *pipeline.Result { return pipeline.RunProtoGenerator(c.in, pf, out) }
		} else {
			gf = pipeline.DrawFlags(rt, c.hints)
			flags = "generator " + gf.String()
			run = func(out string) *pipeline.Result { return pipeline.RunGenerator(c.in, gf, out, "gp") }
		}
		diff, rejected, cmd, harness, ta, tb := runN(sc, c25Runs, run)
		if harness != "" {
			rt.Fatalf("HARNESS-BUG: %s (%s)", harness, cmd)
		}
		h.note(c, gf)
		if c.schema != nil {
			for cl, n := range c.schema.ExcludedDraws {
				rec.Add("excluded_class_draws:"+cl, int64(n))
			}
		}
		cls := c.classes(flagClasses(gf)...)
		if proto {
			cls = append(c.classes(), "gen:proto")
		} else {
			cls = append(cls, "gen:go")
		}
		if rejected {
			cls = append(cls, "generator-rejected")
			if strings.HasPrefix(c.source, "random") {
				h.genErr++
			}
		}
		nt := !rejected && (c25Nontrivial(c) || c.source == "corpus")
		rec.Case(c.key+"|"+flags, nt, cls...)
		if rec.WantSample() {
			rec.Sample(sample(c, flags, nil))
		}
		if diff != "" && rec.Excuse(f28, augmentStatements(c) >= 2 && ta != nil && onlyAugmentedOrder(ta, tb)) {
			return
		}
		if diff != "" {
			kept := keepCase(c, cmd, diff)
			rt.Fatalf("C25 violated: %d runs of the same command give different output\ncommand: %s\n%s\ninput kept in: %s\n%s", c25Runs, cmd, diff, kept, describe(c, flags, ""))
		}
	})
	// generator health: both binaries and both styles must have been exercised in a sizeable run
	if h.random >= 20 {
		h.check(t, rec, []string{"src:random-plain", "src:random-oc", "list", "enumeration", "collision:any"})
	} else {
		h.check(t, rec, nil)
	}
}

// keepCase saves the YANG of a nondeterministic case (a flaky failure cannot be replayed from the
// rapid fail file alone) under $VERIF_OUTDIR/keep and returns the directory.
func keepCase(c *genCase, cmd, diff string) string {
	if c.schema == nil {
		return c.in.Dir
	}
	dir := filepath.Join(pipeline.OutDir(), "keep", fmt.Sprintf("C25-%x", hashOf(c.key+cmd)))
	if err := c.schema.WriteTo(dir); err != nil {
		return "(not kept: " + err.Error() + ")"
	}
	os.WriteFile(filepath.Join(dir, "COMMAND.txt"), []byte(cmd+"\n\n"+diff+"\n"), 0o644)
	return dir
}

func hashOf(s string) uint32 {
	var h uint32 = 2166136261
	for i := 0; i < len(s); i++ {
		h = (h ^ uint32(s[i])) * 16777619
	}
	return h
}

const f28 = "F28-schema-augmented-order"

var f28Files = map[string]string{
	"wa.yang": mod("wa", "  container c { leaf a { type string; } }\n"),
	"wb.yang": mod("wb", "  import wa { prefix wa; }\n  augment \"/wa:c\" { leaf b { type string; } }\n"),
	"wc.yang": mod("wc", "  import wa { prefix wa; }\n  augment \"/wa:c\" { leaf c { type string; } }\n"),
	"wd.yang": mod("wd", "  import wa { prefix wa; }\n  augment \"/wa:c\" { leaf d { type string; } }\n"),
}

type nondetWitness struct {
	once   sync.Once
	bad    bool
	detail string
}

var nondet = map[string]*nondetWitness{f28: {}, f23: {}}

const f23 = "F23-identity-name-clash"

// registerNondet replays a determinism witness: the same command is run up to 16 times until two
// outputs differ. It reports whether the finding is active.
func registerNondet(t *testing.T, rec *ev.Rec, id string, files map[string]string, roots []string) bool {
	w := nondet[id]
	w.once.Do(func() {
		sc, err := pipeline.NewScratch("nondet")
		if err != nil {
			w.detail = "HARNESS-BUG: " + err.Error()
			return
		}
		defer sc.Remove()
		dir := sc.Sub("yang")
		for n, s := range files {
			os.WriteFile(filepath.Join(dir, n), []byte(s), 0o644)
		}
		in := pipeline.Input{Name: "witness:" + id, Dir: dir, Roots: roots}
		diff, rejected, cmd, harness, ta, tb := runN(sc, 16, func(out string) *pipeline.Result {
			return pipeline.RunGenerator(in, pipeline.Flags{FakeRoot: true}, out, "gp")
		})
		switch {
		case harness != "" || rejected:
			w.detail = "HARNESS-BUG: witness could not run: " + harness + " " + cmd
		case diff != "":
			w.bad = true
			w.detail = fmt.Sprintf("%s (only the order of Augmented arrays differs: %v)", diff, onlyAugmentedOrder(ta, tb))
		default:
			w.detail = "16 runs gave identical output"
		}
	})
	if strings.HasPrefix(w.detail, "HARNESS-BUG") {
		t.Fatalf("%s", w.detail)
	}
	rec.Witness(id, func() (bool, string) { return w.bad, w.detail })
	return rec.Active(id)
}

// registerF28 replays the witness of F28: three modules augmenting one container.
func registerF28(t *testing.T, rec *ev.Rec) {
	registerNondet(t, rec, f28, f28Files, []string{"wa.yang", "wb.yang", "wc.yang", "wd.yang"})
}

// registerF23 replays F23 as a determinism witness: with two same-named identities under one base
// the entry that wins (and its DefiningModule) follows map order. Returns the classes to exclude.
func registerF23(t *testing.T, rec *ev.Rec) map[string]bool {
	for _, w := range witnesses {
		if w.id == f23 && registerNondet(t, rec, f23, w.files, w.roots) {
			return map[string]bool{yanggen.ClIdentSameName: true}
		}
	}
	return nil
}

// augmentStatements counts the augment statements of the input (trigger of F28: at least two).
func augmentStatements(c *genCase) int {
	if c.schema != nil {
		return c.feats["augment"]
	}
	n := 0
	filepath.WalkDir(c.in.Dir, func(p string, d os.DirEntry, err error) error {
		if err == nil && !d.IsDir() && strings.HasSuffix(p, ".yang") {
			if b, err := os.ReadFile(p); err == nil {
				n += strings.Count(string(b), "augment ")
			}
		}
		return nil
	})
	return n
}
