package codegen

import (
	"strings"
	"testing"

	"pgregory.net/rapid"
	"verifharness/ev"
	"verifharness/pipeline"
)

// TestC27_Corpus: the embedded schema of the six corpus variants.
func TestC27_Corpus(t *testing.T) {
	rec := ev.Start(t, "C27")
	corpusRun(t, rec, "C27")
}

// TestC27_Random: same pipeline runs as C26; the judged object is UnzipSchema() against the
// harness's own goyang compilation of the same files.
func TestC27_Random(t *testing.T) {
	rec := ev.Start(t, "C27")
	rec.Rule("case = (YANG input, generator flag set) as in C26 (collision classes of recorded C26 findings are excluded statically so that the " +
		"package compiles). The checker compares UnzipSchema() node by node with the harness's own goyang compilation (top-level nodes of all " +
		"modules below one root; with -prefer_operational_state the documented re-pointing of leafrefs from config to state): names, kinds, keys, " +
		"config, mandatory, ordered-by, presence, min/max-elements, defaults, units, prefix, and per leaf type kind, ranges, lengths, patterns, " +
		"posix-patterns, enum name/value pairs, identity base and members, union members in order, leafref path, fraction-digits, type " +
		"defaults. Non-trivial: the package was generated and built, and the schema uses a typedef'd union or an identityref whose base is " +
		"in another module (corpus inputs have both). Key = YANG text + flags.")
	rec.Assume("cases whose generated package does not compile are C26's business: they are counted as not evaluable here (cap 20 % of random cases).")
	excluded := allFindingClasses()
	h := newHealth()
	unevaluable := 0
	rapid.Check(t, func(rt *rapid.T) {
		c := drawCase(rt, true, excluded, false)
		defer c.cleanup()
		hints := c.hints
		hints.NeedSchema = true
		f := pipeline.DrawFlags(rt, hints)
		r := checkGoCached(c, f)
		if r.HarnessError != "" {
			rt.Fatalf("HARNESS-BUG: %s\n%s", r.HarnessError, describe(c, f.String(), ""))
		}
		h.note(c, f)
		if c.schema != nil {
			for cl, n := range c.schema.ExcludedDraws {
				rec.Add("excluded_class_draws:"+cl, int64(n))
			}
		}
		cls := c.classes(flagClasses(f)...)
		if r.GenFailed() {
			if strings.HasPrefix(c.source, "random") {
				h.genErr++
			}
			rec.Case(c.key+"|"+f.String(), false, append(cls, "generator-rejected")...)
			return
		}
		if r.Verdict == nil { // build or run failure: reported by C26
			unevaluable++
			rec.Case(c.key+"|"+f.String(), false, append(cls, "not-evaluable:"+r.Stage)...)
			return
		}
		nt := c.has("typedef-union-use") || c.has("identityref-cross-module")
		rec.Case(c.key+"|"+f.String(), nt, cls...)
		if rec.WantSample() {
			rec.Sample(sample(c, f.String(), map[string]interface{}{"schema_nodes": r.Verdict.C27.Stats["nodes"], "leaves": r.Verdict.C27.Stats["leaves"]}))
		}
		if v := r.Verdict.C27.Violations; len(v) > 0 {
			rt.Fatalf("C27 violated: the embedded schema differs from the goyang compilation of the input:\n  %s\ncommand: %s\n%s",
				strings.Join(v, "\n  "), r.Gen.CmdLine(), describe(c, f.String(), ""))
		}
	})
	rec.Set("not_evaluable", unevaluable)
	if h.random >= 10 && unevaluable*5 > h.random {
		t.Fatalf("INCONCLUSIVE: %d of %d cases could not be evaluated because the generated package does not build (see C26)", unevaluable, h.random)
	}
	h.check(t, rec, []string{"src:random-plain", "src:random-oc", "typedef-union-use", "identityref-cross-module", "flag:compress", "leafref", "default", "range", "pattern"})
}
