package codegen2

import (
	"errors"
	"fmt"
	"os"
	"path/filepath"
	"sort"
	"strings"
	"testing"
	"time"

	"verifharness/protoparse"

	_ "github.com/openconfig/ygot/proto/yext"
	_ "github.com/openconfig/ygot/proto/ywrapper"
	_ "google.golang.org/protobuf/types/known/anypb"
)

// schemaSrc is a set of YANG modules on disk.
type schemaSrc struct {
	Label string   // canonical name of the schema (part of the case key)
	Kind  string   // corpus | repo | random | adversarial
	Dir   string   // include path handed to -path
	Roots []string // absolute module files given on the command line
	OC    bool     // OpenConfig-styled: path compression is inside the supported domain
}

// protoFlags is one proto_generator configuration (see /repo/proto_generator/protogenerator.go).
type protoFlags struct {
	Compress, ExcludeState, PreferOper bool
	FakeRoot                           bool
	FakeRootName                       string
	SchemaPaths, EnumNames             bool
	Hierarchy                          bool
	SkipEnumDedup                      bool
	PackageName, EnumPackage           string
	BaseImport, GoPackageBase          string
	YwrapperPath, YextPath             string
}

const (
	defYwrapper = "github.com/openconfig/ygot/proto/ywrapper"
	defYext     = "github.com/openconfig/ygot/proto/yext"
)

func defaultProtoFlags() protoFlags {
	return protoFlags{SchemaPaths: true, EnumNames: true, PackageName: "openconfig", EnumPackage: "enums",
		YwrapperPath: defYwrapper, YextPath: defYext, FakeRootName: "Device"}
}

func (f protoFlags) args() []string {
	b := func(n string, v bool) string { return fmt.Sprintf("-%s=%v", n, v) }
	a := []string{b("compress_paths", f.Compress), b("exclude_state", f.ExcludeState), b("prefer_operational_state", f.PreferOper),
		b("generate_fakeroot", f.FakeRoot), b("add_schemapaths", f.SchemaPaths), b("add_enumnames", f.EnumNames),
		b("package_hierarchy", f.Hierarchy), b("skip_enum_deduplication", f.SkipEnumDedup),
		"-package_name=" + f.PackageName, "-enum_package_name=" + f.EnumPackage,
		"-ywrapper_path=" + f.YwrapperPath, "-yext_path=" + f.YextPath}
	if f.FakeRoot {
		a = append(a, "-fakeroot_name="+f.FakeRootName)
	}
	if f.BaseImport != "" {
		a = append(a, "-base_import_path="+f.BaseImport)
	}
	if f.GoPackageBase != "" {
		a = append(a, "-go_package_base="+f.GoPackageBase)
	}
	return a
}

func (f protoFlags) String() string { return strings.Join(f.args(), " ") }

// protoOut is the result of one proto_generator run.
type protoOut struct {
	Cmd   string
	Raw   map[string]string // file path relative to the output dir -> content
	Files []*protoparse.File
	// ImportName maps a relative file path to the name under which other files import it.
	ImportName map[string]string
}

// runProtoGen runs $VERIF_BIN/proto_generator into a fresh sub-directory of root and reads the
// output back. The directory is removed before returning.
func runProtoGen(t testing.TB, root string, src schemaSrc, f protoFlags, extraRoots ...string) (*protoOut, string, error) {
	out := subdir(t, root, "pg")
	defer os.RemoveAll(out)
	args := append([]string{"-path=" + src.Dir, "-output_dir=" + out, "-logtostderr"}, f.args()...)
	args = append(args, src.Roots...)
	args = append(args, extraRoots...)
	bin := filepath.Join(binDir(), "proto_generator")
	cmdline := bin + " " + strings.Join(args, " ")
	log, err := runCmd(out, 120*time.Second, bin, args...)
	if err != nil {
		return &protoOut{Cmd: cmdline}, log, fmt.Errorf("proto_generator failed: %v", err)
	}
	po := &protoOut{Cmd: cmdline, Raw: map[string]string{}, ImportName: map[string]string{}}
	err = filepath.Walk(out, func(p string, info os.FileInfo, err error) error {
		if err != nil || info.IsDir() {
			return err
		}
		rel, _ := filepath.Rel(out, p)
		b, err := os.ReadFile(p)
		if err != nil {
			return err
		}
		po.Raw[rel] = string(b)
		return nil
	})
	if err != nil {
		t.Fatalf("HARNESS-BUG: reading generator output: %v", err)
	}
	for rel := range po.Raw {
		po.ImportName[rel] = filepath.Join(f.BaseImport, rel)
	}
	return po, log, nil
}

// problem is one reason why an output is not well-formed.
type problem struct {
	Class string // dup-field-name | dup-field-number | number-range | number-reserved | dup-enum-name | dup-enum-number | not-proto3 | parse:<kind> | link:<kind> | unsupported
	Msg   string
}

func (p problem) String() string { return p.Class + ": " + p.Msg }

// protoStats are facts about an output used for evidence and the non-triviality rule.
type protoStats struct {
	Files, Messages, Fields, Enums, EnumValues, Oneofs int
	MaxFields                                          int
	HasOneof, HasNested, HasRepeated, HasImportsOwn    bool
}

// checkWellFormed performs the statement-level assertions of C28 on the parsed files and then
// the full protoc-rule link + protodesc validation. It returns every problem found.
func checkWellFormed(po *protoOut, f protoFlags) ([]problem, protoStats) {
	var probs []problem
	var st protoStats
	po.Files = nil
	for _, rel := range sortedKeys(po.Raw) {
		if !strings.HasSuffix(rel, ".proto") {
			probs = append(probs, problem{"unexpected-file", rel})
			continue
		}
		pf, err := protoparse.Parse(po.ImportName[rel], po.Raw[rel])
		if err != nil {
			var pe *protoparse.Error
			switch {
			case errors.Is(err, protoparse.ErrUnsupported):
				probs = append(probs, problem{"unsupported", err.Error()})
			case errors.As(err, &pe):
				probs = append(probs, problem{"parse:" + pe.Kind, err.Error()})
			default:
				probs = append(probs, problem{"parse", err.Error()})
			}
			continue
		}
		po.Files = append(po.Files, pf)
	}
	st.Files = len(po.Files)
	for _, pf := range po.Files {
		if pf.Syntax != "proto3" {
			probs = append(probs, problem{"not-proto3", fmt.Sprintf("%s: syntax is %q", pf.Name, pf.Syntax)})
		}
		for _, im := range pf.Imports {
			for _, other := range po.Files {
				if other.Name == im.Path {
					st.HasImportsOwn = true
				}
			}
		}
		pf.WalkMessages(func(full string, m *protoparse.Message) {
			st.Messages++
			st.Fields += len(m.Fields)
			st.Oneofs += len(m.Oneofs)
			if len(m.Fields) > st.MaxFields {
				st.MaxFields = len(m.Fields)
			}
			if len(m.Oneofs) > 0 {
				st.HasOneof = true
			}
			if len(m.Messages) > 0 {
				st.HasNested = true
			}
			names := map[string]int{}
			nums := map[int64]string{}
			for _, fl := range m.Fields {
				if fl.Repeated {
					st.HasRepeated = true
				}
				if l, dup := names[fl.Name]; dup {
					probs = append(probs, problem{"dup-field-name", fmt.Sprintf("%s: message %s declares field name %q twice (lines %d and %d)", pf.Name, full, fl.Name, l, fl.Line)})
				}
				names[fl.Name] = fl.Line
				if other, dup := nums[fl.Number]; dup {
					probs = append(probs, problem{"dup-field-number", fmt.Sprintf("%s: message %s uses field number %d for both %q and %q", pf.Name, full, fl.Number, other, fl.Name)})
				}
				nums[fl.Number] = fl.Name
				switch {
				case fl.Number < 1 || fl.Number > protoparse.MaxFieldNumber:
					probs = append(probs, problem{"number-range", fmt.Sprintf("%s: %s.%s = %d is outside 1..2^29-1", pf.Name, full, fl.Name, fl.Number)})
				case fl.Number >= protoparse.FirstReservedNumber && fl.Number <= protoparse.LastReservedNumber:
					probs = append(probs, problem{"number-reserved", fmt.Sprintf("%s: %s.%s = %d is inside the reserved range 19000-19999", pf.Name, full, fl.Name, fl.Number)})
				}
			}
		})
		pf.WalkEnums(func(full string, e *protoparse.Enum) {
			st.Enums++
			st.EnumValues += len(e.Values)
			names := map[string]bool{}
			nums := map[int64]string{}
			for _, v := range e.Values {
				if names[v.Name] {
					probs = append(probs, problem{"dup-enum-name", fmt.Sprintf("%s: enum %s declares value name %q twice", pf.Name, full, v.Name)})
				}
				names[v.Name] = true
				if other, dup := nums[v.Number]; dup {
					probs = append(probs, problem{"dup-enum-number", fmt.Sprintf("%s: enum %s uses number %d for both %q and %q", pf.Name, full, v.Number, other, v.Name)})
				}
				nums[v.Number] = v.Name
			}
		})
	}
	if len(probs) > 0 {
		// the statement-level problems above would only be reported a second time by the linker
		return probs, st
	}
	alias := map[string]string{
		filepath.Join(f.YwrapperPath, "ywrapper.proto"): "ywrapper.proto",
		filepath.Join(f.YextPath, "yext.proto"):         "yext.proto",
	}
	if _, err := protoparse.Link(po.Files, protoparse.GlobalExtern(alias)); err != nil {
		var pe *protoparse.Error
		switch {
		case errors.Is(err, protoparse.ErrUnsupported):
			probs = append(probs, problem{"unsupported", err.Error()})
		case errors.As(err, &pe):
			probs = append(probs, problem{"link:" + pe.Kind, err.Error()})
		default:
			probs = append(probs, problem{"link", err.Error()})
		}
	}
	return probs, st
}

// fieldID identifies a generated field across runs.
type fieldID struct{ Msg, Field string }

type fieldInfo struct {
	Number     int64
	SchemaPath string
	File       string
}

// fieldTable flattens all message fields of an output.
func fieldTable(po *protoOut) map[fieldID]fieldInfo {
	tab := map[fieldID]fieldInfo{}
	for _, pf := range po.Files {
		pf.WalkMessages(func(full string, m *protoparse.Message) {
			for _, fl := range m.Fields {
				sp, _ := protoparse.OptionValue(fl.Options, "(yext.schemapath)")
				tab[fieldID{full, fl.Name}] = fieldInfo{fl.Number, sp.Str, pf.Name}
			}
		})
	}
	return tab
}

// enumTable flattens all enum values: "<enum full name>/<value name>" -> number.
func enumTable(po *protoOut) map[string]int64 {
	tab := map[string]int64{}
	for _, pf := range po.Files {
		pf.WalkEnums(func(full string, e *protoparse.Enum) {
			for _, v := range e.Values {
				tab[full+"/"+v.Name] = v.Number
			}
		})
	}
	return tab
}

// compareNumbers returns the fields (and enum values) present in both outputs whose numbers differ.
func compareNumbers(a, b *protoOut) (diffs []string, common int) {
	ta, tb := fieldTable(a), fieldTable(b)
	var ids []fieldID
	for id := range ta {
		if _, ok := tb[id]; ok {
			ids = append(ids, id)
		}
	}
	sort.Slice(ids, func(i, j int) bool {
		if ids[i].Msg != ids[j].Msg {
			return ids[i].Msg < ids[j].Msg
		}
		return ids[i].Field < ids[j].Field
	})
	for _, id := range ids {
		x, y := ta[id], tb[id]
		if x.SchemaPath != y.SchemaPath {
			continue // not the same schema node (a name was re-used for another node)
		}
		common++
		if x.Number != y.Number {
			diffs = append(diffs, fmt.Sprintf("field %s.%s (schemapath %q): %d vs %d", id.Msg, id.Field, x.SchemaPath, x.Number, y.Number))
		}
	}
	ea, eb := enumTable(a), enumTable(b)
	for _, k := range sortedKeys(ea) {
		if y, ok := eb[k]; ok {
			common++
			if ea[k] != y {
				diffs = append(diffs, fmt.Sprintf("enum value %s: %d vs %d", k, ea[k], y))
			}
		}
	}
	return diffs, common
}

// byPathTable keys fields by (schemapath annotation, field name): used to compare runs whose
// message names differ (package_hierarchy on/off, other package names).
func byPathTable(po *protoOut) (map[string]int64, map[string]bool) {
	tab := map[string]int64{}
	ambiguous := map[string]bool{}
	for _, pf := range po.Files {
		pf.WalkMessages(func(full string, m *protoparse.Message) {
			for _, fl := range m.Fields {
				sp, ok := protoparse.OptionValue(fl.Options, "(yext.schemapath)")
				if !ok {
					continue
				}
				k := sp.Str + " " + fl.Name
				if old, dup := tab[k]; dup && old != fl.Number {
					ambiguous[k] = true
				}
				tab[k] = fl.Number
			}
		})
	}
	return tab, ambiguous
}

func dumpOutput(po *protoOut, max int) string {
	var b strings.Builder
	for _, rel := range sortedKeys(po.Raw) {
		fmt.Fprintf(&b, "----- %s -----\n%s\n", rel, po.Raw[rel])
		if b.Len() > max {
			b.WriteString("… (truncated)\n")
			break
		}
	}
	return b.String()
}
