// Package codegen2 holds the checks C28 (generated protobufs are well-formed) and C29 (path
// structs resolve to the schema's data-tree paths). See /verif/DESIGN.md section 5.
package codegen2

import (
	"bytes"
	"fmt"
	"os"
	"os/exec"
	"path/filepath"
	"sort"
	"strings"
	"testing"
	"time"

	"verifharness/ev"
)

func envOr(k, d string) string {
	if v := os.Getenv(k); v != "" {
		return v
	}
	return d
}

func verifDir() string   { return ev.VerifDir() }
func repoDir() string    { return envOr("VERIF_REPO", "/repo") }
func binDir() string     { return envOr("VERIF_BIN", filepath.Join(verifDir(), ".bin")) }
func harnessDir() string { return envOr("VERIF_HARNESS", filepath.Join(verifDir(), "harness")) }
func outRoot() string    { return envOr("VERIF_OUTDIR", filepath.Join(verifDir(), ".out")) }
func corpusDir() string  { return filepath.Join(verifDir(), "corpus", "yang") }

// scratch creates a scratch directory under $VERIF_OUTDIR that is removed when the test ends
// (also on failure).
func scratch(t testing.TB, prefix string) string {
	t.Helper()
	if err := os.MkdirAll(outRoot(), 0o755); err != nil {
		t.Fatalf("HARNESS-BUG: cannot create %s: %v", outRoot(), err)
	}
	d, err := os.MkdirTemp(outRoot(), prefix+"-")
	if err != nil {
		t.Fatalf("HARNESS-BUG: cannot create scratch dir: %v", err)
	}
	t.Cleanup(func() { os.RemoveAll(d) })
	return d
}

// subdir makes a fresh sub-directory of a scratch dir; the caller removes it when done with a case.
func subdir(t testing.TB, root, prefix string) string {
	t.Helper()
	d, err := os.MkdirTemp(root, prefix+"-")
	if err != nil {
		t.Fatalf("HARNESS-BUG: cannot create scratch dir: %v", err)
	}
	return d
}

// runCmd runs a command with a timeout and the offline Go environment; it returns combined output.
func runCmd(dir string, timeout time.Duration, name string, args ...string) (string, error) {
	cmd := exec.Command(name, args...)
	cmd.Dir = dir
	cmd.Env = append(os.Environ(), "GOFLAGS=-mod=mod", "GOPROXY=off", "GOSUMDB=off", "GOTOOLCHAIN=local")
	var buf bytes.Buffer
	cmd.Stdout, cmd.Stderr = &buf, &buf
	if err := cmd.Start(); err != nil {
		return "", err
	}
	done := make(chan error, 1)
	go func() { done <- cmd.Wait() }()
	select {
	case err := <-done:
		return buf.String(), err
	case <-time.After(timeout):
		cmd.Process.Kill()
		<-done
		return buf.String(), fmt.Errorf("timeout after %v", timeout)
	}
}

// globalSeed is VERIF_SEED (the same in every shard, unlike ev.Seed()).
func globalSeed() uint64 {
	var n uint64
	fmt.Sscanf(os.Getenv("VERIF_SEED"), "%d", &n)
	if n == 0 {
		n = 1
	}
	return n
}

func writeFiles(dir string, files map[string]string) error {
	for n, c := range files {
		p := filepath.Join(dir, n)
		if err := os.MkdirAll(filepath.Dir(p), 0o755); err != nil {
			return err
		}
		if err := os.WriteFile(p, []byte(c), 0o644); err != nil {
			return err
		}
	}
	return nil
}

func sortedKeys[V any](m map[string]V) []string {
	ks := make([]string, 0, len(m))
	for k := range m {
		ks = append(ks, k)
	}
	sort.Strings(ks)
	return ks
}

func tail(s string, n int) string {
	if len(s) <= n {
		return s
	}
	return "…" + s[len(s)-n:]
}

func indent(s string) string { return "    " + strings.ReplaceAll(strings.TrimRight(s, "\n"), "\n", "\n    ") }
