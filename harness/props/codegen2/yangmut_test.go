package codegen2

import (
	"fmt"
	"path/filepath"
	"sort"
	"strings"

	"github.com/openconfig/goyang/pkg/yang"
)

// yangInfo is goyang's own compilation of a module set (the schema ground truth; goyang is
// outside the repo under test).
type yangInfo struct {
	ms      *yang.Modules
	modByNS map[string]string
	roots   []*yang.Entry // one per distinct module that has data nodes, sorted by module name
}

func loadYang(dir string, files []string) (*yangInfo, error) {
	ms := yang.NewModules()
	ms.AddPath(filepath.Join(dir, "..."))
	for _, f := range files {
		if err := ms.Read(f); err != nil {
			return nil, fmt.Errorf("goyang read %s: %v", f, err)
		}
	}
	if errs := ms.Process(); len(errs) > 0 {
		return nil, fmt.Errorf("goyang process: %v", errs)
	}
	yi := &yangInfo{ms: ms, modByNS: map[string]string{}}
	seen := map[string]bool{}
	var names []string
	for _, m := range ms.Modules {
		if seen[m.Name] {
			continue
		}
		seen[m.Name] = true
		names = append(names, m.Name)
		if m.Namespace != nil {
			yi.modByNS[m.Namespace.Name] = m.Name
		}
	}
	sort.Strings(names)
	for _, n := range names {
		e := yang.ToEntry(ms.Modules[n])
		if errs := e.GetErrors(); len(errs) > 0 {
			return nil, fmt.Errorf("goyang entry %s: %v", n, errs)
		}
		yi.roots = append(yi.roots, e)
	}
	return yi, nil
}

type pathElem struct{ Mod, Name string }

// augTarget is a container or list of the data tree that a new module can augment.
type augTarget struct {
	Path     []pathElem
	Children map[string]bool
	// ListWrapper: the node is a container whose sole child is a list, i.e. the "surrounding
	// container" that path compression removes. docs/design.md states the shape -compress_paths
	// relies on ("list nodes are enclosed in a container, which they are the sole child of"), so a
	// node added next to the list takes the schema out of the domain of -compress_paths.
	ListWrapper bool
}

func (a augTarget) String() string {
	var b strings.Builder
	for _, p := range a.Path {
		b.WriteString("/" + p.Mod + ":" + p.Name)
	}
	return b.String()
}

// augmentTargets lists the containers and lists that are reachable from the given root files
// without crossing a choice, case, rpc or notification, in a deterministic order.
func (yi *yangInfo) augmentTargets(rootModules map[string]bool) []augTarget {
	var out []augTarget
	var walk func(e *yang.Entry, path []pathElem)
	walk = func(e *yang.Entry, path []pathElem) {
		for _, n := range sortedKeys(e.Dir) {
			c := e.Dir[n]
			if c.IsChoice() || c.IsCase() || c.RPC != nil || c.Kind == yang.NotificationEntry || !(c.IsContainer() || c.IsList()) {
				continue
			}
			ns := c.Namespace()
			if ns == nil {
				continue
			}
			mod, ok := yi.modByNS[ns.Name]
			if !ok {
				continue
			}
			p := append(append([]pathElem{}, path...), pathElem{mod, c.Name})
			ch := map[string]bool{}
			var names func(x *yang.Entry)
			names = func(x *yang.Entry) {
				for k, v := range x.Dir {
					ch[k] = true
					if v.IsChoice() || v.IsCase() {
						names(v)
					}
				}
			}
			names(c)
			wrapper := false
			if c.IsContainer() && len(c.Dir) == 1 {
				for _, only := range c.Dir {
					wrapper = only.IsList()
				}
			}
			out = append(out, augTarget{Path: p, Children: ch, ListWrapper: wrapper})
			walk(c, p)
		}
	}
	for _, r := range yi.roots {
		if rootModules[r.Name] {
			walk(r, nil)
		}
	}
	return out
}

// rootModuleNames maps the given files to the module names goyang read from them.
func (yi *yangInfo) rootModuleNames(files []string) map[string]bool {
	out := map[string]bool{}
	for _, f := range files {
		base := strings.TrimSuffix(filepath.Base(f), ".yang")
		if i := strings.IndexByte(base, '@'); i >= 0 {
			base = base[:i]
		}
		if _, ok := yi.ms.Modules[base]; ok {
			out[base] = true
		}
	}
	return out
}

// unrelatedModule renders a new module that adds a node which is unrelated to every existing
// schema path: either a fresh top-level container (tgt == nil) or a fresh leaf augmented into tgt.
func unrelatedModule(modName, nodeName string, tgt *augTarget) string {
	var b strings.Builder
	fmt.Fprintf(&b, "module %s {\n  namespace \"urn:verif:c28:%s\";\n  prefix zzu;\n", modName, modName)
	if tgt == nil {
		fmt.Fprintf(&b, "  container %s {\n    leaf unrelated-a { type string; }\n    leaf unrelated-b { type uint8; }\n  }\n}\n", nodeName)
		return b.String()
	}
	pfx := map[string]string{}
	var mods []string
	for _, p := range tgt.Path {
		if _, ok := pfx[p.Mod]; !ok {
			pfx[p.Mod] = fmt.Sprintf("zzi%d", len(pfx))
			mods = append(mods, p.Mod)
		}
	}
	for _, m := range mods {
		fmt.Fprintf(&b, "  import %s { prefix %s; }\n", m, pfx[m])
	}
	b.WriteString("  augment \"")
	for _, p := range tgt.Path {
		fmt.Fprintf(&b, "/%s:%s", pfx[p.Mod], p.Name)
	}
	fmt.Fprintf(&b, "\" {\n    leaf %s { type string; }\n  }\n}\n", nodeName)
	return b.String()
}
