package codegen2

import (
	"os"
	"path/filepath"
	"sort"
	"strings"
)

// corpusSources are the module sets of the fixed corpus (corpus/variants.json).
func corpusSources() []schemaSrc {
	c := corpusDir()
	p := func(ns ...string) []string {
		var out []string
		for _, n := range ns {
			out = append(out, filepath.Join(c, n))
		}
		return out
	}
	return []schemaSrc{
		{Label: "corpus:vt+vt-udef", Kind: "corpus", Dir: c, Roots: p("vt.yang", "vt-udef.yang")},
		{Label: "corpus:vt", Kind: "corpus", Dir: c, Roots: p("vt.yang")},
		{Label: "corpus:voc+voc-aug", Kind: "corpus", Dir: c, Roots: p("voc.yang", "voc-aug.yang"), OC: true},
		{Label: "corpus:voc", Kind: "corpus", Dir: c, Roots: p("voc.yang"), OC: true},
	}
}

// ocStyled lists the repo test modules that follow the OpenConfig config/state + list-wrapper
// conventions, so that -compress_paths is inside the supported domain (they are the modules the
// repo's own tests compress).
var ocStyled = map[string]bool{
	"proto-test-a.yang": true, "proto-test-b.yang": true, "nested-messages.yang": true,
	"proto-union-list-key.yang": true, "enum-union.yang": true, "ctestschema.yang": true,
}

// repoSources discovers the YANG modules shipped with the repo under test. Every file is a
// candidate root module with its own directory as include path; sets that only make sense
// together are listed explicitly.
func repoSources() []schemaSrc {
	r := repoDir()
	var out []schemaSrc
	add := func(label, dir string, oc bool, roots ...string) {
		out = append(out, schemaSrc{Label: "repo:" + label, Kind: "repo", Dir: dir, Roots: roots, OC: oc})
	}
	for _, d := range []string{"protogen/testdata/proto", "testdata/modules", "integration_tests/schemaops/yang",
		"integration_tests/uncompressed/yang", "demo/uncompressed/yang", "gogen/testdata/schema", "demo/getting_started/yang"} {
		dir := filepath.Join(r, d)
		ents, _ := os.ReadDir(dir)
		var names []string
		for _, e := range ents {
			if strings.HasSuffix(e.Name(), ".yang") {
				names = append(names, e.Name())
			}
		}
		sort.Strings(names)
		for _, n := range names {
			switch {
			case strings.HasPrefix(n, "ietf-") || strings.HasPrefix(n, "iana-") || strings.HasSuffix(n, "-types.yang") || n == "openconfig-extensions.yang":
				continue // type-only modules: nothing to generate
			}
			oc := ocStyled[n] || (strings.HasPrefix(n, "openconfig-") && d != "gogen/testdata/schema")
			add(d+"/"+n, dir, oc, filepath.Join(dir, n))
		}
	}
	pt := filepath.Join(r, "protogen/testdata/proto")
	add("protogen/testdata/proto/fakeroot-multimod-one+two", pt, false, filepath.Join(pt, "fakeroot-multimod-one.yang"), filepath.Join(pt, "fakeroot-multimod-two.yang"))
	add("protogen/testdata/proto/cross-ref-src+target", pt, false, filepath.Join(pt, "cross-ref-src.yang"), filepath.Join(pt, "cross-ref-target.yang"))
	gs := filepath.Join(r, "demo/getting_started/yang")
	add("demo/getting_started/interfaces+ip", gs, true, filepath.Join(gs, "openconfig-interfaces.yang"), filepath.Join(gs, "openconfig-if-ip.yang"))
	rib := filepath.Join(r, "demo/protobuf_getting_started/yang")
	add("demo/protobuf_getting_started/rib-bgp", rib, true, filepath.Join(rib, "rib/openconfig-rib-bgp.yang"))
	return out
}
