package codegen2

import (
	"fmt"
	"os"
	"testing"
)

// temporary exploration helper (VERIF_PROBE=1)
func TestProbeC28(t *testing.T) {
	if os.Getenv("VERIF_PROBE") == "" {
		t.Skip()
	}
	root := scratch(t, "probe")
	srcs := append(corpusSources(), repoSources()...)
	var fls []protoFlags
	d := defaultProtoFlags()
	fls = append(fls, d)
	x := d
	x.FakeRoot = true
	x.Hierarchy = true
	fls = append(fls, x)
	x = d
	x.Compress = true
	x.FakeRoot = true
	fls = append(fls, x)
	x = d
	x.Compress = true
	x.Hierarchy = true
	x.PreferOper = true
	x.BaseImport = "example.com/gen"
	x.YextPath = "ext"
	x.YwrapperPath = "wrap"
	fls = append(fls, x)
	x = d
	x.SchemaPaths = false
	x.EnumNames = false
	x.ExcludeState = true
	fls = append(fls, x)
	for _, s := range srcs {
		for i, f := range fls {
			if f.Compress && !s.OC {
				continue
			}
			po, log, err := runProtoGen(t, root, s, f)
			if err != nil {
				fmt.Printf("GENERR %s [%d]: %s\n", s.Label, i, tail(log, 300))
				continue
			}
			probs, st := checkWellFormed(po, f)
			fmt.Printf("OK %s [%d] files=%d msgs=%d fields=%d enums=%d oneofs=%d probs=%d\n", s.Label, i, st.Files, st.Messages, st.Fields, st.Enums, st.Oneofs, len(probs))
			for _, p := range probs {
				fmt.Printf("   PROBLEM %s\n", p)
			}
		}
	}
}
