package codegen2

import (
	"fmt"
	"os"
	"path/filepath"
	"regexp"
	"strings"
	"testing"

	"pgregory.net/rapid"

	"verifharness/ev"
	"verifharness/yanggen"
)

// temporary exploration helper (VERIF_PROBE=1)
func TestProbeC28(t *testing.T) {
	if os.Getenv("VERIF_PROBE") == "" {
		t.Skip()
	}
	root := scratch(t, "probe")
	srcs := append(corpusSources(), repoSources()...)
	var fls []protoFlags
	d := defaultProtoFlags()
	fls = append(fls, d)
	x := d
	x.FakeRoot = true
	x.Hierarchy = true
	fls = append(fls, x)
	x = d
	x.Compress = true
	x.FakeRoot = true
	fls = append(fls, x)
	x = d
	x.Compress = true
	x.Hierarchy = true
	x.PreferOper = true
	x.BaseImport = "example.com/gen"
	x.YextPath = "ext"
	x.YwrapperPath = "wrap"
	fls = append(fls, x)
	x = d
	x.SchemaPaths = false
	x.EnumNames = false
	x.ExcludeState = true
	fls = append(fls, x)
	for _, s := range srcs {
		for i, f := range fls {
			if f.Compress && !s.OC {
				continue
			}
			po, log, err := runProtoGen(t, root, s, f)
			if err != nil {
				fmt.Printf("GENERR %s [%d]: %s\n", s.Label, i, tail(log, 300))
				continue
			}
			probs, st := checkWellFormed(po, f)
			fmt.Printf("OK %s [%d] files=%d msgs=%d fields=%d enums=%d oneofs=%d probs=%d\n", s.Label, i, st.Files, st.Messages, st.Fields, st.Enums, st.Oneofs, len(probs))
			for _, p := range probs {
				fmt.Printf("   PROBLEM %s\n", p)
			}
		}
	}
}

func TestProbeHostile(t *testing.T) {
	if os.Getenv("VERIF_PROBE") == "" {
		t.Skip()
	}
	rec := ev.Start(t, "C28")
	registerC28Witnesses(rec, t)
	root := scratch(t, "probeh")
	seen := map[string]int{}
	rapid.Check(t, func(rt *rapid.T) {
		oc := rapid.Bool().Draw(rt, "oc")
		s := yanggen.Draw(rt, yanggen.Options{OpenConfigStyle: oc, Hostile: rapid.IntRange(0, 3).Draw(rt, "h") > 0, Excluded: c28ExcludedClasses})
		dir := subdir(t, root, "yang")
		defer os.RemoveAll(dir)
		s.WriteTo(dir)
		src := schemaSrc{Label: "random", Kind: "random", Dir: dir, OC: oc}
		for _, r := range s.Roots {
			src.Roots = append(src.Roots, filepath.Join(dir, r))
		}
		f := drawProtoFlags(rt, oc)
		po, log, err := runProtoGen(t, root, src, f)
		if err != nil {
			ls := strings.Split(strings.TrimSpace(log), "\n")
			sig := "GENERR " + regexp.MustCompile(`[0-9]+`).ReplaceAllString(tail(ls[len(ls)-1], 160), "N")
			seen[sig]++
			if seen[sig] == 1 {
				fmt.Printf("NEW %s\n   full: %s\n", sig, tail(log, 600))
			}
			return
		}
		probs, _ := checkWellFormed(po, f)
		for _, p := range probs {
			if excused(rec, src, f, po, p) {
				seen["excused"]++
				continue
			}
			sig := p.Class + " " + regexp.MustCompile(`"[^"]*"|[0-9]+`).ReplaceAllString(p.Msg, "X")
			seen[sig]++
			if seen[sig] == 1 {
				_, line := problemLine(po, p)
				fmt.Printf("NEW %s\n   %s\n   line: %s\n   classes: %v\n   flags: %s\n", sig, p.Msg, line, s.Classes(), f)
				if want := os.Getenv("VERIF_PROBE_DUMP"); want != "" && strings.Contains(p.String(), want) {
					os.WriteFile(fmt.Sprintf("/verif/.out/cg2-probe/case-%d.txt", len(seen)), []byte(p.String()+"\n"+po.Cmd+"\n"+s.Key()+"\n"+dumpOutput(po, 100000)), 0o644)
				}
			}
		}
	})
	for k, v := range seen {
		fmt.Printf("COUNT %d %s\n", v, k)
	}
}
