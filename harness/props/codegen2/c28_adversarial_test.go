package codegen2

import (
	"fmt"
	"os"
	"path/filepath"
	"sort"
	"strings"
	"testing"

	"verifharness/ev"
)

// refFieldTag is the harness's own statement of the documented tag function (29 low bits of the
// 32-bit FNV-1 hash of the schema path, "_" appended while the value is in 1..1000 or
// 19000..19999). It is used only to FIND candidate names; the verdict comes from the numbers in
// the generated files.
func refFieldTag(s string) uint32 {
	for {
		h := uint32(2166136261)
		for i := 0; i < len(s); i++ {
			h *= 16777619
			h ^= uint32(s[i])
		}
		v := h & 0x1fffffff
		if (v >= 19000 && v <= 19999) || (v >= 1 && v <= 1000) {
			s += "_"
			continue
		}
		return v
	}
}

type splitmix struct{ s uint64 }

func (r *splitmix) next() uint64 {
	r.s += 0x9E3779B97F4A7C15
	z := r.s
	z = (z ^ (z >> 30)) * 0xBF58476D1CE4E5B9
	z = (z ^ (z >> 27)) * 0x94D049BB133111EB
	return z ^ (z >> 31)
}

const (
	identFirst = "abcdefghijklmnopqrstuvwyz" // no 'x': keeps clear of the reserved "xml" prefix
	identRest  = "abcdefghijklmnopqrstuvwxyz0123456789-"
)

// yangIdent draws a legal YANG identifier of 3..9 characters that does not end in '-'.
func yangIdent(r *splitmix) string {
	n := 3 + int(r.next()%7)
	b := make([]byte, n)
	b[0] = identFirst[r.next()%uint64(len(identFirst))]
	for i := 1; i < n; i++ {
		b[i] = identRest[r.next()%uint64(len(identRest))]
	}
	if b[n-1] == '-' {
		b[n-1] = 'q'
	}
	return string(b)
}

type tagPair struct{ Parent, A, B string }

// birthdaySearch looks for pairs of sibling names below parent whose tags are equal.
func birthdaySearch(r *splitmix, parent string, candidates, maxPairs int) []tagPair {
	seen := make(map[uint32]string, candidates)
	var out []tagPair
	for i := 0; i < candidates && len(out) < maxPairs; i++ {
		n := yangIdent(r)
		t := refFieldTag(parent + "/" + n)
		if o, ok := seen[t]; ok {
			if o != n && strings.ReplaceAll(o, "-", "_") != strings.ReplaceAll(n, "-", "_") {
				out = append(out, tagPair{parent, o, n})
			}
			continue
		}
		seen[t] = n
	}
	return out
}

func protoName(yangName string) string { return strings.NewReplacer("-", "_", ".", "_").Replace(yangName) }

// TestC28_AdversarialSiblings plants sibling leaves whose schema paths have equal FNV tags
// (found by a bounded offline birthday search seeded from the shard seed) and checks the
// distinctness of field numbers in the generated message.
func TestC28_AdversarialSiblings(t *testing.T) {
	rec := ev.Start(t, "C28")
	rec.Rule(c28Rule)
	registerC28Witnesses(rec, t)
	root := scratch(t, "c28adv")
	r := &splitmix{s: ev.Seed()}
	parents := ev.Scale(2, 6)
	candidates := ev.Scale(400000, 1500000)
	perParent := ev.Scale(3, 8)
	found, collided, clean := 0, 0, 0
	for pi := 0; pi < parents; pi++ {
		mod, cont := "adv-"+yangIdent(r), yangIdent(r)
		if pi == 0 && ev.Shard() == 0 {
			mod, cont = "m", "c" // the parent of the design-time witness
		}
		parent := "/" + mod + "/" + cont
		pairs := birthdaySearch(r, parent, candidates, perParent)
		found += len(pairs)
		for _, p := range pairs {
			var b strings.Builder
			fmt.Fprintf(&b, "module %s {\n  namespace \"urn:verif:adv:%s\"; prefix a;\n  container %s {\n", mod, mod, cont)
			leaves := []string{p.A, p.B, "filler-one", "filler-two", "filler-three", "filler-four"}
			sort.Strings(leaves)
			for _, l := range leaves {
				fmt.Fprintf(&b, "    leaf %s { type string; }\n", l)
			}
			b.WriteString("  }\n}\n")
			dir := subdir(t, root, "adv")
			file := filepath.Join(dir, mod+".yang")
			if err := os.WriteFile(file, []byte(b.String()), 0o644); err != nil {
				t.Fatalf("HARNESS-BUG: %v", err)
			}
			src := schemaSrc{Label: "adversarial:" + parent, Kind: "adversarial", Dir: dir, Roots: []string{file}}
			f := defaultProtoFlags()
			f.FakeRoot = pi%2 == 1
			key := fmt.Sprintf("adv|%s|%s|%s|%v", parent, p.A, p.B, f.FakeRoot)
			po, log, err := runProtoGen(t, root, src, f)
			os.RemoveAll(dir)
			classes := []string{"src:adversarial", "adversarial-pair"}
			if err != nil {
				// refusing a colliding schema would be a legitimate repair: nothing is emitted
				rec.Case(key, true, append(classes, "gen-error")...)
				t.Logf("generator refuses the colliding pair %v: %s", p, tail(log, 300))
				continue
			}
			probs, st := checkWellFormed(po, f)
			na, nb := protoName(p.A), protoName(p.B)
			var other []problem
			hit := false
			for _, pr := range probs {
				planted := pr.Class == "dup-field-number" &&
					(strings.Contains(pr.Msg, fmt.Sprintf("for both %q and %q", na, nb)) || strings.Contains(pr.Msg, fmt.Sprintf("for both %q and %q", nb, na)))
				if planted {
					hit = true
					if rec.Excuse(fTagCollision, true) {
						continue
					}
				}
				other = append(other, pr)
			}
			if hit {
				collided++
				classes = append(classes, "tags-collide")
			} else {
				clean++
				classes = append(classes, "tags-distinct")
			}
			rec.Case(key, st.MaxFields >= 5 || st.HasOneof, classes...)
			if rec.WantSample() {
				rec.Sample(map[string]interface{}{"source": src.Label, "pair": []string{p.A, p.B}, "ref_tag": refFieldTag(parent + "/" + p.A), "collides_in_output": hit})
			}
			if len(other) > 0 {
				var pb strings.Builder
				for _, pr := range other {
					fmt.Fprintf(&pb, "  - %s\n", pr)
				}
				msg := fmt.Sprintf("sibling leaves %q and %q under %s (equal 29-bit FNV tag %d):\n%scommand: %s\nYANG:\n%s\n%s",
					p.A, p.B, parent, refFieldTag(parent+"/"+p.A), pb.String(), po.Cmd, indent(b.String()), dumpOutput(po, 4000))
				rec.Violation(map[string]interface{}{"parent": parent, "a": p.A, "b": p.B, "yang": b.String(), "message": tail(msg, 6000)})
				t.Errorf("C28 violated: generated message does not have distinct field numbers / is not well-formed:\n%s", msg)
			}
		}
	}
	rec.Add("adversarial_pairs_found", int64(found))
	rec.Add("adversarial_pairs_colliding_in_output", int64(collided))
	if found == 0 {
		t.Errorf("INCONCLUSIVE: the birthday search found no colliding sibling names (%d parents x %d candidates)", parents, candidates)
	}
}

// rawTag is the first candidate of the documented tag function: the 29 low bits of the FNV-1 hash,
// before any "_" is appended.
func rawTag(s string) uint32 {
	h := uint32(2166136261)
	for i := 0; i < len(s); i++ {
		h *= 16777619
		h ^= uint32(s[i])
	}
	return h & 0x1fffffff
}

// TestC28_AdversarialReserved plants leaves whose schema path hashes into one of the two ranges the
// tag function must avoid (1..1000 and the protobuf-reserved 19000..19999), i.e. the rare paths
// that take the re-hash branch (about 4 in a million names), and checks the numbers in the output.
func TestC28_AdversarialReserved(t *testing.T) {
	rec := ev.Start(t, "C28")
	rec.Rule(c28Rule)
	registerC28Witnesses(rec, t)
	root := scratch(t, "c28res")
	r := &splitmix{s: ev.Seed() ^ 0x5bd1e995}
	parents := ev.Scale(2, 5)
	candidates := ev.Scale(3000000, 8000000)
	found := 0
	for pi := 0; pi < parents; pi++ {
		mod, cont := "res-"+yangIdent(r), yangIdent(r)
		parent := "/" + mod + "/" + cont
		var low, high []string
		seen := map[string]bool{}
		for i := 0; i < candidates && len(low)+len(high) < 6; i++ {
			n := yangIdent(r)
			if seen[protoName(n)] {
				continue
			}
			switch v := rawTag(parent + "/" + n); {
			case v >= 1 && v <= 1000 && len(low) < 3:
				low = append(low, n)
				seen[protoName(n)] = true
			case v >= 19000 && v <= 19999 && len(high) < 3:
				high = append(high, n)
				seen[protoName(n)] = true
			}
		}
		planted := append(append([]string{}, low...), high...)
		found += len(planted)
		if len(planted) == 0 {
			continue
		}
		var b strings.Builder
		fmt.Fprintf(&b, "module %s {\n  namespace \"urn:verif:res:%s\"; prefix a;\n  container %s {\n", mod, mod, cont)
		leaves := append([]string{"filler-one", "filler-two", "filler-three"}, planted...)
		sort.Strings(leaves)
		for _, l := range leaves {
			fmt.Fprintf(&b, "    leaf %s { type string; }\n", l)
		}
		b.WriteString("  }\n}\n")
		dir := subdir(t, root, "res")
		file := filepath.Join(dir, mod+".yang")
		if err := os.WriteFile(file, []byte(b.String()), 0o644); err != nil {
			t.Fatalf("HARNESS-BUG: %v", err)
		}
		src := schemaSrc{Label: "adversarial-reserved:" + parent, Kind: "adversarial", Dir: dir, Roots: []string{file}}
		f := defaultProtoFlags()
		f.FakeRoot = pi%2 == 1
		key := fmt.Sprintf("res|%s|%v|%v", parent, planted, f.FakeRoot)
		po, log, err := runProtoGen(t, root, src, f)
		os.RemoveAll(dir)
		classes := []string{"src:adversarial", "adversarial-reserved-range"}
		if len(low) > 0 {
			classes = append(classes, "raw-tag-in-1..1000")
		}
		if len(high) > 0 {
			classes = append(classes, "raw-tag-in-19000..19999")
		}
		if err != nil {
			rec.Case(key, true, append(classes, "gen-error")...)
			t.Errorf("C28 violated: proto_generator fails on a schema whose only peculiarity is a leaf path hashing into an avoided range %v under %s:\n%s", planted, parent, tail(log, 1500))
			continue
		}
		probs, st := checkWellFormed(po, f)
		rec.Case(key, st.MaxFields >= 5 || st.HasOneof, classes...)
		if rec.WantSample() {
			rec.Sample(map[string]interface{}{"source": src.Label, "planted": planted, "raw_tags": func() (o []uint32) {
				for _, n := range planted {
					o = append(o, rawTag(parent+"/"+n))
				}
				return
			}()})
		}
		if len(probs) > 0 {
			var pb strings.Builder
			for _, pr := range probs {
				fmt.Fprintf(&pb, "  - %s\n", pr)
			}
			msg := fmt.Sprintf("leaves %v under %s (raw 29-bit FNV tags in an avoided range):\n%scommand: %s\nYANG:\n%s\n%s", planted, parent, pb.String(), po.Cmd, indent(b.String()), dumpOutput(po, 4000))
			rec.Violation(map[string]interface{}{"parent": parent, "planted": planted, "yang": b.String(), "message": tail(msg, 6000)})
			t.Errorf("C28 violated: generated message is not well-formed:\n%s", msg)
		}
	}
	rec.Add("adversarial_reserved_names_found", int64(found))
	if found == 0 {
		t.Errorf("INCONCLUSIVE: no name hashing into an avoided range found (%d parents x %d candidates)", parents, candidates)
	}
}
