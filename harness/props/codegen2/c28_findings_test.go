package codegen2

import (
	"fmt"
	"os"
	"path/filepath"
	"strings"
	"sync"
	"testing"

	"verifharness/ev"
)

// witnessRun generates protobufs for one in-line module and returns the problems found.
func witnessRun(t testing.TB, modName, yangText string, mod func(f *protoFlags)) ([]problem, *protoOut, protoFlags, error) {
	root := scratch(t, "c28wit")
	defer os.RemoveAll(root)
	if err := os.WriteFile(filepath.Join(root, modName+".yang"), []byte(yangText), 0o644); err != nil {
		return nil, nil, protoFlags{}, err
	}
	f := defaultProtoFlags()
	if mod != nil {
		mod(&f)
	}
	src := schemaSrc{Label: "witness:" + modName, Kind: "witness", Dir: root, Roots: []string{filepath.Join(root, modName+".yang")}}
	po, log, err := runProtoGen(t, root, src, f)
	if err != nil {
		return nil, po, f, fmt.Errorf("%v: %s", err, tail(log, 500))
	}
	probs, _ := checkWellFormed(po, f)
	return probs, po, f, nil
}

const witnessTagCollision = `module m {
  namespace "urn:m"; prefix m;
  container c {
    leaf ey3 { type string; }
    leaf jde-h1cu { type string; }
  }
}`

const witnessYextImport = `module w41 {
  namespace "urn:w41"; prefix w;
  container c { leaf-list ll { type string; } }
}`

const witnessKeywordPkg = `module w42 {
  namespace "urn:w42"; prefix w;
  container top { container enum { container config { leaf a { type string; } } } }
}`

const witnessAnyImport = `module w43 {
  namespace "urn:w43"; prefix w;
  container c { anydata d; }
}`

const witnessSingletonEnum = `module w44 {
  namespace "urn:w44"; prefix w;
  typedef e { type enumeration { enum X; enum Y; } }
  container c {
    leaf u { type union { type enumeration { enum A; enum B; } } }
    leaf v { type e; }
  }
}`

const witnessDottedPkg = `module w45 {
  namespace "urn:w45"; prefix w;
  typedef e { type enumeration { enum X; enum Y; } }
  container c { leaf v { type e; } }
}`

const witnessEnumCase = `module w46 {
  namespace "urn:w46"; prefix w;
  container c { leaf e { type enumeration { enum up; enum UP; } } }
}`

const witnessNegativeEnum = `module w47 {
  namespace "urn:w47"; prefix w;
  container c { leaf e { type enumeration { enum neg { value -5; } enum pos { value 7; } } } }
}`

const witnessEnumNameDup = `module w48 {
  namespace "urn:w48"; prefix w;
  container c { leaf e { type enumeration { enum a-b; enum a_b; } } }
}`

const witnessJSONName = `module w49 {
  namespace "urn:w49"; prefix w;
  container c { leaf a-b { type string; } leaf a_b { type string; } }
}`

const witnessPkgMsgClash = `module w50 {
  namespace "urn:w50"; prefix w;
  container top { container Config { container sub { leaf a { type string; } } } }
}`

const witnessTypeVsField = `module w51 {
  namespace "urn:w51"; prefix w;
  container c { leaf Config { type string; } container config { leaf a { type string; } } }
}`

const witnessRootList = `module w52 {
  namespace "urn:w52"; prefix w;
  list vlan { key "id"; leaf id { type uint16; } leaf name { type string; } }
}`

const witnessKeyEnumImport = `module w53 {
  namespace "urn:w53"; prefix w;
  typedef te { type enumeration { enum X; enum Y; } }
  container c { list l { key "k"; leaf k { type te; } leaf v { type string; } } }
}`

// second witness of F53: the key message's UsesYwrapperImport flag is discarded like its imports
const witnessKeyDecimalImport = `module w53b {
  namespace "urn:w53b"; prefix w;
  container c { list l { key "k"; leaf k { type decimal64 { fraction-digits 2; } } } }
}`

// which of the two F53 witnesses still fail in this process (each variant of the excuse predicate
// is tied to its own witness)
var f53EnumActive, f53DecimalActive bool

const witnessDecimalImport = `module w54 {
  namespace "urn:w54"; prefix w;
  container c { leaf u { type union { type string; type decimal64 { fraction-digits 2; } } } }
}`

const witnessDupKeyMsg = `module w56 {
  namespace "urn:w56"; prefix w;
  container a { list slot { key "id"; leaf id { type string; } } }
  container b { list slot { key "id"; leaf id { type string; } } }
}`

const witnessUnionEnumRef = `module w57 {
  namespace "urn:w57"; prefix w;
  container c { leaf-list id { type union { type enumeration { enum A; enum B; } type uint8; } } }
}`

const witnessRootPkgA = `module w55a {
  namespace "urn:w55a"; prefix a;
  container alpha { container config { leaf x { type string; } } container state { config false; leaf x { type string; } } }
}`

const witnessRootPkgB = `module w55b {
  namespace "urn:w55b"; prefix b;
  container beta { container config { leaf y { type string; } } container state { config false; leaf y { type string; } } }
}`

var c28WitnessOnce sync.Once

// registerC28Witnesses replays the fixed minimal input of every known C28 finding against the
// real generator (once per process; the recorder is shared by the C28 tests).
func registerC28Witnesses(rec *ev.Rec, t *testing.T) {
	c28WitnessOnce.Do(func() {
		has := func(probs []problem, class, sub string) (bool, string) {
			for _, p := range probs {
				if strings.HasPrefix(p.Class, class) && strings.Contains(p.Msg, sub) {
					return true, p.String()
				}
			}
			return false, fmt.Sprintf("no %s problem containing %q (problems: %v)", class, sub, probs)
		}
		run := func(id, mod, text string, fl func(f *protoFlags), class, sub string) {
			rec.Witness(id, func() (bool, string) {
				probs, _, _, err := witnessRun(t, mod, text, fl)
				if err != nil {
					return false, "generator refuses the witness: " + err.Error()
				}
				return has(probs, class, sub)
			})
		}
		run(fTagCollision, "m", witnessTagCollision, nil, "dup-field-number", `"ey3" and "jde_h1cu"`)
		run(fYextImport, "w41", witnessYextImport, func(f *protoFlags) { f.SchemaPaths, f.EnumNames = false, false }, "link:unresolved", "option (yext.leaflist)")
		run(fKeywordPkg, "w42", witnessKeywordPkg, func(f *protoFlags) { f.Hierarchy = true }, "parse:syntax", "")
		run(fAnyImport, "w43", witnessAnyImport, nil, "link:unresolved", `type "google.protobuf.Any" is not defined`)
		run(fDottedPkg, "w45", witnessDottedPkg, func(f *protoFlags) { f.PackageName = "a.b" }, "link:unresolved", `type "a.b.enums.W45E" is not defined`)
		run(fEnumCase, "w46", witnessEnumCase, nil, "link:protodesc", "using open semantics has conflict")
		run(fNegativeEnum, "w47", witnessNegativeEnum, nil, "link:syntax", "must be zero in proto3, have E_neg = -4")
		run(fEnumNameDup, "w48", witnessEnumNameDup, nil, "dup-enum-name", `"E_a_b" twice`)
		run(fJSONName, "w49", witnessJSONName, nil, "link:json-name", `default JSON name "aB"`)
		run(fPkgMsgClash, "w50", witnessPkgMsgClash, func(f *protoFlags) { f.Hierarchy = true }, "link:duplicate-symbol", `"openconfig.w50.top.Config" (message) is already defined as package`)
		run(fTypeVsField, "w51", witnessTypeVsField, nil, "link:duplicate-symbol", `"openconfig.w51.C.Config" (message) is already defined as field`)
		run(fRootList, "w52", witnessRootList, func(f *protoFlags) { f.FakeRoot = true }, "link:unresolved", `type "Vlan" is not defined in scope "openconfig.Device.VlanKey"`)
		rec.Witness(fKeyEnumImport, func() (bool, string) {
			var details []string
			for _, w := range []struct {
				mod, text, sub string
				active         *bool
			}{
				{"w53", witnessKeyEnumImport, `type "openconfig.enums.W53Te" is not defined`, &f53EnumActive},
				{"w53b", witnessKeyDecimalImport, `type "ywrapper.Decimal64Value" is not defined in scope "openconfig.w53b.C.LKey"`, &f53DecimalActive},
			} {
				probs, _, _, err := witnessRun(t, w.mod, w.text, nil)
				if err != nil {
					details = append(details, w.mod+": generator refuses the witness: "+err.Error())
					continue
				}
				bad, d := has(probs, "link:unresolved", w.sub)
				*w.active = bad
				details = append(details, w.mod+": "+d)
			}
			return f53EnumActive || f53DecimalActive, strings.Join(details, "; ")
		})
		run(fDecimalImport, "w54", witnessDecimalImport, nil, "link:import", `import "openconfig/enums/enums.proto" not found`)
		rec.Witness(fRootPkgUnique, func() (bool, string) {
			root := scratch(t, "c28wit")
			defer os.RemoveAll(root)
			os.WriteFile(filepath.Join(root, "w55a.yang"), []byte(witnessRootPkgA), 0o644)
			os.WriteFile(filepath.Join(root, "w55b.yang"), []byte(witnessRootPkgB), 0o644)
			f := defaultProtoFlags()
			f.Compress, f.Hierarchy, f.FakeRoot = true, true, true
			src := schemaSrc{Label: "witness:w55", Kind: "witness", Dir: root, Roots: []string{filepath.Join(root, "w55a.yang"), filepath.Join(root, "w55b.yang")}}
			po, log, err := runProtoGen(t, root, src, f)
			if err != nil {
				return false, "generator refuses the witness: " + tail(log, 300)
			}
			probs, _ := checkWellFormed(po, f)
			return has(probs, "link:unresolved", `type "Beta" is not defined in scope "openconfig.Device"`)
		})
		run(fDupKeyMsg, "w56", witnessDupKeyMsg, func(f *protoFlags) { f.Hierarchy = true }, "link:duplicate-symbol", `"openconfig.w56.SlotKey" (message) is already defined as message`)
		run(fUnionEnumRef, "w57", witnessUnionEnumRef, func(f *protoFlags) { f.Hierarchy = true }, "link:unresolved", `type "IdEnum" is not defined in scope "openconfig.w57.IdUnion"`)
		run(fSingletonEnum, "w44", witnessSingletonEnum, nil, "link:unresolved", `type "UEnum" is not defined`)
	})
}
