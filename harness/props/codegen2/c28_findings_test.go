package codegen2

import (
	"fmt"
	"os"
	"path/filepath"
	"strings"
	"sync"
	"testing"

	"verifharness/ev"
)

// witnessRun generates protobufs for one in-line module and returns the problems found.
func witnessRun(t testing.TB, modName, yangText string, mod func(f *protoFlags)) ([]problem, *protoOut, protoFlags, error) {
	root := scratch(t, "c28wit")
	defer os.RemoveAll(root)
	if err := os.WriteFile(filepath.Join(root, modName+".yang"), []byte(yangText), 0o644); err != nil {
		return nil, nil, protoFlags{}, err
	}
	f := defaultProtoFlags()
	if mod != nil {
		mod(&f)
	}
	src := schemaSrc{Label: "witness:" + modName, Kind: "witness", Dir: root, Roots: []string{filepath.Join(root, modName+".yang")}}
	po, log, err := runProtoGen(t, root, src, f)
	if err != nil {
		return nil, po, f, fmt.Errorf("%v: %s", err, tail(log, 500))
	}
	probs, _ := checkWellFormed(po, f)
	return probs, po, f, nil
}

const witnessTagCollision = `module m {
  namespace "urn:m"; prefix m;
  container c {
    leaf ey3 { type string; }
    leaf jde-h1cu { type string; }
  }
}`

const witnessYextImport = `module w41 {
  namespace "urn:w41"; prefix w;
  container c { leaf-list ll { type string; } }
}`

const witnessKeywordPkg = `module w42 {
  namespace "urn:w42"; prefix w;
  container top { container enum { container config { leaf a { type string; } } } }
}`

const witnessAnyImport = `module w43 {
  namespace "urn:w43"; prefix w;
  container c { anydata d; }
}`

const witnessSingletonEnum = `module w44 {
  namespace "urn:w44"; prefix w;
  typedef e { type enumeration { enum X; enum Y; } }
  container c {
    leaf u { type union { type enumeration { enum A; enum B; } } }
    leaf v { type e; }
  }
}`

const witnessDottedPkg = `module w45 {
  namespace "urn:w45"; prefix w;
  typedef e { type enumeration { enum X; enum Y; } }
  container c { leaf v { type e; } }
}`

var c28WitnessOnce sync.Once

// registerC28Witnesses replays the fixed minimal input of every known C28 finding against the
// real generator (once per process; the recorder is shared by the C28 tests).
func registerC28Witnesses(rec *ev.Rec, t *testing.T) {
	c28WitnessOnce.Do(func() {
		has := func(probs []problem, class, sub string) (bool, string) {
			for _, p := range probs {
				if strings.HasPrefix(p.Class, class) && strings.Contains(p.Msg, sub) {
					return true, p.String()
				}
			}
			return false, fmt.Sprintf("no %s problem containing %q (problems: %v)", class, sub, probs)
		}
		run := func(id, mod, text string, fl func(f *protoFlags), class, sub string) {
			rec.Witness(id, func() (bool, string) {
				probs, _, _, err := witnessRun(t, mod, text, fl)
				if err != nil {
					return false, "generator refuses the witness: " + err.Error()
				}
				return has(probs, class, sub)
			})
		}
		run(fTagCollision, "m", witnessTagCollision, nil, "dup-field-number", `"ey3" and "jde_h1cu"`)
		run(fYextImport, "w41", witnessYextImport, func(f *protoFlags) { f.SchemaPaths, f.EnumNames = false, false }, "link:unresolved", "option (yext.leaflist)")
		run(fKeywordPkg, "w42", witnessKeywordPkg, func(f *protoFlags) { f.Hierarchy = true }, "parse:syntax", "")
		run(fAnyImport, "w43", witnessAnyImport, nil, "link:unresolved", `type "google.protobuf.Any" is not defined`)
		run(fDottedPkg, "w45", witnessDottedPkg, func(f *protoFlags) { f.PackageName = "a.b" }, "link:unresolved", `type "a.b.enums.W45E" is not defined`)
		run(fSingletonEnum, "w44", witnessSingletonEnum, nil, "link:unresolved", `type "UEnum" is not defined`)
	})
}
