// Package pathwalk is the oracle of check C29: it walks a generated path-struct API by
// reflection from the device root and compares what ygot.ResolvePath returns for every accessor
// chain with
//   - the data-tree path given by the `path` struct tags of the like-named GoStruct field chain
//     (output of a different generator: gogen), and
//   - goyang's own compilation of the YANG modules (the node must exist, a list's key names must
//     be exactly the keys of the path element).
//
// Key arguments are generated per parameter type; the expected key string is produced by the
// small formatter in this package (gNMI path conventions), never by ygot.
//
// The package is linked both into the harness test binary (fixed corpus variants) and into the
// per-schema checker program that is generated for random schemas.
package pathwalk

import (
	"encoding/base64"
	"fmt"
	"path/filepath"
	"reflect"
	"sort"
	"strconv"
	"strings"

	"github.com/openconfig/goyang/pkg/yang"
	gpb "github.com/openconfig/gnmi/proto/gnmi"
	"github.com/openconfig/ygot/ygot"
)

// UnionCtors build values of the generated package's simple-union member types (the types are
// declared in the generated package, so only generated or package-specific code can name them).
// A nil entry means the type does not exist in the package.
type UnionCtors struct {
	String  func(string) interface{}
	Int8    func(int8) interface{}
	Int16   func(int16) interface{}
	Int32   func(int32) interface{}
	Int64   func(int64) interface{}
	Uint8   func(uint8) interface{}
	Uint16  func(uint16) interface{}
	Uint32  func(uint32) interface{}
	Uint64  func(uint64) interface{}
	Float64 func(float64) interface{}
	Bool    func(bool) interface{}
}

// Options configure one walk.
type Options struct {
	Root       ygot.PathStruct // DeviceRoot("")
	RootStruct interface{}     // pointer to the fake-root GoStruct, e.g. &pkg.Device{}
	YangDir    string          // include path for goyang
	YangFiles  []string        // root module files
	Unions     UnionCtors
	// Choose returns a number in [0, n); every random decision of the walk goes through it.
	Choose func(label string, n int) int
	// SimplifiedWildcards: the package was generated with -simplify_wildcard_paths, so an
	// all-wildcard list element may carry no keys at all instead of "*" for every key.
	SimplifiedWildcards bool
	// MaxDescents bounds, per list accessor group, into how many of the produced list nodes the
	// walk descends (all produced nodes are checked themselves). Default 2.
	MaxDescents int
	// MaxCases stops the walk (marking the report Truncated) after this many chains. Default 200000.
	MaxCases int
}

// Elem is one expected path element.
type Elem struct {
	Name string            `json:"name"`
	Keys map[string]string `json:"keys,omitempty"`
}

// Case is one accessor chain that was resolved.
type Case struct {
	Chain    string   `json:"chain"`
	Want     string   `json:"want"`
	Lists    int      `json:"lists"` // list elements on the chain
	Classes  []string `json:"classes"`
	Wildcard bool     `json:"wildcard"`
}

// Violation is a chain whose resolved path contradicts the oracle.
type Violation struct {
	Chain  string `json:"chain"`
	Kind   string `json:"kind"` // resolve-error | elem-names | keys | wildcard | not-in-yang | key-names-vs-yang | keyvalueasstring
	Want   string `json:"want"`
	Got    string `json:"got"`
	Detail string `json:"detail"`
}

// Report is the result of a walk.
type Report struct {
	Cases        []Case         `json:"cases"`
	Violations   []Violation    `json:"violations"`
	HarnessBugs  []string       `json:"harness_bugs"`
	Skipped      map[string]int `json:"skipped"` // reasons for accessors that could not be exercised
	Truncated    bool           `json:"truncated"`
	Methods      int            `json:"methods"`
	KeyValueDiff []Violation    `json:"key_value_as_string_diffs"` // secondary differential (not part of C29's statement)
}

var (
	pathStructType = reflect.TypeOf((*ygot.PathStruct)(nil)).Elem()
	goEnumType     = reflect.TypeOf((*ygot.GoEnum)(nil)).Elem()
)

type walker struct {
	o       Options
	rep     *Report
	yi      *yangTree
	enumTys []reflect.Type
}

// Walk exercises the whole path API below o.Root.
func Walk(o Options) *Report {
	if o.MaxDescents <= 0 {
		o.MaxDescents = 2
	}
	if o.MaxCases <= 0 {
		o.MaxCases = 200000
	}
	w := &walker{o: o, rep: &Report{Skipped: map[string]int{}}}
	defer func() {
		if p := recover(); p != nil {
			w.rep.HarnessBugs = append(w.rep.HarnessBugs, fmt.Sprintf("panic in walker: %v", p))
		}
	}()
	yi, err := loadYang(o.YangDir, o.YangFiles)
	if err != nil {
		w.rep.HarnessBugs = append(w.rep.HarnessBugs, "goyang: "+err.Error())
		return w.rep
	}
	w.yi = yi
	rs := reflect.ValueOf(o.RootStruct)
	if rs.Kind() != reflect.Ptr || rs.Elem().Kind() != reflect.Struct {
		w.rep.HarnessBugs = append(w.rep.HarnessBugs, fmt.Sprintf("RootStruct must be a pointer to a struct, have %T", o.RootStruct))
		return w.rep
	}
	if m := rs.MethodByName("ΛEnumTypeMap"); m.IsValid() {
		seen := map[reflect.Type]bool{}
		if mm, ok := m.Call(nil)[0].Interface().(map[string][]reflect.Type); ok {
			var keys []string
			for k := range mm {
				keys = append(keys, k)
			}
			sort.Strings(keys)
			for _, k := range keys {
				for _, t := range mm[k] {
					if !seen[t] {
						seen[t] = true
						w.enumTys = append(w.enumTys, t)
					}
				}
			}
		}
	}
	w.node(reflect.ValueOf(o.Root), rs.Type().Elem(), nil, "DeviceRoot(\"\")", 0, false, nil)
	return w.rep
}

// ---------------------------------------------------------------------------------------------
// GoStruct side

type fieldKind int

const (
	fLeaf fieldKind = iota
	fContainer
	fList
	fKeylessList
)

type goField struct {
	Name string
	Kind fieldKind
	Path []string     // first alternative of the path tag, split
	Elem reflect.Type // struct type of the child (containers and lists)
}

// classifyField maps a GoStruct field to its kind and child struct type.
func classifyField(sf reflect.StructField) (goField, error) {
	gf := goField{Name: sf.Name}
	tag, ok := sf.Tag.Lookup("path")
	if !ok {
		return gf, fmt.Errorf("field %s has no path tag", sf.Name)
	}
	first := strings.Split(tag, "|")[0]
	gf.Path = strings.Split(strings.Trim(first, "/"), "/")
	t := sf.Type
	switch {
	case t.Kind() == reflect.Map && t.Elem().Kind() == reflect.Ptr && t.Elem().Elem().Kind() == reflect.Struct:
		gf.Kind, gf.Elem = fList, t.Elem().Elem()
	case t.Kind() == reflect.Ptr && t.Elem().Kind() == reflect.Struct:
		// container, or ordered map (ordered-by user list)
		if m, ok := t.MethodByName("Values"); ok && m.Type.NumOut() == 1 && m.Type.Out(0).Kind() == reflect.Slice &&
			m.Type.Out(0).Elem().Kind() == reflect.Ptr && m.Type.Out(0).Elem().Elem().Kind() == reflect.Struct {
			if _, isOM := t.MethodByName("IsYANGOrderedList"); isOM {
				gf.Kind, gf.Elem = fList, m.Type.Out(0).Elem().Elem()
				return gf, nil
			}
		}
		gf.Kind, gf.Elem = fContainer, t.Elem()
	case t.Kind() == reflect.Slice && t.Elem().Kind() == reflect.Ptr && t.Elem().Elem().Kind() == reflect.Struct:
		gf.Kind, gf.Elem = fKeylessList, t.Elem().Elem()
	default:
		gf.Kind = fLeaf
	}
	return gf, nil
}

// keyGoNames returns, for the list entry struct v, the Go field name of each key leaf (by YANG
// key name): the field one of whose path alternatives is exactly the key name.
func keyGoNames(v reflect.Type, keys []string) map[string]string {
	out := map[string]string{}
	for i := 0; i < v.NumField(); i++ {
		sf := v.Field(i)
		for _, alt := range strings.Split(sf.Tag.Get("path"), "|") {
			for _, k := range keys {
				if alt == k {
					out[k] = sf.Name
				}
			}
		}
	}
	return out
}

// ---------------------------------------------------------------------------------------------

func returnsPathStruct(m reflect.Method) bool {
	return m.Type.NumOut() == 1 && m.Type.Out(0).Implements(pathStructType)
}

func isBuilderMethod(m reflect.Method, recv reflect.Type) bool {
	return strings.HasPrefix(m.Name, "With") && m.Type.NumIn() == 2 && m.Type.NumOut() == 1 && m.Type.Out(0) == recv
}

func renderElems(es []Elem) string {
	var b strings.Builder
	for _, e := range es {
		b.WriteString("/" + e.Name)
		ks := make([]string, 0, len(e.Keys))
		for k := range e.Keys {
			ks = append(ks, k)
		}
		sort.Strings(ks)
		for _, k := range ks {
			fmt.Fprintf(&b, "[%s=%q]", k, e.Keys[k])
		}
	}
	if len(es) == 0 {
		return "/"
	}
	return b.String()
}

func renderPath(p *gpb.Path) string {
	var es []Elem
	for _, e := range p.GetElem() {
		es = append(es, Elem{Name: e.GetName(), Keys: e.GetKey()})
	}
	return renderElems(es)
}

func (w *walker) full() bool {
	if len(w.rep.Cases) >= w.o.MaxCases {
		w.rep.Truncated = true
		return true
	}
	return false
}

// allWild marks path elements that came from an all-wildcard accessor (for the simplified form).
type wildInfo struct{ allWild map[int]bool }

// node checks the path struct ps (its chain resolves to want) and walks its accessors.
// t is the GoStruct struct type that corresponds to ps, or nil for a leaf.
func (w *walker) node(ps reflect.Value, t reflect.Type, want []Elem, chain string, lists int, wildcard bool, allWild map[int]bool) {
	if w.full() {
		return
	}
	if len(want) > 0 {
		w.check(ps, want, chain, lists, wildcard, allWild, t == nil)
	}
	pt := ps.Type()
	if t == nil {
		// a leaf: there must be no further accessors
		for i := 0; i < pt.NumMethod(); i++ {
			if m := pt.Method(i); returnsPathStruct(m) && !isBuilderMethod(m, pt) {
				w.rep.Violations = append(w.rep.Violations, Violation{Chain: chain + "." + m.Name + "(…)", Kind: "elem-names",
					Detail: "the GoStruct field chain ends in a leaf, but its path struct has a child accessor"})
			}
		}
		return
	}
	fields := map[string]goField{}
	for i := 0; i < t.NumField(); i++ {
		gf, err := classifyField(t.Field(i))
		if err != nil {
			w.rep.HarnessBugs = append(w.rep.HarnessBugs, fmt.Sprintf("GoStruct %s: %v", t.Name(), err))
			continue
		}
		fields[gf.Name] = gf
	}
	// group the accessor methods by the GoStruct field they belong to
	groups := map[string][]reflect.Method{}
	var order []string
	for i := 0; i < pt.NumMethod(); i++ {
		m := pt.Method(i)
		if !returnsPathStruct(m) || isBuilderMethod(m, pt) {
			continue
		}
		w.rep.Methods++
		fname, ok := matchField(fields, m.Name)
		if !ok {
			w.rep.Violations = append(w.rep.Violations, Violation{Chain: chain + "." + m.Name + "(…)", Kind: "elem-names",
				Detail: fmt.Sprintf("no like-named field in GoStruct %s (fields: %v)", t.Name(), fieldNames(fields))})
			continue
		}
		if _, seen := groups[fname]; !seen {
			order = append(order, fname)
		}
		groups[fname] = append(groups[fname], m)
	}
	sort.Strings(order)
	for _, fname := range order {
		gf := fields[fname]
		childWant := func() []Elem {
			out := append([]Elem{}, want...)
			for _, p := range gf.Path {
				out = append(out, Elem{Name: p})
			}
			return out
		}
		switch gf.Kind {
		case fLeaf, fContainer:
			for _, m := range groups[fname] {
				if m.Name != fname || m.Type.NumIn() != 1 {
					w.rep.Violations = append(w.rep.Violations, Violation{Chain: chain + "." + m.Name + "(…)", Kind: "elem-names",
						Detail: fmt.Sprintf("accessor of non-list field %s takes parameters or has a suffix", fname)})
					continue
				}
				r := ps.Method(m.Index).Call(nil)[0]
				var ct reflect.Type
				if gf.Kind == fContainer {
					ct = gf.Elem
				}
				w.node(r, ct, childWant(), chain+"."+m.Name+"()", lists, wildcard, allWild)
			}
		case fKeylessList:
			for _, m := range groups[fname] {
				w.rep.Skipped["keyless-list-accessor:"+m.Name]++
			}
		case fList:
			w.list(ps, gf, groups[fname], childWant(), chain, lists, wildcard, allWild)
		}
	}
}

func fieldNames(f map[string]goField) []string {
	var ns []string
	for n := range f {
		ns = append(ns, n)
	}
	sort.Strings(ns)
	return ns
}

// matchField finds the GoStruct field a path-struct method belongs to: the field of the same
// name, or (list accessors) the longest list field name that is followed by an "Any…" suffix.
func matchField(fields map[string]goField, method string) (string, bool) {
	if _, ok := fields[method]; ok {
		return method, true
	}
	best := ""
	for n, f := range fields {
		if f.Kind == fList && strings.HasPrefix(method, n+"Any") && len(n) > len(best) {
			best = n
		}
	}
	return best, best != ""
}

// list exercises the accessors of one list field.
func (w *walker) list(ps reflect.Value, gf goField, methods []reflect.Method, want []Elem, chain string, lists int, wildcard bool, allWild map[int]bool) {
	// key names and order come from goyang
	var names []string
	for _, e := range want {
		names = append(names, e.Name)
	}
	ent := w.yi.find(names)
	if ent == nil || !ent.IsList() {
		w.rep.Violations = append(w.rep.Violations, Violation{Chain: chain + "." + gf.Name + "…", Kind: "not-in-yang", Want: renderElems(want),
			Detail: "the GoStruct path tags name a list that goyang's data tree does not have at this path"})
		return
	}
	keys := strings.Fields(ent.Key)
	if len(keys) == 0 {
		w.rep.Skipped["keyless-list"]++
		return
	}
	goName := keyGoNames(gf.Elem, keys)
	for _, k := range keys {
		if goName[k] == "" {
			w.rep.HarnessBugs = append(w.rep.HarnessBugs, fmt.Sprintf("list %s: no GoStruct field for key %q in %s", renderElems(want), k, gf.Elem.Name()))
			return
		}
	}
	descents := 0
	descendedConcrete, descendedWild := false, false
	for _, m := range methods {
		if w.full() {
			return
		}
		suffix := strings.TrimPrefix(m.Name, gf.Name)
		wild := map[string]bool{}
		switch {
		case suffix == "":
		case suffix == "Any":
			for _, k := range keys {
				wild[k] = true
			}
		default:
			rest := suffix
			for _, k := range keys {
				if p := "Any" + goName[k]; strings.HasPrefix(rest, p) {
					wild[k] = true
					rest = rest[len(p):]
				}
			}
			if rest != "" || len(wild) == 0 || len(wild) == len(keys) {
				w.rep.Violations = append(w.rep.Violations, Violation{Chain: chain + "." + m.Name + "(…)", Kind: "wildcard",
					Detail: fmt.Sprintf("method name does not follow <List>[Any<Key>]… for keys %v (Go names %v)", keys, goName)})
				continue
			}
		}
		var supplied []string
		for _, k := range keys {
			if !wild[k] {
				supplied = append(supplied, k)
			}
		}
		if m.Type.NumIn()-1 != len(supplied) {
			w.rep.Violations = append(w.rep.Violations, Violation{Chain: chain + "." + m.Name + "(…)", Kind: "keys",
				Detail: fmt.Sprintf("%d parameters for the non-wildcarded keys %v", m.Type.NumIn()-1, supplied)})
			continue
		}
		rounds := 2
		if len(supplied) == 0 {
			rounds = 1
		}
		for round := 0; round < rounds; round++ {
			args := make([]reflect.Value, len(supplied))
			el := Elem{Name: want[len(want)-1].Name, Keys: map[string]string{}}
			var argStrs, classes []string
			ok := true
			for i, k := range supplied {
				v, s, cls, err := w.keyValue(m.Type.In(i+1), fmt.Sprintf("%s.%s#%d.%s", chain, m.Name, round, k))
				if err != nil {
					w.rep.Skipped["key-value:"+err.Error()]++
					ok = false
					break
				}
				args[i], el.Keys[k] = v, s
				argStrs = append(argStrs, fmt.Sprintf("%s=%#v", k, v.Interface()))
				classes = append(classes, cls)
			}
			if !ok {
				break
			}
			for k := range wild {
				el.Keys[k] = "*"
			}
			r := ps.Method(m.Index).Call(args)[0]
			cchain := fmt.Sprintf("%s.%s(%s)", chain, m.Name, strings.Join(argStrs, ", "))
			// builder API: key setters on the returned (wildcard) node
			rt := r.Type()
			for i := 0; i < rt.NumMethod(); i++ {
				bm := rt.Method(i)
				if !isBuilderMethod(bm, rt) {
					continue
				}
				var key string
				for _, k := range keys {
					if "With"+goName[k] == bm.Name {
						key = k
					}
				}
				if key == "" {
					w.rep.Violations = append(w.rep.Violations, Violation{Chain: cchain + "." + bm.Name + "(…)", Kind: "keys",
						Detail: fmt.Sprintf("builder method does not name a key of the list (keys %v, Go names %v)", keys, goName)})
					continue
				}
				if w.o.Choose(cchain+"."+bm.Name+"?", 2) == 0 {
					continue
				}
				v, s, cls, err := w.keyValue(bm.Type.In(1), cchain+"."+bm.Name)
				if err != nil {
					w.rep.Skipped["key-value:"+err.Error()]++
					continue
				}
				r = r.Method(bm.Index).Call([]reflect.Value{v})[0]
				el.Keys[key] = s
				cchain += fmt.Sprintf(".%s(%#v)", bm.Name, v.Interface())
				classes = append(classes, cls, "builder-key")
			}
			anyWild, everyWild := false, true
			for _, k := range keys {
				if el.Keys[k] == "*" && (wild[k] || suffix == "Any") {
					anyWild = true
				} else {
					everyWild = false
				}
			}
			cw := append(append([]Elem{}, want[:len(want)-1]...), el)
			aw := allWild
			if everyWild {
				aw = map[int]bool{len(cw) - 1: true}
				for k, v := range allWild {
					aw[k] = v
				}
			}
			// descend into the first concrete and the first wildcarded result, check the others
			descend := false
			switch {
			case !anyWild && !descendedConcrete:
				descend, descendedConcrete = true, true
			case anyWild && !descendedWild:
				descend, descendedWild = true, true
			}
			if descend && descents < w.o.MaxDescents {
				descents++
				w.nodeWithClasses(r, gf.Elem, cw, cchain, lists+1, wildcard || anyWild, aw, classes)
			} else {
				w.checkWithClasses(r, cw, cchain, lists+1, wildcard || anyWild, aw, false, classes)
			}
		}
	}
}

func (w *walker) nodeWithClasses(ps reflect.Value, t reflect.Type, want []Elem, chain string, lists int, wildcard bool, allWild map[int]bool, classes []string) {
	if w.full() {
		return
	}
	w.checkWithClasses(ps, want, chain, lists, wildcard, allWild, false, classes)
	// walk the children without re-checking this node
	saved := want
	w.children(ps, t, saved, chain, lists, wildcard, allWild)
}

// children is node() without the check of the node itself.
func (w *walker) children(ps reflect.Value, t reflect.Type, want []Elem, chain string, lists int, wildcard bool, allWild map[int]bool) {
	n := len(w.rep.Cases)
	w.node(ps, t, want, chain, lists, wildcard, allWild)
	// node() checked ps again: drop that duplicate case (it is the first one appended)
	if len(w.rep.Cases) > n && w.rep.Cases[n].Chain == chain {
		w.rep.Cases = append(w.rep.Cases[:n], w.rep.Cases[n+1:]...)
	}
}

func (w *walker) check(ps reflect.Value, want []Elem, chain string, lists int, wildcard bool, allWild map[int]bool, leaf bool) {
	w.checkWithClasses(ps, want, chain, lists, wildcard, allWild, leaf, nil)
}

// checkWithClasses resolves ps and compares with want and with goyang's tree.
func (w *walker) checkWithClasses(ps reflect.Value, want []Elem, chain string, lists int, wildcard bool, allWild map[int]bool, leaf bool, classes []string) {
	p, ok := ps.Interface().(ygot.PathStruct)
	if !ok {
		w.rep.HarnessBugs = append(w.rep.HarnessBugs, fmt.Sprintf("%s: %v is not a ygot.PathStruct", chain, ps.Type()))
		return
	}
	cs := append([]string{}, classes...)
	if leaf {
		cs = append(cs, "leaf")
	} else {
		cs = append(cs, "directory")
	}
	if wildcard {
		cs = append(cs, "wildcard")
	}
	cs = append(cs, fmt.Sprintf("lists=%d", min(lists, 3)))
	w.rep.Cases = append(w.rep.Cases, Case{Chain: chain, Want: renderElems(want), Lists: lists, Classes: cs, Wildcard: wildcard})
	viol := func(kind, got, detail string) {
		w.rep.Violations = append(w.rep.Violations, Violation{Chain: chain, Kind: kind, Want: renderElems(want), Got: got, Detail: detail})
	}
	gp, _, errs := ygot.ResolvePath(p)
	if len(errs) > 0 {
		viol("resolve-error", "", fmt.Sprintf("ygot.ResolvePath returned errors: %v", errs))
		return
	}
	got := renderPath(gp)
	if gp.GetTarget() != "" || gp.GetOrigin() != "" {
		viol("elem-names", got, fmt.Sprintf("target %q / origin %q set although the root was DeviceRoot(\"\")", gp.GetTarget(), gp.GetOrigin()))
	}
	if len(gp.GetElem()) != len(want) {
		viol("elem-names", got, "number of path elements differs from the GoStruct path-tag chain")
		return
	}
	var names []string
	for i, e := range gp.GetElem() {
		names = append(names, e.GetName())
		if e.GetName() != want[i].Name {
			viol("elem-names", got, fmt.Sprintf("element %d is %q, the GoStruct path tags give %q", i, e.GetName(), want[i].Name))
			return
		}
		wk, gk := want[i].Keys, e.GetKey()
		if len(wk) == 0 && len(gk) == 0 {
			continue
		}
		if len(gk) == 0 && allWild[i] && w.o.SimplifiedWildcards {
			continue // -simplify_wildcard_paths: no keys at all == every key wildcarded
		}
		if len(wk) != len(gk) {
			viol("keys", got, fmt.Sprintf("element %q has keys %v, expected %v", e.GetName(), gk, wk))
			return
		}
		for k, wv := range wk {
			gv, ok := gk[k]
			switch {
			case !ok:
				viol("keys", got, fmt.Sprintf("element %q lacks key %q", e.GetName(), k))
				return
			case wv == "*" && gv != "*":
				viol("wildcard", got, fmt.Sprintf("key %q of %q was left as a wildcard but appears as %q", k, e.GetName(), gv))
				return
			case wv != gv:
				viol("keys", got, fmt.Sprintf("key %q of %q is %q, the value passed to the accessor is %q in gNMI string form", k, e.GetName(), gv, wv))
				return
			}
		}
	}
	// anchor in goyang's compilation of the YANG source
	ent := w.yi.find(names)
	if ent == nil {
		viol("not-in-yang", got, "the resolved path is not a data-tree path of the YANG modules (goyang)")
		return
	}
	if leaf != (ent.IsLeaf() || ent.IsLeafList()) {
		viol("not-in-yang", got, fmt.Sprintf("node kind mismatch: the path struct is a leaf=%v, goyang says kind %v", leaf, ent.Kind))
		return
	}
	// every element with keys must be a list with exactly those key names
	for i := range want {
		e := w.yi.find(names[:i+1])
		if e == nil {
			continue
		}
		ks := strings.Fields(e.Key)
		if len(want[i].Keys) == 0 {
			if e.IsList() && len(ks) > 0 && !(allWild[i] && w.o.SimplifiedWildcards) {
				viol("key-names-vs-yang", got, fmt.Sprintf("element %q is a keyed list (keys %v) but carries no keys", names[i], ks))
				return
			}
			continue
		}
		sort.Strings(ks)
		var have []string
		for k := range want[i].Keys {
			have = append(have, k)
		}
		sort.Strings(have)
		if !e.IsList() || strings.Join(ks, " ") != strings.Join(have, " ") {
			viol("key-names-vs-yang", got, fmt.Sprintf("element %q has keys %v, the YANG list has keys %v", names[i], have, ks))
			return
		}
	}
}

// ---------------------------------------------------------------------------------------------
// key values

var stringKeys = []string{"a", "eth0/1", "x y", "a]b[c", "k=v", "ü-ß", `back\slash`, "0", "-", "Ethernet1/2.3", "{x}", "q\"uote", "tab\there", "very-long-" + "0123456789012345678901234567890123456789"}

var floatKeys = []struct {
	v float64
	s string
}{{1.5, "1.5"}, {-0.25, "-0.25"}, {100, "100"}, {0, "0"}, {12.125, "12.125"}, {-7, "-7"}}

// keyValue generates an argument of type t and the gNMI string form it must have in the path.
func (w *walker) keyValue(t reflect.Type, label string) (reflect.Value, string, string, error) {
	c := func(n int) int { return w.o.Choose(label, n) }
	if t.Implements(goEnumType) && t.Kind() == reflect.Int64 {
		return w.enumValue(t, label)
	}
	switch t.Kind() {
	case reflect.String:
		s := stringKeys[c(len(stringKeys))]
		cls := "key:string"
		if strings.ContainsAny(s, `/[]= \"`+"\t") {
			cls = "key:string-needs-escaping"
		}
		return reflect.ValueOf(s).Convert(t), s, cls, nil
	case reflect.Int8, reflect.Int16, reflect.Int32, reflect.Int64, reflect.Int:
		bits := t.Bits()
		lo, hi := int64(-1)<<(bits-1), int64(1)<<(bits-1)-1
		cands := []int64{0, 1, -1, lo, hi, 42, -100 % (hi + 1)}
		n := cands[c(len(cands))]
		v := reflect.New(t).Elem()
		v.SetInt(n)
		return v, strconv.FormatInt(n, 10), fmt.Sprintf("key:int%d", bits), nil
	case reflect.Uint8, reflect.Uint16, reflect.Uint32, reflect.Uint64, reflect.Uint:
		bits := t.Bits()
		hi := uint64(1)<<uint(bits) - 1
		if bits == 64 {
			hi = ^uint64(0)
		}
		cands := []uint64{0, 1, hi, 42 % (hi + 1 | 1), hi / 2}
		n := cands[c(len(cands))]
		v := reflect.New(t).Elem()
		v.SetUint(n)
		return v, strconv.FormatUint(n, 10), fmt.Sprintf("key:uint%d", bits), nil
	case reflect.Bool:
		b := c(2) == 1
		v := reflect.New(t).Elem()
		v.SetBool(b)
		return v, map[bool]string{true: "true", false: "false"}[b], "key:bool", nil
	case reflect.Float64:
		f := floatKeys[c(len(floatKeys))]
		v := reflect.New(t).Elem()
		v.SetFloat(f.v)
		return v, f.s, "key:decimal64", nil
	case reflect.Slice:
		if t.Elem().Kind() == reflect.Uint8 {
			raw := [][]byte{{0}, {1, 2, 3}, []byte("hello"), {0xff, 0xfe}}[c(4)]
			return reflect.ValueOf(raw).Convert(t), base64.StdEncoding.EncodeToString(raw), "key:binary", nil
		}
	case reflect.Interface:
		return w.unionValue(t, label)
	}
	return reflect.Value{}, "", "", fmt.Errorf("unsupported key parameter type %v", t)
}

func (w *walker) enumValue(t reflect.Type, label string) (reflect.Value, string, string, error) {
	zero := reflect.New(t).Elem()
	m := zero.MethodByName("ΛMap")
	if !m.IsValid() {
		return reflect.Value{}, "", "", fmt.Errorf("enum type %v without ΛMap", t)
	}
	defs, ok := m.Call(nil)[0].Interface().(map[string]map[int64]ygot.EnumDefinition)
	if !ok {
		return reflect.Value{}, "", "", fmt.Errorf("enum type %v: unexpected ΛMap type", t)
	}
	byVal := defs[t.Name()]
	var vals []int64
	for v := range byVal {
		if v != 0 {
			vals = append(vals, v)
		}
	}
	if len(vals) == 0 {
		return reflect.Value{}, "", "", fmt.Errorf("enum type %v has no values", t)
	}
	sort.Slice(vals, func(i, j int) bool { return vals[i] < vals[j] })
	n := vals[w.o.Choose(label, len(vals))]
	v := reflect.New(t).Elem()
	v.SetInt(n)
	return v, byVal[n].Name, "key:enum", nil
}

// unionValue builds a value of one of the member types of a simple union.
func (w *walker) unionValue(t reflect.Type, label string) (reflect.Value, string, string, error) {
	type cand struct {
		v   reflect.Value
		s   string
		cls string
	}
	var cs []cand
	add := func(x interface{}, s, cls string) {
		if x == nil {
			return
		}
		if rv := reflect.ValueOf(x); rv.Type().Implements(t) {
			cs = append(cs, cand{rv, s, cls})
		}
	}
	u := w.o.Unions
	pick := func(n int, sub string) int { return w.o.Choose(label+"/"+sub, n) }
	if u.String != nil {
		s := stringKeys[pick(len(stringKeys), "string")]
		add(u.String(s), s, "key:union-string")
	}
	if u.Int8 != nil {
		n := []int8{0, -128, 127, 5}[pick(4, "int8")]
		add(u.Int8(n), strconv.FormatInt(int64(n), 10), "key:union-int")
	}
	if u.Int16 != nil {
		n := []int16{0, -32768, 32767, 5}[pick(4, "int16")]
		add(u.Int16(n), strconv.FormatInt(int64(n), 10), "key:union-int")
	}
	if u.Int32 != nil {
		n := []int32{0, -2147483648, 2147483647, 5}[pick(4, "int32")]
		add(u.Int32(n), strconv.FormatInt(int64(n), 10), "key:union-int")
	}
	if u.Int64 != nil {
		n := []int64{0, -9223372036854775808, 9223372036854775807, 5}[pick(4, "int64")]
		add(u.Int64(n), strconv.FormatInt(n, 10), "key:union-int")
	}
	if u.Uint8 != nil {
		n := []uint8{0, 255, 7}[pick(3, "uint8")]
		add(u.Uint8(n), strconv.FormatUint(uint64(n), 10), "key:union-uint")
	}
	if u.Uint16 != nil {
		n := []uint16{0, 65535, 7}[pick(3, "uint16")]
		add(u.Uint16(n), strconv.FormatUint(uint64(n), 10), "key:union-uint")
	}
	if u.Uint32 != nil {
		n := []uint32{0, 4294967295, 7}[pick(3, "uint32")]
		add(u.Uint32(n), strconv.FormatUint(uint64(n), 10), "key:union-uint")
	}
	if u.Uint64 != nil {
		n := []uint64{0, 18446744073709551615, 7}[pick(3, "uint64")]
		add(u.Uint64(n), strconv.FormatUint(n, 10), "key:union-uint")
	}
	if u.Float64 != nil {
		f := floatKeys[pick(len(floatKeys), "float")]
		add(u.Float64(f.v), f.s, "key:union-decimal64")
	}
	if u.Bool != nil {
		b := pick(2, "bool") == 1
		add(u.Bool(b), map[bool]string{true: "true", false: "false"}[b], "key:union-bool")
	}
	for _, et := range w.enumTys {
		if et.Implements(t) && et.Kind() == reflect.Int64 {
			if v, s, _, err := w.enumValue(et, label+"/"+et.Name()); err == nil {
				cs = append(cs, cand{v, s, "key:union-enum"})
			}
		}
	}
	if len(cs) == 0 {
		return reflect.Value{}, "", "", fmt.Errorf("no constructible member for union %v", t)
	}
	c := cs[w.o.Choose(label+"/member", len(cs))]
	// the argument must have the interface type of the parameter
	v := reflect.New(t).Elem()
	v.Set(c.v)
	return v, c.s, c.cls, nil
}

// ---------------------------------------------------------------------------------------------
// goyang side

type yangTree struct {
	roots []*yang.Entry
}

func loadYang(dir string, files []string) (*yangTree, error) {
	ms := yang.NewModules()
	if dir != "" {
		ms.AddPath(filepath.Join(dir, "..."))
	}
	for _, f := range files {
		if err := ms.Read(f); err != nil {
			return nil, fmt.Errorf("read %s: %v", f, err)
		}
	}
	if errs := ms.Process(); len(errs) > 0 {
		return nil, fmt.Errorf("process: %v", errs)
	}
	var names []string
	seen := map[string]bool{}
	for _, m := range ms.Modules {
		if !seen[m.Name] {
			seen[m.Name] = true
			names = append(names, m.Name)
		}
	}
	sort.Strings(names)
	yt := &yangTree{}
	for _, n := range names {
		yt.roots = append(yt.roots, yang.ToEntry(ms.Modules[n]))
	}
	return yt, nil
}

// child finds a data-tree child by name; choice and case nodes are transparent.
func child(e *yang.Entry, name string) *yang.Entry {
	if c, ok := e.Dir[name]; ok && !c.IsChoice() && !c.IsCase() {
		return c
	}
	for _, c := range e.Dir {
		if c.IsChoice() || c.IsCase() {
			if r := child(c, name); r != nil {
				return r
			}
		}
	}
	return nil
}

// find resolves a data-tree path from the module roots.
func (yt *yangTree) find(names []string) *yang.Entry {
	if len(names) == 0 {
		return nil
	}
	for _, r := range yt.roots {
		e := r
		for _, n := range names {
			if e = child(e, n); e == nil {
				break
			}
		}
		if e != nil && e.RPC == nil {
			return e
		}
	}
	return nil
}

// FormatKeyValue is the harness formatter for a key value (used to compare with
// ygot.KeyValueAsString as a secondary differential).
func FormatKeyValue(v interface{}) (string, bool) {
	rv := reflect.ValueOf(v)
	switch rv.Kind() {
	case reflect.String:
		return rv.String(), true
	case reflect.Int8, reflect.Int16, reflect.Int32, reflect.Int, reflect.Int64:
		if rv.Type().Implements(goEnumType) {
			return "", false
		}
		return strconv.FormatInt(rv.Int(), 10), true
	case reflect.Uint8, reflect.Uint16, reflect.Uint32, reflect.Uint, reflect.Uint64:
		return strconv.FormatUint(rv.Uint(), 10), true
	case reflect.Bool:
		return strconv.FormatBool(rv.Bool()), true
	}
	return "", false
}
