// Package pathwalk is the oracle of check C29: it walks a generated path-struct API by
// reflection from the device root and compares what ygot.ResolvePath returns for every accessor
// chain with
//   - the data-tree path given by the `path` struct tags of the like-named GoStruct field chain
//     (output of a different generator: gogen), and
//   - goyang's own compilation of the YANG modules (the node must exist with the right kind, a
//     list's key names must be exactly the keys of the path element).
//
// Key arguments are generated per key from the key leaf's resolved YANG type (goyang: ranges,
// lengths, patterns, enum/identity names, union members, leafrefs followed) and the accessor's Go
// parameter type; the expected key string is produced by the small formatter in keys.go (gNMI
// path conventions), never by ygot.
//
// The package is linked into a per-schema checker program (see Main) that is generated for the
// fixed corpus variants and for every random schema.
package pathwalk

import (
	"fmt"
	"reflect"
	"sort"
	"strings"

	gpb "github.com/openconfig/gnmi/proto/gnmi"
	"github.com/openconfig/ygot/ygot"
)

// Options configure one walk.
type Options struct {
	Root       ygot.PathStruct // DeviceRoot("")
	RootStruct interface{}     // pointer to the fake-root GoStruct, e.g. &pkg.Device{}
	Yang       *YangTree       // goyang compilation (LoadYang)
	// Choose returns a number in [0, n); every random decision of the walk goes through it.
	Choose func(label string, n int) int
	// SimplifiedWildcards: the package was generated with -simplify_wildcard_paths: an all-wildcard
	// element made by a (non-builder) <List>Any accessor carries no keys at all (ypathgen
	// GenConfig.SimplifyWildcardPaths) instead of "*" for every key.
	SimplifiedWildcards bool
	// MaxCases stops the walk (marking the report Truncated) after this many chains. Default 200000.
	MaxCases int
}

// Elem is one expected path element.
type Elem struct {
	Name string            `json:"name"`
	Keys map[string]string `json:"keys,omitempty"`
	// Alt holds a second accepted spelling of a key value (decimal64: "100" and "100.0").
	Alt map[string]string `json:"alt,omitempty"`
	// NoKeys: the keys are all wildcards and are omitted altogether (-simplify_wildcard_paths).
	NoKeys bool `json:"no_keys,omitempty"`
}

// Case is one accessor chain that was resolved.
type Case struct {
	Chain   string   `json:"chain"`
	Want    string   `json:"want"`
	Lists   int      `json:"lists"` // list elements on the chain
	Classes []string `json:"classes"`
}

// Violation is a chain whose resolved path contradicts the oracle.
type Violation struct {
	Chain  string `json:"chain"`
	Kind   string `json:"kind"` // resolve-error | elem-names | keys | wildcard | not-in-yang | key-names-vs-yang | api-shape
	Want   string `json:"want"`
	Got    string `json:"got"`
	Detail string `json:"detail"`
}

// Report is the result of a walk.
type Report struct {
	Seed        uint64         `json:"seed"`
	Cases       []Case         `json:"cases"`
	Violations  []Violation    `json:"violations"`
	HarnessBugs []string       `json:"harness_bugs"`
	Skipped     map[string]int `json:"skipped"` // accessors / key values that could not be exercised, by reason
	Notes       map[string]int `json:"notes"`   // informational counters
	Truncated   bool           `json:"truncated"`
	Methods     int            `json:"methods"`
}

var (
	pathStructType = reflect.TypeOf((*ygot.PathStruct)(nil)).Elem()
	goEnumType     = reflect.TypeOf((*ygot.GoEnum)(nil)).Elem()
)

type walker struct {
	o       Options
	rep     *Report
	yi      *YangTree
	enumTys []reflect.Type
	structs []reflect.Type // all GoStruct types reachable from the root
}

// ctx is the state of one accessor chain.
type ctx struct {
	want    []Elem
	chain   string
	lists   int
	classes []string // sticky classes of the chain (sorted, unique)
}

func (c ctx) with(classes ...string) ctx {
	set := map[string]bool{}
	for _, x := range c.classes {
		set[x] = true
	}
	for _, x := range classes {
		if x != "" {
			set[x] = true
		}
	}
	out := make([]string, 0, len(set))
	for x := range set {
		out = append(out, x)
	}
	sort.Strings(out)
	c.classes = out
	return c
}

func (c ctx) extend(chain string, es ...Elem) ctx {
	c.want = append(append([]Elem{}, c.want...), es...)
	c.chain = chain
	return c
}

// Walk exercises the whole path API below o.Root.
func Walk(o Options) (rep *Report) {
	if o.MaxCases <= 0 {
		o.MaxCases = 200000
	}
	w := &walker{o: o, rep: &Report{Skipped: map[string]int{}, Notes: map[string]int{}}, yi: o.Yang}
	defer func() {
		if p := recover(); p != nil {
			w.rep.HarnessBugs = append(w.rep.HarnessBugs, fmt.Sprintf("panic in walker: %v", p))
		}
		rep = w.rep
	}()
	if o.Yang == nil {
		w.rep.HarnessBugs = append(w.rep.HarnessBugs, "no goyang tree")
		return w.rep
	}
	rs := reflect.ValueOf(o.RootStruct)
	if rs.Kind() != reflect.Ptr || rs.Elem().Kind() != reflect.Struct {
		w.rep.HarnessBugs = append(w.rep.HarnessBugs, fmt.Sprintf("RootStruct must be a pointer to a struct, have %T", o.RootStruct))
		return w.rep
	}
	if m := rs.MethodByName("ΛEnumTypeMap"); m.IsValid() {
		seen := map[reflect.Type]bool{}
		if mm, ok := m.Call(nil)[0].Interface().(map[string][]reflect.Type); ok {
			var keys []string
			for k := range mm {
				keys = append(keys, k)
			}
			sort.Strings(keys)
			for _, k := range keys {
				for _, t := range mm[k] {
					if !seen[t] {
						seen[t] = true
						w.enumTys = append(w.enumTys, t)
					}
				}
			}
		}
	}
	w.collectStructs(rs.Type().Elem(), map[reflect.Type]bool{})
	root := reflect.ValueOf(o.Root)
	// trigger of finding F90: a child accessor of the root path struct has the name of a method of
	// the embedded ygot.DeviceRootBase that ygot.ResolvePath needs (Id, CustomData)
	for name, sig := range map[string]reflect.Type{"Id": reflect.TypeOf(func() string { return "" }), "CustomData": reflect.TypeOf(func() map[string]interface{} { return nil })} {
		if m := root.MethodByName(name); m.IsValid() && m.Type() != sig {
			w.rep.Notes["trigger:root-accessor-shadows-"+name]++
		}
	}
	// the root itself: no elements
	if gp, _, errs := ygot.ResolvePath(o.Root); len(errs) > 0 || len(gp.GetElem()) != 0 {
		w.rep.Violations = append(w.rep.Violations, Violation{Chain: `DeviceRoot("")`, Kind: "elem-names", Want: "/", Got: renderPath(gp),
			Detail: fmt.Sprintf("the device root must resolve to the empty path (errors: %v)", errs)})
	}
	w.rep.Cases = append(w.rep.Cases, Case{Chain: `DeviceRoot("")`, Want: "/", Classes: []string{"root"}})
	w.node(root, rs.Type().Elem(), ctx{chain: `DeviceRoot("")`}, false, nil)
	return w.rep
}

func (w *walker) collectStructs(t reflect.Type, seen map[reflect.Type]bool) {
	if seen[t] {
		return
	}
	seen[t] = true
	w.structs = append(w.structs, t)
	for i := 0; i < t.NumField(); i++ {
		if gf, err := classifyField(t.Field(i)); err == nil && gf.Elem != nil {
			w.collectStructs(gf.Elem, seen)
		}
	}
}

// ---------------------------------------------------------------------------------------------
// GoStruct side

type fieldKind int

const (
	fLeaf fieldKind = iota
	fContainer
	fList
	fKeylessList
)

type goField struct {
	Name  string
	Kind  fieldKind
	Paths [][]string   // the alternatives of the path tag, split
	Elem  reflect.Type // struct type of the child (containers and lists)
}

// classifyField maps a GoStruct field to its kind and child struct type.
func classifyField(sf reflect.StructField) (goField, error) {
	gf := goField{Name: sf.Name}
	tag, ok := sf.Tag.Lookup("path")
	if !ok {
		return gf, fmt.Errorf("field %s has no path tag", sf.Name)
	}
	for _, alt := range strings.Split(tag, "|") {
		gf.Paths = append(gf.Paths, strings.Split(strings.Trim(alt, "/"), "/"))
	}
	t := sf.Type
	switch {
	case t.Kind() == reflect.Map && t.Elem().Kind() == reflect.Ptr && t.Elem().Elem().Kind() == reflect.Struct:
		gf.Kind, gf.Elem = fList, t.Elem().Elem()
	case t.Kind() == reflect.Ptr && t.Elem().Kind() == reflect.Struct:
		// container, or ordered map (ordered-by user list)
		if m, ok := t.MethodByName("Values"); ok && m.Type.NumOut() == 1 && m.Type.Out(0).Kind() == reflect.Slice &&
			m.Type.Out(0).Elem().Kind() == reflect.Ptr && m.Type.Out(0).Elem().Elem().Kind() == reflect.Struct {
			if _, isOM := t.MethodByName("IsYANGOrderedList"); isOM {
				gf.Kind, gf.Elem = fList, m.Type.Out(0).Elem().Elem()
				return gf, nil
			}
		}
		gf.Kind, gf.Elem = fContainer, t.Elem()
	case t.Kind() == reflect.Slice && t.Elem().Kind() == reflect.Ptr && t.Elem().Elem().Kind() == reflect.Struct:
		gf.Kind, gf.Elem = fKeylessList, t.Elem().Elem()
	default:
		gf.Kind = fLeaf
	}
	return gf, nil
}

// keyGoNames returns, for the list entry struct v, the Go field name of each key leaf (by YANG
// key name): the field one of whose path alternatives is exactly the key name.
func keyGoNames(v reflect.Type, keys []string) map[string]string {
	out := map[string]string{}
	for i := 0; i < v.NumField(); i++ {
		sf := v.Field(i)
		for _, alt := range strings.Split(sf.Tag.Get("path"), "|") {
			for _, k := range keys {
				if alt == k {
					out[k] = sf.Name
				}
			}
		}
	}
	return out
}

// ---------------------------------------------------------------------------------------------

func returnsPathStruct(m reflect.Method) bool {
	return m.Type.NumOut() == 1 && m.Type.Out(0).Implements(pathStructType)
}

func isBuilderMethod(m reflect.Method, recv reflect.Type) bool {
	return strings.HasPrefix(m.Name, "With") && m.Type.NumIn() == 2 && m.Type.NumOut() == 1 && m.Type.Out(0) == recv
}

func renderElems(es []Elem) string {
	var b strings.Builder
	for _, e := range es {
		b.WriteString("/" + e.Name)
		if e.NoKeys {
			b.WriteString("[no keys]")
			continue
		}
		ks := make([]string, 0, len(e.Keys))
		for k := range e.Keys {
			ks = append(ks, k)
		}
		sort.Strings(ks)
		for _, k := range ks {
			fmt.Fprintf(&b, "[%s=%q]", k, e.Keys[k])
		}
	}
	if len(es) == 0 {
		return "/"
	}
	return b.String()
}

func renderPath(p *gpb.Path) string {
	var es []Elem
	for _, e := range p.GetElem() {
		es = append(es, Elem{Name: e.GetName(), Keys: e.GetKey()})
	}
	return renderElems(es)
}

func (w *walker) full() bool {
	if len(w.rep.Cases) >= w.o.MaxCases {
		w.rep.Truncated = true
		return true
	}
	return false
}

func (w *walker) viol(chain, kind, want, got, detail string) {
	if len(w.rep.Violations) < 50 {
		w.rep.Violations = append(w.rep.Violations, Violation{Chain: chain, Kind: kind, Want: want, Got: got, Detail: detail})
	}
}

// node checks the path struct ps (when doCheck; leafAlts are the alternative last parts of a
// leaf's path) and walks its accessors. t is the GoStruct struct type that corresponds to ps, or
// nil for a leaf.
func (w *walker) node(ps reflect.Value, t reflect.Type, c ctx, doCheck bool, leafAlts [][]string) {
	if w.full() {
		return
	}
	if doCheck {
		w.check(ps, c, t == nil, leafAlts)
	}
	pt := ps.Type()
	if t == nil {
		// a leaf: there must be no further accessors
		for i := 0; i < pt.NumMethod(); i++ {
			if m := pt.Method(i); returnsPathStruct(m) && !isBuilderMethod(m, pt) {
				w.viol(c.chain+"."+m.Name+"(…)", "api-shape", "", "", "the GoStruct field chain ends in a leaf, but its path struct has a child accessor")
			}
		}
		return
	}
	fields := map[string]goField{}
	for i := 0; i < t.NumField(); i++ {
		gf, err := classifyField(t.Field(i))
		if err != nil {
			if strings.HasPrefix(t.Field(i).Name, "Λ") {
				continue // annotation fields (-annotations) have no path tag
			}
			w.rep.HarnessBugs = append(w.rep.HarnessBugs, fmt.Sprintf("GoStruct %s: %v", t.Name(), err))
			continue
		}
		fields[gf.Name] = gf
	}
	// group the accessor methods by the GoStruct field they belong to
	groups := map[string][]reflect.Method{}
	var order []string
	for i := 0; i < pt.NumMethod(); i++ {
		m := pt.Method(i)
		if !returnsPathStruct(m) || isBuilderMethod(m, pt) {
			continue
		}
		w.rep.Methods++
		fname, ok := matchField(fields, m.Name)
		if !ok {
			w.viol(c.chain+"."+m.Name+"(…)", "api-shape", "", "", fmt.Sprintf("no like-named field in GoStruct %s (fields: %v)", t.Name(), fieldNames(fields)))
			continue
		}
		if _, seen := groups[fname]; !seen {
			order = append(order, fname)
		}
		groups[fname] = append(groups[fname], m)
	}
	sort.Strings(order)
	for _, fname := range order {
		gf := fields[fname]
		switch gf.Kind {
		case fLeaf, fContainer:
			for _, m := range groups[fname] {
				if m.Name != fname || m.Type.NumIn() != 1 {
					w.viol(c.chain+"."+m.Name+"(…)", "api-shape", "", "", fmt.Sprintf("accessor of non-list field %s takes parameters or has a suffix", fname))
					continue
				}
				r := ps.Method(m.Index).Call(nil)[0]
				var ct reflect.Type
				var es []Elem
				for _, p := range gf.Paths[0] {
					es = append(es, Elem{Name: p})
				}
				cc := c.extend(c.chain+"."+m.Name+"()", es...)
				var alts [][]string
				if gf.Kind == fContainer {
					ct = gf.Elem
					if len(gf.Paths[0]) > 1 {
						cc = cc.with("via:compressed-container")
					}
				} else {
					alts = gf.Paths
				}
				w.node(r, ct, cc, true, alts)
			}
		case fKeylessList:
			for _, m := range groups[fname] {
				w.rep.Skipped["keyless-list-accessor:"+m.Name]++
			}
		case fList:
			w.list(ps, gf, groups[fname], c)
		}
	}
}

func fieldNames(f map[string]goField) []string {
	var ns []string
	for n := range f {
		ns = append(ns, n)
	}
	sort.Strings(ns)
	return ns
}

// matchField finds the GoStruct field a path-struct method belongs to: the field of the same
// name, or (list accessors) the longest list field name that is followed by an "Any…" suffix.
func matchField(fields map[string]goField, method string) (string, bool) {
	if _, ok := fields[method]; ok {
		return method, true
	}
	best := ""
	for n, f := range fields {
		if f.Kind == fList && strings.HasPrefix(method, n+"Any") && len(n) > len(best) {
			best = n
		}
	}
	return best, best != ""
}

// wildSet determines which keys a list accessor wildcards, from its name suffix:
// "" (none), "Any" (all) or Any<Key>Any<Key>… (ypathgen: WildcardSuffix + key name, in key order).
func wildSet(suffix string, keys []string, goName map[string]string) (map[string]bool, bool) {
	wild := map[string]bool{}
	switch suffix {
	case "":
		return wild, true
	case "Any":
		for _, k := range keys {
			wild[k] = true
		}
		return wild, true
	}
	var hit map[string]bool
	n := 0
	for mask := 1; mask < 1<<len(keys)-1; mask++ {
		s := ""
		cur := map[string]bool{}
		for i, k := range keys {
			if mask&(1<<i) != 0 {
				s += "Any" + goName[k]
				cur[k] = true
			}
		}
		if s == suffix {
			hit = cur
			n++
		}
	}
	if n != 1 {
		return nil, false
	}
	return hit, true
}

type listCall struct {
	m     reflect.Method
	wild  map[string]bool
	nWild int
}

// list exercises the accessors of one list field.
func (w *walker) list(ps reflect.Value, gf goField, methods []reflect.Method, c ctx) {
	rel := gf.Paths[0]
	var es []Elem
	for _, p := range rel {
		es = append(es, Elem{Name: p})
	}
	base := c.extend(c.chain, es...)
	var names []string
	for _, e := range base.want {
		names = append(names, e.Name)
	}
	wantStr := renderElems(base.want)
	// key names and order come from goyang
	ent := w.yi.find(names)
	if ent == nil || !ent.IsList() {
		w.viol(c.chain+"."+gf.Name+"…", "not-in-yang", wantStr, "", "the GoStruct path tags name a list that goyang's data tree does not have at this path")
		return
	}
	keys := strings.Fields(ent.Key)
	if len(keys) == 0 {
		w.rep.Skipped["keyless-list"]++
		return
	}
	goName := keyGoNames(gf.Elem, keys)
	for _, k := range keys {
		if goName[k] == "" {
			w.rep.HarnessBugs = append(w.rep.HarnessBugs, fmt.Sprintf("list %s: no GoStruct field for key %q in %s", wantStr, k, gf.Elem.Name()))
			return
		}
	}
	var calls []listCall
	var wildIdx []int
	for _, m := range methods {
		ws, ok := wildSet(strings.TrimPrefix(m.Name, gf.Name), keys, goName)
		if !ok {
			// the method-name convention is not part of the property: count, do not judge
			w.rep.Skipped["list-accessor-name-unparsed"]++
			continue
		}
		var supplied int
		for _, k := range keys {
			if !ws[k] {
				supplied++
			}
		}
		if m.Type.NumIn()-1 != supplied {
			w.viol(c.chain+"."+m.Name+"(…)", "api-shape", wantStr, "", fmt.Sprintf("%d parameters, but the name leaves %d of the keys %v un-wildcarded", m.Type.NumIn()-1, supplied, keys))
			continue
		}
		if len(ws) > 0 {
			wildIdx = append(wildIdx, len(calls))
		}
		calls = append(calls, listCall{m: m, wild: ws, nWild: len(ws)})
	}
	// descend below the first fully keyed result and below one randomly chosen wildcard accessor
	descendWild := -1
	if len(wildIdx) > 0 {
		descendWild = wildIdx[w.o.Choose(c.chain+"."+gf.Name+"/descend-wild", len(wildIdx))]
	}
	descendedConcrete := false
	for ci, call := range calls {
		if w.full() {
			return
		}
		m := call.m
		rt := m.Type.Out(0)
		var builders []reflect.Method
		for i := 0; i < rt.NumMethod(); i++ {
			if bm := rt.Method(i); isBuilderMethod(bm, rt) {
				builders = append(builders, bm)
			}
		}
		isBuilder := len(builders) > 0 && call.nWild == len(keys)
		rounds := 2
		switch {
		case isBuilder:
			rounds = 3
		case call.nWild == len(keys):
			rounds = 1
		}
		for round := 0; round < rounds; round++ {
			var args []reflect.Value
			el := Elem{Name: rel[len(rel)-1], Keys: map[string]string{}, Alt: map[string]string{}}
			var argStrs, classes []string
			used := map[string]bool{}
			ok := true
			for _, k := range keys {
				if call.wild[k] {
					el.Keys[k] = "*"
					continue
				}
				kv, err := w.keyValue(ent, k, m.Type.In(len(args)+1), gf.Elem, fmt.Sprintf("%s.%s#%d.%s", c.chain, m.Name, round, k), used)
				if err != nil {
					w.rep.Skipped["key-value:"+err.Error()]++
					ok = false
					break
				}
				args = append(args, kv.v)
				el.Keys[k] = kv.s
				if kv.alt != "" {
					el.Alt[k] = kv.alt
				}
				used[kv.s] = true
				argStrs = append(argStrs, fmt.Sprintf("%s=%s", k, showArg(kv.v)))
				classes = append(classes, kv.cls...)
			}
			if !ok {
				break
			}
			r := ps.Method(m.Index).Call(args)[0]
			cchain := fmt.Sprintf("%s.%s(%s)", c.chain, m.Name, strings.Join(argStrs, ", "))
			// builder API: key setters on the returned (wildcard) node
			if isBuilder {
				classes = append(classes, "builder")
			}
			for _, bm := range builders {
				var key string
				for _, k := range keys {
					if "With"+goName[k] == bm.Name {
						key = k
					}
				}
				if key == "" {
					w.rep.Skipped["builder-method-name-unparsed"]++
					continue
				}
				apply := round == 1 || w.o.Choose(cchain+"."+bm.Name+"?", 2) == 1
				if !apply {
					continue
				}
				kv, err := w.keyValue(ent, key, bm.Type.In(1), gf.Elem, fmt.Sprintf("%s.%s#%d", cchain, bm.Name, round), used)
				if err != nil {
					w.rep.Skipped["key-value:"+err.Error()]++
					continue
				}
				// a caller may look at the path of the wildcard node first and refine it afterwards: resolving
				// in between must not freeze the keys
				if w.o.Choose(cchain+"."+bm.Name+"!resolve-first", 2) == 1 {
					if psn, ok := r.Interface().(ygot.PathStruct); ok {
						_, _, _ = ygot.ResolvePath(psn)
						classes = append(classes, "builder:resolved-before-with-key")
					}
				}
				r = r.Method(bm.Index).Call([]reflect.Value{kv.v})[0]
				el.Keys[key] = kv.s
				delete(el.Alt, key)
				if kv.alt != "" {
					el.Alt[key] = kv.alt
				}
				used[kv.s] = true
				cchain += fmt.Sprintf(".%s(%s)", bm.Name, showArg(kv.v))
				classes = append(classes, kv.cls...)
				classes = append(classes, "builder:with-key")
			}
			nw := 0
			for _, k := range keys {
				if el.Keys[k] == "*" && call.wild[k] {
					nw++
				}
			}
			switch {
			case nw == len(keys):
				classes = append(classes, "wildcard:all-keys")
				if w.o.SimplifiedWildcards && !isBuilder {
					el.NoKeys = true
					classes = append(classes, "wildcard:keys-omitted")
				}
			case nw > 0:
				classes = append(classes, "wildcard:partial")
			default:
				classes = append(classes, "keys:all-supplied")
			}
			if len(keys) > 1 {
				classes = append(classes, "list:multi-key")
			} else {
				classes = append(classes, "list:single-key")
			}
			if len(rel) > 1 {
				classes = append(classes, "via:list-wrapper")
			} else {
				classes = append(classes, "list:unwrapped")
			}
			if strings.HasSuffix(ps.Type().Elem().Name(), "Any") {
				classes = append(classes, "parent:wildcard-type")
			}
			cw := append(append([]Elem{}, base.want[:len(base.want)-1]...), el)
			cc := ctx{want: cw, chain: cchain, lists: c.lists + 1, classes: c.classes}.with(classes...)
			descend := false
			switch {
			case call.nWild == 0 && !descendedConcrete:
				descend, descendedConcrete = true, true
			case ci == descendWild && round == 0:
				descend = true
			}
			w.check(r, cc, false, nil)
			if descend {
				w.node(r, gf.Elem, cc, false, nil)
			}
		}
	}
}

func showArg(v reflect.Value) string {
	switch v.Kind() {
	case reflect.Ptr:
		if !v.IsNil() && v.Elem().Kind() == reflect.Struct {
			return fmt.Sprintf("&%#v", v.Elem().Interface())
		}
	case reflect.Interface:
		if !v.IsNil() {
			return showArg(v.Elem())
		}
	case reflect.Int8, reflect.Int16, reflect.Int32, reflect.Int64, reflect.Int:
		return fmt.Sprintf("%s(%d)", v.Type().Name(), v.Int())
	case reflect.Uint8, reflect.Uint16, reflect.Uint32, reflect.Uint64, reflect.Uint:
		return fmt.Sprintf("%s(%d)", v.Type().Name(), v.Uint())
	}
	return fmt.Sprintf("%#v", v.Interface())
}

// check resolves ps and compares with c.want (for a leaf: with any of the path-tag alternatives)
// and with goyang's tree.
func (w *walker) check(ps reflect.Value, c ctx, leaf bool, leafAlts [][]string) {
	p, ok := ps.Interface().(ygot.PathStruct)
	if !ok {
		w.rep.HarnessBugs = append(w.rep.HarnessBugs, fmt.Sprintf("%s: %v is not a ygot.PathStruct", c.chain, ps.Type()))
		return
	}
	gp, _, errs := ygot.ResolvePath(p)
	// a leaf may be reachable under several data-tree paths (list keys: <list>/<key> and
	// <list>/config/<key>); the GoStruct tag lists them all, any of them is "the path the tags give"
	want := c.want
	altNote := ""
	relLen := 0
	if len(leafAlts) > 0 {
		relLen = len(leafAlts[0])
	}
	if leaf && len(leafAlts) > 1 && len(errs) == 0 {
		parent := c.want[:len(c.want)-len(leafAlts[0])]
		for i, alt := range leafAlts {
			if len(gp.GetElem()) != len(parent)+len(alt) {
				continue
			}
			same := true
			for j, a := range alt {
				if gp.GetElem()[len(parent)+j].GetName() != a {
					same = false
				}
			}
			if same {
				want = append([]Elem{}, parent...)
				for _, a := range alt {
					want = append(want, Elem{Name: a})
				}
				altNote = fmt.Sprintf("leaf:path-alternative-%d-of-%d", i+1, len(leafAlts))
				relLen = len(alt)
				break
			}
		}
	}
	cs := append([]string{}, c.classes...)
	if leaf {
		cs = append(cs, "node:leaf")
		if altNote != "" {
			cs = append(cs, altNote)
		}
		if relLen >= 2 { // a compressed-out config/state container on the way to the leaf
			switch want[len(want)-2].Name {
			case "config":
				cs = append(cs, "via:config")
			case "state":
				cs = append(cs, "via:state")
			}
		}
	} else {
		cs = append(cs, "node:directory")
	}
	for _, x := range cs {
		if strings.HasPrefix(x, "wildcard:") {
			cs = append(cs, "wildcard:any")
			break
		}
	}
	cs = append(cs, fmt.Sprintf("lists=%d", min(c.lists, 3)))
	wantStr := renderElems(want)
	w.rep.Cases = append(w.rep.Cases, Case{Chain: c.chain, Want: wantStr, Lists: c.lists, Classes: cs})
	viol := func(kind, got, detail string) { w.viol(c.chain, kind, wantStr, got, detail) }
	if len(errs) > 0 {
		viol("resolve-error", "", fmt.Sprintf("ygot.ResolvePath returned errors: %v", errs))
		return
	}
	got := renderPath(gp)
	if gp.GetTarget() != "" || gp.GetOrigin() != "" {
		viol("elem-names", got, fmt.Sprintf("target %q / origin %q set although the root was DeviceRoot(\"\")", gp.GetTarget(), gp.GetOrigin()))
	}
	if len(gp.GetElem()) != len(want) {
		viol("elem-names", got, "number of path elements differs from the GoStruct path-tag chain")
		return
	}
	var names []string
	for i, e := range gp.GetElem() {
		names = append(names, e.GetName())
		if e.GetName() != want[i].Name {
			viol("elem-names", got, fmt.Sprintf("element %d is %q, the GoStruct path tags give %q", i, e.GetName(), want[i].Name))
			return
		}
		wk, gk := want[i].Keys, e.GetKey()
		if want[i].NoKeys {
			if len(gk) != 0 {
				viol("wildcard", got, fmt.Sprintf("element %q: -simplify_wildcard_paths and every key wildcarded by a non-builder accessor, but keys %v are present", e.GetName(), gk))
				return
			}
			continue
		}
		if len(wk) == 0 && len(gk) == 0 {
			continue
		}
		if len(wk) != len(gk) {
			viol("keys", got, fmt.Sprintf("element %q has keys %v, expected %v", e.GetName(), gk, wk))
			return
		}
		for k, wv := range wk {
			gv, ok := gk[k]
			switch {
			case !ok:
				viol("keys", got, fmt.Sprintf("element %q lacks key %q", e.GetName(), k))
				return
			case wv == "*" && gv != "*":
				viol("wildcard", got, fmt.Sprintf("key %q of %q was left as a wildcard but appears as %q", k, e.GetName(), gv))
				return
			case wv != gv && !(want[i].Alt[k] != "" && want[i].Alt[k] == gv):
				viol("keys", got, fmt.Sprintf("key %q of %q is %q, the value passed to the accessor is %q in gNMI string form", k, e.GetName(), gv, wv))
				return
			}
		}
	}
	// anchor in goyang's compilation of the YANG source
	ent := w.yi.find(names)
	if ent == nil {
		viol("not-in-yang", got, "the resolved path is not a data-tree path of the YANG modules (goyang)")
		return
	}
	if leaf != (ent.IsLeaf() || ent.IsLeafList()) {
		viol("not-in-yang", got, fmt.Sprintf("node kind mismatch: the path struct is a leaf=%v, goyang says kind %v", leaf, ent.Kind))
		return
	}
	// every element with keys must be a list with exactly those key names; keyed lists must carry keys
	for i := range want {
		e := w.yi.find(names[:i+1])
		if e == nil {
			continue
		}
		ks := strings.Fields(e.Key)
		if want[i].NoKeys {
			if !e.IsList() {
				viol("key-names-vs-yang", got, fmt.Sprintf("element %q is treated as a list but is %v in YANG", names[i], e.Kind))
				return
			}
			continue
		}
		if len(want[i].Keys) == 0 {
			if e.IsList() && len(ks) > 0 {
				viol("key-names-vs-yang", got, fmt.Sprintf("element %q is a keyed list (keys %v) but carries no keys", names[i], ks))
				return
			}
			continue
		}
		sort.Strings(ks)
		var have []string
		for k := range want[i].Keys {
			have = append(have, k)
		}
		sort.Strings(have)
		if !e.IsList() || strings.Join(ks, " ") != strings.Join(have, " ") {
			viol("key-names-vs-yang", got, fmt.Sprintf("element %q has keys %v, the YANG list has keys %v", names[i], have, ks))
			return
		}
	}
}

