package pathwalk

import (
	"encoding/json"
	"fmt"
	"hash/fnv"
	"os"

	"github.com/openconfig/ygot/ygot"
)

// Generated describes one generated package (GoStructs + path structs) to the checker program.
type Generated struct {
	NewRoot    func() ygot.PathStruct // DeviceRoot("")
	RootStruct interface{}            // pointer to the fake-root GoStruct
}

// Config is the input of the checker program (JSON file named by its first argument).
type Config struct {
	Package    string   `json:"package"` // key of the map given to Main
	YangDir    string   `json:"yang_dir"`
	YangFiles  []string `json:"yang_files"`
	Simplified bool     `json:"simplified"` // -simplify_wildcard_paths
	Seeds      []uint64 `json:"seeds"`      // one walk per seed
	MaxCases   int      `json:"max_cases"`
}

// Output is what the checker program prints (JSON).
type Output struct {
	HarnessError string    `json:"harness_error,omitempty"`
	Reports      []*Report `json:"reports"`
}

// SeedChooser makes every decision a pure function of (seed, label).
func SeedChooser(seed uint64) func(label string, n int) int {
	return func(label string, n int) int {
		if n <= 1 {
			return 0
		}
		h := fnv.New64a()
		h.Write([]byte(label))
		z := h.Sum64() ^ (seed * 0x9E3779B97F4A7C15)
		z ^= z >> 30
		z *= 0xBF58476D1CE4E5B9
		z ^= z >> 27
		z *= 0x94D049BB133111EB
		z ^= z >> 31
		return int(z % uint64(n))
	}
}

// Main is the body of the generated checker program.
func Main(pkgs map[string]Generated) {
	out := Output{}
	emit := func() {
		b, _ := json.Marshal(out)
		os.Stdout.Write(b)
		os.Stdout.Write([]byte("\n"))
	}
	if len(os.Args) < 2 {
		out.HarnessError = "usage: checker <config.json>"
		emit()
		return
	}
	b, err := os.ReadFile(os.Args[1])
	if err != nil {
		out.HarnessError = err.Error()
		emit()
		return
	}
	var cfg Config
	if err := json.Unmarshal(b, &cfg); err != nil {
		out.HarnessError = "config: " + err.Error()
		emit()
		return
	}
	g, ok := pkgs[cfg.Package]
	if !ok {
		out.HarnessError = fmt.Sprintf("unknown package %q", cfg.Package)
		emit()
		return
	}
	yt, err := LoadYang(cfg.YangDir, cfg.YangFiles)
	if err != nil {
		out.HarnessError = "goyang: " + err.Error()
		emit()
		return
	}
	for _, s := range cfg.Seeds {
		r := Walk(Options{Root: g.NewRoot(), RootStruct: g.RootStruct, Yang: yt, Choose: SeedChooser(s), SimplifiedWildcards: cfg.Simplified, MaxCases: cfg.MaxCases})
		r.Seed = s
		out.Reports = append(out.Reports, r)
	}
	emit()
}
