package pathwalk

import (
	"fmt"
	"path/filepath"
	"sort"
	"strings"

	"github.com/openconfig/goyang/pkg/yang"
)

// YangTree is the harness's own goyang compilation of the modules (not made through ygen).
type YangTree struct {
	roots []*yang.Entry
}

// LoadYang parses and processes the modules with goyang.
func LoadYang(dir string, files []string) (*YangTree, error) {
	ms := yang.NewModules()
	if dir != "" {
		ms.AddPath(filepath.Join(dir, "..."))
	}
	for _, f := range files {
		if err := ms.Read(f); err != nil {
			return nil, fmt.Errorf("read %s: %v", f, err)
		}
	}
	if errs := ms.Process(); len(errs) > 0 {
		return nil, fmt.Errorf("process: %v", errs)
	}
	var names []string
	seen := map[string]bool{}
	for _, m := range ms.Modules {
		if !seen[m.Name] {
			seen[m.Name] = true
			names = append(names, m.Name)
		}
	}
	sort.Strings(names)
	yt := &YangTree{}
	for _, n := range names {
		yt.roots = append(yt.roots, yang.ToEntry(ms.Modules[n]))
	}
	return yt, nil
}

// child finds a data-tree child by name; choice and case nodes are transparent.
func child(e *yang.Entry, name string) *yang.Entry {
	if c, ok := e.Dir[name]; ok && !c.IsChoice() && !c.IsCase() {
		return c
	}
	var names []string
	for n, c := range e.Dir {
		if c.IsChoice() || c.IsCase() {
			names = append(names, n)
		}
	}
	sort.Strings(names)
	for _, n := range names {
		if r := child(e.Dir[n], name); r != nil {
			return r
		}
	}
	return nil
}

// find resolves a data-tree path from the module roots.
func (yt *YangTree) find(names []string) *yang.Entry {
	if len(names) == 0 {
		return nil
	}
	for _, r := range yt.roots {
		e := r
		for _, n := range names {
			if e = child(e, n); e == nil {
				break
			}
		}
		if e != nil && e.RPC == nil {
			return e
		}
	}
	return nil
}

// dataParent is the parent data node (choice and case nodes are no data nodes).
func dataParent(e *yang.Entry) *yang.Entry {
	p := e.Parent
	for p != nil && (p.IsChoice() || p.IsCase()) {
		p = p.Parent
	}
	return p
}

// leafrefTarget resolves a leafref path (absolute, or relative with ..; prefixes and predicates
// are dropped) starting at the leaf e.
func (yt *YangTree) leafrefTarget(e *yang.Entry, path string) *yang.Entry {
	// strip predicates
	var b strings.Builder
	depth := 0
	for _, r := range path {
		switch {
		case r == '[':
			depth++
		case r == ']':
			depth--
		case depth == 0:
			b.WriteRune(r)
		}
	}
	path = strings.TrimSpace(b.String())
	strip := func(s string) string {
		if i := strings.Index(s, ":"); i >= 0 {
			return s[i+1:]
		}
		return s
	}
	if strings.HasPrefix(path, "/") {
		var names []string
		for _, p := range strings.Split(strings.Trim(path, "/"), "/") {
			names = append(names, strip(strings.TrimSpace(p)))
		}
		return yt.find(names)
	}
	cur := e
	for _, p := range strings.Split(path, "/") {
		p = strings.TrimSpace(p)
		switch p {
		case "", ".":
		case "..":
			if cur = dataParent(cur); cur == nil {
				return nil
			}
		default:
			if cur = child(cur, strip(p)); cur == nil {
				return nil
			}
		}
	}
	return cur
}

// keyMembers returns the flattened member types (no unions, no leafrefs) of key leaf `key` of the
// list entry; ok is false when the type could not be resolved completely.
func (yt *YangTree) keyMembers(list *yang.Entry, key string) (out []*yang.YangType, ok bool) {
	leaf := child(list, key)
	if leaf == nil || leaf.Type == nil {
		return nil, false
	}
	ok = true
	var flat func(e *yang.Entry, t *yang.YangType, depth int)
	flat = func(e *yang.Entry, t *yang.YangType, depth int) {
		if t == nil || depth > 12 {
			ok = false
			return
		}
		switch t.Kind {
		case yang.Yunion:
			for _, m := range t.Type {
				flat(e, m, depth+1)
			}
		case yang.Yleafref:
			tg := yt.leafrefTarget(e, t.Path)
			if tg == nil || tg.Type == nil {
				ok = false
				return
			}
			flat(tg, tg.Type, depth+1)
		default:
			out = append(out, t)
		}
	}
	flat(leaf, leaf.Type, 0)
	if len(out) == 0 {
		ok = false
	}
	return out, ok
}

// RootChildNames lists the names that become children of the fake root under path compression:
// the top-level data nodes of all modules (choices transparent) and the lists directly inside a
// top-level container (their surrounding container is compressed out).
func (yt *YangTree) RootChildNames() []string {
	var out []string
	var add func(e *yang.Entry, depth int)
	add = func(e *yang.Entry, depth int) {
		for n, c := range e.Dir {
			switch {
			case c.IsChoice() || c.IsCase():
				add(c, depth)
			case c.RPC != nil || c.Kind == yang.NotificationEntry:
			case depth == 0:
				out = append(out, n)
				if c.IsContainer() {
					add(c, 1)
				}
			case c.IsList():
				out = append(out, n)
			}
		}
	}
	for _, r := range yt.roots {
		add(r, 0)
	}
	sort.Strings(out)
	return out
}

// RootList is a list that becomes a child of the fake root under path compression.
type RootList struct {
	Name string
	Keys []string
}

// RootLists lists the top-level lists and the lists directly inside a top-level container.
func (yt *YangTree) RootLists() []RootList {
	var out []RootList
	var add func(e *yang.Entry, depth int)
	add = func(e *yang.Entry, depth int) {
		var names []string
		for n := range e.Dir {
			names = append(names, n)
		}
		sort.Strings(names)
		for _, n := range names {
			c := e.Dir[n]
			switch {
			case c.IsChoice() || c.IsCase():
				add(c, depth)
			case c.IsList():
				out = append(out, RootList{Name: n, Keys: strings.Fields(c.Key)})
			case depth == 0 && c.IsContainer():
				add(c, 1)
			}
		}
	}
	for _, r := range yt.roots {
		add(r, 0)
	}
	return out
}
