package pathwalk

import (
	"fmt"
	"reflect"
	"regexp"
	"sort"
	"strconv"
	"strings"
	"unicode/utf8"

	"github.com/openconfig/goyang/pkg/yang"
	"github.com/openconfig/ygot/ygot"
)

// Key values. The value passed to an accessor is a value of the key leaf's YANG type (resolved by
// goyang: leafrefs followed, unions flattened, ranges / lengths / patterns honoured) in the Go
// representation the accessor's parameter type asks for. The expected key string is written here
// from the gNMI path conventions: integers in decimal, booleans true/false, enumerations and
// identities by their YANG name, decimal64 in plain decimal notation (no exponent; an integral
// value with or without ".0"), strings verbatim (path element keys are map values, nothing is
// escaped), a union value like its member.

type keyVal struct {
	v   reflect.Value
	s   string
	alt string
	cls []string
}

type bcand struct {
	v   interface{}
	s   string
	alt string
	cls []string
}

var goTypeOf = map[yang.TypeKind]reflect.Type{
	yang.Yint8: reflect.TypeOf(int8(0)), yang.Yint16: reflect.TypeOf(int16(0)), yang.Yint32: reflect.TypeOf(int32(0)), yang.Yint64: reflect.TypeOf(int64(0)),
	yang.Yuint8: reflect.TypeOf(uint8(0)), yang.Yuint16: reflect.TypeOf(uint16(0)), yang.Yuint32: reflect.TypeOf(uint32(0)), yang.Yuint64: reflect.TypeOf(uint64(0)),
	yang.Ystring: reflect.TypeOf(""), yang.Ybool: reflect.TypeOf(false), yang.Ydecimal64: reflect.TypeOf(float64(0)),
}

var stringPool = []string{"a", "", "eth0/1", "x y", "a]b[c", "k=v", "ü-ß", `back\slash`, "0", "-", "Ethernet1/2.3", "{x}", "q\"uote", "tab\there",
	"very-long-0123456789012345678901234567890123456789",
	// values that match commonly used patterns
	"abc", "x", "hello", "10.0.0.1", "192.168.1.20", "Ab-1", "Z", "up", "down-12", "65000:100", "1:2", "xa", "f", "abc:12"}

func inRange(r yang.YangRange, n yang.Number) bool {
	if len(r) == 0 {
		return true
	}
	for _, p := range r {
		if !n.Less(p.Min) && !p.Max.Less(n) {
			return true
		}
	}
	return false
}

func intCands(m *yang.YangType) []bcand {
	gt := goTypeOf[m.Kind]
	bits := gt.Bits()
	var out []bcand
	seen := map[string]bool{}
	switch m.Kind {
	case yang.Yint8, yang.Yint16, yang.Yint32, yang.Yint64:
		lo, hi := int64(-1)<<(bits-1), int64(1)<<(bits-1)-1
		pool := []int64{0, 1, -1, 42, -100, lo, hi, lo + 1, hi - 1}
		for _, p := range m.Range {
			for _, n := range []yang.Number{p.Min, p.Max} {
				if v, err := n.Int(); err == nil {
					pool = append(pool, v)
				}
			}
		}
		for _, n := range pool {
			if n < lo || n > hi || !inRange(m.Range, yang.FromInt(n)) {
				continue
			}
			s := strconv.FormatInt(n, 10)
			if seen[s] {
				continue
			}
			seen[s] = true
			v := reflect.New(gt).Elem()
			v.SetInt(n)
			out = append(out, bcand{v: v.Interface(), s: s, cls: []string{"key:int", fmt.Sprintf("key:int%d", bits)}})
		}
	default:
		hi := ^uint64(0) >> (64 - uint(bits))
		pool := []uint64{0, 1, 42, hi, hi / 2, hi - 1}
		for _, p := range m.Range {
			for _, n := range []yang.Number{p.Min, p.Max} {
				if !n.Negative && n.FractionDigits == 0 {
					pool = append(pool, n.Value)
				}
			}
		}
		for _, n := range pool {
			if n > hi || !inRange(m.Range, yang.FromUint(n)) {
				continue
			}
			s := strconv.FormatUint(n, 10)
			if seen[s] {
				continue
			}
			seen[s] = true
			v := reflect.New(gt).Elem()
			v.SetUint(n)
			out = append(out, bcand{v: v.Interface(), s: s, cls: []string{"key:uint", fmt.Sprintf("key:uint%d", bits)}})
		}
	}
	return out
}

// plainDecimal renders a goyang Number without trailing zeros.
func plainDecimal(n yang.Number) string {
	s := strconv.FormatUint(n.Value, 10)
	if fd := int(n.FractionDigits); fd > 0 {
		for len(s) <= fd {
			s = "0" + s
		}
		s = s[:len(s)-fd] + "." + s[len(s)-fd:]
		s = strings.TrimRight(s, "0")
		s = strings.TrimSuffix(s, ".")
	}
	if n.Negative && strings.Trim(s, "0.") != "" {
		s = "-" + s
	}
	return s
}

func sigDigits(s string) int {
	d := strings.TrimLeft(strings.NewReplacer("-", "", ".", "").Replace(s), "0")
	return len(d)
}

func decCands(m *yang.YangType) []bcand {
	fd := m.FractionDigits
	if fd < 1 || fd > 18 {
		fd = 2
	}
	// magnitudes on both sides of the range in which %g-style formatting switches to an exponent
	pool := []string{"1.5", "-0.25", "100", "0", "12.125", "-7", "0.5", "3", "1000000", "1234567.5", "-25000000", "0.00001", "0.000025", "123456789012"}
	for _, p := range m.Range {
		pool = append(pool, plainDecimal(p.Min), plainDecimal(p.Max))
	}
	var out []bcand
	seen := map[string]bool{}
	for _, s := range pool {
		if seen[s] || sigDigits(s) > 15 { // float64 holds 15 significant decimal digits exactly enough to print them back
			continue
		}
		seen[s] = true
		frac := 0
		if i := strings.Index(s, "."); i >= 0 {
			frac = len(s) - i - 1
		}
		if frac > fd {
			continue
		}
		n, err := yang.ParseDecimal(s, uint8(fd))
		if err != nil || !inRange(m.Range, n) {
			continue
		}
		f, err := strconv.ParseFloat(s, 64)
		if err != nil {
			continue
		}
		c := bcand{v: f, s: s, cls: []string{"key:decimal64"}}
		if !strings.Contains(s, ".") {
			c.alt = s + ".0"
		}
		out = append(out, c)
	}
	return out
}

// strCands returns strings of type m; verifiable is false when a pattern cannot be evaluated here.
func strCands(m *yang.YangType) (out []bcand, verifiable bool) {
	var res []*regexp.Regexp
	for _, p := range m.Pattern {
		re, err := regexp.Compile("^(?:" + p + ")$")
		if err != nil {
			return nil, false
		}
		res = append(res, re)
	}
	for _, p := range m.POSIXPattern {
		re, err := regexp.Compile(p)
		if err != nil {
			return nil, false
		}
		res = append(res, re)
	}
	okStr := func(s string) bool {
		if !inRange(m.Length, yang.FromInt(int64(utf8.RuneCountInString(s)))) {
			return false
		}
		for _, re := range res {
			if !re.MatchString(s) {
				return false
			}
		}
		return true
	}
	pool := append([]string{}, stringPool...)
	for _, p := range m.Length { // strings of exactly the boundary lengths
		for _, n := range []yang.Number{p.Min, p.Max} {
			if v, err := n.Int(); err == nil && v >= 0 && v <= 300 {
				pool = append(pool, strings.Repeat("a", int(v)))
			}
		}
	}
	seen := map[string]bool{}
	for _, s := range pool {
		if seen[s] || !okStr(s) {
			continue
		}
		seen[s] = true
		cls := []string{"key:string"}
		if strings.ContainsAny(s, `/[]= \"`+"\t") {
			cls = append(cls, "key:string-special-chars")
		}
		out = append(out, bcand{v: s, s: s, cls: cls})
	}
	return out, true
}

// yangNames returns the YANG names of an enumeration / the identities derived from the base.
func yangNames(m *yang.YangType) map[string]bool {
	out := map[string]bool{}
	switch {
	case m.Kind == yang.Yenum && m.Enum != nil:
		for _, n := range m.Enum.Names() {
			out[n] = true
		}
	case m.Kind == yang.Yidentityref && m.IdentityBase != nil:
		for _, v := range m.IdentityBase.Values {
			out[v.Name] = true
		}
	}
	return out
}

// enumCands lists the values of generated enum type et whose YANG name is allowed (nil: any).
// The name comes from the generated ΛMap table and must also be a name goyang knows.
func (w *walker) enumCands(et reflect.Type, allowed map[string]bool, cls string) []bcand {
	zero := reflect.New(et).Elem()
	mm := zero.MethodByName("ΛMap")
	if !mm.IsValid() {
		return nil
	}
	defs, ok := mm.Call(nil)[0].Interface().(map[string]map[int64]ygot.EnumDefinition)
	if !ok {
		return nil
	}
	byVal := defs[et.Name()]
	var vals []int64
	for v := range byVal {
		if v != 0 {
			vals = append(vals, v)
		}
	}
	sort.Slice(vals, func(i, j int) bool { return vals[i] < vals[j] })
	var out []bcand
	for _, n := range vals {
		name := byVal[n].Name
		if allowed != nil && !allowed[name] {
			continue
		}
		v := reflect.New(et).Elem()
		v.SetInt(n)
		out = append(out, bcand{v: v.Interface(), s: name, cls: []string{cls}})
	}
	return out
}

func enumClass(m *yang.YangType) string {
	if m != nil && m.Kind == yang.Yidentityref {
		return "key:identityref"
	}
	return "key:enum"
}

// basicCands: candidates for a member of a built-in scalar kind.
func (w *walker) basicCands(m *yang.YangType) []bcand {
	switch m.Kind {
	case yang.Yint8, yang.Yint16, yang.Yint32, yang.Yint64, yang.Yuint8, yang.Yuint16, yang.Yuint32, yang.Yuint64:
		return intCands(m)
	case yang.Ydecimal64:
		return decCands(m)
	case yang.Ystring:
		cs, ok := strCands(m)
		if !ok {
			w.rep.Notes["string-pattern-not-evaluable"]++
		}
		return cs
	case yang.Ybool:
		return []bcand{{v: true, s: "true", cls: []string{"key:bool"}}, {v: false, s: "false", cls: []string{"key:bool"}}}
	}
	return nil
}

// pseudoMembers: unrestricted members for a Go type whose YANG type could not be resolved.
func pseudoMembers() []*yang.YangType {
	var out []*yang.YangType
	for _, k := range []yang.TypeKind{yang.Ystring, yang.Yint8, yang.Yint16, yang.Yint32, yang.Yint64, yang.Yuint8, yang.Yuint16, yang.Yuint32, yang.Yuint64, yang.Ydecimal64, yang.Ybool} {
		out = append(out, &yang.YangType{Kind: k})
	}
	return out
}

// unionConv finds the generated To_<Union> converter for union interface type t.
func (w *walker) unionConv(holder reflect.Type, t reflect.Type) reflect.Value {
	name := "To_" + t.Name()
	if m := reflect.New(holder).MethodByName(name); m.IsValid() {
		return m
	}
	for _, st := range w.structs {
		if m := reflect.New(st).MethodByName(name); m.IsValid() {
			return m
		}
	}
	return reflect.Value{}
}

// keyValue generates an argument of parameter type t for key `key` of the list and the gNMI
// string form it must have in the path. holder is the list entry GoStruct type.
func (w *walker) keyValue(list *yang.Entry, key string, t reflect.Type, holder reflect.Type, label string, used map[string]bool) (keyVal, error) {
	members, resolved := w.yi.keyMembers(list, key)
	if !resolved {
		w.rep.Notes["key-type-unresolved"]++
		members = nil
	}
	for _, m := range members {
		switch m.Kind {
		case yang.Ybinary, yang.Yempty, yang.Ybits:
			return keyVal{}, fmt.Errorf("key type %v is outside ygot's supported keys", m.Kind)
		}
	}
	var cands []keyVal
	isEnum := t.Implements(goEnumType) && t.Kind() == reflect.Int64
	switch {
	case isEnum:
		var allowed map[string]bool
		var em *yang.YangType
		for _, m := range members {
			if m.Kind == yang.Yenum || m.Kind == yang.Yidentityref {
				if allowed == nil {
					allowed = map[string]bool{}
				}
				for n := range yangNames(m) {
					allowed[n] = true
				}
				em = m
			}
		}
		if allowed == nil {
			w.rep.Notes["key-domain:go-type-only"]++
		}
		for _, c := range w.enumCands(t, allowed, enumClass(em)) {
			cands = append(cands, keyVal{v: reflect.ValueOf(c.v), s: c.s, cls: c.cls})
		}
	case t.Kind() == reflect.Interface:
		conv := w.unionConv(holder, t)
		if !conv.IsValid() {
			return keyVal{}, fmt.Errorf("no To_%s converter for the union parameter", t.Name())
		}
		if members == nil {
			w.rep.Notes["key-domain:go-type-only"]++
			members = append(pseudoMembers(), &yang.YangType{Kind: yang.Yenum})
		}
		try := func(c bcand, member string) {
			out := conv.Call([]reflect.Value{reflect.ValueOf(c.v)})
			if !out[1].IsNil() || out[0].IsNil() {
				return
			}
			v := reflect.New(t).Elem()
			v.Set(out[0])
			cands = append(cands, keyVal{v: v, s: c.s, alt: c.alt, cls: append(append([]string{}, c.cls...), "key:union", "key:union-member:"+member)})
		}
		for _, m := range members {
			switch m.Kind {
			case yang.Yenum, yang.Yidentityref:
				allowed := yangNames(m)
				if len(allowed) == 0 {
					allowed = nil
				}
				for _, et := range w.enumTys {
					if et.Kind() != reflect.Int64 {
						continue
					}
					for _, c := range w.enumCands(et, allowed, enumClass(m)) {
						try(c, strings.TrimPrefix(enumClass(m), "key:"))
					}
				}
			default:
				for _, c := range w.basicCands(m) {
					try(c, yang.TypeKindToName[m.Kind])
				}
			}
		}
	default:
		var ms []*yang.YangType
		for _, m := range members {
			if gt, ok := goTypeOf[m.Kind]; ok && gt.Kind() == t.Kind() {
				ms = append(ms, m)
			}
		}
		if len(ms) == 0 {
			w.rep.Notes["key-domain:go-type-only"]++
			for _, m := range pseudoMembers() {
				if goTypeOf[m.Kind].Kind() == t.Kind() {
					ms = append(ms, m)
				}
			}
		}
		for _, m := range ms {
			for _, c := range w.basicCands(m) {
				rv := reflect.ValueOf(c.v)
				if !rv.Type().ConvertibleTo(t) {
					continue
				}
				cands = append(cands, keyVal{v: rv.Convert(t), s: c.s, alt: c.alt, cls: c.cls})
			}
		}
	}
	if len(cands) == 0 {
		kind := t.Kind().String()
		if isEnum {
			kind = "enumeration/identityref (no member known to both goyang and the generated enum table)"
		}
		return keyVal{}, fmt.Errorf("no value of the key's YANG type could be built for parameter type %s", kind)
	}
	i := w.o.Choose(label, len(cands))
	// two keys of one call should differ, so that swapped keys are visible
	for n := 0; n < len(cands) && used[cands[i].s]; n++ {
		i = (i + 1) % len(cands)
	}
	return cands[i], nil
}
