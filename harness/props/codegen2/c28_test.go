package codegen2

import (
	"fmt"
	"os"
	"path/filepath"
	"regexp"
	"sort"
	"strings"
	"testing"

	"github.com/openconfig/goyang/pkg/yang"
	"pgregory.net/rapid"

	"verifharness/ev"
	"verifharness/protoparse"
	"verifharness/yanggen"
)

// ---------------------------------------------------------------------------------------------
// Known findings of C28 (open defects of protogen reproduced on the unchanged tree). Each has a
// fixed minimal witness (c28_findings_test.go) and a predicate that matches only its trigger
// region and failure signature.

const (
	fTagCollision  = "F19-proto-tag-collision"
	fYextImport    = "F41-proto-yext-import-missing"
	fKeywordPkg    = "F42-proto-keyword-package-component"
	fAnyImport     = "F43-proto-any-import-missing"
	fSingletonEnum = "F44-proto-singleton-enum-union-undefined"
	fDottedPkg     = "F45-proto-dotted-package-enum-file"
	fEnumCase      = "F46-proto-enum-case-conflict"
	fNegativeEnum  = "F47-proto-negative-enum-value-first"
	fEnumNameDup   = "F48-proto-enum-value-names-not-unique"
	fJSONName      = "F49-proto-field-json-name-conflict"
	fPkgMsgClash   = "F50-proto-package-equals-message-name"
	fTypeVsField   = "F51-proto-nested-type-vs-field-name"
	fRootList      = "F52-proto-fakeroot-toplevel-list-reference"
	fKeyEnumImport = "F53-proto-enum-list-key-import-missing"
	fDecimalImport = "F54-proto-union-decimal64-spurious-enums-import"
	fRootPkgUnique = "F55-proto-compress-hierarchy-second-module-root-package"
	fDupKeyMsg     = "F56-proto-hierarchy-duplicate-key-message"
	fUnionEnumRef  = "F57-proto-hierarchy-leaflist-union-enum-scope"
)

// c28ExcludedClasses are the yanggen collision classes that are not drawn in C28 because a known
// finding covers the whole class (the would-be draws are counted in the evidence).
var c28ExcludedClasses = map[string]bool{
	yanggen.ClEnumCase:       true, // F46
	yanggen.ClEnumSanitise:   true, // F48
	yanggen.ClIdentSanitise:  true, // F48
	yanggen.ClEnumUNSET:      true, // F48
	yanggen.ClIdentSameName:  true, // F48
	yanggen.ClDashUnderscore: true, // F49
	yanggen.ClCamelSiblings:  true, // F49, F51
	yanggen.ClKeyCamel:       true, // F49
}

// protoc decides these by the first token of a message statement (parser.cc
// ParseMessageStatement / ParseType / ParseLabel), so a type reference that starts with one of
// them is not parsed as a type reference.
var protoLeadKeywords = regexp.MustCompile(`^\s*(repeated\s+)?(message|enum|oneof|option|extend|extensions|reserved|group|optional|required|repeated|double|float|int32|int64|uint32|uint64|sint32|sint64|fixed32|fixed64|sfixed32|sfixed64|bool|string|bytes)\.[A-Za-z_]`)

var posRE = regexp.MustCompile(`^(.*?\.proto):(\d+):(\d+): `)

// problemLine returns the file (output-relative) and the source line a parse/link problem points at.
func problemLine(po *protoOut, p problem) (file string, line string) {
	m := posRE.FindStringSubmatch(p.Msg)
	if m == nil {
		return "", ""
	}
	var n int
	fmt.Sscanf(m[2], "%d", &n)
	for rel, imp := range po.ImportName {
		if imp == m[1] {
			ls := strings.Split(po.Raw[rel], "\n")
			if n >= 1 && n <= len(ls) {
				return rel, ls[n-1]
			}
			return rel, ""
		}
	}
	return "", ""
}

var (
	singletonEnumRE = regexp.MustCompile(`^\s*([A-Za-z0-9_]+Enum) ([a-z0-9_A-Z]+) = \d+`)
	quotedRE        = regexp.MustCompile(`"([^"]*)"`)
	plainFieldRE    = regexp.MustCompile(`^\s*([A-Za-z0-9_.]+) ([A-Za-z0-9_]+) = (\d+)`)
	negFirstRE      = regexp.MustCompile(`must be zero in proto3, have \S+ = -\d+`)
)

// underscorePkgDefines reports whether the output has a package "<base>._", "<base>.__", ...
// (MakeNameUnique of the empty package name: one more underscore for every further module with
// top-level nodes) that defines message typ.
func underscorePkgDefines(po *protoOut, f protoFlags, typ string) bool {
	base := strings.ReplaceAll(f.PackageName, ".", "/")
	for rel, raw := range po.Raw {
		us := filepath.Base(filepath.Dir(rel))
		if us == "" || strings.Trim(us, "_") != "" || rel != filepath.Join(base, us, us+".proto") {
			continue
		}
		if strings.Contains(raw, "package "+f.PackageName+"."+us+";") && strings.Contains(raw, "\nmessage "+typ+" {") {
			return true
		}
	}
	return false
}

// isNestedListKeyMessage reports whether the message with the given full name has the shape of
// the key message genListKeyProto emits with nested messages: it is called <List>Key and its last
// field is the plain, non-repeated reference "<List> <list> = <number of keys + 1>".
func isNestedListKeyMessage(po *protoOut, full string) bool {
	list := strings.TrimSuffix(lastComponent(full), "Key")
	found := false
	for _, pf := range po.Files {
		pf.WalkMessages(func(name string, m *protoparse.Message) {
			if name != full || len(m.Fields) < 2 {
				return
			}
			last := m.Fields[len(m.Fields)-1]
			keys := map[string]bool{} // a union key is one oneof, however many members it has
			for _, fl := range m.Fields[:len(m.Fields)-1] {
				if fl.Oneof >= 0 {
					keys[fmt.Sprintf("oneof %d", fl.Oneof)] = true
				} else {
					keys[fl.Name] = true
				}
			}
			if last.TypeName == list && !last.Repeated && last.Oneof < 0 && last.Number == int64(len(keys))+1 {
				found = true
			}
		})
	}
	return found
}

var singletonCache = map[string]map[string]bool{}

// singletonEnumNames returns, from goyang's own compilation of the schema, the enum names
// protogen derives for leaves whose type is a union with exactly one member, an enumeration.
func singletonEnumNames(src schemaSrc) map[string]bool {
	key := src.Dir + "|" + strings.Join(src.Roots, "|")
	if m, ok := singletonCache[key]; ok {
		return m
	}
	out := map[string]bool{}
	singletonCache[key] = out
	yi, err := loadYang(src.Dir, src.Roots)
	if err != nil {
		return out
	}
	seen := map[*yang.Entry]bool{}
	var walk func(e *yang.Entry)
	walk = func(e *yang.Entry) {
		if seen[e] {
			return
		}
		seen[e] = true
		if e.Type != nil && e.Type.Kind == yang.Yunion && len(e.Type.Type) == 1 && e.Type.Type[0].Kind == yang.Yenum {
			out[yang.CamelCase(e.Name)+"Enum"] = true
		}
		for _, c := range e.Dir {
			walk(c)
		}
	}
	for _, r := range yi.roots {
		walk(r)
	}
	return out
}

var (
	enumClashCache  = map[string]map[string]bool{}
	notProtoIDChars = regexp.MustCompile(`[^a-zA-Z0-9_]`)
)

// enumClashNames returns, from goyang's own compilation of the schema, the sanitised member
// names that occur twice within one enumeration or one identity set, plus UNSET when a member has that
// name (the trigger region of F48).
func enumClashNames(src schemaSrc) map[string]bool {
	key := src.Dir + "|" + strings.Join(src.Roots, "|")
	if m, ok := enumClashCache[key]; ok {
		return m
	}
	out := map[string]bool{}
	enumClashCache[key] = out
	yi, err := loadYang(src.Dir, src.Roots)
	if err != nil {
		return out
	}
	set := func(names []string) {
		seen := map[string]bool{}
		for _, n := range names {
			u := notProtoIDChars.ReplaceAllLiteralString(n, "_")
			if seen[u] || u == "UNSET" {
				out[u] = true
			}
			seen[u] = true
		}
	}
	seenT := map[*yang.YangType]bool{}
	var typ func(t *yang.YangType)
	typ = func(t *yang.YangType) {
		if t == nil || seenT[t] {
			return
		}
		seenT[t] = true
		if t.Enum != nil {
			set(t.Enum.Names())
		}
		if t.IdentityBase != nil {
			var names []string
			for _, v := range t.IdentityBase.Values {
				names = append(names, v.Name)
			}
			set(names)
		}
		for _, m := range t.Type {
			typ(m)
		}
	}
	seen := map[*yang.Entry]bool{}
	var walk func(e *yang.Entry)
	walk = func(e *yang.Entry) {
		if seen[e] {
			return
		}
		seen[e] = true
		typ(e.Type)
		for _, c := range e.Dir {
			walk(c)
		}
	}
	for _, r := range yi.roots {
		walk(r)
	}
	return out
}

var jsonClashCache = map[string]map[string]bool{}

// protoJSONName is protoc's default JSON name of a field name (underscores dropped, next letter upper-cased).
func protoJSONName(field string) string {
	var b strings.Builder
	up := false
	for _, r := range field {
		if r == '_' {
			up = true
			continue
		}
		if up && r >= 'a' && r <= 'z' {
			r -= 'a' - 'A'
		}
		up = false
		b.WriteRune(r)
	}
	return b.String()
}

// jsonNameClashes returns the default JSON names that two differently named nodes of the schema share
// (a superset of the trigger region of F49, which needs the two to end up in one message).
func jsonNameClashes(src schemaSrc) map[string]bool {
	key := src.Dir + "|" + strings.Join(src.Roots, "|")
	if m, ok := jsonClashCache[key]; ok {
		return m
	}
	out := map[string]bool{}
	jsonClashCache[key] = out
	yi, err := loadYang(src.Dir, src.Roots)
	if err != nil {
		return out
	}
	first := map[string]string{}
	seen := map[*yang.Entry]bool{}
	var walk func(e *yang.Entry)
	walk = func(e *yang.Entry) {
		if seen[e] {
			return
		}
		seen[e] = true
		j := protoJSONName(notProtoIDChars.ReplaceAllLiteralString(e.Name, "_"))
		if n, ok := first[j]; ok && n != e.Name {
			out[j] = true
		} else if !ok {
			first[j] = e.Name
		}
		for _, c := range e.Dir {
			walk(c)
		}
	}
	for _, r := range yi.roots {
		walk(r)
	}
	return out
}

// didNotComplete: a generator run that ended without a verdict of the generator itself (time limit of the
// harness, kill signal, or no output at all).
func didNotComplete(err error, log string) bool {
	if err == nil {
		return false
	}
	e := err.Error()
	return strings.Contains(e, "timeout after") || strings.Contains(e, "signal: killed") || strings.TrimSpace(log) == ""
}

func lastComponent(s string) string {
	if i := strings.LastIndexByte(s, '.'); i >= 0 {
		return s[i+1:]
	}
	return s
}

// excused reports whether problem p of output po is an instance of an open known finding:
// every case is (trigger region of the finding) AND (its failure signature).
func excused(rec *ev.Rec, src schemaSrc, f protoFlags, po *protoOut, p problem) bool {
	rel, line := problemLine(po, p)
	raw := po.Raw[rel]
	q := quotedRE.FindAllStringSubmatch(p.Msg, -1) // quoted parts of the message, in order
	qs := func(i int) string {
		if i < len(q) {
			return q[i][1]
		}
		return ""
	}
	enumRef := f.PackageName + "." + f.EnumPackage + "."
	switch {
	// F41: -add_schemapaths=false; the leaf-list annotation is used in a file without yext import
	// (also the yang_name annotation of an enum inside a nested list-key message)
	case p.Class == "link:unresolved" && (strings.Contains(p.Msg, "option (yext.leaflist") || strings.Contains(p.Msg, "option (yext.yang_name)")):
		return rec.Excuse(fYextImport, !f.SchemaPaths && rel != "" && !strings.Contains(raw, "/yext.proto\";"))

	// F42: a type reference that starts with a protobuf keyword
	case (p.Class == "parse:syntax" || p.Class == "link:unresolved") && protoLeadKeywords.MatchString(line):
		return rec.Excuse(fKeywordPkg, true)

	// F43: anydata field, any.proto import dropped
	case p.Class == "link:unresolved" && strings.Contains(p.Msg, `type "google.protobuf.Any" is not defined`):
		return rec.Excuse(fAnyImport, rel != "" && !strings.Contains(raw, `import "google/protobuf/any.proto";`))

	// F45: dotted -package_name, global enums file written to / looked up under different paths
	case strings.Contains(f.PackageName, ".") && p.Class == "link:unresolved" && strings.HasPrefix(qs(0), enumRef):
		return rec.Excuse(fDottedPkg, strings.Contains(p.Msg, "not imported"))
	case strings.Contains(f.PackageName, ".") && p.Class == "link:import" &&
		strings.HasSuffix(qs(0), filepath.Join(strings.ReplaceAll(f.PackageName, ".", "/"), f.EnumPackage, f.EnumPackage+".proto")):
		return rec.Excuse(fDottedPkg, true)

	// F44 / F54: the enums file is imported but was never written
	case p.Class == "link:import" && strings.HasSuffix(qs(0), "/"+f.EnumPackage+"/"+f.EnumPackage+".proto") && strings.HasSuffix(p.Msg, "not found"):
		if strings.Contains(raw, enumRef) {
			return false // a real reference to a global enum: not one of the two spurious-import defects
		}
		for _, l := range strings.Split(raw, "\n") {
			if m := singletonEnumRE.FindStringSubmatch(l); m != nil && singletonEnumNames(src)[strings.TrimRight(m[1], "_")] {
				return rec.Excuse(fSingletonEnum, true)
			}
		}
		// F54: a union member of type ywrapper.Decimal64Value is mistaken for a global enum
		return rec.Excuse(fDecimalImport, strings.Contains(raw, "ywrapper.Decimal64Value ") && strings.Contains(raw, "_decimal64value = "))

	// F47: YANG enum value < -1 is emitted before the zero value
	case p.Class == "link:syntax" && negFirstRE.MatchString(p.Msg):
		return rec.Excuse(fNegativeEnum, true)

	// F46: enum members equal ignoring case (protoc: conflict after prefix stripping in proto3)
	case p.Class == "link:protodesc" && strings.Contains(p.Msg, "using open semantics has conflict"):
		return rec.Excuse(fEnumCase, strings.EqualFold(qs(1), qs(2)))

	// F48: enum value names equal after sanitising / equal to the synthetic UNSET
	case p.Class == "dup-enum-name":
		// trigger: the doubled value name comes from two YANG members of one enumeration / identity set
		// that are equal after sanitising, or from a member called UNSET
		dup, hit := qs(0), false
		for c := range enumClashNames(src) {
			if dup == c || strings.HasSuffix(dup, "_"+c) {
				hit = true
			}
		}
		return rec.Excuse(fEnumNameDup, hit)

	// F49: sibling fields with the same default JSON name
	case p.Class == "link:json-name":
		// trigger: two differently named schema nodes share the default JSON name that the message reports
		return rec.Excuse(fJSONName, jsonNameClashes(src)[qs(0)])

	// F50: -package_hierarchy, a directory whose package component equals its message name
	case p.Class == "link:duplicate-symbol" && strings.Contains(p.Msg, "(message) is already defined as package in file"):
		name := lastComponent(qs(0))
		return rec.Excuse(fPkgMsgClash, f.Hierarchy && strings.Contains(qs(1), "/"+name+"/"))

	// F56: -package_hierarchy, the key messages of two same-named lists land in one package
	case p.Class == "link:duplicate-symbol" && strings.Contains(p.Msg, "(message) is already defined as message"):
		return rec.Excuse(fDupKeyMsg, f.Hierarchy && strings.HasSuffix(qs(0), "Key") && strings.HasPrefix(strings.TrimSpace(line), "message "+lastComponent(qs(0))+" {"))

	// F51: nested message/enum name equals a sibling field name
	case p.Class == "link:duplicate-symbol" && (strings.Contains(p.Msg, "(message) is already defined as field") || strings.Contains(p.Msg, "(enum) is already defined as field") ||
		strings.Contains(p.Msg, "(enum) is already defined as message")):
		return rec.Excuse(fTypeVsField, true)

	case p.Class == "link:unresolved" && strings.Contains(p.Msg, "type \""):
		typ, scope := qs(0), qs(1)
		m := plainFieldRE.FindStringSubmatch(line)
		switch {
		// F53: enum-typed list key in a nested key message, enums import lost
		case strings.HasPrefix(typ, enumRef) && strings.HasSuffix(scope, "Key"):
			return rec.Excuse(fKeyEnumImport, f53EnumActive && !f.Hierarchy && !strings.Contains(raw, "/"+f.EnumPackage+"/"+f.EnumPackage+".proto\";"))
		// F53 (same discarded result of the nested key message, its UsesYwrapperImport flag): a
		// decimal64 list key - the only key type mapped to a ywrapper message, plain or as a
		// union member - in a file none of whose non-key fields uses a ywrapper type
		case typ == "ywrapper.Decimal64Value" && strings.HasSuffix(scope, "Key"):
			return rec.Excuse(fKeyEnumImport, f53DecimalActive && !f.Hierarchy && !strings.Contains(raw, "import \""+filepath.Join(f.YwrapperPath, "ywrapper.proto")+"\";") &&
				isNestedListKeyMessage(po, scope))
		// F57: -package_hierarchy, the message generated for a leaf-list of unions is a sibling
		// of the message that holds the union's inline enum
		case f.Hierarchy && m != nil && !strings.Contains(typ, ".") && strings.HasSuffix(typ, "Enum") && strings.HasSuffix(lastComponent(scope), "Union") &&
			m[1] == typ && strings.HasSuffix(m[2], "_"+strings.ToLower(typ)):
			return rec.Excuse(fUnionEnumRef, true)
		// F55: -compress_paths -package_hierarchy, top-level nodes of a second (third, ...) module
		// are put into package "<base>._" ("<base>.__", ...) but referenced as if they were in "<base>"
		case f.Compress && f.Hierarchy && !strings.Contains(typ, ".") && underscorePkgDefines(po, f, typ):
			return rec.Excuse(fRootPkgUnique, true)
		// F52: top-level list under the fake root: "<List> <list> = N;" inside <FakeRoot>.<List>Key
		case m != nil && f.FakeRoot && !strings.Contains(typ, ".") && lastComponent(scope) == typ+"Key" && m[1] == typ &&
			strings.HasSuffix(strings.TrimSuffix(scope, "."+typ+"Key"), yang.CamelCase(f.FakeRootName)):
			return rec.Excuse(fRootList, true)
		}
		// F44: plain field of type <CamelCase(leaf)>Enum where, per goyang, <leaf> is a leaf whose
		// type is a union with a single enumeration member (the field itself may be a leafref to it)
		sm := singletonEnumRE.FindStringSubmatch(line)
		if sm == nil || typ != sm[1] {
			return false
		}
		return rec.Excuse(fSingletonEnum, singletonEnumNames(src)[strings.TrimRight(sm[1], "_")])
	}
	return false
}

// ---------------------------------------------------------------------------------------------

var (
	pkgNames     = []string{"openconfig", "openconfig", "openconfig", "oc", "oc", "pkg_1", "verif.pb"}
	enumPkgNames = []string{"enums", "enums", "types"}
)

func drawProtoFlags(rt *rapid.T, oc bool) protoFlags {
	bit := func(label string, pct int) bool { return rapid.IntRange(0, 99).Draw(rt, "pflag-"+label) < pct }
	f := defaultProtoFlags()
	if oc {
		f.Compress = bit("compress", 65)
	}
	f.ExcludeState = bit("exclude_state", 12)
	f.PreferOper = f.Compress && !f.ExcludeState && bit("prefer_state", 30)
	f.FakeRoot = bit("fakeroot", 60)
	if f.FakeRoot {
		f.FakeRootName = rapid.SampledFrom([]string{"Device", "Device", "root", "device"}).Draw(rt, "pflag-fakeroot-name")
	}
	// the leaf-list annotation without the yext import (F41) needs add_schemapaths=false: keep
	// that region at a low weight so the search is not dominated by it
	f.SchemaPaths = !bit("noschemapaths", 12)
	f.EnumNames = !bit("noenumnames", 25)
	f.Hierarchy = bit("hierarchy", 40)
	f.SkipEnumDedup = bit("skip_dedup", 15)
	f.PackageName = rapid.SampledFrom(pkgNames).Draw(rt, "pflag-package")
	f.EnumPackage = rapid.SampledFrom(enumPkgNames).Draw(rt, "pflag-enum-package")
	if bit("baseimport", 35) {
		f.BaseImport = "example.com/verif/proto"
	}
	if bit("gopkgbase", 30) {
		f.GoPackageBase = "example.com/verif/gopb"
	}
	if bit("extpaths", 20) {
		f.YwrapperPath, f.YextPath = "third_party/ywrapper", "third_party/yext"
	}
	return f
}

// irrelevantFlip changes only options that must not influence field numbers.
func irrelevantFlip(rt *rapid.T, f protoFlags) protoFlags {
	g := f
	g.Hierarchy = !f.Hierarchy
	g.PackageName = rapid.SampledFrom([]string{"openconfig", "other.pkg", "p"}).Draw(rt, "flip-package")
	g.EnumPackage = rapid.SampledFrom([]string{"enums", "e2"}).Draw(rt, "flip-enum-package")
	g.EnumNames = !f.EnumNames
	if f.BaseImport == "" {
		g.BaseImport = "flip.example/x"
	} else {
		g.BaseImport = ""
	}
	return g
}

type c28Sample struct {
	Source   string   `json:"source"`
	Flags    string   `json:"flags"`
	Mutation string   `json:"mutation"`
	Stats    string   `json:"stats"`
	Excused  []string `json:"excused_known,omitempty"`
}

// c28Case runs the whole C28 oracle for one (schema, flags, mutation) case. fatal reports a
// violation with the complete case.
func c28Case(rec *ev.Rec, t testing.TB, root string, src schemaSrc, f protoFlags, key string,
	mutKind string, pickTarget func(n int) int, nodeName string, flip *protoFlags, repeat bool, classes []string, schemaText string,
	fatal func(format string, a ...interface{})) {

	describe := func(po *protoOut) string {
		s := fmt.Sprintf("schema: %s (%s)\n  roots: %v\n  include path: %s\ncommand: %s\n", src.Label, src.Kind, src.Roots, src.Dir, po.Cmd)
		if schemaText != "" {
			s += "YANG:\n" + indent(schemaText) + "\n"
		}
		return s
	}

	po, log, err := runProtoGen(t, root, src, f)
	classes = append(classes, "src:"+src.Kind)
	if err != nil {
		// the generator refused the input: nothing was emitted, so C28 says nothing about it
		rec.Case(key, false, append(classes, "gen-error", "gen-error:"+src.Kind)...)
		if src.Kind == "corpus" {
			fatal("proto_generator fails on the fixed corpus (which it handled at design time)\n%soutput:\n%s", describe(po), indent(tail(log, 3000)))
		}
		return
	}
	probs, st := checkWellFormed(po, f)
	nontrivial := st.MaxFields >= 5 || st.HasOneof
	classes = append(classes, "gen-ok")
	for c, on := range map[string]bool{"has-oneof": st.HasOneof, "has-nested": st.HasNested, "has-repeated": st.HasRepeated,
		"multi-file": st.Files > 1, "cross-file-import": st.HasImportsOwn, "has-enum": st.Enums > 0, "msg>=5fields": st.MaxFields >= 5,
		"flag:compress": f.Compress, "flag:hierarchy": f.Hierarchy, "flag:fakeroot": f.FakeRoot, "flag:no-schemapaths": !f.SchemaPaths,
		"flag:no-enumnames": !f.EnumNames, "flag:base-import": f.BaseImport != "", "flag:exclude-state": f.ExcludeState,
		"flag:prefer-state": f.PreferOper, "flag:custom-ext-paths": f.YextPath != defYext} {
		if on {
			classes = append(classes, c)
		}
	}
	var excusedList []string
	var real []problem
	for _, p := range probs {
		if p.Class == "unsupported" {
			fatal("HARNESS-BUG: the proto3-subset parser does not support a construct protogen emitted: %s\n%s%s", p.Msg, describe(po), dumpOutput(po, 6000))
			return
		}
		if excused(rec, src, f, po, p) {
			excusedList = append(excusedList, p.Class)
			continue
		}
		real = append(real, p)
	}
	if len(real) > 0 {
		var b strings.Builder
		for _, p := range real {
			fmt.Fprintf(&b, "  - %s\n", p)
		}
		rec.Case(key, nontrivial, append(classes, "violation")...)
		fatal("generated protobuf output is not well-formed:\n%s%s%s", b.String(), describe(po), dumpOutput(po, 12000))
		return
	}
	wellFormed := len(probs) == 0

	// stability across runs: the same command again, byte-identical tree (C25 owns determinism;
	// here it is the "stable across runs" clause for the numbers, checked on a third of the cases)
	if !repeat {
		goto mutation
	}
	{
		po2, log2, err := runProtoGen(t, root, src, f)
		if err != nil && didNotComplete(err, log2) {
			// killed, or over its time limit on a busy machine, without a word from the generator: the run
			// says nothing about the generator (seen once in a thorough sweep next to two other sweeps)
			rec.Case(key, nontrivial, append(classes, "second-run-did-not-complete")...)
			t.Errorf("INCONCLUSIVE: the second run of the generator did not complete (%v)\n%s", err, describe(po))
			goto mutation
		}
		if err != nil {
			rec.Case(key, nontrivial, append(classes, "violation")...)
			fatal("second run of the same command failed although the first succeeded (%v)\n%soutput:\n%s", err, describe(po), indent(tail(log2, 3000)))
			return
		}
		if d := diffRaw(po.Raw, po2.Raw); d != "" {
			rec.Case(key, nontrivial, append(classes, "violation")...)
			fatal("two runs of the same command differ: %s\n%s", d, describe(po))
			return
		}
		classes = append(classes, "repeat-run")
	}
mutation:

	// metamorphic: an unrelated node is added; every field present in both keeps its number
	mutDesc := "none"
	if mutKind != "none" && wellFormed {
		mdir := subdir(t, root, "mut")
		defer os.RemoveAll(mdir)
		var tgt *augTarget
		modName := "zz-c28-unrelated"
		if mutKind == "augment" {
			yi, err := loadYang(src.Dir, src.Roots)
			if err == nil {
				tg := yi.augmentTargets(yi.rootModuleNames(src.Roots))
				var ok []augTarget
				skippedWrappers := 0
				for _, x := range tg {
					if x.Children[nodeName] {
						continue
					}
					if f.Compress && x.ListWrapper {
						// a sibling next to the list would make the schema leave the documented
						// domain of path compression (the list is the sole child of its container)
						skippedWrappers++
						continue
					}
					ok = append(ok, x)
				}
				if skippedWrappers > 0 {
					rec.Add("augment_targets_skipped:list-wrapper-under-compress", int64(skippedWrappers))
				}
				if len(ok) > 0 {
					x := ok[pickTarget(len(ok))]
					tgt = &x
				}
			}
			if tgt == nil {
				mutKind = "module"
			}
		}
		text := unrelatedModule(modName, nodeName, tgt)
		mfile := filepath.Join(mdir, modName+".yang")
		if err := os.WriteFile(mfile, []byte(text), 0o644); err != nil {
			t.Fatalf("HARNESS-BUG: %v", err)
		}
		mutDesc = mutKind + ":" + nodeName
		if tgt != nil {
			mutDesc += "@" + tgt.String()
		}
		pm, _, err := runProtoGen(t, root, src, f, mfile)
		if err != nil {
			classes = append(classes, "mut-gen-error")
		} else {
			mprobs, _ := checkWellFormed(pm, f)
			mOK := true
			for _, p := range mprobs {
				if !excused(rec, src, f, pm, p) {
					mOK = false
				}
			}
			diffs, common := compareNumbers(po, pm)
			classes = append(classes, "mut:"+mutKind)
			if common == 0 {
				classes = append(classes, "mut-no-common-fields")
			}
			if len(diffs) > 0 {
				rec.Case(key, nontrivial, append(classes, "violation")...)
				fatal("field numbers changed after adding an unrelated node (%s):\n  %s\nadded module:\n%s\n%s", mutDesc, strings.Join(diffs, "\n  "), indent(text), describe(po))
				return
			}
			if !mOK {
				// the extended schema is a schema of its own: report it as such
				var b strings.Builder
				for _, p := range mprobs {
					fmt.Fprintf(&b, "  - %s\n", p)
				}
				rec.Case(key, nontrivial, append(classes, "violation")...)
				fatal("output for the schema extended by an unrelated node (%s) is not well-formed:\n%sadded module:\n%s\n%s%s", mutDesc, b.String(), indent(text), describe(pm), dumpOutput(pm, 12000))
				return
			}
		}
	}

	// metamorphic: options that have nothing to do with schema paths do not change numbers
	if flip != nil && wellFormed && f.SchemaPaths {
		pf, _, err := runProtoGen(t, root, src, *flip)
		if err != nil {
			classes = append(classes, "flip-gen-error")
		} else {
			checkWellFormed(pf, *flip) // parses the files
			// (schemapath, name) keys that are ambiguous inside one output are skipped: the
			// annotation omits the module name, so /interfaces/interface of two modules share it
			ta, ca := byPathTable(po)
			tb, cb := byPathTable(pf)
			var diffs []string
			for _, k := range sortedKeys(ta) {
				if ca[k] || cb[k] {
					continue
				}
				if y, ok := tb[k]; ok && y != ta[k] {
					diffs = append(diffs, fmt.Sprintf("%s: %d vs %d", k, ta[k], y))
				}
			}
			classes = append(classes, "flip")
			if len(diffs) > 0 {
				rec.Case(key, nontrivial, append(classes, "violation")...)
				fatal("field numbers depend on options unrelated to the schema path:\n  %s\nsecond command: %s\n%s", strings.Join(diffs, "\n  "), pf.Cmd, describe(po))
				return
			}
		}
	}
	if len(excusedList) > 0 {
		classes = append(classes, "excused-known")
	}
	rec.Case(key, nontrivial, classes...)
	if rec.WantSample() {
		rec.Sample(c28Sample{Source: src.Label, Flags: f.String(), Mutation: mutDesc,
			Stats: fmt.Sprintf("%+v", st), Excused: excusedList})
	}
}

func diffRaw(a, b map[string]string) string {
	for _, k := range sortedKeys(a) {
		if y, ok := b[k]; !ok {
			return "file " + k + " only in the first run"
		} else if y != a[k] {
			la, lb := strings.Split(a[k], "\n"), strings.Split(y, "\n")
			for i := 0; i < len(la) && i < len(lb); i++ {
				if la[i] != lb[i] {
					return fmt.Sprintf("file %s line %d:\n  run 1: %s\n  run 2: %s", k, i+1, la[i], lb[i])
				}
			}
			return "file " + k + " differs in length"
		}
	}
	for _, k := range sortedKeys(b) {
		if _, ok := a[k]; !ok {
			return "file " + k + " only in the second run"
		}
	}
	return ""
}

const c28Rule = "case = (YANG module set, proto_generator flag set, unrelated-node mutation, optional flip of path-irrelevant options); " +
	"module sets: fixed corpus, every YANG module shipped in the repo, random plain / OpenConfig-style / hostile-identifier schemas (yanggen), " +
	"adversarial sibling pairs with equal FNV tags; the output is parsed by the harness proto3 parser, checked for distinct names/numbers/ranges, " +
	"linked with protoc's scoping rules, validated by protodesc.NewFile, regenerated (byte-identical), regenerated after adding an unrelated node " +
	"and with path-irrelevant options flipped (numbers of common fields identical); non-trivial = some message has >= 5 fields or a oneof; " +
	"distinct = distinct (schema text, flags, mutation)"

// TestC28_Fixed runs every fixed schema (corpus and repo YANG) through a fixed flag matrix, so
// that they are covered in every run whatever the seed.
func TestC28_Fixed(t *testing.T) {
	rec := ev.Start(t, "C28")
	rec.Rule(c28Rule)
	registerC28Witnesses(rec, t)
	root := scratch(t, "c28fixed")
	d := defaultProtoFlags()
	mk := func(mod func(f *protoFlags)) protoFlags { f := d; mod(&f); return f }
	matrix := []protoFlags{
		d,
		mk(func(f *protoFlags) { f.FakeRoot = true; f.Hierarchy = true }),
		mk(func(f *protoFlags) { f.Compress = true; f.FakeRoot = true }),
		mk(func(f *protoFlags) {
			f.Compress, f.Hierarchy, f.PreferOper, f.BaseImport = true, true, true, "example.com/gen"
			f.YextPath, f.YwrapperPath = "ext", "wrap"
		}),
		mk(func(f *protoFlags) { f.SchemaPaths, f.EnumNames, f.ExcludeState = false, false, true }),
		mk(func(f *protoFlags) { f.EnumNames = false; f.SkipEnumDedup = true; f.PackageName = "verif.pb"; f.EnumPackage = "types"; f.GoPackageBase = "x/y" }),
	}
	srcs := append(corpusSources(), repoSources()...)
	okBySrc := map[string]int{}
	n := 0
	for si, s := range srcs {
		for i, f := range matrix {
			if f.Compress && !s.OC {
				continue
			}
			if !ev.Thorough() && s.Kind == "repo" {
				// quick tier: one flag set per repo module, rotating with the module index and
				// the seed (the thorough tier runs the full matrix)
				if (si+int(globalSeed()%3))%3 != 0 {
					continue // and only a seed-dependent third of the repo modules
				}
				usable := len(matrix)
				pick := (si/3 + int(globalSeed()%uint64(usable))) % usable
				if matrix[pick].Compress && !s.OC {
					pick = (pick + 3) % usable
					if matrix[pick].Compress {
						pick = 0
					}
				}
				if i != pick {
					continue
				}
			}
			n++
			if n%ev.Shards() != ev.Shard() {
				continue // the fixed matrix is split over the shards
			}
			mut := []string{"module", "augment", "none"}[(n+i)%3]
			name := []string{"aa0-unrelated", "m5-unrelated", "zz9-unrelated"}[n%3]
			key := fmt.Sprintf("fixed|%s|%s|%s|%s", s.Label, f.String(), mut, name)
			var flip *protoFlags
			if n%4 == 0 && f.SchemaPaths {
				g := f
				g.Hierarchy, g.PackageName, g.EnumNames = !f.Hierarchy, "flipped.pkg", !f.EnumNames
				flip = &g
			}
			failed := false
			c28Case(rec, t, root, s, f, key, mut, func(k int) int { return (n * 7) % k }, name, flip, n%3 == 0, []string{"fixed"}, "",
				func(format string, a ...interface{}) {
					failed = true
					msg := fmt.Sprintf(format, a...)
					rec.Violation(map[string]interface{}{"source": s.Label, "flags": f.String(), "mutation": mut, "message": tail(msg, 8000)})
					t.Errorf("C28 violated for %s with flags [%s]:\n%s", s.Label, f.String(), msg)
				})
			if !failed {
				okBySrc[s.Kind]++
			}
		}
	}
	if okBySrc["corpus"]*ev.Shards() < 8 || okBySrc["repo"]*ev.Shards() < ev.Scale(10, 60) {
		t.Errorf("INCONCLUSIVE: fixed schemas barely covered (ok cases by kind: %v)", okBySrc)
	}
}

// TestC28_Random quantifies over random schemas and random flag sets (and re-draws the fixed
// schemas with random flags).
func TestC28_Random(t *testing.T) {
	rec := ev.Start(t, "C28")
	rec.Rule(c28Rule)
	registerC28Witnesses(rec, t)
	root := scratch(t, "c28rand")
	corpus, repo := corpusSources(), repoSources()
	counts := map[string]int{}
	rapid.Check(t, func(rt *rapid.T) {
		kind := rapid.SampledFrom([]string{"corpus", "repo", "repo", "random-plain", "random-plain", "random-oc", "random-oc", "random-hostile", "random-hostile-oc"}).Draw(rt, "source-kind")
		var src schemaSrc
		var classes []string
		schemaText := ""
		switch kind {
		case "corpus":
			src = rapid.SampledFrom(corpus).Draw(rt, "corpus-set")
		case "repo":
			src = repo[rapid.IntRange(0, len(repo)-1).Draw(rt, "repo-set")]
		default:
			o := yanggen.Options{OpenConfigStyle: strings.HasSuffix(kind, "-oc"), Hostile: strings.Contains(kind, "hostile"), Small: rapid.IntRange(0, 2).Draw(rt, "small") == 0,
				Excluded: c28ExcludedClasses}
			s := yanggen.Draw(rt, o)
			dir := subdir(t, root, "yang")
			defer os.RemoveAll(dir)
			if err := s.WriteTo(dir); err != nil {
				t.Fatalf("HARNESS-BUG: %v", err)
			}
			src = schemaSrc{Label: "random:" + kind, Kind: "random", Dir: dir, OC: o.OpenConfigStyle}
			for _, r := range s.Roots {
				src.Roots = append(src.Roots, filepath.Join(dir, r))
			}
			schemaText = s.Key()
			classes = append(classes, kind)
			for _, c := range s.Classes() {
				if strings.HasPrefix(c, "collision:") {
					classes = append(classes, c)
				}
			}
			for c, n := range s.ExcludedDraws {
				rec.Add("yanggen_excluded_draws:"+c, int64(n))
			}
		}
		f := drawProtoFlags(rt, src.OC)
		mut := rapid.SampledFrom([]string{"augment", "augment", "module", "none"}).Draw(rt, "mutation")
		name := rapid.SampledFrom([]string{"aa0-unrelated", "m5-unrelated", "zz9-unrelated", "a", "unrelated.x_y"}).Draw(rt, "new-node-name")
		tsel := rapid.IntRange(0, 1<<20).Draw(rt, "augment-target")
		var flip *protoFlags
		if rapid.IntRange(0, 3).Draw(rt, "flip") == 0 {
			g := irrelevantFlip(rt, f)
			flip = &g
		}
		repeat := rapid.IntRange(0, 2).Draw(rt, "repeat-run") == 0
		key := strings.Join([]string{src.Label, schemaText, f.String(), mut, name, fmt.Sprint(tsel), fmt.Sprint(flip != nil)}, "|")
		counts[src.Kind]++
		c28Case(rec, t, root, src, f, key, mut, func(k int) int { return tsel % k }, name, flip, repeat, classes, schemaText, rt.Fatalf)
	})
	total := counts["corpus"] + counts["repo"] + counts["random"]
	if total >= 12 && !t.Failed() {
		if counts["random"] == 0 || counts["repo"] == 0 {
			t.Errorf("INCONCLUSIVE: generator health: source kinds drawn %v, need random and repo schemas", counts)
		}
	}
}

var _ = sort.Strings
