package t4

import (
	"fmt"
	"sort"
	"strings"
	"testing"

	"github.com/openconfig/ygot/ytypes"
	"pgregory.net/rapid"
	"verifharness/ev"
	"verifharness/model"
	"verifharness/th"
)

// C31: Unmarshal of RFC7951 JSON into a populated tree merges as documented.

// mergeStats records what the reference merge did (class labels, non-triviality).
type mergeStats struct {
	leafNew, leafSame, leafChanged int
	llReplaced, llNew, llEmptied   int
	sharedEntries, newEntries      int
	sharedEntryLeafDiffers         int
	untouchedLeaves                int
	ordNew, ulistNew               int
}

// mergeJSONInto is the reference semantics, transcribed from the property statement: every leaf
// mentioned in j is overwritten, every mentioned leaf-list is replaced wholesale, keyed list entries are
// merged by key (existing entries updated, new ones added), containers are merged member-wise, and
// nothing that j does not mention changes. Ordered-by-user and unkeyed lists are only mentioned where e
// holds none (soundness guards of DESIGN.md C31): they are then taken over as a whole.
func mergeJSONInto(e, j *model.Node, inShared bool, st *mergeStats) {
	for _, f := range e.SI.Fields {
		switch f.Kind {
		case model.FLeaf:
			jv, ok := j.Leaf[f.Name]
			if !ok {
				if _, have := e.Leaf[f.Name]; have {
					st.untouchedLeaves++
				}
				continue
			}
			ev, have := e.Leaf[f.Name]
			switch {
			case !have:
				st.leafNew++
			case ev.Equal(jv):
				st.leafSame++
			default:
				st.leafChanged++
			}
			if inShared && (!have || !ev.Equal(jv)) {
				st.sharedEntryLeafDiffers++
			}
			e.Leaf[f.Name] = jv
		case model.FLeafList:
			jl := j.LL[f.Name]
			if len(jl) == 0 && j.EmptyLL[f.Name] {
				// mentioned with no members: the leaf-list is replaced by nothing
				if len(e.LL[f.Name]) > 0 {
					st.llReplaced++
					st.llEmptied++
				}
				delete(e.LL, f.Name)
				continue
			}
			if len(jl) == 0 {
				continue
			}
			if len(e.LL[f.Name]) > 0 {
				st.llReplaced++
			} else {
				st.llNew++
			}
			e.LL[f.Name] = append([]model.Val(nil), jl...)
		case model.FCont:
			jc, ok := j.Cont[f.Name]
			if !ok {
				continue
			}
			ec, have := e.Cont[f.Name]
			if !have {
				ec = model.NewNode(f.Child)
				e.Cont[f.Name] = ec
			}
			mergeJSONInto(ec, jc, inShared, st)
		case model.FList:
			for _, je := range j.List[f.Name] {
				var hit *model.Entry
				for _, ee := range e.List[f.Name] {
					if model.KeyCanon(ee.Key) == model.KeyCanon(je.Key) {
						hit = ee
					}
				}
				if hit == nil {
					st.newEntries++
					e.List[f.Name] = append(e.List[f.Name], &model.Entry{Key: append([]model.Val(nil), je.Key...), N: je.N.Clone()})
					continue
				}
				st.sharedEntries++
				mergeJSONInto(hit.N, je.N, true, st)
			}
		case model.FOrdList:
			if l := j.List[f.Name]; len(l) > 0 {
				if len(e.List[f.Name]) > 0 {
					panic("HARNESS-BUG: C31 guard: ordered list populated in e is mentioned in j")
				}
				st.ordNew++
				for _, je := range l {
					e.List[f.Name] = append(e.List[f.Name], &model.Entry{Key: append([]model.Val(nil), je.Key...), N: je.N.Clone()})
				}
			}
		case model.FUList:
			if l := j.UList[f.Name]; len(l) > 0 {
				if len(e.UList[f.Name]) > 0 {
					panic("HARNESS-BUG: C31 guard: unkeyed list populated in e is mentioned in j")
				}
				st.ulistNew++
				for _, je := range l {
					e.UList[f.Name] = append(e.UList[f.Name], je.Clone())
				}
			}
		}
	}
}

// guardLists removes from j every ordered-by-user / unkeyed list that e holds populated at the same
// place (documented: such lists are always unmarshalled as a whole; unkeyed entries have no identity).
func guardLists(j, e *model.Node) (removed int) {
	for _, f := range j.SI.Fields {
		switch f.Kind {
		case model.FOrdList:
			if e != nil && len(e.List[f.Name]) > 0 && len(j.List[f.Name]) > 0 {
				delete(j.List, f.Name)
				removed++
			}
		case model.FUList:
			if e != nil && len(e.UList[f.Name]) > 0 && len(j.UList[f.Name]) > 0 {
				delete(j.UList, f.Name)
				removed++
			}
		case model.FCont:
			if jc, ok := j.Cont[f.Name]; ok {
				var ec *model.Node
				if e != nil {
					ec = e.Cont[f.Name]
				}
				removed += guardLists(jc, ec)
			}
		case model.FList:
			for _, je := range j.List[f.Name] {
				var en *model.Node
				if e != nil {
					for _, ee := range e.List[f.Name] {
						if model.KeyCanon(ee.Key) == model.KeyCanon(je.Key) {
							en = ee.N
						}
					}
				}
				removed += guardLists(je.N, en)
			}
		}
	}
	return removed
}

// F63: with wrapper unions a list whose key is a union is a Go map keyed by an interface that holds a
// pointer to the wrapper struct: two equal keys are different map keys, so Unmarshal adds a second
// entry instead of updating the existing one.
const F63 = "F63-wrapper-union-key-duplicate"

func unionKeyed(f *model.FieldInfo) bool {
	for _, kf := range f.KeyFields {
		if kf.ElemUnion {
			return true
		}
	}
	return false
}

// sharedUnionKeyEntries walks e and j in parallel and reports the union-keyed lists in which they share
// an entry. With drop set, the shared entries are removed from j; with strip set the whole lists are
// removed from both trees (to compare the rest).
func sharedUnionKeyEntries(e, j *model.Node, drop, strip bool) int {
	if e == nil || j == nil {
		return 0
	}
	n := 0
	for _, f := range j.SI.Fields {
		switch f.Kind {
		case model.FCont:
			n += sharedUnionKeyEntries(e.Cont[f.Name], j.Cont[f.Name], drop, strip)
		case model.FList:
			var keep []*model.Entry
			shared := 0
			for _, je := range j.List[f.Name] {
				var hit *model.Entry
				for _, ee := range e.List[f.Name] {
					if model.KeyCanon(ee.Key) == model.KeyCanon(je.Key) {
						hit = ee
					}
				}
				if hit != nil && unionKeyed(f) {
					shared++
					if drop {
						continue
					}
				}
				if hit != nil {
					n += sharedUnionKeyEntries(hit.N, je.N, drop, strip)
				}
				keep = append(keep, je)
			}
			n += shared
			if drop && shared > 0 {
				if len(keep) == 0 {
					delete(j.List, f.Name)
				} else {
					j.List[f.Name] = keep
				}
			}
			if strip && shared > 0 {
				delete(j.List, f.Name)
				delete(e.List, f.Name)
			}
		}
	}
	return n
}

// stripLists removes the list field named name (Go field) of struct type tn from the tree.
func stripUnionKeyedLists(n *model.Node) {
	if n == nil {
		return
	}
	for _, f := range n.SI.Fields {
		switch f.Kind {
		case model.FCont:
			stripUnionKeyedLists(n.Cont[f.Name])
		case model.FList, model.FOrdList:
			if f.Kind == model.FList && unionKeyed(f) {
				delete(n.List, f.Name)
				continue
			}
			for _, e := range n.List[f.Name] {
				stripUnionKeyedLists(e.N)
			}
		case model.FUList:
			for _, e := range n.UList[f.Name] {
				stripUnionKeyedLists(e)
			}
		}
	}
}

func witnessF63(rec *ev.Rec) {
	rec.Witness(F63, func() (bool, string) {
		v := getVariant("vtw")
		root := v.NewRoot()
		for _, d := range []string{`{"top":{"keyed":{"k-mixed":[{"k":"RED","v":"a"}]}}}`, `{"top":{"keyed":{"k-mixed":[{"k":"RED","v":"b"}]}}}`} {
			if err := v.Unmarshal([]byte(d), root); err != nil {
				return false, ""
			}
		}
		got := model.ObserveNorm(v, root)
		keyed := got.Cont["Top"].Cont["Keyed"]
		if n := len(keyed.List["KMixed"]); n != 1 {
			return true, fmt.Sprintf("vtw: unmarshalling k-mixed[k=RED] twice (v=a, then v=b) gives %d entries instead of one updated entry:\n%s", n, got.Dump())
		}
		return false, ""
	})
}

type c31gen struct {
	rt    *rapid.T
	v     *model.Variant
	avoid func(*model.FieldInfo, model.Val) bool
	n     int
}

func (g *c31gen) pct(label string) int {
	g.n++
	return rapid.IntRange(0, 99).Draw(g.rt, label)
}

func (g *c31gen) val(f *model.FieldInfo) model.Val {
	var v model.Val
	for tries := 0; tries < 5; tries++ {
		v = model.GenVal(g.rt, g.v, f.Type, model.GenOpts{}, f.Name)
		if g.avoid == nil || !g.avoid(f, v) {
			break
		}
	}
	return v
}

func (g *c31gen) ll(f *model.FieldInfo) []model.Val {
	n := rapid.IntRange(1, 3).Draw(g.rt, f.Name+"#")
	seen := map[string]bool{}
	var out []model.Val
	for i := 0; i < n; i++ {
		v := g.val(f)
		if seen[v.LooseCanon()] {
			continue
		}
		seen[v.LooseCanon()] = true
		out = append(out, v)
	}
	return out
}

// mutate turns a clone of the existing tree into the document tree: leaves dropped, kept or changed,
// leaf-lists dropped, kept or re-drawn, containers and entries dropped or descended into, new leaves and
// new entries added. Key leaves of kept entries stay. Ordered / unkeyed lists of e are never mentioned.
func (g *c31gen) mutate(n *model.Node, isEntry bool) {
	for _, f := range n.SI.Fields {
		switch f.Kind {
		case model.FLeaf:
			if isEntry && f.IsKey {
				continue
			}
			if _, set := n.Leaf[f.Name]; set {
				switch r := g.pct(f.Name); {
				case r < 35:
					delete(n.Leaf, f.Name)
				case r < 75:
					n.Leaf[f.Name] = g.val(f)
				}
			} else if g.pct(f.Name+"+") < 8 {
				n.Leaf[f.Name] = g.val(f)
			}
		case model.FLeafList:
			if len(n.LL[f.Name]) > 0 {
				switch r := g.pct(f.Name); {
				case r < 35:
					delete(n.LL, f.Name)
				case r < 80:
					n.LL[f.Name] = g.ll(f)
				case r < 90:
					// the document mentions the leaf-list as []
					delete(n.LL, f.Name)
					n.EmptyLL[f.Name] = true
				}
			} else if g.pct(f.Name+"+") < 8 {
				n.LL[f.Name] = g.ll(f)
			}
		case model.FCont:
			if c, ok := n.Cont[f.Name]; ok {
				if g.pct(f.Name) < 20 {
					delete(n.Cont, f.Name)
				} else {
					g.mutate(c, false)
				}
			}
		case model.FList:
			var keep []*model.Entry
			for _, e := range n.List[f.Name] {
				if g.pct(f.Name+".entry") < 25 {
					continue
				}
				g.mutate(e.N, true)
				keep = append(keep, e)
			}
			if g.pct(f.Name+"+") < 25 {
				key := make([]model.Val, len(f.KeyFields))
				for i, kf := range f.KeyFields {
					key[i] = g.val(kf)
				}
				dup := false
				for _, e := range keep {
					dup = dup || model.KeyCanon(e.Key) == model.KeyCanon(key)
				}
				for _, e := range n.List[f.Name] {
					dup = dup || model.KeyCanon(e.Key) == model.KeyCanon(key)
				}
				if !dup {
					ne := model.NewEntry(f, key)
					g.mutate(ne.N, true)
					keep = append(keep, ne)
				}
			}
			if len(keep) == 0 {
				delete(n.List, f.Name)
			} else {
				n.List[f.Name] = keep
			}
		case model.FOrdList:
			delete(n.List, f.Name)
		case model.FUList:
			delete(n.UList, f.Name)
		}
	}
}

// collectObjects lists every JSON object of a decoded document in a deterministic order.
func collectObjects(x interface{}, out *[]map[string]interface{}) {
	switch t := x.(type) {
	case map[string]interface{}:
		*out = append(*out, t)
		keys := make([]string, 0, len(t))
		for k := range t {
			keys = append(keys, k)
		}
		sort.Strings(keys)
		for _, k := range keys {
			collectObjects(t[k], out)
		}
	case []interface{}:
		for _, e := range t {
			collectObjects(e, out)
		}
	}
}

var unknownValues = []string{`1`, `"x"`, `true`, `null`, `{"a":1}`, `[1,2]`, `[{"k":"v"}]`, `{}`, `[null]`, `"9"`}

func TestC31(t *testing.T) {
	rec := ev.Start(t, "C31")
	rec.Rule("variant (all six) x existing tree e (generated, built into a GoStruct) x document tree j (75%: e mutated - leaves dropped/kept/changed/added, leaf-lists dropped/kept/re-drawn, containers and entries dropped or descended into, new entries; 25%: independent tree) " +
		"rendered by the harness's RFC 7951 renderer (member prefixes on/off, all path alternatives on/off) x 0-3 unknown members injected into objects at random depths x options (none | IgnoreExtraFields); " +
		"oracle: reference mergeJSONInto(e,j) on model trees (leaves overwritten, leaf-lists replaced wholesale, keyed entries merged by key, rest untouched); unknown members => error without the option, with it the result equals the merge without them; " +
		"non-trivial = e and j share a keyed list entry and a leaf inside it differs; distinct by variant+e+document+options")
	rec.Assume("guards (DESIGN.md C31): an ordered-by-user list populated in e is not mentioned in j (AppendIntoOrderedMap documents that such lists are unmarshalled as a whole); an unkeyed list populated in e is not mentioned in j (entries have no identity; ygot appends)")
	rec.Assume("after an error the tree may be partially modified: nothing is asserted about it")
	th.WitnessF28(rec)
	witnessF63(rec)
	var total, nontriv, unknownCases, llRepl, untouched, shared, changed, newEnt int64
	rapid.Check(t, func(rt *rapid.T) {
		v := th.PickVariant(rt, th.AllVariants...)
		g := &c31gen{rt: rt, v: v}
		o := model.GenOpts{Dense: rapid.IntRange(0, 1).Draw(rt, "dense") == 0}
		if v.Wrapper && rec.Active(th.F28) {
			o.Avoid = th.AvoidUnionBinary
			g.avoid = th.AvoidUnionBinary
		}
		e := model.GenTree(rt, v, o)
		var j *model.Node
		mode := "mutation"
		if rapid.IntRange(0, 3).Draw(rt, "mode") == 0 || e.IsEmpty(true) {
			mode = "independent"
			j = model.GenTree(rt, v, o)
		} else {
			j = e.Clone()
			g.mutate(j, false)
			j.NormalizeDoc()
		}
		guarded := guardLists(j, e)
		if v.Wrapper && rec.Active(F63) && rapid.IntRange(0, 9).Draw(rt, "avoidF63") < 8 {
			sharedUnionKeyEntries(e, j, true, false) // lower the weight of the open finding's trigger region
		}
		j.NormalizeDoc()

		jo := model.JSONOpts{Prefix: rapid.Bool().Draw(rt, "prefix"), AllAlts: rapid.Bool().Draw(rt, "allalts"), EmptyArrays: true}
		clean := model.RenderJSON(j, jo)
		docAny, err := decodeJSON(clean)
		if err != nil {
			rt.Fatalf("HARNESS-BUG: renderer produced invalid JSON: %v", err)
		}
		nUnknown := rapid.SampledFrom([]int{0, 0, 1, 1, 2, 3}).Draw(rt, "unknown")
		var injected []string
		if nUnknown > 0 {
			var objs []map[string]interface{}
			collectObjects(docAny, &objs)
			for i := 0; i < nUnknown; i++ {
				obj := objs[rapid.IntRange(0, len(objs)-1).Draw(rt, "where")]
				name := rapid.SampledFrom([]string{"zz-unknown", "zz-other", "vt:zz-unknown", "voc:zz-unknown", "nomodule:zz-unknown", "ZZ"}).Draw(rt, "uname")
				val, _ := decodeJSON([]byte(rapid.SampledFrom(unknownValues).Draw(rt, "uval")))
				obj[name] = val
				injected = append(injected, name)
			}
		}
		doc := encodeJSON(docAny)
		ignore := rapid.Bool().Draw(rt, "ignoreExtraFields")
		var opts []ytypes.UnmarshalOpt
		if ignore {
			opts = append(opts, &ytypes.IgnoreExtraFields{})
		}

		want := e.Clone()
		var st mergeStats
		mergeJSONInto(want, j, false, &st)
		want.Normalize()

		// one tree in four is built the way a caller who reuses values builds it: equal scalar leaves of one
		// Go type share a single variable; the library must not write through such a pointer
		root := model.Build(e)
		if rapid.IntRange(0, 3).Draw(rt, "sharedleaves") == 0 {
			root = model.BuildShared(e)
		}
		uerr, panicked := safeCall(func() error { return v.Unmarshal(doc, root, opts...) })

		nt := st.sharedEntryLeafDiffers > 0
		cl := []string{"variant:" + v.Name, "mode:" + mode, fmt.Sprintf("ignoreExtraFields:%v", ignore), fmt.Sprintf("unknown-members:%d", len(injected)),
			fmt.Sprintf("render:prefix=%v,allalts=%v", jo.Prefix, jo.AllAlts)}
		add := func(c bool, s string) {
			if c {
				cl = append(cl, s)
			}
		}
		add(st.sharedEntries > 0, "merge:shared-entry")
		add(st.sharedEntryLeafDiffers > 0, "merge:shared-entry-leaf-differs")
		add(st.newEntries > 0, "merge:new-entry")
		add(st.leafChanged > 0, "merge:leaf-overwritten")
		add(st.leafNew > 0, "merge:leaf-added")
		add(st.llReplaced > 0, "merge:leaf-list-replaced")
		add(st.llEmptied > 0, "merge:leaf-list-emptied")
		add(st.llNew > 0, "merge:leaf-list-added")
		add(st.untouchedLeaves > 0, "merge:untouched-leaves")
		add(st.ordNew > 0, "merge:ordered-list-into-empty")
		add(st.ulistNew > 0, "merge:unkeyed-list-into-empty")
		add(guarded > 0, "guard:ordered-or-unkeyed-list-dropped-from-j")
		add(e.IsEmpty(true), "e:empty")
		add(j.IsEmpty(true), "j:empty")
		add(panicked, "ygot:panic")
		add(uerr != nil, "ygot:error")
		rec.Case(fmt.Sprintf("%s|%v|%s|%s", v.Name, ignore, doc, e.Dump()), nt, cl...)
		if rec.WantSample() {
			rec.Sample(map[string]string{"variant": v.Name, "existing": th.Trunc(e.Dump(), 800), "document": th.Trunc(string(doc), 800), "ignoreExtraFields": fmt.Sprint(ignore), "error": fmt.Sprint(uerr)})
		}
		total++
		if nt {
			nontriv++
		}
		if len(injected) > 0 {
			unknownCases++
		}
		if st.llReplaced > 0 {
			llRepl++
		}
		if st.untouchedLeaves > 0 {
			untouched++
		}
		if st.sharedEntries > 0 {
			shared++
		}
		if st.leafChanged > 0 {
			changed++
		}
		if st.newEntries > 0 {
			newEnt++
		}

		desc := func() string {
			return fmt.Sprintf("variant %s, IgnoreExtraFields=%v, mode %s, unknown members %v\ndocument: %s\nexisting tree e:\n%sdocument tree j:\n%s", v.Name, ignore, mode, injected, doc, e.Dump(), j.Dump())
		}
		if panicked {
			rt.Fatalf("Unmarshal panicked: %v\n%s", uerr, desc())
		}
		if len(injected) > 0 && !ignore {
			if uerr == nil {
				rt.Fatalf("document has unknown members %v and IgnoreExtraFields is not set, but Unmarshal returned nil\n%s", injected, desc())
			}
			return // tree may be partially modified: nothing stated
		}
		if uerr != nil {
			if rec.Excuse(th.F28, th.IsF28(v, j, uerr)) {
				return
			}
			rt.Fatalf("Unmarshal into the populated tree failed: %v\n%s", uerr, desc())
		}
		got := model.ObserveNorm(v, root)
		if d := model.Diff(want, got, model.DiffOpts{}); len(d) > 0 && v.Wrapper && rec.Excuse(F63, sharedUnionKeyEntries(e, j, false, false) > 0) {
			// compare everything but the union-keyed lists
			stripUnionKeyedLists(want)
			stripUnionKeyedLists(got)
			want.Normalize()
			got.Normalize()
		}
		if d := model.Diff(want, got, model.DiffOpts{}); len(d) > 0 {
			rt.Fatalf("tree after Unmarshal differs from mergeJSONInto(e, j) (a = reference, b = ygot):\n  %s\n%s\nwant:\n%s", strings.Join(d, "\n  "), desc(), want.Dump())
		}
	})
	if total >= 300 && !t.Failed() {
		bad := func(f string, a ...interface{}) { t.Errorf("INCONCLUSIVE: C31 generator health: "+f, a...) }
		if pct(nontriv, total) < 12 {
			bad("only %d of %d cases share a list entry with a differing leaf", nontriv, total)
		}
		if pct(unknownCases, total) < 25 {
			bad("only %d of %d documents carry unknown members", unknownCases, total)
		}
		if pct(llRepl, total) < 8 {
			bad("only %d of %d cases replace a populated leaf-list", llRepl, total)
		}
		if pct(untouched, total) < 30 {
			bad("only %d of %d cases leave leaves of e unmentioned", untouched, total)
		}
		if pct(changed, total) < 20 {
			bad("only %d of %d cases overwrite a leaf with a different value", changed, total)
		}
		if pct(newEnt, total) < 8 {
			bad("only %d of %d cases add a new list entry", newEnt, total)
		}
	}
}
