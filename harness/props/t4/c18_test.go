package t4

import (
	"encoding/json"
	"fmt"
	"math/big"
	"os"
	"regexp"
	"strings"
	"testing"

	gpb "github.com/openconfig/gnmi/proto/gnmi"
	"github.com/openconfig/ygot/ygot"
	"github.com/openconfig/ygot/ytypes"
	"google.golang.org/protobuf/encoding/prototext"
	"google.golang.org/protobuf/proto"
	"pgregory.net/rapid"
	"verifharness/ev"
	"verifharness/model"
	"verifharness/th"
)

// Findings met by C18.
const (
	F5       = "F5-fraction-truncated"
	F6NonFin = "F6-decimal-nonfinite"
	F6Hex    = "F6-decimal-hexfloat"
	F6Under  = "F6-decimal-underscore"
	F14      = "F14-decimal-exponent"
	F60      = "F60-enum-prefix-stripped"
	F61      = "F61-gnmi-decimal-nonfinite"
	F62      = "F62-base64-newline"
)

var (
	nonFiniteRe = regexp.MustCompile(`^[+-]?(?i:inf|infinity|nan)$`)
	hexFloatRe  = regexp.MustCompile(`^[+-]?0[xX][0-9a-fA-F_.]*[pP][+-]?[0-9_]+$`)
	underRe     = regexp.MustCompile(`^[+-]?[0-9][0-9_.eE+-]*$`)
)

const c18Rule = "(a) JSON: variant (vtu|vtw) x leaf site (every leaf / leaf-list / list key of the vt corpus, drawn by type class) x JSON scalar from a grammar " +
	"(integers small/boundary/out-of-range/huge, fractions, exponents, negative zero, numbers as strings, odd numeric strings (+5, spaces, hex, underscore, leading zeros, Inf, NaN, hex floats), " +
	"booleans, null, [null], [], arrays, objects, good and bad base64, enum / identity names bare, prefixed, wrongly prefixed, unknown) wrapped in the minimal document, generated Unmarshal into an empty root; " +
	"(b) TypedValue: leaf site x TypedValue of every kind and magnitude (int, uint, double, float, string, bool, bytes, leaflist, json_ietf, json, decimal, any, ascii, proto_bytes) via ytypes.SetNode with InitMissingElements, with and without TolerateJSONInconsistencies. " +
	"Oracle (one-directional): if ygot accepts, the input is not in the statement's must-reject set, the observed tree holds exactly the denoted value (own decoder written from RFC 7951 6 / RFC 7950 9 / gNMI 2.3.1), and Marshal7951 of the result decodes (strict harness decoder) to the same value. " +
	"Non-trivial = input within 2 of a bound of the target type or of the wrong JSON / TypedValue kind or lexically malformed for the right kind; distinct by variant+site+input"

// nearBound reports whether decimal text s (an integer, possibly with fraction/exponent) lies within 2 of a bound of lt.
func nearBound(lt *model.LType, s string) bool {
	r, ok := new(big.Rat).SetString(s)
	if !ok {
		return false
	}
	for _, b := range typeBounds(lt) {
		d := new(big.Rat).Sub(r, new(big.Rat).SetInt(b))
		if d.Abs(d).Cmp(big.NewRat(2, 1)) <= 0 {
			return true
		}
	}
	return false
}

var numTextRe = regexp.MustCompile(`^[+-]?[0-9]+(\.[0-9]+)?([eE][+-]?[0-9]{1,3})?$`)

func rawNearBound(lt *model.LType, raw interface{}) bool {
	switch x := raw.(type) {
	case json.Number:
		return nearBound(lt, x.String())
	case string:
		if numTextRe.MatchString(x) {
			return nearBound(lt, strings.TrimPrefix(x, "+"))
		}
	case []interface{}:
		for _, e := range x {
			if rawNearBound(lt, e) {
				return true
			}
		}
	}
	return false
}

// normNegZero replaces -0.0 by 0 in decimal values: decimal64 has one zero.
func normNegZero(n *model.Node) {
	if n == nil {
		return
	}
	fix := func(v model.Val) model.Val {
		if v.K == model.KDec && v.F == 0 {
			v.F = 0
		}
		return v
	}
	for k, v := range n.Leaf {
		n.Leaf[k] = fix(v)
	}
	for _, l := range n.LL {
		for i := range l {
			l[i] = fix(l[i])
		}
	}
	for _, c := range n.Cont {
		normNegZero(c)
	}
	for _, l := range n.List {
		for _, e := range l {
			for i := range e.Key {
				e.Key[i] = fix(e.Key[i])
			}
			normNegZero(e.N)
		}
	}
	for _, l := range n.UList {
		for _, e := range l {
			normNegZero(e)
		}
	}
}

// elemVerdict is the verdict for a whole leaf or leaf-list input.
type inputVerdict struct {
	k     vkind
	leaf  model.Val
	ll    []model.Val
	why   string
	restr bool
	elems []verdict // per element (leaf: one)
}

func combineLL(vs []verdict) inputVerdict {
	out := inputVerdict{k: vDenotes, elems: vs}
	for _, v := range vs {
		switch v.k {
		case vMustReject:
			return inputVerdict{k: vMustReject, why: v.why, elems: vs}
		}
	}
	for _, v := range vs {
		switch v.k {
		case vOpen:
			return inputVerdict{k: vOpen, why: v.why, elems: vs}
		case vDenotes:
			out.ll = append(out.ll, v.val)
			out.restr = out.restr || v.restr
			if out.why == "" {
				out.why = v.why
			}
		}
	}
	return out
}

// verdictJSON classifies the decoded JSON value for the site.
func verdictJSON(s *site, raw interface{}) inputVerdict {
	if s.f.Kind == model.FLeaf {
		v := denoteJSON(s.f.Type, raw)
		return inputVerdict{k: v.k, leaf: v.val, why: v.why, restr: v.restr, elems: []verdict{v}}
	}
	if raw == nil {
		return inputVerdict{k: vAbsent, why: "null"}
	}
	arr, ok := raw.([]interface{})
	if !ok {
		return inputVerdict{k: vMustReject, why: "JSON value of the wrong kind"}
	}
	var vs []verdict
	for _, e := range arr {
		vs = append(vs, denoteJSON(s.f.Type, e))
	}
	return combineLL(vs)
}

// hasIntMember: lt is, or has a union member that is, an integer type encoded as a JSON number.
func hasSmallInt(lt *model.LType) bool {
	if lt.IsUnion() {
		for _, m := range lt.Members {
			if hasSmallInt(m) {
				return true
			}
		}
		return false
	}
	k := lt.VKind()
	return (k.Signed() || k.Unsigned()) && k.Bits() < 64
}

func hasKind(lt *model.LType, k model.Kind) bool {
	if lt.IsUnion() {
		for _, m := range lt.Members {
			if hasKind(m, k) {
				return true
			}
		}
		return false
	}
	return lt.VKind() == k
}

func hasEnum(lt *model.LType) bool { return hasKind(lt, model.KEnum) }

// anyRaw applies pred to the raw value or, for arrays (leaf-lists), to some element.
func anyRaw(raw interface{}, pred func(interface{}) bool) bool {
	if a, ok := raw.([]interface{}); ok {
		for _, e := range a {
			if pred(e) {
				return true
			}
		}
		return false
	}
	return pred(raw)
}

func isFractional(x interface{}) bool {
	n, ok := x.(json.Number)
	if !ok {
		return false
	}
	r, ok := new(big.Rat).SetString(n.String())
	return ok && !r.IsInt()
}

func strMatches(re *regexp.Regexp) func(interface{}) bool {
	return func(x interface{}) bool {
		s, ok := x.(string)
		return ok && re.MatchString(s)
	}
}

// prefixStripped: a string with exactly one colon whose part after the colon is a member name.
func prefixStripped(lt *model.LType) func(interface{}) bool {
	names, _ := enumNames(lt)
	return func(x interface{}) bool {
		s, ok := x.(string)
		if !ok || strings.Count(s, ":") != 1 {
			return false
		}
		_, n := stripMod(s)
		for _, m := range names {
			if m == n {
				return true
			}
		}
		return false
	}
}

func b64Newline(x interface{}) bool {
	s, ok := x.(string)
	return ok && strings.ContainsAny(s, "\r\n") && b64Re.MatchString(strings.NewReplacer("\r", "", "\n", "").Replace(s))
}

// knownJSON says whether an acceptance of a must-reject JSON input is one of the open findings.
func knownJSON(rec *ev.Rec, lt *model.LType, raw interface{}) bool {
	switch {
	case rec.Excuse(F5, hasSmallInt(lt) && anyRaw(raw, isFractional)):
	case rec.Excuse(F6NonFin, hasKind(lt, model.KDec) && anyRaw(raw, strMatches(nonFiniteRe))):
	case rec.Excuse(F6Hex, hasKind(lt, model.KDec) && anyRaw(raw, strMatches(hexFloatRe))):
	case rec.Excuse(F6Under, hasKind(lt, model.KDec) && anyRaw(raw, func(x interface{}) bool {
		s, ok := x.(string)
		return ok && strings.Contains(s, "_") && underRe.MatchString(s)
	})):
	case rec.Excuse(F60, hasEnum(lt) && anyRaw(raw, prefixStripped(lt))):
	case rec.Excuse(F62, hasKind(lt, model.KBin) && anyRaw(raw, b64Newline)):
	default:
		return false
	}
	return true
}

func safeCall(f func() error) (err error, panicked bool) {
	defer func() {
		if p := recover(); p != nil {
			err, panicked = fmt.Errorf("panic: %v", p), true
		}
	}()
	return f(), false
}

// checkAccepted verifies postconditions (2) and (3) for an accepted input.
// fails returns "" or a description of the failure.
func checkStored(rec *ev.Rec, s *site, keys [][]model.Val, iv inputVerdict, root ygot.GoStruct) string {
	var keyVal *model.Val
	if s.keyTarget() {
		if iv.k != vDenotes {
			return "" // an entry whose key leaf is absent: nothing this property states
		}
		kv := iv.leaf
		keyVal = &kv
	}
	want, owner := expectTree(s, keys, keyVal)
	if iv.k == vDenotes {
		if s.f.Kind == model.FLeaf {
			owner.Leaf[s.f.Name] = iv.leaf
		} else if len(iv.ll) > 0 {
			owner.LL[s.f.Name] = iv.ll
		}
	}
	want.Normalize()
	normNegZero(want)
	got := model.ObserveNorm(s.v, root)
	normNegZero(got)
	// union members reached through a tolerated TypedValue kind: any of the alternatives is fine
	if gown := findOwner(got, s); gown != nil && iv.k == vDenotes {
		if s.f.Kind == model.FLeaf {
			if g, ok := gown.Leaf[s.f.Name]; ok && len(iv.elems) == 1 {
				for _, a := range iv.elems[0].alts {
					if g.Equal(a) {
						owner.Leaf[s.f.Name], iv.leaf = a, a
					}
				}
			}
		} else if g := gown.LL[s.f.Name]; len(g) == len(iv.ll) && len(g) > 0 {
			idx := 0
			for _, e := range iv.elems {
				if e.k != vDenotes {
					continue
				}
				for _, a := range e.alts {
					if g[idx].Equal(a) {
						iv.ll[idx] = a
					}
				}
				idx++
			}
			owner.LL[s.f.Name] = iv.ll
		}
	}
	if d := model.Diff(want, got, model.DiffOpts{}); len(d) > 0 {
		return "stored tree differs from the denoted value:\n  " + th.JoinDiff(d) + "\nwant:\n" + want.Dump() + "got:\n" + got.Dump()
	}
	// (3) re-render
	out, err := ygot.Marshal7951(root)
	if err != nil {
		return fmt.Sprintf("accepted value cannot be re-rendered: Marshal7951: %v\nstored:\n%s", err, got.Dump())
	}
	strict := iv.k != vDenotes || !iv.restr
	union := s.f.Type.IsUnion()
	if strict {
		back, err := model.ParseJSON(s.v.Root, out)
		switch {
		case err == nil && !union:
			back.Normalize()
			normNegZero(back)
			if d := model.Diff(want, back, model.DiffOpts{}); len(d) > 0 {
				return "re-rendered document decodes to a different value:\n  " + th.JoinDiff(d) + "\nre-rendered: " + string(out)
			}
			return ""
		case err == nil:
			// union: the Go value may sit in a member that is not the first one accepting its lexical form
			// (uint_val 0 stored as uint32 in union{int8,uint32} renders as 0, which decodes as int8 0): in
			// YANG these are one value; compare by lexical form below
		default:
			// strict decoder refuses ygot's rendering: lexical conformance of the output is C19's subject
			// (F14: exponent form); here the value must still be the same
			inF14 := want.AnyVal(func(_ *model.FieldInfo, v model.Val) bool { return f14Exp(v) })
			if !rec.Excuse(F14, inF14) {
				return fmt.Sprintf("strict decoder rejects the re-rendered document: %v\nre-rendered: %s", err, out)
			}
		}
	}
	// relaxed comparison of the one value (restriction-violating values, or F14 excused)
	doc, err := decodeJSON(out)
	if err != nil {
		return fmt.Sprintf("re-rendered document is not JSON: %v: %s", err, out)
	}
	rraw, ok := lookupRaw(doc, s)
	if iv.k != vDenotes || (s.f.Kind == model.FLeafList && len(iv.ll) == 0) {
		if ok {
			return fmt.Sprintf("re-rendered document mentions the leaf although nothing was stored: %s", out)
		}
		return ""
	}
	if !ok {
		return fmt.Sprintf("re-rendered document lacks the leaf: %s", out)
	}
	rv := verdictJSON(s, rraw)
	if rv.k != vDenotes {
		return fmt.Sprintf("re-rendered value %v does not denote a value of the type (%s): %s", rraw, rv.why, out)
	}
	same := false
	if s.f.Kind == model.FLeaf {
		same = sameVal(rv.leaf, iv.leaf, union)
	} else if len(rv.ll) == len(iv.ll) {
		same = true
		for i := range rv.ll {
			same = same && sameVal(rv.ll[i], iv.ll[i], union)
		}
	}
	if !same {
		return fmt.Sprintf("re-rendered value %v denotes %v %v, stored %v %v: %s", rraw, rv.leaf, rv.ll, iv.leaf, iv.ll, out)
	}
	return ""
}

// findOwner walks the chain of the site through the first entry of every list.
func findOwner(n *model.Node, s *site) *model.Node {
	cur := n
	for _, c := range s.chain {
		if cur == nil {
			return nil
		}
		switch c.Kind {
		case model.FCont:
			cur = cur.Cont[c.Name]
		case model.FUList:
			if len(cur.UList[c.Name]) != 1 {
				return nil
			}
			cur = cur.UList[c.Name][0]
		default:
			if len(cur.List[c.Name]) != 1 {
				return nil
			}
			cur = cur.List[c.Name][0].N
		}
	}
	return cur
}

func sameVal(a, b model.Val, union bool) bool {
	if a.K == model.KDec && b.K == model.KDec {
		return a.F == b.F
	}
	if union && a.K != b.K {
		// one YANG value held by different union members: same canonical lexical form
		return a.K != model.KBin && b.K != model.KBin && a.Lexical() == b.Lexical()
	}
	return a.Equal(b)
}

// f14Exp: the decimal value is printed with an exponent by Go's %v (|v| < 1e-4 or >= 1e21, or
// shortest digits with exponent >= 21): the trigger region of F14.
func f14Exp(v model.Val) bool {
	if v.K != model.KDec || v.F == 0 {
		return false
	}
	a := v.F
	if a < 0 {
		a = -a
	}
	return a < 1e-4 || a >= 1e6
}

func isAvoidKey(v model.Val) bool { return f14Exp(v) || v.K == model.KBin }

func TestC18_JSON(t *testing.T) {
	rec := ev.Start(t, "C18")
	rec.Rule(c18Rule)
	c18Assumptions(rec)
	c18Witnesses(rec)
	var cnt struct{ total, accepted, rejected, mustReject, mustRejectRejected, denotes, denotesAccepted, nontrivial, open int64 }
	types := map[string]int64{}
	inputs := map[string]int64{}
	rapid.Check(t, func(rt *rapid.T) {
		v := th.PickVariant(rt, "vtu", "vtw", "vtu2")
		s := drawSite(rt, v, nil)
		keys := drawKeys(rt, s, isAvoidKey)
		var in jin
		if s.f.Kind == model.FLeafList {
			in = genJSONLeafList(rt, s.f.Type)
		} else {
			in = genJSONScalar(rt, s.f.Type)
		}
		raw, err := decodeJSON([]byte(in.raw))
		if err != nil {
			rt.Fatalf("HARNESS-BUG: grammar produced invalid JSON %q: %v", in.raw, err)
		}
		doc := wrapDoc(s, keys, in.raw)
		if _, err := decodeJSON([]byte(doc)); err != nil {
			rt.Fatalf("HARNESS-BUG: wrapper produced invalid JSON %q: %v", doc, err)
		}
		iv := verdictJSON(s, raw)

		root := v.NewRoot()
		uerr, panicked := safeCall(func() error { return v.Unmarshal([]byte(doc), root) })

		wrongKind := iv.k == vMustReject && iv.why == "JSON value of the wrong kind"
		malformed := iv.k == vMustReject && !wrongKind
		nt := wrongKind || malformed || rawNearBound(s.f.Type, raw)
		outcome := "rejected"
		if uerr == nil {
			outcome = "accepted"
		}
		vclass := map[vkind]string{vOpen: "open", vDenotes: "denotes", vMustReject: "must-reject", vAbsent: "null-absent"}[iv.k]
		cl := []string{"mode:json", "variant:" + v.Name, "type:" + s.class, "input:" + in.class, "json-kind:" + jsonKind(raw), "oracle:" + vclass, "ygot:" + outcome,
			"oracle:" + vclass + "/ygot:" + outcome}
		if iv.k == vMustReject {
			cl = append(cl, "must-reject:"+iv.why)
		}
		if iv.k == vDenotes && iv.restr {
			cl = append(cl, "denotes:restriction-violating")
		}
		if panicked {
			cl = append(cl, "ygot:panic")
			rec.Set("panic-example-json", doc+" -> "+uerr.Error())
		}
		rec.Case("json|"+v.Name+"|"+s.String()+"|"+doc, nt, cl...)
		if rec.WantSample() {
			rec.Sample(map[string]string{"mode": "json", "variant": v.Name, "leaf": s.String(), "type": s.f.Type.TypeName(), "document": doc,
				"oracle": vclass + " " + iv.why, "ygot": fmt.Sprint(uerr)})
		}
		if os.Getenv("T4_DEBUG") != "" && ((iv.k == vDenotes && uerr != nil) || iv.k == vOpen || (iv.k == vAbsent)) {
			fmt.Printf("DBG json %s %s %s | %s | ygot: %v\n", vclass, iv.why, s.f.Type.TypeName(), doc, uerr)
		}
		cnt.total++
		types[s.class]++
		inputs[in.class]++
		if nt {
			cnt.nontrivial++
		}
		switch iv.k {
		case vMustReject:
			cnt.mustReject++
			if uerr != nil {
				cnt.mustRejectRejected++
			}
		case vDenotes:
			cnt.denotes++
			if uerr == nil {
				cnt.denotesAccepted++
			}
		case vOpen:
			cnt.open++
		}
		if uerr != nil {
			cnt.rejected++
			return // one-directional: a rejection is never a C18 violation
		}
		cnt.accepted++
		desc := func() string {
			return fmt.Sprintf("variant %s, leaf %s (type %s), input %s (class %s)\ndocument: %s", v.Name, s, s.f.Type.TypeName(), in.raw, in.class, doc)
		}
		switch iv.k {
		case vMustReject:
			if knownJSON(rec, s.f.Type, raw) {
				return
			}
			rt.Fatalf("Unmarshal ACCEPTED an input that must be rejected (%s)\n%s\nstored:\n%s", iv.why, desc(), model.ObserveNorm(v, root).Dump())
		case vOpen:
			return
		}
		if msg := checkStored(rec, s, keys, iv, root); msg != "" {
			rt.Fatalf("Unmarshal accepted the input (oracle: %s, %s) but %s\n%s", vclass, iv.why, msg, desc())
		}
	})
	c18Health(t, "json", cnt.total, cnt.accepted, cnt.rejected, cnt.mustReject, cnt.mustRejectRejected, cnt.denotes, cnt.denotesAccepted, cnt.nontrivial)
	if cnt.total >= 1000 {
		for _, c := range sitesOf(getVariant("vtu")).classes {
			if types[c] == 0 {
				t.Errorf("INCONCLUSIVE: C18 (json) never drew a leaf of type class %q in %d cases", c, cnt.total)
			}
		}
		for _, c := range []string{"number:fraction", "number:exponent", "number:negative-zero", "number:int-boundary", "odd-numeric-string", "boolean", "null", "[null]", "array-or-object",
			"base64-bad", "base64-valid", "unknown-name", "wrong-module-prefix", "identity-module-prefixed", "enum-name", "numeric-string:int-boundary"} {
			if inputs[c] < 3 {
				t.Errorf("INCONCLUSIVE: C18 (json) input class %q occurred only %d times in %d cases", c, inputs[c], cnt.total)
			}
		}
	}
}

func c18Health(t *testing.T, mode string, total, accepted, rejected, mustReject, mustRejectRejected, denotes, denotesAccepted, nontrivial int64) {
	if total < 200 || t.Failed() {
		return
	}
	bad := func(f string, a ...interface{}) {
		t.Errorf("INCONCLUSIVE: C18 (%s) generator health: "+f, append([]interface{}{mode}, a...)...)
	}
	if pct(accepted, total) < 8 {
		bad("ygot accepted only %d of %d inputs", accepted, total)
	}
	if pct(rejected, total) < 15 {
		bad("ygot rejected only %d of %d inputs", rejected, total)
	}
	if pct(mustReject, total) < 20 {
		bad("only %d of %d inputs are in the must-reject set", mustReject, total)
	}
	if pct(denotes, total) < 8 {
		bad("only %d of %d inputs denote a value", denotes, total)
	}
	if denotes > 0 && pct(denotesAccepted, denotes) < 30 {
		bad("ygot accepted only %d of the %d inputs that denote a value (the stored-value check is nearly idle)", denotesAccepted, denotes)
	}
	if pct(nontrivial, total) < 30 {
		bad("only %d of %d cases are non-trivial", nontrivial, total)
	}
}

func c18Assumptions(rec *ev.Rec) {
	rec.Assume("value space = the built-in type's: range/length/pattern/fraction-digits restrictions are checked by Validate (C06/C07), SetNode and Unmarshal document that they do not check them; an input that only violates a restriction denotes its value")
	rec.Assume("JSON null for a leaf (and null elements of a leaf-list) is 'member absent': pinned by ygot's unit tests (leaf_test.go 'nil value'); checked: nothing is stored")
	rec.Assume("RFC 7950 9.2.1/9.3.1 lexical forms with '+' sign and leading zeros denote their value; exponent-form decimal strings may be accepted (DESIGN.md C18); '.5' and '5.' are in neither set")
	rec.Assume("bare identity names are accepted (ygot's documented default output form); base64 with non-zero pad bits may be accepted (RFC 4648 3.5)")
	rec.Assume("TypedValue: int_val>=0 for an unsigned leaf is the documented TolerateJSONInconsistencies tolerance (ygot only accepts it with the option); float_val/decimal_val are deprecated gNMI encodings of decimal64 and denote their value")
}

// tvText renders a TypedValue for messages.
func tvText(tv *gpb.TypedValue) string {
	return prototext.MarshalOptions{Multiline: false}.Format(tv)
}

// verdictTV classifies a TypedValue for the site.
func verdictTV(s *site, tv *gpb.TypedValue) inputVerdict {
	if j, ok := tv.GetValue().(*gpb.TypedValue_JsonIetfVal); ok {
		raw, err := decodeJSON(j.JsonIetfVal)
		if err != nil {
			return inputVerdict{k: vMustReject, why: "json_ietf_val is not JSON"}
		}
		return verdictJSON(s, raw)
	}
	if _, ok := tv.GetValue().(*gpb.TypedValue_JsonVal); ok {
		return inputVerdict{k: vOpen, why: "json_val (deprecated, ygot documents that it refuses it)"}
	}
	if s.f.Kind == model.FLeaf {
		if _, ok := tv.GetValue().(*gpb.TypedValue_LeaflistVal); ok {
			return inputVerdict{k: vMustReject, why: "wrong TypedValue kind"}
		}
		v := denoteTV(s.f.Type, tv)
		return inputVerdict{k: v.k, leaf: v.val, why: v.why, restr: v.restr, elems: []verdict{v}}
	}
	ll, ok := tv.GetValue().(*gpb.TypedValue_LeaflistVal)
	if !ok {
		return inputVerdict{k: vMustReject, why: "wrong TypedValue kind"}
	}
	var vs []verdict
	for _, e := range ll.LeaflistVal.GetElement() {
		vs = append(vs, denoteTV(s.f.Type, e))
	}
	return combineLL(vs)
}

func tvNearBound(lt *model.LType, tv *gpb.TypedValue) bool {
	switch x := tv.GetValue().(type) {
	case *gpb.TypedValue_IntVal:
		return nearBound(lt, fmt.Sprint(x.IntVal))
	case *gpb.TypedValue_UintVal:
		return nearBound(lt, fmt.Sprint(x.UintVal))
	case *gpb.TypedValue_LeaflistVal:
		for _, e := range x.LeaflistVal.GetElement() {
			if tvNearBound(lt, e) {
				return true
			}
		}
	case *gpb.TypedValue_JsonIetfVal:
		if raw, err := decodeJSON(x.JsonIetfVal); err == nil {
			return rawNearBound(lt, raw)
		}
	}
	return false
}

func tvNonFinite(tv *gpb.TypedValue) bool {
	switch x := tv.GetValue().(type) {
	case *gpb.TypedValue_DoubleVal:
		return x.DoubleVal != x.DoubleVal || x.DoubleVal-x.DoubleVal != 0
	case *gpb.TypedValue_FloatVal:
		return x.FloatVal != x.FloatVal || x.FloatVal-x.FloatVal != 0
	case *gpb.TypedValue_LeaflistVal:
		for _, e := range x.LeaflistVal.GetElement() {
			if tvNonFinite(e) {
				return true
			}
		}
	}
	return false
}

func tvStrings(tv *gpb.TypedValue) []interface{} {
	switch x := tv.GetValue().(type) {
	case *gpb.TypedValue_StringVal:
		return []interface{}{x.StringVal}
	case *gpb.TypedValue_LeaflistVal:
		var out []interface{}
		for _, e := range x.LeaflistVal.GetElement() {
			out = append(out, tvStrings(e)...)
		}
		return out
	}
	return nil
}

func TestC18_TypedValue(t *testing.T) {
	rec := ev.Start(t, "C18")
	rec.Rule(c18Rule)
	c18Assumptions(rec)
	c18Witnesses(rec)
	var cnt struct{ total, accepted, rejected, mustReject, mustRejectRejected, denotes, denotesAccepted, nontrivial int64 }
	kinds := map[string]int64{}
	rapid.Check(t, func(rt *rapid.T) {
		v := th.PickVariant(rt, "vtu", "vtw", "vtu2")
		s := drawSite(rt, v, func(s *site) bool { return !s.keyTarget() && !s.hasUnkeyed() })
		keys := drawKeys(rt, s, isAvoidKey)
		var in tvin
		if s.f.Kind == model.FLeafList && rapid.IntRange(0, 9).Draw(rt, "llscalar") > 1 {
			if rapid.IntRange(0, 4).Draw(rt, "lljson") == 0 {
				j := genJSONLeafList(rt, s.f.Type)
				in = tvin{model.JSONIETFTV([]byte(j.raw)), "json_ietf_val:" + j.class}
			} else {
				in = genLeafListTV(rt, s.f.Type)
			}
		} else {
			in = genScalarTV(rt, s.f.Type, true)
			if rapid.IntRange(0, 19).Draw(rt, "llforleaf") == 0 {
				in = genLeafListTV(rt, s.f.Type)
			}
		}
		// one JSON payload in six is followed by something: a second value, a stray bracket, a comma. The
		// bytes are then not one JSON text, whatever their first value is
		if j, ok := in.tv.GetValue().(*gpb.TypedValue_JsonIetfVal); ok && rapid.IntRange(0, 5).Draw(rt, "trailing") == 0 {
			tail := rapid.SampledFrom([]string{" 6", "x", "]", "}", ",", " true", `""`, " null", "[", "\n{}"}).Draw(rt, "tail")
			in = tvin{model.JSONIETFTV(append(append([]byte(nil), j.JsonIetfVal...), tail...)), in.class + "+trailing-data"}
		}
		tolerant := rapid.Bool().Draw(rt, "tolerateJSONInconsistencies")
		iv := verdictTV(s, in.tv)
		path := model.PathProto(pathElems(s, keys))
		text := tvText(in.tv)
		sent := proto.Clone(in.tv).(*gpb.TypedValue) // ygot may rewrite the caller's TypedValue (F15, subject of C11)
		opts := []ytypes.SetNodeOpt{&ytypes.InitMissingElements{}}
		if tolerant {
			opts = append(opts, &ytypes.TolerateJSONInconsistencies{})
		}
		root := v.NewRoot()
		uerr, panicked := safeCall(func() error { return ytypes.SetNode(v.Schema().RootSchema(), root, path, sent, opts...) })

		kind := tvKind(in.tv)
		wrongKind := iv.k == vMustReject && (iv.why == "wrong TypedValue kind" || iv.why == "JSON value of the wrong kind")
		nt := wrongKind || (iv.k == vMustReject) || tvNearBound(s.f.Type, in.tv)
		outcome := "rejected"
		if uerr == nil {
			outcome = "accepted"
		}
		vclass := map[vkind]string{vOpen: "open", vDenotes: "denotes", vMustReject: "must-reject", vAbsent: "null-absent"}[iv.k]
		cl := []string{"mode:typedvalue", "variant:" + v.Name, "type:" + s.class, "tv:" + kind, "tvinput:" + in.class, "oracle:" + vclass, "ygot:" + outcome,
			"tv/oracle:" + vclass + "/ygot:" + outcome, fmt.Sprintf("tolerant:%v", tolerant)}
		if iv.k == vMustReject {
			cl = append(cl, "must-reject:"+iv.why)
		}
		if panicked {
			cl = append(cl, "ygot:panic")
			rec.Set("panic-example-tv", model.PathString(path)+" "+text+" -> "+uerr.Error())
		}
		rec.Case(fmt.Sprintf("tv|%s|%s|%s|%v", v.Name, model.PathString(path), text, tolerant), nt, cl...)
		if rec.WantSample() {
			rec.Sample(map[string]string{"mode": "typedvalue", "variant": v.Name, "path": model.PathString(path), "type": s.f.Type.TypeName(), "typedvalue": text,
				"tolerant": fmt.Sprint(tolerant), "oracle": vclass + " " + iv.why, "ygot": fmt.Sprint(uerr)})
		}
		if os.Getenv("T4_DEBUG") != "" && ((iv.k == vDenotes && uerr != nil) || (iv.k == vOpen && uerr == nil) || (iv.k == vAbsent)) {
			fmt.Printf("DBG tv %s %s %s | %s %s tol=%v | ygot: %v\n", vclass, iv.why, s.f.Type.TypeName(), model.PathString(path), text, tolerant, uerr)
		}
		cnt.total++
		kinds[kind]++
		if nt {
			cnt.nontrivial++
		}
		switch iv.k {
		case vMustReject:
			cnt.mustReject++
			if uerr != nil {
				cnt.mustRejectRejected++
			}
		case vDenotes:
			cnt.denotes++
			if uerr == nil {
				cnt.denotesAccepted++
			}
		}
		if uerr != nil {
			cnt.rejected++
			return
		}
		cnt.accepted++
		desc := func() string {
			return fmt.Sprintf("variant %s, path %s (type %s), TypedValue %s (class %s), TolerateJSONInconsistencies=%v", v.Name, model.PathString(path), s.f.Type.TypeName(), text, in.class, tolerant)
		}
		switch iv.k {
		case vMustReject:
			known := false
			if j, ok := in.tv.GetValue().(*gpb.TypedValue_JsonIetfVal); ok {
				if raw, err := decodeJSON(j.JsonIetfVal); err == nil {
					known = knownJSON(rec, s.f.Type, raw)
				}
			} else {
				strs := tvStrings(in.tv)
				switch {
				case rec.Excuse(F61, hasKind(s.f.Type, model.KDec) && tvNonFinite(in.tv)):
					known = true
				case rec.Excuse(F60, hasEnum(s.f.Type) && anyRaw(strs, prefixStripped(s.f.Type))):
					known = true
				}
			}
			if known {
				return
			}
			rt.Fatalf("SetNode ACCEPTED a TypedValue that must be rejected (%s)\n%s\nstored:\n%s", iv.why, desc(), model.ObserveNorm(v, root).Dump())
		case vOpen:
			return
		}
		if msg := checkStored(rec, s, keys, iv, root); msg != "" {
			rt.Fatalf("SetNode accepted the TypedValue (oracle: %s, %s) but %s\n%s", vclass, iv.why, msg, desc())
		}
	})
	c18Health(t, "typedvalue", cnt.total, cnt.accepted, cnt.rejected, cnt.mustReject, cnt.mustRejectRejected, cnt.denotes, cnt.denotesAccepted, cnt.nontrivial)
	if cnt.total >= 1000 {
		for _, k := range []string{"int_val", "uint_val", "double_val", "float_val", "string_val", "bool_val", "bytes_val", "leaflist_val", "json_ietf_val", "json_val", "decimal_val", "any_val", "ascii_val", "proto_bytes"} {
			if kinds[k] < 3 {
				t.Errorf("INCONCLUSIVE: C18 (typedvalue) TypedValue kind %s occurred only %d times in %d cases", k, kinds[k], cnt.total)
			}
		}
	}
}
