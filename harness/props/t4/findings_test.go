package t4

import (
	"fmt"
	"strings"

	gpb "github.com/openconfig/gnmi/proto/gnmi"
	"github.com/openconfig/ygot/ygot"
	"github.com/openconfig/ygot/ytypes"
	"verifharness/ev"
	"verifharness/model"
)

// acceptsJSON unmarshals doc into an empty vtu root and reports acceptance plus a dump of what was stored.
func acceptsJSON(variant, doc string) (bool, string) {
	v := getVariant(variant)
	root := v.NewRoot()
	if err := v.Unmarshal([]byte(doc), root); err != nil {
		return false, err.Error()
	}
	return true, strings.TrimSpace(model.ObserveNorm(v, root).Dump())
}

func jsonWitness(rec *ev.Rec, id, doc, what string) {
	rec.Witness(id, func() (bool, string) {
		ok, stored := acceptsJSON("vtu", doc)
		if ok {
			return true, fmt.Sprintf("vtu.Unmarshal(%s) is accepted (%s); stored: %s", doc, what, stored)
		}
		return false, ""
	})
}

func witnessF14(rec *ev.Rec) {
	rec.Witness(F14, func() (bool, string) {
		v := getVariant("vtu")
		root := v.NewRoot()
		if err := v.Unmarshal([]byte(`{"top":{"d18":"0.00001"}}`), root); err != nil {
			return false, ""
		}
		out, err := ygot.Marshal7951(root)
		if err != nil {
			return false, ""
		}
		if strings.ContainsAny(strings.ReplaceAll(string(out), "top", ""), "eE") {
			return true, fmt.Sprintf(`Marshal7951 of decimal64 0.00001 gives %s (exponent form, not the RFC 7950 9.3 lexical form)`, out)
		}
		return false, ""
	})
}

func c18Witnesses(rec *ev.Rec) {
	jsonWitness(rec, F5, `{"top":{"i8":1.5}}`, "non-integral number for an int8 leaf")
	jsonWitness(rec, F6NonFin, `{"top":{"d1":"NaN"}}`, "NaN for a decimal64 leaf")
	jsonWitness(rec, F6Hex, `{"top":{"d1":"0x1p-2"}}`, "hexadecimal float for a decimal64 leaf")
	jsonWitness(rec, F6Under, `{"top":{"d1":"1_0"}}`, "underscore-separated digits for a decimal64 leaf")
	jsonWitness(rec, F60, `{"top":{"colour":"foo:RED"}}`, "'foo:RED' is not a name of the enumeration")
	jsonWitness(rec, F62, `{"top":{"bin":"QUJD\n"}}`, "base64 with a line feed inside")
	witnessF14(rec)
	rec.Witness(F61, func() (bool, string) {
		v := getVariant("vtu")
		root := v.NewRoot()
		p := &gpb.Path{Elem: []*gpb.PathElem{{Name: "top"}, {Name: "d1"}}}
		nan := 0.0
		nan = nan / nan
		err := ytypes.SetNode(v.Schema().RootSchema(), root, p, &gpb.TypedValue{Value: &gpb.TypedValue_DoubleVal{DoubleVal: nan}}, &ytypes.InitMissingElements{})
		if err == nil {
			out, _ := ygot.Marshal7951(root)
			return true, fmt.Sprintf("SetNode(/top/d1, double_val NaN) is accepted; the tree renders as %s", out)
		}
		return false, ""
	})
}
