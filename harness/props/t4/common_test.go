// Package t4 holds the checks C18 (decoding rejects instead of coercing), C19 (RFC 7951 / RFC 7950
// encodings on output) and C31 (Unmarshal merges into existing data). DESIGN.md section 5.
package t4

import (
	"bytes"
	"encoding/json"
	"fmt"
	"io"
	"sort"
	"strings"
	"sync"

	"github.com/openconfig/goyang/pkg/yang"
	"pgregory.net/rapid"
	"verifharness/model"
	"verifharness/variants"
)

// ---- leaf sites ------------------------------------------------------------------------------------

// site is one leaf or leaf-list of a variant's struct tree together with the chain of container /
// list fields that leads to it from the root.
type site struct {
	v     *model.Variant
	chain []*model.FieldInfo // FCont, FList, FOrdList, FUList fields from the root down
	f     *model.FieldInfo   // FLeaf or FLeafList
	class string             // type class used to balance the draw
}

func (s *site) String() string {
	var p []string
	for _, c := range s.chain {
		p = append(p, c.SchemaPath())
	}
	p = append(p, s.f.SchemaPath())
	return "/" + strings.Join(p, "/")
}

// keyTarget reports whether the site's leaf is a key of the innermost list of its chain.
func (s *site) keyTarget() bool { return s.f.IsKey }

func (s *site) hasUnkeyed() bool {
	for _, c := range s.chain {
		if c.Kind == model.FUList {
			return true
		}
	}
	return false
}

type siteTable struct {
	all     []*site
	classes []string
	byClass map[string][]*site
}

var (
	siteMu   sync.Mutex
	siteTabs = map[string]*siteTable{}
)

// sitesOf enumerates every leaf / leaf-list site of variant v (deterministic order).
func sitesOf(v *model.Variant) *siteTable {
	siteMu.Lock()
	defer siteMu.Unlock()
	if t, ok := siteTabs[v.Name]; ok {
		return t
	}
	v.MustInit()
	t := &siteTable{byClass: map[string][]*site{}}
	var walk func(si *model.StructInfo, chain []*model.FieldInfo, depth int)
	walk = func(si *model.StructInfo, chain []*model.FieldInfo, depth int) {
		if depth > 12 {
			return
		}
		for _, f := range si.Fields {
			switch f.Kind {
			case model.FLeaf, model.FLeafList:
				s := &site{v: v, chain: append([]*model.FieldInfo(nil), chain...), f: f}
				s.class = f.Type.TypeName()
				if f.Kind == model.FLeafList {
					s.class = "ll:" + s.class
				}
				if f.IsKey {
					s.class = "key:" + s.class
				}
				if len(f.Type.Range) > 0 && !f.Type.IsUnion() && f.Type.VKind() != model.KDec {
					s.class += "/range"
				}
				t.all = append(t.all, s)
			default:
				walk(f.Child, append(append([]*model.FieldInfo(nil), chain...), f), depth+1)
			}
		}
	}
	walk(v.Root, nil, 0)
	for _, s := range t.all {
		if _, ok := t.byClass[s.class]; !ok {
			t.classes = append(t.classes, s.class)
		}
		t.byClass[s.class] = append(t.byClass[s.class], s)
	}
	sort.Strings(t.classes)
	siteTabs[v.Name] = t
	return t
}

// drawSite picks a type class uniformly and then a site of that class. keep filters sites.
func drawSite(rt *rapid.T, v *model.Variant, keep func(*site) bool) *site {
	t := sitesOf(v)
	var classes []string
	cand := map[string][]*site{}
	for _, c := range t.classes {
		for _, s := range t.byClass[c] {
			if keep == nil || keep(s) {
				cand[c] = append(cand[c], s)
			}
		}
		if len(cand[c]) > 0 {
			classes = append(classes, c)
		}
	}
	c := rapid.SampledFrom(classes).Draw(rt, "typeclass")
	l := cand[c]
	return l[rapid.IntRange(0, len(l)-1).Draw(rt, "site")]
}

// drawKeys draws key tuples for every keyed list of the chain. When the site's leaf is itself a key
// of the innermost list, that key position is left as the zero Val (K == KNone) and filled later.
func drawKeys(rt *rapid.T, s *site, avoid func(model.Val) bool) [][]model.Val {
	keys := make([][]model.Val, len(s.chain))
	for i, c := range s.chain {
		if c.Kind != model.FList && c.Kind != model.FOrdList {
			continue
		}
		k := make([]model.Val, len(c.KeyFields))
		for j, kf := range c.KeyFields {
			if i == len(s.chain)-1 && kf == s.f {
				continue
			}
			var val model.Val
			for tries := 0; tries < 8; tries++ {
				val = model.GenVal(rt, s.v, kf.Type, model.GenOpts{PlainStrings: true}, fmt.Sprintf("key%d.%d", i, j))
				if avoid == nil || !avoid(val) {
					break
				}
			}
			k[j] = val
		}
		keys[i] = k
	}
	return keys
}

// jsonString renders s as a JSON string literal without HTML escaping.
func jsonString(s string) string {
	var buf bytes.Buffer
	enc := json.NewEncoder(&buf)
	enc.SetEscapeHTML(false)
	if err := enc.Encode(s); err != nil {
		panic("HARNESS-BUG: " + err.Error())
	}
	return strings.TrimRight(buf.String(), "\n")
}

func valJSON(v model.Val) string {
	b, err := json.Marshal(model.RenderValue(v, model.JSONOpts{}))
	if err != nil {
		panic("HARNESS-BUG: " + err.Error())
	}
	return string(b)
}

func nestJSON(names []string, inner string) string {
	out := inner
	for i := len(names) - 1; i >= 0; i-- {
		out = jsonString(names[i]) + ":" + out
		if i > 0 {
			out = "{" + out + "}"
		}
	}
	return out
}

// wrapDoc builds the minimal RFC 7951 document that carries raw (JSON text) at the site: the
// containers on the way, one list entry with its keys per list crossed.
func wrapDoc(s *site, keys [][]model.Val, raw string) string {
	inner := nestJSON(s.f.Paths[0], raw)
	for i := len(s.chain) - 1; i >= 0; i-- {
		c := s.chain[i]
		switch c.Kind {
		case model.FCont:
			inner = nestJSON(c.Paths[0], "{"+inner+"}")
		case model.FUList:
			inner = nestJSON(c.Paths[0], "[{"+inner+"}]")
		default:
			var parts []string
			for j, kf := range c.KeyFields {
				if keys[i][j].K == model.KNone {
					continue
				}
				// key leaves may have several path alternatives in compressed structs; the last one is the
				// direct child of the entry
				parts = append(parts, nestJSON(kf.Paths[len(kf.Paths)-1], valJSON(keys[i][j])))
			}
			parts = append(parts, inner)
			inner = nestJSON(c.Paths[0], "[{"+strings.Join(parts, ",")+"}]")
		}
	}
	return "{" + inner + "}"
}

// expectTree builds the model tree that holds exactly the chain of the site (keys filled in) and
// returns it with the node that owns the site's leaf. keys with K == KNone are replaced by keyVal.
func expectTree(s *site, keys [][]model.Val, keyVal *model.Val) (root, owner *model.Node) {
	root = model.NewNode(s.v.Root)
	cur := root
	for i, c := range s.chain {
		switch c.Kind {
		case model.FCont:
			n := model.NewNode(c.Child)
			cur.Cont[c.Name] = n
			cur = n
		case model.FUList:
			n := model.NewNode(c.Child)
			cur.UList[c.Name] = []*model.Node{n}
			cur = n
		default:
			k := append([]model.Val(nil), keys[i]...)
			for j := range k {
				if k[j].K == model.KNone && keyVal != nil {
					k[j] = *keyVal
				}
			}
			e := &model.Entry{Key: k, N: model.NewNode(c.Child)}
			for j, kf := range c.KeyFields {
				if k[j].K != model.KNone {
					e.N.Leaf[kf.Name] = k[j]
				}
			}
			cur.List[c.Name] = []*model.Entry{e}
			cur = e.N
		}
	}
	return root, cur
}

// pathElems returns the data-tree path of the site (for gNMI paths).
func pathElems(s *site, keys [][]model.Val) []model.PElem {
	var el []model.PElem
	for i, c := range s.chain {
		for _, n := range c.Paths[0] {
			el = append(el, model.PElem{Name: n})
		}
		if c.Kind == model.FList || c.Kind == model.FOrdList {
			ks := map[string]model.Val{}
			for j, kn := range c.KeyNames {
				ks[kn] = keys[i][j]
			}
			el[len(el)-1].Keys = ks
		}
	}
	for _, n := range s.f.Paths[0] {
		el = append(el, model.PElem{Name: n})
	}
	return el
}

// decodeJSON parses JSON text keeping numbers as json.Number.
func decodeJSON(data []byte) (interface{}, error) {
	dec := json.NewDecoder(bytes.NewReader(data))
	dec.UseNumber()
	var raw interface{}
	if err := dec.Decode(&raw); err != nil {
		return nil, err
	}
	// the document ends here: anything but white space after the first value (also a stray ] or }, which
	// Decoder.More does not report) makes the input something other than one JSON text
	if _, err := dec.Token(); err != io.EOF {
		return nil, fmt.Errorf("trailing data")
	}
	return raw, nil
}

// encodeJSON renders a generic JSON value without HTML escaping.
func encodeJSON(v interface{}) []byte {
	var buf bytes.Buffer
	enc := json.NewEncoder(&buf)
	enc.SetEscapeHTML(false)
	if err := enc.Encode(v); err != nil {
		panic("HARNESS-BUG: " + err.Error())
	}
	return bytes.TrimRight(buf.Bytes(), "\n")
}

func stripMod(s string) (mod, name string) {
	if i := strings.Index(s, ":"); i >= 0 {
		return s[:i], s[i+1:]
	}
	return "", s
}

// lookupRaw fetches the raw JSON value at the site from a decoded document (first entry of every
// list crossed; member-name prefixes ignored).
func lookupRaw(doc interface{}, s *site) (interface{}, bool) {
	cur := doc
	step := func(names []string) bool {
		for _, n := range names {
			m, ok := cur.(map[string]interface{})
			if !ok {
				return false
			}
			found := false
			for k, v := range m {
				if _, nm := stripMod(k); nm == n {
					cur, found = v, true
					break
				}
			}
			if !found {
				return false
			}
		}
		return true
	}
	for _, c := range s.chain {
		if !step(c.Paths[0]) {
			return nil, false
		}
		if c.Kind != model.FCont {
			a, ok := cur.([]interface{})
			if !ok || len(a) != 1 {
				return nil, false
			}
			cur = a[0]
		}
	}
	if !step(s.f.Paths[0]) {
		return nil, false
	}
	return cur, true
}

// childEntryOf finds the data child `name` of goyang entry e, looking through choice and case nodes.
func childEntryOf(e *yang.Entry, name string) *yang.Entry {
	if e == nil {
		return nil
	}
	if c, ok := e.Dir[name]; ok && !c.IsChoice() && !c.IsCase() {
		return c
	}
	names := make([]string, 0, len(e.Dir))
	for n := range e.Dir {
		names = append(names, n)
	}
	sort.Strings(names)
	for _, n := range names {
		c := e.Dir[n]
		if c.IsChoice() || c.IsCase() {
			if r := childEntryOf(c, name); r != nil {
				return r
			}
		}
	}
	return nil
}

func getVariant(name string) *model.Variant { return variants.Get(name) }

func pct(n, total int64) float64 {
	if total == 0 {
		return 0
	}
	return 100 * float64(n) / float64(total)
}
