package t4

import (
	"encoding/base64"
	"fmt"
	"math"
	"math/big"
	"strings"

	gpb "github.com/openconfig/gnmi/proto/gnmi"
	"google.golang.org/protobuf/types/known/anypb"
	"pgregory.net/rapid"
	"verifharness/model"
)

// ---- JSON scalar grammar ----------------------------------------------------------------------------

// jin is one generated JSON scalar (raw text) with its grammar class.
type jin struct {
	raw   string
	class string
}

func pow2(b uint) *big.Int { return new(big.Int).Lsh(big.NewInt(1), b) }

// boundaryInts lists the integers at and next to the bounds of every integer width, 2^53, and the
// bounds of the range restrictions of lt (and of its union members).
func boundaryInts(lt *model.LType) []*big.Int {
	var out []*big.Int
	add := func(x *big.Int) {
		for d := int64(-1); d <= 1; d++ {
			out = append(out, new(big.Int).Add(x, big.NewInt(d)))
		}
	}
	for _, b := range []uint{8, 16, 32, 64} {
		add(pow2(b - 1))
		add(new(big.Int).Neg(pow2(b - 1)))
		add(pow2(b))
	}
	add(pow2(53))
	add(big.NewInt(0))
	var ranges func(t *model.LType)
	ranges = func(t *model.LType) {
		for _, m := range t.Members {
			ranges(m)
		}
		if t.VKind() == model.KDec || t.IsUnion() {
			return
		}
		for _, p := range t.Range {
			add(model.NumberScaled(p.Min, 0))
			add(model.NumberScaled(p.Max, 0))
		}
	}
	ranges(lt)
	return out
}

// typeBounds lists the natural bounds of the integer kinds of lt (and its members).
func typeBounds(lt *model.LType) []*big.Int {
	var out []*big.Int
	var walk func(t *model.LType)
	walk = func(t *model.LType) {
		for _, m := range t.Members {
			walk(m)
		}
		k := t.VKind()
		if k.Signed() || k.Unsigned() {
			lo, hi := kindBounds(k)
			out = append(out, lo, hi)
			for _, p := range t.Range {
				out = append(out, model.NumberScaled(p.Min, 0), model.NumberScaled(p.Max, 0))
			}
		}
	}
	walk(lt)
	return out
}

func genIntText(rt *rapid.T, lt *model.LType) (string, string) {
	switch rapid.IntRange(0, 9).Draw(rt, "intmode") {
	case 0, 1:
		return fmt.Sprint(rapid.IntRange(-20, 300).Draw(rt, "small")), "small"
	case 2, 3, 4, 5:
		b := boundaryInts(lt)
		return b[rapid.IntRange(0, len(b)-1).Draw(rt, "bound")].String(), "boundary"
	case 6:
		b := typeBounds(lt)
		if len(b) > 0 {
			x := new(big.Int).Add(b[rapid.IntRange(0, len(b)-1).Draw(rt, "tbound")], big.NewInt(int64(rapid.IntRange(-2, 2).Draw(rt, "d"))))
			return x.String(), "boundary"
		}
		return "0", "small"
	case 7:
		return rapid.SampledFrom([]string{"100000000000000000000000000000", "-100000000000000000000000000000", "340282366920938463463374607431768211456"}).Draw(rt, "huge"), "huge"
	default:
		return fmt.Sprint(rapid.Int64().Draw(rt, "any")), "any64"
	}
}

// genNumText draws the text of a JSON number.
func genNumText(rt *rapid.T, lt *model.LType) (string, string) {
	switch rapid.IntRange(0, 9).Draw(rt, "nummode") {
	case 0, 1, 2, 3:
		s, c := genIntText(rt, lt)
		return s, "int-" + c
	case 4, 5:
		s, _ := genIntText(rt, lt)
		// at most 15 integer digits: every number-encoded integer type ends at 2^32, so the decision
		// "integral or not" never depends on float64 rounding
		if d := strings.TrimLeft(s, "-"); len(d) > 15 {
			s = s[:len(s)-len(d)] + d[:15]
		}
		frac := rapid.SampledFrom([]string{"5", "0", "000", "25", "999", "001", "9"}).Draw(rt, "frac")
		c := "fraction"
		if strings.Trim(frac, "0") == "" {
			c = "fraction-zero"
		}
		return s + "." + frac, c
	case 6, 7:
		m := rapid.SampledFrom([]string{"1", "-1", "12", "25", "1.5", "1.28", "-1.29", "2.55", "0.1", "65535", "3", "0"}).Draw(rt, "mant")
		e := rapid.SampledFrom([]string{"e2", "E2", "e+2", "E-1", "e-1", "e0", "e1", "e-2", "e10", "e19", "e400", "E+3"}).Draw(rt, "exp")
		return m + e, "exponent"
	case 8:
		return rapid.SampledFrom([]string{"-0", "-0.0", "-0e0", "0.0", "-0.5"}).Draw(rt, "negzero"), "negative-zero"
	default:
		// decimal magnitudes
		return rapid.SampledFrom([]string{"0.000000000000000001", "9.223372036854775807", "-9.223372036854775808", "922337203685477580.7",
			"0.00001", "0.0001", "1000000.5", "123456.789", "-1000.001", "1000.000", "10.51", "99.99", "0.1", "1.25", "-0.01"}).Draw(rt, "decmag"), "decimal-magnitude"
	}
}

var oddNumericStrings = []string{"+5", " 5", "5 ", "\t5", "5\n", "0x10", "0X1F", "1_0", "1_000.5", "007", "-007", "+007", "-0", "+0", "00",
	"Inf", "-Inf", "+Inf", "inf", "Infinity", "-infinity", "NaN", "nan", "0x1p-2", "0x1.8p1", "-0X1P+2", "0x_1p0", "", ".5", "5.", "-.5", "+1.5", "1.50", "01.5",
	"1e", "e5", "--5", "5-", "٣", "1,5", "1 000", "1.2.3", "1/2", "0b101", "0o17", "1e2", "1E-1", "1.5e1", "+1e+2", "5.e1", ".5e1", "1e1000", "0x10.8", "1__0", "_1", "1_",
	"2147483648", "4294967296", "9223372036854775808", "18446744073709551616", "-9223372036854775809", "١٢٣"}

var wrongKindValues = []string{"true", "false", "null", "[null]", "[]", "[null,null]", "[1]", "[\"a\"]", "[[null]]", "[true]", "{}", "{\"a\":1}", "{\"value\":\"x\"}", "[{}]"}

var oddStrings = []string{"true", "false", "True", "null", "[null]", "", " ", "a", "abc", "ABC1", "x.y", "half-on", "é世", "a b", "abcdefgh"}

var base64Bad = []string{"AA=", "AAA", "A", "AA===", "=AAA", "A=AA", "AA=A", "A*==", "AA-_", "QUJD\n", "QUJD\r\n", " QUJD", "QUJD ", "QU JD", "QU\nJD", "QUJD=", "QUJDRA", "QUJDRA=", "====", "Zg=\n="}

// base64 whose unused trailing bits are not zero (non-canonical, RFC 4648 3.5)
var base64PadBits = []string{"AB==", "AAB=", "QUJDRB=="}

func enumNames(lt *model.LType) (names []string, ident bool) {
	var walk func(t *model.LType)
	walk = func(t *model.LType) {
		for _, m := range t.Members {
			walk(m)
		}
		if t.VKind() == model.KEnum {
			for _, m := range t.Enum {
				names = append(names, m.Name)
			}
			if t.Ident {
				ident = true
			}
		}
	}
	walk(lt)
	return
}

func genEnumText(rt *rapid.T, lt *model.LType) (string, string) {
	names, _ := enumNames(lt)
	if len(names) == 0 {
		names = []string{"RED", "CIRCLE", "ON", "LOW", "KIND_A"}
	}
	n := rapid.SampledFrom(names).Draw(rt, "ename")
	mods := map[string]string{}
	var walk func(t *model.LType)
	walk = func(t *model.LType) {
		for _, m := range t.Members {
			walk(m)
		}
		for k, v := range identityModules(t) {
			mods[k] = v
		}
	}
	walk(lt)
	switch rapid.IntRange(0, 11).Draw(rt, "enummode") {
	case 0, 1, 2:
		return n, "enum-name"
	case 3, 4:
		if m, ok := mods[n]; ok {
			return m + ":" + n, "identity-module-prefixed"
		}
		return "vt-types:" + n, "enum-with-prefix"
	case 5, 6:
		return rapid.SampledFrom([]string{"vt", "voc", "foo", "vtt", "", "vt-types:vt-types"}).Draw(rt, "wrongmod") + ":" + n, "wrong-module-prefix"
	case 7:
		return rapid.SampledFrom([]string{"PURPLE", "TRIANGLE", "UNSET", "red", "On", "0", "1", "7", "2"}).Draw(rt, "unknown"), "unknown-name"
	case 8:
		return rapid.SampledFrom([]string{n + " ", " " + n, strings.ToLower(n), n + "X", n[:len(n)-1], n + ":"}).Draw(rt, "near"), "near-name"
	case 9:
		return "a:b:" + n, "two-colons"
	default:
		return rapid.SampledFrom([]string{"RED", "GREEN", "dark-blue", "x.y", "CIRCLE", "SQUARE", "RED-SQUARE", "ON", "OFF", "half-on", "SHAPE", "LOW", "MID", "KIND_A", "UP"}).Draw(rt, "other"), "other-enum-name"
	}
}

// famOf says which grammar families the type (or a union member) is at home in.
func famOf(lt *model.LType) (num, dec, bin, enum bool) {
	var walk func(t *model.LType)
	walk = func(t *model.LType) {
		for _, m := range t.Members {
			walk(m)
		}
		k := t.VKind()
		switch {
		case k.Signed() || k.Unsigned():
			num = true
		case k == model.KDec:
			dec = true
		case k == model.KBin:
			bin = true
		case k == model.KEnum:
			enum = true
		}
	}
	walk(lt)
	return
}

// genJSONScalar draws one JSON value (as text) for a leaf of type lt. Every family can hit every type
// (that gives the wrong-kind cases); the family the type is at home in is drawn more often.
func genJSONScalar(rt *rapid.T, lt *model.LType) jin {
	num, dec, bin, enum := famOf(lt)
	w := []int{3, 2, 2, 2, 1, 1, 1} // number, number-as-string, odd numeric string, wrong kinds, strings, base64, enum
	if num || dec {
		w[0], w[1], w[2] = 6, 5, 5
	}
	if bin {
		w[5] = 8
	}
	if enum {
		w[6] = 8
	}
	total := 0
	for _, x := range w {
		total += x
	}
	r := rapid.IntRange(0, total-1).Draw(rt, "family")
	fam := 0
	for ; r >= w[fam]; fam++ {
		r -= w[fam]
	}
	switch fam {
	case 0:
		s, c := genNumText(rt, lt)
		return jin{s, "number:" + c}
	case 1:
		s, c := genNumText(rt, lt)
		return jin{jsonString(s), "numeric-string:" + c}
	case 2:
		s := rapid.SampledFrom(oddNumericStrings).Draw(rt, "odd")
		return jin{jsonString(s), "odd-numeric-string"}
	case 3:
		s := rapid.SampledFrom(wrongKindValues).Draw(rt, "wk")
		c := "array-or-object"
		switch s {
		case "true", "false":
			c = "boolean"
		case "null":
			c = "null"
		case "[null]":
			c = "[null]"
		}
		return jin{s, c}
	case 4:
		return jin{jsonString(rapid.SampledFrom(oddStrings).Draw(rt, "str")), "string"}
	case 5:
		switch rapid.IntRange(0, 5).Draw(rt, "b64mode") {
		case 0, 1, 2:
			n := rapid.IntRange(0, 7).Draw(rt, "b64len")
			b := make([]byte, n)
			for i := range b {
				b[i] = rapid.Byte().Draw(rt, "b")
			}
			return jin{jsonString(base64.StdEncoding.EncodeToString(b)), "base64-valid"}
		case 3, 4:
			return jin{jsonString(rapid.SampledFrom(base64Bad).Draw(rt, "b64bad")), "base64-bad"}
		default:
			return jin{jsonString(rapid.SampledFrom(base64PadBits).Draw(rt, "b64pad")), "base64-pad-bits"}
		}
	default:
		s, c := genEnumText(rt, lt)
		return jin{jsonString(s), c}
	}
}

// genJSONLeafList draws the JSON value for a leaf-list: mostly an array of scalars of the grammar.
func genJSONLeafList(rt *rapid.T, lt *model.LType) jin {
	switch rapid.IntRange(0, 9).Draw(rt, "llmode") {
	case 0:
		j := genJSONScalar(rt, lt)
		return jin{j.raw, "ll-not-array:" + j.class}
	case 1:
		return jin{rapid.SampledFrom([]string{"[]", "[null]", "null", "[null,null]", "{}"}).Draw(rt, "llspecial"), "ll-special"}
	}
	n := rapid.IntRange(1, 3).Draw(rt, "lllen")
	var parts, cl []string
	for i := 0; i < n; i++ {
		j := genJSONScalar(rt, lt)
		parts = append(parts, j.raw)
		cl = append(cl, j.class)
	}
	return jin{"[" + strings.Join(parts, ",") + "]", "ll:" + cl[0]}
}

// ---- TypedValue grammar -----------------------------------------------------------------------------

type tvin struct {
	tv    *gpb.TypedValue
	class string
}

func genScalarTV(rt *rapid.T, lt *model.LType, allowJSON bool) tvin {
	hi := 13
	if !allowJSON {
		hi = 9
	}
	var pick int
	if home := homeKinds(lt); len(home) > 0 && rapid.IntRange(0, 9).Draw(rt, "home") < 4 {
		pick = rapid.SampledFrom(home).Draw(rt, "tvkind")
	} else {
		pick = rapid.IntRange(0, hi).Draw(rt, "tvkind")
	}
	switch pick {
	case 0, 1:
		s, c := genIntText(rt, lt)
		x, _ := new(big.Int).SetString(s, 10)
		if !x.IsInt64() {
			if x.Sign() < 0 {
				x = big.NewInt(math.MinInt64)
			} else {
				x = big.NewInt(math.MaxInt64)
			}
		}
		return tvin{&gpb.TypedValue{Value: &gpb.TypedValue_IntVal{IntVal: x.Int64()}}, "int_val:" + c}
	case 2, 3:
		s, c := genIntText(rt, lt)
		x, _ := new(big.Int).SetString(s, 10)
		x.Abs(x)
		if !x.IsUint64() {
			x = new(big.Int).SetUint64(math.MaxUint64)
		}
		return tvin{&gpb.TypedValue{Value: &gpb.TypedValue_UintVal{UintVal: x.Uint64()}}, "uint_val:" + c}
	case 4:
		f := rapid.SampledFrom([]float64{0, 1, -1, 1.5, 0.1, -0.25, 127, 128, 255.5, 1e-18, 1e-5, 0.0001, 123456.789, 1e6, 1.25e17, 9.2e18, 1e300, math.NaN(), math.Inf(1), math.Inf(-1),
			math.Copysign(0, -1), 10.5, 10.51, 99.99, 1000.001, 4.9e-324, math.MaxFloat64}).Draw(rt, "dbl")
		c := "double_val:finite"
		if math.IsNaN(f) || math.IsInf(f, 0) {
			c = "double_val:non-finite"
		}
		return tvin{&gpb.TypedValue{Value: &gpb.TypedValue_DoubleVal{DoubleVal: f}}, c}
	case 5:
		f := rapid.SampledFrom([]float32{0, 1, -1, 1.5, 0.1, 255, 3.4e38, float32(math.NaN()), float32(math.Inf(1)), 1e-10, 1000000.5}).Draw(rt, "flt")
		c := "float_val:finite"
		if f != f || math.IsInf(float64(f), 0) {
			c = "float_val:non-finite"
		}
		return tvin{&gpb.TypedValue{Value: &gpb.TypedValue_FloatVal{FloatVal: f}}, c}
	case 6:
		var s, c string
		switch rapid.IntRange(0, 3).Draw(rt, "strmode") {
		case 0, 1:
			s, c = genEnumText(rt, lt)
		case 2:
			s, c = genNumText(rt, lt)
			c = "numeric:" + c
		default:
			s, c = rapid.SampledFrom(append(append([]string{}, oddStrings...), oddNumericStrings[:20]...)).Draw(rt, "s"), "string"
		}
		return tvin{&gpb.TypedValue{Value: &gpb.TypedValue_StringVal{StringVal: s}}, "string_val:" + c}
	case 7:
		return tvin{&gpb.TypedValue{Value: &gpb.TypedValue_BoolVal{BoolVal: rapid.Bool().Draw(rt, "b")}}, "bool_val"}
	case 8:
		n := rapid.IntRange(0, 6).Draw(rt, "blen")
		b := make([]byte, n)
		for i := range b {
			b[i] = rapid.Byte().Draw(rt, "byte")
		}
		return tvin{&gpb.TypedValue{Value: &gpb.TypedValue_BytesVal{BytesVal: b}}, "bytes_val"}
	case 9:
		d := rapid.SampledFrom([]int64{0, 1, -1, 15, 125, -1050, 9999, 1000001, math.MaxInt64, math.MinInt64, 100000}).Draw(rt, "digits")
		p := rapid.SampledFrom([]uint32{0, 1, 2, 3, 18, 5, 25}).Draw(rt, "prec")
		return tvin{&gpb.TypedValue{Value: &gpb.TypedValue_DecimalVal{DecimalVal: &gpb.Decimal64{Digits: d, Precision: p}}}, "decimal_val"}
	case 10, 11:
		j := genJSONScalar(rt, lt)
		return tvin{&gpb.TypedValue{Value: &gpb.TypedValue_JsonIetfVal{JsonIetfVal: []byte(j.raw)}}, "json_ietf_val:" + j.class}
	case 12:
		j := genJSONScalar(rt, lt)
		return tvin{&gpb.TypedValue{Value: &gpb.TypedValue_JsonVal{JsonVal: []byte(j.raw)}}, "json_val"}
	default:
		switch rapid.IntRange(0, 2).Draw(rt, "rare") {
		case 0:
			return tvin{&gpb.TypedValue{Value: &gpb.TypedValue_AsciiVal{AsciiVal: rapid.SampledFrom([]string{"5", "abc", "RED", "true", ""}).Draw(rt, "ascii")}}, "ascii_val"}
		case 1:
			return tvin{&gpb.TypedValue{Value: &gpb.TypedValue_ProtoBytes{ProtoBytes: []byte{8, 5}}}, "proto_bytes"}
		default:
			return tvin{&gpb.TypedValue{Value: &gpb.TypedValue_AnyVal{AnyVal: &anypb.Any{TypeUrl: "type.googleapis.com/x.Y", Value: []byte{8, 5}}}}, "any_val"}
		}
	}
}

// homeKinds lists the genScalarTV cases that carry the TypedValue kinds gNMI prescribes for lt.
func homeKinds(lt *model.LType) []int {
	var out []int
	var walk func(t *model.LType)
	walk = func(t *model.LType) {
		for _, m := range t.Members {
			walk(m)
		}
		k := t.VKind()
		switch {
		case k.Signed():
			out = append(out, 0)
		case k.Unsigned():
			out = append(out, 2, 2, 0)
		case k == model.KDec:
			out = append(out, 4, 4, 5, 9)
		case k == model.KStr || k == model.KEnum:
			out = append(out, 6)
		case k == model.KBool || k == model.KEmpty:
			out = append(out, 7)
		case k == model.KBin:
			out = append(out, 8)
		}
	}
	walk(lt)
	return out
}

func genLeafListTV(rt *rapid.T, lt *model.LType) tvin {
	n := rapid.SampledFrom([]int{0, 1, 1, 1, 2, 2, 3}).Draw(rt, "lllen")
	arr := &gpb.ScalarArray{}
	c := "empty"
	for i := 0; i < n; i++ {
		e := genScalarTV(rt, lt, false)
		if i == 0 {
			c = e.class
		}
		arr.Element = append(arr.Element, e.tv)
	}
	return tvin{&gpb.TypedValue{Value: &gpb.TypedValue_LeaflistVal{LeaflistVal: arr}}, "leaflist_val:" + c}
}
