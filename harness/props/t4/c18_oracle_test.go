package t4

import (
	"encoding/base64"
	"encoding/json"
	"math"
	"math/big"
	"regexp"
	"strings"
	"unicode/utf8"

	gpb "github.com/openconfig/gnmi/proto/gnmi"
	"github.com/openconfig/goyang/pkg/yang"
	"verifharness/model"
)

// The C18 oracle. It is written from the property statement, RFC 7951 section 6, RFC 7950 section 9 and
// the gNMI specification section 2.3.1, and classifies one input against one leaf type:
//
//	vDenotes    the input denotes a value: accepting is fine iff exactly that value is stored
//	vMustReject the input is in the statement's must-reject set: accepting is a violation
//	vAbsent     JSON null: ygot's unit tests pin it as "member absent"; accepting is fine iff nothing
//	            is stored (no verdict on rejection either)
//	vOpen       neither set: no verdict
//
// "Value space" is the one of the built-in type: range / length / pattern / fraction-digits
// restrictions are the business of Validate (C06, C07); SetNode and Unmarshal document that they do
// not check them. Values that only violate such a restriction are vDenotes (flag restr).
type vkind int

const (
	vOpen vkind = iota
	vDenotes
	vMustReject
	vAbsent
)

type verdict struct {
	k     vkind
	val   model.Val
	why   string // must-reject reason (statement clause) or note for denoting inputs
	restr bool   // value violates a range/length/pattern/fraction-digits restriction only
	// tol: the TypedValue kind is not the one gNMI prescribes for the type, but the number fits
	// (int_val for an unsigned leaf - ygot's documented TolerateJSONInconsistencies - and the mirror
	// case uint_val for a signed leaf). Inside a union such a member does not hide a later member the
	// TypedValue is at home in: alts lists the other acceptable stored values.
	tol  bool
	alts []model.Val
}

func denotes(v model.Val, why string) verdict { return verdict{k: vDenotes, val: v, why: why} }
func mustReject(why string) verdict            { return verdict{k: vMustReject, why: why} }

var (
	// RFC 7950 9.2.1: optional sign followed by decimal digits.
	intLexRe = regexp.MustCompile(`^[+-]?[0-9]+$`)
	// RFC 7950 9.3.1: optional sign, digits, optionally a period and digits.
	decLexRe = regexp.MustCompile(`^[+-]?[0-9]+(\.[0-9]+)?$`)
	// exponent forms: DESIGN.md C18 "may accept" (ygot itself emits them, F14).
	decExpRe = regexp.MustCompile(`^[+-]?[0-9]+(\.[0-9]+)?[eE][+-]?[0-9]{1,3}$`)
	// digits missing on one side of the period: numerically unambiguous, not in the RFC grammar: open.
	decLooseRe = regexp.MustCompile(`^[+-]?(\.[0-9]+|[0-9]+\.)([eE][+-]?[0-9]{1,3})?$`)
	// canonical-ish decimal64: no plus sign, no superfluous leading zeros
	canonDecRe = regexp.MustCompile(`^-?(0|[1-9][0-9]*)(\.[0-9]+)?$`)
	// RFC 4648 section 4 alphabet with mandatory padding.
	b64Re = regexp.MustCompile(`^([A-Za-z0-9+/]{4})*([A-Za-z0-9+/]{2}==|[A-Za-z0-9+/]{3}=)?$`)
)

func kindBounds(k model.Kind) (lo, hi *big.Int) {
	b := uint(k.Bits())
	if k.Signed() {
		hi = new(big.Int).Sub(new(big.Int).Lsh(big.NewInt(1), b-1), big.NewInt(1))
		lo = new(big.Int).Neg(new(big.Int).Lsh(big.NewInt(1), b-1))
		return
	}
	return big.NewInt(0), new(big.Int).Sub(new(big.Int).Lsh(big.NewInt(1), b), big.NewInt(1))
}

func intVal(k model.Kind, x *big.Int) model.Val {
	if k.Signed() {
		return model.Val{K: k, I: x.Int64()}
	}
	return model.Val{K: k, U: x.Uint64()}
}

// intVerdict classifies the exact integer x for an integer leaf of kind k.
func intVerdict(lt *model.LType, k model.Kind, x *big.Int, why string) verdict {
	lo, hi := kindBounds(k)
	if x.Cmp(lo) < 0 || x.Cmp(hi) > 0 {
		return mustReject("out-of-range number for integer leaf")
	}
	v := denotes(intVal(k, x), why)
	v.restr = !model.InRange(lt.Range, x, 0)
	return v
}

// ratFloat returns the float64 nearest to the decimal text s (exact big.Rat arithmetic).
func ratFloat(s string) (float64, bool) {
	r, ok := new(big.Rat).SetString(s)
	if !ok {
		return 0, false
	}
	f, _ := r.Float64()
	if math.IsInf(f, 0) {
		return 0, false
	}
	return f, true
}

func jsonKind(raw interface{}) string {
	switch raw.(type) {
	case nil:
		return "null"
	case json.Number:
		return "number"
	case string:
		return "string"
	case bool:
		return "bool"
	case []interface{}:
		return "array"
	case map[string]interface{}:
		return "object"
	}
	return "?"
}

// identityModule gives the module that defines identity name under the base of lt, from goyang.
func identityModules(lt *model.LType) map[string]string {
	out := map[string]string{}
	if lt.Y == nil || lt.Y.IdentityBase == nil {
		return out
	}
	for _, id := range lt.Y.IdentityBase.Values {
		m := yang.RootNode(id)
		name := m.Name
		if m.BelongsTo != nil {
			name = m.BelongsTo.Name
		}
		out[id.Name] = name
	}
	return out
}

// enumVerdict classifies a name for an enumeration or identityref type.
func enumVerdict(lt *model.LType, s string) verdict {
	if !lt.Ident {
		for _, m := range lt.Enum {
			if m.Name == s {
				return denotes(model.EnumVal(lt, m), "enum name")
			}
		}
		return mustReject("unknown enumeration name")
	}
	mods := identityModules(lt)
	for _, m := range lt.Enum {
		if m.Name == s {
			return denotes(model.EnumVal(lt, m), "identity, bare name")
		}
		if mod, ok := mods[m.Name]; ok && mod+":"+m.Name == s {
			return denotes(model.EnumVal(lt, m), "identity, module:name")
		}
	}
	return mustReject("unknown identity name (or wrong module)")
}

// denoteJSON classifies a decoded JSON value (json.Number for numbers) for leaf type lt.
func denoteJSON(lt *model.LType, raw interface{}) verdict {
	if raw == nil {
		return verdict{k: vAbsent, why: "null"}
	}
	if lt.IsUnion() {
		return unionVerdict(lt, func(m *model.LType) verdict { return denoteJSON(m, raw) })
	}
	k := lt.VKind()
	wrong := mustReject("JSON value of the wrong kind")
	switch {
	case k == model.KInt64 || k == model.KUint64:
		s, ok := raw.(string)
		if !ok {
			return wrong
		}
		if !intLexRe.MatchString(s) {
			return mustReject("malformed int64/uint64 string")
		}
		x, _ := new(big.Int).SetString(strings.TrimPrefix(s, "+"), 10)
		if strings.HasPrefix(s, "+") || (len(strings.TrimLeft(s, "+-")) > 1 && strings.TrimLeft(s, "+-")[0] == '0') || s == "-0" {
			// a decoder may insist on the canonical form: inside a union a later member may then take the string
			v := intVerdict(lt, k, x, "non-canonical (RFC 7950 9.2.1 allows sign and leading zeros)")
			v.tol = true
			return v
		}
		return intVerdict(lt, k, x, "canonical")
	case k.Signed() || k.Unsigned():
		n, ok := raw.(json.Number)
		if !ok {
			return wrong
		}
		r, ok := new(big.Rat).SetString(n.String())
		if !ok {
			return verdict{k: vOpen, why: "unparsable number"}
		}
		if !r.IsInt() {
			return mustReject("non-integral number for integer leaf")
		}
		why := "plain integer"
		if strings.ContainsAny(n.String(), ".eE") || n.String() == "-0" {
			why = "integral number with fraction/exponent/negative zero"
		}
		return intVerdict(lt, k, r.Num(), why)
	}
	switch k {
	case model.KDec:
		s, ok := raw.(string)
		if !ok {
			return wrong
		}
		var why string
		switch {
		case decLexRe.MatchString(s):
			why = "RFC 7950 lexical form"
		case decExpRe.MatchString(s):
			why = "exponent form (may accept)"
		case decLooseRe.MatchString(s):
			why = "digits missing next to the period (open)"
		default:
			return mustReject("malformed decimal64 string")
		}
		f, ok := ratFloat(strings.TrimPrefix(s, "+"))
		if !ok {
			return verdict{k: vOpen, why: "decimal beyond float64"}
		}
		v := denotes(model.Val{K: model.KDec, F: f, FD: lt.FD}, why)
		if _, err := model.ParseJSONValue(lt, model.RenderValue(v.val, model.JSONOpts{})); err != nil {
			v.restr = true
		}
		// forms outside the canonical one (sign, leading zeros, exponent, missing digits) may be refused
		v.tol = !canonDecRe.MatchString(s)
		return v
	case model.KStr:
		s, ok := raw.(string)
		if !ok {
			return wrong
		}
		v := denotes(model.Val{K: model.KStr, S: s}, "string")
		v.restr = !model.LenOK(lt.Length, utf8.RuneCountInString(s)) || !model.AcceptsLexical(lt, s)
		return v
	case model.KBool:
		b, ok := raw.(bool)
		if !ok {
			return wrong
		}
		return denotes(model.Val{K: model.KBool, Bool: b}, "boolean")
	case model.KEmpty:
		a, ok := raw.([]interface{})
		if !ok || len(a) != 1 || a[0] != nil {
			return mustReject("empty leaf not encoded as [null]")
		}
		return denotes(model.Val{K: model.KEmpty}, "[null]")
	case model.KBin:
		s, ok := raw.(string)
		if !ok {
			return wrong
		}
		if !b64Re.MatchString(s) {
			return mustReject("invalid base64")
		}
		b, err := base64.StdEncoding.Strict().DecodeString(s)
		if err != nil {
			// alphabet and padding are fine, the unused trailing bits are not zero: RFC 4648 3.5 lets a
			// decoder reject or ignore them
			b, err = base64.StdEncoding.DecodeString(s)
			if err != nil {
				return verdict{k: vOpen, why: "base64 decoder disagreement"}
			}
			v := denotes(model.Val{K: model.KBin, B: b}, "base64 with non-zero pad bits (may accept)")
			v.restr = !model.LenOK(lt.Length, len(b))
			return v
		}
		v := denotes(model.Val{K: model.KBin, B: b}, "base64")
		v.restr = !model.LenOK(lt.Length, len(b))
		return v
	case model.KEnum:
		s, ok := raw.(string)
		if !ok {
			return wrong
		}
		return enumVerdict(lt, s)
	}
	return verdict{k: vOpen, why: "unsupported type"}
}

// unionVerdict: RFC 7950 9.12, the first member (schema order) that accepts the input gives the value;
// the input must be rejected when every member must reject it.
func unionVerdict(lt *model.LType, f func(*model.LType) verdict) verdict {
	generic := func(w string) bool { return w == "JSON value of the wrong kind" || w == "wrong TypedValue kind" }
	sawOpen := false
	why := ""
	var tol []verdict
	for _, m := range lt.Members {
		v := f(m)
		switch v.k {
		case vDenotes, vAbsent:
			if v.tol {
				tol = append(tol, v)
				continue
			}
			if sawOpen {
				return verdict{k: vOpen, why: "an earlier union member leaves it open"}
			}
			for _, t := range tol {
				v.alts = append(v.alts, t.val)
			}
			return v
		case vOpen:
			sawOpen = true
		case vMustReject:
			if why == "" || (generic(why) && !generic(v.why)) {
				why = v.why
			}
		}
	}
	if sawOpen {
		return verdict{k: vOpen, why: "some union member leaves it open"}
	}
	if len(tol) > 0 {
		v := tol[0]
		for _, t := range tol[1:] {
			v.alts = append(v.alts, t.val)
		}
		return v
	}
	return mustReject(why)
}

// ---- TypedValue -------------------------------------------------------------------------------------

func tvKind(tv *gpb.TypedValue) string {
	switch tv.GetValue().(type) {
	case *gpb.TypedValue_IntVal:
		return "int_val"
	case *gpb.TypedValue_UintVal:
		return "uint_val"
	case *gpb.TypedValue_DoubleVal:
		return "double_val"
	case *gpb.TypedValue_FloatVal:
		return "float_val"
	case *gpb.TypedValue_StringVal:
		return "string_val"
	case *gpb.TypedValue_BoolVal:
		return "bool_val"
	case *gpb.TypedValue_BytesVal:
		return "bytes_val"
	case *gpb.TypedValue_LeaflistVal:
		return "leaflist_val"
	case *gpb.TypedValue_JsonIetfVal:
		return "json_ietf_val"
	case *gpb.TypedValue_JsonVal:
		return "json_val"
	case *gpb.TypedValue_DecimalVal:
		return "decimal_val"
	case *gpb.TypedValue_AnyVal:
		return "any_val"
	case *gpb.TypedValue_AsciiVal:
		return "ascii_val"
	case *gpb.TypedValue_ProtoBytes:
		return "proto_bytes"
	case nil:
		return "unset"
	}
	return "?"
}

// denoteTV classifies a scalar TypedValue for leaf type lt (gNMI specification 2.3.1: int_val /
// uint_val carry every width, double_val (or the deprecated float_val / decimal_val) carries
// decimal64, string_val strings, enumeration names and identities, bool_val booleans, bytes_val
// binary). A non-negative int_val for an unsigned leaf is ygot's documented
// TolerateJSONInconsistencies tolerance. Every other combination is a value of the wrong kind.
func denoteTV(lt *model.LType, tv *gpb.TypedValue) verdict {
	if lt.IsUnion() {
		return unionVerdict(lt, func(m *model.LType) verdict { return denoteTV(m, tv) })
	}
	k := lt.VKind()
	wrong := mustReject("wrong TypedValue kind")
	switch x := tv.GetValue().(type) {
	case *gpb.TypedValue_IntVal:
		switch {
		case k.Signed():
			return intVerdict(lt, k, big.NewInt(x.IntVal), "int_val")
		case k.Unsigned():
			v := intVerdict(lt, k, big.NewInt(x.IntVal), "int_val for unsigned leaf (tolerated)")
			v.tol = true
			return v
		}
	case *gpb.TypedValue_UintVal:
		switch {
		case k.Unsigned():
			return intVerdict(lt, k, new(big.Int).SetUint64(x.UintVal), "uint_val")
		case k.Signed():
			// not a documented tolerance: no verdict on acceptance, but an out-of-range number stays one
			v := intVerdict(lt, k, new(big.Int).SetUint64(x.UintVal), "uint_val for signed leaf (open)")
			v.tol = true
			return v
		}
	case *gpb.TypedValue_DoubleVal:
		if k == model.KDec {
			if math.IsNaN(x.DoubleVal) || math.IsInf(x.DoubleVal, 0) {
				return mustReject("non-finite number for decimal64 leaf")
			}
			return decVerdict(lt, x.DoubleVal, "double_val")
		}
	case *gpb.TypedValue_FloatVal:
		if k == model.KDec {
			f := float64(x.FloatVal)
			if math.IsNaN(f) || math.IsInf(f, 0) {
				return mustReject("non-finite number for decimal64 leaf")
			}
			return decVerdict(lt, f, "float_val (deprecated)")
		}
	case *gpb.TypedValue_DecimalVal:
		if k == model.KDec {
			if x.DecimalVal == nil || x.DecimalVal.Precision > 30 {
				return verdict{k: vOpen, why: "decimal_val nil or huge precision"}
			}
			r := new(big.Rat).SetFrac(big.NewInt(x.DecimalVal.Digits), new(big.Int).Exp(big.NewInt(10), big.NewInt(int64(x.DecimalVal.Precision)), nil))
			f, _ := r.Float64()
			return decVerdict(lt, f, "decimal_val (deprecated)")
		}
	case *gpb.TypedValue_StringVal:
		switch k {
		case model.KStr:
			v := denotes(model.Val{K: model.KStr, S: x.StringVal}, "string_val")
			v.restr = !model.LenOK(lt.Length, utf8.RuneCountInString(x.StringVal)) || !model.AcceptsLexical(lt, x.StringVal)
			return v
		case model.KEnum:
			return enumVerdict(lt, x.StringVal)
		}
	case *gpb.TypedValue_BoolVal:
		switch k {
		case model.KBool:
			return denotes(model.Val{K: model.KBool, Bool: x.BoolVal}, "bool_val")
		case model.KEmpty:
			if x.BoolVal {
				return denotes(model.Val{K: model.KEmpty}, "bool_val true for empty")
			}
			return verdict{k: vOpen, why: "bool_val false for empty"}
		}
	case *gpb.TypedValue_BytesVal:
		if k == model.KBin {
			if x.BytesVal == nil {
				return verdict{k: vOpen, why: "nil bytes_val"}
			}
			v := denotes(model.Val{K: model.KBin, B: append([]byte{}, x.BytesVal...)}, "bytes_val")
			v.restr = !model.LenOK(lt.Length, len(x.BytesVal))
			return v
		}
	case *gpb.TypedValue_AsciiVal:
		if k == model.KStr {
			return verdict{k: vOpen, why: "ascii_val for string"}
		}
	case nil:
		return verdict{k: vOpen, why: "unset TypedValue"}
	}
	return wrong
}

func decVerdict(lt *model.LType, f float64, why string) verdict {
	v := denotes(model.Val{K: model.KDec, F: f, FD: lt.FD}, why)
	if _, ok := model.FloatScaled(f, lt.FD); !ok {
		v.restr = true
	} else if _, err := model.ParseJSONValue(lt, model.RenderValue(v.val, model.JSONOpts{})); err != nil {
		v.restr = true
	}
	return v
}

// strictlyValid says whether val is inside the fully restricted value space of lt (then the harness's
// strict decoder must map ygot's rendering of it back to val).
func strictlyValid(lt *model.LType, val model.Val) bool {
	if val.K == model.KDec {
		if _, ok := model.FloatScaled(val.F, lt.FD); !ok && !lt.IsUnion() {
			return false
		}
	}
	got, err := model.ParseJSONValue(lt, roundTripJSON(model.RenderValue(val, model.JSONOpts{})))
	return err == nil && got.Equal(val)
}

// roundTripJSON converts a rendered value into the shape the decoder sees (json.Number etc).
func roundTripJSON(v interface{}) interface{} {
	b, err := json.Marshal(v)
	if err != nil {
		panic("HARNESS-BUG: " + err.Error())
	}
	r, err := decodeJSON(b)
	if err != nil {
		panic("HARNESS-BUG: " + err.Error())
	}
	return r
}
