package t4

import (
	"encoding/base64"
	"encoding/json"
	"fmt"
	"math/big"
	"regexp"
	"sort"
	"strconv"
	"strings"
	"sync"
	"testing"

	"github.com/openconfig/goyang/pkg/yang"
	"github.com/openconfig/ygot/ygot"
	"pgregory.net/rapid"
	"verifharness/ev"
	"verifharness/model"
	"verifharness/th"
)

// C19: every value ygot emits as RFC7951 JSON is encoded the RFC 7951 way for its YANG type, and member
// names / identityref values carry module names as RFC 7951 section 4 and 6.8 prescribe.

var (
	c19IntNumRe = regexp.MustCompile(`^-?(0|[1-9][0-9]*)$`)     // JSON number that is an integer literal
	c19Int64Re  = regexp.MustCompile(`^[+-]?[0-9]+$`)             // RFC 7950 9.2.1
	c19DecRe    = regexp.MustCompile(`^[+-]?[0-9]+(\.[0-9]+)?$`) // RFC 7950 9.3.1
	c19ExpRe    = regexp.MustCompile(`^[+-]?[0-9]+(\.[0-9]+)?[eE][+-]?[0-9]+$`)
)

var (
	leafIdxMu sync.Mutex
	leafIdx   = map[string]map[*yang.Entry]*model.FieldInfo{}
)

// leafIndex maps goyang leaf / leaf-list entries to a struct field that holds them (for the resolved type).
func leafIndex(v *model.Variant) map[*yang.Entry]*model.FieldInfo {
	leafIdxMu.Lock()
	defer leafIdxMu.Unlock()
	if m, ok := leafIdx[v.Name]; ok {
		return m
	}
	v.MustInit()
	m := map[*yang.Entry]*model.FieldInfo{}
	for _, si := range v.Structs {
		for _, f := range si.Fields {
			if f.Kind != model.FLeaf && f.Kind != model.FLeafList {
				continue
			}
			for _, alts := range [][][]string{f.Paths, f.Shadow} {
				for _, p := range alts {
					e := si.Entry
					for _, n := range p {
						e = childEntryOf(e, n)
					}
					if e != nil {
						if _, ok := m[e]; !ok {
							m[e] = f
						}
					}
				}
			}
		}
	}
	leafIdx[v.Name] = m
	return m
}

type c19walk struct {
	v           *model.Variant
	appendMod   bool // member-name prefixes and module:identity
	identPrefix bool // module:identity only
	problems    []string
	f14         []string // exponent-form decimals inside the F14 region (patched to plain form)
	augmented   int      // members below the top level whose module differs from the parent's
	prefixed    int
	wide        int // int64 / uint64 / decimal64 values seen
	decClass    map[string]int
	kinds       map[string]int
}

func (w *c19walk) bad(path, f string, a ...interface{}) {
	if len(w.problems) < 12 {
		w.problems = append(w.problems, path+": "+fmt.Sprintf(f, a...))
	}
}

func isListEntry(e *yang.Entry) bool { return e.Kind == yang.DirectoryEntry && e.ListAttr != nil }
func isLeafList(e *yang.Entry) bool  { return e.Kind == yang.LeafEntry && e.ListAttr != nil }

// object checks the members of one JSON object against schema node e (a container, list entry or the
// fake root). parentMod is the module of e ("" at the top level: every member is prefixed there).
func (w *c19walk) object(obj map[string]interface{}, e *yang.Entry, parentMod, path string) {
	seen := map[string]string{}
	keys := make([]string, 0, len(obj))
	for k := range obj {
		keys = append(keys, k)
	}
	sort.Strings(keys)
	for _, key := range keys {
		val := obj[key]
		mod, name := stripMod(key)
		p := path + "/" + key
		if prev, dup := seen[name]; dup {
			w.bad(p, "node %q appears twice (%q and %q)", name, prev, key)
		}
		seen[name] = key
		child := childEntryOf(e, name)
		if child == nil {
			w.bad(p, "member is not a child of schema node %s", e.Path())
			continue
		}
		cmod := w.v.ModuleOf(child)
		wantPrefix := w.appendMod && cmod != parentMod
		switch {
		case wantPrefix && mod != cmod:
			w.bad(p, "member name must carry the module prefix %q (node belongs to module %s, parent to %q), got %q", cmod+":", cmod, parentMod, key)
		case !wantPrefix && mod != "":
			if w.appendMod {
				w.bad(p, "member name carries the prefix %q although the node belongs to its parent's module %s", mod+":", parentMod)
			} else {
				w.bad(p, "member name carries the prefix %q although AppendModuleName is not set", mod+":")
			}
		}
		if wantPrefix {
			w.prefixed++
			if parentMod != "" {
				w.augmented++
			}
		} else if !w.appendMod && parentMod != "" && cmod != parentMod {
			w.augmented++
		}
		switch {
		case isListEntry(child):
			arr, ok := val.([]interface{})
			if !ok {
				w.bad(p, "list must be a JSON array, got %s", jsonKind(val))
				continue
			}
			for i, x := range arr {
				m, ok := x.(map[string]interface{})
				if !ok {
					w.bad(p, "list entry %d must be a JSON object, got %s", i, jsonKind(x))
					continue
				}
				w.object(m, child, cmod, fmt.Sprintf("%s[%d]", p, i))
			}
		case child.Kind == yang.DirectoryEntry:
			m, ok := val.(map[string]interface{})
			if !ok {
				w.bad(p, "container must be a JSON object, got %s", jsonKind(val))
				continue
			}
			w.object(m, child, cmod, p)
		case isLeafList(child):
			arr, ok := val.([]interface{})
			if !ok {
				w.bad(p, "leaf-list must be a JSON array, got %s", jsonKind(val))
				continue
			}
			f := leafIndex(w.v)[child]
			if f == nil {
				w.bad(p, "HARNESS-BUG: no struct field for leaf-list %s", child.Path())
				continue
			}
			for i, x := range arr {
				if msg, repl := w.value(f.Type, x); msg != "" {
					w.bad(fmt.Sprintf("%s[%d]", p, i), "%s", msg)
				} else if repl != nil {
					arr[i] = repl
				}
			}
		default:
			f := leafIndex(w.v)[child]
			if f == nil {
				w.bad(p, "HARNESS-BUG: no struct field for leaf %s", child.Path())
				continue
			}
			if msg, repl := w.value(f.Type, val); msg != "" {
				w.bad(p, "%s", msg)
			} else if repl != nil {
				obj[key] = repl
			}
		}
	}
}

func decMagClass(f float64) string {
	if f < 0 {
		f = -f
	}
	switch {
	case f == 0:
		return "dec:zero"
	case f < 1e-9:
		return "dec:<1e-9"
	case f < 1e-4:
		return "dec:<1e-4"
	case f < 1:
		return "dec:<1"
	case f < 1e6:
		return "dec:<1e6"
	case f < 1e12:
		return "dec:<1e12"
	case f < 1e15:
		return "dec:<1e15"
	}
	return "dec:>=1e15"
}

// value checks one emitted leaf value against (non-leafref-resolved) type lt. It returns a problem
// description or "", and a replacement when an excused exponent-form decimal was normalised.
func (w *c19walk) value(lt *model.LType, raw interface{}) (string, interface{}) {
	if lt.IsUnion() {
		var first string
		for _, m := range lt.Members {
			msg, repl := w.value(m, raw)
			if msg == "" {
				return "", repl
			}
			if first == "" || strings.HasPrefix(first, "wrong JSON kind") {
				first = msg
			}
		}
		return fmt.Sprintf("value %v is not the RFC 7951 encoding of any member of %s (%s)", raw, lt.TypeName(), first), nil
	}
	k := lt.VKind()
	kind := jsonKind(raw)
	wrong := func(want string) (string, interface{}) {
		return fmt.Sprintf("wrong JSON kind for %s: want %s, got %s %v", lt.TypeName(), want, kind, raw), nil
	}
	switch {
	case k == model.KInt64 || k == model.KUint64:
		s, ok := raw.(string)
		if !ok {
			return wrong("string (RFC 7951 6.1)")
		}
		if !c19Int64Re.MatchString(s) {
			return fmt.Sprintf("%s value %q is not in the RFC 7950 9.2.1 lexical form (decimal digits)", lt.TypeName(), s), nil
		}
		x, _ := new(big.Int).SetString(strings.TrimPrefix(s, "+"), 10)
		lo, hi := kindBounds(k)
		if x.Cmp(lo) < 0 || x.Cmp(hi) > 0 {
			return fmt.Sprintf("%s value %q out of range", lt.TypeName(), s), nil
		}
		w.wide++
		w.kinds["64-bit"]++
		return "", nil
	case k.Signed() || k.Unsigned():
		n, ok := raw.(json.Number)
		if !ok {
			return wrong("number (RFC 7951 6.1)")
		}
		if !c19IntNumRe.MatchString(n.String()) {
			return fmt.Sprintf("%s value %s is not an integer literal", lt.TypeName(), n), nil
		}
		x, _ := new(big.Int).SetString(n.String(), 10)
		lo, hi := kindBounds(k)
		if x.Cmp(lo) < 0 || x.Cmp(hi) > 0 {
			return fmt.Sprintf("%s value %s out of range", lt.TypeName(), n), nil
		}
		w.kinds["small-int"]++
		return "", nil
	}
	switch k {
	case model.KDec:
		s, ok := raw.(string)
		if !ok {
			return wrong("string (RFC 7951 6.1)")
		}
		if c19DecRe.MatchString(s) {
			f, _ := ratFloat(strings.TrimPrefix(s, "+"))
			w.decClass[decMagClass(f)]++
			w.wide++
			w.kinds["decimal64"]++
			return "", nil
		}
		if c19ExpRe.MatchString(s) {
			if f, ok := ratFloat(strings.TrimPrefix(s, "+")); ok && f14Exp(model.Val{K: model.KDec, F: f}) {
				w.decClass[decMagClass(f)]++
				w.wide++
				w.kinds["decimal64"]++
				w.f14 = append(w.f14, s)
				return "", strconv.FormatFloat(f, 'f', -1, 64)
			}
		}
		return fmt.Sprintf("decimal64 value %q is not in the RFC 7950 9.3.1 lexical form (digits, optional period and digits, no exponent)", s), nil
	case model.KStr:
		if _, ok := raw.(string); !ok {
			return wrong("string")
		}
		w.kinds["string"]++
		return "", nil
	case model.KBool:
		if _, ok := raw.(bool); !ok {
			return wrong("true/false (RFC 7951 6.3)")
		}
		w.kinds["boolean"]++
		return "", nil
	case model.KEmpty:
		a, ok := raw.([]interface{})
		if !ok || len(a) != 1 || a[0] != nil {
			return fmt.Sprintf("empty leaf must be [null] (RFC 7951 6.9), got %s %v", kind, raw), nil
		}
		w.kinds["empty"]++
		return "", nil
	case model.KBin:
		s, ok := raw.(string)
		if !ok {
			return wrong("base64 string (RFC 7951 6.6)")
		}
		if !b64Re.MatchString(s) {
			return fmt.Sprintf("binary value %q is not base64 (RFC 4648 section 4)", s), nil
		}
		if _, err := base64.StdEncoding.Strict().DecodeString(s); err != nil {
			return fmt.Sprintf("binary value %q: %v", s, err), nil
		}
		w.kinds["binary"]++
		return "", nil
	case model.KEnum:
		s, ok := raw.(string)
		if !ok {
			return wrong("string (name)")
		}
		if !lt.Ident {
			for _, m := range lt.Enum {
				if m.Name == s {
					w.kinds["enumeration"]++
					return "", nil
				}
			}
			return fmt.Sprintf("%q is not a name of the enumeration %v", s, enumNamesOf(lt)), nil
		}
		mods := identityModules(lt)
		for _, m := range lt.Enum {
			want := m.Name
			if w.appendMod || w.identPrefix {
				want = mods[m.Name] + ":" + m.Name
			}
			if s == want {
				w.kinds["identityref"]++
				return "", nil
			}
		}
		form := "the bare identity name"
		if w.appendMod || w.identPrefix {
			form = "module:identity"
		}
		return fmt.Sprintf("identityref value %q is not %s of an identity derived from the base", s, form), nil
	}
	return "unsupported type " + lt.TypeName(), nil
}

func enumNamesOf(lt *model.LType) []string {
	var out []string
	for _, m := range lt.Enum {
		out = append(out, m.Name)
	}
	return out
}

// populatedContainers lists the container / list-entry nodes of a tree (for sub-struct rendering).
func populatedNodes(n *model.Node, out *[]*model.Node) {
	for _, f := range n.SI.Fields {
		switch f.Kind {
		case model.FCont:
			if c, ok := n.Cont[f.Name]; ok {
				*out = append(*out, c)
				populatedNodes(c, out)
			}
		case model.FList, model.FOrdList:
			for _, e := range n.List[f.Name] {
				*out = append(*out, e.N)
				populatedNodes(e.N, out)
			}
		case model.FUList:
			for _, e := range n.UList[f.Name] {
				*out = append(*out, e)
				populatedNodes(e, out)
			}
		}
	}
}

func TestC19(t *testing.T) {
	rec := ev.Start(t, "C19")
	rec.Rule("variant (all six) x generated schema-conforming tree (decimal magnitudes 1e-18..1e17: MaxDec 49/56/62) x RFC7951JSONConfig (nil | AppendModuleName | PrependModuleNameIdentityref | empty | AppendModuleName+empty RewriteModuleNames) " +
		"x entry point (Marshal7951 | EmitJSON RFC7951 | ConstructIETFJSON | Marshal7951 of a sub-struct); oracle: output parsed with encoding/json (UseNumber) and walked with goyang's schema: JSON kind and lexical form per type " +
		"(RFC 7950 9 / RFC 7951 6: 8/16/32-bit integers numbers, int64/uint64/decimal64 digit strings without exponent, base64, [null], booleans, enum names, module:identity), member-name prefix present iff AppendModuleName and the node's module differs from its parent's (always at the top level), " +
		"and the strict harness decoder maps the output back to the model; non-trivial = output holds a 64-bit or decimal64 value and a node whose module differs from its parent's below the top level; distinct by variant+tree+config+entry")
	rec.Assume("trees are schema-conforming (GenTree); decimal64 values are float64 (ygot's documented representation), nearest to a multiple of 10^-fraction-digits")
	witnessF14(rec)
	var total, nontriv, withAug, withWide, tiny, huge int64
	rapid.Check(t, func(rt *rapid.T) {
		v := th.PickVariant(rt, th.AllVariants...)
		o := model.GenOpts{MaxDec: rapid.SampledFrom([]int{49, 49, 56, 62}).Draw(rt, "maxdec")}
		f14Active := rec.Active(F14)
		if f14Active {
			o.Avoid = func(_ *model.FieldInfo, val model.Val) bool { return f14Exp(val) }
		}
		if rapid.IntRange(0, 3).Draw(rt, "wantwide") == 0 {
			o.Want = func(f *model.FieldInfo) bool {
				return f.Type != nil && (hasKind(f.Type, model.KDec) || hasKind(f.Type, model.KInt64) || hasKind(f.Type, model.KUint64))
			}
		}
		m := model.GenTree(rt, v, o)
		cfgI := rapid.IntRange(0, 4).Draw(rt, "cfg")
		var cfg *ygot.RFC7951JSONConfig
		switch cfgI {
		case 1:
			cfg = &ygot.RFC7951JSONConfig{AppendModuleName: true}
		case 2:
			cfg = &ygot.RFC7951JSONConfig{PrependModuleNameIdentityref: true}
		case 3:
			cfg = &ygot.RFC7951JSONConfig{}
		case 4:
			cfg = &ygot.RFC7951JSONConfig{AppendModuleName: true, RewriteModuleNames: map[string]string{}}
		}
		// shadow-path tags exist only in the variant generated with -ignore_shadow_schema_paths (vocc):
		// both settings are rendered in one process
		if v.Name == "vocc" && cfg != nil && rapid.Bool().Draw(rt, "preferShadowPath") {
			cfg.PreferShadowPath = true
		}
		entry := rapid.SampledFrom([]string{"Marshal7951", "EmitJSON", "ConstructIETFJSON", "Marshal7951-sub"}).Draw(rt, "entry")
		target := m
		if entry == "Marshal7951-sub" {
			var nodes []*model.Node
			populatedNodes(m, &nodes)
			if len(nodes) == 0 {
				entry = "Marshal7951"
			} else {
				target = nodes[rapid.IntRange(0, len(nodes)-1).Draw(rt, "subnode")]
			}
		}
		gs := model.Build(target)
		var out []byte
		var err error
		switch entry {
		case "Marshal7951", "Marshal7951-sub":
			var args []ygot.Marshal7951Arg
			if cfg != nil {
				args = append(args, cfg)
			}
			if rapid.Bool().Draw(rt, "indent") {
				args = append(args, ygot.JSONIndent(" "))
			}
			out, err = ygot.Marshal7951(gs, args...)
		case "EmitJSON":
			var s string
			s, err = ygot.EmitJSON(gs, &ygot.EmitJSONConfig{Format: ygot.RFC7951, RFC7951Config: cfg, SkipValidation: true, Indent: rapid.SampledFrom([]string{"", "  "}).Draw(rt, "indent")})
			out = []byte(s)
		case "ConstructIETFJSON":
			var mp map[string]interface{}
			mp, err = ygot.ConstructIETFJSON(gs, cfg)
			if err == nil {
				out, err = json.Marshal(mp)
			}
		}
		desc := func() string {
			return fmt.Sprintf("variant %s, entry %s, config #%d %+v\noutput: %s\ntree:\n%s", v.Name, entry, cfgI, cfg, th.Trunc(string(out), 3000), target.Dump())
		}
		if err != nil {
			rt.Fatalf("%s failed on a schema-conforming tree: %v\n%s", entry, err, desc())
		}
		doc, derr := decodeJSON(out)
		if derr != nil {
			rt.Fatalf("output is not JSON: %v\n%s", derr, desc())
		}
		obj, ok := doc.(map[string]interface{})
		if !ok {
			rt.Fatalf("output is not a JSON object\n%s", desc())
		}
		w := &c19walk{v: v, decClass: map[string]int{}, kinds: map[string]int{}}
		if cfg != nil {
			w.appendMod, w.identPrefix = cfg.AppendModuleName, cfg.PrependModuleNameIdentityref
		}
		start := v.FakeRoot
		if target != m {
			start = target.SI.Entry
		}
		w.object(obj, start, "", "")

		st := target.Stat()
		nt := w.wide > 0 && w.augmented > 0
		cl := append(th.TreeClasses(v, st), fmt.Sprintf("cfg:%d", cfgI), "entry:"+entry)
		for k := range w.decClass {
			cl = append(cl, k)
		}
		for k := range w.kinds {
			cl = append(cl, "emits:"+k)
		}
		if w.augmented > 0 {
			cl = append(cl, "out:node-of-other-module-below-top")
		}
		if w.prefixed > 0 {
			cl = append(cl, "out:prefixed-member")
		}
		if w.wide > 0 {
			cl = append(cl, "out:64-bit-or-decimal")
		}
		if len(w.f14) > 0 {
			cl = append(cl, "out:exponent-decimal")
		}
		rec.Case(fmt.Sprintf("%s|%s|%d|%s", v.Name, entry, cfgI, target.Dump()), nt, cl...)
		if rec.WantSample() {
			rec.Sample(map[string]string{"variant": v.Name, "entry": entry, "config": fmt.Sprintf("%+v", cfg), "output": th.Trunc(string(out), 1200)})
		}
		total++
		if nt {
			nontriv++
		}
		if w.augmented > 0 {
			withAug++
		}
		if w.wide > 0 {
			withWide++
		}
		if w.decClass["dec:<1e-9"]+w.decClass["dec:<1e-4"] > 0 {
			tiny++
		}
		if w.decClass["dec:>=1e15"] > 0 {
			huge++
		}

		if len(w.f14) > 0 {
			if !rec.Excuse(F14, true) {
				rt.Fatalf("decimal64 emitted in exponent form %v (RFC 7951 6.1 / RFC 7950 9.3.1: decimal digits, no exponent)\n%s", w.f14, desc())
			}
		}
		if len(w.problems) > 0 {
			rt.Fatalf("RFC 7951 encoding violated:\n  %s\n%s", strings.Join(w.problems, "\n  "), desc())
		}
		// value equality through the strict decoder (exponent forms excused above were normalised); with
		// PreferShadowPath the document is laid out along the shadow paths, which the decoder for this
		// variant does not know: the encoding walk above is the whole check then
		if cfg != nil && cfg.PreferShadowPath {
			return
		}
		back, perr := model.ParseJSON(target.SI, encodeJSON(obj))
		if perr != nil {
			rt.Fatalf("strict RFC 7951 decoder rejects ygot's output: %v\n%s", perr, desc())
		}
		want := target.Clone().Normalize()
		if d := model.Diff(want, back.Normalize(), model.DiffOpts{}); len(d) > 0 {
			rt.Fatalf("output does not decode to the tree that was rendered:\n  %s\n%s", th.JoinDiff(d), desc())
		}
	})
	if total >= 300 && !t.Failed() {
		if pct(withAug, total) < 8 {
			t.Errorf("INCONCLUSIVE: C19 generator health: only %d of %d outputs hold a node of another module below the top level", withAug, total)
		}
		if pct(withWide, total) < 40 {
			t.Errorf("INCONCLUSIVE: C19 generator health: only %d of %d outputs hold a 64-bit or decimal64 value", withWide, total)
		}
		if pct(nontriv, total) < 5 {
			t.Errorf("INCONCLUSIVE: C19 generator health: only %d of %d cases are non-trivial", nontriv, total)
		}
		if tiny < 3 || huge < 3 {
			t.Errorf("INCONCLUSIVE: C19 generator health: decimal magnitudes are not spread: %d outputs with |v|<1e-4, %d with |v|>=1e15 of %d", tiny, huge, total)
		}
	}
}
