package pmap

// Generator: populates messages of the annotated test protos through protoreflect, driven by the
// classified descriptors (model_test.go). Every random choice is a rapid draw.

import (
	"sort"

	"google.golang.org/protobuf/proto"
	"google.golang.org/protobuf/reflect/protoreflect"
	"pgregory.net/rapid"

	aftpb "github.com/openconfig/ygot/protomap/integration_tests/testdata/gribi_aft"
	epb "github.com/openconfig/ygot/protomap/testdata/exschemapath"
)

type rootType struct {
	name   string
	md     protoreflect.MessageDescriptor
	prefix []string
}

// roots are the messages whose annotations are absolute from "/" (usable without options).
func roots() []rootType {
	return []rootType{
		{"exschemapath.Root", (&epb.Root{}).ProtoReflect().Descriptor(), nil},
		{"exschemapath.ExampleMessage", (&epb.ExampleMessage{}).ProtoReflect().Descriptor(), nil},
		{"gribi_aft.Device", (&aftpb.Device{}).ProtoReflect().Descriptor(), nil},
	}
}

// subMessages are all (message, schema prefix) pairs reachable from the roots through supported
// containers and lists: the domain of the ProtobufMessagePrefix / ValuePathPrefix relations.
func subMessages() []rootType {
	var out []rootType
	seen := map[string]bool{}
	var walk func(mi *msgInfo)
	walk = func(mi *msgInfo) {
		for _, fi := range mi.fields {
			var md protoreflect.MessageDescriptor
			switch fi.kind {
			case kContainer:
				md = fi.fd.Message()
			case kList:
				md = fi.memberFd.Message()
			default:
				continue
			}
			k := string(md.FullName()) + "@" + pfxString(fi.childPrefix)
			if seen[k] {
				continue
			}
			seen[k] = true
			ci := info(md, fi.childPrefix)
			usable := false
			for _, f := range ci.fields {
				if f.kind != kSkip {
					usable = true
				}
			}
			if usable {
				out = append(out, rootType{string(md.FullName()), md, fi.childPrefix})
			}
			walk(ci)
		}
	}
	for _, r := range roots() {
		walk(info(r.md, r.prefix))
	}
	sort.Slice(out, func(i, j int) bool {
		return out[i].name+pfxString(out[i].prefix) < out[j].name+pfxString(out[j].prefix)
	})
	return out
}

// shape holds the per-case knobs (all drawn through rapid).
type shape struct {
	maxDepth   int  // container/list nesting below the top message
	maxEntries int  // entries per list
	pLeaf      int  // percent chance that a leaf-like field is set
	pChild     int  // percent chance that a container / list is populated
	uintLeaf   bool // allow ywrapper.UintValue leaves
	simpleLL   bool // allow scalar leaf-lists
	contInList bool // allow containers inside list members
}

func drawShape(rt *rapid.T) shape {
	return shape{
		maxDepth:   rapid.IntRange(1, 5).Draw(rt, "maxDepth"),
		maxEntries: rapid.IntRange(1, 3).Draw(rt, "maxEntries"),
		pLeaf:      rapid.SampledFrom([]int{15, 35, 60, 90}).Draw(rt, "pLeaf"),
		pChild:     rapid.SampledFrom([]int{35, 60, 90}).Draw(rt, "pChild"),
		uintLeaf:   rapid.IntRange(0, 9).Draw(rt, "allowUintLeaf") < 7,
		simpleLL:   rapid.IntRange(0, 9).Draw(rt, "allowSimpleLL") < 7,
		contInList: rapid.IntRange(0, 9).Draw(rt, "allowContInList") < 7,
	}
}

var strAlphabet = []rune("abAZ09 -_./:[]=\\\"'*é中")

func genString(rt *rapid.T, label string) string {
	if rapid.IntRange(0, 9).Draw(rt, label+"Short") < 6 {
		return rapid.SampledFrom([]string{"", "a", "eth0", "1.0.0.0/24", "VAL_ONE", "x y"}).Draw(rt, label)
	}
	return rapid.StringOfN(rapid.RuneFrom(strAlphabet), 0, 8, -1).Draw(rt, label)
}

func genUint(rt *rapid.T, label string) uint64 {
	switch rapid.IntRange(0, 9).Draw(rt, label+"Class") {
	case 0:
		return 0
	case 1:
		return ^uint64(0)
	case 2, 3:
		return rapid.Uint64().Draw(rt, label)
	default:
		return rapid.Uint64Range(0, 300).Draw(rt, label)
	}
}

func genBytes(rt *rapid.T, label string) []byte {
	return rapid.SliceOfN(rapid.Byte(), 0, 5).Draw(rt, label)
}

func chance(rt *rapid.T, pct int, label string) bool {
	return rapid.IntRange(0, 99).Draw(rt, label) < pct
}

func setWrapper(rt *rapid.T, w protoreflect.Message, wk, label string) {
	vf := w.Descriptor().Fields().ByName("value")
	switch wk {
	case "string":
		w.Set(vf, protoreflect.ValueOfString(genString(rt, label)))
	case "uint":
		w.Set(vf, protoreflect.ValueOfUint64(genUint(rt, label)))
	case "bytes":
		w.Set(vf, protoreflect.ValueOfBytes(genBytes(rt, label)))
	case "bool":
		w.Set(vf, protoreflect.ValueOfBool(rapid.Bool().Draw(rt, label)))
	case "int":
		w.Set(vf, protoreflect.ValueOfInt64(rapid.Int64().Draw(rt, label)))
	}
}

// genMessage generates a top-level message of type r in canonical form (no empty containers).
func genMessage(rt *rapid.T, r rootType, sh shape) proto.Message {
	mi := info(r.md, r.prefix)
	m := newMessage(r.md)
	genInto(rt, m, mi, sh, 0, false)
	prune(m, mi)
	return m.Interface()
}

func newMessage(md protoreflect.MessageDescriptor) protoreflect.Message {
	switch md.FullName() {
	case "exschemapath.Root":
		return (&epb.Root{}).ProtoReflect()
	case "exschemapath.ExampleMessage":
		return (&epb.ExampleMessage{}).ProtoReflect()
	case "ygot.protomap.tests.gribi_aft.Device":
		return (&aftpb.Device{}).ProtoReflect()
	}
	// Sub-messages: create through a parent-independent route, the registered Go type.
	mt, err := registryFind(md.FullName())
	if err != nil {
		panic("HARNESS-BUG: no Go type for " + string(md.FullName()) + ": " + err.Error())
	}
	return mt.New()
}

func genInto(rt *rapid.T, m protoreflect.Message, mi *msgInfo, sh shape, depth int, inList bool) {
	for _, fi := range mi.fields {
		n := string(fi.fd.Name())
		switch fi.kind {
		case kLeaf:
			if fi.wk == "uint" && !sh.uintLeaf {
				continue
			}
			if !chance(rt, sh.pLeaf, "set-"+n) {
				continue
			}
			setWrapper(rt, m.Mutable(fi.fd).Message(), fi.wk, n)
		case kEnum:
			if !chance(rt, sh.pLeaf, "set-"+n) {
				continue
			}
			ev := rapid.SampledFrom(enumChoices(fi.fd.Enum())).Draw(rt, n)
			m.Set(fi.fd, protoreflect.ValueOfEnum(ev.Number()))
		case kLeafList:
			if !sh.simpleLL || !chance(rt, sh.pLeaf, "set-"+n) {
				continue
			}
			l := m.Mutable(fi.fd).List()
			cnt := rapid.IntRange(1, 4).Draw(rt, "len-"+n)
			for i := 0; i < cnt; i++ {
				e := l.NewElement()
				setWrapper(rt, e.Message(), fi.wk, n)
				l.Append(e)
			}
		case kUnionLL:
			if !chance(rt, sh.pLeaf, "set-"+n) {
				continue
			}
			l := m.Mutable(fi.fd).List()
			cnt := rapid.IntRange(1, 4).Draw(rt, "len-"+n)
			for i := 0; i < cnt; i++ {
				e := l.NewElement()
				u := fi.members[rapid.IntRange(0, len(fi.members)-1).Draw(rt, "member-"+n)]
				// proto3 scalars have no presence: the zero value of a member is "no member set",
				// which stands for no YANG value at all. Members are generated non-zero.
				switch u.kind {
				case protoreflect.StringKind:
					s := genString(rt, n)
					if s == "" {
						s = "u"
					}
					e.Message().Set(u.fd, protoreflect.ValueOfString(s))
				case protoreflect.Uint64Kind:
					v := genUint(rt, n)
					if v == 0 {
						v = 1
					}
					e.Message().Set(u.fd, protoreflect.ValueOfUint64(v))
				case protoreflect.BoolKind:
					e.Message().Set(u.fd, protoreflect.ValueOfBool(true))
				case protoreflect.EnumKind:
					ev := rapid.SampledFrom(enumChoices(u.fd.Enum())).Draw(rt, n)
					e.Message().Set(u.fd, protoreflect.ValueOfEnum(ev.Number()))
				}
				l.Append(e)
			}
		case kContainer:
			if depth >= sh.maxDepth || (inList && !sh.contInList) || !chance(rt, sh.pChild, "set-"+n) {
				continue
			}
			genInto(rt, m.Mutable(fi.fd).Message(), info(fi.fd.Message(), fi.childPrefix), sh, depth+1, inList)
		case kList:
			if depth >= sh.maxDepth || !chance(rt, sh.pChild, "set-"+n) {
				continue
			}
			cnt := rapid.IntRange(1, sh.maxEntries).Draw(rt, "entries-"+n)
			l := m.Mutable(fi.fd).List()
			ci := info(fi.memberFd.Message(), fi.childPrefix)
			seen := map[string]bool{}
			for i := 0; i < cnt; i++ {
				e := l.NewElement()
				em := e.Message()
				for _, k := range fi.keyFds {
					if k.Kind() == protoreflect.Uint64Kind {
						em.Set(k, protoreflect.ValueOfUint64(genUint(rt, "key-"+string(k.Name()))))
					} else {
						em.Set(k, protoreflect.ValueOfString(genString(rt, "key-"+string(k.Name()))))
					}
				}
				// list keys are unique
				if ek := entryKey(em, fi); seen[ek] {
					continue
				} else {
					seen[ek] = true
				}
				// the member is always set: an entry exists as soon as its key does
				genInto(rt, em.Mutable(fi.memberFd).Message(), ci, sh, depth+1, true)
				l.Append(e)
			}
		}
	}
}
