package pmap

// Independent reference for the paths half of C24: from a populated message and the descriptors
// alone, compute every data-tree path (annotation + list keys) that may be emitted and the value
// it must carry. Nothing of protomap or ygot is used here.

import (
	"fmt"
	"reflect"
	"sort"
	"strconv"
	"strings"

	"google.golang.org/protobuf/reflect/protoreflect"

	gpb "github.com/openconfig/gnmi/proto/gnmi"
)

type pelem struct {
	name string
	keys map[string]string
}

func renderElems(es []pelem) string {
	var b strings.Builder
	for _, e := range es {
		b.WriteByte('/')
		b.WriteString(e.name)
		ks := make([]string, 0, len(e.keys))
		for k := range e.keys {
			ks = append(ks, k)
		}
		sort.Strings(ks)
		for _, k := range ks {
			fmt.Fprintf(&b, "[%s=%q]", k, e.keys[k])
		}
	}
	return b.String()
}

// renderPath is the same canonical rendering for a gNMI path produced by the code under test.
func renderPath(p *gpb.Path) string {
	es := make([]pelem, 0, len(p.GetElem()))
	for _, e := range p.GetElem() {
		es = append(es, pelem{e.GetName(), e.GetKey()})
	}
	s := renderElems(es)
	if p.GetOrigin() != "" || p.GetTarget() != "" || len(p.GetElement()) != 0 {
		s = fmt.Sprintf("origin=%q target=%q element=%q %s", p.GetOrigin(), p.GetTarget(), p.GetElement(), s)
	}
	return s
}

// dataPath resolves annotation ann below the data-tree path base: the elements of base (with their
// keys) followed by the remaining schema elements of ann.
func dataPath(base []pelem, ann []string) []pelem {
	for i := range base {
		if i >= len(ann) || base[i].name != ann[i] {
			panic(fmt.Sprintf("HARNESS-BUG: annotation %v is not below %s", ann, renderElems(base)))
		}
	}
	out := append([]pelem{}, base...)
	for _, n := range ann[len(base):] {
		out = append(out, pelem{name: n})
	}
	return out
}

type expLeaf struct {
	field string   // full name of the proto field
	paths []string // rendered data-tree paths of all its annotations
	val   interface{}
}

// refPaths walks m and returns path -> expected value plus the list of populated leaves.
func refPaths(m protoreflect.Message, mi *msgInfo, base []pelem, exp map[string]interface{}, leaves *[]expLeaf) {
	add := func(fi *fieldInfo, anns [][]string, from []pelem, name string, v interface{}) {
		l := expLeaf{field: name, val: v}
		for _, a := range anns {
			p := renderElems(dataPath(from, a))
			exp[p] = v
			l.paths = append(l.paths, p)
		}
		*leaves = append(*leaves, l)
	}
	for _, fi := range mi.fields {
		if !m.Has(fi.fd) {
			continue
		}
		name := string(fi.fd.FullName())
		switch fi.kind {
		case kSkip:
			panic("HARNESS-BUG: generated message has a field outside the domain: " + name + " (" + fi.why + ")")
		case kLeaf:
			add(fi, fi.anns, base, name, wrapperValue(m.Get(fi.fd).Message(), fi.wk))
		case kEnum:
			ev := fi.fd.Enum().Values().ByNumber(m.Get(fi.fd).Enum())
			if ev == nil || yangName(ev) == "" {
				panic("HARNESS-BUG: enum value without yang_name in " + name)
			}
			add(fi, fi.anns, base, name, yangName(ev))
		case kLeafList:
			l := m.Get(fi.fd).List()
			vs := make([]interface{}, 0, l.Len())
			for i := 0; i < l.Len(); i++ {
				vs = append(vs, wrapperValue(l.Get(i).Message(), fi.wk))
			}
			add(fi, fi.anns, base, name, vs)
		case kUnionLL:
			l := m.Get(fi.fd).List()
			vs := make([]interface{}, 0, l.Len())
			for i := 0; i < l.Len(); i++ {
				em := l.Get(i).Message()
				var v interface{}
				n := 0
				for _, u := range fi.members {
					if !em.Has(u.fd) {
						continue
					}
					n++
					switch u.kind {
					case protoreflect.StringKind:
						v = em.Get(u.fd).String()
					case protoreflect.Uint64Kind:
						v = em.Get(u.fd).Uint()
					case protoreflect.BoolKind:
						v = em.Get(u.fd).Bool()
					case protoreflect.EnumKind:
						v = yangName(u.fd.Enum().Values().ByNumber(em.Get(u.fd).Enum()))
					}
				}
				if n != 1 {
					panic("HARNESS-BUG: union element without exactly one member in " + name)
				}
				vs = append(vs, v)
			}
			add(fi, fi.anns, base, name, vs)
		case kContainer:
			refPaths(m.Get(fi.fd).Message(), info(fi.fd.Message(), fi.childPrefix), dataPath(base, fi.anns[0]), exp, leaves)
		case kList:
			l := m.Get(fi.fd).List()
			ci := info(fi.memberFd.Message(), fi.childPrefix)
			for i := 0; i < l.Len(); i++ {
				em := l.Get(i).Message()
				ep := dataPath(base, fi.anns[0])
				keys := map[string]string{}
				for j, k := range fi.keyFds {
					if k.Kind() == protoreflect.Uint64Kind {
						keys[fi.keyNames[j]] = strconv.FormatUint(em.Get(k).Uint(), 10)
					} else {
						keys[fi.keyNames[j]] = em.Get(k).String()
					}
				}
				ep[len(ep)-1].keys = keys
				for j, k := range fi.keyFds {
					var v interface{}
					if k.Kind() == protoreflect.Uint64Kind {
						v = em.Get(k).Uint()
					} else {
						v = em.Get(k).String()
					}
					add(fi, fi.keyAnns[j], ep, string(k.FullName())+"["+entryKey(em, fi)+"]", v)
				}
				if !em.Has(fi.memberFd) {
					panic("HARNESS-BUG: list entry without member in " + name)
				}
				refPaths(em.Get(fi.memberFd).Message(), ci, ep, exp, leaves)
			}
		}
	}
}

func wrapperValue(w protoreflect.Message, wk string) interface{} {
	v := w.Get(w.Descriptor().Fields().ByName("value"))
	switch wk {
	case "string":
		return v.String()
	case "uint":
		return v.Uint()
	case "bytes":
		return v.Bytes()
	case "bool":
		return v.Bool()
	case "int":
		return v.Int()
	}
	panic("HARNESS-BUG: wrapper kind " + wk)
}

// normValue maps a path value to a canonical form so that the comparison does not depend on how a
// repair of F18 chooses to type integers and slices: uint/uint64 -> uint64, int/int64 -> int64,
// []byte stays (nil == empty), every other slice -> []interface{} of normalised elements.
func normValue(v interface{}) interface{} {
	switch t := v.(type) {
	case nil:
		return nil
	case []byte:
		return "bytes:" + string(t)
	case uint:
		return uint64(t)
	case uint32:
		return uint64(t)
	case int:
		return int64(t)
	case int32:
		return int64(t)
	case protoreflect.EnumNumber:
		return fmt.Sprintf("enum-number:%d", t)
	}
	rv := reflect.ValueOf(v)
	if rv.Kind() == reflect.Slice {
		out := make([]interface{}, rv.Len())
		for i := range out {
			out[i] = normValue(rv.Index(i).Interface())
		}
		return out
	}
	return v
}

func valuesMatch(got, want interface{}) bool {
	return reflect.DeepEqual(normValue(got), normValue(want))
}

func showValue(v interface{}) string {
	if b, ok := v.([]byte); ok {
		return fmt.Sprintf("[]byte 0x%x", b)
	}
	return fmt.Sprintf("%T %#v", v, v)
}
