package pmap

// Descriptor-driven model of the ygen-generated annotated protobufs: which fields are inside the
// domain of C24 ("kinds protomap supports"), their yext.schemapath annotations (parsed here, not with
// protomap/ygot code), and helpers that walk populated messages generically through protoreflect.

import (
	"fmt"
	"sort"
	"strings"
	"sync"

	"google.golang.org/protobuf/proto"
	"google.golang.org/protobuf/reflect/protoreflect"
	"google.golang.org/protobuf/types/descriptorpb"

	yextpb "github.com/openconfig/ygot/proto/yext"
)

type fkind int

const (
	kSkip      fkind = iota // outside the domain of the property (reason in fieldInfo.why)
	kLeaf                   // ywrapper String/Uint/Bytes value
	kEnum                   // enum field outside a oneof
	kLeafList               // repeated ywrapper value with (yext.leaflist)
	kUnionLL                // repeated union message with (yext.leaflistunion)
	kList                   // repeated XXXKey message: keyed YANG list
	kContainer              // singular non-wrapper message
)

type unionMember struct {
	fd   protoreflect.FieldDescriptor
	kind protoreflect.Kind
}

type fieldInfo struct {
	fd   protoreflect.FieldDescriptor
	kind fkind
	why  string     // for kSkip
	anns [][]string // schemapath annotations, split at "|" and "/"
	wk   string     // wrapper kind for kLeaf/kLeafList: string uint bytes bool int
	// kUnionLL
	members []unionMember
	// kList
	keyFds   []protoreflect.FieldDescriptor
	keyNames []string     // YANG key leaf name of each key field
	keyAnns  [][][]string // annotations of each key field
	memberFd protoreflect.FieldDescriptor
	// kList / kContainer: schema prefix of the child message
	childPrefix []string
}

type msgInfo struct {
	md     protoreflect.MessageDescriptor
	prefix []string
	fields []*fieldInfo
}

var (
	miMu    sync.Mutex
	miCache = map[string]*msgInfo{}
)

func pfxString(p []string) string { return "/" + strings.Join(p, "/") }

// info returns the classified fields of md when it is used as the message for schema prefix `prefix`.
func info(md protoreflect.MessageDescriptor, prefix []string) *msgInfo {
	k := string(md.FullName()) + "@" + pfxString(prefix)
	miMu.Lock()
	defer miMu.Unlock()
	if mi, ok := miCache[k]; ok {
		return mi
	}
	mi := &msgInfo{md: md, prefix: append([]string{}, prefix...)}
	fds := md.Fields()
	for i := 0; i < fds.Len(); i++ {
		mi.fields = append(mi.fields, classify(fds.Get(i), prefix))
	}
	miCache[k] = mi
	return mi
}

// parseAnn parses a yext.schemapath annotation. Only plain absolute paths (no keys, no escapes)
// occur in generated protobufs; anything else makes the field unsupported.
func parseAnn(fd protoreflect.FieldDescriptor) ([][]string, string) {
	po, _ := fd.Options().(*descriptorpb.FieldOptions)
	if po == nil {
		return nil, "no options"
	}
	ex, _ := proto.GetExtension(po, yextpb.E_Schemapath).(string)
	if ex == "" {
		return nil, "no schemapath annotation"
	}
	var out [][]string
	for _, a := range strings.Split(ex, "|") {
		if !strings.HasPrefix(a, "/") || strings.ContainsAny(a, "[]\\") {
			return nil, "annotation is not a plain absolute path: " + a
		}
		parts := strings.Split(a[1:], "/")
		for _, p := range parts {
			if p == "" {
				return nil, "annotation has an empty element: " + a
			}
		}
		out = append(out, parts)
	}
	return out, ""
}

func fieldFlags(fd protoreflect.FieldDescriptor) (leaflist, leaflistunion bool) {
	po, _ := fd.Options().(*descriptorpb.FieldOptions)
	if po == nil {
		return false, false
	}
	leaflist, _ = proto.GetExtension(po, yextpb.E_Leaflist).(bool)
	leaflistunion, _ = proto.GetExtension(po, yextpb.E_Leaflistunion).(bool)
	return
}

func yangName(ev protoreflect.EnumValueDescriptor) string {
	eo, _ := ev.Options().(*descriptorpb.EnumValueOptions)
	if eo == nil {
		return ""
	}
	s, _ := proto.GetExtension(eo, yextpb.E_YangName).(string)
	return s
}

// enumChoices are the values of an enumeration that stand for a YANG value: non-zero, annotated.
func enumChoices(ed protoreflect.EnumDescriptor) []protoreflect.EnumValueDescriptor {
	var out []protoreflect.EnumValueDescriptor
	for i := 0; i < ed.Values().Len(); i++ {
		v := ed.Values().Get(i)
		if v.Number() != 0 && yangName(v) != "" {
			out = append(out, v)
		}
	}
	return out
}

func wrapperKind(md protoreflect.MessageDescriptor) string {
	switch md.FullName() {
	case "ywrapper.StringValue":
		return "string"
	case "ywrapper.UintValue":
		return "uint"
	case "ywrapper.BytesValue":
		return "bytes"
	case "ywrapper.BoolValue":
		return "bool"
	case "ywrapper.IntValue":
		return "int"
	case "ywrapper.Decimal64Value":
		return "decimal64"
	}
	return ""
}

func hasPrefix(a, p []string) bool {
	if len(a) < len(p) {
		return false
	}
	for i := range p {
		if a[i] != p[i] {
			return false
		}
	}
	return true
}

func skip(fd protoreflect.FieldDescriptor, why string) *fieldInfo {
	return &fieldInfo{fd: fd, kind: kSkip, why: why}
}

// classify decides whether a field is inside the domain of C24. The conditions are the ones
// protomap/proto.go documents or implements as "unsupported" (read from the source, not probed):
//   - makeWrapper only knows String/Uint/Bytes wrappers (TODO for Int/Bool), decimal64 is rejected;
//   - scalar fields outside key and union messages give "unknown field kind"; oneof members are
//     skipped by unpopRange, so neither oneof leaves nor oneof list keys can be unmarshalled;
//   - listKeyAsProtoValue handles string and uint64 keys only;
//   - createListField assumes the compressed ygen shape "<container>/<list>" directly below the
//     message ("we assume that this is 2 elements since we are in a compressed schema");
//   - findChildren(directOnly) maps leaves at <leaf> or config|state/<leaf> below the message;
//   - containers and lists need exactly one annotation.
func classify(fd protoreflect.FieldDescriptor, prefix []string) *fieldInfo {
	if fd.IsMap() {
		return skip(fd, "map field")
	}
	if fd.ContainingOneof() != nil {
		return skip(fd, "oneof member (union leaf): not supported by ProtoFromPaths")
	}
	anns, why := parseAnn(fd)
	if why != "" {
		return skip(fd, why)
	}
	for _, a := range anns {
		if !hasPrefix(a, prefix) || len(a) == len(prefix) {
			return skip(fd, "annotation "+pfxString(a)+" is not below the message prefix "+pfxString(prefix))
		}
	}
	fi := &fieldInfo{fd: fd, anns: anns}
	leaflist, leaflistunion := fieldFlags(fd)
	directLeaf := func() string {
		for _, a := range anns {
			rel := a[len(prefix):]
			if len(rel) == 1 || (len(rel) == 2 && (rel[0] == "config" || rel[0] == "state")) {
				continue
			}
			return "leaf path " + pfxString(a) + " is not <leaf> or config|state/<leaf> below " + pfxString(prefix)
		}
		return ""
	}
	switch {
	case fd.IsList() && leaflist:
		if fd.Kind() != protoreflect.MessageKind {
			return skip(fd, "leaf-list of a non-wrapper kind")
		}
		wk := wrapperKind(fd.Message())
		switch wk {
		case "string", "uint", "bytes", "bool", "int":
		default:
			return skip(fd, "leaf-list element type "+string(fd.Message().FullName())+" unsupported")
		}
		if len(anns) != 1 {
			return skip(fd, "leaf-list with more than one annotation")
		}
		if w := directLeaf(); w != "" {
			return skip(fd, w)
		}
		fi.kind, fi.wk = kLeafList, wk
		return fi
	case fd.IsList() && leaflistunion:
		if fd.Kind() != protoreflect.MessageKind || len(anns) != 1 {
			return skip(fd, "malformed leaf-list of unions")
		}
		if w := directLeaf(); w != "" {
			return skip(fd, w)
		}
		ufs := fd.Message().Fields()
		hasString := false
		for i := 0; i < ufs.Len(); i++ {
			if ufs.Get(i).Kind() == protoreflect.StringKind {
				hasString = true
			}
		}
		for i := 0; i < ufs.Len(); i++ {
			u := ufs.Get(i)
			if u.IsList() || u.IsMap() || u.ContainingOneof() != nil {
				continue
			}
			switch u.Kind() {
			case protoreflect.StringKind, protoreflect.Uint64Kind, protoreflect.BoolKind:
				fi.members = append(fi.members, unionMember{u, u.Kind()})
			case protoreflect.EnumKind:
				// A union with a string member cannot tell "VAL_ONE" the enum from "VAL_ONE" the
				// string once it is a path value (YANG itself resolves it to the first member):
				// enum members of such unions are outside the domain.
				if !hasString && len(enumChoices(u.Enum())) > 0 {
					fi.members = append(fi.members, unionMember{u, u.Kind()})
				}
			}
		}
		if len(fi.members) == 0 {
			return skip(fd, "union without a supported member kind")
		}
		fi.kind = kUnionLL
		return fi
	case fd.IsList():
		if fd.Kind() != protoreflect.MessageKind {
			return skip(fd, "repeated scalar that is not a leaf-list")
		}
		if len(anns) != 1 {
			return skip(fd, "list with more than one annotation")
		}
		if len(anns[0]) != len(prefix)+2 {
			return skip(fd, "list path "+pfxString(anns[0])+" is not <container>/<list> below "+pfxString(prefix)+" (not the compressed ygen shape)")
		}
		kfs := fd.Message().Fields()
		for i := 0; i < kfs.Len(); i++ {
			k := kfs.Get(i)
			switch {
			case k.IsList() || k.IsMap():
				return skip(fd, "key message has a repeated field")
			case k.Kind() == protoreflect.MessageKind:
				if fi.memberFd != nil {
					return skip(fd, "key message has two message fields")
				}
				fi.memberFd = k
			case k.ContainingOneof() != nil:
				return skip(fd, "list key is a oneof (union key): not supported by ProtoFromPaths")
			case k.Kind() == protoreflect.StringKind || k.Kind() == protoreflect.Uint64Kind:
				ka, why := parseAnn(k)
				if why != "" {
					return skip(fd, "key field "+string(k.Name())+": "+why)
				}
				name := ""
				for _, a := range ka {
					if !hasPrefix(a, anns[0]) || len(a) == len(anns[0]) {
						return skip(fd, "key annotation not below the list")
					}
					if name != "" && name != a[len(a)-1] {
						return skip(fd, "key annotations name different leaves")
					}
					name = a[len(a)-1]
				}
				fi.keyFds = append(fi.keyFds, k)
				fi.keyNames = append(fi.keyNames, name)
				fi.keyAnns = append(fi.keyAnns, ka)
			default:
				return skip(fd, "list key of kind "+k.Kind().String()+": only string and uint64 keys are supported")
			}
		}
		if fi.memberFd == nil || len(fi.keyFds) == 0 {
			return skip(fd, "key message without member or without keys")
		}
		fi.kind, fi.childPrefix = kList, anns[0]
		return fi
	case fd.Kind() == protoreflect.MessageKind:
		if wk := wrapperKind(fd.Message()); wk != "" {
			switch wk {
			case "string", "uint", "bytes":
			default:
				return skip(fd, "ywrapper "+wk+" leaf: not supported by ProtoFromPaths (makeWrapper)")
			}
			if w := directLeaf(); w != "" {
				return skip(fd, w)
			}
			fi.kind, fi.wk = kLeaf, wk
			return fi
		}
		if len(anns) != 1 {
			return skip(fd, "container with more than one annotation")
		}
		fi.kind, fi.childPrefix = kContainer, anns[0]
		return fi
	case fd.Kind() == protoreflect.EnumKind:
		if len(enumChoices(fd.Enum())) == 0 {
			return skip(fd, "enum without annotated values")
		}
		if w := directLeaf(); w != "" {
			return skip(fd, w)
		}
		fi.kind = kEnum
		return fi
	}
	return skip(fd, "bare scalar of kind "+fd.Kind().String()+" outside a key or union message")
}

// ---------------------------------------------------------------------------------------------
// generic helpers on populated messages

// hasData reports whether PathsFromProto has anything to say about m (a set leaf, a non-empty
// leaf-list, a list entry, a child container with data).
func hasData(m protoreflect.Message, mi *msgInfo) bool {
	for _, fi := range mi.fields {
		if !m.Has(fi.fd) {
			continue
		}
		switch fi.kind {
		case kLeaf, kEnum, kLeafList, kUnionLL, kList:
			return true
		case kContainer:
			if hasData(m.Get(fi.fd).Message(), info(fi.fd.Message(), fi.childPrefix)) {
				return true
			}
		}
	}
	return false
}

// prune clears child containers without data: an empty non-presence container has no paths, so
// "set but empty" and "unset" are the same data tree and only the latter is canonical.
func prune(m protoreflect.Message, mi *msgInfo) {
	for _, fi := range mi.fields {
		if !m.Has(fi.fd) {
			continue
		}
		switch fi.kind {
		case kContainer:
			ci := info(fi.fd.Message(), fi.childPrefix)
			cm := m.Mutable(fi.fd).Message()
			prune(cm, ci)
			if !hasData(cm, ci) {
				m.Clear(fi.fd)
			}
		case kList:
			l := m.Mutable(fi.fd).List()
			ci := info(fi.memberFd.Message(), fi.childPrefix)
			for i := 0; i < l.Len(); i++ {
				prune(l.Get(i).Message().Mutable(fi.memberFd).Message(), ci)
			}
		}
	}
}

// reduce clears, in place, the regions selected by the flags (the trigger regions of open
// findings), then prunes: uint wrapper leaves, scalar leaf-lists, containers inside list members,
// all child containers of the top message.
type cut struct{ uintLeaf, simpleLL, contInList, topCont bool }

func reduce(m protoreflect.Message, mi *msgInfo, c cut, inList bool, top bool) {
	for _, fi := range mi.fields {
		if !m.Has(fi.fd) {
			continue
		}
		switch fi.kind {
		case kLeaf:
			if c.uintLeaf && fi.wk == "uint" {
				m.Clear(fi.fd)
			}
		case kLeafList:
			if c.simpleLL {
				m.Clear(fi.fd)
			}
		case kContainer:
			if (c.contInList && inList) || (c.topCont && top) {
				m.Clear(fi.fd)
				continue
			}
			reduce(m.Mutable(fi.fd).Message(), info(fi.fd.Message(), fi.childPrefix), c, inList, false)
		case kList:
			l := m.Mutable(fi.fd).List()
			ci := info(fi.memberFd.Message(), fi.childPrefix)
			for i := 0; i < l.Len(); i++ {
				reduce(l.Get(i).Message().Mutable(fi.memberFd).Message(), ci, c, true, false)
			}
		}
	}
	if top {
		prune(m, mi)
	}
}

// feat summarises what a message contains (classes, triggers, non-triviality).
type feat struct {
	listEntries, maxListDepth            int
	uintLeaf, uintKey, uintLL, uintUnion int
	strLeaf, bytesLeaf, enumLeaf         int
	simpleLL, unionLL, unionEnum         int
	containers, contInList, topCont      int
	strKey, multiEntry                   int
	leaves                               int
}

func (f *feat) anyUint() bool { return f.uintLeaf+f.uintKey+f.uintLL+f.uintUnion > 0 }

func features(m protoreflect.Message, mi *msgInfo, f *feat, listDepth int, inList, top bool) {
	for _, fi := range mi.fields {
		if !m.Has(fi.fd) {
			continue
		}
		switch fi.kind {
		case kLeaf:
			f.leaves++
			switch fi.wk {
			case "uint":
				f.uintLeaf++
			case "string":
				f.strLeaf++
			case "bytes":
				f.bytesLeaf++
			}
		case kEnum:
			f.leaves++
			f.enumLeaf++
		case kLeafList:
			f.leaves++
			f.simpleLL++
			if fi.wk == "uint" {
				f.uintLL++
			}
		case kUnionLL:
			f.leaves++
			f.unionLL++
			l := m.Get(fi.fd).List()
			for i := 0; i < l.Len(); i++ {
				em := l.Get(i).Message()
				for _, u := range fi.members {
					if em.Has(u.fd) {
						switch u.kind {
						case protoreflect.Uint64Kind:
							f.uintUnion++
						case protoreflect.EnumKind:
							f.unionEnum++
						}
					}
				}
			}
		case kContainer:
			f.containers++
			if inList {
				f.contInList++
			}
			if top {
				f.topCont++
			}
			features(m.Get(fi.fd).Message(), info(fi.fd.Message(), fi.childPrefix), f, listDepth, inList, false)
		case kList:
			l := m.Get(fi.fd).List()
			if l.Len() > 1 {
				f.multiEntry++
			}
			ci := info(fi.memberFd.Message(), fi.childPrefix)
			for i := 0; i < l.Len(); i++ {
				f.listEntries++
				if listDepth+1 > f.maxListDepth {
					f.maxListDepth = listDepth + 1
				}
				for _, k := range fi.keyFds {
					if k.Kind() == protoreflect.Uint64Kind {
						f.uintKey++
					} else {
						f.strKey++
					}
				}
				features(l.Get(i).Message().Get(fi.memberFd).Message(), ci, f, listDepth+1, true, false)
			}
		}
	}
}

// entryKey is a canonical, injective rendering of the key fields of one list entry.
func entryKey(em protoreflect.Message, fi *fieldInfo) string {
	var b strings.Builder
	for _, k := range fi.keyFds {
		if k.Kind() == protoreflect.Uint64Kind {
			fmt.Fprintf(&b, "u%020d;", em.Get(k).Uint())
		} else {
			fmt.Fprintf(&b, "s%q;", em.Get(k).String())
		}
	}
	return b.String()
}

// sortLists orders the entries of every keyed list by key, in place. YANG lists here are
// ordered-by system (a map from key to entry); ProtoFromPaths builds them by ranging over a Go map,
// so entry order is not part of the round-trip claim (the repository's tests use SortRepeatedFields).
func sortLists(m protoreflect.Message, mi *msgInfo) {
	for _, fi := range mi.fields {
		if !m.Has(fi.fd) {
			continue
		}
		switch fi.kind {
		case kContainer:
			sortLists(m.Mutable(fi.fd).Message(), info(fi.fd.Message(), fi.childPrefix))
		case kList:
			l := m.Mutable(fi.fd).List()
			ci := info(fi.memberFd.Message(), fi.childPrefix)
			type ent struct {
				k string
				v protoreflect.Value
			}
			es := make([]ent, l.Len())
			for i := 0; i < l.Len(); i++ {
				em := l.Get(i).Message()
				if em.Has(fi.memberFd) {
					sortLists(em.Mutable(fi.memberFd).Message(), ci)
				}
				es[i] = ent{entryKey(em, fi), l.Get(i)}
			}
			sort.SliceStable(es, func(i, j int) bool { return es[i].k < es[j].k })
			for i := range es {
				l.Set(i, es[i].v)
			}
		}
	}
}

// equalModListOrder is proto.Equal after sorting keyed lists on clones of both sides.
func equalModListOrder(a, b proto.Message, mi *msgInfo) bool {
	ca, cb := proto.Clone(a), proto.Clone(b)
	sortLists(ca.ProtoReflect(), mi)
	sortLists(cb.ProtoReflect(), mi)
	return proto.Equal(ca, cb)
}

// dump renders a message deterministically (prototext/protojson output is deliberately unstable).
func dump(m protoreflect.Message) string {
	var b strings.Builder
	dumpMsg(&b, m)
	return b.String()
}

func dumpMsg(b *strings.Builder, m protoreflect.Message) {
	fds := m.Descriptor().Fields()
	first := true
	for i := 0; i < fds.Len(); i++ {
		fd := fds.Get(i)
		if !m.Has(fd) {
			continue
		}
		v := m.Get(fd)
		if fd.IsList() {
			l := v.List()
			for j := 0; j < l.Len(); j++ {
				if !first {
					b.WriteByte(' ')
				}
				first = false
				b.WriteString(string(fd.Name()))
				b.WriteByte(':')
				dumpVal(b, fd, l.Get(j))
			}
			continue
		}
		if !first {
			b.WriteByte(' ')
		}
		first = false
		b.WriteString(string(fd.Name()))
		b.WriteByte(':')
		dumpVal(b, fd, v)
	}
}

func dumpVal(b *strings.Builder, fd protoreflect.FieldDescriptor, v protoreflect.Value) {
	switch fd.Kind() {
	case protoreflect.MessageKind, protoreflect.GroupKind:
		b.WriteByte('{')
		dumpMsg(b, v.Message())
		b.WriteByte('}')
	case protoreflect.StringKind:
		fmt.Fprintf(b, "%q", v.String())
	case protoreflect.BytesKind:
		fmt.Fprintf(b, "0x%x", v.Bytes())
	case protoreflect.EnumKind:
		if ev := fd.Enum().Values().ByNumber(v.Enum()); ev != nil {
			b.WriteString(string(ev.Name()))
		} else {
			fmt.Fprintf(b, "%d", v.Enum())
		}
	default:
		fmt.Fprintf(b, "%v", v.Interface())
	}
}
