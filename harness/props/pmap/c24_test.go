package pmap

// C24: protomap paths<->proto mapping round-trips.
//
//	For ygen-generated protobuf messages that use only the kinds protomap supports,
//	ProtoFromPaths(new message, PathsFromProto(m)) succeeds and produces a message equal to m.
//	Every path PathsFromProto emits is a data-tree path whose schema path is one of the field's
//	annotated schema paths.

import (
	"fmt"
	"sort"
	"strings"
	"testing"

	"google.golang.org/protobuf/proto"
	"google.golang.org/protobuf/reflect/protoreflect"
	"google.golang.org/protobuf/reflect/protoregistry"
	"pgregory.net/rapid"

	gpb "github.com/openconfig/gnmi/proto/gnmi"
	wpb "github.com/openconfig/ygot/proto/ywrapper"
	"github.com/openconfig/ygot/protomap"
	aftpb "github.com/openconfig/ygot/protomap/integration_tests/testdata/gribi_aft"
	epb "github.com/openconfig/ygot/protomap/testdata/exschemapath"

	"verifharness/ev"
)

const (
	fUint      = "F18-uint-roundtrip"
	fLeafList  = "F18-leaflist-roundtrip"
	fContList  = "F18-container-in-list"
	fMsgPrefix = "F18-msgprefix-container"
)

func registryFind(n protoreflect.FullName) (protoreflect.MessageType, error) {
	return protoregistry.GlobalTypes.FindMessageByName(n)
}

// ---------------------------------------------------------------------------------------------
// running the code under test

type result struct {
	err   error
	got   proto.Message
	equal bool
	panic string
}

func (r result) ok() bool { return r.panic == "" && r.err == nil && r.equal }

func (r result) String() string {
	if r.panic != "" {
		return "PANIC " + r.panic
	}
	if r.err != nil {
		return "error: " + r.err.Error()
	}
	return fmt.Sprintf("nil error, equal=%v, got message {%s}", r.equal, dump(r.got.ProtoReflect()))
}

func pathsFrom(m proto.Message) (paths map[*gpb.Path]interface{}, err error) {
	defer func() {
		if p := recover(); p != nil {
			err = fmt.Errorf("PANIC in PathsFromProto: %v", p)
		}
	}()
	return protomap.PathsFromProto(m)
}

// unmap runs ProtoFromPaths into a fresh message of want's type and compares with want.
func unmap(want proto.Message, mi *msgInfo, vals map[*gpb.Path]interface{}, opts ...protomap.UnmapOpt) (r result) {
	defer func() {
		if p := recover(); p != nil {
			r = result{panic: fmt.Sprint(p)}
		}
	}()
	n := want.ProtoReflect().New().Interface()
	if err := protomap.ProtoFromPaths(n, vals, opts...); err != nil {
		return result{err: err}
	}
	return result{got: n, equal: equalModListOrder(want, n, mi)}
}

func showPaths(paths map[*gpb.Path]interface{}) string {
	var ls []string
	for p, v := range paths {
		ls = append(ls, "    "+renderPath(p)+" = "+showValue(v))
	}
	sort.Strings(ls)
	return strings.Join(ls, "\n")
}

func clonePaths(paths map[*gpb.Path]interface{}) map[*gpb.Path]interface{} {
	out := make(map[*gpb.Path]interface{}, len(paths))
	for p, v := range paths {
		out[proto.Clone(p).(*gpb.Path)] = v
	}
	return out
}

// ---------------------------------------------------------------------------------------------
// known findings: fixed minimal witnesses

func witnessRoundTrip(m proto.Message, r rootType, opts ...protomap.UnmapOpt) (bool, string) {
	paths, err := pathsFrom(m)
	if err != nil {
		return true, "PathsFromProto: " + err.Error()
	}
	res := unmap(m, info(r.md, r.prefix), paths, opts...)
	return !res.ok(), fmt.Sprintf("m={%s} paths:\n%s\n -> %s", dump(m.ProtoReflect()), showPaths(paths), res)
}

func registerWitnesses(rec *ev.Rec) {
	rs := roots()
	rec.Witness(fUint, func() (bool, string) {
		return witnessRoundTrip(&epb.ExampleMessage{Ui: &wpb.UintValue{Value: 1}}, rs[1])
	})
	rec.Witness(fLeafList, func() (bool, string) {
		return witnessRoundTrip(&epb.ExampleMessage{LeaflistString: []*wpb.StringValue{{Value: "a"}}}, rs[1])
	})
	rec.Witness(fContList, func() (bool, string) {
		return witnessRoundTrip(&aftpb.Device{Afts: &aftpb.Afts{NextHop: []*aftpb.Afts_NextHopKey{{Index: 1,
			NextHop: &aftpb.Afts_NextHop{IpInIp: &aftpb.Afts_NextHop_IpInIp{SrcIp: &wpb.StringValue{Value: "1.1.1.1"}}}}}}}, rs[2])
	})
	rec.Witness(fMsgPrefix, func() (bool, string) {
		pfx := []string{"afts", "next-hops", "next-hop"}
		nh := &aftpb.Afts_NextHop{IpInIp: &aftpb.Afts_NextHop_IpInIp{SrcIp: &wpb.StringValue{Value: "1.1.1.1"}}}
		return witnessRoundTrip(nh, rootType{"NextHop", nh.ProtoReflect().Descriptor(), pfx}, protomap.ProtobufMessagePrefix(schemaGPB(pfx, false)))
	})
}

func schemaGPB(names []string, keyed bool) *gpb.Path {
	p := &gpb.Path{}
	for _, n := range names {
		p.Elem = append(p.Elem, &gpb.PathElem{Name: n})
	}
	if keyed && len(p.Elem) > 0 {
		p.Elem[len(p.Elem)-1].Key = map[string]string{"some-key": "some value"}
	}
	return p
}

// activeCut says which regions must be removed from a message so that no open finding triggers.
func activeCut(rec *ev.Rec) cut {
	return cut{uintLeaf: rec.Active(fUint), simpleLL: rec.Active(fLeafList), contInList: rec.Active(fContList)}
}

func reduced(m proto.Message, mi *msgInfo, c cut) proto.Message {
	n := proto.Clone(m)
	reduce(n.ProtoReflect(), mi, c, false, true)
	return n
}

// ---------------------------------------------------------------------------------------------
// generator health

type tally struct {
	n int
	c map[string]int
}

func (t *tally) add(classes []string) {
	if t.c == nil {
		t.c = map[string]int{}
	}
	t.n++
	for _, c := range classes {
		t.c[c]++
	}
}

// need fails the test as INCONCLUSIVE when an essential class is (almost) never produced.
func (t *tally) need(tt *testing.T, min map[string]float64) {
	if tt.Failed() || t.n < 500 {
		return // a failing run stops early; tiny debug runs carry no statistics
	}
	var bad, all []string
	for c, f := range min {
		all = append(all, fmt.Sprintf("%s=%.1f%%(min %.0f%%)", c, 100*float64(t.c[c])/float64(t.n), 100*f))
	}
	sort.Strings(all)
	tt.Logf("generator health over %d cases: %s", t.n, strings.Join(all, " "))
	for c, f := range min {
		if float64(t.c[c]) < f*float64(t.n) {
			bad = append(bad, fmt.Sprintf("%s %d/%d (< %.0f%%)", c, t.c[c], t.n, 100*f))
		}
	}
	sort.Strings(bad)
	if len(bad) > 0 {
		tt.Fatalf("INCONCLUSIVE: generator health: essential classes too rare: %s", strings.Join(bad, "; "))
	}
}

func classesOf(r rootType, f *feat) []string {
	cs := []string{"root:" + r.name, fmt.Sprintf("list-depth:%d", f.maxListDepth)}
	add := func(b bool, c string) {
		if b {
			cs = append(cs, c)
		}
	}
	add(f.listEntries > 0, "has-list")
	add(f.multiEntry > 0, "has-multi-entry-list")
	add(f.maxListDepth >= 2, "has-nested-list")
	add(f.anyUint(), "has-uint")
	add(f.uintLeaf > 0, "has-uintvalue")
	add(f.uintKey > 0, "has-uint-key")
	add(f.strKey > 0, "has-string-key")
	add(f.strLeaf > 0, "has-string")
	add(f.bytesLeaf > 0, "has-bytes")
	add(f.enumLeaf > 0, "has-enum")
	add(f.simpleLL > 0, "has-leaflist")
	add(f.unionLL > 0, "has-union-leaflist")
	add(f.unionEnum > 0, "has-union-enum")
	add(f.containers > 0, "has-container")
	add(f.contInList > 0, "has-container-in-list")
	add(f.leaves == 0 && f.listEntries == 0, "empty")
	return cs
}

const rule = "message of exschemapath.Root / exschemapath.ExampleMessage / gribi_aft.Device (options test: also every reachable sub-message " +
	"with its schema prefix) populated through protoreflect from the field descriptors with only the supported kinds " +
	"(String/Uint/Bytes wrappers, enums, scalar leaf-lists, union leaf-lists, <container>/<list> keyed lists with string|uint64 keys, " +
	"containers), random nesting depth 1-5, 1-3 entries per list, per-field set probability 15-90%; canonical form (unique keys, member set, " +
	"no empty containers, non-zero union members). Non-trivial = at least one keyed-list entry and at least one uint-typed value " +
	"(UintValue leaf, uint64 key, uint leaf-list element or uint64 union member). Distinct = hash of test part + options + deterministic dump of the message."

// recordSkips documents which fields of the test protos are outside the domain and why.
func recordSkips(rec *ev.Rec) {
	skips := map[string]string{}
	var walk func(mi *msgInfo)
	seen := map[*msgInfo]bool{}
	walk = func(mi *msgInfo) {
		if seen[mi] {
			return
		}
		seen[mi] = true
		for _, fi := range mi.fields {
			switch fi.kind {
			case kSkip:
				skips[string(fi.fd.FullName())] = fi.why
			case kContainer:
				walk(info(fi.fd.Message(), fi.childPrefix))
			case kList:
				walk(info(fi.memberFd.Message(), fi.childPrefix))
			}
		}
	}
	for _, r := range roots() {
		walk(info(r.md, r.prefix))
	}
	rec.Set("fields_outside_domain", skips)
}

// ---------------------------------------------------------------------------------------------
// paths half

// checkPaths verifies: every emitted path is one of the expected data-tree paths (annotation of a
// populated field resolved from the root, list keys filled in) and carries that field's value; and
// every populated leaf has at least one of its annotated paths emitted (a consequence of the
// round-trip claim that stays checkable while the round trip itself is excused).
func checkPaths(m proto.Message, r rootType, paths map[*gpb.Path]interface{}) string {
	mi := info(r.md, r.prefix)
	exp := map[string]interface{}{}
	var leaves []expLeaf
	base := make([]pelem, 0, len(r.prefix))
	for _, n := range r.prefix {
		base = append(base, pelem{name: n})
	}
	refPaths(m.ProtoReflect(), mi, base, exp, &leaves)
	emitted := map[string]bool{}
	for p, v := range paths {
		if p == nil {
			return "emitted a nil path"
		}
		s := renderPath(p)
		emitted[s] = true
		want, ok := exp[s]
		if !ok {
			var all []string
			for e := range exp {
				all = append(all, "    "+e)
			}
			sort.Strings(all)
			return fmt.Sprintf("emitted path %s (value %s) is not the data-tree path of any annotation of a populated field; expected paths:\n%s",
				s, showValue(v), strings.Join(all, "\n"))
		}
		if !valuesMatch(v, want) {
			return fmt.Sprintf("emitted path %s carries %s, the field holds %s", s, showValue(v), showValue(want))
		}
	}
	for _, l := range leaves {
		any := false
		for _, p := range l.paths {
			any = any || emitted[p]
		}
		if !any {
			return fmt.Sprintf("populated field %s (value %s) has none of its annotated paths emitted: %v", l.field, showValue(l.val), l.paths)
		}
	}
	return ""
}

// ---------------------------------------------------------------------------------------------
// round trip with known-finding handling

// roundTrip checks ProtoFromPaths(new, paths) == m. If it does not hold, the failure must carry the
// signature of an open finding whose trigger region is present in m; then the message with the
// trigger regions of all open findings removed is round-tripped instead, with no excuse left.
// Returns "" or a violation text, and labels for the evidence histogram.
func roundTrip(rec *ev.Rec, m proto.Message, r rootType, paths map[*gpb.Path]interface{}, f *feat, extraCut cut, extraID string, opts func() []protomap.UnmapOpt, tr func(map[*gpb.Path]interface{}) map[*gpb.Path]interface{}) (string, []string) {
	mi := info(r.md, r.prefix)
	var labels []string
	res := unmap(m, mi, tr(paths), opts()...)
	if res.ok() {
		labels = append(labels, "roundtrip-full-ok")
		return "", labels
	}
	// signature matching
	c := activeCut(rec)
	errText := ""
	if res.err != nil {
		errText = res.err.Error()
	}
	sig := false
	if c.uintLeaf && f.uintLeaf > 0 && strings.Contains(errText, "got non-uint value for uint field") {
		sig = true
	}
	if c.simpleLL && f.simpleLL > 0 && strings.Contains(errText, "invalid type []interface {}") && strings.Contains(errText, "for repeated") {
		sig = true
	}
	if c.contInList && f.contInList > 0 && res.panic == "" && res.err == nil &&
		equalModListOrder(reduced(m, mi, cut{contInList: true}), res.got, mi) {
		sig = true
	}
	if extraID != "" && rec.Active(extraID) && f.topCont > 0 && res.panic == "" && res.err == nil {
		// all child containers of the top message dropped (and, while that finding is open, the ones in list members)
		ec := extraCut
		if equalModListOrder(reduced(m, mi, ec), res.got, mi) {
			sig = true
		}
		ec.contInList = c.contInList
		if equalModListOrder(reduced(m, mi, ec), res.got, mi) {
			sig = true
		}
	}
	if !sig {
		return "round trip failed: " + res.String(), labels
	}
	// deterministic attribution (the first error ProtoFromPaths meets depends on map order)
	switch {
	case rec.Excuse(fUint, c.uintLeaf && f.uintLeaf > 0):
	case rec.Excuse(fLeafList, c.simpleLL && f.simpleLL > 0):
	case rec.Excuse(fContList, c.contInList && f.contInList > 0):
	case extraID != "" && rec.Excuse(extraID, f.topCont > 0):
	default:
		return "HARNESS-BUG: signature matched but no finding is triggered; " + res.String(), labels
	}
	labels = append(labels, "roundtrip-excused")
	// remaining postconditions: the same message without the trigger regions must round-trip
	full := c
	if extraID != "" && rec.Active(extraID) {
		full.topCont = extraCut.topCont
	}
	m2 := reduced(m, mi, full)
	p2, err := pathsFrom(m2)
	if err != nil {
		return fmt.Sprintf("PathsFromProto failed on the reduced message {%s}: %v", dump(m2.ProtoReflect()), err), labels
	}
	res2 := unmap(m2, mi, tr(p2), opts()...)
	if !res2.ok() {
		return fmt.Sprintf("round trip of the reduced message (trigger regions of open findings removed) failed:\n  reduced m={%s}\n  paths:\n%s\n  -> %s",
			dump(m2.ProtoReflect()), showPaths(p2), res2), labels
	}
	var f2 feat
	features(m2.ProtoReflect(), mi, &f2, 0, false, true)
	if f2.listEntries > 0 {
		labels = append(labels, "roundtrip-reduced-ok-with-list")
	}
	labels = append(labels, "roundtrip-reduced-ok")
	return "", labels
}

func noOpts() []protomap.UnmapOpt                                { return nil }
func same(p map[*gpb.Path]interface{}) map[*gpb.Path]interface{} { return p }
func describe(r rootType, m proto.Message, paths map[*gpb.Path]interface{}) string {
	return fmt.Sprintf("message type %s (schema prefix %s)\n  m={%s}\n  PathsFromProto(m):\n%s", r.name, pfxString(r.prefix), dump(m.ProtoReflect()), showPaths(paths))
}

// ---------------------------------------------------------------------------------------------

func TestC24_RoundTrip(t *testing.T) {
	rec := ev.Start(t, "C24")
	rec.Rule(rule)
	rec.Assume("entry order of keyed (ordered-by system) lists is not part of message equality: ProtoFromPaths builds lists by ranging over a Go map; leaf-list order is compared exactly")
	rec.Assume("domain excludes what proto.go documents as unsupported: Bool/Int/Decimal64 wrapper leaves, oneof (union) leaves and keys, non string|uint64 keys, lists that are not <container>/<list> below their message, float/int64 union members, enum members of unions that also have a string member, all-zero union members")
	registerWitnesses(rec)
	if t.Failed() {
		return // an unlisted or "fixed" finding is back: reported by rec.Witness
	}
	recordSkips(rec)
	rs := roots()
	var tl tally
	rapid.Check(t, func(rt *rapid.T) {
		r := rapid.SampledFrom(rs).Draw(rt, "root")
		sh := drawShape(rt)
		m := genMessage(rt, r, sh)
		mi := info(r.md, r.prefix)
		var f feat
		features(m.ProtoReflect(), mi, &f, 0, false, true)
		classes := classesOf(r, &f)
		nontrivial := f.listEntries > 0 && f.anyUint()

		paths, err := pathsFrom(m)
		if err != nil {
			rt.Fatalf("PathsFromProto failed on a message of the supported shape: %v\n  %s (schema prefix /)\n  m={%s}", err, r.name, dump(m.ProtoReflect()))
		}
		if bad := checkPaths(m, r, paths); bad != "" {
			rt.Fatalf("paths half violated: %s\n  %s", bad, describe(r, m, paths))
		}
		bad, labels := roundTrip(rec, m, r, paths, &f, cut{}, "", noOpts, same)
		classes = append(classes, labels...)
		if nontrivial {
			tl.add(append(append([]string{}, classes...), "nontrivial"))
		} else {
			tl.add(classes)
		}
		rec.Case("rt|"+r.name+"|"+dump(m.ProtoReflect()), nontrivial, classes...)
		if rec.WantSample() {
			rec.Sample(map[string]interface{}{"test": "RoundTrip", "type": r.name, "message": dump(m.ProtoReflect()), "paths": len(paths), "labels": labels})
		}
		if bad != "" {
			rt.Fatalf("%s\n  %s", bad, describe(r, m, paths))
		}
	})
	tl.need(t, map[string]float64{
		"root:exschemapath.Root": 0.15, "root:exschemapath.ExampleMessage": 0.15, "root:gribi_aft.Device": 0.15,
		"nontrivial": 0.20, "has-list": 0.30, "has-uint": 0.25, "has-uintvalue": 0.08, "has-uint-key": 0.15, "has-string-key": 0.15,
		"has-leaflist": 0.05, "has-union-leaflist": 0.05, "has-union-enum": 0.02, "has-enum": 0.08, "has-bytes": 0.06,
		"has-nested-list": 0.08, "has-multi-entry-list": 0.10, "has-container": 0.15, "has-container-in-list": 0.03,
		"roundtrip-full-ok": 0.10,
	})
}

// TestC24_Options: metamorphic relations for the UnmapOpts.
//
//	prefix-abs:  for a sub-message s at schema prefix P, ProtoFromPaths(new, PathsFromProto(s), ProtobufMessagePrefix(P)) == s
//	prefix-rel:  the same with every path made relative to P and ValuePathPrefix(P) (keys on P are ignored)
//	extras:      unknown paths added to the values: with IgnoreExtraPaths() the result is unchanged;
//	             without it an unknown direct child of the root is an error.
func TestC24_Options(t *testing.T) {
	rec := ev.Start(t, "C24")
	rec.Rule(rule)
	registerWitnesses(rec)
	if t.Failed() {
		return
	}
	rs := roots()
	subs := subMessages()
	if len(subs) < 10 {
		t.Fatalf("HARNESS-BUG: only %d sub-messages found", len(subs))
	}
	var tl tally
	rapid.Check(t, func(rt *rapid.T) {
		mode := rapid.SampledFrom([]string{"prefix-abs", "prefix-rel", "extras"}).Draw(rt, "mode")
		sh := drawShape(rt)
		var r rootType
		if mode == "extras" {
			r = rapid.SampledFrom(rs).Draw(rt, "root")
		} else {
			r = subs[rapid.IntRange(0, len(subs)-1).Draw(rt, "sub")]
		}
		mi := info(r.md, r.prefix)
		m := genMessage(rt, r, sh)
		var f feat
		features(m.ProtoReflect(), mi, &f, 0, false, true)
		classes := append(classesOf(r, &f), "opt:"+mode)
		nontrivial := f.listEntries > 0 && f.anyUint()
		key := "opt|" + mode + "|" + r.name + pfxString(r.prefix) + "|" + dump(m.ProtoReflect())
		fail := func(format string, a ...interface{}) {
			tl.add(classes)
			rec.Case(key, nontrivial, classes...)
			rt.Fatalf(format, a...)
		}

		paths, err := pathsFrom(m)
		if err != nil {
			fail("PathsFromProto failed on a message of the supported shape: %v\n  %s prefix %s\n  m={%s}", err, r.name, pfxString(r.prefix), dump(m.ProtoReflect()))
		}
		if bad := checkPaths(m, r, paths); bad != "" {
			fail("paths half violated: %s\n  %s", bad, describe(r, m, paths))
		}

		switch mode {
		case "prefix-abs":
			opts := func() []protomap.UnmapOpt {
				return []protomap.UnmapOpt{protomap.ProtobufMessagePrefix(schemaGPB(r.prefix, false))}
			}
			bad, labels := roundTrip(rec, m, r, paths, &f, cut{topCont: true}, fMsgPrefix, opts, same)
			classes = append(classes, labels...)
			if bad != "" {
				fail("%s\n  options: ProtobufMessagePrefix(%s)\n  %s", bad, pfxString(r.prefix), describe(r, m, paths))
			}
		case "prefix-rel":
			keyed := rapid.Bool().Draw(rt, "keyedValuePrefix")
			if keyed {
				classes = append(classes, "opt:keyed-value-prefix")
			}
			opts := func() []protomap.UnmapOpt {
				return []protomap.UnmapOpt{protomap.ProtobufMessagePrefix(schemaGPB(r.prefix, false)), protomap.ValuePathPrefix(schemaGPB(r.prefix, keyed))}
			}
			rel := func(in map[*gpb.Path]interface{}) map[*gpb.Path]interface{} {
				out := map[*gpb.Path]interface{}{}
				for p, v := range in {
					q := proto.Clone(p).(*gpb.Path)
					q.Elem = q.Elem[len(r.prefix):]
					out[q] = v
				}
				return out
			}
			bad, labels := roundTrip(rec, m, r, paths, &f, cut{}, "", opts, rel)
			classes = append(classes, labels...)
			if bad != "" {
				fail("%s\n  options: ProtobufMessagePrefix(%s) ValuePathPrefix(same, keyed=%v), values relative to the prefix\n  %s", bad, pfxString(r.prefix), keyed, describe(r, m, paths))
			}
		case "extras":
			// work on the message without trigger regions of open findings: the base round trip is then clean
			m2 := reduced(m, mi, activeCut(rec))
			p2, err := pathsFrom(m2)
			if err != nil {
				fail("PathsFromProto failed: %v\n  m={%s}", err, dump(m2.ProtoReflect()))
			}
			base := unmap(m2, mi, clonePaths(p2))
			if !base.ok() {
				fail("round trip failed: %s\n  %s", base, describe(r, m2, p2))
			}
			// unknown paths: direct child of the root, deep unknown subtree, unknown leaf below a populated container
			var conts [][]string
			for _, fi := range mi.fields {
				if fi.kind == kContainer && m2.ProtoReflect().Has(fi.fd) {
					conts = append(conts, fi.anns[0])
				}
			}
			withX := clonePaths(p2)
			n := rapid.IntRange(1, 3).Draw(rt, "nExtras")
			rootExtra := false
			var desc []string
			for i := 0; i < n; i++ {
				kind := rapid.IntRange(0, 2).Draw(rt, "extraKind")
				var names []string
				switch {
				case kind == 2 && len(conts) > 0:
					names = append(append([]string{}, conts[rapid.IntRange(0, len(conts)-1).Draw(rt, "cont")]...), fmt.Sprintf("zz-extra-%d", i))
					classes = append(classes, "extra:container-child")
				case kind == 1:
					names = []string{fmt.Sprintf("zz-extra-%d", i), "deep", "leaf"}
					classes = append(classes, "extra:deep")
				default:
					names = []string{fmt.Sprintf("zz-extra-%d", i)}
					rootExtra = true
					classes = append(classes, "extra:root-child")
				}
				withX[schemaGPB(names, false)] = "extra-value"
				desc = append(desc, pfxString(names))
			}
			ign := unmap(m2, mi, clonePaths(withX), protomap.IgnoreExtraPaths())
			if !ign.ok() {
				fail("IgnoreExtraPaths(): unknown paths %v changed the outcome: %s\n  %s", desc, ign, describe(r, m2, p2))
			}
			if rootExtra {
				strict := unmap(m2, mi, clonePaths(withX))
				if strict.panic != "" || strict.err == nil {
					fail("without IgnoreExtraPaths an unknown direct child of the root among %v was accepted: %s\n  %s", desc, strict, describe(r, m2, p2))
				}
				classes = append(classes, "extra:strict-rejected")
			}
			classes = append(classes, "roundtrip-reduced-ok")
		}
		tl.add(classes)
		rec.Case(key, nontrivial, classes...)
		if rec.WantSample() {
			rec.Sample(map[string]interface{}{"test": "Options", "mode": mode, "type": r.name, "prefix": pfxString(r.prefix), "message": dump(m.ProtoReflect()), "paths": len(paths)})
		}
	})
	tl.need(t, map[string]float64{
		"opt:prefix-abs": 0.2, "opt:prefix-rel": 0.2, "opt:extras": 0.2, "opt:keyed-value-prefix": 0.05,
		"extra:root-child": 0.08, "extra:deep": 0.08, "extra:container-child": 0.02, "extra:strict-rejected": 0.08,
		"has-list": 0.15, "has-uint": 0.15, "has-container": 0.05,
	})
}
