package t6

import (
	"math"
	"strings"

	gpb "github.com/openconfig/gnmi/proto/gnmi"
	"google.golang.org/protobuf/types/known/anypb"
	"pgregory.net/rapid"
	"verifharness/model"
)

// pool holds the valid material odd inputs are derived from: a generated tree, its leaf instances and
// struct positions.
type pool struct {
	v     *model.Variant
	m     *model.Node
	insts []model.Inst
	sites []model.Site
}

func genPool(rt *rapid.T, v *model.Variant, label string) *pool {
	o := model.GenOpts{NoUnkeyed: rapid.IntRange(0, 4).Draw(rt, label+".unkeyed") > 0}
	switch rapid.IntRange(0, 3).Draw(rt, label+".size") {
	case 0:
		o.Sparse = true
	case 1:
		o.Dense = true
	}
	m := model.GenTree(rt, v, o)
	return &pool{v: v, m: m, insts: leafInsts(m, true), sites: sitesOf(m)}
}

// base returns Base tree for the target root: the pool's tree, another tree, or nil (empty root).
func (p *pool) base(rt *rapid.T, label string) *model.Node {
	switch rapid.IntRange(0, 2).Draw(rt, label) {
	case 0:
		return nil
	case 1:
		return p.m
	}
	return model.GenTree(rt, p.v, model.GenOpts{Sparse: true, NoUnkeyed: true})
}

var oddKeyValues = []string{"", "*", " ", "0", "-1", "1.5", "abc", "true", "18446744073709551616", "-9223372036854775809", "NaN", "RED", "nomod:CIRCLE", "a]b", "a/b", "a\\", "[", "é世", "..", "AA=="}

var oddNames = []string{"", "*", "...", "bogus", "config", "state", "top", "vt:top", "nomod:top", "k", "name", "/", "a b", "..", "item", "items"}

// oddPath derives a gNMI path from a valid one by drawn mutations. It may return nil.
func oddPath(rt *rapid.T, p *pool, label string) (*gpb.Path, []string) {
	var el []model.PElem
	kind := "empty"
	switch rapid.IntRange(0, 9).Draw(rt, label+".base") {
	case 0:
		if rapid.IntRange(0, 3).Draw(rt, label+".nil") == 0 {
			return nil, []string{"path:nil"}
		}
	case 1, 2:
		if len(p.sites) > 1 {
			s := p.sites[rapid.IntRange(1, len(p.sites)-1).Draw(rt, label+".site")]
			el, kind = s.Elems, "struct"
		}
	case 3:
		// whole list: entry path without its keys
		var es []model.Site
		for _, s := range p.sites[1:] {
			if s.Elems[len(s.Elems)-1].Keys != nil {
				es = append(es, s)
			}
		}
		if len(es) > 0 {
			s := es[rapid.IntRange(0, len(es)-1).Draw(rt, label+".list")]
			el = append([]model.PElem(nil), s.Elems...)
			el[len(el)-1] = model.PElem{Name: el[len(el)-1].Name}
			kind = "whole-list"
		}
	default:
		if len(p.insts) > 0 {
			in := p.insts[rapid.IntRange(0, len(p.insts)-1).Draw(rt, label+".leaf")]
			el, kind = in.Elems, "leaf"
		}
	}
	path := model.PathProto(el)
	classes := []string{"path-base:" + kind}
	nmut := rapid.SampledFrom([]int{0, 1, 1, 1, 2, 3}).Draw(rt, label+".nmut")
	for i := 0; i < nmut; i++ {
		m := mutatePath(rt, path, label)
		if m != "" {
			classes = append(classes, "path-mut:"+m)
		}
	}
	if nmut == 0 {
		classes = append(classes, "path-mut:none")
	}
	return path, classes
}

var pathMutations = []string{"key-missing", "keys-all-missing", "key-extra", "key-empty", "key-wildcard", "key-odd-value", "key-name-empty", "key-on-nonlist",
	"elem-unknown", "elem-empty-name", "elem-nil", "elem-extra-tail", "truncate", "elem-odd-name", "legacy-element", "origin-target", "elem-dup", "empty-key-map"}

func mutatePath(rt *rapid.T, path *gpb.Path, label string) string {
	mut := rapid.SampledFrom(pathMutations).Draw(rt, label+".pmut")
	var keyed, unkeyed []int
	for i, e := range path.Elem {
		if e == nil {
			continue
		}
		if len(e.Key) > 0 {
			keyed = append(keyed, i)
		} else {
			unkeyed = append(unkeyed, i)
		}
	}
	pickKeyed := func() *gpb.PathElem {
		if len(keyed) == 0 {
			return nil
		}
		return path.Elem[keyed[rapid.IntRange(0, len(keyed)-1).Draw(rt, label+".kelem")]]
	}
	pickKey := func(e *gpb.PathElem) string {
		ks := sortedKeysStr(e.Key)
		return ks[rapid.IntRange(0, len(ks)-1).Draw(rt, label+".key")]
	}
	anyIdx := func() int {
		if len(path.Elem) == 0 {
			return -1
		}
		return rapid.IntRange(0, len(path.Elem)-1).Draw(rt, label+".idx")
	}
	switch mut {
	case "key-missing":
		if e := pickKeyed(); e != nil {
			delete(e.Key, pickKey(e))
			return mut
		}
	case "keys-all-missing":
		if e := pickKeyed(); e != nil {
			e.Key = nil
			return mut
		}
	case "key-extra":
		if e := pickKeyed(); e != nil {
			e.Key[rapid.SampledFrom([]string{"bogus", "", "k2", "name", "config/name"}).Draw(rt, label+".kn")] = rapid.SampledFrom(oddKeyValues).Draw(rt, label+".kv")
			return mut
		}
	case "key-empty":
		if e := pickKeyed(); e != nil {
			e.Key[pickKey(e)] = ""
			return mut
		}
	case "key-wildcard":
		if e := pickKeyed(); e != nil {
			e.Key[pickKey(e)] = "*"
			return mut
		}
	case "key-odd-value":
		if e := pickKeyed(); e != nil {
			e.Key[pickKey(e)] = rapid.SampledFrom(oddKeyValues).Draw(rt, label+".kv")
			return mut
		}
	case "key-name-empty":
		if e := pickKeyed(); e != nil {
			k := pickKey(e)
			e.Key[""] = e.Key[k]
			delete(e.Key, k)
			return mut
		}
	case "key-on-nonlist":
		if len(unkeyed) > 0 {
			e := path.Elem[unkeyed[rapid.IntRange(0, len(unkeyed)-1).Draw(rt, label+".uelem")]]
			e.Key = map[string]string{rapid.SampledFrom([]string{"k", "name", ""}).Draw(rt, label+".kn"): rapid.SampledFrom(oddKeyValues).Draw(rt, label+".kv")}
			return mut
		}
	case "elem-unknown":
		if i := anyIdx(); i >= 0 && path.Elem[i] != nil {
			path.Elem[i].Name = "bogus"
			return mut
		}
		path.Elem = append(path.Elem, &gpb.PathElem{Name: "bogus"})
		return mut
	case "elem-empty-name":
		if i := anyIdx(); i >= 0 && path.Elem[i] != nil {
			path.Elem[i].Name = ""
			return mut
		}
	case "elem-nil":
		if i := anyIdx(); i >= 0 {
			path.Elem[i] = nil
			return mut
		}
		path.Elem = append(path.Elem, nil)
		return mut
	case "elem-extra-tail":
		n := rapid.IntRange(1, 3).Draw(rt, label+".tail")
		for j := 0; j < n; j++ {
			path.Elem = append(path.Elem, &gpb.PathElem{Name: rapid.SampledFrom(oddNames).Draw(rt, label+".tn")})
		}
		return mut
	case "truncate":
		if len(path.Elem) > 0 {
			path.Elem = path.Elem[:rapid.IntRange(0, len(path.Elem)-1).Draw(rt, label+".cut")]
			return mut
		}
	case "elem-odd-name":
		if i := anyIdx(); i >= 0 && path.Elem[i] != nil {
			path.Elem[i].Name = rapid.SampledFrom(oddNames).Draw(rt, label+".on")
			return mut
		}
	case "legacy-element":
		for _, e := range path.Elem {
			//lint:ignore SA1019 deliberately exercising the deprecated field
			path.Element = append(path.Element, e.GetName())
		}
		if rapid.Bool().Draw(rt, label+".onlylegacy") {
			path.Elem = nil
		}
		return mut
	case "origin-target":
		path.Origin = rapid.SampledFrom([]string{"openconfig", "", "cli", "x"}).Draw(rt, label+".origin")
		path.Target = rapid.SampledFrom([]string{"", "dev1", "*"}).Draw(rt, label+".target")
		return mut
	case "elem-dup":
		if i := anyIdx(); i >= 0 {
			path.Elem = append(path.Elem[:i+1:i+1], path.Elem[i:]...)
			return mut
		}
	case "empty-key-map":
		if i := anyIdx(); i >= 0 && path.Elem[i] != nil && path.Elem[i].Key == nil {
			path.Elem[i].Key = map[string]string{}
			return mut
		}
	}
	return ""
}

var tvKinds = []string{"canonical", "canonical", "json-scalar", "string", "int", "uint", "bool", "bytes", "float", "double", "decimal", "leaflist", "leaflist-mixed",
	"leaflist-nil-elem", "leaflist-empty", "leaflist-nil-array", "any", "any-nil", "json", "json-ietf", "json-ietf-bad", "ascii", "proto-bytes", "empty-value", "nil", "int-for-uint"}

// oddTV draws a TypedValue of any kind; in (optional) is the leaf instance it is aimed at.
func oddTV(rt *rapid.T, in *model.Inst, label string) (*gpb.TypedValue, string) {
	kind := rapid.SampledFrom(tvKinds).Draw(rt, label+".tvkind")
	// one time in four the value kinds that belong to the leaf's own type (with odd contents): the type-specific
	// decoding code is only reached by a value of the matching kind
	if in != nil && in.F != nil && in.F.Type != nil && rapid.IntRange(0, 1).Draw(rt, label+".matchkind") == 0 {
		switch k := in.F.Type.VKind(); {
		case k == model.KDec:
			kind = rapid.SampledFrom([]string{"decimal", "decimal", "float", "double"}).Draw(rt, label+".deckind")
		case k.Signed():
			kind = "int"
		case k.Unsigned():
			kind = rapid.SampledFrom([]string{"uint", "int-for-uint"}).Draw(rt, label+".uintkind")
		case k == model.KBin:
			kind = "bytes"
		case k == model.KBool || k == model.KEmpty:
			kind = "bool"
		}
		if in.F.Kind == model.FLeafList && rapid.Bool().Draw(rt, label+".llkind") {
			kind = rapid.SampledFrom([]string{"leaflist", "leaflist-mixed", "leaflist-nil-elem", "leaflist-empty"}).Draw(rt, label+".llk")
		}
	}
	str := func() string {
		if rapid.Bool().Draw(rt, label+".oddstr") {
			return rapid.SampledFrom(oddStrings).Draw(rt, label+".sv")
		}
		return rapid.StringOfN(rapid.RuneFrom([]rune("ab01:-/[]= é\x00")), 0, 8, -1).Draw(rt, label+".sv")
	}
	i64 := func() int64 {
		return rapid.SampledFrom([]int64{0, 1, -1, 127, 128, -128, -129, 255, 256, 32767, 32768, 65535, 65536, math.MaxInt32, math.MaxInt32 + 1, math.MinInt32, math.MaxInt64, math.MinInt64, 5, 1500}).Draw(rt, label+".iv")
	}
	u64 := func() uint64 {
		return rapid.SampledFrom([]uint64{0, 1, 255, 256, 65535, 65536, math.MaxUint32, math.MaxUint32 + 1, math.MaxInt64, math.MaxInt64 + 1, math.MaxUint64, 64, 9000}).Draw(rt, label+".uv")
	}
	f64 := func() float64 {
		return rapid.SampledFrom([]float64{0, -0.0, 1.5, -1e-18, 1e17, 1e300, math.Inf(1), math.Inf(-1), math.NaN(), math.MaxFloat64, math.SmallestNonzeroFloat64, 0.81, 1000.0005}).Draw(rt, label+".fv")
	}
	scalar := func() *gpb.TypedValue {
		switch rapid.IntRange(0, 6).Draw(rt, label+".sc") {
		case 0:
			return &gpb.TypedValue{Value: &gpb.TypedValue_StringVal{StringVal: str()}}
		case 1:
			return &gpb.TypedValue{Value: &gpb.TypedValue_IntVal{IntVal: i64()}}
		case 2:
			return &gpb.TypedValue{Value: &gpb.TypedValue_UintVal{UintVal: u64()}}
		case 3:
			return &gpb.TypedValue{Value: &gpb.TypedValue_BoolVal{BoolVal: rapid.Bool().Draw(rt, label+".bv")}}
		case 4:
			return &gpb.TypedValue{Value: &gpb.TypedValue_BytesVal{BytesVal: []byte(str())}}
		case 5:
			return &gpb.TypedValue{Value: &gpb.TypedValue_DoubleVal{DoubleVal: f64()}}
		}
		return &gpb.TypedValue{}
	}
	switch kind {
	case "canonical":
		if in != nil {
			return instTV(*in), kind
		}
		return scalar(), "scalar"
	case "json-scalar":
		if in != nil {
			return jsonScalarTV(*in, rapid.Bool().Draw(rt, label+".pfx")), kind
		}
		return model.JSONIETFTV([]byte(`"x"`)), kind
	case "int-for-uint":
		if in != nil && in.F.Kind == model.FLeaf {
			if tv, ok := intForUintTV(in.V); ok {
				return tv, kind
			}
		}
		return &gpb.TypedValue{Value: &gpb.TypedValue_IntVal{IntVal: i64()}}, "int"
	case "string":
		return &gpb.TypedValue{Value: &gpb.TypedValue_StringVal{StringVal: str()}}, kind
	case "int":
		return &gpb.TypedValue{Value: &gpb.TypedValue_IntVal{IntVal: i64()}}, kind
	case "uint":
		return &gpb.TypedValue{Value: &gpb.TypedValue_UintVal{UintVal: u64()}}, kind
	case "bool":
		return &gpb.TypedValue{Value: &gpb.TypedValue_BoolVal{BoolVal: rapid.Bool().Draw(rt, label+".bv")}}, kind
	case "bytes":
		if rapid.IntRange(0, 3).Draw(rt, label+".nilbytes") == 0 {
			return &gpb.TypedValue{Value: &gpb.TypedValue_BytesVal{BytesVal: nil}}, "bytes-nil"
		}
		return &gpb.TypedValue{Value: &gpb.TypedValue_BytesVal{BytesVal: []byte(str())}}, kind
	case "float":
		//lint:ignore SA1019 deliberately exercising the deprecated field
		return &gpb.TypedValue{Value: &gpb.TypedValue_FloatVal{FloatVal: float32(f64())}}, kind
	case "double":
		return &gpb.TypedValue{Value: &gpb.TypedValue_DoubleVal{DoubleVal: f64()}}, kind
	case "decimal":
		if rapid.IntRange(0, 3).Draw(rt, label+".nildec") == 0 {
			//lint:ignore SA1019 deliberately exercising the deprecated field
			return &gpb.TypedValue{Value: &gpb.TypedValue_DecimalVal{DecimalVal: nil}}, "decimal-nil"
		}
		//lint:ignore SA1019 deliberately exercising the deprecated field
		return &gpb.TypedValue{Value: &gpb.TypedValue_DecimalVal{DecimalVal: &gpb.Decimal64{Digits: i64(), Precision: rapid.SampledFrom([]uint32{0, 1, 2, 18, 19, 400, math.MaxUint32}).Draw(rt, label+".prec")}}}, kind
	case "leaflist":
		if in != nil && in.F.Kind == model.FLeafList {
			return model.LeafListTV(in.LL), kind
		}
		n := rapid.IntRange(1, 3).Draw(rt, label+".lln")
		arr := &gpb.ScalarArray{}
		for i := 0; i < n; i++ {
			arr.Element = append(arr.Element, &gpb.TypedValue{Value: &gpb.TypedValue_StringVal{StringVal: str()}})
		}
		return &gpb.TypedValue{Value: &gpb.TypedValue_LeaflistVal{LeaflistVal: arr}}, kind
	case "leaflist-mixed":
		n := rapid.IntRange(1, 4).Draw(rt, label+".lln")
		arr := &gpb.ScalarArray{}
		for i := 0; i < n; i++ {
			arr.Element = append(arr.Element, scalar())
		}
		if rapid.IntRange(0, 4).Draw(rt, label+".nested") == 0 {
			arr.Element = append(arr.Element, &gpb.TypedValue{Value: &gpb.TypedValue_LeaflistVal{LeaflistVal: &gpb.ScalarArray{Element: []*gpb.TypedValue{scalar()}}}})
		}
		return &gpb.TypedValue{Value: &gpb.TypedValue_LeaflistVal{LeaflistVal: arr}}, kind
	case "leaflist-nil-elem":
		return &gpb.TypedValue{Value: &gpb.TypedValue_LeaflistVal{LeaflistVal: &gpb.ScalarArray{Element: []*gpb.TypedValue{nil, scalar()}}}}, kind
	case "leaflist-empty":
		return &gpb.TypedValue{Value: &gpb.TypedValue_LeaflistVal{LeaflistVal: &gpb.ScalarArray{}}}, kind
	case "leaflist-nil-array":
		return &gpb.TypedValue{Value: &gpb.TypedValue_LeaflistVal{LeaflistVal: nil}}, kind
	case "any":
		return &gpb.TypedValue{Value: &gpb.TypedValue_AnyVal{AnyVal: &anypb.Any{TypeUrl: "type.googleapis.com/x.Y", Value: []byte{1, 2}}}}, kind
	case "any-nil":
		return &gpb.TypedValue{Value: &gpb.TypedValue_AnyVal{AnyVal: nil}}, kind
	case "json":
		return &gpb.TypedValue{Value: &gpb.TypedValue_JsonVal{JsonVal: []byte(rapid.SampledFrom(jsonSnippets).Draw(rt, label+".js"))}}, kind
	case "json-ietf":
		return model.JSONIETFTV([]byte(rapid.SampledFrom(jsonSnippets).Draw(rt, label+".js"))), kind
	case "json-ietf-bad":
		return model.JSONIETFTV([]byte(rapid.SampledFrom([]string{"", "{", "[1,", "nul", "\"x", "{\"a\":}", "\x00", "{\"a\":1}}"}).Draw(rt, label+".js"))), kind
	case "ascii":
		return &gpb.TypedValue{Value: &gpb.TypedValue_AsciiVal{AsciiVal: str()}}, kind
	case "proto-bytes":
		return &gpb.TypedValue{Value: &gpb.TypedValue_ProtoBytes{ProtoBytes: []byte(str())}}, kind
	case "empty-value":
		return &gpb.TypedValue{}, kind
	}
	return nil, "nil"
}

var jsonSnippets = []string{`[{"a":1},42]`, `{"l":[{"k":"a"},null,{"k":"b"}]}`, `{"subs":{"sub":[{"index":0},42]}}`, `[{"k":"a"},"x"]`, `1`, `-1`, `1.5`, `"x"`, `"1"`, `true`, `null`, `[null]`, `[]`, `{}`, `[1]`, `["a","a"]`, `[{}]`, `{"a":1}`, `{"config":{"name":"x"}}`, `{"k":"a","v":"b"}`,
	`[[null]]`, `{"":1}`, `"AA=="`, `"RED"`, `"vt-types:CIRCLE"`, `18446744073709551616`, `"18446744073709551615"`, `1e400`, `[1,"a",true,null]`, `{"top":{"keyed":{"k-str":[1]}}}`, `{"k-str":[null]}`}

// oddRequest derives a SetRequest from a valid one by drawn mutations.
func oddRequest(rt *rapid.T, p *pool, label string) (*gpb.SetRequest, []string) {
	ri := genSetRequest(rt, p.v, p.m, reqOpts{MaxLeaf: 4, MaxJSON: 2, MaxDel: 2, MaxRep: 2, Prefix: true}, label)
	req := ri.Req
	var classes []string
	nmut := rapid.SampledFrom([]int{0, 1, 1, 2, 3}).Draw(rt, label+".nmut")
	updLists := func() []*[]*gpb.Update { return []*[]*gpb.Update{&req.Update, &req.Replace} }
	pickUpd := func() (*[]*gpb.Update, int) {
		var c []*[]*gpb.Update
		for _, l := range updLists() {
			if len(*l) > 0 {
				c = append(c, l)
			}
		}
		if len(c) == 0 {
			return nil, 0
		}
		l := c[rapid.IntRange(0, len(c)-1).Draw(rt, label+".ulist")]
		return l, rapid.IntRange(0, len(*l)-1).Draw(rt, label+".uidx")
	}
	for i := 0; i < nmut; i++ {
		// nil elements of repeated fields (Go-only states) have low weight: one slot each in the middle of the list
		mut := rapid.SampledFrom([]string{"nil-path", "nil-val", "odd-path", "odd-val", "dup-leaflist", "empty-update", "odd-prefix", "odd-delete", "nil-update", "json-mutated",
			"nil-delete", "dup-update", "update-to-replace", "duplicates-field", "add-odd-update", "origin-clash", "odd-path", "odd-val", "json-mutated", "nil-val", "nil-path"}).Draw(rt, label+".rmut")
		applied := true
		switch mut {
		case "nil-update":
			l := updLists()[rapid.IntRange(0, 1).Draw(rt, label+".which")]
			*l = append(*l, nil)
		case "nil-path":
			if l, i := pickUpd(); l != nil && (*l)[i] != nil {
				(*l)[i].Path = nil
			} else {
				applied = false
			}
		case "nil-val":
			if l, i := pickUpd(); l != nil && (*l)[i] != nil {
				(*l)[i].Val = nil
			} else {
				applied = false
			}
		case "empty-update":
			l := updLists()[rapid.IntRange(0, 1).Draw(rt, label+".which")]
			*l = append(*l, &gpb.Update{})
		case "dup-leaflist":
			var lls []model.Inst
			for _, in := range p.insts {
				if in.F.Kind == model.FLeafList && in.Alt == 0 {
					lls = append(lls, in)
				}
			}
			if len(lls) == 0 {
				applied = false
				break
			}
			in := lls[rapid.IntRange(0, len(lls)-1).Draw(rt, label+".ll")]
			u := &gpb.Update{Path: model.PathProto(in.Elems), Val: instTV(in)}
			req.Update = append(req.Update, u, &gpb.Update{Path: model.PathProto(in.Elems), Val: instTV(in)})
			if rapid.Bool().Draw(rt, label+".alsoreplace") {
				req.Replace = append(req.Replace, &gpb.Update{Path: model.PathProto(in.Elems), Val: instTV(in)})
			}
		case "odd-path":
			if l, i := pickUpd(); l != nil && (*l)[i] != nil {
				op, _ := oddPath(rt, p, label+".op")
				(*l)[i].Path = op
			} else {
				applied = false
			}
		case "odd-val":
			if l, i := pickUpd(); l != nil && (*l)[i] != nil {
				tv, _ := oddTV(rt, nil, label+".ov")
				(*l)[i].Val = tv
			} else {
				applied = false
			}
		case "odd-prefix":
			op, _ := oddPath(rt, p, label+".pfx")
			req.Prefix = op
		case "origin-clash":
			// prefix and a path with different non-empty origins (or targets): JoinPaths refuses them
			if req.Prefix == nil {
				req.Prefix = &gpb.Path{}
			}
			var victim *gpb.Path
			if l, i := pickUpd(); l != nil && (*l)[i] != nil && (*l)[i].Path != nil {
				victim = (*l)[i].Path
			} else if len(req.Delete) > 0 && req.Delete[0] != nil {
				victim = req.Delete[0]
			}
			if victim == nil {
				applied = false
				break
			}
			if rapid.Bool().Draw(rt, label+".clashtarget") {
				req.Prefix.Target, victim.Target = "dev1", "dev2"
			} else {
				req.Prefix.Origin, victim.Origin = "openconfig", "cli"
			}
		case "nil-delete":
			req.Delete = append(req.Delete, nil)
		case "odd-delete":
			op, _ := oddPath(rt, p, label+".del")
			req.Delete = append(req.Delete, op)
		case "dup-update":
			if l, i := pickUpd(); l != nil && (*l)[i] != nil {
				*l = append(*l, (*l)[i]) // the same object twice
			} else {
				applied = false
			}
		case "add-odd-update":
			op, _ := oddPath(rt, p, label+".aop")
			var in *model.Inst
			if len(p.insts) > 0 && rapid.Bool().Draw(rt, label+".aimed") {
				x := p.insts[rapid.IntRange(0, len(p.insts)-1).Draw(rt, label+".ain")]
				in = &x
				if rapid.Bool().Draw(rt, label+".ownpath") {
					op = model.PathProto(x.Elems)
				}
			}
			tv, _ := oddTV(rt, in, label+".aov")
			req.Update = append(req.Update, &gpb.Update{Path: op, Val: tv})
		case "json-mutated":
			applied = false
			for _, l := range updLists() {
				for _, u := range *l {
					if applied || u == nil || u.Val.GetJsonIetfVal() == nil {
						continue
					}
					if doc, err := parseJV(u.Val.GetJsonIetfVal()); err == nil {
						if mutateJV(rt, doc, label+".jm") != "" {
							u.Val = model.JSONIETFTV([]byte(doc.String()))
							applied = true
						}
					}
				}
			}
		case "update-to-replace":
			if len(req.Update) > 0 {
				req.Replace = append(req.Replace, req.Update[0])
			} else {
				applied = false
			}
		case "duplicates-field":
			if l, i := pickUpd(); l != nil && (*l)[i] != nil {
				(*l)[i].Duplicates = 3
			} else {
				applied = false
			}
		}
		if applied {
			classes = append(classes, "req-mut:"+mut)
		}
	}
	if len(classes) == 0 {
		classes = append(classes, "req-mut:none")
	}
	return req, classes
}

// oddNotifs derives notifications from the pool's tree.
func oddNotifs(rt *rapid.T, p *pool, label string) ([]*gpb.Notification, []string) {
	ns := notifsFor(rt, p.m, 10, label)
	var classes []string
	nmut := rapid.SampledFrom([]int{0, 1, 1, 2, 3}).Draw(rt, label+".nmut")
	for i := 0; i < nmut; i++ {
		mut := rapid.SampledFrom([]string{"nil-path", "nil-val", "odd-prefix", "delete", "odd-delete", "atomic", "nil-update", "json-update", "nil-notification", "odd-val", "odd-path", "empty-notification", "dup-leaflist",
			"json-update", "odd-val", "odd-path", "atomic", "delete", "origin-clash"}).Draw(rt, label+".nmutk")
		var n *gpb.Notification
		if len(ns) > 0 {
			n = ns[rapid.IntRange(0, len(ns)-1).Draw(rt, label+".nidx")]
		}
		applied := n != nil
		switch mut {
		case "nil-notification":
			ns = append(ns, nil)
			applied = true
		case "empty-notification":
			ns = append(ns, &gpb.Notification{})
			applied = true
		case "nil-update":
			if n != nil {
				n.Update = append(n.Update, nil)
			}
		case "nil-path":
			if n != nil && len(n.Update) > 0 && n.Update[0] != nil {
				n.Update[0].Path = nil
			}
		case "nil-val":
			if n != nil && len(n.Update) > 0 && n.Update[len(n.Update)-1] != nil {
				n.Update[len(n.Update)-1].Val = nil
			}
		case "odd-prefix":
			if n != nil {
				n.Prefix, _ = oddPath(rt, p, label+".pfx")
			}
		case "origin-clash":
			applied = false
			if n != nil && len(n.Update) > 0 && n.Update[0] != nil && n.Update[0].Path != nil {
				if n.Prefix == nil {
					n.Prefix = &gpb.Path{}
				}
				n.Prefix.Origin, n.Update[0].Path.Origin = "openconfig", "cli"
				applied = true
			}
		case "delete":
			if n != nil && len(p.insts) > 0 {
				n.Delete = append(n.Delete, model.PathProto(p.insts[rapid.IntRange(0, len(p.insts)-1).Draw(rt, label+".del")].Elems))
			}
		case "odd-delete":
			if n != nil {
				op, _ := oddPath(rt, p, label+".odel")
				n.Delete = append(n.Delete, op)
				if rapid.Bool().Draw(rt, label+".nildel") {
					n.Delete = append(n.Delete, nil)
				}
			}
		case "atomic":
			if n != nil {
				n.Atomic = true
				// spare capacity in Delete: UnmarshalNotifications appends to it
				n.Delete = append(make([]*gpb.Path, 0, 4), n.Delete...)
			}
		case "json-update":
			if n != nil && len(p.sites) > 0 {
				s := p.sites[rapid.IntRange(0, len(p.sites)-1).Draw(rt, label+".jsite")]
				doc := model.RenderJSON(s.N, model.JSONOpts{Prefix: rapid.Bool().Draw(rt, label+".jpfx")})
				if rapid.Bool().Draw(rt, label+".jmut") {
					if d, err := parseJV(doc); err == nil {
						mutateJV(rt, d, label+".jm")
						doc = []byte(d.String())
					}
				}
				n.Update = append(n.Update, &gpb.Update{Path: model.PathProto(s.Elems), Val: model.JSONIETFTV(doc)})
			}
		case "odd-val":
			if n != nil && len(n.Update) > 0 && n.Update[0] != nil {
				n.Update[0].Val, _ = oddTV(rt, nil, label+".ov")
			}
		case "odd-path":
			if n != nil && len(n.Update) > 0 && n.Update[0] != nil {
				n.Update[0].Path, _ = oddPath(rt, p, label+".op")
			}
		case "dup-leaflist":
			applied = false
			for _, in := range p.insts {
				if in.F.Kind == model.FLeafList && in.Alt == 0 && n != nil {
					n.Update = append(n.Update, &gpb.Update{Path: model.PathProto(in.Elems), Val: instTV(in)}, &gpb.Update{Path: model.PathProto(in.Elems), Val: instTV(in)})
					applied = true
					break
				}
			}
		}
		if applied {
			classes = append(classes, "notif-mut:"+mut)
		}
	}
	if len(classes) == 0 {
		classes = append(classes, "notif-mut:none")
	}
	return ns, classes
}

// oddString draws a path string biased to the characters that matter to the parser.
func oddString(rt *rapid.T, label string) string {
	if rapid.IntRange(0, 5).Draw(rt, label+".tmpl") == 0 {
		base := rapid.SampledFrom([]string{"/a/b[c=d]/e", "/a[k=x\\]y]/b", "a[b=c][d=e]", "/interfaces/interface[name=eth0]/config/mtu", "/a[k=[\\]]", "/", ""}).Draw(rt, label+".base")
		r := []rune(base)
		n := rapid.IntRange(0, 3).Draw(rt, label+".edits")
		for i := 0; i < n && len(r) > 0; i++ {
			pos := rapid.IntRange(0, len(r)-1).Draw(rt, label+".pos")
			ch := rapid.SampledFrom([]rune("[]=\\/ a*")).Draw(rt, label+".ch")
			switch rapid.IntRange(0, 2).Draw(rt, label+".ed") {
			case 0:
				r[pos] = ch
			case 1:
				r = append(r[:pos:pos], r[pos+1:]...)
			default:
				r = append(r[:pos:pos], append([]rune{ch}, r[pos:]...)...)
			}
		}
		return string(r)
	}
	return rapid.StringOfN(rapid.RuneFrom([]rune("[[]]==\\\\//ab1 .:*é\x00\"")), 0, 24, -1).Draw(rt, label+".s")
}

func joinClasses(parts ...[]string) []string {
	var out []string
	for _, p := range parts {
		out = append(out, p...)
	}
	return out
}

var _ = strings.Join
