package t6

import (
	"encoding/json"
	"fmt"
	"reflect"
	"strings"

	gpb "github.com/openconfig/gnmi/proto/gnmi"
	"github.com/openconfig/ygot/ygot"
	"pgregory.net/rapid"
	"verifharness/model"
)

// ---- parallel walk of model and GoStruct ---------------------------------------------------------------

// goSite is a struct-valued position of a built tree together with the Go value at that position.
type goSite struct {
	S  model.Site
	GS ygot.GoStruct
}

// goSites enumerates root, containers and keyed-list entries of m and the corresponding structs of gs
// (gs must have been built from m). Reflection only.
func goSites(m *model.Node, gs ygot.GoStruct) []goSite {
	var out []goSite
	var walk func(s model.Site, sv reflect.Value)
	walk = func(s model.Site, pv reflect.Value) {
		out = append(out, goSite{S: s, GS: pv.Interface().(ygot.GoStruct)})
		sv := pv.Elem()
		for _, f := range s.N.SI.Fields {
			fv := sv.Field(f.Index)
			via := append(append([]*model.FieldInfo(nil), s.Via...), f)
			switch f.Kind {
			case model.FCont:
				if c, ok := s.N.Cont[f.Name]; ok && !fv.IsNil() {
					walk(model.Site{N: c, Elems: appendElems(s.Elems, f.Paths[0]), Via: via, Keys: s.Keys, InOrdered: s.InOrdered}, fv)
				}
			case model.FList:
				for _, e := range s.N.List[f.Name] {
					ev := fv.MapIndex(model.GoKey(f, e.Key))
					if !ev.IsValid() || ev.IsNil() {
						continue
					}
					walk(model.Site{N: e.N, Elems: model.EntryElems(s.Elems, f, 0, e.Key), Via: via,
						Keys: append(append([][]model.Val(nil), s.Keys...), e.Key), InOrdered: s.InOrdered}, ev)
				}
			case model.FOrdList:
				if fv.IsNil() {
					continue
				}
				vals := fv.MethodByName("Values").Call(nil)[0]
				for i, e := range s.N.List[f.Name] {
					if i >= vals.Len() {
						break
					}
					walk(model.Site{N: e.N, Elems: model.EntryElems(s.Elems, f, 0, e.Key), Via: via,
						Keys: append(append([][]model.Val(nil), s.Keys...), e.Key), InOrdered: true}, vals.Index(i))
				}
			}
		}
	}
	walk(model.Site{N: m}, reflect.ValueOf(gs))
	return out
}

func appendElems(base []model.PElem, p []string) []model.PElem {
	out := make([]model.PElem, len(base), len(base)+len(p))
	copy(out, base)
	for _, s := range p {
		out = append(out, model.PElem{Name: s})
	}
	return out
}

// leafGoValue returns the Go value of field f of the struct at site gs (pointer, enum, union, slice).
func leafGoValue(gs ygot.GoStruct, f *model.FieldInfo) interface{} {
	return reflect.ValueOf(gs).Elem().Field(f.Index).Interface()
}

// ---- paths ---------------------------------------------------------------------------------------------

func clonePath(p *gpb.Path) *gpb.Path {
	out := &gpb.Path{Origin: p.GetOrigin(), Target: p.GetTarget()}
	for _, e := range p.GetElem() {
		ne := &gpb.PathElem{Name: e.GetName()}
		if e.GetKey() != nil {
			ne.Key = map[string]string{}
			for k, v := range e.GetKey() {
				ne.Key[k] = v
			}
		}
		out.Elem = append(out.Elem, ne)
	}
	return out
}

// commonPrefixLen is the number of leading elements all paths share (names and keys).
func commonPrefixLen(ps []*gpb.Path) int {
	if len(ps) == 0 {
		return 0
	}
	n := len(ps[0].GetElem())
	for _, p := range ps[1:] {
		el := p.GetElem()
		if len(el) < n {
			n = len(el)
		}
		for i := 0; i < n; i++ {
			if el[i].GetName() != ps[0].Elem[i].GetName() || !reflect.DeepEqual(el[i].GetKey(), ps[0].Elem[i].GetKey()) {
				n = i
				break
			}
		}
	}
	return n
}

// ---- TypedValues ---------------------------------------------------------------------------------------

// jsonScalarTV renders one leaf (or leaf-list) value as a json_ietf_val.
func jsonScalarTV(in model.Inst, prefix bool) *gpb.TypedValue {
	var x interface{}
	o := model.JSONOpts{Prefix: prefix}
	if in.F.Kind == model.FLeafList {
		arr := make([]interface{}, len(in.LL))
		for i, v := range in.LL {
			arr[i] = model.RenderValue(v, o)
		}
		x = arr
	} else {
		x = model.RenderValue(in.V, o)
	}
	b, err := json.Marshal(x)
	if err != nil {
		panic("HARNESS-BUG: " + err.Error())
	}
	return model.JSONIETFTV(b)
}

// intForUintTV renders an unsigned value as int_val: what a JSON translation produces and
// TolerateJSONInconsistencies exists for. ok=false when the value is not unsigned or too large.
func intForUintTV(v model.Val) (*gpb.TypedValue, bool) {
	if !v.K.Unsigned() || v.U > 1<<62 {
		return nil, false
	}
	return &gpb.TypedValue{Value: &gpb.TypedValue_IntVal{IntVal: int64(v.U)}}, true
}

// ---- SetRequests ---------------------------------------------------------------------------------------

type reqOpts struct {
	MaxLeaf   int  // max scalar updates
	MaxJSON   int  // max JSON updates at struct sites
	MaxDel    int  // max deletes
	MaxRep    int  // max replaces
	NoRootDoc bool // never use the root as a JSON site
	NoLLTwice bool // never address a leaf-list both directly and through a JSON document (F16 trigger)
	Prefix    bool // draw a prefix split
}

type reqInfo struct {
	Req         *gpb.SetRequest
	NonLeafOps  int // replaces/updates at non-leaf paths (trigger of F15-gnmidiff-schema-root-mutated)
	LeafOps     int
	DeleteOps   int
	LLDirect    map[string]bool // ids of leaf-lists updated directly
	JSONSites   []string
	TotalOps    int
	IntForUint  int
	description string
}

func (ri *reqInfo) String() string { return textProto(ri.Req) }

// genSetRequest assembles a SetRequest whose operations are all derived from tree m: scalar updates
// of leaves, JSON_IETF updates at containers / list entries, deletes and replaces. All values agree
// with m, so the request is conflict-free in the sense of gnmidiff unless o allows otherwise.
func genSetRequest(rt *rapid.T, v *model.Variant, m *model.Node, o reqOpts, label string) *reqInfo {
	ri := &reqInfo{Req: &gpb.SetRequest{}, LLDirect: map[string]bool{}}
	insts := leafInsts(m, false)
	sites := sitesOf(m)
	pick := func(n, max int, what string) []int {
		if n == 0 || max == 0 {
			return nil
		}
		if max > n {
			max = n
		}
		return rapid.SliceOfNDistinct(rapid.IntRange(0, n-1), 0, max, rapid.ID[int]).Draw(rt, label+"."+what)
	}
	jsonUnder := func(id string) bool {
		for _, s := range ri.JSONSites {
			if under(id, s) {
				return true
			}
		}
		return false
	}
	// JSON updates first (so that leaf-list exclusion knows the sites)
	var jsonIdx []int
	if len(sites) > 0 {
		jsonIdx = pick(len(sites), o.MaxJSON, "json")
	}
	prefixed := rapid.Bool().Draw(rt, label+".jsonprefix")
	mkJSON := func(s model.Site) *gpb.Update {
		doc := model.RenderJSON(s.N, model.JSONOpts{Prefix: prefixed})
		return &gpb.Update{Path: model.PathProto(s.Elems), Val: model.JSONIETFTV(doc)}
	}
	for _, i := range jsonIdx {
		s := sites[i]
		if len(s.Elems) == 0 && o.NoRootDoc {
			continue
		}
		id := model.ElemsID(s.Elems)
		// keep JSON sites disjoint (no site below another one)
		skip := false
		for _, other := range ri.JSONSites {
			if under(id, other) || under(other, id) {
				skip = true
			}
		}
		if skip {
			continue
		}
		ri.JSONSites = append(ri.JSONSites, id)
		ri.Req.Update = append(ri.Req.Update, mkJSON(s))
		ri.NonLeafOps++
	}
	for _, i := range pick(len(insts), o.MaxLeaf, "leaf") {
		in := insts[i]
		if o.NoLLTwice && in.F.Kind == model.FLeafList && jsonUnder(in.ID()) {
			continue
		}
		tv := instTV(in)
		switch rapid.IntRange(0, 5).Draw(rt, label+".form") {
		case 0:
			tv = jsonScalarTV(in, prefixed)
		}
		if in.F.Kind == model.FLeafList {
			ri.LLDirect[in.ID()] = true
		}
		ri.Req.Update = append(ri.Req.Update, &gpb.Update{Path: model.PathProto(in.Elems), Val: tv})
		ri.LeafOps++
	}
	// replaces: disjoint from each other and from the JSON sites
	nrep := 0
	if o.MaxRep > 0 {
		nrep = rapid.IntRange(0, o.MaxRep).Draw(rt, label+".nrep")
	}
	var repIDs []string
	for k := 0; k < nrep; k++ {
		if rapid.Bool().Draw(rt, label+".repleaf") && len(insts) > 0 {
			in := insts[rapid.IntRange(0, len(insts)-1).Draw(rt, label+".rep")]
			id := in.ID()
			if conflicts(id, repIDs) || conflicts(id, ri.JSONSites) || (o.NoLLTwice && in.F.Kind == model.FLeafList && (ri.LLDirect[id] || jsonUnder(id))) {
				continue
			}
			if in.F.Kind == model.FLeafList {
				ri.LLDirect[id] = true
			}
			repIDs = append(repIDs, id)
			ri.Req.Replace = append(ri.Req.Replace, &gpb.Update{Path: model.PathProto(in.Elems), Val: instTV(in)})
			ri.LeafOps++
		} else if len(sites) > 1 {
			s := sites[rapid.IntRange(1, len(sites)-1).Draw(rt, label+".rep")]
			id := model.ElemsID(s.Elems)
			if conflicts(id, repIDs) || conflicts(id, ri.JSONSites) {
				continue
			}
			if o.NoLLTwice {
				bad := false
				for ll := range ri.LLDirect {
					if under(ll, id) {
						bad = true
					}
				}
				if bad {
					continue
				}
			}
			repIDs = append(repIDs, id)
			ri.JSONSites = append(ri.JSONSites, id)
			ri.Req.Replace = append(ri.Req.Replace, mkJSON(s))
			ri.NonLeafOps++
		}
	}
	if o.MaxDel > 0 {
		for _, i := range pick(len(insts)+len(sites), o.MaxDel, "del") {
			var el []model.PElem
			if i < len(insts) {
				if insts[i].F.IsKey {
					continue
				}
				el = insts[i].Elems
			} else {
				el = sites[i-len(insts)].Elems
				if len(el) == 0 {
					continue
				}
			}
			if conflicts(model.ElemsID(el), repIDs) {
				continue
			}
			repIDs = append(repIDs, model.ElemsID(el))
			ri.Req.Delete = append(ri.Req.Delete, model.PathProto(el))
			ri.DeleteOps++
		}
	}
	ri.TotalOps = len(ri.Req.Update) + len(ri.Req.Replace) + len(ri.Req.Delete)
	if o.Prefix && ri.TotalOps > 0 && rapid.IntRange(0, 2).Draw(rt, label+".split") > 0 {
		splitPrefix(rt, ri.Req, label)
		// a prefix may also carry only a target (and no elements at all)
		if rapid.IntRange(0, 2).Draw(rt, label+".target") == 0 {
			if ri.Req.Prefix == nil {
				ri.Req.Prefix = &gpb.Path{}
			}
			ri.Req.Prefix.Target = "dut"
		}
	}
	return ri
}

// under: path id is anc or lies below it (ids as rendered by model.ElemsID).
func under(id, anc string) bool {
	return anc == "" || id == anc || strings.HasPrefix(id, anc+"/") || strings.HasPrefix(id, anc+"[")
}

// conflicts: id equals, is above or is below one of the ids.
func conflicts(id string, ids []string) bool {
	for _, o := range ids {
		if under(id, o) || under(o, id) {
			return true
		}
	}
	return false
}

// splitPrefix moves a drawn number of common leading elements of all paths into req.Prefix.
func splitPrefix(rt *rapid.T, req *gpb.SetRequest, label string) {
	var ps []*gpb.Path
	ps = append(ps, req.Delete...)
	for _, u := range req.Replace {
		ps = append(ps, u.Path)
	}
	for _, u := range req.Update {
		ps = append(ps, u.Path)
	}
	n := commonPrefixLen(ps)
	if n == 0 {
		if rapid.Bool().Draw(rt, label+".emptyprefix") {
			req.Prefix = &gpb.Path{}
		}
		return
	}
	k := rapid.IntRange(0, n).Draw(rt, label+".prefixlen")
	// the prefix is built the way a decoder or an element-by-element append builds it: its Elem slice has
	// spare capacity, so a join that appends to it writes into memory the caller still owns
	pe := make([]*gpb.PathElem, 0, k+4)
	pe = append(pe, clonePath(ps[0]).Elem[:k]...)
	req.Prefix = &gpb.Path{Elem: pe}
	for _, p := range ps {
		p.Elem = p.Elem[k:]
	}
}

// notifsFor renders the leaves of m as gNMI notifications (harness renderer, scalar TypedValues).
func notifsFor(rt *rapid.T, m *model.Node, max int, label string) []*gpb.Notification {
	insts := leafInsts(m, false)
	if len(insts) > max {
		idx := rapid.SliceOfNDistinct(rapid.IntRange(0, len(insts)-1), max, max, rapid.ID[int]).Draw(rt, label+".pick")
		var sel []model.Inst
		for _, i := range idx {
			sel = append(sel, insts[i])
		}
		insts = sel
	}
	n := &gpb.Notification{Timestamp: 42}
	var out []*gpb.Notification
	for i, in := range insts {
		n.Update = append(n.Update, &gpb.Update{Path: model.PathProto(in.Elems), Val: instTV(in)})
		if i%7 == 6 {
			out = append(out, n)
			n = &gpb.Notification{Timestamp: 43}
		}
	}
	if len(n.Update) > 0 {
		out = append(out, n)
	}
	return out
}

func describeTree(name string, v *model.Variant, m *model.Node) string {
	return fmt.Sprintf("%s (variant %s):\n%s", name, v.Name, indent(m.Dump(), "    "))
}

func indent(s, pad string) string {
	if s == "" {
		return pad + "<empty>\n"
	}
	lines := strings.Split(strings.TrimRight(s, "\n"), "\n")
	for i := range lines {
		lines[i] = pad + lines[i]
	}
	return strings.Join(lines, "\n") + "\n"
}
