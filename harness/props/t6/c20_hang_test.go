package t6

import (
	"fmt"
	"time"

	gpb "github.com/openconfig/gnmi/proto/gnmi"
	"github.com/openconfig/ygot/ytypes"
)

// F96: a gNMI decimal_val carries its precision as a uint32 and ytypes evaluated 10^precision exactly
// (math/big) before dividing: one small, well-formed TypedValue kept SetNode busy for hours and
// gigabytes. "Returns normally" of C20 fails without a panic.
const F96 = "F96-decimal-precision-not-returning"

// witnessF96 sends one such value (a precision for which the computation needs minutes and about a
// hundred megabytes, so that a regressed library does not exhaust the machine while the rest of the
// check runs) and waits for the call to return. With the repair the call returns an error at once;
// the limit is five orders of magnitude above that.
func witnessF96() (bool, string) {
	v := variantByName("vtu")
	tv := &gpb.TypedValue{Value: &gpb.TypedValue_DecimalVal{DecimalVal: &gpb.Decimal64{Digits: 1, Precision: 300000000}}}
	path := &gpb.Path{Elem: []*gpb.PathElem{{Name: "top"}, {Name: "d3"}}}
	done := make(chan string, 1)
	go func() {
		var err error
		if p := catch(func() {
			err = ytypes.SetNode(v.Schema().RootSchema(), v.NewRoot(), path, tv, &ytypes.InitMissingElements{})
		}); p != nil {
			done <- "panic: " + p.Val
			return
		}
		done <- fmt.Sprintf("returned err=%v", err)
	}()
	select {
	case <-done:
		return false, ""
	case <-time.After(30 * time.Second):
		return true, "SetNode(/top/d3, decimal_val{digits:1 precision:300000000}) has not returned after 30 s"
	}
}
