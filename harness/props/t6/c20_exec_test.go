package t6

import (
	"bytes"
	"encoding/json"
	"fmt"
	"os"
	"strings"
	"sync"

	gpb "github.com/openconfig/gnmi/proto/gnmi"
	"github.com/openconfig/ygot/gnmidiff"
	"github.com/openconfig/ygot/ygot"
	"github.com/openconfig/ygot/ytypes"
	"google.golang.org/protobuf/encoding/prototext"
	"verifharness/model"
	"verifharness/th"
)

// ---- known panics ---------------------------------------------------------------------------------------

type knownPanic struct {
	id      string
	match   func(p *panicInfo) bool
	witness func() *panicInfo
}

var knownPanics = []knownPanic{
	{F4, func(p *panicInfo) bool {
		return strings.Contains(p.Val, "interface conversion: interface {} is") && strings.Contains(p.Val, "not map[string]interface {}") &&
			strings.Contains(p.Stack, "ytypes.unmarshalList")
	}, func() *panicInfo {
		v := variantByName("vtu")
		return catch(func() { v.Unmarshal([]byte(`{"top":{"keyed":{"k-str":[1]}}}`), v.NewRoot()) })
	}},
	{F16, func(p *panicInfo) bool {
		return strings.Contains(p.Val, "comparing uncomparable type []interface {}") && strings.Contains(p.Stack, "gnmidiff.(*setRequestIntent).writeUpdate")
	}, func() *panicInfo {
		ll := &gpb.TypedValue{Value: &gpb.TypedValue_LeaflistVal{LeaflistVal: &gpb.ScalarArray{Element: []*gpb.TypedValue{{Value: &gpb.TypedValue_StringVal{StringVal: "a"}}}}}}
		lp := &gpb.Path{Elem: []*gpb.PathElem{{Name: "top"}, {Name: "ll-s"}}}
		req := &gpb.SetRequest{Update: []*gpb.Update{{Path: lp, Val: ll}, {Path: lp, Val: ll}}}
		return catch(func() { gnmidiff.DiffSetRequest(req, &gpb.SetRequest{}, nil) })
	}},
	{F80, func(p *panicInfo) bool {
		if !strings.Contains(p.Val, "invalid memory address or nil pointer dereference") {
			return false
		}
		switch firstRepoFrame(p.Stack) {
		case "github.com/openconfig/ygot/ytypes.setNode", "github.com/openconfig/ygot/ytypes.joinPrefixToUpdate", "github.com/openconfig/ygot/ytypes.replacePaths",
			"github.com/openconfig/ygot/ytypes.UnmarshalNotifications", "github.com/openconfig/ygot/gnmidiff.minimalSetRequestIntent",
			"github.com/openconfig/ygot/gnmidiff.DiffSetRequestToNotifications", "github.com/openconfig/ygot/ygot.PathToStrings":
			return true
		}
		return false
	}, func() *panicInfo {
		v := variantByName("vtu")
		return catch(func() {
			ytypes.UnmarshalSetRequest(schemaWith(v, v.NewRoot()), &gpb.SetRequest{Update: []*gpb.Update{nil}})
		})
	}},
	{F81, func(p *panicInfo) bool {
		return strings.Contains(p.Val, "interface conversion: error is") && strings.Contains(p.Val, "not *ytypes.ComplianceErrors") &&
			firstRepoFrame(p.Stack) == "github.com/openconfig/ygot/ytypes.UnmarshalSetRequest"
	}, func() *panicInfo {
		v := variantByName("vtu")
		req := &gpb.SetRequest{Prefix: &gpb.Path{Origin: "a"}, Update: []*gpb.Update{{Path: &gpb.Path{Origin: "b", Elem: []*gpb.PathElem{{Name: "top"}, {Name: "s"}}},
			Val: &gpb.TypedValue{Value: &gpb.TypedValue_StringVal{StringVal: "x"}}}}}
		return catch(func() { ytypes.UnmarshalSetRequest(schemaWith(v, v.NewRoot()), req, &ytypes.BestEffortUnmarshal{}) })
	}},
}

// Findings discovered by C20.
const (
	// F80: nil elements inside repeated message fields are dereferenced.
	F80 = "F80-nil-repeated-element-panic"
	// F81: with BestEffortUnmarshal a prefix-join error is type-asserted to *ComplianceErrors.
	F81 = "F81-besteffort-join-error-panic"
)

// originClash: the prefix and some path of the message carry different non-empty origins or targets
// (util.JoinPaths refuses to join them).
func originClash(req *gpb.SetRequest, ns []*gpb.Notification) bool {
	clash := func(prefix *gpb.Path, ps []*gpb.Path) bool {
		for _, p := range ps {
			if (prefix.GetOrigin() != "" && p.GetOrigin() != "" && prefix.GetOrigin() != p.GetOrigin()) ||
				(prefix.GetTarget() != "" && p.GetTarget() != "" && prefix.GetTarget() != p.GetTarget()) {
				return true
			}
		}
		return false
	}
	paths := func(del []*gpb.Path, ups ...[]*gpb.Update) []*gpb.Path {
		out := append([]*gpb.Path(nil), del...)
		for _, l := range ups {
			for _, u := range l {
				out = append(out, u.GetPath())
			}
		}
		return out
	}
	if req != nil && clash(req.Prefix, paths(req.Delete, req.Update, req.Replace)) {
		return true
	}
	for _, n := range ns {
		if n != nil && clash(n.Prefix, paths(n.Delete, n.Update)) {
			return true
		}
	}
	return false
}

// panicID returns the id of the known finding whose signature p carries ("" if none).
func panicID(p *panicInfo) string {
	if p == nil {
		return ""
	}
	for _, k := range knownPanics {
		if k.match(p) {
			return k.id
		}
	}
	return ""
}

func witnessPanic(id string) (bool, string) {
	for _, k := range knownPanics {
		if k.id == id {
			if p := k.witness(); p != nil {
				if !k.match(p) {
					return true, "witness panics with another signature: " + p.Val
				}
				return true, "witness input still panics: " + p.Val
			}
			return false, ""
		}
	}
	panic("HARNESS-BUG: no witness for " + id)
}

var (
	activeOnce sync.Once
	activeTab  map[string]bool
)

// activeKnownPanic: finding id is listed as open and its witness still panics (for fuzz workers, which
// have no evidence recorder). Mirrors ev.Rec.Witness/Active.
func activeKnownPanic(id string) bool {
	activeOnce.Do(func() {
		activeTab = map[string]bool{}
		for _, k := range knownPanics {
			if kfStatus(k.id) == "open" {
				if p := k.witness(); p != nil && k.match(p) {
					activeTab[k.id] = true
				}
			}
		}
	})
	return activeTab[id]
}

// ---- outcome --------------------------------------------------------------------------------------------

type outcome struct {
	pan   *panicInfo
	deep  bool // input reached type-specific code or the call succeeded
	ok    bool
	class []string
	log   []string
}

func (o *outcome) logf(f string, a ...interface{}) { o.log = append(o.log, fmt.Sprintf(f, a...)) }

func errText(err error) string {
	if err == nil {
		return ""
	}
	return err.Error()
}

func containsAny(s string, subs ...string) bool {
	for _, x := range subs {
		if strings.Contains(s, x) {
			return true
		}
	}
	return false
}

var variantNames = th.AllVariants

// ---- domain 1: JSON documents ----------------------------------------------------------------------------

type jsonCase struct {
	Variant string
	Entry   int // 0 generated Unmarshal, 1 ytypes.Unmarshal of the decoded value, 2 SetNode(root, json_ietf_val), 3 UnmarshalSetRequest(replace /)
	Opt     int // 0 none, 1 IgnoreExtraFields, 2 PreferShadowPath, 3 both
	Doc     []byte
	Base    *model.Node // optional pre-populated root
}

var jsonEntryNames = []string{"generated.Unmarshal", "ytypes.Unmarshal", "SetNode-json", "UnmarshalSetRequest-json"}

func (c jsonCase) String() string {
	s := fmt.Sprintf("variant %s, entry %s, opt %d, document (%d bytes): %s", c.Variant, jsonEntryNames[c.Entry%4], c.Opt, len(c.Doc), th.Trunc(string(c.Doc), 4000))
	if c.Base != nil {
		s += "\ntarget root pre-populated with:\n" + c.Base.Dump()
	}
	return s
}

func decodeJSONCase(data []byte) (jsonCase, bool) {
	if len(data) < 1 {
		return jsonCase{}, false
	}
	h := int(data[0])
	return jsonCase{Variant: variantNames[h%6], Entry: (h / 6) % 4, Opt: (h / 24) % 4, Doc: data[1:]}, true
}

func encodeJSONCase(c jsonCase) []byte {
	h := 0
	for i, n := range variantNames {
		if n == c.Variant {
			h = i
		}
	}
	h += 6*(c.Entry%4) + 24*(c.Opt%4)
	return append([]byte{byte(h)}, c.Doc...)
}

func execJSON(c jsonCase) outcome {
	v := variantByName(c.Variant)
	v.MustInit()
	var o outcome
	var uopts []ytypes.UnmarshalOpt
	var sopts []ytypes.SetNodeOpt
	sopts = append(sopts, &ytypes.InitMissingElements{})
	if c.Opt&1 != 0 {
		uopts = append(uopts, &ytypes.IgnoreExtraFields{})
		sopts = append(sopts, &ytypes.IgnoreExtraFields{})
	}
	if c.Opt&2 != 0 {
		uopts = append(uopts, &ytypes.PreferShadowPath{})
		sopts = append(sopts, &ytypes.PreferShadowPath{})
	}
	root := v.NewRoot()
	if c.Base != nil {
		root = model.Build(c.Base)
	}
	var err error
	o.pan = watched(c.String, func() {
		switch c.Entry % 4 {
		case 0:
			err = v.Unmarshal(c.Doc, root, uopts...)
		case 1:
			var tree interface{}
			if e := json.Unmarshal(c.Doc, &tree); e != nil {
				err = fmt.Errorf("harness: invalid character / not JSON: %v", e)
				return
			}
			err = ytypes.Unmarshal(rootEntry(v), root, tree, uopts...)
		case 2:
			err = ytypes.SetNode(rootEntry(v), root, &gpb.Path{}, model.JSONIETFTV(c.Doc), sopts...)
		case 3:
			req := &gpb.SetRequest{Replace: []*gpb.Update{{Path: &gpb.Path{}, Val: model.JSONIETFTV(c.Doc)}}}
			err = ytypes.UnmarshalSetRequest(schemaWith(v, root), req, uopts...)
		}
	})
	o.ok = o.pan == nil && err == nil
	et := errText(err)
	o.deep = o.ok || (o.pan == nil && !containsAny(et, "invalid character", "unexpected end of JSON", "json: cannot unmarshal", "exceeded max depth", "JSON input"))
	o.logf("err=%v", err)
	o.class = append(o.class, "json-entry:"+jsonEntryNames[c.Entry%4])
	return o
}

// ---- domain 2: GetNode / SetNode / DeleteNode ------------------------------------------------------------

type nodeCase struct {
	Variant string
	Op      int   // 0 GetNode, 1 SetNode, 2 DeleteNode
	Opts    uint8 // bit set, meaning depends on Op
	Path    *gpb.Path
	Val     *gpb.TypedValue
	Base    *model.Node
}

var nodeOpNames = []string{"GetNode", "SetNode", "DeleteNode"}

func (c nodeCase) String() string {
	s := fmt.Sprintf("variant %s, %s, option bits %05b\npath:  %s\nvalue: %s", c.Variant, nodeOpNames[c.Op%3], c.Opts, textProto(c.Path), textProto(c.Val))
	if c.Base != nil {
		s += "\nroot built from:\n" + c.Base.Dump()
	} else {
		s += "\nroot: empty"
	}
	return s
}

// fuzz encoding: 2 header bytes, then a prototext gnmi.Update (path + val).
func decodeNodeCase(data []byte) (nodeCase, bool) {
	if len(data) < 2 {
		return nodeCase{}, false
	}
	u := &gpb.Update{}
	if err := (prototext.UnmarshalOptions{}).Unmarshal(data[2:], u); err != nil {
		return nodeCase{}, false
	}
	return nodeCase{Variant: variantNames[int(data[0])%6], Op: (int(data[0]) / 6) % 3, Opts: data[1], Path: u.Path, Val: u.Val}, true
}

func encodeNodeCase(c nodeCase) []byte {
	h := 0
	for i, n := range variantNames {
		if n == c.Variant {
			h = i
		}
	}
	h += 6 * (c.Op % 3)
	txt, _ := prototext.MarshalOptions{}.Marshal(&gpb.Update{Path: c.Path, Val: c.Val})
	return append([]byte{byte(h), c.Opts}, txt...)
}

func execNode(c nodeCase) outcome {
	v := variantByName(c.Variant)
	v.MustInit()
	var o outcome
	root := v.NewRoot()
	if c.Base != nil {
		root = model.Build(c.Base)
	}
	var err error
	n := 0
	o.pan = watched(c.String, func() {
		switch c.Op % 3 {
		case 0:
			var opts []ytypes.GetNodeOpt
			if c.Opts&1 != 0 {
				opts = append(opts, &ytypes.GetHandleWildcards{})
			}
			if c.Opts&2 != 0 {
				opts = append(opts, &ytypes.GetPartialKeyMatch{})
			}
			if c.Opts&4 != 0 {
				opts = append(opts, &ytypes.GetTolerateNil{})
			}
			if c.Opts&8 != 0 {
				opts = append(opts, &ytypes.PreferShadowPath{})
			}
			var nodes []*ytypes.TreeNode
			nodes, err = ytypes.GetNode(rootEntry(v), root, c.Path, opts...)
			n = len(nodes)
		case 1:
			var opts []ytypes.SetNodeOpt
			if c.Opts&1 == 0 { // mostly on
				opts = append(opts, &ytypes.InitMissingElements{})
			}
			if c.Opts&2 != 0 {
				opts = append(opts, &ytypes.TolerateJSONInconsistencies{})
			}
			if c.Opts&4 != 0 {
				opts = append(opts, &ytypes.IgnoreExtraFields{})
			}
			if c.Opts&8 != 0 {
				opts = append(opts, &ytypes.PreferShadowPath{})
			}
			err = ytypes.SetNode(rootEntry(v), root, c.Path, c.Val, opts...)
		case 2:
			var opts []ytypes.DelNodeOpt
			if c.Opts&8 != 0 {
				opts = append(opts, &ytypes.PreferShadowPath{})
			}
			err = ytypes.DeleteNode(rootEntry(v), root, c.Path, opts...)
		}
	})
	o.ok = o.pan == nil && err == nil
	et := errText(err)
	// shallow = the path did not even resolve its first element
	o.deep = o.ok || (o.pan == nil && (strings.Contains(et, "unmarshal") || len(c.Path.GetElem()) > 0 && !containsAny(et, "no match found in", "could not find children")))
	o.logf("%d nodes, err=%v", n, err)
	o.class = append(o.class, "node-op:"+nodeOpNames[c.Op%3])
	return o
}

// ---- domain 3: SetRequests and notifications --------------------------------------------------------------

type reqCase struct {
	Variant string
	API     int // 0 UnmarshalSetRequest, 1 UnmarshalNotifications
	Opts    uint8
	Req     *gpb.SetRequest
	Notifs  []*gpb.Notification
	NilReq  bool // pass a nil request / a nil notification in the slice
	Base    *model.Node
}

func (c reqCase) String() string {
	s := fmt.Sprintf("variant %s, option bits %03b, ", c.Variant, c.Opts)
	if c.API%2 == 0 {
		s += "UnmarshalSetRequest\nrequest: " + textProto(c.Req)
		if c.NilReq {
			s += " (nil *SetRequest)"
		}
	} else {
		s += fmt.Sprintf("UnmarshalNotifications, %d notifications\n%s", len(c.Notifs), textNotifs(c.Notifs))
	}
	if c.Base != nil {
		s += "\nschema.Root built from:\n" + c.Base.Dump()
	} else {
		s += "\nschema.Root: empty"
	}
	return s
}

// fuzz encoding: 2 header bytes, then prototext of a SetRequest (API 0) or of a GetResponse whose
// notifications are used (API 1).
func decodeReqCase(data []byte) (reqCase, bool) {
	if len(data) < 2 {
		return reqCase{}, false
	}
	c := reqCase{Variant: variantNames[int(data[0])%6], API: (int(data[0]) / 6) % 2, Opts: data[1]}
	if c.API == 0 {
		c.Req = &gpb.SetRequest{}
		if err := (prototext.UnmarshalOptions{}).Unmarshal(data[2:], c.Req); err != nil {
			return c, false
		}
		return c, true
	}
	gr := &gpb.GetResponse{}
	if err := (prototext.UnmarshalOptions{}).Unmarshal(data[2:], gr); err != nil {
		return c, false
	}
	c.Notifs = gr.Notification
	return c, true
}

func encodeReqCase(c reqCase) []byte {
	h := 0
	for i, n := range variantNames {
		if n == c.Variant {
			h = i
		}
	}
	h += 6 * (c.API % 2)
	var txt []byte
	if c.API%2 == 0 {
		txt, _ = prototext.MarshalOptions{}.Marshal(c.Req)
	} else {
		txt, _ = prototext.MarshalOptions{}.Marshal(&gpb.GetResponse{Notification: c.Notifs})
	}
	return append([]byte{byte(h), c.Opts}, txt...)
}

func execReq(c reqCase) outcome {
	v := variantByName(c.Variant)
	v.MustInit()
	var o outcome
	root := v.NewRoot()
	if c.Base != nil {
		root = model.Build(c.Base)
	}
	var opts []ytypes.UnmarshalOpt
	if c.Opts&1 != 0 {
		opts = append(opts, &ytypes.IgnoreExtraFields{})
	}
	if c.Opts&2 != 0 {
		opts = append(opts, &ytypes.PreferShadowPath{})
	}
	if c.Opts&4 != 0 {
		opts = append(opts, &ytypes.BestEffortUnmarshal{})
	}
	var err error
	o.pan = watched(c.String, func() {
		sch := schemaWith(v, root)
		if c.API%2 == 0 {
			req := c.Req
			if c.NilReq {
				req = nil
			}
			err = ytypes.UnmarshalSetRequest(sch, req, opts...)
		} else {
			err = ytypes.UnmarshalNotifications(sch, c.Notifs, opts...)
		}
	})
	o.ok = o.pan == nil && err == nil
	et := errText(err)
	o.deep = o.ok || (o.pan == nil && containsAny(et, "unmarshal", "failed to update", "StringToType", "got type", "setNode"))
	o.logf("err=%v", err)
	if c.API%2 == 0 {
		o.class = append(o.class, "req-api:UnmarshalSetRequest")
	} else {
		o.class = append(o.class, "req-api:UnmarshalNotifications")
	}
	return o
}

// ---- domain 4: path strings -------------------------------------------------------------------------------

func execStr(s string) outcome {
	var o outcome
	var e1, e2, e3, e4, e5 error
	var p1 *gpb.Path
	o.pan = watched(func() string { return fmt.Sprintf("string %q", s) }, func() {
		p1, e1 = ygot.StringToStructuredPath(s)
		_, e2 = ygot.StringToStringSlicePath(s)
		_, e3 = ygot.StringToPath(s, ygot.StructuredPath, ygot.StringSlicePath)
		_, e4 = ygot.StringToPath(s, ygot.StringSlicePath)
		_, e5 = ygot.StringToPath(s)
		if e1 == nil && p1 != nil {
			// the reverse direction on whatever was parsed must not panic either
			ygot.PathToString(p1)
			ygot.PathToStrings(p1)
			ygot.PathToSchemaPath(p1)
		}
	})
	o.ok = o.pan == nil && e1 == nil && e2 == nil && e3 == nil && e4 == nil
	// "deep" = the element parser was reached: the string has a bracket, escape or '=' (key syntax)
	o.deep = o.pan == nil && (o.ok || strings.ContainsAny(s, "[]=\\"))
	o.logf("structured err=%v; slice err=%v; both err=%v; no types err=%v", e1, e2, e3, e5)
	return o
}

// ---- domain 5: gnmidiff -----------------------------------------------------------------------------------

type diffCase struct {
	Variant string // "" = nil schema
	API     int    // 0 DiffSetRequest, 1 DiffSetRequestToNotifications
	A, B    *gpb.SetRequest
	Notifs  []*gpb.Notification
	NilA    bool
	Base    *model.Node
}

func (c diffCase) String() string {
	sch := "nil schema"
	if c.Variant != "" {
		sch = "schema of variant " + c.Variant
	}
	s := ""
	if c.API%2 == 0 {
		s = fmt.Sprintf("gnmidiff.DiffSetRequest, %s\nA: %s\nB: %s", sch, textProto(c.A), textProto(c.B))
	} else {
		s = fmt.Sprintf("gnmidiff.DiffSetRequestToNotifications, %s\nrequest: %s\n%d notifications:\n%s", sch, textProto(c.A), len(c.Notifs), textNotifs(c.Notifs))
	}
	if c.NilA {
		s += "\n(first request passed as nil)"
	}
	if c.Base != nil {
		s += "\nschema.Root built from:\n" + c.Base.Dump()
	}
	return s
}

var diffSep = []byte("\n#---#\n")

// fuzz encoding: 1 header byte, prototext SetRequest, separator line, prototext SetRequest / GetResponse.
func decodeDiffCase(data []byte) (diffCase, bool) {
	if len(data) < 1 {
		return diffCase{}, false
	}
	h := int(data[0])
	c := diffCase{API: (h / 7) % 2}
	if h%7 < 6 {
		c.Variant = variantNames[h%7]
	}
	parts := bytes.SplitN(data[1:], diffSep, 2)
	c.A = &gpb.SetRequest{}
	if err := (prototext.UnmarshalOptions{}).Unmarshal(parts[0], c.A); err != nil {
		return c, false
	}
	var second []byte
	if len(parts) > 1 {
		second = parts[1]
	}
	if c.API == 0 {
		c.B = &gpb.SetRequest{}
		if err := (prototext.UnmarshalOptions{}).Unmarshal(second, c.B); err != nil {
			return c, false
		}
		return c, true
	}
	gr := &gpb.GetResponse{}
	if err := (prototext.UnmarshalOptions{}).Unmarshal(second, gr); err != nil {
		return c, false
	}
	c.Notifs = gr.Notification
	return c, true
}

func encodeDiffCase(c diffCase) []byte {
	h := 6
	for i, n := range variantNames {
		if n == c.Variant {
			h = i
		}
	}
	h += 7 * (c.API % 2)
	a, _ := prototext.MarshalOptions{}.Marshal(c.A)
	var b []byte
	if c.API%2 == 0 {
		b, _ = prototext.MarshalOptions{}.Marshal(c.B)
	} else {
		b, _ = prototext.MarshalOptions{}.Marshal(&gpb.GetResponse{Notification: c.Notifs})
	}
	out := append([]byte{byte(h)}, a...)
	out = append(out, diffSep...)
	return append(out, b...)
}

func execDiff(c diffCase) outcome {
	var o outcome
	var sch *ytypes.Schema
	if c.Variant != "" {
		v := variantByName(c.Variant)
		v.MustInit()
		root := v.NewRoot()
		if c.Base != nil {
			root = model.Build(c.Base)
		}
		sch = schemaWith(v, root)
	}
	var err error
	o.pan = watched(c.String, func() {
		a := c.A
		if c.NilA {
			a = nil
		}
		if c.API%2 == 0 {
			_, err = gnmidiff.DiffSetRequest(a, c.B, sch)
		} else {
			_, err = gnmidiff.DiffSetRequestToNotifications(a, c.Notifs, sch)
		}
	})
	o.ok = o.pan == nil && err == nil
	et := errText(err)
	o.deep = o.ok || (o.pan == nil && containsAny(et, "unmarshalling update", "unrecognized JSON", "set twice", "conflicting", "prefix match", "not a scalar type", "flatten", "JSON"))
	o.logf("err=%v", err)
	if c.API%2 == 0 {
		o.class = append(o.class, "diff-api:DiffSetRequest")
	} else {
		o.class = append(o.class, "diff-api:DiffSetRequestToNotifications")
	}
	o.class = append(o.class, fmt.Sprintf("diff-schema:%v", c.Variant != ""))
	return o
}

// ---- fuzz-side bookkeeping --------------------------------------------------------------------------------

var (
	exclMu   sync.Mutex
	exclFile *os.File
)

// noteFuzzExclusion appends one line per excluded known panic to $VERIF_FUZZ_EXCL.<pid> (fuzz workers
// are killed without notice, so the count is written through).
func noteFuzzExclusion(id string) {
	p := os.Getenv("VERIF_FUZZ_EXCL")
	if p == "" {
		return
	}
	exclMu.Lock()
	defer exclMu.Unlock()
	if exclFile == nil {
		f, err := os.OpenFile(fmt.Sprintf("%s.%d", p, os.Getpid()), os.O_APPEND|os.O_CREATE|os.O_WRONLY, 0o644)
		if err != nil {
			return
		}
		exclFile = f
	}
	exclFile.WriteString(id + "\n")
}
