package t6

import (
	"fmt"
	"reflect"
	"testing"

	gpb "github.com/openconfig/gnmi/proto/gnmi"
	"github.com/openconfig/ygot/ytypes"
	"verifharness/model"
	"verifharness/th"
)

func TestProbe2(t *testing.T) {
	for _, vn := range []string{"vtw", "vtu"} {
		v := variantByName(vn)
		v.MustInit()
		m := model.NewNode(v.Root)
		th.Child(m, "Top")
		gs := model.Build(m)
		twin := model.Build(m)
		fmt.Println(vn, "before equal:", reflect.DeepEqual(gs, twin))
		for _, leaf := range []string{"bin", "s", "ll-s", "iow", "colour"} {
			path := &gpb.Path{Elem: []*gpb.PathElem{{Name: "top"}, {Name: leaf}}}
			nodes, err := ytypes.GetNode(rootEntry(v), gs, path)
			fmt.Println(vn, leaf, len(nodes), err)
			if len(nodes) > 0 {
				fmt.Printf("   data %T %#v\n", nodes[0].Data, nodes[0].Data)
			}
			fmt.Println("   after equal:", reflect.DeepEqual(gs, twin))
		}
		top := reflect.ValueOf(gs).Elem().FieldByName("Top").Elem()
		fmt.Printf("Bin nil? %v\n", top.FieldByName("Bin").IsNil())
	}
}
