// Package t6 holds the checks C11 (inputs are not mutated), C20 (malformed input never panics) and
// C21 (concurrent use is race-free and schedule-independent). See /verif/DESIGN.md section 5.
package t6

import (
	"encoding/hex"
	"encoding/json"
	"fmt"
	"os"
	"path/filepath"
	"reflect"
	"runtime"
	"runtime/debug"
	"sort"
	"strings"
	"sync"
	"time"

	gpb "github.com/openconfig/gnmi/proto/gnmi"
	"github.com/openconfig/goyang/pkg/yang"
	"github.com/openconfig/ygot/ygot"
	"github.com/openconfig/ygot/ytypes"
	"google.golang.org/protobuf/encoding/prototext"
	"google.golang.org/protobuf/proto"
	"pgregory.net/rapid"
	"verifharness/ev"
	"verifharness/model"
	"verifharness/th"
	"verifharness/variants"
)

// ---- locations ----------------------------------------------------------------------------------------

// pkgDir is the source directory of this package (the driver runs the test binary elsewhere).
func pkgDir() string {
	if h := os.Getenv("VERIF_HARNESS"); h != "" {
		return filepath.Join(h, "props", "t6")
	}
	_, file, _, _ := runtime.Caller(0)
	return filepath.Dir(file)
}

func testdataDir() string { return filepath.Join(pkgDir(), "testdata") }

// ---- known-findings file (read-only; needed where no ev.Rec exists: fuzz workers) --------------------

type kfEntry struct {
	ID     string `json:"id"`
	Status string `json:"status"`
}

var (
	kfOnce sync.Once
	kfTab  map[string]string
)

// kfStatus returns "open", "fixed" or "" (absent) for a finding id.
func kfStatus(id string) string {
	kfOnce.Do(func() {
		kfTab = map[string]string{}
		p := os.Getenv("VERIF_KF")
		if p == "" {
			d := os.Getenv("VERIF_DIR")
			if d == "" {
				d = "/verif"
			}
			p = filepath.Join(d, "KNOWN_FINDINGS.json")
		}
		b, err := os.ReadFile(p)
		if err != nil {
			return
		}
		var f struct {
			Findings []kfEntry `json:"findings"`
		}
		if json.Unmarshal(b, &f) == nil {
			for _, e := range f.Findings {
				kfTab[e.ID] = e.Status
			}
		}
	})
	return kfTab[id]
}

// ---- protobuf / JSON helpers --------------------------------------------------------------------------

// canonProto is an injective, process-independent text of a message (deterministic wire form).
func canonProto(m proto.Message) string {
	if m == nil || !m.ProtoReflect().IsValid() {
		return "<nil>"
	}
	b, err := proto.MarshalOptions{Deterministic: true}.Marshal(m)
	if err != nil {
		return "<unmarshalable:" + err.Error() + ">"
	}
	return hex.EncodeToString(b)
}

// textProto renders a message for failure messages.
func textProto(m proto.Message) string {
	if m == nil || !m.ProtoReflect().IsValid() {
		return "<nil>"
	}
	return prototext.MarshalOptions{Multiline: false}.Format(m)
}

func textNotifs(ns []*gpb.Notification) string {
	var sb strings.Builder
	for i, n := range ns {
		fmt.Fprintf(&sb, "  [%d] %s\n", i, textProto(n))
	}
	return sb.String()
}

// cloneJSON deep-copies a value decoded by encoding/json.
func cloneJSON(x interface{}) interface{} {
	switch t := x.(type) {
	case map[string]interface{}:
		m := make(map[string]interface{}, len(t))
		for k, v := range t {
			m[k] = cloneJSON(v)
		}
		return m
	case []interface{}:
		if t == nil {
			return t
		}
		s := make([]interface{}, len(t))
		for i, v := range t {
			s[i] = cloneJSON(v)
		}
		return s
	}
	return x
}

// deepClone copies an option value (pointers, structs, slices, maps of plain data). Protobuf messages
// inside are cloned with proto.Clone. Unexported fields are not expected in option structs.
func deepClone(x interface{}) interface{} {
	if x == nil {
		return nil
	}
	return cloneValue(reflect.ValueOf(x)).Interface()
}

var protoMsgT = reflect.TypeOf((*proto.Message)(nil)).Elem()

func cloneValue(v reflect.Value) reflect.Value {
	switch v.Kind() {
	case reflect.Ptr:
		if v.IsNil() {
			return v
		}
		if v.Type().Implements(protoMsgT) {
			return reflect.ValueOf(proto.Clone(v.Interface().(proto.Message)))
		}
		n := reflect.New(v.Type().Elem())
		n.Elem().Set(cloneValue(v.Elem()))
		return n
	case reflect.Struct:
		n := reflect.New(v.Type()).Elem()
		for i := 0; i < v.NumField(); i++ {
			if !n.Field(i).CanSet() {
				panic("HARNESS-BUG: deepClone: unexported field in " + v.Type().String())
			}
			n.Field(i).Set(cloneValue(v.Field(i)))
		}
		return n
	case reflect.Slice:
		if v.IsNil() {
			return v
		}
		n := reflect.MakeSlice(v.Type(), v.Len(), v.Len())
		for i := 0; i < v.Len(); i++ {
			n.Index(i).Set(cloneValue(v.Index(i)))
		}
		return n
	case reflect.Map:
		if v.IsNil() {
			return v
		}
		n := reflect.MakeMapWithSize(v.Type(), v.Len())
		it := v.MapRange()
		for it.Next() {
			n.SetMapIndex(cloneValue(it.Key()), cloneValue(it.Value()))
		}
		return n
	case reflect.Interface:
		if v.IsNil() {
			return v
		}
		n := reflect.New(v.Type()).Elem()
		n.Set(cloneValue(v.Elem()))
		return n
	}
	return v
}

// optEqual compares two option values structurally; protobuf messages inside with proto.Equal.
func optEqual(a, b interface{}) bool {
	return valEqual(reflect.ValueOf(a), reflect.ValueOf(b))
}

func valEqual(a, b reflect.Value) bool {
	if a.IsValid() != b.IsValid() {
		return false
	}
	if !a.IsValid() {
		return true
	}
	if a.Type() != b.Type() {
		return false
	}
	switch a.Kind() {
	case reflect.Ptr:
		if a.IsNil() || b.IsNil() {
			return a.IsNil() == b.IsNil()
		}
		if a.Type().Implements(protoMsgT) {
			return proto.Equal(a.Interface().(proto.Message), b.Interface().(proto.Message))
		}
		return valEqual(a.Elem(), b.Elem())
	case reflect.Struct:
		for i := 0; i < a.NumField(); i++ {
			if !valEqual(a.Field(i), b.Field(i)) {
				return false
			}
		}
		return true
	case reflect.Slice:
		if a.IsNil() != b.IsNil() || a.Len() != b.Len() {
			return false
		}
		for i := 0; i < a.Len(); i++ {
			if !valEqual(a.Index(i), b.Index(i)) {
				return false
			}
		}
		return true
	case reflect.Map:
		if a.IsNil() != b.IsNil() || a.Len() != b.Len() {
			return false
		}
		it := a.MapRange()
		for it.Next() {
			bv := b.MapIndex(it.Key())
			if !bv.IsValid() || !valEqual(it.Value(), bv) {
				return false
			}
		}
		return true
	case reflect.Interface:
		if a.IsNil() || b.IsNil() {
			return a.IsNil() == b.IsNil()
		}
		return valEqual(a.Elem(), b.Elem())
	}
	return reflect.DeepEqual(a.Interface(), b.Interface())
}

// optText renders an option value for messages.
func optText(x interface{}) string {
	b, err := json.Marshal(x)
	if err != nil {
		return fmt.Sprintf("%+v", x)
	}
	return fmt.Sprintf("%T%s", x, b)
}

// ---- schema / tree helpers ----------------------------------------------------------------------------

// schemaWith returns a *ytypes.Schema for root that shares the variant's (process-wide) schema tree.
func schemaWith(v *model.Variant, root ygot.GoStruct) *ytypes.Schema {
	s := v.Schema()
	return &ytypes.Schema{Root: root, SchemaTree: s.SchemaTree, Unmarshal: s.Unmarshal}
}

// freshSchemaWith is schemaWith on a newly unzipped schema tree (for APIs that may write to it).
func freshSchemaWith(v *model.Variant, root ygot.GoStruct) *ytypes.Schema {
	s := v.FreshSchema()
	s.Root = root
	return s
}

// rootEntry is the shared schema entry of the variant's root struct.
func rootEntry(v *model.Variant) *yang.Entry {
	s := v.Schema()
	return s.SchemaTree[reflect.TypeOf(v.NewRoot()).Elem().Name()]
}

// addressable: the instance has a gNMI path (it is not inside an unkeyed list entry).
func addressable(el []model.PElem) bool {
	for _, e := range el {
		if _, ok := e.Keys["#"]; ok {
			return false
		}
	}
	return true
}

// leafInsts returns the addressable leaf and leaf-list instances of a tree, in deterministic order.
func leafInsts(m *model.Node, allAlts bool) []model.Inst {
	var out []model.Inst
	for _, in := range model.Instances(m, nil, model.InstOpts{AllAlts: allAlts}) {
		if addressable(in.Elems) {
			out = append(out, in)
		}
	}
	return out
}

// instTV is the TypedValue the gNMI specification prescribes for the instance's value.
func instTV(in model.Inst) *gpb.TypedValue {
	if in.F.Kind == model.FLeafList {
		return model.LeafListTV(in.LL)
	}
	return model.ScalarTV(in.V)
}

// sitesOf returns the addressable struct positions (root, containers, keyed entries).
func sitesOf(m *model.Node) []model.Site {
	var out []model.Site
	for _, s := range model.Sites(m) {
		if addressable(s.Elems) {
			out = append(out, s)
		}
	}
	return out
}

func pickVariant(rt *rapid.T) *model.Variant { return th.PickVariant(rt, th.AllVariants...) }

// leafCount is the number of populated leaves and leaf-lists.
func leafCount(m *model.Node) int { s := m.Stat(); return s.Leaves + s.LeafLists }

// treeOpts draws generator options for the shared trees of C11/C21: mostly without unkeyed lists
// (TogNMINotifications and Diff document them as unsupported).
func treeOpts(rt *rapid.T, label string) model.GenOpts {
	o := model.GenOpts{}
	o.NoUnkeyed = rapid.IntRange(0, 9).Draw(rt, label+".unkeyed") > 0
	switch rapid.IntRange(0, 5).Draw(rt, label+".size") {
	case 0:
		o.Sparse = true
	case 1, 2:
		o.Dense = true
	}
	return o
}

// subsetTree returns a copy of m in which every leaf, leaf-list, container and list entry is dropped
// with probability pct/100 (key leaves are kept): MergeStructs(m, subset) cannot conflict.
func subsetTree(rt *rapid.T, m *model.Node, pct int) *model.Node {
	c := m.Clone()
	var walk func(n *model.Node)
	drop := func() bool { return rapid.IntRange(0, 99).Draw(rt, "drop") < pct }
	walk = func(n *model.Node) {
		for _, f := range n.SI.Fields {
			switch f.Kind {
			case model.FLeaf:
				if _, ok := n.Leaf[f.Name]; ok && !f.IsKey && drop() {
					delete(n.Leaf, f.Name)
				}
			case model.FLeafList:
				if _, ok := n.LL[f.Name]; ok && drop() {
					delete(n.LL, f.Name)
				}
			case model.FCont:
				if c, ok := n.Cont[f.Name]; ok {
					if drop() {
						delete(n.Cont, f.Name)
					} else {
						walk(c)
					}
				}
			case model.FList, model.FOrdList:
				var keep []*model.Entry
				for _, e := range n.List[f.Name] {
					if drop() {
						continue
					}
					keep = append(keep, e)
					// do not descend: key-aligned leaves must stay consistent with the key
				}
				if len(keep) == 0 {
					delete(n.List, f.Name)
				} else {
					n.List[f.Name] = keep
				}
			case model.FUList:
				if _, ok := n.UList[f.Name]; ok && drop() {
					delete(n.UList, f.Name)
				}
			}
		}
	}
	walk(c)
	return c.Normalize()
}

// ---- panics -------------------------------------------------------------------------------------------

// panicInfo describes a recovered panic.
type panicInfo struct {
	Val   string
	Stack string
}

func (p *panicInfo) String() string {
	if p == nil {
		return "<no panic>"
	}
	return "panic: " + p.Val + "\n" + p.Stack
}

// catch runs f and returns the recovered panic, if any.
func catch(f func()) (p *panicInfo) {
	defer func() {
		if r := recover(); r != nil {
			p = &panicInfo{Val: fmt.Sprint(r), Stack: string(debug.Stack())}
		}
	}()
	f()
	return nil
}

// hangLimit is how long a single call of the library may run before the process gives up on it. The calls
// of C20 take microseconds to milliseconds; the limit is there so that an input on which the library does
// not return is written down (the generated input would otherwise be lost when the run is killed at its
// deadline). Not returning is reported as INCONCLUSIVE by this watchdog, never as a violation: a wall
// clock is not an oracle. Known non-returning inputs have their own witness (see F96).
const hangLimit = 120 * time.Second

// watched is catch with the watchdog armed.
func watched(describe func() string, f func()) *panicInfo {
	tm := time.AfterFunc(hangLimit, func() {
		d := describe()
		if dir := os.Getenv("VERIF_OUT"); dir != "" {
			os.WriteFile(filepath.Join(dir, fmt.Sprintf("C20.%d.hang.txt", ev.Shard())), []byte(d), 0o644)
		}
		fmt.Printf("INCONCLUSIVE: a call has not returned after %v; input: %s\n", hangLimit, th.Trunc(d, 4000))
		buf := make([]byte, 1<<20)
		fmt.Printf("%s\n", buf[:runtime.Stack(buf, true)])
		os.Exit(2)
	})
	defer tm.Stop()
	return catch(f)
}

// ---- misc ---------------------------------------------------------------------------------------------

func sortedStrings(s []string) []string {
	o := append([]string(nil), s...)
	sort.Strings(o)
	return o
}

func variantByName(n string) *model.Variant { return variants.Get(n) }

// ---- structural equality of built trees ------------------------------------------------------------------

// treeEqual is reflect.DeepEqual except that map keys are matched structurally instead of by identity:
// with wrapper unions a union-typed list key is a pointer to a wrapper struct, so two independently
// built trees can never be reflect.DeepEqual although they hold the same data.
func treeEqual(a, b interface{}) bool {
	if reflect.DeepEqual(a, b) {
		return true
	}
	return deepEq(reflect.ValueOf(a), reflect.ValueOf(b))
}

func deepEq(a, b reflect.Value) bool {
	if a.IsValid() != b.IsValid() {
		return false
	}
	if !a.IsValid() {
		return true
	}
	if a.Type() != b.Type() {
		return false
	}
	switch a.Kind() {
	case reflect.Ptr, reflect.Interface:
		if a.IsNil() || b.IsNil() {
			return a.IsNil() == b.IsNil()
		}
		return deepEq(a.Elem(), b.Elem())
	case reflect.Struct:
		for i := 0; i < a.NumField(); i++ {
			if !deepEq(a.Field(i), b.Field(i)) {
				return false
			}
		}
		return true
	case reflect.Slice:
		if a.IsNil() != b.IsNil() || a.Len() != b.Len() {
			return false
		}
		for i := 0; i < a.Len(); i++ {
			if !deepEq(a.Index(i), b.Index(i)) {
				return false
			}
		}
		return true
	case reflect.Array:
		for i := 0; i < a.Len(); i++ {
			if !deepEq(a.Index(i), b.Index(i)) {
				return false
			}
		}
		return true
	case reflect.Map:
		if a.IsNil() != b.IsNil() || a.Len() != b.Len() {
			return false
		}
		used := map[int]bool{}
		type kv struct{ k, v reflect.Value }
		var bs []kv
		for it := b.MapRange(); it.Next(); {
			bs = append(bs, kv{it.Key(), it.Value()})
		}
		for it := a.MapRange(); it.Next(); {
			found := false
			for i, e := range bs {
				if !used[i] && deepEq(it.Key(), e.k) && deepEq(it.Value(), e.v) {
					used[i], found = true, true
					break
				}
			}
			if !found {
				return false
			}
		}
		return true
	case reflect.Bool:
		return a.Bool() == b.Bool()
	case reflect.Int, reflect.Int8, reflect.Int16, reflect.Int32, reflect.Int64:
		return a.Int() == b.Int()
	case reflect.Uint, reflect.Uint8, reflect.Uint16, reflect.Uint32, reflect.Uint64, reflect.Uintptr:
		return a.Uint() == b.Uint()
	case reflect.Float32, reflect.Float64:
		return a.Float() == b.Float()
	case reflect.Complex64, reflect.Complex128:
		return a.Complex() == b.Complex()
	case reflect.String:
		return a.String() == b.String()
	case reflect.Func, reflect.Chan, reflect.UnsafePointer:
		return a.Pointer() == b.Pointer()
	}
	return false
}
