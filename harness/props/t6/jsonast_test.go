package t6

import (
	"bytes"
	"encoding/json"
	"fmt"
	"strconv"
	"strings"

	"pgregory.net/rapid"
)

// jv is a JSON value that keeps member order and can hold duplicate member names, so that
// structured-but-wrong documents can be written that encoding/json's own types cannot represent.
type jv struct {
	kind    byte // 'o' object, 'a' array, 's' string, 'n' number (literal text in s), 'b' bool, 'z' null
	members []jm
	elems   []*jv
	s       string
	b       bool
}

type jm struct {
	name string
	v    *jv
}

func jstr(s string) *jv  { return &jv{kind: 's', s: s} }
func jnum(s string) *jv  { return &jv{kind: 'n', s: s} }
func jbool(b bool) *jv   { return &jv{kind: 'b', b: b} }
func jnull() *jv         { return &jv{kind: 'z'} }
func jobj(m ...jm) *jv   { return &jv{kind: 'o', members: m} }
func jarr(e ...*jv) *jv  { return &jv{kind: 'a', elems: e} }
func (v *jv) String() string { var b bytes.Buffer; v.write(&b); return b.String() }

func (v *jv) write(b *bytes.Buffer) {
	switch v.kind {
	case 'o':
		b.WriteByte('{')
		for i, m := range v.members {
			if i > 0 {
				b.WriteByte(',')
			}
			writeJSONString(b, m.name)
			b.WriteByte(':')
			m.v.write(b)
		}
		b.WriteByte('}')
	case 'a':
		b.WriteByte('[')
		for i, e := range v.elems {
			if i > 0 {
				b.WriteByte(',')
			}
			e.write(b)
		}
		b.WriteByte(']')
	case 's':
		writeJSONString(b, v.s)
	case 'n':
		b.WriteString(v.s)
	case 'b':
		b.WriteString(strconv.FormatBool(v.b))
	default:
		b.WriteString("null")
	}
}

func writeJSONString(b *bytes.Buffer, s string) {
	x, _ := json.Marshal(s)
	b.Write(x)
}

func (v *jv) clone() *jv {
	c := &jv{kind: v.kind, s: v.s, b: v.b}
	for _, m := range v.members {
		c.members = append(c.members, jm{m.name, m.v.clone()})
	}
	for _, e := range v.elems {
		c.elems = append(c.elems, e.clone())
	}
	return c
}

// parseJV parses JSON text keeping member order and number literals.
func parseJV(data []byte) (*jv, error) {
	dec := json.NewDecoder(bytes.NewReader(data))
	dec.UseNumber()
	v, err := parseJVValue(dec)
	if err != nil {
		return nil, err
	}
	return v, nil
}

func parseJVValue(dec *json.Decoder) (*jv, error) {
	tok, err := dec.Token()
	if err != nil {
		return nil, err
	}
	switch t := tok.(type) {
	case json.Delim:
		switch t {
		case '{':
			o := jobj()
			for dec.More() {
				kt, err := dec.Token()
				if err != nil {
					return nil, err
				}
				name, ok := kt.(string)
				if !ok {
					return nil, fmt.Errorf("member name is %T", kt)
				}
				mv, err := parseJVValue(dec)
				if err != nil {
					return nil, err
				}
				o.members = append(o.members, jm{name, mv})
			}
			if _, err := dec.Token(); err != nil {
				return nil, err
			}
			return o, nil
		case '[':
			a := jarr()
			for dec.More() {
				ev, err := parseJVValue(dec)
				if err != nil {
					return nil, err
				}
				a.elems = append(a.elems, ev)
			}
			if _, err := dec.Token(); err != nil {
				return nil, err
			}
			return a, nil
		}
		return nil, fmt.Errorf("unexpected delimiter %v", t)
	case string:
		return jstr(t), nil
	case json.Number:
		return jnum(t.String()), nil
	case bool:
		return jbool(t), nil
	case nil:
		return jnull(), nil
	}
	return nil, fmt.Errorf("unexpected token %T", tok)
}

// slot is a position in a document that holds a value: a member of an object or an element of an array.
type slot struct {
	parent *jv
	index  int
	depth  int
}

func (s slot) get() *jv {
	if s.parent.kind == 'o' {
		return s.parent.members[s.index].v
	}
	return s.parent.elems[s.index]
}

func (s slot) set(v *jv) {
	if s.parent.kind == 'o' {
		s.parent.members[s.index].v = v
	} else {
		s.parent.elems[s.index] = v
	}
}

func slotsOf(root *jv) []slot {
	var out []slot
	var walk func(v *jv, d int)
	walk = func(v *jv, d int) {
		switch v.kind {
		case 'o':
			for i, m := range v.members {
				out = append(out, slot{v, i, d})
				walk(m.v, d+1)
			}
		case 'a':
			for i, e := range v.elems {
				out = append(out, slot{v, i, d})
				walk(e, d+1)
			}
		}
	}
	walk(root, 0)
	return out
}

// hasNonObjectListElement: some array that holds at least one object also holds, or some array that
// is the value of a member consists of, a non-object element. It is the trigger region of F4 seen
// from the document alone (whether the member is a YANG list is decided by the failure signature).
func hasNonObjectInArray(v *jv) bool {
	switch v.kind {
	case 'o':
		for _, m := range v.members {
			if hasNonObjectInArray(m.v) {
				return true
			}
		}
	case 'a':
		for _, e := range v.elems {
			if e.kind != 'o' {
				return true
			}
			if hasNonObjectInArray(e) {
				return true
			}
		}
	}
	return false
}

var jsonMutations = []string{
	"obj->array", "obj->scalar", "obj->null", "array->obj", "array->scalar", "array->null", "scalar->obj", "scalar->array", "scalar->null",
	"scalar-kind", "number-odd", "string-odd", "list-elem-not-object", "list-elem-null", "drop-member", "drop-key-member", "dup-member", "dup-list-entry",
	"unknown-member", "hoist-child", "empty-object", "deep-nesting", "wrap-array", "wrap-object", "rename-prefix", "swap-siblings",
}

var oddNumbers = []string{"0", "-0", "-1", "1.5", "1e3", "1E400", "-1e-400", "255", "256", "65536", "4294967296", "18446744073709551616",
	"-9223372036854775809", "0.1", "1.0", "123456789012345678901234567890", "2147483648", "-129", "1e0"}

var oddStrings = []string{"", " ", "*", "0", "-1", "1.5", "true", "null", "NaN", "Inf", "-Inf", "0x10", "1e3", "18446744073709551616", "a b", "mod:NAME", ":", "x:", ":y",
	"AA==", "A", "====", "\u0000", "é世\U0001F600", "RED", "CIRCLE", "vt-types:CIRCLE", "[null]", "{}", strings.Repeat("x", 300)}

// mutateJV applies one drawn structured mutation to the document and returns its name ("" if the
// drawn mutation does not apply to the drawn position).
func mutateJV(rt *rapid.T, root *jv, label string) string {
	slots := slotsOf(root)
	if len(slots) == 0 {
		root.members = append(root.members, jm{"bogus", jnum("1")})
		return "unknown-member"
	}
	mut := rapid.SampledFrom(jsonMutations).Draw(rt, label+".mut")
	// candidate positions by kind
	pickWhere := func(pred func(v *jv) bool) (slot, bool) {
		var c []slot
		for _, s := range slots {
			if pred(s.get()) {
				c = append(c, s)
			}
		}
		if len(c) == 0 {
			return slot{}, false
		}
		return c[rapid.IntRange(0, len(c)-1).Draw(rt, label+".pos")], true
	}
	isObj := func(v *jv) bool { return v.kind == 'o' }
	isArr := func(v *jv) bool { return v.kind == 'a' }
	isScalar := func(v *jv) bool { return v.kind != 'o' && v.kind != 'a' }
	isObjArr := func(v *jv) bool { return v.kind == 'a' && len(v.elems) > 0 && v.elems[0].kind == 'o' }
	any := func(v *jv) bool { return true }
	scalar := func() *jv {
		switch rapid.IntRange(0, 4).Draw(rt, label+".sk") {
		case 0:
			return jnum(rapid.SampledFrom(oddNumbers).Draw(rt, label+".num"))
		case 1:
			return jstr(rapid.SampledFrom(oddStrings).Draw(rt, label+".str"))
		case 2:
			return jbool(rapid.Bool().Draw(rt, label+".bool"))
		case 3:
			return jarr(jnull())
		}
		return jnull()
	}
	switch mut {
	case "obj->array":
		if s, ok := pickWhere(isObj); ok {
			switch rapid.IntRange(0, 2).Draw(rt, label+".how") {
			case 0:
				s.set(jarr(s.get()))
			case 1:
				s.set(jarr())
			default:
				s.set(jarr(scalar(), s.get()))
			}
			return mut
		}
	case "obj->scalar":
		if s, ok := pickWhere(isObj); ok {
			s.set(scalar())
			return mut
		}
	case "obj->null":
		if s, ok := pickWhere(isObj); ok {
			s.set(jnull())
			return mut
		}
	case "array->obj":
		if s, ok := pickWhere(isArr); ok {
			if rapid.Bool().Draw(rt, label+".how") && len(s.get().elems) > 0 && s.get().elems[0].kind == 'o' {
				s.set(s.get().elems[0])
			} else {
				s.set(jobj(jm{"k", s.get()}))
			}
			return mut
		}
	case "array->scalar":
		if s, ok := pickWhere(isArr); ok {
			s.set(scalar())
			return mut
		}
	case "array->null":
		if s, ok := pickWhere(isArr); ok {
			s.set(jnull())
			return mut
		}
	case "scalar->obj":
		if s, ok := pickWhere(isScalar); ok {
			if rapid.Bool().Draw(rt, label+".how") {
				s.set(jobj())
			} else {
				s.set(jobj(jm{"value", s.get()}))
			}
			return mut
		}
	case "scalar->array":
		if s, ok := pickWhere(isScalar); ok {
			switch rapid.IntRange(0, 2).Draw(rt, label+".how") {
			case 0:
				s.set(jarr(s.get()))
			case 1:
				s.set(jarr())
			default:
				s.set(jarr(s.get(), jobj(), jnull()))
			}
			return mut
		}
	case "scalar->null":
		if s, ok := pickWhere(isScalar); ok {
			s.set(jnull())
			return mut
		}
	case "scalar-kind":
		if s, ok := pickWhere(isScalar); ok {
			old := s.get()
			switch old.kind {
			case 's':
				if _, err := strconv.ParseFloat(old.s, 64); err == nil && rapid.Bool().Draw(rt, label+".unq") {
					s.set(jnum(old.s))
				} else {
					s.set(scalar())
				}
			case 'n':
				s.set(jstr(old.s))
			default:
				s.set(scalar())
			}
			return mut
		}
	case "number-odd":
		if s, ok := pickWhere(func(v *jv) bool { return v.kind == 'n' }); ok {
			s.set(jnum(rapid.SampledFrom(oddNumbers).Draw(rt, label+".num")))
			return mut
		}
	case "string-odd":
		if s, ok := pickWhere(func(v *jv) bool { return v.kind == 's' }); ok {
			s.set(jstr(rapid.SampledFrom(oddStrings).Draw(rt, label+".str")))
			return mut
		}
	case "list-elem-not-object":
		if s, ok := pickWhere(isObjArr); ok {
			a := s.get()
			i := rapid.IntRange(0, len(a.elems)).Draw(rt, label+".at")
			e := scalar()
			if rapid.IntRange(0, 3).Draw(rt, label+".nested") == 0 {
				e = jarr(a.elems[0].clone())
			}
			if i < len(a.elems) && rapid.Bool().Draw(rt, label+".replace") {
				a.elems[i] = e
			} else {
				a.elems = append(a.elems[:i:i], append([]*jv{e}, a.elems[i:]...)...)
			}
			return mut
		}
	case "list-elem-null":
		if s, ok := pickWhere(isObjArr); ok {
			a := s.get()
			a.elems[rapid.IntRange(0, len(a.elems)-1).Draw(rt, label+".at")] = jnull()
			return mut
		}
	case "drop-member":
		if s, ok := pickWhere(func(v *jv) bool { return v.kind == 'o' && len(v.members) > 0 }); ok {
			o := s.get()
			i := rapid.IntRange(0, len(o.members)-1).Draw(rt, label+".at")
			o.members = append(o.members[:i:i], o.members[i+1:]...)
			return mut
		}
	case "drop-key-member":
		// remove the first scalar member of an element of an array of objects: usually the list key
		if s, ok := pickWhere(isObjArr); ok {
			a := s.get()
			e := a.elems[rapid.IntRange(0, len(a.elems)-1).Draw(rt, label+".at")]
			if e.kind == 'o' {
				dropped := false
				var walk func(o *jv)
				walk = func(o *jv) {
					for i, m := range o.members {
						if dropped {
							return
						}
						if m.v.kind != 'o' && m.v.kind != 'a' {
							o.members = append(o.members[:i:i], o.members[i+1:]...)
							dropped = true
							return
						}
					}
					for _, m := range o.members {
						if m.v.kind == 'o' && !dropped {
							walk(m.v)
						}
					}
				}
				// key leaves of OpenConfig-style entries live one level down (config/name) and are
				// repeated at the top: drop all scalars with the name of the first scalar found
				walk(e)
				if dropped {
					return mut
				}
			}
		}
	case "dup-member":
		if s, ok := pickWhere(func(v *jv) bool { return v.kind == 'o' && len(v.members) > 0 }); ok {
			o := s.get()
			m := o.members[rapid.IntRange(0, len(o.members)-1).Draw(rt, label+".at")]
			d := jm{m.name, m.v.clone()}
			if rapid.Bool().Draw(rt, label+".differ") {
				d.v = scalar()
			}
			o.members = append(o.members, d)
			return mut
		}
	case "dup-list-entry":
		if s, ok := pickWhere(isObjArr); ok {
			a := s.get()
			a.elems = append(a.elems, a.elems[rapid.IntRange(0, len(a.elems)-1).Draw(rt, label+".at")].clone())
			return mut
		}
	case "unknown-member":
		if s, ok := pickWhere(isObj); ok {
			name := rapid.SampledFrom([]string{"bogus", "mod:bogus", "", ":", "config", "state", "k", "name", "vt:top", "top"}).Draw(rt, label+".name")
			s.get().members = append(s.get().members, jm{name, scalar()})
			return mut
		}
		root.members = append(root.members, jm{"bogus", scalar()})
		return mut
	case "hoist-child":
		if s, ok := pickWhere(func(v *jv) bool { return v.kind == 'o' && len(v.members) > 0 }); ok {
			o := s.get()
			s.set(o.members[rapid.IntRange(0, len(o.members)-1).Draw(rt, label+".at")].v)
			return mut
		}
	case "empty-object":
		if s, ok := pickWhere(func(v *jv) bool { return v.kind == 'o' || v.kind == 'a' }); ok {
			if s.get().kind == 'o' {
				s.set(jobj())
			} else {
				s.set(jarr(jobj()))
			}
			return mut
		}
	case "deep-nesting":
		if s, ok := pickWhere(any); ok {
			n := rapid.SampledFrom([]int{3, 40, 600, 12000}).Draw(rt, label+".depth")
			v := s.get()
			arr := rapid.Bool().Draw(rt, label+".arr")
			for i := 0; i < n; i++ {
				if arr {
					v = jarr(v)
				} else {
					v = jobj(jm{"a", v})
				}
			}
			s.set(v)
			return mut
		}
	case "wrap-array":
		if s, ok := pickWhere(any); ok {
			s.set(jarr(s.get(), s.get().clone()))
			return mut
		}
	case "wrap-object":
		if s, ok := pickWhere(any); ok {
			name := "x"
			if s.parent.kind == 'o' {
				name = s.parent.members[s.index].name
			}
			s.set(jobj(jm{name, s.get()}))
			return mut
		}
	case "rename-prefix":
		if s, ok := pickWhere(func(v *jv) bool { return v.kind == 'o' && len(v.members) > 0 }); ok {
			o := s.get()
			i := rapid.IntRange(0, len(o.members)-1).Draw(rt, label+".at")
			n := o.members[i].name
			switch rapid.IntRange(0, 3).Draw(rt, label+".how") {
			case 0:
				n = "nomod:" + n
			case 1:
				n = n + ":" + n
			case 2:
				if j := strings.Index(n, ":"); j >= 0 {
					n = n[j+1:]
				} else {
					n = ":" + n
				}
			default:
				n = strings.ToUpper(n)
			}
			o.members[i].name = n
			return mut
		}
	case "swap-siblings":
		if s, ok := pickWhere(func(v *jv) bool { return v.kind == 'o' && len(v.members) > 1 }); ok {
			o := s.get()
			i := rapid.IntRange(0, len(o.members)-2).Draw(rt, label+".at")
			o.members[i].v, o.members[i+1].v = o.members[i+1].v, o.members[i].v
			return mut
		}
	}
	return ""
}
