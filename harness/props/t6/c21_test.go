package t6

import (
	"encoding/json"
	"flag"
	"fmt"
	"os"
	"path/filepath"
	"reflect"
	"regexp"
	"runtime"
	"sort"
	"strconv"
	"strings"
	"sync"
	"testing"

	gpb "github.com/openconfig/gnmi/proto/gnmi"
	"github.com/openconfig/ygot/ygot"
	"github.com/openconfig/ygot/ytypes"
	"google.golang.org/protobuf/proto"
	"pgregory.net/rapid"
	"verifharness/ev"
	"verifharness/model"
	"verifharness/th"
)

// C21 (DESIGN.md 5/C21). The test binary is built with -race and the driver sets GORACE=halt_on_error=1:
// a race report ends the process with exit code 66, which the driver turns into a violation. Because the
// process cannot log anything after that, every case prints a one-line marker (scenario + case seed)
// BEFORE it runs and writes its complete description to $VERIF_OUT/C21.<shard>.current.txt; the marker is
// what TestC21_Replay reads back from the saved log. A case is a pure function of its integer seed
// (rapid generator + Example(seed)); schedules are not reproducible and failures do not shrink.

// ---- case seeds -----------------------------------------------------------------------------------------

func flagUint(name string, def uint64) uint64 {
	if f := flag.Lookup(name); f != nil {
		if n, err := strconv.ParseUint(f.Value.String(), 10, 64); err == nil && n != 0 {
			return n
		}
	}
	return def
}

// caseSeeds derives n case seeds for a scenario from the rapid seed of this shard.
func caseSeeds(scenario string, n int) []int {
	base := flagUint("rapid.seed", 1)
	out := make([]int, n)
	x := base*0x9E3779B97F4A7C15 + uint64(len(scenario))*0xBF58476D1CE4E5B9
	for _, c := range scenario {
		x = (x ^ uint64(c)) * 0x100000001B3
	}
	for i := range out {
		x ^= x >> 30
		x *= 0xBF58476D1CE4E5B9
		x ^= x >> 27
		x *= 0x94D049BB133111EB
		x ^= x >> 31
		out[i] = int(x & 0x3FFFFFFFFFFFFFF)
		x += uint64(i) + 0x9E3779B97F4A7C15
	}
	return out
}

func c21Cases(share float64) int {
	n := int(flagUint("rapid.checks", 40))
	k := int(float64(n)*share + 0.5)
	if k < 1 {
		k = 1
	}
	return k
}

// announce prints the marker line and stores the complete case description before the case runs.
func announce(scenario string, seed int, describe func() string) {
	fmt.Printf("C21-CASE scenario=%s seed=%d\n", scenario, seed)
	if dir := os.Getenv("VERIF_OUT"); dir != "" {
		os.WriteFile(filepath.Join(dir, fmt.Sprintf("C21.%d.current.txt", ev.Shard())), []byte(fmt.Sprintf("C21-CASE scenario=%s seed=%d\n%s", scenario, seed, describe())), 0o644)
	}
}

// ---- canonical results ----------------------------------------------------------------------------------

func canonNotifs(ns []*gpb.Notification) string {
	var all []string
	for _, n := range ns {
		var lines []string
		for _, u := range n.GetUpdate() {
			lines = append(lines, "U "+canonProto(u))
		}
		for _, d := range n.GetDelete() {
			lines = append(lines, "D "+canonProto(d))
		}
		sort.Strings(lines)
		all = append(all, fmt.Sprintf("N ts=%d atomic=%v prefix=%s\n%s", n.GetTimestamp(), n.GetAtomic(), canonProto(n.GetPrefix()), strings.Join(lines, "\n")))
	}
	sort.Strings(all)
	return strings.Join(all, "\n--\n")
}

func canonData(v *model.Variant, d interface{}) string {
	if d == nil {
		return "<nil>"
	}
	rv := reflect.ValueOf(d)
	if gs, ok := d.(ygot.GoStruct); ok {
		if rv.IsNil() {
			return fmt.Sprintf("%T(nil)", d)
		}
		if _, known := v.Structs[rv.Type().Elem()]; known {
			return fmt.Sprintf("%T{\n%s}", d, model.Observe(v, gs).Dump())
		}
		return fmt.Sprintf("%T", d)
	}
	switch rv.Kind() {
	case reflect.Map:
		return fmt.Sprintf("%T(len %d)", d, rv.Len())
	case reflect.Ptr:
		if rv.IsNil() {
			return fmt.Sprintf("%T(nil)", d)
		}
		if rv.Elem().Kind() == reflect.Struct {
			if _, isOM := d.(ygot.GoOrderedMap); isOM {
				return fmt.Sprintf("%T(ordered map)", d)
			}
		}
		return fmt.Sprintf("%T:%#v", d, rv.Elem().Interface())
	}
	return fmt.Sprintf("%T:%#v", d, d)
}

func errStr(err error) string {
	if err == nil {
		return ""
	}
	return "ERROR"
}

// ---- scenario 1: read-only operations on one shared tree ------------------------------------------------

type roOp struct {
	Kind string // Validate EmitJSON Marshal7951 TogNMINotifications GetNode Diff DeepCopy EncodeTypedValue
	Site int
	Fld  int
	Path int
	A    int // small option selector
	B    int
}

func (o roOp) String() string {
	return fmt.Sprintf("%s(site=%d field=%d path=%d a=%d b=%d)", o.Kind, o.Site, o.Fld, o.Path, o.A, o.B)
}

type roCase struct {
	Seed   int
	V      *model.Variant
	M, MB  *model.Node
	Procs  int
	Ops    [][]roOp // per goroutine
	Paths  []*gpb.Path
	PathID []string
	// Dangling: M holds a leafref leaf whose target set is empty
	Dangling bool
	// EmptySet: ... and nothing exists at the path it points to
	EmptySet bool
}

var roKinds = []string{"Validate", "EmitJSON", "Marshal7951", "TogNMINotifications", "GetNode", "Diff", "DeepCopy", "EncodeTypedValue", "Validate", "GetNode"}

func genROCase(rt *rapid.T) *roCase {
	c := &roCase{}
	c.V = pickVariant(rt)
	o := model.GenOpts{Dense: true, NoUnkeyed: true, MaxList: 2}
	c.M = model.GenTree(rt, c.V, o)
	for i := 0; i < 2 && leafCount(c.M) < 20; i++ {
		if m := model.GenTree(rt, c.V, o); leafCount(m) > leafCount(c.M) {
			c.M = m
		}
	}
	switch rapid.IntRange(0, 2).Draw(rt, "second") {
	case 0:
		c.MB = subsetTree(rt, c.M, 20)
	case 1:
		c.MB = overlay(c.M, model.GenTree(rt, c.V, model.GenOpts{NoUnkeyed: true}))
	default:
		c.MB = model.GenTree(rt, c.V, model.GenOpts{NoUnkeyed: true, MaxList: 2})
	}
	// one shared tree in two (where the variant has a suitable leafref) is not valid: a leafref leaf points at nothing, so every Validate of it takes
	// the error-reporting paths (and fails the same way in every goroutine)
	if rapid.Bool().Draw(rt, "dangling") {
		orig := c.M.Clone()
		var cands []model.Inst
		empty := rapid.IntRange(0, 2).Draw(rt, "emptyset") > 0
		for _, in := range model.Instances(c.M, nil, model.InstOpts{}) {
			if in.F.Kind == model.FLeaf && !in.F.IsKey && in.F.Type != nil && in.F.Type.Leafref != "" && (empty || in.V.K == model.KStr || in.V.K.Signed() || in.V.K.Unsigned()) {
				cands = append(cands, in)
			}
		}
		if len(cands) > 0 {
			x := cands[rapid.IntRange(0, len(cands)-1).Draw(rt, "dangle")]
			if empty {
				// the reference keeps its value and every node it could point at is removed (key leaves
				// cannot be removed on their own: such references get the other treatment)
				all := model.Instances(c.M, nil, model.InstOpts{})
				tg := model.LeafrefTargetInsts(all, x)
				if len(tg) > 0 {
					for _, y := range tg {
						switch {
						case y.F.IsKey:
							dropListHolding(c.M, y.Owner)
						case y.F.Kind == model.FLeafList:
							delete(y.Owner.LL, y.F.Name)
						default:
							delete(y.Owner.Leaf, y.F.Name)
						}
					}
					// x itself may have gone with a list; the tree must still hold a reference that dangles
					if len(model.Dangling(c.M)) > 0 {
						c.Dangling, c.EmptySet = true, true
					}
				}
			}
			old := x.Owner.Leaf[x.F.Name]
			for _, alt := range []model.Val{{K: old.K, S: "no-such-target", I: 77, U: 77}, {K: old.K, S: "zz", I: 3, U: 3}, {K: old.K, S: "q", I: 101, U: 101}} {
				if c.EmptySet || !(old.K == model.KStr || old.K.Signed() || old.K.Unsigned()) {
					break
				}
				x.Owner.Leaf[x.F.Name] = alt
				if len(model.Dangling(c.M)) > 0 {
					c.Dangling = true
					break
				}
				x.Owner.Leaf[x.F.Name] = old
			}
		}
		// removing the targets of a reference can take most of a small tree with it; such a tree is used
		// as generated instead
		if leafCount(c.M) < 20 && leafCount(orig) >= 20 {
			c.M, c.Dangling, c.EmptySet = orig, false, false
		}
	}
	c.Procs = rapid.SampledFrom([]int{1, 2, 3, 4, 8, 16}).Draw(rt, "gomaxprocs")
	// candidate paths: leaves, structs, whole lists, wildcard forms, absent paths
	add := func(el []model.PElem, wild bool) {
		p := model.PathProto(el)
		if wild {
			for _, e := range p.Elem {
				for k := range e.Key {
					e.Key[k] = "*"
				}
			}
		}
		c.Paths = append(c.Paths, p)
		id := model.ElemsID(el)
		if wild {
			id += " (keys wildcarded)"
		}
		c.PathID = append(c.PathID, id)
	}
	insts := leafInsts(c.M, true)
	for i, in := range insts {
		if i%3 == 0 || len(insts) < 40 {
			add(in.Elems, false)
		}
		if i%11 == 0 {
			add(in.Elems, true)
		}
	}
	for _, s := range sitesOf(c.M)[1:] {
		add(s.Elems, false)
	}
	for i, in := range leafInsts(c.MB, false) {
		if i%9 == 0 {
			add(in.Elems, false)
		}
	}
	if len(c.Paths) == 0 {
		add(nil, false)
	}
	nsites := len(model.Sites(c.M))
	g := rapid.IntRange(2, 16).Draw(rt, "goroutines")
	for i := 0; i < g; i++ {
		n := rapid.IntRange(10, 22).Draw(rt, "nops")
		ops := make([]roOp, n)
		for j := range ops {
			ops[j] = roOp{
				Kind: rapid.SampledFrom(roKinds).Draw(rt, "kind"),
				Site: rapid.IntRange(0, nsites-1).Draw(rt, "site"),
				Fld:  rapid.IntRange(0, 40).Draw(rt, "field"),
				Path: rapid.IntRange(0, len(c.Paths)-1).Draw(rt, "path"),
				A:    rapid.IntRange(0, 5).Draw(rt, "a"),
				B:    rapid.IntRange(0, 3).Draw(rt, "b"),
			}
		}
		c.Ops = append(c.Ops, ops)
	}
	return c
}

// dropListHolding removes the whole list that has an entry whose node is owner.
func dropListHolding(n, owner *model.Node) bool {
	if n == nil {
		return false
	}
	for name, l := range n.List {
		for _, e := range l {
			if e.N == owner {
				delete(n.List, name)
				return true
			}
		}
	}
	for _, l := range n.List {
		for _, e := range l {
			if dropListHolding(e.N, owner) {
				return true
			}
		}
	}
	for _, c := range n.Cont {
		if dropListHolding(c, owner) {
			return true
		}
	}
	for _, l := range n.UList {
		for _, e := range l {
			if dropListHolding(e, owner) {
				return true
			}
		}
	}
	return false
}

func (c *roCase) describe() string {
	var sb strings.Builder
	fmt.Fprintf(&sb, "scenario read-only, case seed %d, variant %s, GOMAXPROCS %d, %d goroutines\n", c.Seed, c.V.Name, c.Procs, len(c.Ops))
	sb.WriteString(describeTree("shared tree A", c.V, c.M))
	sb.WriteString(describeTree("shared tree B (second argument of Diff)", c.V, c.MB))
	for i, p := range c.PathID {
		fmt.Fprintf(&sb, "path[%d] = %s\n", i, p)
	}
	for g, ops := range c.Ops {
		fmt.Fprintf(&sb, "goroutine %d:", g)
		for _, o := range ops {
			sb.WriteString(" " + o.String())
		}
		sb.WriteString("\n")
	}
	return sb.String()
}

type roEnv struct {
	c      *roCase
	a, b   ygot.GoStruct
	sites  []goSite
	fields [][]*model.FieldInfo
}

func newROEnv(c *roCase) *roEnv {
	e := &roEnv{c: c, a: model.Build(c.M), b: model.Build(c.MB)}
	e.sites = goSites(c.M, e.a)
	for _, s := range e.sites {
		e.fields = append(e.fields, populatedFields(s.S.N))
	}
	return e
}

func rfcCfg(i int) *ygot.RFC7951JSONConfig {
	switch i % 4 {
	case 1:
		return &ygot.RFC7951JSONConfig{AppendModuleName: true}
	case 2:
		return &ygot.RFC7951JSONConfig{PrependModuleNameIdentityref: true}
	case 3:
		return &ygot.RFC7951JSONConfig{}
	}
	return nil
}

// run executes one read-only operation on the shared objects and renders its result canonically.
// Option structs and path messages are private to the call (C21's statement shares tree and schema only).
func (e *roEnv) run(o roOp) (res string) {
	defer func() {
		if r := recover(); r != nil {
			res = fmt.Sprintf("PANIC: %v", r)
		}
	}()
	v := e.c.V
	site := e.sites[o.Site%len(e.sites)]
	switch o.Kind {
	case "Validate":
		var vopts []ygot.ValidationOption
		if o.A%2 == 1 {
			vopts = append(vopts, &ytypes.LeafrefOptions{IgnoreMissingData: true})
		}
		if o.B%2 == 0 {
			sch := v.Schema().SchemaTree[reflect.TypeOf(site.GS).Elem().Name()]
			if errs := ytypes.Validate(sch, site.GS, vopts...); len(errs) > 0 {
				return "ERROR"
			}
			return "valid"
		}
		if err := site.GS.(ygot.ValidatedGoStruct).Validate(vopts...); err != nil {
			return "ERROR"
		}
		return "valid"
	case "EmitJSON":
		cfg := &ygot.EmitJSONConfig{Format: ygot.RFC7951, RFC7951Config: rfcCfg(o.A), SkipValidation: o.B%2 == 0, Indent: " "}
		if o.A == 5 {
			cfg.Format = ygot.Internal
		}
		s, err := ygot.EmitJSON(e.a, cfg)
		return errStr(err) + s
	case "Marshal7951":
		var args []ygot.Marshal7951Arg
		if cfg := rfcCfg(o.A); cfg != nil {
			args = append(args, cfg)
		}
		b, err := ygot.Marshal7951(site.GS, args...)
		return errStr(err) + string(b)
	case "TogNMINotifications":
		cfg := ygot.GNMINotificationsConfig{UsePathElem: o.A%3 != 0}
		if cfg.UsePathElem {
			cfg.PathElemPrefix = model.PathProto(site.S.Elems).Elem
		}
		ns, err := ygot.TogNMINotifications(site.GS, 7, cfg)
		return errStr(err) + canonNotifs(ns)
	case "GetNode":
		path := proto.Clone(e.c.Paths[o.Path%len(e.c.Paths)]).(*gpb.Path)
		var opts []ytypes.GetNodeOpt
		switch o.A {
		case 1:
			opts = append(opts, &ytypes.GetHandleWildcards{})
		case 2:
			opts = append(opts, &ytypes.GetPartialKeyMatch{})
		case 3:
			opts = append(opts, &ytypes.GetTolerateNil{})
		case 4:
			opts = append(opts, &ytypes.GetHandleWildcards{}, &ytypes.PreferShadowPath{})
		}
		nodes, err := ytypes.GetNode(rootEntry(v), e.a, path, opts...)
		var lines []string
		for _, n := range nodes {
			name := "<nil schema>"
			if n.Schema != nil {
				name = n.Schema.Name
			}
			lines = append(lines, canonProto(n.Path)+" "+name+" "+canonData(v, n.Data))
		}
		sort.Strings(lines)
		return errStr(err) + strings.Join(lines, "\n")
	case "Diff":
		x, y := e.a, e.b
		if o.B%2 == 1 {
			x, y = y, x
		}
		var opts []ygot.DiffOpt
		switch o.A {
		case 1:
			opts = append(opts, &ygot.IgnoreAdditions{})
		case 2:
			opts = append(opts, &ygot.DiffPathOpt{MapToSinglePath: true})
		case 3:
			opts = append(opts, &ygot.DiffPathOpt{PreferShadowPath: true})
		}
		if o.A >= 4 {
			ns, err := ygot.DiffWithAtomic(x, y, opts...)
			return errStr(err) + canonNotifs(ns)
		}
		n, err := ygot.Diff(x, y, opts...)
		if n == nil {
			return errStr(err)
		}
		return errStr(err) + canonNotifs([]*gpb.Notification{n})
	case "DeepCopy":
		cp, err := ygot.DeepCopy(site.GS)
		if err != nil || cp == nil {
			return "ERROR"
		}
		return model.Observe(v, cp).Dump()
	case "EncodeTypedValue":
		var val interface{} = site.GS
		fs := e.fields[o.Site%len(e.sites)]
		if len(fs) > 0 && o.B > 0 {
			val = leafGoValue(site.GS, fs[o.Fld%len(fs)])
		}
		enc := []gpb.Encoding{gpb.Encoding_JSON_IETF, gpb.Encoding_JSON, gpb.Encoding_JSON_IETF, gpb.Encoding_PROTO}[o.A%4]
		var opts []ygot.EncodeTypedValueOpt
		if cfg := rfcCfg(o.A / 2); cfg != nil {
			opts = append(opts, cfg)
		}
		tv, err := ygot.EncodeTypedValue(val, enc, opts...)
		return errStr(err) + canonProto(tv)
	}
	return "HARNESS-BUG: unknown op " + o.Kind
}

// runConcurrently runs fn(g, i) for every goroutine g and step i, all goroutines released together.
func runConcurrently(procs int, lens []int, fn func(g, i int)) {
	old := runtime.GOMAXPROCS(procs)
	defer runtime.GOMAXPROCS(old)
	var wg sync.WaitGroup
	start := make(chan struct{})
	for g := range lens {
		wg.Add(1)
		go func(g int) {
			defer wg.Done()
			<-start
			for i := 0; i < lens[g]; i++ {
				fn(g, i)
			}
		}(g)
	}
	close(start)
	wg.Wait()
}

// execRO runs the case: concurrently first (so that lazily filled caches are first touched by several
// goroutines at once), then the same operations one at a time; returns a description of the first
// difference ("" = none).
func execRO(c *roCase) string {
	e := newROEnv(c)
	lens := make([]int, len(c.Ops))
	got := make([][]string, len(c.Ops))
	for g, ops := range c.Ops {
		lens[g] = len(ops)
		got[g] = make([]string, len(ops))
	}
	runConcurrently(c.Procs, lens, func(g, i int) { got[g][i] = e.run(c.Ops[g][i]) })
	for g, ops := range c.Ops {
		for i, o := range ops {
			want := e.run(o)
			if got[g][i] != want {
				return fmt.Sprintf("goroutine %d step %d %s: concurrent result differs from the sequential result\nconcurrent: %s\nsequential: %s", g, i, o, th.Trunc(got[g][i], 3000), th.Trunc(want, 3000))
			}
		}
	}
	// the shared trees must still be what they were built from
	if d := model.Diff(c.M, model.Observe(c.V, e.a), model.DiffOpts{}); len(d) > 0 {
		return "shared tree A changed during the read-only operations: " + th.JoinDiff(d)
	}
	if d := model.Diff(c.MB, model.Observe(c.V, e.b), model.DiffOpts{}); len(d) > 0 {
		return "shared tree B changed during the read-only operations: " + th.JoinDiff(d)
	}
	return ""
}

func (c *roCase) nontrivial() bool {
	if leafCount(c.M) < 20 || len(c.Ops) < 2 {
		return false
	}
	for _, ops := range c.Ops {
		if len(ops) < 10 {
			return false
		}
	}
	return true
}

func (c *roCase) classes() []string {
	cl := []string{"scenario:read-only", "variant:" + c.V.Name, fmt.Sprintf("gomaxprocs:%d", c.Procs)}
	g := len(c.Ops)
	switch {
	case g <= 3:
		cl = append(cl, "goroutines:2-3")
	case g <= 8:
		cl = append(cl, "goroutines:4-8")
	default:
		cl = append(cl, "goroutines:9-16")
	}
	seen := map[string]bool{}
	for _, ops := range c.Ops {
		for _, o := range ops {
			if !seen[o.Kind] {
				seen[o.Kind] = true
				cl = append(cl, "op:"+o.Kind)
			}
		}
	}
	if leafCount(c.M) >= 20 {
		cl = append(cl, "tree:>=20-leaves")
	}
	if c.Dangling {
		cl = append(cl, "tree:dangling-leafref")
	}
	if c.EmptySet {
		cl = append(cl, "tree:leafref-into-empty-set")
	}
	return cl
}

var roGen = rapid.Custom(genROCase)

func startC21(t *testing.T) *ev.Rec {
	rec := ev.Start(t, "C21")
	rec.Rule("scenario 1: one shared tree (>= 20 leaves, all six variants) + one shared schema, 2..16 goroutines each running 10..22 generated read-only operations " +
		"(Validate, EmitJSON/Marshal7951, TogNMINotifications, GetNode, Diff/DiffWithAtomic against a second shared tree, DeepCopy, EncodeTypedValue), GOMAXPROCS drawn per case; " +
		"scenario 2: 2..12 goroutines, each writing into its OWN root through generated Unmarshal / ytypes.Unmarshal / SetNode / UnmarshalSetRequest with the SAME input objects ([]byte, decoded JSON value, *Path, *TypedValue, *SetRequest pointers) and the shared schema tree; " +
		"oracle: no race report (-race, halt_on_error) and every goroutine's canonically rendered results / final tree equal those of running the same operations one at a time; " +
		"non-trivial = >= 2 goroutines executed >= 10 operations each on a tree with >= 20 leaves; distinct by scenario+variant+trees+operation lists")
	rec.Assume("only schedules that happen are observed: the race detector flags conflicting unsynchronised accesses that both execute in a run, independent of their exact timing, but an access pair on a path the generated operations never take is invisible, and equality with the sequential results is checked on the explored interleavings only (DESIGN.md section 8)")
	rec.Assume("option structs, path messages and (scenario 1) configs are private to each call: the statement shares the tree, the schema and (scenario 2) the input messages only")
	rec.Assume("the sequential reference run happens after the concurrent run (scenario 1) resp. on deep clones of the messages before it (scenario 2), so that lazily initialised state is first touched concurrently")
	rec.Witness(F15TV, witnessF15TV)
	return rec
}

// TestC21_Cold runs first in the process: several goroutines validate, render and decode at the same time
// while every lazily initialised cache of the library (compiled patterns, ...) is still empty.
func TestC21_Cold(t *testing.T) {
	rec := startC21(t)
	seed := caseSeeds("cold", 1)[0]
	c := roGen.Example(seed)
	c.Seed = seed
	// all goroutines start with Validate on the whole tree, then their generated operations
	for g := range c.Ops {
		c.Ops[g] = append([]roOp{{Kind: "Validate", Site: 0, A: 0, B: g % 2}, {Kind: "Validate", Site: 0, A: 1, B: (g + 1) % 2}}, c.Ops[g]...)
	}
	if len(c.Ops) < 6 {
		for len(c.Ops) < 6 {
			c.Ops = append(c.Ops, c.Ops[0])
		}
	}
	if c.Procs < 4 {
		c.Procs = 4
	}
	announce("cold", seed, c.describe)
	rec.Case("cold|"+c.describe(), c.nontrivial(), append(c.classes(), "scenario:cold-start")...)
	if d := execRO(c); d != "" {
		t.Fatalf("C21 cold start: %s\n---- case ----\n%s", d, c.describe())
	}
}

// TestC21_ReadOnly is scenario 1.
func TestC21_ReadOnly(t *testing.T) {
	rec := startC21(t)
	small := 0
	seeds := caseSeeds("ro", c21Cases(0.6))
	for _, seed := range seeds {
		c := roGen.Example(seed)
		c.Seed = seed
		announce("ro", seed, c.describe)
		nt := c.nontrivial()
		if !nt {
			small++
		}
		rec.Case("ro|"+c.describe(), nt, c.classes()...)
		if rec.WantSample() {
			rec.Sample(map[string]string{"scenario": "read-only", "seed": fmt.Sprint(seed), "case": th.Trunc(c.describe(), 1800)})
		}
		if d := execRO(c); d != "" {
			t.Fatalf("C21 read-only scenario: %s\n---- case ----\n%s", d, c.describe())
		}
	}
	if len(seeds) >= 10 && small*4 > len(seeds) {
		t.Fatalf("INCONCLUSIVE: generator health: %d of %d read-only cases have fewer than 20 leaves in the shared tree", small, len(seeds))
	}
}

// ---- scenario 2: concurrent writers into distinct roots, shared schema and shared input messages -------

type wrOp struct {
	Kind string // Unmarshal ytypes.Unmarshal SetNode UnmarshalSetRequest UnmarshalNotifications
	Idx  int    // which shared message
	Opt  int
}

func (o wrOp) String() string { return fmt.Sprintf("%s(msg=%d opt=%d)", o.Kind, o.Idx, o.Opt) }

type setMsg struct {
	Path *gpb.Path
	Val  *gpb.TypedValue
	ID   string
	// IntForUint: int_val aimed at an unsigned leaf (needs TolerateJSONInconsistencies; F15 rewrites it)
	IntForUint bool
}

type wrCase struct {
	Seed       int
	V          *model.Variant
	Base       *model.Node // every root starts as a separate build of this tree (may be empty)
	M          *model.Node // payload tree
	Procs      int
	Docs       [][]byte
	Sets       []setMsg
	Reqs       []*gpb.SetRequest
	Notifs     [][]*gpb.Notification
	Ops        [][]wrOp
	AvoidedF15 int
}

// genWRCase draws scenario 2. avoidF15: do not combine the tolerance option with shared int-for-uint
// messages (open finding F15-typedvalue-rewritten: the rewrite is a write to a shared input, which the
// race detector reports and which would end the process).
func genWRCase(avoidF15 bool) func(rt *rapid.T) *wrCase {
	return func(rt *rapid.T) *wrCase {
		c := &wrCase{}
		c.V = pickVariant(rt)
		wo := model.GenOpts{Dense: true, NoUnkeyed: true, NoOrdered: rapid.Bool().Draw(rt, "noordered"), MaxList: 2}
		c.M = model.GenTree(rt, c.V, wo)
		// the payload should have some size (the small OpenConfig-style variants often give a dozen leaves):
		// up to two more trees are drawn and the largest is kept
		for i := 0; i < 2 && leafCount(c.M) < 20; i++ {
			if m := model.GenTree(rt, c.V, wo); leafCount(m) > leafCount(c.M) {
				c.M = m
			}
		}
		if rapid.Bool().Draw(rt, "emptybase") {
			c.Base = model.NewNode(c.V.Root)
		} else {
			c.Base = model.GenTree(rt, c.V, model.GenOpts{Sparse: true, NoUnkeyed: true, NoOrdered: true})
		}
		c.Procs = rapid.SampledFrom([]int{1, 2, 3, 4, 8, 16}).Draw(rt, "gomaxprocs")
		c.Docs = append(c.Docs, model.RenderJSON(c.M, model.JSONOpts{Prefix: rapid.Bool().Draw(rt, "prefix")}))
		if ss := sitesOf(c.M); len(ss) > 1 {
			// a second, smaller document: one top-level container wrapped in its parents
			sub := subsetTree(rt, c.M, 50)
			c.Docs = append(c.Docs, model.RenderJSON(sub, model.JSONOpts{Prefix: true}))
		}
		insts := leafInsts(c.M, false)
		if len(insts) > 0 {
			for _, i := range rapid.SliceOfNDistinct(rapid.IntRange(0, len(insts)-1), 1, 12, rapid.ID[int]).Draw(rt, "sets") {
				in := insts[i]
				m := setMsg{Path: model.PathProto(in.Elems), Val: instTV(in), ID: in.ID()}
				if in.F.Kind == model.FLeaf {
					if tv, ok := intForUintTV(in.V); ok && rapid.Bool().Draw(rt, "intforuint") {
						m.Val, m.IntForUint = tv, true
					}
				}
				c.Sets = append(c.Sets, m)
			}
		}
		for i := 0; i < 2; i++ {
			ri := genSetRequest(rt, c.V, c.M, reqOpts{MaxLeaf: 6, MaxJSON: 2, MaxDel: 2, MaxRep: 1, Prefix: true}, "req"+strconv.Itoa(i))
			c.Reqs = append(c.Reqs, ri.Req)
		}
		c.Notifs = append(c.Notifs, notifsFor(rt, c.M, 15, "notifs"))
		g := rapid.IntRange(2, 12).Draw(rt, "goroutines")
		kinds := []string{"Unmarshal", "ytypes.Unmarshal", "SetNode", "SetNode", "SetNode", "UnmarshalSetRequest", "UnmarshalSetRequest"}
		for i := 0; i < g; i++ {
			n := rapid.IntRange(10, 18).Draw(rt, "nops")
			var ops []wrOp
			for j := 0; j < n; j++ {
				o := wrOp{Kind: rapid.SampledFrom(kinds).Draw(rt, "kind"), Idx: rapid.IntRange(0, 30).Draw(rt, "idx"), Opt: rapid.IntRange(0, 3).Draw(rt, "opt")}
				if o.Kind == "SetNode" {
					if len(c.Sets) == 0 {
						o.Kind = "Unmarshal"
					} else if m := c.Sets[o.Idx%len(c.Sets)]; m.IntForUint && o.Opt%2 == 1 && avoidF15 {
						// tolerance option on a shared int-for-uint message: trigger region of F15
						c.AvoidedF15++
						o.Opt = 0
					}
				}
				ops = append(ops, o)
			}
			c.Ops = append(c.Ops, ops)
		}
		return c
	}
}

func (c *wrCase) describe() string {
	var sb strings.Builder
	fmt.Fprintf(&sb, "scenario writers, case seed %d, variant %s, GOMAXPROCS %d, %d goroutines (one root each)\n", c.Seed, c.V.Name, c.Procs, len(c.Ops))
	sb.WriteString(describeTree("every root starts as a separate build of", c.V, c.Base))
	sb.WriteString(describeTree("payload tree (all shared messages are rendered from it)", c.V, c.M))
	for i, d := range c.Docs {
		fmt.Fprintf(&sb, "doc[%d] = %s\n", i, th.Trunc(string(d), 2500))
	}
	for i, s := range c.Sets {
		fmt.Fprintf(&sb, "set[%d] = %s <- %s (int-for-uint %v)\n", i, s.ID, textProto(s.Val), s.IntForUint)
	}
	for i, r := range c.Reqs {
		fmt.Fprintf(&sb, "req[%d] = %s\n", i, th.Trunc(textProto(r), 2500))
	}
	for i, ns := range c.Notifs {
		fmt.Fprintf(&sb, "notifs[%d] =\n%s", i, th.Trunc(textNotifs(ns), 2500))
	}
	for g, ops := range c.Ops {
		fmt.Fprintf(&sb, "goroutine %d:", g)
		for _, o := range ops {
			sb.WriteString(" " + o.String())
		}
		sb.WriteString("\n")
	}
	return sb.String()
}

// wrMsgs is one set of input objects.
type wrMsgs struct {
	docs   [][]byte
	trees  []interface{}
	sets   []setMsg
	reqs   []*gpb.SetRequest
	notifs [][]*gpb.Notification
}

func (c *wrCase) msgs(clone bool) *wrMsgs {
	m := &wrMsgs{}
	for _, d := range c.Docs {
		if clone {
			d = append([]byte(nil), d...)
		}
		m.docs = append(m.docs, d)
		var tree interface{}
		if err := json.Unmarshal(d, &tree); err != nil {
			panic("HARNESS-BUG: " + err.Error())
		}
		m.trees = append(m.trees, tree)
	}
	for _, s := range c.Sets {
		if clone {
			s.Path, s.Val = proto.Clone(s.Path).(*gpb.Path), proto.Clone(s.Val).(*gpb.TypedValue)
		}
		m.sets = append(m.sets, s)
	}
	for _, r := range c.Reqs {
		if clone {
			r = proto.Clone(r).(*gpb.SetRequest)
		}
		m.reqs = append(m.reqs, r)
	}
	for _, ns := range c.Notifs {
		if clone {
			var cp []*gpb.Notification
			for _, n := range ns {
				cp = append(cp, proto.Clone(n).(*gpb.Notification))
			}
			ns = cp
		}
		m.notifs = append(m.notifs, ns)
	}
	return m
}

// runWR applies one operation to root using the given message set; returns "ok" / "ERROR" / "PANIC".
func (c *wrCase) runWR(root ygot.GoStruct, msgs *wrMsgs, o wrOp) (res string) {
	defer func() {
		if r := recover(); r != nil {
			res = fmt.Sprintf("PANIC: %v", r)
		}
	}()
	v := c.V
	var uopts []ytypes.UnmarshalOpt
	switch o.Opt {
	case 2:
		uopts = append(uopts, &ytypes.IgnoreExtraFields{})
	case 3:
		uopts = append(uopts, &ytypes.PreferShadowPath{})
	}
	var err error
	switch o.Kind {
	case "Unmarshal":
		err = v.Unmarshal(msgs.docs[o.Idx%len(msgs.docs)], root, uopts...)
	case "ytypes.Unmarshal":
		err = ytypes.Unmarshal(rootEntry(v), root, msgs.trees[o.Idx%len(msgs.trees)], uopts...)
	case "SetNode":
		m := msgs.sets[o.Idx%len(msgs.sets)]
		opts := []ytypes.SetNodeOpt{&ytypes.InitMissingElements{}}
		if o.Opt%2 == 1 {
			opts = append(opts, &ytypes.TolerateJSONInconsistencies{})
		}
		err = ytypes.SetNode(rootEntry(v), root, m.Path, m.Val, opts...)
	case "UnmarshalSetRequest":
		err = ytypes.UnmarshalSetRequest(schemaWith(v, root), msgs.reqs[o.Idx%len(msgs.reqs)], uopts...)
	case "UnmarshalNotifications":
		err = ytypes.UnmarshalNotifications(schemaWith(v, root), msgs.notifs[o.Idx%len(msgs.notifs)], uopts...)
	}
	if err != nil {
		return "ERROR"
	}
	return "ok"
}

func execWR(c *wrCase) string {
	// sequential reference on private clones of the messages
	want := make([][]string, len(c.Ops))
	wantTree := make([]*model.Node, len(c.Ops))
	for g, ops := range c.Ops {
		root := model.Build(c.Base)
		msgs := c.msgs(true)
		for _, o := range ops {
			want[g] = append(want[g], c.runWR(root, msgs, o))
		}
		wantTree[g] = model.Observe(c.V, root)
	}
	// concurrent run: distinct roots, the same message objects
	shared := c.msgs(false)
	before := c.msgs(true)
	roots := make([]ygot.GoStruct, len(c.Ops))
	lens := make([]int, len(c.Ops))
	got := make([][]string, len(c.Ops))
	for g, ops := range c.Ops {
		roots[g] = model.Build(c.Base)
		lens[g] = len(ops)
		got[g] = make([]string, len(ops))
	}
	runConcurrently(c.Procs, lens, func(g, i int) { got[g][i] = c.runWR(roots[g], shared, c.Ops[g][i]) })
	for g, ops := range c.Ops {
		for i, o := range ops {
			if got[g][i] != want[g][i] {
				return fmt.Sprintf("goroutine %d step %d %s: concurrent outcome %q, sequential outcome %q", g, i, o, got[g][i], want[g][i])
			}
		}
		gotTree := model.Observe(c.V, roots[g])
		if c.V.Wrapper && (dupListKeys(wantTree[g]) || dupListKeys(gotTree)) {
			// wrapper unions as list keys are pointers: writing an entry twice leaves two entries with the
			// same key (open finding F33, owned by C13/C31), and which of the two a later write reaches
			// follows map iteration order. Such trees cannot be compared entry by entry; the per-step
			// outcomes above were compared.
			dupKeyTrees++
			continue
		}
		if d := model.Diff(wantTree[g], gotTree, model.DiffOpts{}); len(d) > 0 {
			return fmt.Sprintf("goroutine %d: the tree written concurrently differs from the tree written by the same operations sequentially:\n  %s", g, th.JoinDiff(d))
		}
	}
	// the shared inputs themselves must be unchanged (a change is a write to shared memory)
	for i := range shared.docs {
		if string(shared.docs[i]) != string(before.docs[i]) {
			return fmt.Sprintf("shared document %d was modified", i)
		}
		if !reflect.DeepEqual(shared.trees[i], before.trees[i]) {
			return fmt.Sprintf("shared decoded JSON value %d was modified", i)
		}
	}
	for i := range shared.sets {
		if !proto.Equal(shared.sets[i].Val, before.sets[i].Val) || !proto.Equal(shared.sets[i].Path, before.sets[i].Path) {
			return fmt.Sprintf("shared SetNode message %d was modified: now %s %s", i, textProto(shared.sets[i].Path), textProto(shared.sets[i].Val))
		}
	}
	for i := range shared.reqs {
		if !proto.Equal(shared.reqs[i], before.reqs[i]) {
			return fmt.Sprintf("shared SetRequest %d was modified: now %s", i, textProto(shared.reqs[i]))
		}
	}
	for i := range shared.notifs {
		for j := range shared.notifs[i] {
			if !proto.Equal(shared.notifs[i][j], before.notifs[i][j]) {
				return fmt.Sprintf("shared notification %d/%d was modified: now %s", i, j, textProto(shared.notifs[i][j]))
			}
		}
	}
	return ""
}

func (c *wrCase) nontrivial() bool {
	if leafCount(c.M) < 20 || len(c.Ops) < 2 {
		return false
	}
	for _, ops := range c.Ops {
		if len(ops) < 10 {
			return false
		}
	}
	return true
}

func (c *wrCase) classes() []string {
	cl := []string{"scenario:writers", "variant:" + c.V.Name, fmt.Sprintf("gomaxprocs:%d", c.Procs)}
	seen := map[string]bool{}
	for _, ops := range c.Ops {
		for _, o := range ops {
			k := "op:" + o.Kind
			if o.Kind == "SetNode" && o.Opt%2 == 1 {
				k = "op:SetNode+tolerate"
			}
			if !seen[k] {
				seen[k] = true
				cl = append(cl, k)
			}
		}
	}
	for _, s := range c.Sets {
		if s.IntForUint {
			cl = append(cl, "msg:int-for-uint")
			break
		}
	}
	if leafCount(c.M) >= 20 {
		cl = append(cl, "tree:>=20-leaves")
	}
	return cl
}

// dupKeyTrees counts final trees of the writers scenario that were not compared because a list holds
// two entries with the same key (see execWR).
var dupKeyTrees int64

// dupListKeys says whether some keyed list of the tree holds two entries with the same key.
func dupListKeys(n *model.Node) bool {
	if n == nil {
		return false
	}
	for _, l := range n.List {
		seen := map[string]bool{}
		for _, e := range l {
			k := model.KeyLoose(e.Key)
			if seen[k] {
				return true
			}
			seen[k] = true
			if dupListKeys(e.N) {
				return true
			}
		}
	}
	for _, c := range n.Cont {
		if dupListKeys(c) {
			return true
		}
	}
	for _, l := range n.UList {
		for _, e := range l {
			if dupListKeys(e) {
				return true
			}
		}
	}
	return false
}

// TestC21_Writers is scenario 2.
func TestC21_Writers(t *testing.T) {
	rec := startC21(t)
	avoid := rec.Active(F15TV) && os.Getenv("T6_C21_FORCE_F15") == ""
	gen := rapid.Custom(genWRCase(avoid))
	small := 0
	seeds := caseSeeds("wr", c21Cases(0.4))
	for _, seed := range seeds {
		c := gen.Example(seed)
		c.Seed = seed
		announce("wr", seed, c.describe)
		for i := 0; i < c.AvoidedF15; i++ {
			rec.Excuse(F15TV, true)
		}
		nt := c.nontrivial()
		if !nt {
			small++
		}
		rec.Case("wr|"+c.describe(), nt, c.classes()...)
		if rec.WantSample() {
			rec.Sample(map[string]string{"scenario": "writers", "seed": fmt.Sprint(seed), "case": th.Trunc(c.describe(), 1800)})
		}
		if d := execWR(c); d != "" {
			t.Fatalf("C21 writers scenario: %s\n---- case ----\n%s", d, c.describe())
		}
	}
	rec.Add("writers_trees_not_compared_duplicate_union_keys", dupKeyTrees)
	if len(seeds) >= 10 && small*4 > len(seeds) {
		t.Fatalf("INCONCLUSIVE: generator health: %d of %d writer cases have fewer than 20 leaves in the payload tree", small, len(seeds))
	}
}

// ---- replay ---------------------------------------------------------------------------------------------

var markerRe = regexp.MustCompile(`C21-CASE scenario=(\w+) seed=(\d+)`)

// TestC21_Replay re-runs the last case announced in a saved log (or current-case file) 20 times.
func TestC21_Replay(t *testing.T) {
	path := os.Getenv("VERIF_REPLAY")
	if path == "" {
		t.Skip("no VERIF_REPLAY")
	}
	rec := startC21(t)
	raw, err := os.ReadFile(path)
	if err != nil {
		t.Fatalf("INCONCLUSIVE: cannot read replay file: %v", err)
	}
	all := markerRe.FindAllStringSubmatch(string(raw), -1)
	if len(all) == 0 {
		t.Fatalf("INCONCLUSIVE: no C21-CASE marker in %s", path)
	}
	m := all[len(all)-1]
	seed, _ := strconv.Atoi(m[2])
	for round := 0; round < 20; round++ {
		switch m[1] {
		case "ro", "cold":
			c := roGen.Example(seed)
			c.Seed = seed
			if round == 0 {
				t.Logf("replaying 20x:\n%s", c.describe())
				rec.Case("replay|"+c.describe(), c.nontrivial(), "scenario:replay")
			}
			announce(m[1], seed, c.describe)
			if d := execRO(c); d != "" {
				t.Fatalf("C21 replay round %d: %s\n---- case ----\n%s", round, d, c.describe())
			}
		case "wr":
			c := rapid.Custom(genWRCase(rec.Active(F15TV) && os.Getenv("T6_C21_FORCE_F15") == "")).Example(seed)
			c.Seed = seed
			if round == 0 {
				t.Logf("replaying 20x:\n%s", c.describe())
				rec.Case("replay|"+c.describe(), c.nontrivial(), "scenario:replay")
			}
			announce("wr", seed, c.describe)
			if d := execWR(c); d != "" {
				t.Fatalf("C21 replay round %d: %s\n---- case ----\n%s", round, d, c.describe())
			}
		default:
			t.Fatalf("INCONCLUSIVE: unknown scenario %q in marker", m[1])
		}
	}
}
