package t6

import (
	"fmt"
	"strings"
	"sync"
	"sync/atomic"
	"testing"

	"github.com/openconfig/goyang/pkg/yang"
	"github.com/openconfig/ygot/ytypes"
	"pgregory.net/rapid"
)

// TestC21_PatternCache: string validation compiles the patterns of a type lazily and keeps them in a
// process-wide cache, one for `pattern` and one for the OpenConfig `posix-pattern` extension. Validate
// running concurrently on one shared schema therefore reads and fills those caches from several
// goroutines. Every case uses patterns that no earlier case (and no corpus type) has used, so each one is
// first met while other goroutines are validating: the sequential reference comes from the construction
// of the inputs, not from a warm-up run (which would fill the cache and hide an unsynchronised write).
func TestC21_PatternCache(t *testing.T) {
	rec := startC21(t)
	var serial int64
	rapid.Check(t, func(rt *rapid.T) {
		g := rapid.IntRange(2, 12).Draw(rt, "goroutines")
		nt := rapid.IntRange(1, 5).Draw(rt, "types")
		type tcase struct {
			typ   *yang.YangType
			lit   string
			posix bool
		}
		var types []tcase
		classes := []string{"scenario:pattern-cache"}
		for i := 0; i < nt; i++ {
			lit := fmt.Sprintf("c%dq%d", atomic.AddInt64(&serial, 1), rapid.IntRange(0, 1<<20).Draw(rt, "lit"))
			posix := rapid.Bool().Draw(rt, "posix")
			y := &yang.YangType{Kind: yang.Ystring}
			if posix {
				y.POSIXPattern = []string{"^" + lit + "[a-z]*$"}
				classes = append(classes, "pattern:posix")
			} else {
				y.Pattern = []string{lit + "[a-z]*"}
				classes = append(classes, "pattern:xsd")
			}
			if rapid.Bool().Draw(rt, "second") {
				if posix {
					y.POSIXPattern = append(y.POSIXPattern, "^.*"+lit+".*$")
				} else {
					y.Pattern = append(y.Pattern, ".*"+lit+".*")
				}
			}
			types = append(types, tcase{y, lit, posix})
		}
		type in struct {
			ti   int
			s    string
			want bool
		}
		var inputs []in
		for i, tc := range types {
			inputs = append(inputs, in{i, tc.lit + "abc", true}, in{i, tc.lit, true}, in{i, tc.lit + "1", false}, in{i, "zz" + tc.lit, false}, in{i, "", false})
		}
		rot := make([]int, g)
		for i := range rot {
			rot[i] = rapid.IntRange(0, len(inputs)-1).Draw(rt, "rot")
		}
		describe := func() string {
			var b strings.Builder
			fmt.Fprintf(&b, "%d goroutines, types:", g)
			for _, tc := range types {
				fmt.Fprintf(&b, " {posix=%v pattern=%v posix-pattern=%v}", tc.posix, tc.typ.Pattern, tc.typ.POSIXPattern)
			}
			return b.String()
		}
		announce("pattern-cache", int(serial), describe)
		rec.Case("pattern|"+describe(), g >= 2 && len(inputs) >= 10, classes...)
		got := make([][]bool, g)
		start := make(chan struct{})
		var wg sync.WaitGroup
		for gi := 0; gi < g; gi++ {
			wg.Add(1)
			go func(gi int) {
				defer wg.Done()
				<-start
				res := make([]bool, len(inputs))
				for k := range inputs {
					j := (k + rot[gi]) % len(inputs)
					res[j] = ytypes.ValidateStringRestrictions(types[inputs[j].ti].typ, inputs[j].s) == nil
				}
				got[gi] = res
			}(gi)
		}
		close(start)
		wg.Wait()
		for gi := range got {
			for j, x := range inputs {
				if got[gi][j] != x.want {
					rt.Fatalf("goroutine %d: ValidateStringRestrictions(%q) accepted=%v, want %v (running concurrently with %d other goroutines)\n%s",
						gi, x.s, got[gi][j], x.want, g-1, describe())
				}
			}
		}
	})
}
