package t6

import (
	"fmt"
	"os"
	"path/filepath"
	"strings"
	"testing"

	gpb "github.com/openconfig/gnmi/proto/gnmi"
	"pgregory.net/rapid"
	"verifharness/ev"
	"verifharness/model"
)

// Native fuzz targets (thorough tier, driven by /verif/fuzzdrv.py; `go test` without -fuzz runs the
// seeds only). Each target decodes the fuzz bytes into structured arguments:
//
//	FuzzUnmarshalJSON  1 header byte (variant, entry point, options) + JSON text
//	FuzzSetGetDelete   2 header bytes (variant, operation; option bits) + prototext gnmi.Update (path, val)
//	FuzzSetRequest     2 header bytes + prototext gnmi.SetRequest | gnmi.GetResponse (its notifications)
//	FuzzStringToPath   the string
//	FuzzGnmidiff       1 header byte (variant or no schema, API) + prototext SetRequest + "\n#---#\n" + prototext SetRequest | GetResponse
//
// A panic that carries the signature of an OPEN known finding whose witness still panics is recovered
// and counted (file $VERIF_FUZZ_EXCL.<pid>); any other panic fails the target and the engine saves the
// input under testdata/fuzz/<Target>/.
const maxFuzzInput = 1 << 15

func fuzzBody(target string) func(t *testing.T, data []byte) {
	return func(t *testing.T, data []byte) {
		if len(data) > maxFuzzInput {
			return
		}
		runTarget(t, nil, target, data)
	}
}

func addSeeds(f *testing.F, target string) {
	for _, p := range seedFiles(target) {
		b, err := os.ReadFile(p)
		if err != nil {
			f.Fatalf("HARNESS-BUG: %v", err)
		}
		f.Add(b)
	}
	for _, b := range hostileSeeds(target) {
		f.Add(b)
	}
}

func FuzzUnmarshalJSON(f *testing.F) {
	addSeeds(f, "FuzzUnmarshalJSON")
	f.Fuzz(fuzzBody("FuzzUnmarshalJSON"))
}

func FuzzSetGetDelete(f *testing.F) {
	addSeeds(f, "FuzzSetGetDelete")
	f.Fuzz(fuzzBody("FuzzSetGetDelete"))
}

func FuzzSetRequest(f *testing.F) {
	addSeeds(f, "FuzzSetRequest")
	f.Fuzz(fuzzBody("FuzzSetRequest"))
}

func FuzzStringToPath(f *testing.F) {
	addSeeds(f, "FuzzStringToPath")
	f.Fuzz(fuzzBody("FuzzStringToPath"))
}

func FuzzGnmidiff(f *testing.F) {
	addSeeds(f, "FuzzGnmidiff")
	f.Fuzz(fuzzBody("FuzzGnmidiff"))
}

// ---- hostile constants ------------------------------------------------------------------------------------

func strTV(s string) *gpb.TypedValue {
	return &gpb.TypedValue{Value: &gpb.TypedValue_StringVal{StringVal: s}}
}

func pth(elems ...string) *gpb.Path {
	p := &gpb.Path{}
	for _, e := range elems {
		pe := &gpb.PathElem{Name: e}
		if i := strings.Index(e, "["); i >= 0 {
			pe.Name = e[:i]
			pe.Key = map[string]string{}
			for _, kv := range strings.Split(strings.Trim(e[i:], "[]"), "][") {
				x := strings.SplitN(kv, "=", 2)
				pe.Key[x[0]] = x[1]
			}
		}
		p.Elem = append(p.Elem, pe)
	}
	return p
}

func llTV(ss ...string) *gpb.TypedValue {
	arr := &gpb.ScalarArray{}
	for _, s := range ss {
		arr.Element = append(arr.Element, strTV(s))
	}
	return &gpb.TypedValue{Value: &gpb.TypedValue_LeaflistVal{LeaflistVal: arr}}
}

// hostileSeeds are hand-written inputs known or suspected to be awkward, in the target's encoding.
func hostileSeeds(target string) [][]byte {
	var out [][]byte
	switch target {
	case "FuzzUnmarshalJSON":
		docs := []string{`{}`, `[]`, `null`, `1`, `"x"`, `{"top":null}`, `{"top":[]}`, `{"top":1}`, `{"top":{"keyed":{"k-str":[1]}}}`, `{"top":{"keyed":{"k-str":[null]}}}`,
			`{"top":{"keyed":{"k-str":{"k":"a"}}}}`, `{"top":{"keyed":{"k-str":[{}]}}}`, `{"top":{"keyed":{"k-str":[{"k":null}]}}}`, `{"top":{"keyed":{"k-str":[{"k":"a"},{"k":"a"}]}}}`,
			`{"top":{"ll-s":"a"}}`, `{"top":{"ll-s":[null]}}`, `{"top":{"ll-s":[["a"]]}}`, `{"top":{"e":[null,null]}}`, `{"top":{"e":[]}}`, `{"top":{"e":null}}`, `{"top":{"u8":-1}}`, `{"top":{"u8":1e400}}`,
			`{"top":{"i64":9223372036854775808}}`, `{"top":{"d1":"x"}}`, `{"top":{"bin":"!"}}`, `{"top":{"colour":1}}`, `{"top":{"iow":{}}}`, `{"top":{"mixed":[]}}`, `{"top":{"ordered":{"o1":[1]}}}`,
			`{"top":{"ordered":{"o1":{}}}}`, `{"top":{"stats":{"ul":[1]}}}`, `{"top":{"stats":{"ul":[null]}}}`, `{"top":{"keyed":{"mk2":[{"a":"x"}]}}}`, `{"vt:top":{"vt:s":1}}`, `{"nomod:top":{}}`, `{"":{}}`, `{"top":{"":1}}`,
			`{"items":{"item":[1]}}`, `{"items":{"item":[{"name":1}]}}`, `{"items":{"item":[{"config":{"name":"a"}}]}}`, `{"items":{"item":[{"name":"a","config":{"name":"b"}}]}}`, `{"items":{"item":[{"name":"a","subs":{"sub":[[]]}}]}}`,
			`{"policy":{"rules":{"rule":[null]}}}`, `{"pairs":{"pair":[{"a":"x"}]}}`, `{"system":{"config":[]}}`, `{"system":{"config":{"hostname":{}}}}`,
			strings.Repeat("[", 200) + strings.Repeat("]", 200), strings.Repeat(`{"top":`, 50) + `1` + strings.Repeat("}", 50)}
		for i, d := range docs {
			for _, vn := range []string{"vtu", "vtw", "vocc", "vocu"} {
				voc := strings.HasPrefix(vn, "voc")
				if strings.Contains(d, `"top"`) == voc && strings.Contains(d, "top") {
					continue
				}
				out = append(out, encodeJSONCase(jsonCase{Variant: vn, Entry: i % 4, Opt: (i / 4) % 4, Doc: []byte(d)}))
			}
		}
	case "FuzzSetGetDelete":
		type pv struct {
			p *gpb.Path
			v *gpb.TypedValue
		}
		cases := []pv{
			{pth("top", "s"), strTV("x")}, {pth("top", "s"), nil}, {pth("top", "s"), &gpb.TypedValue{}}, {nil, strTV("x")}, {&gpb.Path{}, strTV("x")}, {&gpb.Path{}, model.JSONIETFTV([]byte(`{"top":{"keyed":{"k-str":[1]}}}`))},
			{pth("top"), strTV("x")}, {pth("top", "keyed", "k-str"), strTV("x")}, {pth("top", "keyed", "k-str[k=a]"), strTV("x")}, {pth("top", "keyed", "k-str[k=a]", "v"), strTV("x")},
			{pth("top", "keyed", "k-str[k=*]", "v"), strTV("x")}, {pth("top", "keyed", "k-str[bogus=a]", "v"), strTV("x")}, {pth("top", "keyed", "k-str[k=a][k2=b]", "v"), strTV("x")},
			{pth("top", "keyed", "mk2[a=x]", "v"), strTV("x")}, {pth("top", "keyed", "mk2[a=x][b=notanumber]", "v"), strTV("x")}, {pth("top", "keyed", "k-u8[k=256]", "v"), strTV("x")},
			{pth("top", "keyed", "k-enum[k=PURPLE]", "v"), strTV("x")}, {pth("top", "keyed", "k-bool[k=maybe]", "v"), strTV("x")}, {pth("top", "keyed", "k-dec[k=1e3]", "v"), strTV("x")},
			{pth("top", "ll-s"), llTV("a", "b")}, {pth("top", "ll-s"), strTV("a")}, {pth("top", "ll-s"), &gpb.TypedValue{Value: &gpb.TypedValue_LeaflistVal{}}}, {pth("top", "ll-s"), &gpb.TypedValue{Value: &gpb.TypedValue_LeaflistVal{LeaflistVal: &gpb.ScalarArray{Element: []*gpb.TypedValue{{}}}}}},
			{pth("top", "u8"), &gpb.TypedValue{Value: &gpb.TypedValue_IntVal{IntVal: 5}}}, {pth("top", "u8"), &gpb.TypedValue{Value: &gpb.TypedValue_UintVal{UintVal: 256}}}, {pth("top", "e"), &gpb.TypedValue{Value: &gpb.TypedValue_BoolVal{}}},
			{pth("top", "bin"), &gpb.TypedValue{Value: &gpb.TypedValue_BytesVal{}}}, {pth("top", "d1"), &gpb.TypedValue{Value: &gpb.TypedValue_DecimalVal{}}}, {pth("top", "iow"), &gpb.TypedValue{Value: &gpb.TypedValue_AnyVal{}}},
			{pth("top", "ordered", "o1[k=a]", "box"), model.JSONIETFTV([]byte(`{"x":"y"}`))}, {pth("top", "ordered", "o1"), model.JSONIETFTV([]byte(`[{"k":"a"}]`))}, {pth("top", "stats", "ul"), model.JSONIETFTV([]byte(`[{}]`))},
			{pth("items", "item[name=a]", "config", "mtu"), &gpb.TypedValue{Value: &gpb.TypedValue_UintVal{UintVal: 1500}}}, {pth("items", "item[name=a]"), model.JSONIETFTV([]byte(`{"config":{"name":"b"}}`))},
			{pth("items", "item"), model.JSONIETFTV([]byte(`[1]`))}, {pth("items", "item[name=a]", "state", "counter"), &gpb.TypedValue{Value: &gpb.TypedValue_UintVal{UintVal: 1}}},
			{pth("policy", "rules", "rule[id=r]", "config", "action"), strTV("ACCEPT")}, {pth("pairs", "pair[a=x][b=1]", "config", "v"), &gpb.TypedValue{Value: &gpb.TypedValue_BoolVal{BoolVal: true}}},
			{&gpb.Path{Elem: []*gpb.PathElem{{Name: "top"}, {Name: ""}}}, strTV("x")}, {&gpb.Path{Element: []string{"top", "s"}}, strTV("x")}, {&gpb.Path{Elem: []*gpb.PathElem{{Name: "top", Key: map[string]string{"": ""}}}}, strTV("x")},
		}
		for i, c := range cases {
			voc := len(c.p.GetElem()) > 0 && containsAny(c.p.Elem[0].Name, "items", "policy", "pairs", "system")
			for _, vn := range []string{"vtu", "vtw", "vocc", "voco", "vocu"} {
				if voc != strings.HasPrefix(vn, "voc") && len(c.p.GetElem()) > 0 {
					continue
				}
				for op := 0; op < 3; op++ {
					out = append(out, encodeNodeCase(nodeCase{Variant: vn, Op: op, Opts: uint8(i % 16), Path: c.p, Val: c.v}))
				}
			}
		}
	case "FuzzSetRequest":
		reqs := []*gpb.SetRequest{
			{}, {Prefix: pth("top")}, {Delete: []*gpb.Path{{}}}, {Delete: []*gpb.Path{pth("top", "keyed", "k-str")}}, {Update: []*gpb.Update{{}}}, {Update: []*gpb.Update{{Path: pth("top", "s")}}}, {Update: []*gpb.Update{{Val: strTV("x")}}},
			{Prefix: pth("top"), Update: []*gpb.Update{{Path: pth("s"), Val: strTV("x")}, {Path: pth("ll-s"), Val: llTV("a")}, {Path: pth("ll-s"), Val: llTV("a")}}},
			{Replace: []*gpb.Update{{Path: &gpb.Path{}, Val: model.JSONIETFTV([]byte(`{"top":{"keyed":{"k-str":[1]}}}`))}}},
			{Replace: []*gpb.Update{{Path: pth("top", "keyed"), Val: model.JSONIETFTV([]byte(`{"k-str":[{"k":"a","v":"b"}]}`))}}, Update: []*gpb.Update{{Path: pth("top", "keyed", "k-str[k=a]", "v"), Val: strTV("c")}}},
			{Prefix: pth("items", "item[name=a]"), Update: []*gpb.Update{{Path: pth("config", "mtu"), Val: &gpb.TypedValue{Value: &gpb.TypedValue_UintVal{UintVal: 100}}}}, Delete: []*gpb.Path{pth("subs")}},
			{Update: []*gpb.Update{{Path: pth("policy", "rules"), Val: model.JSONIETFTV([]byte(`{"rule":[{"id":"a","config":{"id":"a"}},{"id":"a","config":{"id":"a"}}]}`))}}},
		}
		for i, r := range reqs {
			for _, vn := range []string{"vtu", "vtw", "vocc", "vocu"} {
				out = append(out, encodeReqCase(reqCase{Variant: vn, API: 0, Opts: uint8(i % 8), Req: r}))
				n := &gpb.Notification{Prefix: r.Prefix, Update: append(append([]*gpb.Update(nil), r.Update...), r.Replace...), Delete: r.Delete, Atomic: i%3 == 0}
				out = append(out, encodeReqCase(reqCase{Variant: vn, API: 1, Opts: uint8(i % 8), Notifs: []*gpb.Notification{n, {}}}))
			}
		}
	case "FuzzStringToPath":
		for _, s := range []string{"", "/", "//", "a", "/a/b[c=d]/e", "/a[k=x\\]y]/b", "a[b=c][d=e]", "[", "]", "a[", "a[b", "a[b=", "a[b=c", "a[b=c]d", "a[=c]", "a[b=]", "[a=b]", "\\", "a\\", "a[b=\\",
			"a[b=c]]", "a[[b=c]", "a[b==c]", "a[b=c][", "a b", "a[b c=d]", "/a[k=[\\]]", "a/[k=v]", "a[k=v]/", "a[k=v][k=w]", "é[世=\U0001F600]", "a[k=x/y]/b", "a[k=x]y/z]", "/a/../b", "a[k=\x00]", strings.Repeat("a[", 100), strings.Repeat("\\", 99)} {
			out = append(out, []byte(s))
		}
	case "FuzzGnmidiff":
		ll := &gpb.Update{Path: pth("top", "ll-s"), Val: llTV("a")}
		reqs := []*gpb.SetRequest{
			{}, {Update: []*gpb.Update{ll, ll}}, {Replace: []*gpb.Update{ll}, Update: []*gpb.Update{ll}}, {Update: []*gpb.Update{{}}}, {Update: []*gpb.Update{{Path: pth("top", "s")}}}, {Delete: []*gpb.Path{{}, {}}},
			{Update: []*gpb.Update{{Path: pth("top", "inner"), Val: model.JSONIETFTV([]byte(`{"deeper":{"x":"a"},"ll-s":["a"]}`))}, {Path: pth("top", "inner", "ll-s"), Val: llTV("a")}}},
			{Replace: []*gpb.Update{{Path: pth("top"), Val: model.JSONIETFTV([]byte(`{"keyed":{"k-str":[1]}}`))}}},
			{Prefix: pth("items"), Replace: []*gpb.Update{{Path: pth("item[name=a]"), Val: model.JSONIETFTV([]byte(`{"config":{"name":"a","tags":["x"]}}`))}}, Update: []*gpb.Update{{Path: pth("item[name=a]", "config", "tags"), Val: llTV("x")}}},
			{Update: []*gpb.Update{{Path: pth("a"), Val: model.JSONIETFTV([]byte(`[1,[2]]`))}, {Path: pth("a", "b"), Val: model.JSONIETFTV([]byte(`null`))}}},
			{Update: []*gpb.Update{{Path: pth("x[k=a]b]"), Val: strTV("v")}}}, {Update: []*gpb.Update{{Path: pth("top", "s"), Val: &gpb.TypedValue{Value: &gpb.TypedValue_AnyVal{}}}}},
		}
		for i, a := range reqs {
			for j, vn := range []string{"", "vtu", "vocc", "vocu"} {
				b := reqs[(i+j)%len(reqs)]
				out = append(out, encodeDiffCase(diffCase{Variant: vn, API: 0, A: a, B: b}))
				n := &gpb.Notification{Prefix: b.Prefix, Update: append(append([]*gpb.Update(nil), b.Update...), b.Replace...)}
				out = append(out, encodeDiffCase(diffCase{Variant: vn, API: 1, A: a, Notifs: []*gpb.Notification{n}}))
			}
		}
	}
	return out
}

// ---- writer of the committed seed corpus (run by hand: T6_WRITE_SEEDS=1 go test -run TestWriteC20Seeds) ---

// TestWriteC20Seeds regenerates testdata/c20seed/<Target>/*: valid cases rendered from generated trees,
// encoded for the fuzz targets. Not part of any check.
func TestWriteC20Seeds(t *testing.T) {
	if os.Getenv("T6_WRITE_SEEDS") == "" {
		t.Skip("set T6_WRITE_SEEDS=1 to rewrite the committed seed corpus")
	}
	write := func(target string, i int, b []byte) {
		dir := filepath.Join(testdataDir(), "c20seed", target)
		if err := os.MkdirAll(dir, 0o755); err != nil {
			t.Fatal(err)
		}
		if err := os.WriteFile(filepath.Join(dir, fmt.Sprintf("valid-%03d", i)), b, 0o644); err != nil {
			t.Fatal(err)
		}
	}
	for _, tg := range fuzzTargets {
		os.RemoveAll(filepath.Join(testdataDir(), "c20seed", tg))
	}
	n := map[string]int{}
	add := func(target string, b []byte) { write(target, n[target], b); n[target]++ }
	for vi, vn := range variantNames {
		v := variantByName(vn)
		v.MustInit()
		for k := 0; k < 3; k++ {
			seed := vi*10 + k + 1
			type bundle struct {
				p   *pool
				req *gpb.SetRequest
				ns  []*gpb.Notification
			}
			g := rapid.Custom(func(rt *rapid.T) bundle {
				p := &pool{v: v}
				p.m = model.GenTree(rt, v, model.GenOpts{NoUnkeyed: true, PlainStrings: k == 0, Sparse: k != 2})
				p.insts, p.sites = leafInsts(p.m, false), sitesOf(p.m)
				ri := genSetRequest(rt, v, p.m, reqOpts{MaxLeaf: 4, MaxJSON: 1, MaxDel: 1, MaxRep: 1, Prefix: true, NoLLTwice: true, NoRootDoc: true}, "req")
				return bundle{p, ri.Req, notifsFor(rt, p.m, 6, "notifs")}
			})
			b := g.Example(seed)
			doc := model.RenderJSON(b.p.m, model.JSONOpts{Prefix: k == 1})
			add("FuzzUnmarshalJSON", encodeJSONCase(jsonCase{Variant: vn, Entry: k, Opt: 0, Doc: doc}))
			for i, in := range b.p.insts {
				if i%5 == k {
					add("FuzzSetGetDelete", encodeNodeCase(nodeCase{Variant: vn, Op: (i / 5) % 3, Path: model.PathProto(in.Elems), Val: instTV(in)}))
				}
			}
			add("FuzzSetRequest", encodeReqCase(reqCase{Variant: vn, API: 0, Req: b.req}))
			add("FuzzSetRequest", encodeReqCase(reqCase{Variant: vn, API: 1, Notifs: b.ns}))
			add("FuzzGnmidiff", encodeDiffCase(diffCase{Variant: vn, API: 0, A: b.req, B: b.req}))
			add("FuzzGnmidiff", encodeDiffCase(diffCase{Variant: "", API: 1, A: b.req, Notifs: b.ns}))
			for i, in := range b.p.insts {
				if i%7 == k {
					s := ""
					for _, e := range in.Elems {
						s += "/" + e.Name
						for _, kn := range sortedKeysVal(e.Keys) {
							s += "[" + kn + "=" + strings.NewReplacer("]", "\\]", "\\", "\\\\").Replace(model.KeyString(e.Keys[kn])) + "]"
						}
					}
					add("FuzzStringToPath", []byte(s))
				}
			}
		}
	}
	t.Logf("wrote %v", n)
}

// registerMoreC20Witnesses registers the witnesses of findings discovered by this check (F80...).
func registerMoreC20Witnesses(rec *ev.Rec) {
	for _, k := range knownPanics {
		if k.id == F4 || k.id == F16 {
			continue
		}
		id := k.id
		rec.Witness(id, func() (bool, string) { return witnessPanic(id) })
	}
}

// triggerInMessages: the messages lie in the trigger region of finding id.
func triggerInMessages(id string, req *gpb.SetRequest, ns []*gpb.Notification) bool {
	var ups []*gpb.Update
	ups = append(ups, req.GetUpdate()...)
	ups = append(ups, req.GetReplace()...)
	for _, n := range ns {
		ups = append(ups, n.GetUpdate()...)
	}
	switch id {
	case F4:
		for _, u := range ups {
			if doc := u.GetVal().GetJsonIetfVal(); doc != nil {
				if d, err := parseJV(doc); err == nil && hasNonObjectInArray(d) {
					return true
				}
			}
		}
		return false
	case F16:
		// a leaf-list value (leaflist_val, or a JSON payload with an array) next to at least one more value
		carriers, vals := 0, 0
		for _, u := range ups {
			if u.GetVal() == nil {
				continue
			}
			vals++
			if u.GetVal().GetLeaflistVal() != nil || strings.Contains(string(u.GetVal().GetJsonIetfVal()), "[") || strings.Contains(string(u.GetVal().GetJsonVal()), "[") {
				carriers++
			}
		}
		return carriers >= 1 && vals >= 2
	}
	if f, ok := moreTriggers[id]; ok {
		return f(req, ns, ups)
	}
	return false
}

// moreTriggers holds the trigger predicates of findings discovered by this check.
var moreTriggers = map[string]func(req *gpb.SetRequest, ns []*gpb.Notification, ups []*gpb.Update) bool{
	F80: func(req *gpb.SetRequest, ns []*gpb.Notification, ups []*gpb.Update) bool { return hasNilElement(req, ns) },
}

// hasNilElement: some repeated message field of the messages holds a nil element, or the notification
// slice does (states that exist only in Go memory; a decoder never produces them).
func hasNilElement(req *gpb.SetRequest, ns []*gpb.Notification) bool {
	nilInPath := func(p *gpb.Path) bool {
		for _, e := range p.GetElem() {
			if e == nil {
				return true
			}
		}
		return false
	}
	nilInUpd := func(us []*gpb.Update) bool {
		for _, u := range us {
			if u == nil || nilInPath(u.Path) {
				return true
			}
			if ll := u.GetVal().GetLeaflistVal(); ll != nil {
				for _, e := range ll.Element {
					if e == nil {
						return true
					}
				}
			}
		}
		return false
	}
	nilInPaths := func(ps []*gpb.Path) bool {
		for _, p := range ps {
			if p == nil || nilInPath(p) {
				return true
			}
		}
		return false
	}
	if req != nil && (nilInPath(req.Prefix) || nilInUpd(req.Update) || nilInUpd(req.Replace) || nilInPaths(req.Delete)) {
		return true
	}
	for _, n := range ns {
		if n == nil || nilInPath(n.Prefix) || nilInUpd(n.Update) || nilInPaths(n.Delete) {
			return true
		}
	}
	return false
}
