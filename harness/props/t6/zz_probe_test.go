package t6

import (
	"fmt"
	"testing"

	gpb "github.com/openconfig/gnmi/proto/gnmi"
	"github.com/openconfig/ygot/gnmidiff"
	"github.com/openconfig/ygot/ygot"
	"github.com/openconfig/ygot/ytypes"
	"verifharness/model"
)

func TestProbe(t *testing.T) {
	v := variantByName("vtu")
	v.MustInit()
	// F4
	p := catch(func() {
		err := v.Unmarshal([]byte(`{"top":{"keyed":{"k-str":[1]}}}`), v.NewRoot())
		fmt.Println("F4 err:", err)
	})
	fmt.Println("F4:", p)

	// F15 config
	m := model.NewNode(v.Root)
	top := model.NewNode(v.Root.ByName["Top"].Child)
	m.Cont["Top"] = top
	top.Leaf["S"] = model.Val{K: model.KStr, S: "x"}
	top.Leaf["U8"] = model.Val{K: model.KUint8, U: 3}
	gs := model.Build(m)
	cfg := &ygot.RFC7951JSONConfig{}
	tv, err := ygot.EncodeTypedValue(gs, gpb.Encoding_JSON_IETF, cfg)
	fmt.Println("F15 cfg:", cfg.AppendModuleName, tv, err)

	// F15 tv
	root := v.NewRoot()
	itv := &gpb.TypedValue{Value: &gpb.TypedValue_IntVal{IntVal: 5}}
	path := &gpb.Path{Elem: []*gpb.PathElem{{Name: "top"}, {Name: "u8"}}}
	err = ytypes.SetNode(rootEntry(v), root, path, itv, &ytypes.InitMissingElements{}, &ytypes.TolerateJSONInconsistencies{})
	fmt.Println("F15 tv:", itv, err)

	// F15 gnmidiff schema root
	sroot := v.NewRoot()
	sch := freshSchemaWith(v, sroot)
	req := &gpb.SetRequest{Update: []*gpb.Update{{Path: &gpb.Path{Elem: []*gpb.PathElem{{Name: "top"}, {Name: "inner"}}}, Val: &gpb.TypedValue{Value: &gpb.TypedValue_JsonIetfVal{JsonIetfVal: []byte(`{"deeper":{"x":"a"}}`)}}}}}
	d, err := gnmidiff.DiffSetRequest(req, req, sch)
	fmt.Println("F15 gnmidiff:", err, d.CommonUpdates, "root:\n"+model.Observe(v, sroot).Dump())

	// F16
	ll := &gpb.TypedValue{Value: &gpb.TypedValue_LeaflistVal{LeaflistVal: &gpb.ScalarArray{Element: []*gpb.TypedValue{{Value: &gpb.TypedValue_StringVal{StringVal: "a"}}}}}}
	lp := &gpb.Path{Elem: []*gpb.PathElem{{Name: "top"}, {Name: "ll-s"}}}
	req2 := &gpb.SetRequest{Update: []*gpb.Update{{Path: lp, Val: ll}, {Path: lp, Val: ll}}}
	for _, s := range []*ytypes.Schema{nil, freshSchemaWith(v, v.NewRoot())} {
		p = catch(func() {
			_, err := gnmidiff.DiffSetRequest(req2, &gpb.SetRequest{}, s)
			fmt.Println("F16 err:", err)
		})
		fmt.Println("F16:", p)
	}

	// prefix with spare capacity
	full := []*gpb.PathElem{{Name: "a"}, {Name: "b"}, {Name: "SENT1"}, {Name: "SENT2"}}
	ns, err := ygot.TogNMINotifications(gs, 1, ygot.GNMINotificationsConfig{UsePathElem: true, PathElemPrefix: full[:2]})
	fmt.Println("prefix:", full, err, len(ns))
	fulls := []string{"a", "b", "SENT1", "SENT2"}
	ns, err = ygot.TogNMINotifications(gs, 1, ygot.GNMINotificationsConfig{StringSlicePrefix: fulls[:2]})
	fmt.Println("prefix:", fulls, err, len(ns))
}
