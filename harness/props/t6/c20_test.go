package t6

import (
	"fmt"
	"os"
	"path/filepath"
	"sort"
	"strconv"
	"strings"
	"sync"
	"testing"

	"pgregory.net/rapid"
	"verifharness/ev"
	"verifharness/model"
	"verifharness/th"
)

// failer is what rapid.T, testing.T and testing.F have in common here.
type failer interface {
	Fatalf(format string, args ...interface{})
}

// c20 shared state of the rapid tests (one recorder per property id).
type c20env struct {
	rec *ev.Rec
	mu  sync.Mutex
	cnt map[string]int
}

func (e *c20env) count(k string) {
	e.mu.Lock()
	e.cnt[k]++
	e.mu.Unlock()
}

func startC20(t *testing.T) *c20env {
	rec := ev.Start(t, "C20")
	rec.Rule("five input domains, each fed with structured-but-wrong inputs derived from valid ones (harness renderings of generated trees): " +
		"(1) RFC7951 documents mutated by kind swaps, non-object list elements, missing keys, duplicate members/entries, unknown members, hoisting, deep nesting -> generated Unmarshal / ytypes.Unmarshal / SetNode and UnmarshalSetRequest with json_ietf_val; " +
		"(2) gNMI paths with missing/extra/empty/wildcard/odd keys, nil and unknown elements x TypedValues of every oneof kind aimed at every leaf -> GetNode / SetNode / DeleteNode with all options; " +
		"(3) SetRequests and notifications assembled from such parts incl. nil messages, nil Path, nil Val, repeated leaf-list updates -> UnmarshalSetRequest / UnmarshalNotifications; " +
		"(4) strings biased to [ ] = \\ / -> StringToPath / StringToStructuredPath / StringToStringSlicePath; (5) request pairs / request + notifications -> gnmidiff with and without schema; " +
		"plus replay of the committed seed corpus; thorough tier: Go native coverage-guided fuzzing of five targets (see fuzz key). " +
		"oracle: the call returns (recover inside the property); non-trivial = the call succeeded or failed with an error that shows the input reached type-specific code (not a syntax / path-lookup rejection); distinct by domain+complete input")
	rec.Assume("each iteration uses a fresh root (and a fresh ytypes.Schema wrapper) so that no state leaks between cases; the schema tree itself is shared (C21 checks that it is never written)")
	rec.Assume("nil elements inside repeated protobuf fields are Go-only states (they cannot arrive over the wire); they are generated with low weight and reported as a separate finding class")
	rec.Witness(F4, func() (bool, string) { return witnessPanic(F4) })
	rec.Witness(F16, func() (bool, string) { return witnessPanic(F16) })
	registerMoreC20Witnesses(rec)
	rec.Witness(F96, witnessF96)
	return &c20env{rec: rec, cnt: map[string]int{}}
}

// judge turns an outcome into a verdict. trigger says whether the input lies in the trigger region of
// the named finding (nil = decide by signature only: used for replayed and fuzz inputs).
func judge(t failer, rec *ev.Rec, domain string, o outcome, describe func() string, trigger func(id string) bool) {
	if o.pan == nil {
		return
	}
	if id := panicID(o.pan); id != "" {
		trig := trigger == nil || trigger(id)
		if rec != nil {
			if rec.Excuse(id, trig) {
				return
			}
		} else if trig && activeKnownPanic(id) {
			noteFuzzExclusion(id)
			return
		}
	}
	if os.Getenv("T6_DEBUG_PANICS") != "" {
		fmt.Printf("T6_PANIC %s | %s | %s\n", domain, o.pan.Val, firstRepoFrame(o.pan.Stack))
		return
	}
	t.Fatalf("%s: the call panicked instead of returning an error\ninput: %s\n%s", domain, describe(), o.pan)
}

func (e *c20env) record(domain, key string, o outcome, classes []string) {
	cl := append([]string{"domain:" + domain}, classes...)
	cl = append(cl, o.class...)
	switch {
	case o.pan != nil:
		cl = append(cl, "outcome:panic")
	case o.ok:
		cl = append(cl, "outcome:ok")
	case o.deep:
		cl = append(cl, "outcome:deep-error")
	default:
		cl = append(cl, "outcome:shallow-error")
	}
	e.rec.Case(domain+"|"+key, o.deep || o.ok, cl...)
	e.count(domain + ":total")
	if o.deep || o.ok {
		e.count(domain + ":deep")
	}
	if o.ok {
		e.count(domain + ":ok")
	}
}

func (e *c20env) health(t *testing.T, domain string, minDeepPct int) {
	e.mu.Lock()
	defer e.mu.Unlock()
	tot, deep := e.cnt[domain+":total"], e.cnt[domain+":deep"]
	if t.Failed() || tot < 100 {
		return
	}
	if deep*100 < tot*minDeepPct {
		t.Fatalf("INCONCLUSIVE: generator health (%s): only %d of %d inputs reached type-specific code or succeeded (need %d%%)", domain, deep, tot, minDeepPct)
	}
}

// TestC20_JSON: structured-but-wrong RFC 7951 documents.
func TestC20_JSON(t *testing.T) {
	e := startC20(t)
	rapid.Check(t, func(rt *rapid.T) {
		v := pickVariant(rt)
		p := genPool(rt, v, "pool")
		site := p.sites[0]
		doc, err := parseJV(model.RenderJSON(site.N, model.JSONOpts{Prefix: rapid.Bool().Draw(rt, "prefix"), AllAlts: rapid.IntRange(0, 3).Draw(rt, "allalts") == 0}))
		if err != nil {
			rt.Fatalf("HARNESS-BUG: harness JSON does not parse: %v", err)
		}
		var muts []string
		n := rapid.SampledFrom([]int{0, 1, 1, 1, 2, 2, 3}).Draw(rt, "nmut")
		for i := 0; i < n; i++ {
			if m := mutateJV(rt, doc, "m"+strconv.Itoa(i)); m != "" {
				muts = append(muts, "json-mut:"+m)
			}
		}
		if len(muts) == 0 {
			muts = append(muts, "json-mut:none")
		}
		c := jsonCase{Variant: v.Name, Entry: rapid.IntRange(0, 3).Draw(rt, "entry"), Opt: rapid.SampledFrom([]int{0, 0, 1, 2, 3}).Draw(rt, "opt"), Doc: []byte(doc.String())}
		if rapid.IntRange(0, 3).Draw(rt, "prepopulated") == 0 {
			c.Base = p.m
		}
		o := execJSON(c)
		e.record("json", c.String(), o, append(muts, "variant:"+v.Name))
		if e.rec.WantSample() {
			e.rec.Sample(map[string]string{"domain": "json", "input": th.Trunc(c.String(), 1200), "mutations": strings.Join(muts, " "), "outcome": strings.Join(o.log, "; ")})
		}
		judge(rt, e.rec, "JSON "+jsonEntryNames[c.Entry%4], o, c.String, func(id string) bool { return id == F4 && hasNonObjectInArray(doc) })
	})
	e.health(t, "json", 40)
}

// TestC20_Node: GetNode / SetNode / DeleteNode with odd paths and TypedValues of every kind.
func TestC20_Node(t *testing.T) {
	e := startC20(t)
	rapid.Check(t, func(rt *rapid.T) {
		v := pickVariant(rt)
		p := genPool(rt, v, "pool")
		c := nodeCase{Variant: v.Name, Op: rapid.SampledFrom([]int{0, 1, 1, 2}).Draw(rt, "op"), Opts: uint8(rapid.SampledFrom([]int{0, 0, 0, 1, 2, 3, 4, 8, 6, 15}).Draw(rt, "opts")), Base: p.base(rt, "base")}
		var classes []string
		// either an odd path with a value aimed at a real leaf, or a valid leaf path with an odd value
		var in *model.Inst
		if len(p.insts) > 0 {
			x := p.insts[rapid.IntRange(0, len(p.insts)-1).Draw(rt, "inst")]
			if rapid.Bool().Draw(rt, "bytype") {
				// leaves of rare value kinds (decimal64, binary, empty, ...) are a few per cent of the
				// instances: half of the time the kind is drawn first, then an instance of it
				by := map[string][]int{}
				var names []string
				for i, y := range p.insts {
					tn := fmt.Sprint(y.F.Type.VKind())
					if by[tn] == nil {
						names = append(names, tn)
					}
					by[tn] = append(by[tn], i)
				}
				sort.Strings(names)
				g := by[rapid.SampledFrom(names).Draw(rt, "insttype")]
				x = p.insts[g[rapid.IntRange(0, len(g)-1).Draw(rt, "instoftype")]]
			}
			in = &x
		}
		structural := false
		if rapid.IntRange(0, 4).Draw(rt, "structural") == 0 {
			// a valid path to a container or list entry, present in the base tree or not
			if tg := model.PickTarget(rt, p.v, p.m, model.TargetOpts{AllowOrdered: true, AllowWholeList: true}); tg != nil && tg.F != nil && tg.F.Kind != model.FLeaf && tg.F.Kind != model.FLeafList {
				c.Path = model.PathProto(tg.Elems)
				structural = true
				classes = append(classes, "path-mut:none", "path-base:structural")
				if tg.Exists {
					classes = append(classes, "path-base:structural-exists")
				}
				if c.Op == 1 {
					switch rapid.IntRange(0, 3).Draw(rt, "doc") {
					case 0:
						c.Val = model.JSONIETFTV([]byte("{}"))
					case 1:
						c.Val = model.JSONIETFTV([]byte(rapid.SampledFrom(jsonSnippets).Draw(rt, "snippet")))
					default:
						if tg.F.Child != nil && (tg.F.Kind == model.FCont || tg.AtEntry) {
							c.Val = model.JSONIETFTV(model.RenderJSON(model.GenNode(rt, tg.F.Child, model.GenOpts{Sparse: true, NoUnkeyed: true}), model.JSONOpts{Prefix: rapid.Bool().Draw(rt, "docprefix")}))
						} else {
							c.Val = model.JSONIETFTV([]byte("[]"))
						}
					}
					classes = append(classes, "tv:json-ietf-doc")
				}
			}
		}
		if structural {
		} else if in != nil && rapid.Bool().Draw(rt, "validpath") {
			c.Path = model.PathProto(in.Elems)
			classes = append(classes, "path-mut:none", "path-base:leaf")
		} else {
			var pc []string
			c.Path, pc = oddPath(rt, p, "path")
			classes = append(classes, pc...)
		}
		if c.Op == 1 && c.Val == nil {
			var k string
			c.Val, k = oddTV(rt, in, "val")
			classes = append(classes, "tv:"+k)
			if in != nil {
				classes = append(classes, "leaf-type:"+in.F.Type.TypeName())
			}
		}
		o := execNode(c)
		e.record("node", c.String(), o, append(classes, "variant:"+v.Name))
		if e.rec.WantSample() {
			e.rec.Sample(map[string]string{"domain": "node", "input": th.Trunc(c.String(), 1200), "outcome": strings.Join(o.log, "; ")})
		}
		judge(rt, e.rec, nodeOpNames[c.Op%3], o, c.String, func(id string) bool { return id == F4 && c.Val.GetJsonIetfVal() != nil })
	})
	e.health(t, "node", 25)
}

// TestC20_Req: UnmarshalSetRequest / UnmarshalNotifications with messages assembled from random parts.
func TestC20_Req(t *testing.T) {
	e := startC20(t)
	rapid.Check(t, func(rt *rapid.T) {
		v := pickVariant(rt)
		p := genPool(rt, v, "pool")
		c := reqCase{Variant: v.Name, API: rapid.IntRange(0, 1).Draw(rt, "api"), Opts: uint8(rapid.SampledFrom([]int{0, 0, 1, 2, 4, 7}).Draw(rt, "opts")), Base: p.base(rt, "base")}
		var classes []string
		if c.API == 0 {
			c.Req, classes = oddRequest(rt, p, "req")
			c.NilReq = rapid.IntRange(0, 40).Draw(rt, "nilreq") == 0
		} else {
			c.Notifs, classes = oddNotifs(rt, p, "notifs")
		}
		o := execReq(c)
		e.record("req", c.String(), o, append(classes, "variant:"+v.Name))
		if e.rec.WantSample() {
			e.rec.Sample(map[string]string{"domain": "req", "input": th.Trunc(c.String(), 1500), "outcome": strings.Join(o.log, "; ")})
		}
		dom := "UnmarshalSetRequest/UnmarshalNotifications"
		if os.Getenv("T6_DEBUG_PANICS") != "" {
			dom += fmt.Sprintf(" nilElem=%v", hasNilElement(c.Req, c.Notifs))
		}
		judge(rt, e.rec, dom, o, c.String, func(id string) bool {
			if id == F81 {
				return c.Opts&4 != 0 && originClash(c.Req, c.Notifs)
			}
			return triggerInMessages(id, c.Req, c.Notifs)
		})
	})
	e.health(t, "req", 25)
}

// TestC20_Str: path strings.
func TestC20_Str(t *testing.T) {
	e := startC20(t)
	rapid.Check(t, func(rt *rapid.T) {
		s := oddString(rt, "s")
		o := execStr(s)
		var classes []string
		for _, ch := range []string{"[", "]", "=", "\\", "/"} {
			if strings.Contains(s, ch) {
				classes = append(classes, "str-has:"+ch)
			}
		}
		e.record("str", strconv.Quote(s), o, classes)
		if e.rec.WantSample() {
			e.rec.Sample(map[string]string{"domain": "str", "input": strconv.Quote(s), "outcome": strings.Join(o.log, "; ")})
		}
		judge(rt, e.rec, "StringToPath family", o, func() string { return strconv.Quote(s) }, func(string) bool { return false })
	})
	e.health(t, "str", 40)
}

// TestC20_Diff: gnmidiff with random request pairs, with and without schema.
func TestC20_Diff(t *testing.T) {
	e := startC20(t)
	rapid.Check(t, func(rt *rapid.T) {
		v := pickVariant(rt)
		p := genPool(rt, v, "pool")
		c := diffCase{API: rapid.IntRange(0, 1).Draw(rt, "api")}
		if rapid.IntRange(0, 2).Draw(rt, "schema") > 0 {
			c.Variant = v.Name
			c.Base = p.base(rt, "base")
		}
		var ca, cb []string
		c.A, ca = oddRequest(rt, p, "A")
		c.NilA = rapid.IntRange(0, 40).Draw(rt, "nilA") == 0
		if c.API == 0 {
			switch rapid.IntRange(0, 3).Draw(rt, "B") {
			case 0:
				c.B = nil
			case 1:
				c.B = c.A // the same object on both sides
			default:
				c.B, cb = oddRequest(rt, p, "B")
			}
		} else {
			c.Notifs, cb = oddNotifs(rt, p, "notifs")
		}
		o := execDiff(c)
		e.record("diff", c.String(), o, append(joinClasses(ca, cb), "variant:"+v.Name))
		if e.rec.WantSample() {
			e.rec.Sample(map[string]string{"domain": "diff", "input": th.Trunc(c.String(), 1500), "outcome": strings.Join(o.log, "; ")})
		}
		dom := "gnmidiff"
		if os.Getenv("T6_DEBUG_PANICS") != "" {
			dom += fmt.Sprintf(" nilElem=%v", hasNilElement(c.A, c.Notifs) || hasNilElement(c.B, nil))
		}
		judge(rt, e.rec, dom, o, c.String, func(id string) bool {
			return triggerInMessages(id, c.A, c.Notifs) || triggerInMessages(id, c.B, nil)
		})
	})
	e.health(t, "diff", 20)
}

// ---- committed seed corpus and replay ---------------------------------------------------------------------

var fuzzTargets = []string{"FuzzUnmarshalJSON", "FuzzSetGetDelete", "FuzzSetRequest", "FuzzStringToPath", "FuzzGnmidiff"}

// runTarget runs one input through the body of the named fuzz target. rec may be nil.
func runTarget(t failer, rec *ev.Rec, target string, data []byte) (decoded bool, o outcome, desc string) {
	switch target {
	case "FuzzUnmarshalJSON":
		c, ok := decodeJSONCase(data)
		if !ok {
			return false, o, ""
		}
		o = execJSON(c)
		judge(t, rec, target, o, c.String, nil)
		return true, o, c.String()
	case "FuzzSetGetDelete":
		c, ok := decodeNodeCase(data)
		if !ok {
			return false, o, ""
		}
		o = execNode(c)
		judge(t, rec, target, o, c.String, nil)
		return true, o, c.String()
	case "FuzzSetRequest":
		c, ok := decodeReqCase(data)
		if !ok {
			return false, o, ""
		}
		o = execReq(c)
		judge(t, rec, target, o, c.String, nil)
		return true, o, c.String()
	case "FuzzStringToPath":
		o = execStr(string(data))
		judge(t, rec, target, o, func() string { return strconv.Quote(string(data)) }, nil)
		return true, o, strconv.Quote(string(data))
	case "FuzzGnmidiff":
		c, ok := decodeDiffCase(data)
		if !ok {
			return false, o, ""
		}
		o = execDiff(c)
		judge(t, rec, target, o, c.String, nil)
		return true, o, c.String()
	}
	panic("HARNESS-BUG: unknown fuzz target " + target)
}

// seedFiles lists the committed seed inputs of a target (raw bytes, one file per input).
func seedFiles(target string) []string {
	fs, _ := filepath.Glob(filepath.Join(testdataDir(), "c20seed", target, "*"))
	sort.Strings(fs)
	return fs
}

// TestC20_Corpus replays the committed seed corpus and the hostile constants of every target.
func TestC20_Corpus(t *testing.T) {
	e := startC20(t)
	total := 0
	for _, target := range fuzzTargets {
		var inputs [][]byte
		for _, f := range seedFiles(target) {
			b, err := os.ReadFile(f)
			if err != nil {
				t.Fatalf("HARNESS-BUG: %v", err)
			}
			inputs = append(inputs, b)
		}
		nfiles := len(inputs)
		inputs = append(inputs, hostileSeeds(target)...)
		if nfiles == 0 {
			t.Fatalf("INCONCLUSIVE: no committed seed corpus for %s under %s", target, filepath.Join(testdataDir(), "c20seed", target))
		}
		for i, in := range inputs {
			decoded, o, desc := runTarget(t, e.rec, target, in)
			if !decoded {
				if i < nfiles {
					t.Fatalf("HARNESS-BUG: committed seed %d of %s does not decode", i, target)
				}
				continue
			}
			e.record("corpus-"+target, desc, o, nil)
			total++
		}
	}
	e.rec.Set("corpus_inputs", total)
}

// TestC20_Replay re-runs a saved native-fuzz crasher (Go corpus file format or raw bytes). The file
// name tells the target (<Target>-<hash>...); otherwise every target is tried.
func TestC20_Replay(t *testing.T) {
	path := os.Getenv("VERIF_REPLAY")
	if path == "" {
		t.Skip("no VERIF_REPLAY")
	}
	e := startC20(t)
	raw, err := os.ReadFile(path)
	if err != nil {
		t.Fatalf("INCONCLUSIVE: cannot read replay file: %v", err)
	}
	data, err := parseGoFuzzFile(raw)
	if err != nil {
		t.Fatalf("INCONCLUSIVE: cannot parse replay file %s: %v", path, err)
	}
	var targets []string
	for _, tg := range fuzzTargets {
		if strings.HasPrefix(filepath.Base(path), tg) {
			targets = []string{tg}
		}
	}
	if targets == nil {
		targets = fuzzTargets
	}
	for _, tg := range targets {
		decoded, o, desc := runTarget(t, e.rec, tg, data)
		if decoded {
			e.record("replay-"+tg, desc, o, nil)
			t.Logf("replayed %s through %s: %s", path, tg, strings.Join(o.log, "; "))
		}
	}
}

// parseGoFuzzFile decodes a "go test fuzz v1" corpus file with one []byte or string value; anything
// else is taken as raw bytes.
func parseGoFuzzFile(raw []byte) ([]byte, error) {
	s := string(raw)
	if !strings.HasPrefix(s, "go test fuzz v1") {
		return raw, nil
	}
	lines := strings.Split(strings.TrimRight(s, "\n"), "\n")
	if len(lines) < 2 {
		return nil, fmt.Errorf("no value line")
	}
	l := strings.TrimSpace(lines[1])
	for _, pfx := range []string{"[]byte(", "string("} {
		if strings.HasPrefix(l, pfx) && strings.HasSuffix(l, ")") {
			q := l[len(pfx) : len(l)-1]
			u, err := strconv.Unquote(q)
			if err != nil {
				return nil, fmt.Errorf("cannot unquote %s: %v", th.Trunc(q, 80), err)
			}
			return []byte(u), nil
		}
	}
	return nil, fmt.Errorf("unsupported value line %s", th.Trunc(l, 80))
}

// firstRepoFrame returns the innermost stack frame inside the library under test.
func firstRepoFrame(stack string) string {
	for _, l := range strings.Split(stack, "\n") {
		if strings.HasPrefix(l, "github.com/openconfig/ygot/") {
			if i := strings.Index(l, "("); i > 0 {
				return l[:strings.LastIndex(l, "(")]
			}
			return l
		}
	}
	return "?"
}
