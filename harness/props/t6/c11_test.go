package t6

import (
	"bytes"
	"encoding/json"
	"fmt"
	"os"
	"reflect"
	"sort"
	"strings"
	"sync"
	"testing"

	gpb "github.com/openconfig/gnmi/proto/gnmi"
	"github.com/openconfig/ygot/gnmidiff"
	"github.com/openconfig/ygot/ygot"
	"github.com/openconfig/ygot/ytypes"
	"google.golang.org/protobuf/proto"
	"pgregory.net/rapid"
	"verifharness/ev"
	"verifharness/model"
	"verifharness/th"
)

// Finding ids of this package (DESIGN.md section 6).
const (
	F4      = "F4-unmarshal-list-panic"
	F16     = "F16-gnmidiff-leaflist-panic"
	F15Cfg  = "F15-encode-config-mutated"
	F15TV   = "F15-typedvalue-rewritten"
	F15Root = "F15-gnmidiff-schema-root-mutated"
)

// ---- witnesses (fixed minimal inputs against the real code) -------------------------------------------

func witnessTreeVtu() (*model.Variant, *model.Node) {
	v := variantByName("vtu")
	v.MustInit()
	m := model.NewNode(v.Root)
	top := th.Child(m, "Top")
	top.Leaf["S"] = model.Val{K: model.KStr, S: "x"}
	return v, m
}

func witnessF15Cfg() (bool, string) {
	_, m := witnessTreeVtu()
	cfg := &ygot.RFC7951JSONConfig{}
	_, err := ygot.EncodeTypedValue(model.Build(m), gpb.Encoding_JSON_IETF, cfg)
	if err == nil && cfg.AppendModuleName {
		return true, "EncodeTypedValue(vtu root {top:{s:x}}, JSON_IETF, &RFC7951JSONConfig{}) left the caller's config with AppendModuleName=true"
	}
	return false, ""
}

func witnessF15TV() (bool, string) {
	v, _ := witnessTreeVtu()
	tv := &gpb.TypedValue{Value: &gpb.TypedValue_IntVal{IntVal: 5}}
	path := &gpb.Path{Elem: []*gpb.PathElem{{Name: "top"}, {Name: "u8"}}}
	err := ytypes.SetNode(rootEntry(v), v.NewRoot(), path, tv, &ytypes.InitMissingElements{}, &ytypes.TolerateJSONInconsistencies{})
	if _, isInt := tv.Value.(*gpb.TypedValue_IntVal); err == nil && !isInt {
		return true, fmt.Sprintf("SetNode(/top/u8, int_val:5, TolerateJSONInconsistencies) rewrote the caller's TypedValue to %s", textProto(tv))
	}
	return false, ""
}

func witnessF15Root() (bool, string) {
	v, _ := witnessTreeVtu()
	root := v.NewRoot()
	sch := freshSchemaWith(v, root)
	req := &gpb.SetRequest{Update: []*gpb.Update{{Path: &gpb.Path{Elem: []*gpb.PathElem{{Name: "top"}, {Name: "inner"}}},
		Val: model.JSONIETFTV([]byte(`{"deeper":{"x":"a"}}`))}}}
	_, err := gnmidiff.DiffSetRequest(req, &gpb.SetRequest{}, sch)
	if got := model.Observe(v, root); err == nil && len(got.Cont) > 0 {
		return true, "gnmidiff.DiffSetRequest(update /top/inner {deeper:{x:a}}, {}, schema with empty Root) created nodes in the caller's schema.Root:\n" + got.Dump()
	}
	return false, ""
}

// ---- guards -------------------------------------------------------------------------------------------

// guard watches one argument of a call.
type guard struct {
	name  string
	check func() (same bool, detail string)
}

type c11case struct {
	rt       *rapid.T
	rec      *ev.Rec
	v        *model.Variant
	api      string
	desc     []string
	guards   []guard
	ok       bool // the call succeeded
	nonEmpty bool // the arguments carried data
	result   string
	classes  []string
	// excuser may explain a detected difference by an open known finding.
	excuser func(g guard, detail string) bool
}

func (c *c11case) note(format string, a ...interface{}) {
	c.desc = append(c.desc, fmt.Sprintf(format, a...))
}

// tree builds the GoStruct for m twice and watches the first copy.
func (c *c11case) tree(name string, m *model.Node) ygot.GoStruct {
	gs, twin := model.Build(m), model.Build(m)
	if !treeEqual(gs, twin) {
		panic("HARNESS-BUG: two builds of one model are not deep-equal:\n" + m.Dump())
	}
	c.note("%s", describeTree(name, c.v, m))
	c.guards = append(c.guards, guard{name: name, check: func() (bool, string) {
		var out []string
		if d := model.Diff(m, model.Observe(c.v, gs), model.DiffOpts{Max: 12}); len(d) > 0 {
			out = append(out, "observed tree differs from the model it was built from:\n  "+th.JoinDiff(d))
		}
		if !treeEqual(gs, twin) {
			out = append(out, "tree is no longer deep-equal (reflect.DeepEqual with structural map keys) to its twin built from the same model; observed now:\n"+indent(model.Observe(c.v, gs).Dump(), "    "))
		}
		return len(out) == 0, strings.Join(out, "\n")
	}})
	return gs
}

// msg watches a protobuf argument.
func (c *c11case) msg(name string, m proto.Message) {
	before := proto.Clone(m)
	c.note("%s = %s", name, th.Trunc(textProto(m), 3000))
	c.guards = append(c.guards, guard{name: name, check: func() (bool, string) {
		if proto.Equal(before, m) {
			return true, ""
		}
		return false, fmt.Sprintf("before: %s\nafter:  %s", textProto(before), textProto(m))
	}})
}

func (c *c11case) msgs(name string, ns []*gpb.Notification) {
	for i, n := range ns {
		c.msg(fmt.Sprintf("%s[%d]", name, i), n)
	}
}

// opt watches an option value (pointer to struct, struct with slices, ...).
func (c *c11case) opt(name string, o interface{}) {
	before := deepClone(o)
	c.note("%s = %s", name, optText(o))
	c.guards = append(c.guards, guard{name: name, check: func() (bool, string) {
		if optEqual(before, o) {
			return true, ""
		}
		return false, fmt.Sprintf("before: %s\nafter:  %s", optText(before), optText(o))
	}})
}

func (c *c11case) describe() string { return strings.Join(c.desc, "\n") }

// ---- option generators --------------------------------------------------------------------------------

func genRFC7951(rt *rapid.T, label string, allowNil bool) *ygot.RFC7951JSONConfig {
	lo := 0
	if !allowNil {
		lo = 1
	}
	switch rapid.IntRange(lo, 5).Draw(rt, label) {
	case 0:
		return nil
	case 1:
		return &ygot.RFC7951JSONConfig{}
	case 2:
		return &ygot.RFC7951JSONConfig{AppendModuleName: true}
	case 3:
		return &ygot.RFC7951JSONConfig{PrependModuleNameIdentityref: true}
	case 4:
		return &ygot.RFC7951JSONConfig{PreferShadowPath: true, RewriteModuleNames: map[string]string{"vt-udef": "vt", "voc-aug": "voc"}}
	}
	return &ygot.RFC7951JSONConfig{AppendModuleName: true, RewriteModuleNames: map[string]string{"nomod": "other"}}
}

func genValidationOpts(rt *rapid.T, label string) []ygot.ValidationOption {
	switch rapid.IntRange(0, 2).Draw(rt, label) {
	case 1:
		return []ygot.ValidationOption{&ytypes.LeafrefOptions{IgnoreMissingData: true}}
	case 2:
		return []ygot.ValidationOption{&ytypes.LeafrefOptions{IgnoreMissingData: false, Log: false}}
	}
	return nil
}

// ---- the property --------------------------------------------------------------------------------------

// rapid's SampledFrom favours the ends of the list: the APIs with the richest argument space sit there.
var c11APIs = []string{
	"SetNode", "gnmidiff.DiffSetRequest", "EncodeTypedValue", "ytypes.Unmarshal", "UnmarshalSetRequest", "Diff", "MergeStructs",
	"TogNMINotifications", "generated.Unmarshal", "DiffWithAtomic", "DeepCopy", "Marshal7951", "EmitJSON", "ConstructIETFJSON",
	"ConstructInternalJSON", "Validate", "gnmidiff.DiffSetRequestToNotifications", "GetNode",
}

type okCounter struct {
	mu    sync.Mutex
	calls map[string]int
	oks   map[string]int
}

func (o *okCounter) add(api string, ok bool) {
	o.mu.Lock()
	defer o.mu.Unlock()
	o.calls[api]++
	if ok {
		o.oks[api]++
	}
}

// TestC11 checks that read-only and encoding APIs leave every argument unchanged (DESIGN.md 5/C11).
func TestC11(t *testing.T) {
	rec := ev.Start(t, "C11")
	rec.Rule("variant (all six) x API named in the statement (one per case) x generated tree(s) x option values x payloads (paths, TypedValues, SetRequests, notifications, decoded JSON); " +
		"every argument is compared before/after: GoStruct trees by the reflective observer against the model AND reflect.DeepEqual against a twin built from the same model, " +
		"option structs against a deep clone, protobuf messages with proto.Equal against proto.Clone, decoded JSON values and byte slices against a deep copy, caller-owned slice capacity beyond len against sentinels; " +
		"checked whether or not the call succeeds; non-trivial = arguments non-empty and the call succeeded; distinct by variant+API+all arguments")
	rec.Assume("arguments are schema-conforming (trees from the model generator, payloads rendered from such trees); a panic inside the API is C20's subject and only counts as 'call failed' here")
	rec.Witness(F15Cfg, witnessF15Cfg)
	rec.Witness(F15TV, witnessF15TV)
	rec.Witness(F15Root, witnessF15Root)
	cnt := &okCounter{calls: map[string]int{}, oks: map[string]int{}}

	rapid.Check(t, func(rt *rapid.T) {
		v := pickVariant(rt)
		api := rapid.SampledFrom(c11APIs).Draw(rt, "api")
		c := &c11case{rt: rt, rec: rec, v: v, api: api}
		var pan *panicInfo
		run := c11Prepare(c)
		pan = catch(run)
		if pan != nil {
			c.ok = false
			c.note("the call panicked: %s", pan.Val)
		}
		nt := c.ok && c.nonEmpty
		if !c.ok && os.Getenv("T6_DEBUG") != "" {
			fmt.Printf("T6_DEBUG %s %s: %s\n", api, v.Name, th.Trunc(c.result, 400))
		}
		cl := append([]string{"variant:" + v.Name, "api:" + api}, c.classes...)
		if c.ok {
			cl = append(cl, "ok:"+api)
		} else {
			cl = append(cl, "failed:"+api)
		}
		if pan != nil {
			cl = append(cl, "panicked:"+api)
		}
		rec.Case(v.Name+"|"+api+"|"+c.describe(), nt, cl...)
		cnt.add(api, nt)
		if rec.WantSample() {
			rec.Sample(map[string]string{"variant": v.Name, "api": api, "ok": fmt.Sprint(c.ok), "arguments": th.Trunc(c.describe(), 1800), "result": th.Trunc(c.result, 300)})
		}
		var bad []string
		for _, g := range c.guards {
			same, detail := g.check()
			if same {
				continue
			}
			if c.excuser != nil && c.excuser(g, detail) {
				continue
			}
			bad = append(bad, fmt.Sprintf("argument %q was modified by %s:\n%s", g.name, api, detail))
		}
		if len(bad) > 0 {
			rt.Fatalf("%s (variant %s, call ok=%v) changed its inputs:\n%s\n---- arguments before the call ----\n%s\nresult: %s",
				api, v.Name, c.ok, strings.Join(bad, "\n"), c.describe(), th.Trunc(c.result, 600))
		}
	})

	// generator health: every API must have been exercised successfully with non-empty arguments
	cnt.mu.Lock()
	defer cnt.mu.Unlock()
	total := 0
	for _, n := range cnt.calls {
		total += n
	}
	if t.Failed() || total < 200 {
		return
	}
	var weak []string
	for _, a := range c11APIs {
		min := cnt.calls[a] / 5
		if min < 3 {
			min = 3
		}
		if cnt.oks[a] < min {
			weak = append(weak, fmt.Sprintf("%s: %d successful non-empty calls of %d (need %d)", a, cnt.oks[a], cnt.calls[a], min))
		}
	}
	sort.Strings(weak)
	if len(weak) > 0 {
		t.Fatalf("INCONCLUSIVE: generator health: APIs (almost) never exercised successfully: %s", strings.Join(weak, "; "))
	}
}

// c11Prepare draws the arguments for c.api, registers the guards and returns the call.
func c11Prepare(c *c11case) func() {
	rt, v := c.rt, c.v
	m := model.GenTree(rt, v, treeOpts(rt, "tree"))
	c.nonEmpty = leafCount(m) > 0
	c.classes = th.TreeClasses(v, m.Stat())
	switch c.api {
	case "GetNode":
		gs := c.tree("root", m)
		type cand struct {
			el   []model.PElem
			kind string
		}
		var cands []cand
		for _, in := range leafInsts(m, true) {
			cands = append(cands, cand{in.Elems, "leaf"})
		}
		for _, s := range sitesOf(m)[1:] {
			cands = append(cands, cand{s.Elems, "struct"})
			if s.Elems[len(s.Elems)-1].Keys != nil {
				l := append([]model.PElem(nil), s.Elems...)
				l[len(l)-1] = model.PElem{Name: l[len(l)-1].Name}
				cands = append(cands, cand{l, "whole-list"})
			}
		}
		if len(cands) == 0 || rapid.IntRange(0, 3).Draw(rt, "absent") == 0 {
			other := model.GenTree(rt, v, model.GenOpts{NoUnkeyed: true})
			for _, in := range leafInsts(other, false) {
				cands = append(cands, cand{in.Elems, "other-tree"})
			}
			for _, s := range sitesOf(other)[1:] {
				cands = append(cands, cand{s.Elems, "other-tree"})
			}
		}
		if len(cands) == 0 {
			cands = append(cands, cand{nil, "root"})
		}
		cd := cands[rapid.IntRange(0, len(cands)-1).Draw(rt, "path")]
		// one path in five is cut short: it then ends at an ancestor, which in a compressed struct can be an
		// element that has no struct of its own (the surrounding container of a list, a config/state container)
		if len(cd.el) > 1 && rapid.IntRange(0, 4).Draw(rt, "cut") == 0 {
			cd = cand{cd.el[:rapid.IntRange(1, len(cd.el)-1).Draw(rt, "cutat")], "ancestor"}
		}
		path := model.PathProto(cd.el)
		var opts []ytypes.GetNodeOpt
		optName := rapid.SampledFrom([]string{"none", "none", "wildcards", "partial", "tolerate-nil", "shadow"}).Draw(rt, "opt")
		switch optName {
		case "wildcards":
			opts = append(opts, &ytypes.GetHandleWildcards{})
			for _, e := range path.Elem {
				for k := range e.Key {
					if rapid.Bool().Draw(rt, "wild") {
						e.Key[k] = "*"
					}
				}
			}
		case "partial":
			opts = append(opts, &ytypes.GetPartialKeyMatch{})
			for _, e := range path.Elem {
				for _, k := range sortedKeysStr(e.Key) {
					if rapid.Bool().Draw(rt, "dropkey") {
						delete(e.Key, k)
					}
				}
			}
		case "tolerate-nil":
			opts = append(opts, &ytypes.GetTolerateNil{})
		case "shadow":
			opts = append(opts, &ytypes.PreferShadowPath{})
		}
		c.classes = append(c.classes, "getnode:"+cd.kind, "getnode-opt:"+optName)
		c.msg("path", path)
		c.note("opts = %s", optName)
		return func() {
			nodes, err := ytypes.GetNode(rootEntry(v), gs, path, opts...)
			c.ok = err == nil && len(nodes) > 0
			c.result = fmt.Sprintf("%d nodes, err=%v", len(nodes), err)
		}

	case "Validate":
		gs := c.tree("root", m)
		vopts := genValidationOpts(rt, "vopts")
		for i, o := range vopts {
			c.opt(fmt.Sprintf("opt[%d]", i), o)
		}
		sites := goSites(m, gs)
		site := sites[rapid.IntRange(0, len(sites)-1).Draw(rt, "site")]
		how := rapid.SampledFrom([]string{"ytypes.Validate", "generated.Validate", "generated.ΛValidate"}).Draw(rt, "how")
		c.note("%s at %s", how, model.ElemsID(site.S.Elems))
		c.classes = append(c.classes, "validate:"+how)
		return func() {
			var err error
			switch how {
			case "ytypes.Validate":
				sch := v.Schema().SchemaTree[reflect.TypeOf(site.GS).Elem().Name()]
				if errs := ytypes.Validate(sch, site.GS, vopts...); len(errs) > 0 {
					err = errs
				}
			case "generated.Validate":
				err = site.GS.(ygot.ValidatedGoStruct).Validate(vopts...)
			default:
				err = site.GS.(interface {
					ΛValidate(...ygot.ValidationOption) error
				}).ΛValidate(vopts...)
			}
			c.ok = err == nil
			c.result = fmt.Sprintf("err=%v", err)
		}

	case "EmitJSON":
		gs := c.tree("root", m)
		var cfg *ygot.EmitJSONConfig
		if rapid.IntRange(0, 5).Draw(rt, "nilcfg") > 0 {
			cfg = &ygot.EmitJSONConfig{
				Format:         rapid.SampledFrom([]ygot.JSONFormat{ygot.Internal, ygot.RFC7951}).Draw(rt, "format"),
				RFC7951Config:  genRFC7951(rt, "rfc", true),
				Indent:         rapid.SampledFrom([]string{"", "  ", "\t"}).Draw(rt, "indent"),
				EscapeHTML:     rapid.Bool().Draw(rt, "html"),
				SkipValidation: rapid.Bool().Draw(rt, "skipval"),
				ValidationOpts: genValidationOpts(rt, "vopts"),
			}
			c.opt("config", cfg)
		} else {
			c.note("config = nil")
		}
		return func() {
			s, err := ygot.EmitJSON(gs, cfg)
			c.ok = err == nil
			c.result = fmt.Sprintf("%d bytes, err=%v", len(s), err)
		}

	case "ConstructIETFJSON", "ConstructInternalJSON":
		gs := c.tree("root", m)
		sites := goSites(m, gs)
		site := sites[rapid.IntRange(0, len(sites)-1).Draw(rt, "site")]
		c.note("at %s", model.ElemsID(site.S.Elems))
		c.nonEmpty = leafCount(site.S.N) > 0
		if c.api == "ConstructInternalJSON" {
			return func() {
				j, err := ygot.ConstructInternalJSON(site.GS)
				c.ok = err == nil
				c.result = fmt.Sprintf("%d members, err=%v", len(j), err)
			}
		}
		cfg := genRFC7951(rt, "rfc", true)
		if cfg != nil {
			c.opt("config", cfg)
		} else {
			c.note("config = nil")
		}
		return func() {
			j, err := ygot.ConstructIETFJSON(site.GS, cfg)
			c.ok = err == nil
			c.result = fmt.Sprintf("%d members, err=%v", len(j), err)
		}

	case "Marshal7951":
		gs := c.tree("root", m)
		sites := goSites(m, gs)
		site := sites[rapid.IntRange(0, len(sites)-1).Draw(rt, "site")]
		var d interface{} = site.GS
		what := "struct"
		// sometimes a leaf / leaf-list / list value of that struct instead of the struct
		if fs := populatedFields(site.S.N); len(fs) > 0 && rapid.IntRange(0, 2).Draw(rt, "field") == 0 {
			f := fs[rapid.IntRange(0, len(fs)-1).Draw(rt, "which")]
			d = leafGoValue(site.GS, f)
			what = "field " + f.Name + " (" + f.Kind.String() + ")"
		}
		c.note("value: %s at %s", what, model.ElemsID(site.S.Elems))
		c.nonEmpty = leafCount(site.S.N) > 0
		var args []ygot.Marshal7951Arg
		if cfg := genRFC7951(rt, "rfc", true); cfg != nil {
			c.opt("config", cfg)
			args = append(args, cfg)
		}
		if ind := rapid.SampledFrom([]string{"", "", "  "}).Draw(rt, "indent"); ind != "" {
			args = append(args, ygot.JSONIndent(ind))
			c.note("indent %q", ind)
		}
		return func() {
			b, err := ygot.Marshal7951(d, args...)
			c.ok = err == nil
			c.result = fmt.Sprintf("%d bytes, err=%v", len(b), err)
		}

	case "TogNMINotifications":
		gs := c.tree("root", m)
		sites := goSites(m, gs)
		site := sites[0]
		if rapid.Bool().Draw(rt, "subtree") {
			site = sites[rapid.IntRange(0, len(sites)-1).Draw(rt, "site")]
		}
		c.nonEmpty = leafCount(site.S.N) > 0
		cfg := ygot.GNMINotificationsConfig{UsePathElem: rapid.Bool().Draw(rt, "pathelem")}
		// the prefix slices have spare capacity holding sentinels: memory the caller owns
		pe := model.PathProto(site.S.Elems).Elem
		fullPE := append(append([]*gpb.PathElem(nil), pe...), &gpb.PathElem{Name: "SENTINEL-1"}, &gpb.PathElem{Name: "SENTINEL-2", Key: map[string]string{"k": "v"}})
		var ss []string
		for _, e := range site.S.Elems {
			ss = append(ss, e.Name)
			for _, k := range sortedKeysVal(e.Keys) {
				ss = append(ss, model.KeyString(e.Keys[k]))
			}
		}
		fullSS := append(append([]string(nil), ss...), "SENTINEL-1", "SENTINEL-2")
		if cfg.UsePathElem {
			cfg.PathElemPrefix = fullPE[:len(pe)]
		} else {
			cfg.StringSlicePrefix = fullSS[:len(ss)]
		}
		c.note("subtree at %s", model.ElemsID(site.S.Elems))
		c.opt("config", &cfg)
		c.opt("backing array of PathElemPrefix (incl. spare capacity)", &fullPE)
		c.opt("backing array of StringSlicePrefix (incl. spare capacity)", &fullSS)
		return func() {
			ns, err := ygot.TogNMINotifications(site.GS, 42, cfg)
			c.ok = err == nil
			c.result = fmt.Sprintf("%d notifications, err=%v", len(ns), err)
		}

	case "EncodeTypedValue":
		gs := c.tree("root", m)
		sites := goSites(m, gs)
		site := sites[rapid.IntRange(0, len(sites)-1).Draw(rt, "site")]
		var val interface{} = site.GS
		isStruct := true
		what := "struct"
		if fs := populatedFields(site.S.N); len(fs) > 0 && rapid.IntRange(0, 2).Draw(rt, "field") > 0 {
			f := fs[rapid.IntRange(0, len(fs)-1).Draw(rt, "which")]
			val = leafGoValue(site.GS, f)
			isStruct = f.Kind == model.FOrdList
			what = "field " + f.Name + " (" + f.Kind.String() + ")"
		}
		enc := rapid.SampledFrom([]gpb.Encoding{gpb.Encoding_JSON_IETF, gpb.Encoding_JSON_IETF, gpb.Encoding_JSON, gpb.Encoding_PROTO}).Draw(rt, "enc")
		cfg := genRFC7951(rt, "rfc", true)
		var opts []ygot.EncodeTypedValueOpt
		cfgAppend := false
		var cfgBefore interface{}
		if cfg != nil {
			cfgAppend = cfg.AppendModuleName
			cfgBefore = deepClone(cfg)
			c.opt("config", cfg)
			opts = append(opts, cfg)
		} else {
			c.note("config = nil")
		}
		c.note("value: %s at %s, encoding %s", what, model.ElemsID(site.S.Elems), enc)
		c.nonEmpty = leafCount(site.S.N) > 0
		c.classes = append(c.classes, "encode:"+enc.String(), fmt.Sprintf("encode-struct:%v", isStruct), fmt.Sprintf("encode-cfg:%v", cfg != nil))
		c.excuser = func(g guard, detail string) bool {
			// F15: only AppendModuleName flipped from false to true, JSON_IETF encoding of a struct / ordered list
			if g.name != "config" || cfg == nil || enc != gpb.Encoding_JSON_IETF || !isStruct || cfgAppend || !cfg.AppendModuleName {
				return false
			}
			restored := *cfg
			restored.AppendModuleName = false
			return c.rec.Excuse(F15Cfg, optEqual(cfgBefore, &restored))
		}
		return func() {
			tv, err := ygot.EncodeTypedValue(val, enc, opts...)
			c.ok = err == nil && tv != nil
			c.result = fmt.Sprintf("%s, err=%v", th.Trunc(textProto(tv), 200), err)
		}

	case "Diff", "DiffWithAtomic":
		a := c.tree("original", m)
		var mb *model.Node
		rel := rapid.SampledFrom([]string{"subset", "edited", "independent", "same"}).Draw(rt, "relation")
		switch rel {
		case "subset":
			mb = subsetTree(rt, m, 25)
		case "edited":
			mb = model.GenTree(rt, v, model.GenOpts{NoUnkeyed: true, Sparse: true})
			mb = overlay(m, mb)
		case "independent":
			mb = model.GenTree(rt, v, treeOpts(rt, "tree2"))
		default:
			mb = m.Clone()
		}
		b := c.tree("modified", mb)
		c.classes = append(c.classes, "diff:"+rel)
		var opts []ygot.DiffOpt
		switch rapid.IntRange(0, 4).Draw(rt, "opts") {
		case 4:
			// the same kind of option twice (the later one may be merged into the first)
			o1 := &ygot.DiffPathOpt{MapToSinglePath: rapid.Bool().Draw(rt, "single1"), PreferShadowPath: rapid.Bool().Draw(rt, "shadow1")}
			o2 := &ygot.DiffPathOpt{MapToSinglePath: rapid.Bool().Draw(rt, "single2"), PreferShadowPath: rapid.Bool().Draw(rt, "shadow2")}
			opts = append(opts, o1, o2)
			c.opt("opt DiffPathOpt (first)", o1)
			c.opt("opt DiffPathOpt (second)", o2)
		case 1:
			o := &ygot.IgnoreAdditions{}
			opts = append(opts, o)
			c.opt("opt IgnoreAdditions", o)
		case 2:
			o := &ygot.DiffPathOpt{MapToSinglePath: rapid.Bool().Draw(rt, "single"), PreferShadowPath: rapid.Bool().Draw(rt, "shadow")}
			opts = append(opts, o)
			c.opt("opt DiffPathOpt", o)
		case 3:
			o1, o2 := &ygot.DiffPathOpt{MapToSinglePath: true}, &ygot.IgnoreAdditions{}
			opts = append(opts, o1, o2)
			c.opt("opt DiffPathOpt", o1)
			c.opt("opt IgnoreAdditions", o2)
		}
		c.nonEmpty = leafCount(m) > 0 && leafCount(mb) > 0
		if c.api == "Diff" {
			return func() {
				n, err := ygot.Diff(a, b, opts...)
				c.ok = err == nil
				c.result = fmt.Sprintf("%d updates %d deletes, err=%v", len(n.GetUpdate()), len(n.GetDelete()), err)
			}
		}
		return func() {
			ns, err := ygot.DiffWithAtomic(a, b, opts...)
			c.ok = err == nil
			c.result = fmt.Sprintf("%d notifications, err=%v", len(ns), err)
		}

	case "DeepCopy":
		gs := c.tree("root", m)
		sites := goSites(m, gs)
		site := sites[0]
		if rapid.Bool().Draw(rt, "subtree") {
			site = sites[rapid.IntRange(0, len(sites)-1).Draw(rt, "site")]
		}
		c.note("at %s", model.ElemsID(site.S.Elems))
		c.nonEmpty = leafCount(site.S.N) > 0
		return func() {
			cp, err := ygot.DeepCopy(site.GS)
			c.ok = err == nil && cp != nil
			c.result = fmt.Sprintf("err=%v", err)
		}

	case "MergeStructs":
		a := c.tree("a", m)
		var mb *model.Node
		var opts []ygot.MergeOpt
		rel := rapid.SampledFrom([]string{"subset", "subset", "independent-overwrite", "independent"}).Draw(rt, "relation")
		switch rel {
		case "subset":
			mb = subsetTree(rt, m, 40)
		default:
			mb = model.GenTree(rt, v, model.GenOpts{NoOrdered: true, NoUnkeyed: true})
			if rel == "independent-overwrite" {
				o := &ygot.MergeOverwriteExistingFields{}
				opts = append(opts, o)
				c.opt("opt MergeOverwriteExistingFields", o)
			}
		}
		if rapid.IntRange(0, 3).Draw(rt, "emptymaps") == 0 {
			o := &ygot.MergeEmptyMaps{}
			opts = append(opts, o)
			c.opt("opt MergeEmptyMaps", o)
		}
		b := c.tree("b", mb)
		swap := rapid.Bool().Draw(rt, "swap")
		c.note("relation %s, swapped %v", rel, swap)
		c.classes = append(c.classes, "merge:"+rel)
		c.nonEmpty = leafCount(m) > 0 && leafCount(mb) > 0
		return func() {
			x, y := a, b
			if swap {
				x, y = b, a
			}
			r, err := ygot.MergeStructs(x, y, opts...)
			c.ok = err == nil && r != nil
			c.result = fmt.Sprintf("err=%v", err)
		}

	case "ytypes.Unmarshal", "generated.Unmarshal":
		doc := model.RenderJSON(m, model.JSONOpts{Prefix: rapid.Bool().Draw(rt, "prefix"), AllAlts: rapid.IntRange(0, 3).Draw(rt, "allalts") == 0})
		var root ygot.GoStruct
		if rapid.IntRange(0, 2).Draw(rt, "fresh") > 0 {
			root = v.NewRoot()
			c.note("target: empty root")
		} else {
			base := model.GenTree(rt, v, model.GenOpts{NoOrdered: true, NoUnkeyed: true, Sparse: true})
			root = model.Build(base)
			c.note("%s", describeTree("target root (is meant to be written)", v, base))
		}
		var opts []ytypes.UnmarshalOpt
		optName := rapid.SampledFrom([]string{"none", "none", "ignore-extra", "shadow"}).Draw(rt, "opt")
		switch optName {
		case "ignore-extra":
			opts = append(opts, &ytypes.IgnoreExtraFields{})
		case "shadow":
			opts = append(opts, &ytypes.PreferShadowPath{})
		}
		c.note("opts = %s", optName)
		c.note("document = %s", th.Trunc(string(doc), 3000))
		if c.api == "generated.Unmarshal" {
			orig := append([]byte(nil), doc...)
			full := append(doc, []byte("SENTINEL")...)
			arg := full[:len(doc)]
			c.guards = append(c.guards, guard{name: "JSON bytes", check: func() (bool, string) {
				if bytes.Equal(full[:len(orig)], orig) && string(full[len(orig):]) == "SENTINEL" {
					return true, ""
				}
				return false, fmt.Sprintf("before: %s\nafter:  %s", orig, full)
			}})
			return func() {
				err := v.Unmarshal(arg, root, opts...)
				c.ok = err == nil
				c.result = fmt.Sprintf("err=%v", err)
			}
		}
		var tree interface{}
		if err := json.Unmarshal(doc, &tree); err != nil {
			panic("HARNESS-BUG: harness JSON does not parse: " + err.Error())
		}
		snapshot := cloneJSON(tree)
		c.guards = append(c.guards, guard{name: "decoded JSON value", check: func() (bool, string) {
			if reflect.DeepEqual(tree, snapshot) {
				return true, ""
			}
			b1, _ := json.Marshal(snapshot)
			b2, _ := json.Marshal(tree)
			return false, fmt.Sprintf("before: %s\nafter:  %s", b1, b2)
		}})
		return func() {
			err := ytypes.Unmarshal(rootEntry(v), root, tree, opts...)
			c.ok = err == nil
			c.result = fmt.Sprintf("err=%v", err)
		}

	case "SetNode":
		var root ygot.GoStruct
		if rapid.Bool().Draw(rt, "fresh") {
			root = v.NewRoot()
			c.note("target: empty root")
		} else {
			root = model.Build(m)
			c.note("%s", describeTree("target root (is meant to be written)", v, m))
		}
		insts := leafInsts(m, true)
		sites := sitesOf(m)
		var path *gpb.Path
		var tv *gpb.TypedValue
		form := "scalar"
		tolerate := rapid.Bool().Draw(rt, "tolerate")
		intForUint := false
		if len(insts) == 0 || rapid.IntRange(0, 5).Draw(rt, "struct") == 0 {
			s := sites[rapid.IntRange(0, len(sites)-1).Draw(rt, "site")]
			path = model.PathProto(s.Elems)
			tv = model.JSONIETFTV(model.RenderJSON(s.N, model.JSONOpts{Prefix: rapid.Bool().Draw(rt, "prefix")}))
			form = "json-struct"
			c.nonEmpty = leafCount(s.N) > 0
		} else {
			// prefer unsigned leaves half of the time: they are the domain of the tolerance option
			cands := insts
			if rapid.Bool().Draw(rt, "unsigned") {
				var us []model.Inst
				for _, in := range insts {
					if in.F.Kind == model.FLeaf && in.V.K.Unsigned() {
						us = append(us, in)
					}
				}
				if len(us) > 0 {
					cands = us
				}
			}
			in := cands[rapid.IntRange(0, len(cands)-1).Draw(rt, "leaf")]
			path = model.PathProto(in.Elems)
			tv = instTV(in)
			switch rapid.IntRange(0, 4).Draw(rt, "form") {
			case 0:
				tv, form = jsonScalarTV(in, rapid.Bool().Draw(rt, "prefix")), "json-scalar"
			case 1, 2:
				if in.F.Kind == model.FLeaf {
					if x, ok := intForUintTV(in.V); ok {
						tv, form, intForUint = x, "int-for-uint", true
					}
				}
			}
			c.nonEmpty = true
		}
		opts := []ytypes.SetNodeOpt{}
		if rapid.IntRange(0, 9).Draw(rt, "init") > 0 {
			opts = append(opts, &ytypes.InitMissingElements{})
			c.note("opt InitMissingElements")
		}
		if tolerate {
			opts = append(opts, &ytypes.TolerateJSONInconsistencies{})
			c.note("opt TolerateJSONInconsistencies")
		}
		if rapid.IntRange(0, 5).Draw(rt, "shadow") == 0 {
			opts = append(opts, &ytypes.PreferShadowPath{})
			c.note("opt PreferShadowPath")
		}
		c.classes = append(c.classes, "setnode:"+form, fmt.Sprintf("setnode-tolerate:%v", tolerate))
		c.msg("path", path)
		before := proto.Clone(tv).(*gpb.TypedValue)
		c.msg("value", tv)
		c.excuser = func(g guard, detail string) bool {
			// F15: int_val n >= 0 rewritten in place to uint_val n under the tolerance option
			if g.name != "value" || !tolerate || !intForUint {
				return false
			}
			bi, wasInt := before.Value.(*gpb.TypedValue_IntVal)
			au, isUint := tv.Value.(*gpb.TypedValue_UintVal)
			return c.rec.Excuse(F15TV, wasInt && isUint && bi.IntVal >= 0 && uint64(bi.IntVal) == au.UintVal)
		}
		return func() {
			err := ytypes.SetNode(rootEntry(v), root, path, tv, opts...)
			c.ok = err == nil
			c.result = fmt.Sprintf("err=%v", err)
		}

	case "UnmarshalSetRequest":
		var root ygot.GoStruct
		if rapid.Bool().Draw(rt, "fresh") {
			root = v.NewRoot()
			c.note("target: empty root")
		} else {
			base := model.GenTree(rt, v, model.GenOpts{NoOrdered: true, NoUnkeyed: true, Sparse: true})
			root = model.Build(base)
			c.note("%s", describeTree("target root (is meant to be written)", v, base))
		}
		ri := genSetRequest(rt, v, m, reqOpts{MaxLeaf: 6, MaxJSON: 2, MaxDel: 2, MaxRep: 1, Prefix: true}, "req")
		var opts []ytypes.UnmarshalOpt
		optName := rapid.SampledFrom([]string{"none", "none", "ignore-extra", "shadow", "best-effort"}).Draw(rt, "opt")
		switch optName {
		case "ignore-extra":
			opts = append(opts, &ytypes.IgnoreExtraFields{})
		case "shadow":
			opts = append(opts, &ytypes.PreferShadowPath{})
		case "best-effort":
			opts = append(opts, &ytypes.BestEffortUnmarshal{})
		}
		c.note("opts = %s", optName)
		c.msg("request", ri.Req)
		c.nonEmpty = ri.TotalOps > 0
		sch := schemaWith(v, root)
		return func() {
			err := ytypes.UnmarshalSetRequest(sch, ri.Req, opts...)
			c.ok = err == nil
			c.result = fmt.Sprintf("err=%v", err)
		}

	case "gnmidiff.DiffSetRequest", "gnmidiff.DiffSetRequestToNotifications":
		// plain strings: key values with '/', ']' or '\' fail in gnmidiff's own path string round trip (F10, C08)
		mp := model.GenTree(rt, v, model.GenOpts{NoUnkeyed: true, PlainStrings: true, Sparse: rapid.Bool().Draw(rt, "sparse")})
		c.note("%s", describeTree("payload tree (the requests are rendered from it)", v, mp))
		ro := reqOpts{MaxLeaf: 5, MaxJSON: 2, MaxDel: 1, MaxRep: 1, Prefix: true, NoLLTwice: true, NoRootDoc: true}
		ra := genSetRequest(rt, v, mp, ro, "reqA")
		var sch *ytypes.Schema
		var schemaRoot *model.Node
		withSchema := rapid.IntRange(0, 3).Draw(rt, "schema") > 0
		if withSchema {
			schemaRoot = m
			if rapid.Bool().Draw(rt, "emptyroot") {
				schemaRoot = model.NewNode(v.Root)
			}
			sch = freshSchemaWith(v, c.tree("schema.Root", schemaRoot))
		} else {
			c.note("schema = nil")
		}
		c.msg("request A", ra.Req)
		c.classes = append(c.classes, fmt.Sprintf("gnmidiff-schema:%v", withSchema))
		nonLeaf := ra.NonLeafOps
		c.excuser = func(g guard, detail string) bool {
			// F15: nodes created in schema.Root by GetOrCreateNode for non-leaf targets; nothing lost or changed
			if g.name != "schema.Root" || nonLeaf == 0 {
				return false
			}
			got := model.LeafMap(model.Observe(v, sch.Root), model.InstOpts{})
			for id, val := range model.LeafMap(schemaRoot, model.InstOpts{}) {
				if got[id] != val {
					return false
				}
			}
			return c.rec.Excuse(F15Root, true)
		}
		if c.api == "gnmidiff.DiffSetRequest" {
			var rb *reqInfo
			if rapid.Bool().Draw(rt, "sameB") {
				rb = genSetRequest(rt, v, mp, ro, "reqB")
			} else {
				mp2 := model.GenTree(rt, v, model.GenOpts{NoUnkeyed: true, PlainStrings: true, Sparse: true})
				rb = genSetRequest(rt, v, mp2, ro, "reqB")
			}
			nonLeaf += rb.NonLeafOps
			c.msg("request B", rb.Req)
			c.nonEmpty = ra.TotalOps > 0 && rb.TotalOps > 0
			return func() {
				d, err := gnmidiff.DiffSetRequest(ra.Req, rb.Req, sch)
				c.ok = err == nil
				c.result = fmt.Sprintf("common=%d missing=%d extra=%d mismatched=%d err=%v", len(d.CommonUpdates), len(d.MissingUpdates), len(d.ExtraUpdates), len(d.MismatchedUpdates), err)
			}
		}
		ns := notifsFor(rt, mp, 12, "notifs")
		if rapid.IntRange(0, 3).Draw(rt, "jsonnotif") == 0 {
			// a notification carrying a JSON document at a container: legal input for the diff
			if ss := sitesOf(mp); len(ss) > 1 {
				s := ss[rapid.IntRange(1, len(ss)-1).Draw(rt, "notifsite")]
				ns = append(ns, &gpb.Notification{Timestamp: 44, Update: []*gpb.Update{{Path: model.PathProto(s.Elems),
					Val: model.JSONIETFTV(model.RenderJSON(s.N, model.JSONOpts{Prefix: true}))}}})
				nonLeaf++
			}
		}
		c.msgs("notification", ns)
		c.nonEmpty = ra.TotalOps > 0 && len(ns) > 0
		return func() {
			d, err := gnmidiff.DiffSetRequestToNotifications(ra.Req, ns, sch)
			c.ok = err == nil
			c.result = fmt.Sprintf("common=%d missing=%d extra=%d mismatched=%d err=%v", len(d.CommonUpdates), len(d.MissingUpdates), len(d.ExtraUpdates), len(d.MismatchedUpdates), err)
		}
	}
	panic("HARNESS-BUG: unknown api " + c.api)
}

// populatedFields lists the leaf, leaf-list and ordered-list fields of n that hold data.
func populatedFields(n *model.Node) []*model.FieldInfo {
	var out []*model.FieldInfo
	for _, f := range n.SI.Fields {
		switch f.Kind {
		case model.FLeaf:
			if _, ok := n.Leaf[f.Name]; ok {
				out = append(out, f)
			}
		case model.FLeafList:
			if len(n.LL[f.Name]) > 0 {
				out = append(out, f)
			}
		case model.FOrdList:
			if len(n.List[f.Name]) > 0 {
				out = append(out, f)
			}
		}
	}
	return out
}

// overlay returns a copy of base with the leaves and leaf-lists of the top-level containers of edit
// written over it where the containers exist in both (a cheap "k-edit" relative of base).
func overlay(base, edit *model.Node) *model.Node {
	out := base.Clone()
	var walk func(dst, src *model.Node)
	walk = func(dst, src *model.Node) {
		for _, f := range dst.SI.Fields {
			switch f.Kind {
			case model.FLeaf:
				if v, ok := src.Leaf[f.Name]; ok && !f.IsKey && f.Type.Leafref == "" {
					dst.Leaf[f.Name] = v
				}
			case model.FLeafList:
				if l, ok := src.LL[f.Name]; ok && f.Type.Leafref == "" {
					dst.LL[f.Name] = l
				}
			case model.FCont:
				if d, ok := dst.Cont[f.Name]; ok {
					if s, ok := src.Cont[f.Name]; ok {
						walk(d, s)
					}
				}
			}
		}
	}
	walk(out, edit.Clone())
	return out.Normalize()
}

func sortedKeysStr(m map[string]string) []string {
	ks := make([]string, 0, len(m))
	for k := range m {
		ks = append(ks, k)
	}
	sort.Strings(ks)
	return ks
}

func sortedKeysVal(m map[string]model.Val) []string {
	ks := make([]string, 0, len(m))
	for k := range m {
		ks = append(ks, k)
	}
	sort.Strings(ks)
	return ks
}
