// Package t3 holds the validation-related tree checks: C07 (Validate accepts exactly schema-valid
// trees), C30 (leafref validation), C32 (PruneConfigFalse) and C33 (PopulateDefaults).
package t3

import (
	"fmt"
	"math/big"
	"os"
	"reflect"
	"regexp"
	"sort"
	"strings"
	"sync"
	"testing"
	"unicode/utf8"

	"github.com/openconfig/goyang/pkg/yang"
	"github.com/openconfig/ygot/ygot"
	"github.com/openconfig/ygot/ytypes"
	"pgregory.net/rapid"
	"verifharness/ev"
	"verifharness/model"
	"verifharness/variants"
)

// ---- ids of the findings these checks meet -----------------------------------------------------------

const (
	fEnumID    = "F12-undefined-enum"
	fDupLLID   = "F12-dup-leaflist"
	fLLBoundID = "F12-leaflist-bounds"
	fUnionBDID = "F27-union-bool-decimal"
	fInt64ID   = "F1-int64-list-key"
	fDefCaseID = "F20-defaults-all-cases"
	fLrOptID   = "F50-leafref-options-swallow"
	fWKeyID    = "F51-wrapper-union-key-identity"
	fLLZeroID  = "F52-leafref-leaflist-zero-member"
	fLrStarID  = "F92-leafref-predicate-star-operand"
)

// ---- Validate plumbing -------------------------------------------------------------------------------

type validator interface {
	Validate(...ygot.ValidationOption) error
}

// validate calls the generated Validate method of the root struct.
func validate(gs ygot.GoStruct, opts ...ygot.ValidationOption) error {
	return gs.(validator).Validate(opts...)
}

func ignoreMissing() ygot.ValidationOption { return &ytypes.LeafrefOptions{IgnoreMissingData: true} }

// errLines splits a Validate error into its individual error lines (util.Errors joins with newlines;
// lines ending in "/" are the choice headers validateContainer inserts and carry no verdict).
func errLines(err error) []string {
	if err == nil {
		return nil
	}
	var out []string
	for _, l := range strings.Split(err.Error(), "\n") {
		l = strings.TrimSpace(l)
		if l == "" {
			continue
		}
		out = append(out, l)
	}
	return out
}

func isChoiceHeader(l string) bool { return strings.HasSuffix(l, "/") }

func errStr(err error) string {
	if err == nil {
		return "<nil>"
	}
	return err.Error()
}

// ---- signatures of the open findings (error lines) ---------------------------------------------------

func sigF27(l string) bool {
	return (strings.Contains(l, "expect Bool for empty type") && strings.Contains(l, "have type union")) ||
		(strings.Contains(l, "non bool type") && strings.Contains(l, "UnionBool")) ||
		(strings.Contains(l, "non float64 type") && strings.Contains(l, "UnionFloat64"))
}

func sigF51(l string) bool {
	return strings.Contains(l, "!= map key") || strings.Contains(l, "has different value from map key")
}

func sigLeafref(l string) bool {
	return strings.Contains(l, "not equal to any target nodes") || strings.Contains(l, "is empty set")
}

func sigMultiCase(l string) bool {
	return strings.Contains(l, "multiple cases") && strings.Contains(l, "selected for choice")
}

// ---- trigger regions ----------------------------------------------------------------------------------

// isF27Val: a boolean or decimal64 member value in a simple (non-wrapper) union.
func isF27Val(f *model.FieldInfo, v model.Val) bool {
	return !f.Owner.V.Wrapper && f.ElemUnion && (v.K == model.KBool || v.K == model.KDec)
}

// strip removes every leaf, leaf-list element and keyed entry (by key) whose value satisfies pred and
// returns how many were removed. The tree is normalised afterwards.
func strip(n *model.Node, pred func(*model.FieldInfo, model.Val) bool) int {
	cnt := stripRec(n, pred)
	n.Normalize()
	return cnt
}

func stripRec(n *model.Node, pred func(*model.FieldInfo, model.Val) bool) int {
	if n == nil {
		return 0
	}
	cnt := 0
	for _, f := range n.SI.Fields {
		switch f.Kind {
		case model.FLeaf:
			if v, ok := n.Leaf[f.Name]; ok && !f.IsKey && pred(f, v) {
				delete(n.Leaf, f.Name)
				cnt++
			}
		case model.FLeafList:
			l, ok := n.LL[f.Name]
			if !ok {
				continue
			}
			var keep []model.Val
			for _, v := range l {
				if pred(f, v) {
					cnt++
				} else {
					keep = append(keep, v)
				}
			}
			if len(keep) == 0 || uint64(len(keep)) < f.Min {
				delete(n.LL, f.Name)
			} else {
				n.LL[f.Name] = keep
			}
		case model.FCont:
			cnt += stripRec(n.Cont[f.Name], pred)
		case model.FList, model.FOrdList:
			var keep []*model.Entry
			for _, e := range n.List[f.Name] {
				bad := false
				for i, k := range e.Key {
					if i < len(f.KeyFields) && pred(f.KeyFields[i], k) {
						bad = true
					}
				}
				if bad {
					cnt++
					continue
				}
				cnt += stripRec(e.N, pred)
				keep = append(keep, e)
			}
			if len(keep) == 0 || uint64(len(keep)) < f.Min {
				delete(n.List, f.Name)
			} else {
				n.List[f.Name] = keep
			}
		case model.FUList:
			for _, e := range n.UList[f.Name] {
				cnt += stripRec(e, pred)
			}
		}
	}
	return cnt
}

// ---- walking -----------------------------------------------------------------------------------------

// site is one node of a tree with where it sits.
type site struct {
	N       *model.Node
	Depth   int
	InEntry bool
	Path    string
}

// nodes lists every struct instance of the tree in schema order.
func nodes(m *model.Node) []site {
	var out []site
	var rec func(n *model.Node, d int, inE bool, p string)
	rec = func(n *model.Node, d int, inE bool, p string) {
		if n == nil {
			return
		}
		out = append(out, site{n, d, inE, p})
		for _, f := range n.SI.Fields {
			switch f.Kind {
			case model.FCont:
				if c, ok := n.Cont[f.Name]; ok {
					rec(c, d+1, inE, p+"/"+f.Name)
				}
			case model.FList, model.FOrdList:
				for _, e := range n.List[f.Name] {
					rec(e.N, d+1, true, p+"/"+f.Name+"["+model.KeyCanon(e.Key)+"]")
				}
			case model.FUList:
				for i, e := range n.UList[f.Name] {
					rec(e, d+1, true, fmt.Sprintf("%s/%s[#%d]", p, f.Name, i))
				}
			}
		}
	}
	rec(m, 0, false, "")
	return out
}

// allStructs lists the struct infos of a variant in a fixed order.
func allStructs(v *model.Variant) []*model.StructInfo {
	v.MustInit()
	var out []*model.StructInfo
	seen := map[*model.StructInfo]bool{}
	var rec func(si *model.StructInfo)
	rec = func(si *model.StructInfo) {
		if seen[si] {
			return
		}
		seen[si] = true
		out = append(out, si)
		for _, f := range si.Fields {
			if f.Child != nil {
				rec(f.Child)
			}
		}
	}
	rec(v.Root)
	return out
}

var (
	tgtMu    sync.Mutex
	tgtCache = map[*model.Variant]map[*yang.Entry]bool{}
)

// leafrefTargets returns the schema entries some leafref of the variant points at.
func leafrefTargets(v *model.Variant) map[*yang.Entry]bool {
	tgtMu.Lock()
	defer tgtMu.Unlock()
	if m, ok := tgtCache[v]; ok {
		return m
	}
	m := map[*yang.Entry]bool{}
	for _, si := range allStructs(v) {
		for _, f := range si.Fields {
			if f.Type != nil && f.Type.Target != nil {
				m[f.Type.Target] = true
			}
		}
	}
	tgtCache[v] = m
	return m
}

// subtreeHas reports whether field f, or some field below it, satisfies pred (for GenOpts.Want).
func subtreeHas(f *model.FieldInfo, pred func(*model.FieldInfo) bool, memo map[*model.FieldInfo]bool) bool {
	if r, ok := memo[f]; ok {
		return r
	}
	memo[f] = false
	r := pred(f)
	if !r && f.Child != nil {
		for _, c := range f.Child.Fields {
			if subtreeHas(c, pred, memo) {
				r = true
				break
			}
		}
	}
	memo[f] = r
	return r
}

// ---- wrapper-union keys --------------------------------------------------------------------------------

// aliasUnionKeys makes, for every keyed-list entry of the struct tree whose map key holds a wrapper
// union (an interface holding a pointer), the entry's key leaf hold the very same interface value as
// the map key when the two are deeply equal. This is the shape every ygot-made tree has (New<List>,
// Append, Unmarshal store one value in both places); model.Build makes two equal but distinct
// pointers, which checkKeys compares by identity (finding F51).
func aliasUnionKeys(gs ygot.GoStruct) int {
	return aliasRec(reflect.ValueOf(gs))
}

func aliasRec(pv reflect.Value) int {
	if pv.Kind() != reflect.Ptr || pv.IsNil() || pv.Elem().Kind() != reflect.Struct {
		return 0
	}
	cnt := 0
	sv := pv.Elem()
	for i := 0; i < sv.NumField(); i++ {
		fv := sv.Field(i)
		switch {
		case fv.Kind() == reflect.Ptr && fv.Type().Elem().Kind() == reflect.Struct && !model.IsOrderedMapType(fv.Type()):
			cnt += aliasRec(fv)
		case fv.Kind() == reflect.Map:
			it := fv.MapRange()
			for it.Next() {
				k, e := it.Key(), it.Value()
				if e.IsNil() {
					continue
				}
				cnt += aliasKey(k, e.Elem())
				cnt += aliasRec(e)
			}
		case fv.Kind() == reflect.Slice && fv.Type().Elem().Kind() == reflect.Ptr && fv.Type().Elem().Elem().Kind() == reflect.Struct:
			for j := 0; j < fv.Len(); j++ {
				cnt += aliasRec(fv.Index(j))
			}
		}
	}
	return cnt
}

// aliasKey aligns the interface-typed key leaves of entry struct ev with map key k.
func aliasKey(k reflect.Value, ev reflect.Value) int {
	cnt := 0
	set := func(kv reflect.Value, keyName string) {
		if kv.Kind() != reflect.Interface || kv.IsNil() || kv.Elem().Kind() != reflect.Ptr {
			return
		}
		for i := 0; i < ev.NumField(); i++ {
			sf := ev.Type().Field(i)
			if sf.Type != kv.Type() {
				continue
			}
			match := false
			for _, p := range strings.Split(sf.Tag.Get("path"), "|") {
				if p == keyName {
					match = true
				}
			}
			if !match {
				continue
			}
			fv := ev.Field(i)
			if !fv.IsNil() && fv.Elem().Kind() == reflect.Ptr && fv.Elem().Pointer() != kv.Elem().Pointer() &&
				reflect.DeepEqual(fv.Interface(), kv.Interface()) {
				fv.Set(kv)
				cnt++
			}
		}
	}
	if k.Kind() == reflect.Struct {
		for j := 0; j < k.NumField(); j++ {
			set(k.Field(j), k.Type().Field(j).Tag.Get("path"))
		}
		return cnt
	}
	// single key: the key leaf is the field whose path tag names a key of the list; without the
	// schema at hand, align every field of the same interface type that is deeply equal.
	if k.Kind() == reflect.Interface && !k.IsNil() && k.Elem().Kind() == reflect.Ptr {
		for i := 0; i < ev.NumField(); i++ {
			fv := ev.Field(i)
			if fv.Type() != k.Type() || fv.IsNil() || fv.Elem().Kind() != reflect.Ptr {
				continue
			}
			if fv.Elem().Pointer() != k.Elem().Pointer() && reflect.DeepEqual(fv.Interface(), k.Interface()) {
				fv.Set(k)
				cnt++
			}
		}
	}
	return cnt
}

// hasWrapperUnionKey: the tree holds an entry of a list one of whose keys is a wrapper union.
func hasWrapperUnionKey(m *model.Node) bool {
	return m.AnyVal(func(f *model.FieldInfo, v model.Val) bool { return f.IsKey && f.ElemUnion && f.Owner.V.Wrapper })
}

// build builds the GoStruct of m; for wrapper-union variants the key leaves are aliased with the map
// keys unless keepDistinct is set.
func build(v *model.Variant, m *model.Node, keepDistinct bool) ygot.GoStruct {
	gs := model.Build(m)
	if v.Wrapper && !keepDistinct {
		aliasUnionKeys(gs)
	}
	return gs
}

// ---- witnesses ---------------------------------------------------------------------------------------

func vt(name string) (*model.Variant, *model.Node, *model.Node) {
	v := variants.Get(name)
	v.MustInit()
	root := model.NewNode(v.Root)
	top := child(root, "Top")
	return v, root, top
}

// child returns (creating) container field name below n.
func child(n *model.Node, name string) *model.Node {
	f := n.SI.ByName[name]
	if f == nil || f.Kind != model.FCont {
		panic("HARNESS-BUG: no container field " + name + " in " + n.SI.T.Name())
	}
	c := n.Cont[name]
	if c == nil {
		c = model.NewNode(f.Child)
		n.Cont[name] = c
	}
	return c
}

func mustField(n *model.Node, name string) *model.FieldInfo {
	f := n.SI.ByName[name]
	if f == nil {
		panic("HARNESS-BUG: no field " + name + " in " + n.SI.T.Name())
	}
	return f
}

func str(s string) model.Val { return model.Val{K: model.KStr, S: s} }

// enumByName returns the value of the named member of an enumerated leaf type.
func enumByName(lt *model.LType, name string) model.Val {
	for _, m := range lt.Enum {
		if m.Name == name {
			return model.EnumVal(lt, m)
		}
	}
	panic("HARNESS-BUG: no enum member " + name)
}

// undefinedEnum returns a Go value of lt's enum type that ΛEnum does not define.
func undefinedEnum(lt *model.LType, off int64) model.Val {
	max := int64(0)
	for _, m := range lt.Enum {
		if m.GoVal > max {
			max = m.GoVal
		}
	}
	return model.Val{K: model.KEnum, I: max + 1 + off, S: "<undefined>", ET: lt.GoEnum, Ident: lt.Ident}
}

func witnessF12Enum(rec *ev.Rec) {
	rec.Witness(fEnumID, func() (bool, string) {
		_, root, top := vt("vtu")
		f := mustField(top, "Colour")
		top.Leaf["Colour"] = undefinedEnum(f.Type, 90)
		if err := validate(model.Build(root)); err == nil {
			return true, fmt.Sprintf("vtu /top/colour = E_VtTypes_Colour(%d), not a member of ΛEnum: Validate() = nil", top.Leaf["Colour"].I)
		}
		return false, ""
	})
}

func witnessF12Dup(rec *ev.Rec) {
	rec.Witness(fDupLLID, func() (bool, string) {
		_, root, top := vt("vtu")
		top.LL["LlS"] = []model.Val{str("a"), str("a")}
		if err := validate(model.Build(root)); err == nil {
			return true, `vtu /top/ll-s = ["a","a"] (config leaf-list): Validate() = nil`
		}
		return false, ""
	})
}

func witnessF12Bounds(rec *ev.Rec) {
	rec.Witness(fLLBoundID, func() (bool, string) {
		_, root, top := vt("vtu")
		top.LL["BoundedLl"] = []model.Val{str("a")}
		e1 := validate(model.Build(root))
		top.LL["BoundedLl"] = []model.Val{str("a"), str("b"), str("c"), str("d"), str("e")}
		e2 := validate(model.Build(root))
		if e1 == nil || e2 == nil {
			return true, fmt.Sprintf(`vtu /top/bounded-ll (min-elements 2, max-elements 4): Validate() with 1 element = %s, with 5 elements = %s`, errStr(e1), errStr(e2))
		}
		return false, ""
	})
}

func witnessF27(rec *ev.Rec) {
	rec.Witness(fUnionBDID, func() (bool, string) {
		_, root, top := vt("vtu")
		top.Leaf["Mixed"] = model.Val{K: model.KBool, Bool: true}
		e1 := validate(model.Build(root))
		delete(top.Leaf, "Mixed")
		top.Leaf["Nested"] = model.Val{K: model.KDec, F: 1.5, FD: 1}
		e2 := validate(model.Build(root))
		if e1 != nil || e2 != nil {
			return true, fmt.Sprintf("vtu /top/mixed = UnionBool(true): Validate() = %s; /top/nested = UnionFloat64(1.5): Validate() = %s", errStr(e1), errStr(e2))
		}
		return false, ""
	})
}

func witnessF1(rec *ev.Rec) {
	rec.Witness(fInt64ID, func() (bool, string) {
		_, root, top := vt("vtu")
		k := child(top, "Keyed")
		kv := model.Val{K: model.KInt64, I: -12}
		k.List["KI64"] = []*model.Entry{model.NewEntry(mustField(k, "KI64"), []model.Val{kv})}
		child(top, "Refs").Leaf["ToI64Key"] = kv
		if err := validate(model.Build(root)); err != nil {
			return true, "vtu /top/keyed/k-i64[k=-12] and /top/refs/to-i64-key = -12 (satisfied leafref): Validate() = " + err.Error()
		}
		return false, ""
	})
}

func witnessF50(rec *ev.Rec) {
	rec.Witness(fLrOptID, func() (bool, string) {
		_, root, top := vt("vtu")
		child(top, "Refs").Leaf["ToStrKey"] = str("nobody")
		e0 := validate(model.Build(root))
		e1 := validate(model.Build(root), &ytypes.LeafrefOptions{IgnoreMissingData: false})
		if e0 != nil && e1 == nil {
			return true, "vtu /top/refs/to-str-key = \"nobody\" with no /top/keyed/k-str entry: Validate() = error, Validate(&LeafrefOptions{IgnoreMissingData: false}) = nil"
		}
		return false, ""
	})
}

func witnessF52(rec *ev.Rec) {
	rec.Witness(fLLZeroID, func() (bool, string) {
		_, root, top := vt("vtu")
		k := child(top, "Keyed")
		k.List["KStr"] = []*model.Entry{model.NewEntry(mustField(k, "KStr"), []model.Val{str("a")})}
		child(top, "Refs").LL["Many"] = []model.Val{str("a"), str("")}
		e1 := validate(model.Build(root))
		child(top, "Refs").LL["Many"] = []model.Val{str("a"), str("b")}
		e2 := validate(model.Build(root))
		if e1 == nil && e2 != nil {
			return true, `vtu /top/keyed/k-str[k="a"], /top/refs/many = ["a",""] (leaf-list of leafref to k-str/k): Validate() = nil; with ["a","b"] it reports the dangling member`
		}
		return false, ""
	})
}

// witnessF92: the operand of a leafref predicate holds the string "*": ygot turns the predicate into a
// gNMI path key and resolves it with wildcards enabled, so the predicate selects every entry.
func witnessF92(rec *ev.Rec) {
	rec.Witness(fLrStarID, func() (bool, string) {
		_, root, top := vt("vtu")
		k := child(top, "Keyed")
		mk2 := mustField(k, "Mk2")
		ex := model.NewEntry(mk2, []model.Val{str("x"), {K: model.KUint32, U: 1}})
		sub := mustField(ex.N, "Sub")
		ex.N.List["Sub"] = []*model.Entry{model.NewEntry(sub, []model.Val{{K: model.KInt16, I: 7}})}
		es := model.NewEntry(mk2, []model.Val{str("*"), {K: model.KUint32, U: 2}})
		k.List["Mk2"] = []*model.Entry{ex, es}
		refs := child(top, "Refs")
		refs.Leaf["PickA"] = str("*")
		refs.Leaf["PickSub"] = model.Val{K: model.KInt16, I: 7}
		if d := model.Dangling(root); len(d) != 1 {
			return false, fmt.Sprintf("HARNESS-BUG: reference evaluator finds %v", d)
		}
		e1 := validate(model.Build(root))
		// control: the same tree with the operand "y" (no such entry) must be reported
		es.Key[0], es.N.Leaf["A"], refs.Leaf["PickA"] = str("y"), str("y"), str("y")
		e2 := validate(model.Build(root))
		if e1 == nil && e2 != nil {
			return true, `vtu mk2[a="x",b=1]/sub[id=7], mk2[a="*",b=2] without subs, refs/pick-a = "*", refs/pick-sub = 7 (path mk2[a=current()/../pick-a]/sub/id): Validate() = nil although mk2[a="*"] has no sub; with "y" in place of "*" the dangling reference is reported`
		}
		return false, ""
	})
}

// fLrNoOperandID: the operand of a leafref predicate does not exist at all. XPath compares with an empty
// node-set (false for every entry), ygot used the empty string as key value and selected the entry whose key
// IS the empty string.
const fLrNoOperandID = "F100-leafref-predicate-unset-operand"

func witnessF100(rec *ev.Rec) {
	rec.Witness(fLrNoOperandID, func() (bool, string) {
		_, root, top := vt("vtu")
		k := child(top, "Keyed")
		mk2 := mustField(k, "Mk2")
		ex := model.NewEntry(mk2, []model.Val{str(""), {K: model.KUint32, U: 1}})
		sub := mustField(ex.N, "Sub")
		ex.N.List["Sub"] = []*model.Entry{model.NewEntry(sub, []model.Val{{K: model.KInt16, I: 7}})}
		k.List["Mk2"] = []*model.Entry{ex}
		refs := child(top, "Refs")
		refs.Leaf["PickSub"] = model.Val{K: model.KInt16, I: 7} // pick-a stays unset
		if d := model.Dangling(root); len(d) != 1 {
			return false, fmt.Sprintf("HARNESS-BUG: reference evaluator finds %v", d)
		}
		if e := validate(model.Build(root)); e == nil {
			return true, `vtu mk2[a="",b=1]/sub[id=7], refs/pick-a unset, refs/pick-sub = 7 (path mk2[a=current()/../pick-a]/sub/id): Validate() = nil although the predicate compares with a node that does not exist`
		}
		return false, ""
	})
}

func witnessF51(rec *ev.Rec) {
	rec.Witness(fWKeyID, func() (bool, string) {
		v, root, top := vt("vtw")
		k := child(top, "Keyed")
		k.List["KUnion"] = []*model.Entry{model.NewEntry(mustField(k, "KUnion"), []model.Val{str("ab")})}
		e1 := validate(build(v, root, true))
		e2 := validate(build(v, root, false))
		if e1 != nil && e2 == nil {
			return true, "vtw /top/keyed/k-union: map key &Union_String{\"ab\"} and key leaf &Union_String{\"ab\"} (equal values, distinct pointers): Validate() = " + e1.Error()
		}
		return false, ""
	})
}

// ---- known-finding bookkeeping for trees ------------------------------------------------------------

// active says which of the value-level findings are active in this run.
type active struct{ f27 bool }

func activeOf(rec *ev.Rec) active { return active{f27: rec.Active(fUnionBDID)} }

// avoid is the GenOpts.Avoid predicate for the active findings.
func (a active) avoid(f *model.FieldInfo, v model.Val) bool { return a.f27 && isF27Val(f, v) }

// genAvoid returns the Avoid predicate for one case: the trigger regions of the active findings are
// kept out of seven cases in eight and left alone in the eighth, so that they stay present but do not
// dominate (with simple unions F27 would otherwise hit most vt trees).
func (a active) genAvoid(rt *rapid.T) func(*model.FieldInfo, model.Val) bool {
	free := rapid.IntRange(0, 7).Draw(rt, "known-findings-free") == 0
	if free {
		return nil
	}
	return a.avoid
}

// excuseValid judges the error of Validate on a tree that is valid by construction: every error line
// must carry the signature of an active finding whose trigger is present in the tree. It returns the
// lines that are not excused.
func excuseValid(rec *ev.Rec, m *model.Node, lines []string) (bad []string) {
	t27 := m.AnyVal(isF27Val)
	used := map[string]bool{}
	for _, l := range lines {
		switch {
		case isChoiceHeader(l):
		case sigF27(l) && t27 && rec.Active(fUnionBDID):
			used[fUnionBDID] = true
		default:
			bad = append(bad, l)
		}
	}
	if len(bad) == 0 {
		for id := range used {
			rec.Excuse(id, true)
		}
	}
	return bad
}

// stripKnown removes the trigger values of the active findings from m (in place) and reports how many.
func stripKnown(rec *ev.Rec, m *model.Node) int {
	a := activeOf(rec)
	if !a.f27 {
		return 0
	}
	return strip(m, a.avoid)
}

// ---- small utilities ---------------------------------------------------------------------------------

type counter struct {
	mu sync.Mutex
	m  map[string]int
}

func newCounter() *counter { return &counter{m: map[string]int{}} }
func (c *counter) inc(k string) {
	c.mu.Lock()
	c.m[k]++
	c.mu.Unlock()
}
func (c *counter) get(k string) int {
	c.mu.Lock()
	defer c.mu.Unlock()
	return c.m[k]
}
func (c *counter) total() int {
	c.mu.Lock()
	defer c.mu.Unlock()
	n := 0
	for _, v := range c.m {
		n += v
	}
	return n
}
func (c *counter) String() string {
	c.mu.Lock()
	defer c.mu.Unlock()
	ks := make([]string, 0, len(c.m))
	for k := range c.m {
		ks = append(ks, k)
	}
	sort.Strings(ks)
	var sb strings.Builder
	for _, k := range ks {
		fmt.Fprintf(&sb, "%s=%d ", k, c.m[k])
	}
	return sb.String()
}

// inconclusive fails the test with the marker the driver maps to exit 2, unless the test already failed.
func inconclusive(t *testing.T, format string, a ...interface{}) {
	if t.Failed() {
		return
	}
	t.Fatalf("INCONCLUSIVE: "+format, a...)
}

var reCache = map[string]*regexp.Regexp{}
var reMu sync.Mutex

// matchesAll reports whether s satisfies every pattern of lt (XSD patterns are implicitly anchored).
func matchesAll(lt *model.LType, s string) bool {
	reMu.Lock()
	defer reMu.Unlock()
	for _, p := range lt.Patterns {
		re := reCache[p]
		if re == nil {
			re = regexp.MustCompile("^(?:" + p + ")$")
			reCache[p] = re
		}
		if !re.MatchString(s) {
			return false
		}
	}
	return true
}

func runeLen(s string) int { return utf8.RuneCountInString(s) }

func bigOf(i int64) *big.Int { return big.NewInt(i) }

var dbgSeen = map[string]bool{}

// debugOnce prints msg once per key when T3_DEBUG is set (development aid).
func debugOnce(key, msg string) {
	if os.Getenv("T3_DEBUG") == "" || dbgSeen[key] {
		return
	}
	dbgSeen[key] = true
	fmt.Fprintf(os.Stderr, "DEBUG %s: %s\n", key, msg)
}
