package t3

import (
	"github.com/openconfig/ygot/ygot"
)

type validator interface {
	Validate(...ygot.ValidationOption) error
}

func validateRoot(gs ygot.GoStruct, opts ...ygot.ValidationOption) error {
	return gs.(validator).Validate(opts...)
}
