package t3

import (
	"fmt"
	"math/big"
	"strconv"
	"strings"
	"testing"

	"github.com/openconfig/goyang/pkg/yang"
	"github.com/openconfig/ygot/ygot"
	"pgregory.net/rapid"
	"verifharness/ev"
	"verifharness/model"
	"verifharness/th"
	"verifharness/variants"
)

type populater interface{ PopulateDefaults() }

// ---- defaults from goyang, parsed by the harness -------------------------------------------------------

// defaultOf returns the YANG default of leaf field f as a typed value: the leaf's own `default`
// statement or, failing that, the default of its typedef chain (goyang's Entry.DefaultValues reports
// both). ok=false: no default.
func defaultOf(f *model.FieldInfo) (model.Val, bool, error) {
	if f.Kind != model.FLeaf || f.Entry == nil {
		return model.Val{}, false, nil
	}
	dv := f.Entry.DefaultValues()
	if len(dv) == 0 {
		return model.Val{}, false, nil
	}
	if len(dv) != 1 {
		return model.Val{}, false, fmt.Errorf("leaf %s has %d default values", f.Entry.Path(), len(dv))
	}
	v, err := parseDefault(f.Type, dv[0])
	return v, err == nil, err
}

var decDefaultRe = `^[-+]?[0-9]+(\.[0-9]+)?$`

// parseDefault parses the lexical form s of a default per RFC 7950 section 9 for leaf type lt.
func parseDefault(lt *model.LType, s string) (model.Val, error) {
	if lt.IsUnion() {
		// RFC 7950 9.12: the first member type that accepts the value
		for _, m := range lt.Members {
			if v, err := parseDefault(m, s); err == nil {
				return v, nil
			}
		}
		return model.Val{}, fmt.Errorf("default %q fits no member of the union", s)
	}
	k := lt.VKind()
	switch {
	case k.Signed() || k.Unsigned():
		x, ok := new(big.Int).SetString(s, 10)
		if !ok {
			return model.Val{}, fmt.Errorf("default %q is not an integer", s)
		}
		lo, hi := kindBounds(k)
		if x.Cmp(lo) < 0 || x.Cmp(hi) > 0 || !model.InRange(lt.Range, x, 0) {
			return model.Val{}, fmt.Errorf("default %q outside the range of %s", s, k)
		}
		if k.Signed() {
			return model.Val{K: k, I: x.Int64()}, nil
		}
		return model.Val{K: k, U: x.Uint64()}, nil
	}
	switch k {
	case model.KStr:
		if !model.LenOK(lt.Length, runeLen(s)) || !matchesAll(lt, s) {
			return model.Val{}, fmt.Errorf("default %q violates the string restrictions", s)
		}
		return str(s), nil
	case model.KBool:
		switch s {
		case "true":
			return model.Val{K: model.KBool, Bool: true}, nil
		case "false":
			return model.Val{K: model.KBool, Bool: false}, nil
		}
		return model.Val{}, fmt.Errorf("default %q is not a boolean", s)
	case model.KDec:
		if !reMatch(decDefaultRe, s) {
			return model.Val{}, fmt.Errorf("default %q is not a decimal64", s)
		}
		ip, fp := s, ""
		if i := strings.Index(s, "."); i >= 0 {
			ip, fp = s[:i], s[i+1:]
		}
		if len(fp) > lt.FD {
			return model.Val{}, fmt.Errorf("default %q has more than %d fraction digits", s, lt.FD)
		}
		sc, ok := new(big.Int).SetString(ip+fp+strings.Repeat("0", lt.FD-len(fp)), 10)
		if !ok || !model.InRange(lt.Range, sc, lt.FD) {
			return model.Val{}, fmt.Errorf("default %q outside the decimal range", s)
		}
		return model.Val{K: model.KDec, F: model.DecFloat(sc, lt.FD), FD: lt.FD}, nil
	case model.KEnum:
		name := s
		if lt.Kind == yang.Yidentityref {
			if i := strings.Index(s, ":"); i >= 0 {
				name = s[i+1:] // prefixed identity name
			}
		}
		for _, m := range lt.Enum {
			if m.Name == name {
				return model.EnumVal(lt, m), nil
			}
		}
		return model.Val{}, fmt.Errorf("default %q is not a member", s)
	case model.KBin:
		return model.Val{}, fmt.Errorf("binary defaults are not in the corpus")
	}
	return model.Val{}, fmt.Errorf("no default parser for kind %s", k)
}

func reMatch(re, s string) bool {
	lt := &model.LType{Patterns: []string{strings.TrimSuffix(strings.TrimPrefix(re, "^"), "$")}}
	return matchesAll(lt, s)
}

// ---- reference populateDefaults ------------------------------------------------------------------------

type defStats struct {
	filled, keptSet, caseOwn, caseOther, caseNone int
	dontCare                                       map[*model.Node]map[string]model.Val
}

// caseState classifies leaf f of node n with respect to the choices it sits in: "own" = every enclosing
// choice has f's case (and only it) selected or f is outside any choice... see refDefaults.
func caseState(n *model.Node, f *model.FieldInfo) string {
	if len(f.Choices) == 0 {
		return "none"
	}
	sel := selectedCases(n)
	id := ""
	state := "own"
	for _, st := range f.Choices {
		id += "/" + st.Choice
		cs := sel[id]
		switch {
		case len(cs) == 0:
			if state == "own" {
				state = "unselected"
			}
		case !cs[st.Case] || len(cs) > 1:
			return "other"
		}
		id += ":" + st.Case
	}
	return state
}

// refDefaults is the reference: in place, every container is instantiated (the generated method's doc
// comment: "instantiating any nil container fields"), every unset leaf with a YANG default gets it, set
// leaves stay, list entries are visited. Leaves inside a case: the default is due when the leaf's own
// case is the selected one; when another case of its choice is selected it must not be populated (the
// tree would select two cases); when no case is selected either outcome is accepted (RFC 7950 7.9.3
// applies case defaults only for the selected or default case; the property statement read literally
// asks for the default) - those leaves are recorded in st.dontCare.
func refDefaults(n *model.Node, st *defStats) error {
	for _, f := range n.SI.Fields {
		switch f.Kind {
		case model.FLeaf:
			dv, has, err := defaultOf(f)
			if err != nil {
				return err
			}
			if !has {
				continue
			}
			if _, set := n.Leaf[f.Name]; set {
				st.keptSet++
				continue
			}
			switch caseState(n, f) {
			case "none":
				n.Leaf[f.Name] = dv
				st.filled++
			case "own":
				n.Leaf[f.Name] = dv
				st.filled++
				st.caseOwn++
			case "other":
				// populating it would select a second case: whether ygot does is judged by the
				// Validate-after postcondition (finding F20), not by the leaf comparison
				st.caseOther++
				if st.dontCare[n] == nil {
					st.dontCare[n] = map[string]model.Val{}
				}
				st.dontCare[n][f.Name] = dv
			case "unselected":
				st.caseNone++
				if st.dontCare[n] == nil {
					st.dontCare[n] = map[string]model.Val{}
				}
				st.dontCare[n][f.Name] = dv
			}
		case model.FCont:
			c := n.Cont[f.Name]
			if c == nil {
				c = model.NewNode(f.Child)
				n.Cont[f.Name] = c
			}
			if err := refDefaults(c, st); err != nil {
				return err
			}
		case model.FList, model.FOrdList:
			for _, e := range n.List[f.Name] {
				if err := refDefaults(e.N, st); err != nil {
					return err
				}
			}
		case model.FUList:
			for _, e := range n.UList[f.Name] {
				if err := refDefaults(e, st); err != nil {
					return err
				}
			}
		}
	}
	return nil
}

// compareDefaults compares leaves and leaf-lists of want (reference) and got (observed), walking both
// trees in parallel. Containers are not compared (the statement is about leaves); list entries must be
// the same. dontCare leaves may be unset or hold the default.
func compareDefaults(want, got *model.Node, dc map[*model.Node]map[string]model.Val, path string, out *[]string) {
	if len(*out) > 10 {
		return
	}
	if got == nil {
		got = model.NewNode(want.SI)
	}
	for _, f := range want.SI.Fields {
		switch f.Kind {
		case model.FLeaf:
			w, wok := want.Leaf[f.Name]
			g, gok := got.Leaf[f.Name]
			if d, ok := dc[want][f.Name]; ok {
				if gok && !g.Equal(d) {
					*out = append(*out, fmt.Sprintf("%s/%s: case leaf of an unselected choice holds %s, want unset or the default %s", path, f.Name, g, d))
				}
				continue
			}
			switch {
			case wok && !gok:
				*out = append(*out, fmt.Sprintf("%s/%s: unset after PopulateDefaults, want %s", path, f.Name, w))
			case !wok && gok:
				*out = append(*out, fmt.Sprintf("%s/%s: holds %s after PopulateDefaults, want unset", path, f.Name, g))
			case wok && gok && !w.Equal(g):
				*out = append(*out, fmt.Sprintf("%s/%s: holds %s after PopulateDefaults, want %s", path, f.Name, g, w))
			}
		case model.FLeafList:
			w, g := want.LL[f.Name], got.LL[f.Name]
			same := len(w) == len(g)
			for i := 0; same && i < len(w); i++ {
				same = w[i].Equal(g[i])
			}
			if !same {
				*out = append(*out, fmt.Sprintf("%s/%s: leaf-list %v after PopulateDefaults, want %v", path, f.Name, g, w))
			}
		case model.FCont:
			if c := want.Cont[f.Name]; c != nil {
				compareDefaults(c, got.Cont[f.Name], dc, path+"/"+f.Name, out)
			}
		case model.FList, model.FOrdList:
			w, g := want.List[f.Name], got.List[f.Name]
			if len(w) != len(g) {
				*out = append(*out, fmt.Sprintf("%s/%s: %d entries after PopulateDefaults, want %d", path, f.Name, len(g), len(w)))
				continue
			}
			byKey := map[string]*model.Entry{}
			for _, e := range g {
				byKey[model.KeyCanon(e.Key)] = e
			}
			for i, e := range w {
				ge := byKey[model.KeyCanon(e.Key)]
				if f.Kind == model.FOrdList {
					ge = g[i]
					if model.KeyCanon(ge.Key) != model.KeyCanon(e.Key) {
						ge = nil
					}
				}
				if ge == nil {
					*out = append(*out, fmt.Sprintf("%s/%s[%s]: entry missing or moved after PopulateDefaults", path, f.Name, model.KeyCanon(e.Key)))
					continue
				}
				compareDefaults(e.N, ge.N, dc, path+"/"+f.Name+"["+model.KeyCanon(e.Key)+"]", out)
			}
		case model.FUList:
			w, g := want.UList[f.Name], got.UList[f.Name]
			if len(w) != len(g) {
				*out = append(*out, fmt.Sprintf("%s/%s: %d entries after PopulateDefaults, want %d", path, f.Name, len(g), len(w)))
				continue
			}
			for i := range w {
				compareDefaults(w[i], g[i], dc, fmt.Sprintf("%s/%s[#%d]", path, f.Name, i), out)
			}
		}
	}
}

// f20Trigger: somewhere in the tree a choice has a case selected while another case of that choice
// holds an unset defaulted leaf or (BuildEmptyTree) a container; n is checked after all containers exist.
func f20Trigger(ref *model.Node) bool {
	hit := false
	for _, s := range nodes(ref) {
		n := s.N
		sel := selectedCases(n)
		if len(sel) == 0 {
			continue
		}
		for _, f := range n.SI.Fields {
			if len(f.Choices) == 0 {
				continue
			}
			isDefLeaf := false
			if f.Kind == model.FLeaf {
				_, has, _ := defaultOf(f)
				_, set := n.Leaf[f.Name]
				isDefLeaf = has && !set
			}
			if !(isDefLeaf || f.Kind == model.FCont) {
				continue
			}
			// would populating f select a second case?
			id := ""
			for _, st := range f.Choices {
				id += "/" + st.Choice
				for c := range sel[id] {
					if c != st.Case {
						hit = true
					}
				}
				id += ":" + st.Case
			}
		}
	}
	return hit
}

// f20Risky: populating field f selects a case one of whose sibling cases (at some choice level) holds a
// defaulted leaf or a container, i.e. PopulateDefaults would then populate that sibling case as well.
func f20Risky(f *model.FieldInfo) bool {
	if len(f.Choices) == 0 {
		return false
	}
	for _, g := range f.Owner.Fields {
		if g == f || len(g.Choices) == 0 {
			continue
		}
		_, has, _ := defaultOf(g)
		if !(has || g.Kind == model.FCont) {
			continue
		}
		for i := 0; i < len(f.Choices) && i < len(g.Choices); i++ {
			if f.Choices[i].Choice != g.Choices[i].Choice {
				break
			}
			if f.Choices[i].Case != g.Choices[i].Case {
				return true
			}
		}
	}
	return false
}

func witnessF20(rec *ev.Rec) {
	rec.Witness(fDefCaseID, func() (bool, string) {
		run := func(set func(top *model.Node)) (error, error) {
			_, root, top := vt("vtu")
			set(top)
			gs := model.Build(root)
			before := validate(gs)
			gs.(populater).PopulateDefaults()
			return before, validate(gs)
		}
		b1, a1 := run(func(top *model.Node) { child(top, "Dflt").Leaf["CPlain"] = str("x") })
		b2, a2 := run(func(top *model.Node) { top.Leaf["C1A"] = str("x") })
		bad := func(b, a error) bool { return b == nil && a != nil && strings.Contains(a.Error(), "multiple cases") }
		if bad(b1, a1) || bad(b2, a2) {
			return true, fmt.Sprintf("vtu /top/dflt/c-plain = \"x\" (case plain of choice which; sibling case with-default has leaf c-def default \"casedef\"): Validate() nil before, after root.PopulateDefaults(): %s; "+
				"vtu /top/c1-a = \"x\" (case c1 of choice ch; sibling case c2 has container c2-box, which BuildEmptyTree instantiates): before nil, after: %s",
				strings.Join(errLines(a1), " | "), strings.Join(errLines(a2), " | "))
		}
		return false, ""
	})
}

// TestC33_Defaults checks the harness's own default parser against the corpus (a failure is a harness bug).
func TestC33_Defaults(t *testing.T) {
	rec := ev.Start(t, "C33")
	n := 0
	seen := map[string]int{}
	for _, name := range []string{"vtu", "vtw", "vocc"} {
		v := variants.Get(name)
		for _, si := range allStructs(v) {
			for _, f := range si.Fields {
				dv, has, err := defaultOf(f)
				if err != nil {
					t.Fatalf("HARNESS-BUG: default of %s.%s: %v", si.T.Name(), f.Name, err)
				}
				if has {
					n++
					kind := dv.K.String()
					if f.ElemUnion {
						kind = "union/" + kind
					}
					if dv.Ident {
						kind += "/identityref"
					}
					seen[kind]++
				}
			}
		}
	}
	rec.Set("defaulted_leaf_fields", strconv.Itoa(n)+" "+fmt.Sprint(seen))
	for _, k := range []string{"u8", "i64", "str", "bool", "dec", "enum", "enum/identityref", "union/str", "union/i16", "union/enum", "u16"} {
		if seen[k] == 0 {
			t.Fatalf("INCONCLUSIVE: the corpus has no defaulted leaf of kind %s (%v)", k, seen)
		}
	}
}

// TestC33 checks that the generated PopulateDefaults fills only unset defaulted leaves, validly
// (DESIGN.md 5/C33).
func TestC33(t *testing.T) {
	rec := ev.Start(t, "C33")
	rec.Rule("variant (vtu, vtw, vocc; generated with -generate_populate_defaults) x tree valid by construction; reference populateDefaults on the model from goyang's defaults " +
		"(Entry.DefaultValues(): leaf and typedef defaults, parsed per type by the harness incl. union, enumeration, prefixed identityref, decimal64): after root.PopulateDefaults() every unset " +
		"defaulted leaf of every container (all are instantiated, as documented) and of every existing list entry holds its default, set leaves and leaf-lists are unchanged, no other leaf appears, " +
		"entries are neither added nor removed; Validate() nil before => nil after; non-trivial = the tree has a list entry and a populated choice case; distinct by variant+tree")
	rec.Assume("containers (incl. presence containers) created by the embedded BuildEmptyTree are not compared: the statement is about leaves; " +
		"a defaulted leaf inside a case is due when its own case is selected, must stay unset when another case is selected, and may be either when no case of the choice is selected")
	witnessF27(rec)
	witnessF20(rec)
	cnt := newCounter()
	cases := 0
	rapid.Check(t, func(rt *rapid.T) {
		cases++
		v := th.PickVariant(rt, "vtu", "vtu2", "vtw", "vocc")
		a := activeOf(rec)
		memo := map[*model.FieldInfo]bool{}
		o := model.GenOpts{Avoid: a.avoid, Want: func(f *model.FieldInfo) bool {
			return subtreeHas(f, func(g *model.FieldInfo) bool {
				_, has, _ := defaultOf(g)
				return has || len(g.Choices) > 0
			}, memo) && f.Kind != model.FLeaf
		}}
		if rapid.Bool().Draw(rt, "sparse") {
			o.Sparse = true
		}
		// F20 hits every tree in which a case is selected whose sibling case holds a defaulted leaf or
		// a container: those selections are left out of seven cases in eight while the finding is open
		if free := rapid.IntRange(0, 7).Draw(rt, "f20-free") == 0; !free && rec.Active(fDefCaseID) {
			o.Skip = f20Risky
		}
		m := model.GenTree(rt, v, o)
		stripKnown(rec, m)

		want := m.Clone()
		st := defStats{dontCare: map[*model.Node]map[string]model.Val{}}
		if err := refDefaults(want, &st); err != nil {
			rt.Fatalf("HARNESS-BUG: %v", err)
		}
		ms := m.Stat()
		choiceSel := m.AnyField(func(n *model.Node, f *model.FieldInfo) bool { return len(f.Choices) > 0 })
		nt := ms.Entries > 0 && choiceSel
		classes := th.TreeClasses(v, ms)
		add := func(c bool, s string) {
			if c {
				classes = append(classes, s)
				cnt.inc(s)
			}
		}
		add(st.filled > 0, "defaults:filled")
		add(st.keptSet > 0, "defaults:set-leaf-kept")
		add(st.caseOwn > 0, "defaults:case-own-selected")
		add(st.caseOther > 0, "defaults:case-other-selected")
		add(st.caseNone > 0, "defaults:case-none-selected")
		add(choiceSel, "defaults:choice-populated")
		add(nt, "defaults:nontrivial")
		inEntry := false
		for _, s := range nodes(m) {
			if s.InEntry {
				for _, f := range s.N.SI.Fields {
					if _, has, _ := defaultOf(f); has {
						inEntry = true
					}
				}
			}
		}
		add(inEntry, "defaults:in-list-entry")
		rec.Case(v.Name+"|"+m.Dump(), nt, classes...)
		th.SampleTree(rec, v, m, fmt.Sprintf("filled=%d set-kept=%d", st.filled, st.keptSet))

		gs := build(v, m, false)
		before := validate(gs)
		if before != nil {
			if bad := excuseValid(rec, m, errLines(before)); len(bad) > 0 {
				rt.Fatalf("HARNESS-BUG or C07 violation: the generated tree does not validate before PopulateDefaults: %v\n%s", before, m.Dump())
			}
		}
		gs.(populater).PopulateDefaults()
		got := model.Observe(v, gs)
		var diffs []string
		compareDefaults(want, got, st.dontCare, "", &diffs)
		if len(diffs) > 0 {
			rt.Fatalf("PopulateDefaults result differs from the reference (variant %s):\n  %s\ntree before:\n%s", v.Name, strings.Join(diffs, "\n  "), m.Dump())
		}
		if before == nil {
			if after := validate(gs); after != nil {
				lines := errLines(after)
				all := true
				for _, l := range lines {
					if !sigMultiCase(l) && !isChoiceHeader(l) {
						all = false
					}
				}
				if all && rec.Excuse(fDefCaseID, f20Trigger(want)) {
					debugOnce("F20/"+lines[len(lines)-1], strings.Join(lines, " || "))
					return
				}
				rt.Fatalf("the tree validated before PopulateDefaults but not afterwards (variant %s): %v\ntree before:\n%s\ntree after:\n%s", v.Name, after, m.Dump(), got.Normalize().Dump())
			}
		}
	})
	rec.Set("c33_counts", cnt.String())
	if cases >= 300 {
		for _, c := range []string{"defaults:filled", "defaults:set-leaf-kept", "defaults:case-own-selected", "defaults:in-list-entry", "defaults:nontrivial"} {
			if cnt.get(c)*10 < cases {
				inconclusive(t, "class %s in fewer than 10%% of %d cases: %s", c, cases, cnt)
			}
		}
	}
}

var _ = ygot.BuildEmptyTree
