package t3

import (
	"fmt"
	"math/big"
	"sort"
	"strings"
	"testing"

	"github.com/openconfig/goyang/pkg/yang"
	"github.com/openconfig/ygot/ygot"
	"github.com/openconfig/ygot/ytypes"
	"pgregory.net/rapid"
	"verifharness/ev"
	"verifharness/model"
	"verifharness/th"
	"verifharness/variants"
)

// ---- the closed fault catalogue of C07 ------------------------------------------------------------------

const (
	kInt      = "int-range"
	kDec      = "dec-range"
	kStrLen   = "string-length"
	kStrPat   = "string-pattern"
	kBinLen   = "binary-length"
	kEnum     = "enum-undefined"
	kIdent    = "identity-undefined"
	kUnion    = "union-no-member"
	kKey1     = "key-mismatch-single"
	kKeyN     = "key-mismatch-multi"
	kDupLL    = "dup-leaflist"
	kListMax  = "list-above-max"
	kLLMax    = "leaflist-above-max"
	kLLMin    = "leaflist-below-min"
	kTwoCases = "two-cases"
)

var allKinds = []string{kInt, kDec, kStrLen, kStrPat, kBinLen, kEnum, kIdent, kUnion, kKey1, kKeyN, kDupLL, kListMax, kLLMax, kLLMin, kTwoCases}

func leafKind(k string) bool {
	switch k {
	case kInt, kDec, kStrLen, kStrPat, kBinLen, kEnum, kIdent, kUnion:
		return true
	}
	return false
}

// restrictsInt: the integer type has a range narrower than its Go type.
func restrictsInt(lt *model.LType) bool {
	k := lt.VKind()
	if !(k.Signed() || k.Unsigned()) || len(lt.Range) == 0 {
		return false
	}
	_, ok := outOfRangeInts(lt)
	return ok
}

func kindBounds(k model.Kind) (lo, hi *big.Int) {
	b := uint(k.Bits())
	if k.Signed() {
		hi = new(big.Int).Sub(new(big.Int).Lsh(big.NewInt(1), b-1), big.NewInt(1))
		lo = new(big.Int).Neg(new(big.Int).Lsh(big.NewInt(1), b-1))
		return
	}
	return big.NewInt(0), new(big.Int).Sub(new(big.Int).Lsh(big.NewInt(1), b), big.NewInt(1))
}

// outOfRangeInts lists the maximal intervals of the Go type that lie outside every range part.
func outOfRangeInts(lt *model.LType) (gaps [][2]*big.Int, ok bool) {
	lo, hi := kindBounds(lt.VKind())
	type part struct{ a, b *big.Int }
	var ps []part
	for _, p := range lt.Range {
		ps = append(ps, part{model.NumberScaled(p.Min, 0), model.NumberScaled(p.Max, 0)})
	}
	sort.Slice(ps, func(i, j int) bool { return ps[i].a.Cmp(ps[j].a) < 0 })
	cur := new(big.Int).Set(lo)
	one := big.NewInt(1)
	for _, p := range ps {
		if p.a.Cmp(cur) > 0 {
			gaps = append(gaps, [2]*big.Int{new(big.Int).Set(cur), new(big.Int).Sub(p.a, one)})
		}
		if n := new(big.Int).Add(p.b, one); n.Cmp(cur) > 0 {
			cur = n
		}
	}
	if cur.Cmp(hi) <= 0 {
		gaps = append(gaps, [2]*big.Int{cur, hi})
	}
	return gaps, len(gaps) > 0
}

func drawInGap(rt *rapid.T, g [2]*big.Int, label string) *big.Int {
	span := new(big.Int).Sub(g[1], g[0])
	switch rapid.IntRange(0, 3).Draw(rt, label+".edge") {
	case 0:
		return g[0]
	case 1:
		return g[1]
	}
	if !span.IsUint64() {
		return g[0]
	}
	off := rapid.Uint64Range(0, span.Uint64()).Draw(rt, label+".off")
	return new(big.Int).Add(g[0], new(big.Int).SetUint64(off))
}

// badValue draws a value of field type lt that breaks exactly the restriction `kind` names while
// staying inside the Go type, or reports that lt cannot host that fault.
func badValue(rt *rapid.T, kind string, lt *model.LType) (model.Val, bool) {
	if lt == nil {
		return model.Val{}, false
	}
	if lt.IsUnion() {
		return badUnionValue(rt, kind, lt)
	}
	switch kind {
	case kInt:
		if !restrictsInt(lt) {
			return model.Val{}, false
		}
		gaps, _ := outOfRangeInts(lt)
		x := drawInGap(rt, gaps[rapid.IntRange(0, len(gaps)-1).Draw(rt, "gap")], "int")
		if lt.VKind().Signed() {
			return model.Val{K: lt.VKind(), I: x.Int64()}, true
		}
		return model.Val{K: lt.VKind(), U: x.Uint64()}, true
	case kDec:
		if lt.Kind != yang.Ydecimal64 || len(lt.Range) == 0 {
			return model.Val{}, false
		}
		bound := new(big.Int).Lsh(big.NewInt(1), 49)
		for tries := 0; tries < 20; tries++ {
			p := lt.Range[rapid.IntRange(0, len(lt.Range)-1).Draw(rt, "part")]
			d := big.NewInt(int64(rapid.IntRange(1, 2000).Draw(rt, "dist")))
			var x *big.Int
			if rapid.Bool().Draw(rt, "above") {
				x = new(big.Int).Add(model.NumberScaled(p.Max, lt.FD), d)
			} else {
				x = new(big.Int).Sub(model.NumberScaled(p.Min, lt.FD), d)
			}
			if new(big.Int).Abs(x).Cmp(bound) >= 0 || model.InRange(lt.Range, x, lt.FD) {
				continue
			}
			// the neighbours must be outside too, so that the verdict does not hinge on the last digit
			if model.InRange(lt.Range, new(big.Int).Add(x, big.NewInt(1)), lt.FD) || model.InRange(lt.Range, new(big.Int).Sub(x, big.NewInt(1)), lt.FD) {
				continue
			}
			return model.Val{K: model.KDec, F: model.DecFloat(x, lt.FD), FD: lt.FD}, true
		}
		return model.Val{}, false
	case kStrLen:
		if lt.Kind != yang.Ystring || len(lt.Length) == 0 {
			return model.Val{}, false
		}
		return badLenString(rt, lt)
	case kStrPat:
		if lt.Kind != yang.Ystring || len(lt.Patterns) == 0 {
			return model.Val{}, false
		}
		return badPatString(rt, lt)
	case kBinLen:
		if lt.Kind != yang.Ybinary || len(lt.Length) == 0 {
			return model.Val{}, false
		}
		for tries := 0; tries < 20; tries++ {
			n := rapid.IntRange(0, 12).Draw(rt, "binlen")
			if !model.LenOK(lt.Length, n) {
				b := make([]byte, n)
				for i := range b {
					b[i] = rapid.Byte().Draw(rt, "b")
				}
				return model.Val{K: model.KBin, B: b}, true
			}
		}
		return model.Val{}, false
	case kEnum:
		if lt.Kind != yang.Yenum {
			return model.Val{}, false
		}
		return undefinedEnum(lt, int64(rapid.IntRange(0, 40).Draw(rt, "enumoff"))), true
	case kIdent:
		if lt.Kind != yang.Yidentityref {
			return model.Val{}, false
		}
		return undefinedEnum(lt, int64(rapid.IntRange(0, 40).Draw(rt, "enumoff"))), true
	}
	return model.Val{}, false
}

var lenAlphabets = [][]rune{[]rune("abcxyz"), []rune("ABZ019"), []rune("abZ09")}

// badLenString: a string that satisfies the patterns but not the length restriction.
func badLenString(rt *rapid.T, lt *model.LType) (model.Val, bool) {
	for tries := 0; tries < 40; tries++ {
		n := rapid.IntRange(0, 24).Draw(rt, "len")
		if model.LenOK(lt.Length, n) {
			continue
		}
		al := lenAlphabets[rapid.IntRange(0, len(lenAlphabets)-1).Draw(rt, "alpha")]
		r := make([]rune, n)
		for i := range r {
			r[i] = al[rapid.IntRange(0, len(al)-1).Draw(rt, "r")]
		}
		if s := string(r); matchesAll(lt, s) {
			return str(s), true
		}
	}
	return model.Val{}, false
}

var patAlphabet = []rune("abzABZ019 _-!é")

// badPatString: a string of an allowed length that violates at least one pattern.
func badPatString(rt *rapid.T, lt *model.LType) (model.Val, bool) {
	for tries := 0; tries < 40; tries++ {
		n := rapid.IntRange(0, 12).Draw(rt, "len")
		if !model.LenOK(lt.Length, n) {
			continue
		}
		r := make([]rune, n)
		for i := range r {
			r[i] = patAlphabet[rapid.IntRange(0, len(patAlphabet)-1).Draw(rt, "r")]
		}
		if s := string(r); !matchesAll(lt, s) {
			return str(s), true
		}
	}
	return model.Val{}, false
}

func unionHasKind(lt *model.LType, k model.Kind) bool {
	for _, m := range lt.Members {
		if m.VKind() == k {
			return true
		}
	}
	return false
}

// badUnionValue: faults inside union-typed leaves.
func badUnionValue(rt *rapid.T, kind string, lt *model.LType) (model.Val, bool) {
	switch kind {
	case kEnum, kIdent:
		// DESIGN.md section 6: a union with an int64 member accepts any enum value as that member
		// (same Go kind), so undefined enum values are injected only into unions without one.
		if unionHasKind(lt, model.KInt64) {
			return model.Val{}, false
		}
		want := yang.Yenum
		if kind == kIdent {
			want = yang.Yidentityref
		}
		var ms []*model.LType
		for _, m := range lt.Members {
			if m.Kind == want {
				ms = append(ms, m)
			}
		}
		if len(ms) == 0 {
			return model.Val{}, false
		}
		m := ms[rapid.IntRange(0, len(ms)-1).Draw(rt, "member")]
		return undefinedEnum(m, int64(rapid.IntRange(0, 40).Draw(rt, "enumoff"))), true
	case kUnion:
		// a value whose Go type the union admits (so it can be stored) but that fits no member: its
		// lexical form must be outside the value space of every member.
		var cands []model.Val
		for _, m := range lt.Members {
			switch {
			case m.Kind == yang.Ystring && len(m.Length) > 0:
				if v, ok := badLenString(rt, m); ok {
					cands = append(cands, v)
				}
				fallthrough
			case m.Kind == yang.Ystring && len(m.Patterns) > 0:
				if v, ok := badPatString(rt, m); ok {
					cands = append(cands, v)
				}
			case m.Kind == yang.Ybinary && len(m.Length) > 0:
				if v, ok := badValue(rt, kBinLen, m); ok {
					cands = append(cands, v)
				}
			case restrictsInt(m):
				if v, ok := badValue(rt, kInt, m); ok {
					cands = append(cands, v)
				}
			}
		}
		var ok []model.Val
		for _, c := range cands {
			fits := false
			for _, m := range lt.Members {
				if model.AcceptsLexical(m, c.Lexical()) {
					fits = true
				}
			}
			if !fits {
				ok = append(ok, c)
			}
		}
		if len(ok) == 0 {
			return model.Val{}, false
		}
		return ok[rapid.IntRange(0, len(ok)-1).Draw(rt, "cand")], true
	}
	return model.Val{}, false
}

// canHostLeafFault: type-level test used for GenOpts.Want and the applicability table (no draws).
func canHostLeafFault(kind string, lt *model.LType) bool {
	if lt == nil {
		return false
	}
	if lt.IsUnion() {
		switch kind {
		case kEnum, kIdent:
			if unionHasKind(lt, model.KInt64) {
				return false
			}
			for _, m := range lt.Members {
				if (kind == kEnum && m.Kind == yang.Yenum) || (kind == kIdent && m.Kind == yang.Yidentityref) {
					return true
				}
			}
		case kUnion:
			for _, m := range lt.Members {
				if (m.Kind == yang.Ystring && (len(m.Length) > 0 || len(m.Patterns) > 0)) || (m.Kind == yang.Ybinary && len(m.Length) > 0) {
					return true
				}
			}
		}
		return false
	}
	switch kind {
	case kInt:
		return restrictsInt(lt)
	case kDec:
		return lt.Kind == yang.Ydecimal64 && len(lt.Range) > 0
	case kStrLen:
		return lt.Kind == yang.Ystring && len(lt.Length) > 0
	case kStrPat:
		return lt.Kind == yang.Ystring && len(lt.Patterns) > 0
	case kBinLen:
		return lt.Kind == yang.Ybinary && len(lt.Length) > 0
	case kEnum:
		return lt.Kind == yang.Yenum
	case kIdent:
		return lt.Kind == yang.Yidentityref
	}
	return false
}

// hostField: can field f host fault kind (schema-level; whether the tree offers a site is decided later)?
func hostField(kind string, f *model.FieldInfo) bool {
	if leafKind(kind) {
		if f.Kind != model.FLeaf && f.Kind != model.FLeafList {
			return false
		}
		// key leaves, leafref leaves and leafref targets are left alone so that the injected fault
		// is the only one (changing them would also break key agreement or leafref integrity)
		if f.IsKey || f.Type.Leafref != "" || leafrefTargets(f.Owner.V)[f.Entry] {
			return false
		}
		if f.Kind == model.FLeafList && f.Min > 1 {
			return false
		}
		return canHostLeafFault(kind, f.Type)
	}
	switch kind {
	case kKey1:
		return f.Kind == model.FList && len(f.KeyFields) == 1
	case kKeyN:
		return f.Kind == model.FList && len(f.KeyFields) > 1
	case kDupLL:
		return f.Kind == model.FLeafList && f.Config && f.Type.Leafref == "" && !leafrefTargets(f.Owner.V)[f.Entry]
	case kListMax:
		return (f.Kind == model.FList || f.Kind == model.FOrdList || f.Kind == model.FUList) && f.Max > 0
	case kLLMax:
		return f.Kind == model.FLeafList && f.Max > 0
	case kLLMin:
		return f.Kind == model.FLeafList && f.Min > 1
	case kTwoCases:
		return len(f.Choices) > 0 && (f.Kind == model.FLeaf)
	}
	return false
}

var kindsMemo = map[string][]string{}

// kindsFor lists the fault kinds the variant's schema can host.
func kindsFor(v *model.Variant) []string {
	if k, ok := kindsMemo[v.Name]; ok {
		return k
	}
	var out []string
	for _, k := range allKinds {
		found := false
		for _, si := range allStructs(v) {
			for _, f := range si.Fields {
				if hostField(k, f) {
					found = true
				}
			}
		}
		if found {
			out = append(out, k)
		}
	}
	kindsMemo[v.Name] = out
	return out
}

// fault describes an injected fault.
type fault struct {
	Kind  string
	Where site
	Field string
	Desc  string
}

func (f fault) String() string {
	return fmt.Sprintf("%s at %s field %s: %s", f.Kind, f.Where.Path, f.Field, f.Desc)
}

// caseSelected reports, for node n, the case selected for each choice id ("/choice" chains as in
// model.FieldInfo.Choices) by the populated fields.
func selectedCases(n *model.Node) map[string]map[string]bool {
	sel := map[string]map[string]bool{}
	for _, f := range n.SI.Fields {
		if len(f.Choices) == 0 || !populated(n, f) {
			continue
		}
		id := ""
		for _, st := range f.Choices {
			id += "/" + st.Choice
			if sel[id] == nil {
				sel[id] = map[string]bool{}
			}
			sel[id][st.Case] = true
			id += ":" + st.Case
		}
	}
	return sel
}

func populated(n *model.Node, f *model.FieldInfo) bool {
	switch f.Kind {
	case model.FLeaf:
		_, ok := n.Leaf[f.Name]
		return ok
	case model.FLeafList:
		return len(n.LL[f.Name]) > 0 || n.EmptyLL[f.Name]
	case model.FCont:
		_, ok := n.Cont[f.Name]
		return ok
	case model.FList, model.FOrdList:
		return len(n.List[f.Name]) > 0
	case model.FUList:
		return len(n.UList[f.Name]) > 0
	}
	return false
}

// wouldConflict: populating field f in node n would select a second case of some choice.
func wouldConflict(n *model.Node, f *model.FieldInfo) bool {
	if len(f.Choices) == 0 || populated(n, f) {
		return false
	}
	sel := selectedCases(n)
	id := ""
	for _, st := range f.Choices {
		id += "/" + st.Choice
		for c := range sel[id] {
			if c != st.Case {
				return true
			}
		}
		id += ":" + st.Case
	}
	return false
}

func freshKeyVal(rt *rapid.T, v *model.Variant, kf *model.FieldInfo, a active, taken func(model.Val) bool) (model.Val, bool) {
	for tries := 0; tries < 30; tries++ {
		x := model.GenVal(rt, v, kf.Type, model.GenOpts{PlainStrings: true}, "freshkey")
		if a.avoid(kf, x) {
			continue
		}
		if taken(x) {
			continue
		}
		return x, true
	}
	return model.Val{}, false
}

// inject applies exactly one fault of the given kind to m (in place). ok=false: the tree offers no site.
func inject(rt *rapid.T, v *model.Variant, m *model.Node, kind string, a active) (fault, bool) {
	type cand struct {
		s site
		f *model.FieldInfo
	}
	var cands []cand
	for _, s := range nodes(m) {
		for _, f := range s.N.SI.Fields {
			if !hostField(kind, f) {
				continue
			}
			switch {
			case leafKind(kind):
				if f.Kind == model.FLeaf && wouldConflict(s.N, f) {
					continue
				}
				if f.Kind == model.FLeafList && len(s.N.LL[f.Name]) == 0 && wouldConflict(s.N, f) {
					continue
				}
			case kind == kKey1 || kind == kKeyN:
				if len(s.N.List[f.Name]) == 0 {
					continue
				}
			case kind == kDupLL:
				l := s.N.LL[f.Name]
				if len(l) == 0 || (f.Max > 0 && uint64(len(l)) >= f.Max) {
					continue
				}
			case kind == kListMax, kind == kLLMax, kind == kLLMin:
				if wouldConflict(s.N, f) {
					continue
				}
			case kind == kTwoCases:
				// one candidate per node is enough: handled below per choice
			}
			cands = append(cands, cand{s, f})
		}
	}
	if len(cands) == 0 {
		return fault{}, false
	}
	// prefer deep sites (the non-triviality rule) two times out of three
	var deep []cand
	for _, c := range cands {
		if c.s.Depth >= 2 || c.s.InEntry {
			deep = append(deep, c)
		}
	}
	pool := cands
	if len(deep) > 0 && rapid.IntRange(0, 2).Draw(rt, "deep") > 0 {
		pool = deep
	}
	if kind == kKey1 || kind == kKeyN {
		// one time out of three a list whose union key has a string member, when the tree has one
		var us []cand
		for _, c := range cands {
			for _, kf := range c.f.KeyFields {
				if _, ok := sameTextAsString(kf.Type, model.Val{K: model.KUint8}); ok {
					us = append(us, c)
					break
				}
			}
		}
		if len(us) > 0 && rapid.IntRange(0, 1).Draw(rt, "unionstringkey") == 0 {
			pool = us
		}
	}
	c := pool[rapid.IntRange(0, len(pool)-1).Draw(rt, "site")]
	n, f := c.s.N, c.f
	flt := fault{Kind: kind, Where: c.s, Field: f.Name}
	switch {
	case leafKind(kind):
		bv, ok := badValue(rt, kind, f.Type)
		if !ok {
			return fault{}, false
		}
		if f.Kind == model.FLeaf {
			old, had := n.Leaf[f.Name]
			n.Leaf[f.Name] = bv
			flt.Desc = fmt.Sprintf("leaf set to %s (was %s, set=%v)", bv, old, had)
		} else {
			l := append([]model.Val(nil), n.LL[f.Name]...)
			if len(l) == 0 {
				l = []model.Val{bv}
			} else {
				l[rapid.IntRange(0, len(l)-1).Draw(rt, "llidx")] = bv
			}
			n.LL[f.Name] = l
			flt.Desc = fmt.Sprintf("leaf-list now %v", l)
		}
	case kind == kKey1 || kind == kKeyN:
		ents := n.List[f.Name]
		e := ents[rapid.IntRange(0, len(ents)-1).Draw(rt, "entry")]
		ki := rapid.IntRange(0, len(e.Key)-1).Draw(rt, "keyidx")
		// entries whose key has a same-text string twin are preferred two times out of three
		type ek struct{ e, k int }
		var twins []ek
		for ei, x := range ents {
			for kx := range x.Key {
				if _, ok := sameTextAsString(f.KeyFields[kx].Type, x.Key[kx]); ok {
					twins = append(twins, ek{ei, kx})
				}
			}
		}
		forceTwin := false
		if len(twins) > 0 && rapid.IntRange(0, 3).Draw(rt, "twin") > 0 {
			t := twins[rapid.IntRange(0, len(twins)-1).Draw(rt, "twinidx")]
			e, ki, forceTwin = ents[t.e], t.k, true
		}
		// a union key with a string member: the map key becomes the STRING whose text equals the key leaf's
		// number / name (another value of the union: 10 and "10" are different keys)
		if alt, ok := sameTextAsString(f.KeyFields[ki].Type, e.Key[ki]); ok && (forceTwin || rapid.Bool().Draw(rt, "sametext")) {
			old := model.KeyCanon(e.Key)
			e.Key = append([]model.Val(nil), e.Key...)
			e.Key[ki] = alt
			flt.Desc = fmt.Sprintf("map key changed from [%s] to the string member with the same text [%s]; key leaves unchanged", old, model.KeyCanon(e.Key))
			flt.Where.InEntry = true
			flt.Field = f.Name + " (same text, other union member)"
			return flt, true
		}
		nk, ok := freshKeyVal(rt, v, f.KeyFields[ki], a, func(x model.Val) bool {
			trial := append([]model.Val(nil), e.Key...)
			trial[ki] = x
			for _, o := range ents {
				if model.KeyLoose(o.Key) == model.KeyLoose(trial) {
					return true
				}
			}
			return false
		})
		if !ok {
			return fault{}, false
		}
		old := model.KeyCanon(e.Key)
		e.Key = append([]model.Val(nil), e.Key...)
		e.Key[ki] = nk
		flt.Desc = fmt.Sprintf("map key changed from [%s] to [%s]; key leaves unchanged", old, model.KeyCanon(e.Key))
		flt.Where.InEntry = true
	case kind == kDupLL:
		l := n.LL[f.Name]
		d := l[rapid.IntRange(0, len(l)-1).Draw(rt, "dupidx")]
		pos := rapid.IntRange(0, len(l)).Draw(rt, "duppos")
		nl := append([]model.Val(nil), l[:pos]...)
		nl = append(nl, d)
		nl = append(nl, l[pos:]...)
		n.LL[f.Name] = nl
		flt.Desc = fmt.Sprintf("leaf-list now %v", nl)
	case kind == kListMax && f.Kind == model.FUList:
		// a list without keys: entries have no identity, any number of (empty) entries can be added
		ul := append([]*model.Node(nil), n.UList[f.Name]...)
		for len(ul) <= int(f.Max) {
			ul = append(ul, model.GenNode(rt, f.Child, model.GenOpts{PlainStrings: true, Sparse: true}))
		}
		n.UList[f.Name] = ul
		flt.Desc = fmt.Sprintf("keyless list has %d entries, max-elements %d", len(ul), f.Max)
	case kind == kListMax:
		ents := n.List[f.Name]
		for len(ents) <= int(f.Max) {
			key := make([]model.Val, len(f.KeyFields))
			okAll := true
			for i, kf := range f.KeyFields {
				x, ok := freshKeyVal(rt, v, kf, a, func(model.Val) bool { return false })
				if !ok {
					okAll = false
				}
				key[i] = x
			}
			if !okAll {
				return fault{}, false
			}
			dup := false
			for _, o := range ents {
				if model.KeyLoose(o.Key) == model.KeyLoose(key) {
					dup = true
				}
			}
			if dup {
				continue
			}
			ents = append(ents, model.NewEntry(f, key))
		}
		n.List[f.Name] = ents
		flt.Desc = fmt.Sprintf("list has %d entries, max-elements %d", len(ents), f.Max)
	case kind == kLLMax || kind == kLLMin:
		want := int(f.Max) + 1
		if kind == kLLMin {
			want = rapid.IntRange(1, int(f.Min)-1).Draw(rt, "llcount")
		}
		l := append([]model.Val(nil), n.LL[f.Name]...)
		if len(l) > want {
			l = l[:want]
		}
		seen := map[string]bool{}
		for _, x := range l {
			seen[x.LooseCanon()] = true
		}
		for tries := 0; len(l) < want && tries < 200; tries++ {
			x := model.GenVal(rt, v, f.Type, model.GenOpts{PlainStrings: true}, "llval")
			if seen[x.LooseCanon()] || a.avoid(f, x) {
				continue
			}
			seen[x.LooseCanon()] = true
			l = append(l, x)
		}
		if len(l) != want {
			return fault{}, false
		}
		n.LL[f.Name] = l
		flt.Desc = fmt.Sprintf("leaf-list has %d elements %v, min-elements %d, max-elements %d", len(l), l, f.Min, f.Max)
	case kind == kTwoCases:
		// populate a leaf of a case other than a selected one (or two leaves of two cases)
		sel := selectedCases(n)
		var other []*model.FieldInfo // leaves whose population gives some choice a second case
		for _, g := range n.SI.Fields {
			if g.Kind == model.FLeaf && len(g.Choices) > 0 && g.Type.Leafref == "" && wouldConflict(n, g) {
				other = append(other, g)
			}
		}
		set := func(g *model.FieldInfo) {
			x := model.GenVal(rt, v, g.Type, model.GenOpts{PlainStrings: true}, "caseleaf")
			n.Leaf[g.Name] = x
			flt.Desc += fmt.Sprintf("set %s=%s (choice path %v); ", g.Name, x, g.Choices)
		}
		// one time out of two, when the node has a choice nested in a case: two cases of the INNER choice and
		// nothing from the other cases of the outer one (the inner choice is validated on its own code path)
		if pairs := innerChoicePairs(n.SI); len(pairs) > 0 && rapid.Bool().Draw(rt, "innerpair") {
			pr := pairs[rapid.IntRange(0, len(pairs)-1).Draw(rt, "pair")]
			outer := pr[0].Choices[0]
			for _, g := range n.SI.Fields {
				if len(g.Choices) > 0 && g.Choices[0].Choice == outer.Choice && g != pr[0] && g != pr[1] {
					delete(n.Leaf, g.Name)
					delete(n.LL, g.Name)
					delete(n.Cont, g.Name)
					delete(n.List, g.Name)
				}
			}
			set(pr[0])
			set(pr[1])
			flt.Field = "(inner choice)"
			return flt, true
		}
		if len(other) > 0 {
			// half of the time a leaf of a nested choice, when there is one: the inner choice is validated
			// by a different code path than the outer one
			var inner []*model.FieldInfo
			for _, g := range other {
				if len(g.Choices) > 1 {
					inner = append(inner, g)
				}
			}
			if len(inner) > 0 && rapid.Bool().Draw(rt, "preferinner") {
				other = inner
			}
			set(other[rapid.IntRange(0, len(other)-1).Draw(rt, "other")])
		} else {
			if len(sel) != 0 {
				return fault{}, false
			}
			// nothing selected in this node: pick two leaves that differ in the case of a shared choice
			var ls []*model.FieldInfo
			for _, g := range n.SI.Fields {
				if g.Kind == model.FLeaf && len(g.Choices) > 0 && g.Type.Leafref == "" {
					ls = append(ls, g)
				}
			}
			if len(ls) < 2 {
				return fault{}, false
			}
			g1 := ls[rapid.IntRange(0, len(ls)-1).Draw(rt, "g1")]
			set(g1)
			var second []*model.FieldInfo
			for _, g := range ls {
				if g != g1 && wouldConflict(n, g) {
					second = append(second, g)
				}
			}
			if len(second) == 0 {
				return fault{}, false
			}
			set(second[rapid.IntRange(0, len(second)-1).Draw(rt, "g2")])
		}
		flt.Field = "(choice)"
	}
	return flt, true
}

// sameTextAsString: for a union with an unrestricted string member, the string value whose text is the
// lexical form of cur (a value of another member).
func sameTextAsString(lt *model.LType, cur model.Val) (model.Val, bool) {
	if lt == nil || len(lt.Members) == 0 || cur.K == model.KStr || cur.K == model.KBin || cur.K == model.KEmpty {
		return model.Val{}, false
	}
	for _, m := range lt.Members {
		if m.VKind() == model.KStr && len(m.Patterns) == 0 && len(m.Length) == 0 && m.Leafref == "" {
			return model.Val{K: model.KStr, S: cur.Lexical()}, true
		}
	}
	return model.Val{}, false
}

// innerChoicePairs lists the pairs of plain leaves of one struct that lie in different cases of a choice
// which is itself nested in a case of another choice (same outer case for both).
func innerChoicePairs(si *model.StructInfo) [][2]*model.FieldInfo {
	var out [][2]*model.FieldInfo
	ok := func(g *model.FieldInfo) bool {
		return g.Kind == model.FLeaf && len(g.Choices) >= 2 && g.Type != nil && g.Type.Leafref == "" && !g.IsKey
	}
	for i, a := range si.Fields {
		if !ok(a) {
			continue
		}
		for _, b := range si.Fields[i+1:] {
			if !ok(b) || len(b.Choices) != len(a.Choices) {
				continue
			}
			same := true
			last := len(a.Choices) - 1
			for k := 0; k < last; k++ {
				same = same && a.Choices[k] == b.Choices[k]
			}
			if same && a.Choices[last].Choice == b.Choices[last].Choice && a.Choices[last].Case != b.Choices[last].Case {
				out = append(out, [2]*model.FieldInfo{a, b})
			}
		}
	}
	return out
}

// wantFor builds the GenOpts.Want predicate that makes sites for `kind` likely.
func wantFor(kind string) func(*model.FieldInfo) bool {
	memo := map[*model.FieldInfo]bool{}
	return func(f *model.FieldInfo) bool {
		return subtreeHas(f, func(g *model.FieldInfo) bool { return hostField(kind, g) }, memo)
	}
}

// TestC07 checks that Validate accepts trees that are valid by construction and rejects every
// single-fault mutation of them (DESIGN.md 5/C07).
func TestC07(t *testing.T) {
	rec := ev.Start(t, "C07")
	rec.Rule("variant x tree valid by construction (model.GenTree: restrictions, unique config leaf-lists, key = key leaves, one case per choice, " +
		"element counts within bounds, leafrefs satisfied) -> generated root.Validate() and Validate(IgnoreMissingData) must be nil; then exactly one fault " +
		"of a closed catalogue (" + strings.Join(allKinds, ", ") + ") is injected into a clone (model edit before Build) -> both must return an error; " +
		"oracle by construction; non-trivial = a fault was injected below depth 2 or inside a list entry; distinct by variant+fault+tree")
	rec.Assume("an absent list with min-elements > 0 is not injected (mandatory-style checks are documented as unimplemented); " +
		"undefined enum values are injected into plain enumeration/identityref leaves and into unions without an int64 member only; " +
		"union-no-member values are values whose lexical form is outside every member's value space; " +
		"wrapper-union list keys are stored as one shared value in map key and key leaf, as every ygot constructor does")
	witnessF12Enum(rec)
	witnessF12Dup(rec)
	witnessF12Bounds(rec)
	witnessF27(rec)
	witnessF1(rec)
	witnessF51(rec)
	injected := newCounter()
	applicable := map[string]bool{}
	cases := 0
	rapid.Check(t, func(rt *rapid.T) {
		cases++
		v := th.PickVariant(rt, "vtu", "vtu", "vtu2", "vtw", "vtw", "vocc", "voco", "vocu", "voccw")
		kinds := kindsFor(v)
		for _, k := range kinds {
			applicable[k] = true
		}
		kind := rapid.SampledFrom(kinds).Draw(rt, "fault")
		a := activeOf(rec)
		o := model.GenOpts{Avoid: a.genAvoid(rt), Want: wantFor(kind)}
		m := model.GenTree(rt, v, o)
		keepDistinct := rapid.IntRange(0, 15).Draw(rt, "distinctkeys") == 0 || !rec.Active(fWKeyID)
		keepDistinct = keepDistinct && v.Wrapper

		// ---- part 1: the valid tree --------------------------------------------------------------
		checkValid := func(m *model.Node, what string) {
			for _, mode := range []string{"default", "IgnoreMissingData"} {
				var opts []ygot.ValidationOption
				if mode == "IgnoreMissingData" {
					opts = append(opts, ignoreMissing())
				}
				err := validate(build(v, m, keepDistinct), opts...)
				if err == nil {
					continue
				}
				lines := errLines(err)
				if keepDistinct && hasWrapperUnionKey(m) {
					var rest []string
					for _, l := range lines {
						if !sigF51(l) {
							rest = append(rest, l)
						}
					}
					if len(rest) < len(lines) && rec.Excuse(fWKeyID, true) {
						lines = rest
					}
				}
				if len(lines) == 0 {
					continue
				}
				if bad := excuseValid(rec, m, lines); len(bad) > 0 {
					rt.Fatalf("Validate(%s) rejects a %s (variant %s):\n  %s\nfull error: %v\ntree:\n%s", mode, what, v.Name, strings.Join(bad, "\n  "), err, m.Dump())
				}
			}
		}
		checkValid(m, "tree that is valid by construction")
		if stripKnown(rec, m) > 0 {
			if dg := model.Dangling(m); len(dg) > 0 {
				rt.Fatalf("HARNESS-BUG: removing known-finding triggers left dangling leafrefs %v\n%s", dg, m.Dump())
			}
			checkValid(m, "valid tree (triggers of open findings removed)")
		}

		// ---- part 2: one injected fault -----------------------------------------------------------
		fm := m.Clone()
		flt, ok := inject(rt, v, fm, kind, a)
		st := m.Stat()
		classes := append(th.TreeClasses(v, st), "fault-wanted:"+kind)
		if !ok {
			rec.Case(v.Name+"|none|"+m.Dump(), false, append(classes, "fault:none")...)
			return
		}
		injected.inc(kind)
		nt := flt.Where.Depth >= 2 || flt.Where.InEntry
		if strings.Contains(flt.Field, "same text") {
			classes = append(classes, "fault:key-same-text-other-union-member")
		}
		if flt.Field == "(inner choice)" {
			classes = append(classes, "fault:two-cases-of-nested-choice")
		}
		rec.Case(v.Name+"|"+flt.String()+"|"+fm.Dump(), nt, append(classes, "fault:"+kind)...)
		if rec.WantSample() {
			rec.Sample(map[string]string{"variant": v.Name, "fault": flt.String(), "tree": th.Trunc(fm.Dump(), 1200)})
		}
		for _, mode := range []string{"default", "IgnoreMissingData"} {
			var opts []ygot.ValidationOption
			if mode == "IgnoreMissingData" {
				opts = append(opts, ignoreMissing())
			}
			err := validate(build(v, fm, false), opts...)
			if err != nil {
				debugOnce(kind+"/"+v.Name, flt.String()+" => "+strings.Join(errLines(err), " || "))
				continue
			}
			switch {
			case (kind == kEnum || kind == kIdent) && rec.Excuse(fEnumID, true):
			case kind == kDupLL && rec.Excuse(fDupLLID, true):
			case (kind == kLLMax || kind == kLLMin) && rec.Excuse(fLLBoundID, true):
			default:
				rt.Fatalf("Validate(%s) = nil for a tree with one injected fault (variant %s): %s\nfaulted tree:\n%s", mode, v.Name, flt, fm.Dump())
			}
		}
	})
	rec.Set("faults_injected", injected.String())
	if cases >= 250 {
		for k := range applicable {
			if injected.get(k) == 0 {
				inconclusive(t, "fault kind %q was never injected in %d cases (%s)", k, cases, injected)
			}
		}
		if len(applicable) < len(allKinds) {
			inconclusive(t, "only %d of %d fault kinds are applicable to the variants drawn", len(applicable), len(allKinds))
		}
	}
}

// TestC07_ListBelowMin covers the catalogue entry "non-empty list below min-elements", which the
// corpus cannot express (its only bounded list has min-elements 1): a private copy of the generated
// schema gets min-elements 2 for /top/keyed/bounded and ytypes.Validate is called with it.
func TestC07_ListBelowMin(t *testing.T) {
	rec := ev.Start(t, "C07")
	witnessF27(rec)
	witnessF1(rec)
	names := []string{"vtu"}
	if ev.Thorough() {
		names = append(names, "vtw")
	}
	for _, name := range names {
		v := variants.Get(name)
		v.MustInit()
		sch := v.FreshSchema()
		be := sch.RootSchema().Dir["top"].Dir["keyed"].Dir["bounded"]
		if be == nil || be.ListAttr == nil || be.ListAttr.MinElements != 1 || be.ListAttr.MaxElements != 3 {
			t.Fatalf("HARNESS-BUG: /top/keyed/bounded not found or its bounds changed: %+v", be)
		}
		be.ListAttr.MinElements = 2
		seen := map[int]int{}
		rapid.Check(t, func(rt *rapid.T) {
			a := activeOf(rec)
			m := model.GenTree(rt, v, model.GenOpts{Sparse: true, Avoid: a.avoid, Want: func(f *model.FieldInfo) bool {
				return f.Name == "Top" || f.Name == "Keyed" || f.Name == "Bounded"
			}})
			stripKnown(rec, m)
			cnt := 0
			if top := m.Cont["Top"]; top != nil {
				if k := top.Cont["Keyed"]; k != nil {
					cnt = len(k.List["Bounded"])
				}
			}
			seen[cnt]++
			gs := build(v, m, false)
			errs := ytypes.Validate(sch.RootSchema(), gs)
			wantErr := cnt == 1
			rec.Case(fmt.Sprintf("listmin|%s|%d|%s", name, cnt, m.Dump()), cnt >= 1, "fault:list-below-min(schema copy)", fmt.Sprintf("bounded-entries:%d", cnt))
			if (errs != nil) != wantErr {
				rt.Fatalf("ytypes.Validate with min-elements 2, max-elements 3 on /top/keyed/bounded holding %d entries: got %v, want error=%v\ntree:\n%s", cnt, errs, wantErr, m.Dump())
			}
		})
		if seen[1] == 0 || seen[2]+seen[3] == 0 {
			inconclusive(t, "list-below-min: entry-count classes missing for %s: %v", name, seen)
		}
	}
}
