package t3

import (
	"fmt"
	"regexp"
	"strings"
	"testing"

	"pgregory.net/rapid"
	"verifharness/model"
	"verifharness/variants"
)

var reNum = regexp.MustCompile(`-?[0-9][0-9.e+]*|&\{[^}]*\}|map key .*|for key field U.*|value \S+ `)

func TestProbe(t *testing.T) {
	for _, name := range []string{"vtu", "vtw", "vocc", "voco", "vocu", "voccw"} {
		v := variants.Get(name)
		v.MustInit()
		fails := map[string]int{}
		n := 0
		rapid.Check(t, func(rt *rapid.T) {
			m := model.GenTree(rt, v, model.GenOpts{})
			gs := model.Build(m)
			n++
			type val interface{ Validate(...interface{}) error }
			if err := validateRoot(gs); err != nil {
				for _, s := range strings.Split(err.Error(), "\n") {
					s = reNum.ReplaceAllString(s, "N")
					if len(s) > 200 {
						s = s[:200]
					}
					fails[s]++
				}
			}
		})
		fmt.Printf("== %s: %d cases\n", name, n)
		for k, c := range fails {
			fmt.Printf("  %4d %s\n", c, k)
		}
	}
}
