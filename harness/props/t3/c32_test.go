package t3

import (
	"fmt"
	"testing"

	"github.com/openconfig/ygot/ygot"
	"github.com/openconfig/ygot/ytypes"
	"pgregory.net/rapid"
	"verifharness/ev"
	"verifharness/model"
	"verifharness/th"
)

// appliedConfig: the field's schema node is state/x and a sibling config/x exists in the harness's own
// goyang tree (OpenConfig's "applied configuration": config-false data that mirrors a config-true leaf).
// Independent of the ygot-oc-compressed-leaf annotation the generator adds to the embedded schema.
func appliedConfig(f *model.FieldInfo) bool {
	e := f.Entry
	if e == nil || e.Parent == nil || e.Parent.Name != "state" || e.Parent.Parent == nil {
		return false
	}
	cfg := e.Parent.Parent.Dir["config"]
	return cfg != nil && cfg.Dir[e.Name] != nil
}

// keepAfterPrune is the documented rule of ygot.PruneConfigFalse: uncompressed GoStructs lose every
// config-false node; compressed GoStructs lose derived state only, i.e. config-false nodes without a
// config-true sibling.
func keepAfterPrune(v *model.Variant, f *model.FieldInfo) bool {
	if f.Config {
		return true
	}
	return v.Compressed && appliedConfig(f)
}

type pruneStats struct{ removed, kept, applied int }

// refPrune applies the rule to the model in place.
func refPrune(v *model.Variant, n *model.Node, st *pruneStats) {
	if n == nil {
		return
	}
	for _, f := range n.SI.Fields {
		pop := populated(n, f)
		if !keepAfterPrune(v, f) {
			if pop {
				st.removed++
			}
			delete(n.Leaf, f.Name)
			delete(n.LL, f.Name)
			delete(n.EmptyLL, f.Name)
			delete(n.Cont, f.Name)
			delete(n.List, f.Name)
			delete(n.UList, f.Name)
			continue
		}
		if pop && (f.Kind == model.FLeaf || f.Kind == model.FLeafList) {
			st.kept++
			if !f.Config {
				st.applied++
			}
		}
		switch f.Kind {
		case model.FCont:
			refPrune(v, n.Cont[f.Name], st)
		case model.FList, model.FOrdList:
			for _, e := range n.List[f.Name] {
				refPrune(v, e.N, st)
			}
		case model.FUList:
			for _, e := range n.UList[f.Name] {
				refPrune(v, e, st)
			}
		}
	}
}

// hasAppliedConfig: the tree holds a value at a state/x node that has a config/x sibling.
func hasAppliedConfig(m *model.Node) bool {
	return m.AnyField(func(n *model.Node, f *model.FieldInfo) bool {
		return (f.Kind == model.FLeaf || f.Kind == model.FLeafList) && !f.Config && appliedConfig(f)
	})
}

// TestC32 checks that PruneConfigFalse removes exactly derived state (DESIGN.md 5/C32).
func TestC32(t *testing.T) {
	rec := ev.Start(t, "C32")
	rec.Rule("variant (vtu, vocu uncompressed; vocc, voco compressed) x generated tree mixing config-true and config-false data; ygot.PruneConfigFalse(root schema entry of the generated package, root) " +
		"must return nil and leave a tree that the harness's reflective observer reads equal to the reference pruning of the model: uncompressed = every config-false node removed; compressed = config-false " +
		"fields removed unless their schema node is state/x with a sibling config/x in the harness's own goyang tree (the documented exception: applied configuration kept for its config counterpart); " +
		"equality covers every config-true value (unchanged) and every removed one; non-trivial = something was removed and something kept, and for vocu/voco the tree held applied configuration " +
		"(state/x with config/x sibling); distinct by variant+tree")
	rec.Assume("config flags come from goyang's Entry.Config inheritance (model.FieldInfo.Config), not from the schema embedded in the generated code")
	cnt := newCounter()
	cases := 0
	rapid.Check(t, func(rt *rapid.T) {
		cases++
		v := th.PickVariant(rt, "vtu", "vocu", "vocc", "voco")
		memo := map[*model.FieldInfo]bool{}
		o := model.GenOpts{Want: func(f *model.FieldInfo) bool {
			return subtreeHas(f, func(g *model.FieldInfo) bool { return !g.Config }, memo)
		}}
		switch rapid.IntRange(0, 2).Draw(rt, "density") {
		case 0:
			o.Dense = true
		case 1:
			o.Sparse = true
		}
		m := model.GenTree(rt, v, o)
		want := m.Clone()
		var st pruneStats
		refPrune(v, want, &st)
		want.Normalize()
		applied := hasAppliedConfig(m)
		nt := st.removed > 0 && st.kept > 0
		if v.Name == "vocu" || v.Name == "voco" {
			nt = nt && applied
		}
		classes := th.TreeClasses(v, m.Stat())
		add := func(c bool, s string) {
			if c {
				classes = append(classes, s)
				cnt.inc(s)
			}
		}
		add(st.removed > 0, "prune:removes")
		add(st.removed == 0, "prune:nothing-to-remove")
		add(applied, "prune:applied-config-present")
		add(st.applied > 0, "prune:applied-config-kept")
		add(nt, "prune:nontrivial")
		rec.Case(v.Name+"|"+m.Dump(), nt, classes...)
		th.SampleTree(rec, v, m, fmt.Sprintf("removed=%d kept=%d applied-kept=%d", st.removed, st.kept, st.applied))

		gs := model.Build(m)
		if err := ygot.PruneConfigFalse(v.Schema().RootSchema(), gs); err != nil {
			rt.Fatalf("PruneConfigFalse(%s root) returned an error: %v\ntree:\n%s", v.Name, err, m.Dump())
		}
		got := model.ObserveNorm(v, gs)
		if d := model.Diff(want, got, model.DiffOpts{Max: 12}); len(d) > 0 {
			rt.Fatalf("PruneConfigFalse result differs from the reference (variant %s; a = reference, b = ygot):\n  %s\ntree before:\n%s\nreference after:\n%s", v.Name, th.JoinDiff(d), m.Dump(), want.Dump())
		}
		// (2) the same call on a struct inside the tree (a container or list entry) with that struct's own
		// schema entry: the rule is the same; a struct that is config false only by inheritance loses all
		// of its fields ("if the input GoStruct is itself to be entirely pruned ...")
		if sites := model.Sites(m); len(sites) > 1 {
			s := sites[rapid.IntRange(1, len(sites)-1).Draw(rt, "subsite")]
			gs2 := model.Build(m)
			nodes, err := ytypes.GetNode(v.Schema().RootSchema(), gs2, model.PathProto(s.Elems))
			if err != nil || len(nodes) != 1 {
				rt.Fatalf("HARNESS-BUG: cannot reach %s in the built tree: %v (%d nodes)", model.ElemsID(s.Elems), err, len(nodes))
			}
			sub, ok := nodes[0].Data.(ygot.GoStruct)
			if !ok {
				rt.Fatalf("HARNESS-BUG: %s is a %T", model.ElemsID(s.Elems), nodes[0].Data)
			}
			wantSub := s.N.Clone()
			var st2 pruneStats
			refPrune(v, wantSub, &st2)
			wantSub.Normalize()
			inherited := len(s.Via) > 0 && !s.Via[len(s.Via)-1].Config
			if inherited {
				cnt.inc("prune:substruct-config-false")
			}
			cnt.inc("prune:substruct")
			if err := ygot.PruneConfigFalse(nodes[0].Schema, sub); err != nil {
				rt.Fatalf("PruneConfigFalse(%s) returned an error: %v\ntree:\n%s", model.ElemsID(s.Elems), err, m.Dump())
			}
			gotSub := model.Observe(v, sub).Normalize()
			if d := model.Diff(wantSub, gotSub, model.DiffOpts{Max: 12}); len(d) > 0 {
				rt.Fatalf("PruneConfigFalse called on the struct at %s (config false by inheritance: %v) differs from the reference (variant %s; a = reference, b = ygot):\n  %s\ntree before:\n%s", model.ElemsID(s.Elems), inherited, v.Name, th.JoinDiff(d), m.Dump())
			}
		}
	})
	rec.Set("c32_counts", cnt.String())
	if cases >= 300 {
		if cnt.get("prune:nontrivial")*4 < cases {
			inconclusive(t, "fewer than 25%% of %d cases are non-trivial: %s", cases, cnt)
		}
		if cnt.get("prune:applied-config-kept")*20 < cases || cnt.get("prune:nothing-to-remove") == 0 {
			inconclusive(t, "applied configuration kept in fewer than 5%% of %d cases, or no case without config-false data: %s", cases, cnt)
		}
	}
}
