package t3

import (
	"fmt"
	"sort"
	"strings"
	"testing"

	"github.com/openconfig/ygot/ygot"
	"github.com/openconfig/ygot/ytypes"
	"pgregory.net/rapid"
	"verifharness/ev"
	"verifharness/model"
	"verifharness/th"
	"verifharness/variants"
)

// ---- hand-written cases: cross-check of the reference evaluator (model.Dangling) and of ygot --------------

type lrCase struct {
	name    string
	variant string
	build   func(v *model.Variant, root *model.Node)
	want    []string // suffixes "<leaf name>=<loose canon>" of the expected dangling references
}

func i64(x int64) model.Val  { return model.Val{K: model.KInt64, I: x} }
func i16(x int64) model.Val  { return model.Val{K: model.KInt16, I: x} }
func u32(x uint64) model.Val { return model.Val{K: model.KUint32, U: x} }

// addEntry appends a minimal entry with the given key to list field name of n and returns its node.
func addEntry(n *model.Node, name string, key ...model.Val) *model.Node {
	f := mustField(n, name)
	e := model.NewEntry(f, key)
	n.List[name] = append(n.List[name], e)
	return e.N
}

func vtTop(root *model.Node) (top, keyed, refs *model.Node) {
	top = child(root, "Top")
	return top, child(top, "Keyed"), child(top, "Refs")
}

// vocItem adds item `name` (with subs indexes) to a voc tree of any variant and returns the entry node.
func vocItem(v *model.Variant, root *model.Node, name string, subs ...uint64) *model.Node {
	holder := root
	if !v.Compressed {
		holder = child(root, "Items")
	}
	it := addEntry(holder, "Item", str(name))
	sh := it
	if !v.Compressed {
		sh = child(it, "Subs")
	}
	for _, s := range subs {
		addEntry(sh, "Sub", u32(s))
	}
	return it
}

// vocRef returns the node that holds the target / target-sub leaves of item entry it.
func vocRef(v *model.Variant, it *model.Node) *model.Node {
	r := child(it, "Ref")
	if !v.Compressed {
		return child(r, "Config")
	}
	return r
}

var lrCases = []lrCase{
	{"empty", "vtu", func(v *model.Variant, r *model.Node) {}, nil},
	{"absolute-ok", "vtu", func(v *model.Variant, r *model.Node) {
		_, k, refs := vtTop(r)
		addEntry(k, "KStr", str("a"))
		refs.Leaf["ToStrKey"] = str("a")
	}, nil},
	{"absolute-dangling", "vtu", func(v *model.Variant, r *model.Node) {
		_, k, refs := vtTop(r)
		addEntry(k, "KStr", str("a"))
		refs.Leaf["ToStrKey"] = str("b")
	}, []string{`to-str-key=str:"b"`}},
	{"absolute-no-target-list", "vtw", func(v *model.Variant, r *model.Node) {
		_, _, refs := vtTop(r)
		refs.Leaf["ToStrKey"] = str("b")
	}, []string{`to-str-key=str:"b"`}},
	{"empty-string-value", "vtu", func(v *model.Variant, r *model.Node) {
		_, k, refs := vtTop(r)
		addEntry(k, "KStr", str("a"))
		refs.Leaf["ToStrKey"] = str("")
	}, []string{`to-str-key=str:""`}},
	{"empty-string-key-ok", "vtu", func(v *model.Variant, r *model.Node) {
		_, k, refs := vtTop(r)
		addEntry(k, "KStr", str(""))
		refs.Leaf["ToStrKey"] = str("")
	}, nil},
	{"relative-ok", "vtu", func(v *model.Variant, r *model.Node) {
		_, k, refs := vtTop(r)
		addEntry(k, "KI64", i64(5))
		refs.Leaf["ToI64Key"] = i64(5)
	}, nil},
	{"relative-dangling-zero", "vtu", func(v *model.Variant, r *model.Node) {
		_, k, refs := vtTop(r)
		addEntry(k, "KI64", i64(5))
		refs.Leaf["ToI64Key"] = i64(0)
	}, []string{`to-i64-key=i64:0`}},
	{"predicate-ok", "vtu", func(v *model.Variant, r *model.Node) {
		_, k, refs := vtTop(r)
		addEntry(addEntry(k, "Mk2", str("a"), u32(1)), "Sub", i16(1))
		addEntry(addEntry(k, "Mk2", str("b"), u32(2)), "Sub", i16(2))
		refs.Leaf["PickA"] = str("b")
		refs.Leaf["PickSub"] = i16(2)
	}, nil},
	{"predicate-selects-other-entry", "vtu", func(v *model.Variant, r *model.Node) {
		_, k, refs := vtTop(r)
		addEntry(addEntry(k, "Mk2", str("a"), u32(1)), "Sub", i16(1))
		addEntry(addEntry(k, "Mk2", str("b"), u32(2)), "Sub", i16(2))
		refs.Leaf["PickA"] = str("a")
		refs.Leaf["PickSub"] = i16(2)
	}, []string{`pick-sub=i16:2`}},
	{"predicate-partial-key-two-entries", "vtw", func(v *model.Variant, r *model.Node) {
		_, k, refs := vtTop(r)
		addEntry(addEntry(k, "Mk2", str("a"), u32(1)), "Sub", i16(1))
		addEntry(addEntry(k, "Mk2", str("a"), u32(2)), "Sub", i16(3))
		refs.Leaf["PickA"] = str("a")
		refs.Leaf["PickSub"] = i16(3)
	}, nil},
	{"predicate-operand-unset", "vtu", func(v *model.Variant, r *model.Node) {
		_, k, refs := vtTop(r)
		addEntry(addEntry(k, "Mk2", str("a"), u32(1)), "Sub", i16(1))
		refs.Leaf["PickSub"] = i16(1)
	}, []string{`pick-sub=i16:1`}},
	{"predicate-operand-dangling-too", "vtu", func(v *model.Variant, r *model.Node) {
		_, k, refs := vtTop(r)
		addEntry(addEntry(k, "Mk2", str("a"), u32(1)), "Sub", i16(1))
		refs.Leaf["PickA"] = str("zz")
		refs.Leaf["PickSub"] = i16(1)
	}, []string{`pick-a=str:"zz"`, `pick-sub=i16:1`}},
	{"leaflist-of-leafref", "vtu", func(v *model.Variant, r *model.Node) {
		_, k, refs := vtTop(r)
		addEntry(k, "KStr", str("a"))
		addEntry(k, "KStr", str("b"))
		refs.LL["Many"] = []model.Val{str("a"), str("zz"), str("b")}
	}, []string{`many=str:"zz"`}},
	{"leaflist-of-leafref-ok", "vtw", func(v *model.Variant, r *model.Node) {
		_, k, refs := vtTop(r)
		addEntry(k, "KStr", str("a"))
		addEntry(k, "KStr", str("b"))
		refs.LL["Many"] = []model.Val{str("b"), str("a")}
	}, nil},
	{"leafref-to-leaflist-ok", "vtu", func(v *model.Variant, r *model.Node) {
		top, _, refs := vtTop(r)
		top.LL["LlS"] = []model.Val{str("x"), str("y")}
		refs.Leaf["ToLl"] = str("y")
	}, nil},
	{"leafref-to-leaflist-dangling", "vtu", func(v *model.Variant, r *model.Node) {
		top, _, refs := vtTop(r)
		top.LL["LlS"] = []model.Val{str("x"), str("y")}
		refs.Leaf["ToLl"] = str("q")
	}, []string{`to-ll=str:"q"`}},
	{"leafref-key-ok", "vtu", func(v *model.Variant, r *model.Node) {
		_, k, _ := vtTop(r)
		addEntry(k, "KStr", str("a"))
		addEntry(k, "KRefStr", str("a"))
	}, nil},
	{"leafref-key-dangling", "vtu", func(v *model.Variant, r *model.Node) {
		_, k, _ := vtTop(r)
		addEntry(k, "KStr", str("a"))
		addEntry(k, "KRefStr", str("a"))
		addEntry(k, "KRefStr", str("q"))
	}, []string{`/k=str:"q"`}},
	{"leafref-enum-key", "vtu", func(v *model.Variant, r *model.Node) {
		_, k, _ := vtTop(r)
		lt := mustField(k, "KEnum").KeyFields[0].Type
		addEntry(k, "KEnum", enumByName(lt, "RED"))
		lr := mustField(k, "KRefEnum").KeyFields[0].Type
		addEntry(k, "KRefEnum", enumByName(lr, "RED"))
		addEntry(k, "KRefEnum", enumByName(lr, "x.y"))
	}, []string{`/k=enum:x.y`}},
	{"voc-item-self-key-ok", "vocu", func(v *model.Variant, r *model.Node) { vocItem(v, r, "a", 1) }, nil},
	{"voc-item-key-leaf-vs-config", "vocu", func(v *model.Variant, r *model.Node) {
		it := vocItem(v, r, "a")
		child(it, "Config").Leaf["Name"] = str("b")
	}, []string{`/name=str:"a"`}},
	{"voc-target-ok", "vocu", func(v *model.Variant, r *model.Node) {
		a := vocItem(v, r, "a", 1)
		vocItem(v, r, "b", 2)
		ref := vocRef(v, a)
		ref.Leaf["Target"] = str("b")
		ref.Leaf["TargetSub"] = u32(2)
	}, nil},
	{"voc-target-sub-other-item", "vocu", func(v *model.Variant, r *model.Node) {
		a := vocItem(v, r, "a", 1)
		vocItem(v, r, "b", 2)
		ref := vocRef(v, a)
		ref.Leaf["Target"] = str("a")
		ref.Leaf["TargetSub"] = u32(2)
	}, []string{`target-sub=u32:2`}},
	{"voc-state-target-dangling", "vocu", func(v *model.Variant, r *model.Node) {
		a := vocItem(v, r, "a", 1)
		child(child(a, "Ref"), "State").Leaf["Target"] = str("nope")
	}, []string{`state/target=str:"nope"`}},
	{"vocc-target-ok", "vocc", func(v *model.Variant, r *model.Node) {
		a := vocItem(v, r, "a", 1)
		vocItem(v, r, "b", 2)
		ref := vocRef(v, a)
		ref.Leaf["Target"] = str("b")
		ref.Leaf["TargetSub"] = u32(2)
	}, nil},
	{"vocc-target-sub-other-item", "vocc", func(v *model.Variant, r *model.Node) {
		a := vocItem(v, r, "a", 1)
		vocItem(v, r, "b", 2)
		ref := vocRef(v, a)
		ref.Leaf["Target"] = str("a")
		ref.Leaf["TargetSub"] = u32(2)
	}, []string{`target-sub=u32:2`}},
	{"vocc-neighbour-peer", "vocc", func(v *model.Variant, r *model.Node) {
		a := vocItem(v, r, "a")
		vocItem(v, r, "b")
		addEntry(a, "Neighbour", str("b"))
		addEntry(a, "Neighbour", str("ghost"))
	}, []string{`peer=str:"ghost"`}},
}

// TestC30_Fixed replays the hand-written leafref cases: the reference evaluator must give the expected
// dangling set (HARNESS-BUG otherwise), and Validate must agree with it.
func TestC30_Fixed(t *testing.T) {
	rec := ev.Start(t, "C30")
	witnessF50(rec)
	witnessF52(rec)
	witnessF92(rec)
	witnessF100(rec)
	for _, c := range lrCases {
		v := variants.Get(c.variant)
		v.MustInit()
		root := model.NewNode(v.Root)
		c.build(v, root)
		root.Normalize()
		got := model.Dangling(root)
		okRef := len(got) == len(c.want)
		for _, w := range c.want {
			found := false
			for _, g := range got {
				if strings.HasSuffix(g, w) {
					found = true
				}
			}
			okRef = okRef && found
		}
		if !okRef {
			t.Errorf("HARNESS-BUG: model.Dangling on hand-written case %q (%s): got %v, want suffixes %v\ntree:\n%s", c.name, c.variant, got, c.want, root.Dump())
			continue
		}
		rec.Case("fixed|"+c.name, true, "fixed-case", fmt.Sprintf("fixed-dangling:%d", len(c.want)))
		checkLeafrefVerdict(t.Fatalf, rec, v, root, got, "hand-written case "+c.name)
	}
}

// dref is one dangling reference found by the reference evaluator.
type dref struct {
	ID string
	V  model.Val
	LL bool // member of a leaf-list of leafref
}

// danglingRefs is model.Dangling with structure: every leafref leaf / leaf-list member whose value is
// not in the node set its path selects (model.LeafrefTargets).
func danglingRefs(m *model.Node) []dref {
	all := model.Instances(m, nil, model.InstOpts{AllAlts: true})
	var out []dref
	for _, in := range all {
		if in.Alt != 0 || !isLeafrefField(in.F) {
			continue
		}
		tg := model.LeafrefTargets(all, in)
		if in.F.Kind == model.FLeafList {
			for _, x := range in.LL {
				if _, ok := tg[x.LooseCanon()]; !ok {
					out = append(out, dref{in.ID(), x, true})
				}
			}
		} else if _, ok := tg[in.V.LooseCanon()]; !ok {
			out = append(out, dref{in.ID(), in.V, false})
		}
	}
	return out
}

func isZeroVal(x model.Val) bool {
	switch {
	case x.K.Signed():
		return x.I == 0
	case x.K.Unsigned():
		return x.U == 0
	}
	switch x.K {
	case model.KStr:
		return x.S == ""
	case model.KBool:
		return !x.Bool
	case model.KDec:
		return x.F == 0
	}
	return false
}

// onlyZeroLLMembers: every dangling reference is a zero-valued member of a leaf-list of leafref (F52).
func onlyZeroLLMembers(m *model.Node) bool {
	ds := danglingRefs(m)
	for _, d := range ds {
		if !d.LL || !isZeroVal(d.V) {
			return false
		}
	}
	return len(ds) > 0
}

// checkLeafrefVerdict compares Validate with the reference verdict in the three option modes.
func checkLeafrefVerdict(fatalf func(string, ...interface{}), rec *ev.Rec, v *model.Variant, m *model.Node, dangling []string, what string) {
	if n := len(danglingRefs(m)); n != len(dangling) {
		fatalf("HARNESS-BUG: danglingRefs (%d) and model.Dangling (%d: %v) disagree\n%s", n, len(dangling), dangling, m.Dump())
	}
	modes := []struct {
		name string
		opts []ygot.ValidationOption
	}{
		{"no options", nil},
		{"&LeafrefOptions{IgnoreMissingData:false}", []ygot.ValidationOption{&ytypes.LeafrefOptions{}}},
		{"&LeafrefOptions{IgnoreMissingData:true}", []ygot.ValidationOption{ignoreMissing()}},
		{"&LeafrefOptions{IgnoreMissingData:true, Log:true}", []ygot.ValidationOption{&ytypes.LeafrefOptions{IgnoreMissingData: true, Log: true}}},
	}
	for i, mode := range modes {
		err := validate(build(v, m, false), mode.opts...)
		wantErr := len(dangling) > 0 && i < 2
		switch {
		case err == nil && !wantErr:
		case err == nil && wantErr:
			if i == 1 && rec.Excuse(fLrOptID, true) {
				continue
			}
			if rec.Excuse(fLLZeroID, onlyZeroLLMembers(m)) {
				continue
			}
			if rec.Excuse(fLrStarID, onlyPredicateDangling(dangling) && m.AnyVal(func(_ *model.FieldInfo, x model.Val) bool { return x.K == model.KStr && x.S == "*" })) {
				continue
			}
			fatalf("Validate(%s) = nil although %d leafref value(s) are not in their target node set (variant %s, %s):\n  %s\ntree:\n%s",
				mode.name, len(dangling), v.Name, what, strings.Join(dangling, "\n  "), m.Dump())
		case err != nil && !wantErr:
			why := "every leafref is satisfied"
			if i >= 2 {
				why = "IgnoreMissingData is set"
			}
			fatalf("Validate(%s) returns an error although %s (variant %s, %s; reference dangling set %v):\n%v\ntree:\n%s",
				mode.name, why, v.Name, what, dangling, err, m.Dump())
		default:
			// an error is expected: it must consist of leafref errors only (the tree is otherwise valid)
			for _, l := range errLines(err) {
				if !sigLeafref(l) && !isChoiceHeader(l) {
					fatalf("Validate(%s) reports a non-leafref error on a tree whose only faults are dangling leafrefs (variant %s, %s): %s\nfull error: %v\ntree:\n%s",
						mode.name, v.Name, what, l, err, m.Dump())
				}
			}
		}
	}
}

// onlyPredicateDangling: every dangling reference belongs to a leafref whose path has a predicate.
func onlyPredicateDangling(dangling []string) bool {
	for _, d := range dangling {
		if !strings.Contains(d, "pick-sub") && !strings.Contains(d, "target-sub") {
			return false
		}
	}
	return len(dangling) > 0
}

// ---- generated cases --------------------------------------------------------------------------------------

func isLeafrefField(f *model.FieldInfo) bool {
	return (f.Kind == model.FLeaf || f.Kind == model.FLeafList) && f.Type != nil && f.Type.Leafref != ""
}

// keyLeavesEntry: the list has a key whose leafref points outside its own entry.
func externalKeyRef(f *model.FieldInfo) (int, bool) {
	for i, kf := range f.KeyFields {
		if kf.Type.Leafref == "" {
			continue
		}
		lp := model.ParseLeafrefPath(kf.Type.Leafref)
		ups := 0
		for _, s := range lp.Steps {
			if s.Up {
				ups++
			}
		}
		if lp.Absolute || ups > 1 {
			return i, true
		}
	}
	return 0, false
}

// hardLeafref: the leafref has a predicate or its path runs through a list keyed by a leafref.
func hardLeafref(f *model.FieldInfo) bool {
	if !isLeafrefField(f) {
		return false
	}
	if strings.Contains(f.Type.Leafref, "[") {
		return true
	}
	for e := f.Type.Target; e != nil; e = e.Parent {
		if !e.IsList() {
			continue
		}
		for _, k := range strings.Fields(e.Key) {
			if ke := e.Dir[k]; ke != nil && ke.Type != nil && ke.Type.Kind.String() == "leafref" && ke != f.Type.Target {
				return true
			}
		}
	}
	return false
}

// nodeAt is a node with its data-tree path.
type nodeAt struct {
	N    *model.Node
	Base []model.PElem
	Path string
}

func pathPlus(base []model.PElem, p []string) []model.PElem {
	out := make([]model.PElem, len(base), len(base)+len(p))
	copy(out, base)
	for _, s := range p {
		out = append(out, model.PElem{Name: s})
	}
	return out
}

func nodesAt(m *model.Node) []nodeAt {
	var out []nodeAt
	var rec func(n *model.Node, base []model.PElem, p string)
	rec = func(n *model.Node, base []model.PElem, p string) {
		if n == nil {
			return
		}
		out = append(out, nodeAt{n, base, p})
		for _, f := range n.SI.Fields {
			switch f.Kind {
			case model.FCont:
				if c, ok := n.Cont[f.Name]; ok {
					rec(c, pathPlus(base, f.Paths[0]), p+"/"+f.Name)
				}
			case model.FList, model.FOrdList:
				for _, e := range n.List[f.Name] {
					rec(e.N, model.EntryElems(base, f, 0, e.Key), p+"/"+f.Name+"["+model.KeyCanon(e.Key)+"]")
				}
			}
		}
	}
	rec(m, nil, "")
	return out
}

// freshFor draws a value of f's (target) type that is not in the set tg.
func freshFor(rt *rapid.T, v *model.Variant, f *model.FieldInfo, tg map[string]model.Val, also map[string]bool) (model.Val, bool) {
	// F52: zero-valued members of a leaf-list of leafref are kept rare
	noZero := f.Kind == model.FLeafList && rapid.IntRange(0, 7).Draw(rt, "zero-member-free") != 0
	for tries := 0; tries < 25; tries++ {
		x := model.GenVal(rt, v, f.Type, model.GenOpts{PlainStrings: tries%2 == 0}, "fresh")
		if noZero && isZeroVal(x) {
			continue
		}
		if _, in := tg[x.LooseCanon()]; in || also[x.LooseCanon()] {
			continue
		}
		return x, true
	}
	return model.Val{}, false
}

// mutateLeafrefs applies one random edit that may make leafrefs dangle (or, sometimes, satisfied again)
// while keeping every value inside its type. It returns a description, or "" if nothing was applicable.
func mutateLeafrefs(rt *rapid.T, v *model.Variant, m *model.Node) string {
	all := model.Instances(m, nil, model.InstOpts{AllAlts: true})
	targets := leafrefTargets(v)
	ops := []string{"dangle-leaf", "set-leaf", "leaflist", "key-entry", "inner-target", "remove-target", "move-leaf", "foreign"}
	// weighted first choice (the rarely applicable "foreign" edit is tried first more often), then the
	// remaining kinds in cyclic order until one applies
	first := rapid.SampledFrom([]int{0, 0, 1, 1, 2, 3, 4, 5, 6, 7, 7, 7, 7}).Draw(rt, "op")
	start := first
	for k := 0; k < len(ops); k++ {
		op := ops[(start+k)%len(ops)]
		switch op {
		case "dangle-leaf", "move-leaf", "foreign":
			var cs []model.Inst
			for _, in := range all {
				if in.Alt == 0 && in.F.Kind == model.FLeaf && isLeafrefField(in.F) && !in.F.IsKey {
					cs = append(cs, in)
				}
			}
			if op == "foreign" {
				// only leafrefs with a predicate can have values at the target schema node that are
				// outside the selected node set
				var ps []model.Inst
				for _, in := range cs {
					if !strings.Contains(in.F.Type.Leafref, "[") {
						continue
					}
					tg := model.LeafrefTargets(all, in)
					for _, o := range all {
						if o.Alt == 0 && o.F.Entry == in.F.Type.Target && o.F.Kind == model.FLeaf {
							if _, sel := tg[o.V.LooseCanon()]; !sel {
								ps = append(ps, in)
								break
							}
						}
					}
				}
				cs = ps
			}
			if len(cs) == 0 {
				continue
			}
			in := cs[rapid.IntRange(0, len(cs)-1).Draw(rt, "inst")]
			tg := model.LeafrefTargets(all, in)
			switch op {
			case "dangle-leaf":
				x, ok := freshFor(rt, v, in.F, tg, nil)
				if !ok {
					continue
				}
				in.Owner.Leaf[in.F.Name] = x
				return fmt.Sprintf("dangle-leaf %s: %s -> %s", in.ID(), in.V, x)
			case "move-leaf":
				ks := sortedValKeys(tg)
				if len(ks) < 2 {
					continue
				}
				x := tg[ks[rapid.IntRange(0, len(ks)-1).Draw(rt, "tgt")]]
				x.ET = in.V.ET
				in.Owner.Leaf[in.F.Name] = x
				return fmt.Sprintf("move-leaf %s: %s -> %s", in.ID(), in.V, x)
			default: // foreign: a value that exists at the target schema node, but outside the selected node set
				pool := map[string]model.Val{}
				for _, o := range all {
					if o.Alt != 0 || o.F.Entry != in.F.Type.Target {
						continue
					}
					vals := o.LL
					if o.F.Kind == model.FLeaf {
						vals = []model.Val{o.V}
					}
					for _, x := range vals {
						if _, in := tg[x.LooseCanon()]; !in {
							pool[x.LooseCanon()] = x
						}
					}
				}
				ks := sortedValKeys(pool)
				if len(ks) == 0 {
					continue
				}
				x := pool[ks[rapid.IntRange(0, len(ks)-1).Draw(rt, "foreign")]]
				x.ET = in.V.ET
				in.Owner.Leaf[in.F.Name] = x
				return fmt.Sprintf("foreign %s: %s -> %s (exists at the target schema node outside the selected node set)", in.ID(), in.V, x)
			}
		case "set-leaf", "leaflist":
			type cand struct {
				n nodeAt
				f *model.FieldInfo
			}
			var cs []cand
			for _, na := range nodesAt(m) {
				for _, f := range na.N.SI.Fields {
					if !isLeafrefField(f) || f.IsKey || wouldConflict(na.N, f) {
						continue
					}
					if op == "set-leaf" && f.Kind == model.FLeaf {
						if _, set := na.N.Leaf[f.Name]; !set {
							cs = append(cs, cand{na, f})
						}
					}
					if op == "leaflist" && f.Kind == model.FLeafList {
						cs = append(cs, cand{na, f})
					}
				}
			}
			if len(cs) == 0 {
				continue
			}
			c := cs[rapid.IntRange(0, len(cs)-1).Draw(rt, "site")]
			in := model.Inst{Elems: pathPlus(c.n.Base, c.f.Paths[0]), F: c.f, Owner: c.n.N}
			tg := model.LeafrefTargets(all, in)
			have := map[string]bool{}
			for _, x := range c.n.N.LL[c.f.Name] {
				have[x.LooseCanon()] = true
			}
			var x model.Val
			ks := sortedValKeys(tg)
			var free []string
			for _, k := range ks {
				if !have[k] {
					free = append(free, k)
				}
			}
			if len(free) > 0 && rapid.Bool().Draw(rt, "satisfied") {
				x = tg[free[rapid.IntRange(0, len(free)-1).Draw(rt, "tgt")]]
				if len(c.f.Type.Enum) > 0 {
					x.ET = c.f.Type.GoEnum
				}
			} else {
				var ok bool
				if x, ok = freshFor(rt, v, c.f, tg, have); !ok {
					continue
				}
			}
			if c.f.Kind == model.FLeaf {
				c.n.N.Leaf[c.f.Name] = x
			} else {
				c.n.N.LL[c.f.Name] = append(append([]model.Val(nil), c.n.N.LL[c.f.Name]...), x)
			}
			return fmt.Sprintf("%s %s/%s += %s", op, c.n.Path, c.f.Name, x)
		case "key-entry":
			type cand struct {
				n  nodeAt
				f  *model.FieldInfo
				ki int
			}
			var cs []cand
			for _, na := range nodesAt(m) {
				for _, f := range na.N.SI.Fields {
					if f.Kind != model.FList || wouldConflict(na.N, f) {
						continue
					}
					if ki, ok := externalKeyRef(f); ok && (f.Max == 0 || uint64(len(na.N.List[f.Name])) < f.Max) {
						cs = append(cs, cand{na, f, ki})
					}
				}
			}
			if len(cs) == 0 {
				continue
			}
			c := cs[rapid.IntRange(0, len(cs)-1).Draw(rt, "site")]
			key := make([]model.Val, len(c.f.KeyFields))
			okAll := true
			for i, kf := range c.f.KeyFields {
				have := map[string]bool{}
				for _, e := range c.n.N.List[c.f.Name] {
					have[e.Key[i].LooseCanon()] = true
				}
				x, ok := freshFor(rt, v, kf, nil, have)
				okAll = okAll && ok
				key[i] = x
			}
			if !okAll {
				continue
			}
			c.n.N.List[c.f.Name] = append(append([]*model.Entry(nil), c.n.N.List[c.f.Name]...), model.NewEntry(c.f, key))
			return fmt.Sprintf("key-entry %s/%s += [%s]", c.n.Path, c.f.Name, model.KeyCanon(key))
		case "inner-target":
			// a list key that is a leafref into its own entry (../config/x): change x, not the key
			type cand struct {
				e  *model.Entry
				f  *model.FieldInfo
				ki int
				n  nodeAt
			}
			var cs []cand
			for _, na := range nodesAt(m) {
				for _, f := range na.N.SI.Fields {
					if f.Kind != model.FList && f.Kind != model.FOrdList {
						continue
					}
					for ki, kf := range f.KeyFields {
						if kf.Type.Leafref == "" {
							continue
						}
						if on, tf := innerTarget(nil, f, kf); on == nil && tf == nil {
							continue
						}
						for _, e := range na.N.List[f.Name] {
							if on, tf := innerTarget(e.N, f, kf); on != nil && tf != kf {
								cs = append(cs, cand{e, f, ki, na})
							}
						}
					}
				}
			}
			if len(cs) == 0 {
				continue
			}
			c := cs[rapid.IntRange(0, len(cs)-1).Draw(rt, "site")]
			on, tf := innerTarget(c.e.N, c.f, c.f.KeyFields[c.ki])
			x, ok := freshFor(rt, v, tf, map[string]model.Val{c.e.Key[c.ki].LooseCanon(): c.e.Key[c.ki]}, nil)
			if !ok {
				continue
			}
			old := on.Leaf[tf.Name]
			on.Leaf[tf.Name] = x
			return fmt.Sprintf("inner-target %s/%s[%s] %s: %s -> %s", c.n.Path, c.f.Name, model.KeyCanon(c.e.Key), tf.Name, old, x)
		case "remove-target":
			type cand struct {
				n nodeAt
				f *model.FieldInfo
			}
			var cs []cand
			memo := map[*model.FieldInfo]bool{}
			for _, na := range nodesAt(m) {
				for _, f := range na.N.SI.Fields {
					if (f.Kind == model.FList || f.Kind == model.FOrdList) && uint64(len(na.N.List[f.Name])) > f.Min && len(na.N.List[f.Name]) > 0 &&
						subtreeHas(f, func(g *model.FieldInfo) bool { return targets[g.Entry] }, memo) {
						cs = append(cs, cand{na, f})
					}
				}
			}
			if len(cs) == 0 {
				continue
			}
			c := cs[rapid.IntRange(0, len(cs)-1).Draw(rt, "site")]
			l := c.n.N.List[c.f.Name]
			i := rapid.IntRange(0, len(l)-1).Draw(rt, "entry")
			nl := append(append([]*model.Entry(nil), l[:i]...), l[i+1:]...)
			if len(nl) == 0 {
				delete(c.n.N.List, c.f.Name)
			} else {
				c.n.N.List[c.f.Name] = nl
			}
			return fmt.Sprintf("remove-target %s/%s[%s]", c.n.Path, c.f.Name, model.KeyCanon(l[i].Key))
		}
	}
	return ""
}

// innerTarget finds, below entry node n of list f, the leaf that key leaf kf's in-entry leafref
// (../a/b) points at. With n == nil it only says whether kf has such an in-entry reference.
func innerTarget(n *model.Node, f *model.FieldInfo, kf *model.FieldInfo) (*model.Node, *model.FieldInfo) {
	lp := model.ParseLeafrefPath(kf.Type.Leafref)
	if lp.Absolute || len(lp.Steps) < 2 || !lp.Steps[0].Up || lp.Steps[1].Up {
		return nil, nil
	}
	var rel []string
	for _, s := range lp.Steps[1:] {
		if s.Up {
			return nil, nil
		}
		rel = append(rel, s.Name)
	}
	if n == nil {
		return nil, kf
	}
	cur := n
	for len(rel) > 0 {
		var next *model.Node
		for _, g := range cur.SI.Fields {
			for _, p := range g.Paths {
				if len(p) > len(rel) || strings.Join(p, "/") != strings.Join(rel[:len(p)], "/") {
					continue
				}
				if g.Kind == model.FLeaf && len(p) == len(rel) {
					if _, set := cur.Leaf[g.Name]; !set {
						return nil, nil
					}
					return cur, g
				}
				if g.Kind == model.FCont && len(p) < len(rel) && cur.Cont[g.Name] != nil && next == nil {
					next = cur.Cont[g.Name]
					rel = rel[len(p):]
				}
			}
			if next != nil {
				break
			}
		}
		if next == nil {
			return nil, nil
		}
		cur = next
	}
	return nil, nil
}

func sortedValKeys(m map[string]model.Val) []string {
	ks := make([]string, 0, len(m))
	for k := range m {
		ks = append(ks, k)
	}
	sort.Strings(ks)
	return ks
}

// TestC30 checks that leafref validation errors exactly on dangling references (DESIGN.md 5/C30).
func TestC30(t *testing.T) {
	rec := ev.Start(t, "C30")
	rec.Rule("variant (vtu, vtw, vocc, vocu) x tree valid by construction with every leafref satisfied x 0..3 edits that keep every value inside its type " +
		"(leafref leaf set to a fresh value / to another target / to a value that exists at the target schema node but outside the predicate-selected node set; unset leafref leaf or leaf-list member added, " +
		"satisfied or fresh; entry with a fresh key added to a leafref-keyed list; in-entry key target (../config/x) changed; target entry removed); " +
		"oracle: generated root.Validate() returns an error <=> the harness's reference evaluator (model.Dangling: absolute, relative, '..', [k = current()/../x], leafref keys, " +
		"leaf-lists of leafref, leafref to leaf-list) finds a dangling reference, and then only leafref errors; same with a non-nil &LeafrefOptions{IgnoreMissingData:false}; never an error with IgnoreMissingData; " +
		"non-trivial = at least one leafref with a predicate or through a leafref-keyed list is set; distinct by variant+tree")
	rec.Assume("a leafref whose predicate operand (current()/../x) is unset selects the empty node set; config-false leafrefs are validated like config-true ones (ygot does not distinguish)")
	witnessF27(rec)
	witnessF1(rec)
	witnessF50(rec)
	witnessF52(rec)
	witnessF92(rec)
	witnessF100(rec)
	cnt := newCounter()
	cases := 0
	rapid.Check(t, func(rt *rapid.T) {
		cases++
		v := th.PickVariant(rt, "vtu", "vtw", "vocc", "vocu", "vtu2")
		a := activeOf(rec)
		memo := map[*model.FieldInfo]bool{}
		targets := leafrefTargets(v)
		o := model.GenOpts{Avoid: a.avoid, Want: func(f *model.FieldInfo) bool {
			return subtreeHas(f, func(g *model.FieldInfo) bool { return isLeafrefField(g) || targets[g.Entry] }, memo)
		}}
		if rapid.Bool().Draw(rt, "dense") {
			o.Dense = true
		}
		m := model.GenTree(rt, v, o)
		stripKnown(rec, m)
		if dg := model.Dangling(m); len(dg) > 0 {
			rt.Fatalf("HARNESS-BUG: generator left dangling leafrefs %v\n%s", dg, m.Dump())
		}
		nOps := rapid.SampledFrom([]int{0, 1, 1, 1, 2, 2, 3}).Draw(rt, "edits")
		var edits []string
		for i := 0; i < nOps; i++ {
			if d := mutateLeafrefs(rt, v, m); d != "" {
				edits = append(edits, d)
				cnt.inc("op:" + strings.SplitN(d, " ", 2)[0])
			}
		}
		m.Normalize()
		dangling := model.Dangling(m)
		hard, set := 0, 0
		for _, in := range model.Instances(m, nil, model.InstOpts{}) {
			if isLeafrefField(in.F) {
				set++
				if hardLeafref(in.F) {
					hard++
				}
			}
		}
		classes := append(th.TreeClasses(v, m.Stat()), fmt.Sprintf("edits:%d", len(edits)))
		switch {
		case len(dangling) == 0:
			classes = append(classes, "dangling:0")
			cnt.inc("dangling:0")
		case len(dangling) == 1:
			classes = append(classes, "dangling:1")
			cnt.inc("dangling:>0")
		default:
			classes = append(classes, "dangling:>1")
			cnt.inc("dangling:>0")
		}
		for _, e := range edits {
			classes = append(classes, "op:"+strings.SplitN(e, " ", 2)[0])
		}
		if hard > 0 {
			cnt.inc("hard")
			classes = append(classes, "leafref:predicate-or-leafref-keyed")
		}
		if set == 0 {
			classes = append(classes, "leafref:none-set")
		}
		for _, d := range dangling {
			if strings.Contains(d, "pick-sub") || strings.Contains(d, "target-sub") {
				classes = append(classes, "dangling:predicate-leafref")
				cnt.inc("dangling-predicate")
				break
			}
		}
		rec.Case(v.Name+"|"+m.Dump(), hard > 0, classes...)
		if rec.WantSample() {
			rec.Sample(map[string]interface{}{"variant": v.Name, "edits": edits, "dangling": dangling, "tree": th.Trunc(m.Dump(), 1200)})
		}
		checkLeafrefVerdict(rt.Fatalf, rec, v, m, dangling, fmt.Sprintf("edits %v", edits))
	})
	rec.Set("c30_counts", cnt.String())
	if cases >= 300 {
		if cnt.get("dangling:>0")*10 < cases || cnt.get("dangling:0")*10 < cases {
			inconclusive(t, "dangling/satisfied mix is lopsided in %d cases: %s", cases, cnt)
		}
		if cnt.get("hard")*4 < cases {
			inconclusive(t, "fewer than 25%% of %d cases set a leafref with a predicate or through a leafref-keyed list: %s", cases, cnt)
		}
		if cnt.get("dangling-predicate") == 0 || cnt.get("op:foreign") == 0 {
			inconclusive(t, "no dangling predicate leafref / no foreign-value edit in %d cases: %s", cases, cnt)
		}
	}
}
