package t2

import (
	"fmt"
	"testing"

	gpb "github.com/openconfig/gnmi/proto/gnmi"
	"github.com/openconfig/ygot/ygot"
	"github.com/openconfig/ygot/ytypes"
	"verifharness/gen/vtu"
	"verifharness/gen/vtw"
	"verifharness/model"
	"verifharness/variants"
)

func TestProbe(t *testing.T) {
	v := variants.Get("vtu")
	d := &vtu.Device{}
	o := d.GetOrCreateTop().GetOrCreateOrdered()
	o.AppendNewO1("b")
	o.AppendNewO1("a")
	o.AppendNewO1("c")
	js, err := ygot.Marshal7951(d)
	fmt.Println(string(js), err)
	ns, err := ygot.TogNMINotifications(d, 1, ygot.GNMINotificationsConfig{UsePathElem: true})
	fmt.Println(len(ns), err)
	for _, n := range ns {
		fmt.Println(n)
	}
	sch := &ytypes.Schema{Root: v.NewRoot(), SchemaTree: v.Schema().SchemaTree, Unmarshal: v.Unmarshal}
	err = ytypes.UnmarshalNotifications(sch, ns)
	fmt.Println("unmarshal notif:", err)
	fmt.Println(model.ObserveNorm(v, sch.Root).Dump())
	var _ = gpb.Path{}
	// empty ordered map
	d2 := &vtu.Device{}
	d2.GetOrCreateTop().GetOrCreateOrdered().GetOrCreateO1Map()
	js, err = ygot.Marshal7951(d2)
	fmt.Println(string(js), err)
	ns, err = ygot.TogNMINotifications(d2, 1, ygot.GNMINotificationsConfig{UsePathElem: true})
	fmt.Println(ns, err)
	c, err := ygot.DeepCopy(d2)
	fmt.Println(model.Observe(v, c.(ygot.GoStruct)).Dump(), err)

	// wrapper union keys
	k := &vtw.Vt_Top_Keyed{}
	u1, _ := (&vtw.Vt_Top_Keyed_KUnion{}).To_Vt_Top_Keyed_KUnion_K_Union("a")
	u2, _ := (&vtw.Vt_Top_Keyed_KUnion{}).To_Vt_Top_Keyed_KUnion_K_Union("a")
	_, e1 := k.NewKUnion(u1)
	_, e2 := k.NewKUnion(u2)
	fmt.Println("wrapper dup:", e1, e2, len(k.KUnion))
	// append with unset enum key
	k2 := &vtu.Vt_Top_Keyed{}
	fmt.Println("append unset enum key:", k2.AppendKEnum(&vtu.Vt_Top_Keyed_KEnum{}), len(k2.KEnum))
	fmt.Println("append nil union key:", k2.AppendKUnion(&vtu.Vt_Top_Keyed_KUnion{}), len(k2.KUnion))
}
