package t2

import (
	"bytes"
	"encoding/json"
	"fmt"
	"math"
	"os"
	"os/exec"
	"path/filepath"
	"reflect"
	"sort"
	"strings"
	"testing"
	"time"

	gpb "github.com/openconfig/gnmi/proto/gnmi"
	"github.com/openconfig/goyang/pkg/yang"
	"github.com/openconfig/ygot/ygot"
	"github.com/openconfig/ygot/ytypes"
	"pgregory.net/rapid"
	"verifharness/ev"
	"verifharness/model"
	"verifharness/pipeline"
	"verifharness/variants"
)

// ---- C17: enumeration and identity names map bijectively -------------------------------------------
//
// Oracles: (1) goyang's own compilation of the corpus (enumeration members and values; the identities
// derived transitively from a base, computed here from the identity statements' base references),
// (2) round trips: value -> name (ygot.EnumName, Marshal7951, TogNMINotifications; decoded by the
// harness's strict decoders) and name -> value (ytypes.StringToType, generated Unmarshal of JSON
// written by the harness's renderer, ytypes.SetNode with a string TypedValue; read back by the
// harness's observer), (3) zero is never rendered, (4) undefined values are errors.

// Findings this check reproduces on the unchanged tree.
const (
	// F42: UNSET inside a leaf-list or a union is rendered as the empty string.
	F42 = "F42-enum-zero-rendered-as-empty-string"
	// F43: TogNMINotifications panics on a wrapper union that holds the UNSET value of an enumeration.
	F43 = "F43-wrapper-union-unset-enum-panic"
	// F44: an enumeration member with YANG value -1 gets Go value 0, which is UNSET.
	F44 = "F44-enum-value-minus-one-is-unset"
)

// enumHolder is a leaf or leaf-list whose type is (or, for unions, contains) an enumerated type.
type enumHolder struct {
	si *model.StructInfo
	f  *model.FieldInfo
	lt *model.LType // the enumerated (member) type
}

func (h *enumHolder) id() string { return h.si.T.Name() + "." + h.f.Name }

func (h *enumHolder) kind() string {
	k := "leaf"
	if h.f.Kind == model.FLeafList {
		k = "leaf-list"
	}
	if h.f.IsKey {
		k = "key"
	}
	if h.f.ElemUnion {
		k += "-in-union"
	}
	return k
}

// enumType is one generated enumerated Go type of one variant.
type enumType struct {
	v       *model.Variant
	name    string
	t       reflect.Type
	defs    map[int64]ygot.EnumDefinition
	vals    []int64 // defined values, ascending
	ident   bool
	holders []*enumHolder
}

func (e *enumType) id() string { return e.v.Name + ":" + e.name }

// value makes a Go value of the type.
func (e *enumType) value(x int64) ygot.GoEnum {
	p := reflect.New(e.t).Elem()
	p.SetInt(x)
	return p.Interface().(ygot.GoEnum)
}

// foreignModule reports whether some member is an identity defined in a module other than the one of
// a leaf that uses it.
func (e *enumType) foreignModule() bool {
	for _, h := range e.holders {
		hm := e.v.ModuleOf(h.f.Entry)
		for _, d := range e.defs {
			if d.DefiningModule != "" && d.DefiningModule != hm {
				return true
			}
		}
	}
	return false
}

func (e *enumType) nontrivial() bool { return len(e.defs) >= 3 || (e.ident && e.foreignModule()) }

var enumCache = map[string][]*enumType{}

// enumsOf collects the enumerated types of a variant from ΛEnum / ΛEnumTypes and their holders from
// the struct table.
func enumsOf(v *model.Variant) []*enumType {
	if r, ok := enumCache[v.Name]; ok {
		return r
	}
	if err := v.InitError(); err != nil && strings.Contains(err.Error(), "no Go enum type found") {
		// see TestC17_Types: not a harness problem but the subject of this property
		panic(fmt.Sprintf("C17 violated (variant %s): the generated enumerated types do not match the YANG source: %v", v.Name, err))
	}
	v.MustInit()
	byName := map[string]reflect.Type{}
	for _, ts := range v.EnumTypes {
		for _, t := range ts {
			byName[t.Name()] = t
		}
	}
	var names []string
	for n := range v.Enum {
		names = append(names, n)
	}
	sort.Strings(names)
	idx := map[reflect.Type]*enumType{}
	var out []*enumType
	for _, n := range names {
		e := &enumType{v: v, name: n, t: byName[n], defs: v.Enum[n]}
		for x, d := range e.defs {
			e.vals = append(e.vals, x)
			if d.DefiningModule != "" {
				e.ident = true
			}
		}
		sort.Slice(e.vals, func(i, j int) bool { return e.vals[i] < e.vals[j] })
		out = append(out, e)
		if e.t != nil {
			idx[e.t] = e
		}
	}
	for _, si := range sortedStructs(v) {
		for _, f := range si.Fields {
			if (f.Kind != model.FLeaf && f.Kind != model.FLeafList) || f.Type == nil {
				continue
			}
			lts := []*model.LType{f.Type}
			if f.Type.IsUnion() {
				lts = f.Type.Members
			}
			for _, lt := range lts {
				if lt.GoEnum == nil {
					continue
				}
				if e := idx[lt.GoEnum]; e != nil {
					e.holders = append(e.holders, &enumHolder{si: si, f: f, lt: lt})
				}
			}
		}
	}
	enumCache[v.Name] = out
	return out
}

// ---- goyang ground truth ---------------------------------------------------------------------------------

// derivedIdentities computes, from the identity statements of all loaded modules, the identities
// derived directly or transitively from base: local name -> defining module name.
func derivedIdentities(ms *yang.Modules, base *yang.Identity) (map[string]string, error) {
	type idn struct {
		mod string
		id  *yang.Identity
	}
	var all []idn
	seen := map[*yang.Module]bool{}
	modName := func(m *yang.Module) string {
		if m.BelongsTo != nil {
			return m.BelongsTo.Name
		}
		return m.Name
	}
	collect := func(m *yang.Module) {
		if m == nil || seen[m] {
			return
		}
		seen[m] = true
		for _, id := range m.Identity {
			all = append(all, idn{modName(m), id})
		}
	}
	for _, m := range ms.Modules {
		collect(m)
	}
	for _, m := range ms.SubModules {
		collect(m)
	}
	baseMod := modName(yang.RootNode(base))
	// parents[i] = identities i is directly based on, as (module, name)
	parents := make([][][2]string, len(all))
	for i, x := range all {
		for _, b := range x.id.Base {
			pfx, name := "", b.Name
			if j := strings.Index(b.Name, ":"); j >= 0 {
				pfx, name = b.Name[:j], b.Name[j+1:]
			}
			m := yang.RootNode(x.id)
			if pfx != "" {
				m = yang.FindModuleByPrefix(x.id, pfx)
				if m == nil {
					return nil, fmt.Errorf("identity %s:%s: base prefix %q not resolvable", x.mod, x.id.Name, pfx)
				}
			}
			parents[i] = append(parents[i], [2]string{modName(m), name})
		}
	}
	derived := map[[2]string]bool{}
	for changed := true; changed; {
		changed = false
		for i, x := range all {
			k := [2]string{x.mod, x.id.Name}
			if derived[k] {
				continue
			}
			for _, p := range parents[i] {
				if (p[0] == baseMod && p[1] == base.Name) || derived[p] {
					derived[k] = true
					changed = true
					break
				}
			}
		}
	}
	out := map[string]string{}
	for k := range derived {
		if prev, dup := out[k[1]]; dup && prev != k[0] {
			return nil, fmt.Errorf("identities %s:%s and %s:%s share a local name (F23 territory)", prev, k[1], k[0], k[1])
		}
		out[k[1]] = k[0]
	}
	return out, nil
}

// memberSpec is what goyang says about one enumerated (member) type of a leaf.
type memberSpec struct {
	ident  bool
	base   string
	values map[string]int64  // enumeration: name -> YANG value
	mods   map[string]string // identityref: name -> defining module
}

func (s *memberSpec) names() []string {
	var n []string
	for k := range s.values {
		n = append(n, k)
	}
	for k := range s.mods {
		n = append(n, k)
	}
	sort.Strings(n)
	return n
}

func specOf(v *model.Variant, lt *model.LType) (*memberSpec, error) {
	switch lt.Kind {
	case yang.Yenum:
		if lt.Y == nil || lt.Y.Enum == nil {
			return nil, fmt.Errorf("enumeration without goyang EnumType")
		}
		return &memberSpec{values: lt.Y.Enum.NameMap()}, nil
	case yang.Yidentityref:
		if lt.Y == nil || lt.Y.IdentityBase == nil {
			return nil, fmt.Errorf("identityref without base")
		}
		mods, err := derivedIdentities(v.Mods, lt.Y.IdentityBase)
		if err != nil {
			return nil, err
		}
		// cross-check the closure against goyang's own
		if len(mods) != len(lt.Y.IdentityBase.Values) {
			return nil, fmt.Errorf("HARNESS-BUG: closure of %s has %d identities, goyang lists %d", lt.Y.IdentityBase.Name, len(mods), len(lt.Y.IdentityBase.Values))
		}
		return &memberSpec{ident: true, base: lt.Y.IdentityBase.Name, mods: mods}, nil
	}
	return nil, fmt.Errorf("type kind %v is not enumerated", lt.Kind)
}

type defJSON struct {
	Name string
	Mod  string
}

// matchSpec compares the ΛEnum entry of one Go type with goyang's member spec: same name set,
// enumeration Go values ordered like the YANG values, identity defining modules equal.
func matchSpec(defs map[int64]defJSON, s *memberSpec) error {
	names := map[string]int64{}
	var xs []int64
	for x := range defs {
		xs = append(xs, x)
	}
	sort.Slice(xs, func(i, j int) bool { return xs[i] < xs[j] })
	for _, x := range xs {
		d := defs[x]
		if x == 0 {
			return fmt.Errorf("value 0 (UNSET) is defined as %q", d.Name)
		}
		if prev, dup := names[d.Name]; dup {
			return fmt.Errorf("name %q is defined for two values (%d and %d)", d.Name, prev, x)
		}
		names[d.Name] = x
	}
	want := s.names()
	var have []string
	for n := range names {
		have = append(have, n)
	}
	sort.Strings(have)
	if strings.Join(have, "\x00") != strings.Join(want, "\x00") {
		return fmt.Errorf("names %q, goyang has %q", have, want)
	}
	if s.ident {
		for _, x := range xs {
			d := defs[x]
			if d.Mod != s.mods[d.Name] {
				return fmt.Errorf("identity %s (value %d) has defining module %q, YANG defines it in %q", d.Name, x, d.Mod, s.mods[d.Name])
			}
		}
		return nil
	}
	// relative order of Go values = relative order of YANG values
	byGo := append([]string{}, have...)
	sort.Slice(byGo, func(i, j int) bool { return names[byGo[i]] < names[byGo[j]] })
	byYang := append([]string{}, have...)
	sort.Slice(byYang, func(i, j int) bool { return s.values[byYang[i]] < s.values[byYang[j]] })
	if strings.Join(byGo, "\x00") != strings.Join(byYang, "\x00") {
		return fmt.Errorf("Go value order %q differs from YANG value order %q", byGo, byYang)
	}
	return nil
}

func defsJSON(defs map[int64]ygot.EnumDefinition) map[int64]defJSON {
	out := map[int64]defJSON{}
	for x, d := range defs {
		out[x] = defJSON{Name: d.Name, Mod: d.DefiningModule}
	}
	return out
}

// ---- direct (tree-less) checks -------------------------------------------------------------------------

// checkDefinedDirect: EnumName(value) is the defined name, and parsing the name (bare and, for
// identities, module-prefixed) gives the value back.
func checkDefinedDirect(e *enumType, x int64) error {
	d := e.defs[x]
	name, err := ygot.EnumName(e.value(x))
	if err != nil || name != d.Name {
		return fmt.Errorf("EnumName(%s(%d)) = %q, %v; ΛEnum says %q", e.name, x, name, err, d.Name)
	}
	forms := []string{d.Name}
	if d.DefiningModule != "" {
		forms = append(forms, d.DefiningModule+":"+d.Name)
	}
	for _, s := range forms {
		got, err := ytypes.StringToType(e.t, s)
		if err != nil {
			return fmt.Errorf("StringToType(%s, %q) failed: %v (name of value %d)", e.name, s, err, x)
		}
		if got.Type() != e.t || got.Int() != x {
			return fmt.Errorf("StringToType(%s, %q) = %v (%s), want %d", e.name, s, got, got.Type(), x)
		}
	}
	return nil
}

func checkZeroDirect(e *enumType) error {
	name, err := ygot.EnumName(e.value(0))
	if err != nil || name != "" {
		return fmt.Errorf("EnumName(%s(0)) = %q, %v; want \"\" and no error (UNSET is never rendered)", e.name, name, err)
	}
	return nil
}

func checkUndefinedDirect(e *enumType, x int64) error {
	name, err := ygot.EnumName(e.value(x))
	if err == nil {
		return fmt.Errorf("EnumName(%s(%d)) = %q without error, but %d is not a defined value", e.name, x, name, x)
	}
	return nil
}

// ---- in-tree checks ------------------------------------------------------------------------------------------

func (h *enumHolder) val(e *enumType, x int64) model.Val {
	d, ok := e.defs[x]
	v := model.Val{K: model.KEnum, I: x, S: d.Name, Mod: d.DefiningModule, ET: e.t, Ident: d.DefiningModule != ""}
	if !ok {
		v.S = "<undefined>"
	}
	return v
}

// node makes a tree of the holder's struct with only the holder field set to val.
func (h *enumHolder) node(val model.Val) *model.Node {
	n := model.NewNode(h.si)
	if h.f.Kind == model.FLeafList {
		n.LL[h.f.Name] = []model.Val{val}
	} else {
		n.Leaf[h.f.Name] = val
	}
	return n
}

func (h *enumHolder) read(n *model.Node) (model.Val, bool) {
	if h.f.Kind == model.FLeafList {
		l := n.LL[h.f.Name]
		if len(l) != 1 {
			return model.Val{}, false
		}
		return l[0], true
	}
	v, ok := n.Leaf[h.f.Name]
	return v, ok
}

// build makes the Go struct; for a bare (non-union) enum field set to a value the model cannot carry
// through Build (zero), the field is written by reflection.
func (h *enumHolder) build(val model.Val) ygot.GoStruct {
	return model.Build(h.node(val))
}

type renderRes struct {
	js     []byte
	jsErr  error
	ns     []*gpb.Notification
	nsErr  error
	nPanic interface{}
	jPanic interface{}
}

func render(gs ygot.GoStruct, appendMod bool) (r renderRes) {
	func() {
		defer func() { r.jPanic = recover() }()
		if appendMod {
			r.js, r.jsErr = ygot.Marshal7951(gs, &ygot.RFC7951JSONConfig{AppendModuleName: true})
		} else {
			r.js, r.jsErr = ygot.Marshal7951(gs)
		}
	}()
	func() {
		defer func() { r.nPanic = recover() }()
		r.ns, r.nsErr = ygot.TogNMINotifications(gs, 1, ygot.GNMINotificationsConfig{UsePathElem: true})
	}()
	return r
}

func updates(ns []*gpb.Notification) []*gpb.Update {
	var u []*gpb.Update
	for _, n := range ns {
		u = append(u, n.Update...)
	}
	return u
}

// checkDefinedInTree: a tree holding the value renders it under its name, and the name (bare /
// module-prefixed) parses back to the value, through JSON and through gNMI.
func checkDefinedInTree(e *enumType, h *enumHolder, x int64, appendMod bool) error {
	v := e.v
	val := h.val(e, x)
	n := h.node(val)
	gs := model.Build(n)
	r := render(gs, appendMod)
	if r.jPanic != nil || r.nPanic != nil {
		return fmt.Errorf("rendering %s = %s panicked: Marshal7951 %v, TogNMINotifications %v", h.id(), val, r.jPanic, r.nPanic)
	}
	// value -> name, JSON
	if r.jsErr != nil {
		return fmt.Errorf("Marshal7951 of %s = %s failed: %v", h.id(), val, r.jsErr)
	}
	pn, err := model.ParseJSON(h.si, r.js)
	if err != nil {
		return fmt.Errorf("Marshal7951 of %s = %s gave JSON the strict decoder rejects: %v\njson: %s", h.id(), val, err, r.js)
	}
	if got, ok := h.read(pn); !ok || !got.Equal(val) {
		return fmt.Errorf("Marshal7951 of %s = %s rendered %s (present %v)\njson: %s", h.id(), val, got, ok, r.js)
	}
	if appendMod && val.Ident && !bytes.Contains(r.js, []byte(`"`+val.Mod+":"+val.S+`"`)) {
		return fmt.Errorf("Marshal7951(AppendModuleName) of identity %s = %s did not render %s:%s\njson: %s", h.id(), val, val.Mod, val.S, r.js)
	}
	// value -> name, gNMI
	if r.nsErr != nil {
		return fmt.Errorf("TogNMINotifications of %s = %s failed: %v", h.id(), val, r.nsErr)
	}
	us := updates(r.ns)
	if len(us) == 0 {
		return fmt.Errorf("TogNMINotifications of %s = %s produced no update", h.id(), val)
	}
	for _, u := range us {
		var got model.Val
		var derr error
		if h.f.Kind == model.FLeafList {
			var l []model.Val
			l, derr = model.DecodeLeafListTV(h.f.Type, u.Val)
			if derr == nil && len(l) == 1 {
				got = l[0]
			} else if derr == nil {
				derr = fmt.Errorf("%d elements", len(l))
			}
		} else {
			got, derr = model.DecodeTV(h.f.Type, u.Val)
		}
		if derr != nil || !got.Equal(val) {
			return fmt.Errorf("TogNMINotifications of %s = %s: update %v decodes to %s (%v)", h.id(), val, u, got, derr)
		}
	}
	// name -> value, JSON written by the harness (bare and identity-prefixed)
	for _, pfx := range []bool{false, true} {
		if pfx && !val.Ident {
			continue
		}
		doc := model.RenderJSON(n, model.JSONOpts{IdentPrefix: pfx})
		fresh := reflect.New(h.si.T).Interface().(ygot.GoStruct)
		if err := v.Unmarshal(doc, fresh); err != nil {
			return fmt.Errorf("Unmarshal of %s into %s failed: %v", doc, h.si.T.Name(), err)
		}
		on := model.Observe(v, fresh)
		if got, ok := h.read(on); !ok || !got.Equal(val) {
			return fmt.Errorf("Unmarshal of %s into %s stored %s (present %v), want %s", doc, h.si.T.Name(), got, ok, val)
		}
	}
	// name -> value, SetNode with a string TypedValue
	schema := v.Schema().SchemaTree[h.si.T.Name()]
	if schema == nil {
		return fmt.Errorf("HARNESS-BUG: no schema for %s", h.si.T.Name())
	}
	path := &gpb.Path{}
	for _, p := range h.f.Paths[0] {
		path.Elem = append(path.Elem, &gpb.PathElem{Name: p})
	}
	forms := []string{val.S}
	if val.Ident {
		forms = append(forms, val.Mod+":"+val.S)
	}
	for _, s := range forms {
		tv := &gpb.TypedValue{Value: &gpb.TypedValue_StringVal{StringVal: s}}
		if h.f.Kind == model.FLeafList {
			tv = &gpb.TypedValue{Value: &gpb.TypedValue_LeaflistVal{LeaflistVal: &gpb.ScalarArray{Element: []*gpb.TypedValue{tv}}}}
		}
		fresh := reflect.New(h.si.T).Interface().(ygot.GoStruct)
		if err := ytypes.SetNode(schema, fresh, path, tv, &ytypes.InitMissingElements{}); err != nil {
			return fmt.Errorf("SetNode(%s, %s, string_val %q) failed: %v", h.si.T.Name(), model.PathString(path), s, err)
		}
		on := model.Observe(v, fresh)
		if got, ok := h.read(on); !ok || !got.Equal(val) {
			return fmt.Errorf("SetNode(%s, %s, string_val %q) stored %s (present %v), want %s", h.si.T.Name(), model.PathString(path), s, got, ok, val)
		}
	}
	return nil
}

// checkZeroInTree: a tree whose enum field holds UNSET renders without that member.
func checkZeroInTree(rec *ev.Rec, e *enumType, h *enumHolder) error {
	val := h.val(e, 0)
	gs := model.Build(h.node(val))
	r := render(gs, false)
	inContainer := h.f.Kind == model.FLeafList || h.f.ElemUnion // UNSET put inside a slice / union value
	if r.nPanic != nil {
		if rec.Excuse(F43, e.v.Wrapper && h.f.ElemUnion) {
			r.nPanic, r.ns, r.nsErr = nil, nil, fmt.Errorf("panicked")
		} else {
			return fmt.Errorf("TogNMINotifications of %s = UNSET panicked: %v", h.id(), r.nPanic)
		}
	}
	if r.jPanic != nil {
		if rec.Excuse(F43, e.v.Wrapper && h.f.ElemUnion) {
			r.jPanic, r.js, r.jsErr = nil, nil, fmt.Errorf("panicked")
		} else {
			return fmt.Errorf("Marshal7951 of %s = UNSET panicked: %v", h.id(), r.jPanic)
		}
	}
	if r.jsErr == nil && string(bytes.TrimSpace(r.js)) != "{}" {
		if !rec.Excuse(F42, inContainer && bytes.Contains(r.js, []byte(`""`))) {
			return fmt.Errorf("Marshal7951 of %s = UNSET rendered %s, want {} (or an error)", h.id(), r.js)
		}
	}
	if r.nsErr == nil && len(updates(r.ns)) != 0 {
		emptyStr := true
		for _, u := range updates(r.ns) {
			s := u.Val.GetStringVal()
			if ll := u.Val.GetLeaflistVal(); ll != nil && len(ll.Element) == 1 {
				s = ll.Element[0].GetStringVal()
			} else if _, isStr := u.Val.Value.(*gpb.TypedValue_StringVal); !isStr {
				emptyStr = false
			}
			if s != "" {
				emptyStr = false
			}
		}
		if !rec.Excuse(F42, inContainer && emptyStr) {
			return fmt.Errorf("TogNMINotifications of %s = UNSET produced %v, want no update (or an error)", h.id(), updates(r.ns))
		}
	}
	return nil
}

// checkUndefinedInTree: a tree holding an undefined non-zero value makes both renderers fail.
func checkUndefinedInTree(e *enumType, h *enumHolder, x int64) error {
	val := h.val(e, x)
	gs := model.Build(h.node(val))
	r := render(gs, false)
	if r.jPanic != nil || r.nPanic != nil {
		return fmt.Errorf("rendering %s = %s(%d) panicked: Marshal7951 %v, TogNMINotifications %v", h.id(), e.name, x, r.jPanic, r.nPanic)
	}
	if r.jsErr == nil {
		return fmt.Errorf("Marshal7951 of %s = %s(%d) (undefined value) returned no error\njson: %s", h.id(), e.name, x, r.js)
	}
	if r.nsErr == nil {
		return fmt.Errorf("TogNMINotifications of %s = %s(%d) (undefined value) returned no error\nnotifications: %v", h.id(), e.name, x, r.ns)
	}
	return nil
}

// ---- witnesses ------------------------------------------------------------------------------------------------

func findEnumHolder(variant, structName, field string) (*enumType, *enumHolder) {
	for _, e := range enumsOf(variants.Get(variant)) {
		for _, h := range e.holders {
			if h.si.T.Name() == structName && h.f.Name == field {
				return e, h
			}
		}
	}
	return nil, nil
}

func witnessF42(rec *ev.Rec) {
	rec.Witness(F42, func() (bool, string) {
		var bad []string
		for _, w := range [][2]string{{"Vt_Top", "LlColour"}, {"Vt_Top", "Mixed"}} {
			e, h := findEnumHolder("vtu", w[0], w[1])
			if h == nil {
				continue
			}
			r := render(model.Build(h.node(h.val(e, 0))), false)
			if r.jsErr == nil && bytes.Contains(r.js, []byte(`""`)) {
				bad = append(bad, fmt.Sprintf("vtu %s = UNSET: Marshal7951 -> %s", h.id(), r.js))
			}
			for _, u := range updates(r.ns) {
				bad = append(bad, fmt.Sprintf("vtu %s = UNSET: TogNMINotifications -> %v", h.id(), u))
			}
		}
		return len(bad) > 0, strings.Join(bad, "; ")
	})
}

func witnessF43(rec *ev.Rec) {
	rec.Witness(F43, func() (bool, string) {
		e, h := findEnumHolder("vtw", "Vt_Top", "Mixed")
		if h == nil {
			return false, ""
		}
		var bad []string
		r := render(model.Build(h.node(h.val(e, 0))), false)
		if r.nPanic != nil {
			bad = append(bad, fmt.Sprintf("vtw TogNMINotifications(&Vt_Top{Mixed: &Vt_Top_Mixed_Union_E_Vt_Colour_Enum{}}) panics: %v", r.nPanic))
		}
		if e2, h2 := findEnumHolder("vtw", "Vt_Top", "LlMixed"); h2 != nil {
			r := render(model.Build(h2.node(h2.val(e2, 0))), false)
			if r.jPanic != nil {
				bad = append(bad, fmt.Sprintf("vtw Marshal7951(&Vt_Top{LlMixed: [&Vt_Top_LlMixed_Union_E_Vt_Colour_Enum{}]}) panics: %v", r.jPanic))
			}
		}
		return len(bad) > 0, strings.Join(bad, "; ")
	})
}

// ---- tests ---------------------------------------------------------------------------------------------------------

const c17Rule = "every enumerated Go type of every variant (ΛEnum x ΛEnumTypes; 6 registered variants, enum-naming flags on in vocc, off in vocu/voco, plus 4 more flag combinations generated, compiled and inspected at test time) x value (every defined value; 0; random int64; boundaries -1, max+1, min/max int64) x holder (every leaf, leaf-list, list key or union that uses the type) x JSON config; " +
	"oracle: names unique per type and the name/value set equals goyang's compilation (enumeration members in YANG-value order; all identities derived transitively from the base, with defining modules); EnumName/Marshal7951/TogNMINotifications render a defined value under its name (decoded by the harness's strict decoders) and StringToType / generated Unmarshal / SetNode(string_val) parse the bare and the module-prefixed name back to the same value (read by the harness's observer); UNSET is never rendered; an undefined non-zero value makes EnumName, Marshal7951 and TogNMINotifications return an error; " +
	"non-trivial = the type has >= 3 members or is an identityref whose identities come from another module than the leaf; distinct by variant + type + value + holder + config"

var boundaryVals = []int64{-1, 1, 2, math.MinInt64, math.MaxInt64, math.MinInt64 + 1, math.MaxInt32, math.MinInt32, 1 << 32}

func c17Witnesses(rec *ev.Rec) {
	witnessF42(rec)
	witnessF43(rec)
}

// TestC17_Types enumerates every type, every defined value and every holder once (deterministic).
func TestC17_Types(t *testing.T) {
	rec := ev.Start(t, "C17")
	rec.Rule(c17Rule)
	c17Witnesses(rec)
	shard, shards := ev.Shard(), ev.Shards()
	ntypes, nholders, nident := 0, 0, 0
	for vi, v := range variants.All {
		if vi%shards != shard {
			continue
		}
		// the harness resolves every enumerated leaf of the YANG corpus to a generated Go type whose member
		// names are exactly the YANG members (enumeration) or the identities derived from the base, at any
		// depth (identityref): when that fails for an enumerated type, the generated name set differs from
		// the schema's, which is what this property is about
		if err := v.InitError(); err != nil {
			if strings.Contains(err.Error(), "no Go enum type found") {
				t.Fatalf("C17 violated (variant %s): the generated enumerated types do not match the YANG source: %v", v.Name, err)
			}
			t.Fatalf("HARNESS-BUG: variant %s: %v", v.Name, err)
		}
		for _, e := range enumsOf(v) {
			ntypes++
			if e.t == nil {
				t.Errorf("C17: %s: type %s is in ΛEnum but no reflect.Type for it is listed in ΛEnumTypes", v.Name, e.name)
				continue
			}
			if len(e.holders) == 0 {
				t.Errorf("HARNESS-BUG: %s: no leaf of the struct table uses %s; cannot relate it to the schema", v.Name, e.name)
				continue
			}
			if e.ident {
				nident++
			}
			cls := []string{"variant:" + v.Name, boolLabel(e.ident, "kind:identityref", "kind:enumeration"), "value:defined", "part:types"}
			// names unique, set equal to goyang's, for the schema type of every holder
			for _, h := range e.holders {
				nholders++
				spec, err := specOf(v, h.lt)
				if err != nil {
					t.Errorf("HARNESS-BUG: %s %s holder %s: %v", v.Name, e.name, h.id(), err)
					continue
				}
				if err := matchSpec(defsJSON(e.defs), spec); err != nil {
					t.Errorf("C17 violated: %s: ΛEnum[%s] does not match the YANG type of %s (%s): %v", v.Name, e.name, h.id(), strings.Join(h.f.Paths[0], "/"), err)
				}
			}
			if err := checkZeroDirect(e); err != nil {
				t.Errorf("C17 violated: %s: %v", v.Name, err)
			}
			for _, x := range e.vals {
				if err := checkDefinedDirect(e, x); err != nil {
					t.Errorf("C17 violated: %s: %v", v.Name, err)
				}
				for _, h := range e.holders {
					for _, am := range []bool{false, true} {
						if err := checkDefinedInTree(e, h, x, am); err != nil {
							t.Errorf("C17 violated: %s: %v", v.Name, err)
						}
						rec.Case(fmt.Sprintf("%s|%d|%s|%v", e.id(), x, h.id(), am), e.nontrivial(), append(cls, "holder:"+h.kind())...)
					}
				}
			}
			if rec.WantSample() {
				rec.Sample(map[string]interface{}{"variant": v.Name, "type": e.name, "members": defsJSON(e.defs), "holders": len(e.holders)})
			}
		}
	}
	rec.Add("enum_types_inspected", int64(ntypes))
	rec.Add("enum_holders_matched_against_goyang", int64(nholders))
	if shards == 1 && (ntypes < 20 || nident < 4) {
		t.Errorf("INCONCLUSIVE: C17 inspected only %d enumerated types (%d identityref types)", ntypes, nident)
	}
}

var c17Need = map[string]float64{
	"value:defined":     0.20,
	"value:zero":        0.05,
	"value:undefined":   0.25,
	"value:boundary":    0.05,
	"kind:identityref":  0.10,
	"kind:enumeration":  0.30,
	"holder:leaf":       0.10,
	"holder:leaf-list":  0.03,
	"holder:key":        0.01,
	"holder:in-union":   0.05,
	"nontrivial":        0.40,
	"config:append-mod": 0.10,
}

// TestC17_Values draws (variant, type, value, holder, config) with rapid.
func TestC17_Values(t *testing.T) {
	rec := ev.Start(t, "C17")
	rec.Rule(c17Rule)
	c17Witnesses(rec)
	var all []*enumType
	for _, v := range variants.All {
		for _, e := range enumsOf(v) {
			if e.t != nil && len(e.holders) > 0 {
				all = append(all, e)
			}
		}
	}
	if len(all) == 0 {
		t.Fatalf("HARNESS-BUG: no enumerated types found")
	}
	tl := newTally()
	rapid.Check(t, func(rt *rapid.T) {
		e := all[pickIndex(rt, len(all), "type")]
		h := e.holders[pickIndex(rt, len(e.holders), "holder")]
		am := rapid.IntRange(0, 3).Draw(rt, "appendModuleName") == 0
		var x int64
		class := ""
		switch rapid.IntRange(0, 9).Draw(rt, "valueClass") {
		case 0, 1, 2:
			x, class = e.vals[rapid.IntRange(0, len(e.vals)-1).Draw(rt, "member")], "value:defined"
		case 3:
			x, class = 0, "value:zero"
		case 4:
			// boundaries: just outside the defined range, and fixed extremes
			b := append([]int64{e.vals[0] - 1, e.vals[len(e.vals)-1] + 1, e.vals[len(e.vals)-1] + 2}, boundaryVals...)
			x, class = b[rapid.IntRange(0, len(b)-1).Draw(rt, "boundary")], "value:boundary"
		default:
			x, class = rapid.Int64().Draw(rt, "value"), "value:random"
		}
		_, defined := e.defs[x]
		cls := []string{"variant:" + e.v.Name, boolLabel(e.ident, "kind:identityref", "kind:enumeration"), class, "holder:" + h.kind(), "part:values"}
		if h.f.ElemUnion {
			cls = append(cls, "holder:in-union")
		}
		if am {
			cls = append(cls, "config:append-mod")
		}
		var err error
		switch {
		case x == 0:
			cls = append(cls, "value:zero")
			if err = checkZeroDirect(e); err == nil {
				err = checkZeroInTree(rec, e, h)
			}
		case defined:
			cls = append(cls, "value:defined")
			if err = checkDefinedDirect(e, x); err == nil {
				err = checkDefinedInTree(e, h, x, am)
			}
		default:
			cls = append(cls, "value:undefined")
			if err = checkUndefinedDirect(e, x); err == nil {
				err = checkUndefinedInTree(e, h, x)
			}
		}
		nt := e.nontrivial()
		if nt {
			tl.c["nontrivial"]++
		}
		rec.Case(fmt.Sprintf("%s|%d|%s|%v", e.id(), x, h.id(), am), nt, dedupe(cls)...)
		tl.add(dedupe(cls))
		if rec.WantSample() {
			rec.Sample(map[string]interface{}{"variant": e.v.Name, "type": e.name, "value": x, "defined_as": e.defs[x].Name, "holder": h.id(), "holder_kind": h.kind(), "append_module_name": am})
		}
		if err != nil {
			rt.Fatalf("C17 violated: variant %s type %s value %d holder %s (%s, path %s) appendModuleName=%v: %v\nmembers: %v",
				e.v.Name, e.name, x, h.id(), h.kind(), strings.Join(h.f.Paths[0], "/"), am, err, defsJSON(e.defs))
		}
	})
	tl.require(t, "C17", 200, c17Need)
}

func dedupe(l []string) []string {
	seen := map[string]bool{}
	var out []string
	for _, s := range l {
		if !seen[s] {
			seen[s] = true
			out = append(out, s)
		}
	}
	return out
}

// ---- enum-naming flag combinations generated at test time ----------------------------------------------------

type flagCombo struct {
	pkg    string
	corpus string // "vt" or "voc": which registered variant supplies the goyang expectations; "t2neg": props/t2/testdata/yang
	yang   []string
	flags  pipeline.Flags
}

// t2negDir holds a small module with negative enumeration values (not part of the corpus: the
// witness of F44).
func t2negDir() string { return filepath.Join(pipeline.HarnessDir(), "props", "t2", "testdata", "yang") }

func baseFlags() pipeline.Flags {
	return pipeline.Flags{FakeRoot: true, FakeRootName: "device", YangPresence: true, Getters: true, Append: true, Delete: true, Rename: true, LeafGetters: true, PopulateDefaults: true, SimpleUnions: true}
}

func c17Combos() []flagCombo {
	mk := func(pkg, corpus string, yang []string, mod func(*pipeline.Flags)) flagCombo {
		f := baseFlags()
		mod(&f)
		return flagCombo{pkg: pkg, corpus: corpus, yang: yang, flags: f}
	}
	voc := []string{"voc.yang", "voc-aug.yang"}
	vt := []string{"vt.yang", "vt-udef.yang"}
	return []flagCombo{
		mk("xa", "voc", voc, func(f *pipeline.Flags) { f.Compress = true; f.SkipEnumDedup = true }),
		mk("xb", "voc", voc, func(f *pipeline.Flags) { f.Compress = true; f.ShortenEnumLeafNames = true }),
		mk("xc", "voc", voc, func(f *pipeline.Flags) { f.TypedefEnumWithDefmod = true; f.EnumSuffixSimpleUnion = true }),
		mk("xd", "vt", vt, func(f *pipeline.Flags) { f.TypedefEnumWithDefmod = true; f.SkipEnumDedup = true }),
		mk("xn", "t2neg", []string{"t2neg.yang"}, func(f *pipeline.Flags) {}),
	}
}

// expectedByPath maps a schema path as used by ΛEnumTypes ("/a/b": data-tree path without module) to goyang's specs of the
// enumerated (member) types of that leaf, taken from the struct table of an uncompressed variant.
func expectedByPath(v *model.Variant) (map[string][]*memberSpec, error) {
	out := map[string][]*memberSpec{}
	seen := map[string]bool{}
	for _, e := range enumsOf(v) {
		for _, h := range e.holders {
			// data-tree path below the module: choice and case nodes are not part of it
			var dp []string
			for en := h.f.Entry; en != nil && en.Parent != nil; en = en.Parent {
				if en.IsChoice() || en.IsCase() {
					continue
				}
				dp = append([]string{en.Name}, dp...)
			}
			if len(dp) == 0 {
				continue
			}
			p := "/" + strings.Join(dp, "/")
			k := p + "|" + e.name
			if seen[k] {
				continue
			}
			seen[k] = true
			s, err := specOf(v, h.lt)
			if err != nil {
				return nil, err
			}
			out[p] = append(out[p], s)
		}
	}
	return out, nil
}

const c17ChildMain = `package main

import (
	"encoding/json"
	"fmt"
	"math"
	"os"
	"reflect"
	"sort"

	"github.com/openconfig/ygot/ygot"
	"github.com/openconfig/ygot/ytypes"
%s
)

type def struct{ Name, Mod string }

type pkgDump struct {
	Enum        map[string]map[string]def
	Types       map[string][]string
	Errors      []string
	ZeroDefined []string
	Checks      int
}

func inspect(enum map[string]map[int64]ygot.EnumDefinition, types map[string][]reflect.Type) pkgDump {
	d := pkgDump{Enum: map[string]map[string]def{}, Types: map[string][]string{}}
	byName := map[string]reflect.Type{}
	for p, ts := range types {
		for _, t := range ts {
			byName[t.Name()] = t
			d.Types[p] = append(d.Types[p], t.Name())
		}
	}
	var names []string
	for n := range enum {
		names = append(names, n)
	}
	sort.Strings(names)
	bad := func(f string, a ...interface{}) { d.Errors = append(d.Errors, fmt.Sprintf(f, a...)) }
	for _, n := range names {
		defs := enum[n]
		d.Enum[n] = map[string]def{}
		seen := map[string]int64{}
		t := byName[n]
		if t == nil {
			bad("type %%s is in ΛEnum but not in ΛEnumTypes", n)
			continue
		}
		val := func(x int64) ygot.GoEnum {
			p := reflect.New(t).Elem()
			p.SetInt(x)
			return p.Interface().(ygot.GoEnum)
		}
		var max int64
		for x, e := range defs {
			d.Enum[n][fmt.Sprint(x)] = def{e.Name, e.DefiningModule}
			if x == 0 {
				d.ZeroDefined = append(d.ZeroDefined, n+"."+e.Name)
				continue
			}
			if prev, dup := seen[e.Name]; dup {
				bad("%%s: name %%q defined for values %%d and %%d", n, e.Name, prev, x)
			}
			seen[e.Name] = x
			if x > max {
				max = x
			}
			d.Checks++
			if got, err := ygot.EnumName(val(x)); err != nil || got != e.Name {
				bad("%%s: EnumName(%%d) = %%q, %%v; want %%q", n, x, got, err, e.Name)
			}
			forms := []string{e.Name}
			if e.DefiningModule != "" {
				forms = append(forms, e.DefiningModule+":"+e.Name)
			}
			for _, s := range forms {
				got, err := ytypes.StringToType(t, s)
				if err != nil || got.Int() != x {
					bad("%%s: StringToType(%%q) = %%v, %%v; want %%d", n, s, got, err, x)
				}
			}
		}
		if got, err := ygot.EnumName(val(0)); err != nil || got != "" {
			bad("%%s: EnumName(0) = %%q, %%v", n, got, err)
		}
		for _, x := range []int64{-1, max + 1, max + 7, math.MinInt64, math.MaxInt64} {
			if _, ok := defs[x]; ok || x == 0 {
				continue
			}
			d.Checks++
			if got, err := ygot.EnumName(val(x)); err == nil {
				bad("%%s: EnumName(%%d) = %%q without error for an undefined value", n, x, got)
			}
		}
	}
	return d
}

func main() {
	out := map[string]pkgDump{
%s
	}
	if err := json.NewEncoder(os.Stdout).Encode(out); err != nil {
		fmt.Fprintln(os.Stderr, err)
		os.Exit(1)
	}
}
`

type childDump struct {
	Enum        map[string]map[string]defJSON
	Types       map[string][]string
	Errors      []string
	ZeroDefined []string
	Checks      int
}

// expectedT2neg reads the enumerated leaves of the t2neg module straight from goyang.
func expectedT2neg() (map[string][]*memberSpec, error) {
	_, root, err := model.LoadYANG(t2negDir(), []string{"t2neg.yang"})
	if err != nil {
		return nil, err
	}
	out := map[string][]*memberSpec{}
	var walk func(e *yang.Entry, path string)
	walk = func(e *yang.Entry, path string) {
		if e.Type != nil && e.Type.Kind == yang.Yenum && e.Type.Enum != nil {
			out[path] = []*memberSpec{{values: e.Type.Enum.NameMap()}}
		}
		var names []string
		for n := range e.Dir {
			names = append(names, n)
		}
		sort.Strings(names)
		for _, n := range names {
			walk(e.Dir[n], path+"/"+n)
		}
	}
	walk(root, "")
	return out, nil
}

// TestC17_Flags generates further enum-naming flag combinations of both corpora into a scratch
// module, compiles them together with a small inspector program and checks the same bijection and
// goyang-equality properties on them. Runs in shard 0 only.
func TestC17_Flags(t *testing.T) {
	rec := ev.Start(t, "C17")
	rec.Rule(c17Rule)
	if ev.Shard() != 0 {
		return
	}
	if os.Getenv("VERIF_REPLAY") != "" {
		return
	}
	sc, err := pipeline.NewScratch("c17")
	if err != nil {
		t.Fatalf("HARNESS-BUG: scratch: %v", err)
	}
	defer sc.Remove()
	gomod, err := os.ReadFile(filepath.Join(pipeline.HarnessDir(), "go.mod"))
	if err != nil {
		t.Fatalf("HARNESS-BUG: %v", err)
	}
	gosum, _ := os.ReadFile(filepath.Join(pipeline.HarnessDir(), "go.sum"))
	lines := strings.SplitN(string(gomod), "\n", 2)
	if !strings.HasPrefix(lines[0], "module ") {
		t.Fatalf("HARNESS-BUG: unexpected go.mod head %q", lines[0])
	}
	os.WriteFile(filepath.Join(sc.Dir, "go.mod"), []byte("module c17scratch\n"+lines[1]), 0o644)
	os.WriteFile(filepath.Join(sc.Dir, "go.sum"), gosum, 0o644)
	combos := c17Combos()
	var imports, entries []string
	for _, c := range combos {
		dir := sc.Sub(c.pkg)
		in := pipeline.Input{Name: "corpus:" + c.corpus, Dir: pipeline.CorpusDir(), Roots: c.yang}
		if c.corpus == "t2neg" {
			in.Dir = t2negDir()
		}
		r := pipeline.RunGenerator(in, c.flags, dir, c.pkg)
		if r.Failed() {
			t.Fatalf("INCONCLUSIVE: generator failed for flag combination %s (%s): %v\n%s", c.pkg, c.flags, r.Err, pipeline.Trunc(r.Output, 3000))
		}
		imports = append(imports, fmt.Sprintf("\t%s \"c17scratch/%s\"", c.pkg, c.pkg))
		entries = append(entries, fmt.Sprintf("\t\t%q: inspect(%s.ΛEnum, %s.ΛEnumTypes),", c.pkg, c.pkg, c.pkg))
	}
	main := fmt.Sprintf(c17ChildMain, strings.Join(imports, "\n"), strings.Join(entries, "\n"))
	if err := os.WriteFile(filepath.Join(sc.Dir, "main.go"), []byte(main), 0o644); err != nil {
		t.Fatalf("HARNESS-BUG: %v", err)
	}
	t0 := time.Now()
	cmd := exec.Command("go", "run", "-trimpath", ".") // -trimpath: the build cache key does not depend on the scratch directory
	cmd.Dir = sc.Dir
	cmd.Env = append(os.Environ(), "GOFLAGS=-mod=mod", "GOPROXY=off", "GOSUMDB=off", "GOTOOLCHAIN=local")
	var stdout, stderr bytes.Buffer
	cmd.Stdout, cmd.Stderr = &stdout, &stderr
	done := make(chan error, 1)
	if err := cmd.Start(); err != nil {
		t.Fatalf("INCONCLUSIVE: cannot start go run: %v", err)
	}
	go func() { done <- cmd.Wait() }()
	select {
	case err := <-done:
		if err != nil {
			// the corpora and flag sets are fixed and known to compile: a failure here means the generated
			// code of the repository under test does not build or the inspector crashed
			t.Fatalf("C17 violated: generated code of the extra flag combinations does not build/run: %v\n%s", err, pipeline.Trunc(stderr.String(), 4000))
		}
	case <-time.After(8 * time.Minute):
		cmd.Process.Kill()
		<-done
		t.Fatalf("INCONCLUSIVE: go run of the inspector timed out")
	}
	rec.Set("flag_combo_build_s", time.Since(t0).Seconds())
	var dump map[string]childDump
	if err := json.Unmarshal(stdout.Bytes(), &dump); err != nil {
		t.Fatalf("HARNESS-BUG: inspector output: %v\n%s", err, pipeline.Trunc(stdout.String(), 2000))
	}
	expected := map[string]map[string][]*memberSpec{}
	for corpus, vn := range map[string]string{"vt": "vtu", "voc": "vocu"} {
		ex, err := expectedByPath(variants.Get(vn))
		if err != nil {
			t.Fatalf("HARNESS-BUG: %v", err)
		}
		expected[corpus] = ex
	}
	if expected["t2neg"], err = expectedT2neg(); err != nil {
		t.Fatalf("HARNESS-BUG: t2neg: %v", err)
	}
	rec.Witness(F44, func() (bool, string) {
		if z := dump["xn"].ZeroDefined; len(z) > 0 {
			return true, fmt.Sprintf("props/t2/testdata/yang/t2neg.yang: ΛEnum defines Go value 0 (UNSET) for %v (YANG value -1)", z)
		}
		return false, ""
	})
	for _, c := range combos {
		d, ok := dump[c.pkg]
		if !ok {
			t.Fatalf("HARNESS-BUG: inspector printed nothing for %s", c.pkg)
		}
		for _, e := range d.Errors {
			t.Errorf("C17 violated (flags %s): %s", c.flags, e)
		}
		zeroKnown := false
		for _, z := range d.ZeroDefined {
			// trigger: the member's YANG value is -1 (Go value = YANG value + 1)
			tn, member, _ := strings.Cut(z, ".")
			minusOne := false
			for _, specs := range expected[c.corpus] {
				for _, sp := range specs {
					if v, ok := sp.values[member]; ok && v == -1 {
						minusOne = true
					}
				}
			}
			if rec.Excuse(F44, minusOne) {
				zeroKnown = true
				continue
			}
			t.Errorf("C17 violated (flags %s): ΛEnum[%s] defines Go value 0 (UNSET) as member %s: it can never be rendered", c.flags, tn, member)
		}
		var paths []string
		for p := range d.Types {
			paths = append(paths, p)
		}
		sort.Strings(paths)
		matched := 0
		for _, p := range paths {
			specs, ok := expected[c.corpus][p]
			if !ok {
				t.Errorf("C17 violated (flags %s): ΛEnumTypes lists path %s, which has no enumerated leaf in the YANG corpus", c.flags, p)
				continue
			}
			used := map[int]bool{}
			for _, tn := range d.Types[p] {
				defs := map[int64]defJSON{}
				for xs, dj := range d.Enum[tn] {
					var x int64
					fmt.Sscan(xs, &x)
					defs[x] = dj
				}
				var lastErr error
				found := false
				for i, s := range specs {
					if err := matchSpec(defs, s); err == nil {
						found, used[i] = true, true
						break
					} else {
						lastErr = err
					}
				}
				if !found && zeroKnown && strings.Contains(fmt.Sprint(lastErr), "value 0 (UNSET) is defined") {
					found = true // already accounted to F44 above
					for i := range specs {
						used[i] = true
					}
				}
				if !found {
					t.Errorf("C17 violated (flags %s): type %s listed for %s matches no enumerated type of that leaf: %v", c.flags, tn, p, lastErr)
				}
				matched++
				nt := len(defs) >= 3
				rec.Case(fmt.Sprintf("flags|%s|%s|%s", c.pkg, p, tn), nt, "part:flag-combos", "flags:"+c.pkg)
			}
			if len(used) != len(specs) {
				t.Errorf("C17 violated (flags %s): leaf %s has %d enumerated member types in YANG, ΛEnumTypes lists %v", c.flags, p, len(specs), d.Types[p])
			}
		}
		if matched < 5 && c.corpus != "t2neg" {
			t.Errorf("INCONCLUSIVE: flag combination %s: only %d (path, type) pairs inspected", c.pkg, matched)
		}
		rec.Add("flag_combo_types", int64(len(d.Enum)))
		rec.Add("flag_combo_value_checks", int64(d.Checks))
		if rec.WantSample() {
			var tn []string
			for n := range d.Enum {
				tn = append(tn, n)
			}
			sort.Strings(tn)
			rec.Sample(map[string]interface{}{"flag_combination": c.flags.String(), "corpus": c.corpus, "enum_types": tn})
		}
	}
	var fl []string
	for _, c := range combos {
		fl = append(fl, c.pkg+": "+c.corpus+" "+c.flags.String())
	}
	rec.Set("flag_combinations", fl)
}
