package t2

import (
	"fmt"
	"reflect"
	"sort"
	"strings"
	"testing"

	"github.com/openconfig/ygot/ygot"
	"pgregory.net/rapid"
	"verifharness/ev"
	"verifharness/model"
	"verifharness/variants"
)

// ---- C34: generated keyed-list helpers behave as a keyed map ----------------------------------------
//
// Reference model: a Go map from the canonical text of a key tuple to (expected entry content,
// expected entry address). The helpers New<L>, GetOrCreate<L>, Get<L>, Append<L>, Delete<L>,
// Rename<L> and GetOrCreate<L>Map of the list's parent struct are called through reflection on a
// fresh, standalone parent struct.

// Findings this check reproduces on the unchanged tree.
const (
	// F40: Append<L> does not reject an entry whose enumeration / identityref / union key leaf is unset.
	F40 = "F40-append-unset-nonscalar-key"
	// F41: with wrapper unions a union-typed list key is a pointer: equal key values are different map keys.
	F41 = "F41-wrapper-union-key-identity"
)

type klEnt struct {
	key  []model.Val
	kc   string
	node *model.Node
	ptr  uintptr
}

type klOpKind int

const (
	kNew klOpKind = iota
	kGetOrCreate
	kGet
	kAppend
	kAppendNilKey
	kDelete
	kRename
	kGetOrCreateMap
)

var klOpNames = map[klOpKind]string{kNew: "New", kGetOrCreate: "GetOrCreate", kGet: "Get", kAppend: "Append", kAppendNilKey: "Append(nil-key)",
	kDelete: "Delete", kRename: "Rename", kGetOrCreateMap: "GetOrCreateMap"}

type klOp struct {
	kind    klOpKind
	cand    int
	to      int // kRename: new key candidate
	nilMask int // kAppendNilKey
}

func (o klOp) String() string {
	switch o.kind {
	case kRename:
		return fmt.Sprintf("Rename(k%d->k%d)", o.cand, o.to)
	case kAppendNilKey:
		return fmt.Sprintf("Append(k%d,nil-mask=%b)", o.cand, o.nilMask)
	case kGetOrCreateMap:
		return "GetOrCreateMap"
	}
	return fmt.Sprintf("%s(k%d)", klOpNames[o.kind], o.cand)
}

type klMachine struct {
	site     *listSite
	rec      *ev.Rec
	parent   reflect.Value
	cands    [][]model.Val
	leafT    []reflect.Type    // Go type of each key component as the helpers take it
	cache    [][]reflect.Value // shared mode: Go values of each candidate's components, built once
	shared   bool              // reuse the same Go key values in every call (matters for pointer-typed wrapper unions)
	unionKey bool              // wrapper-union variant and a union-typed key leaf
	mark     *marker
	ents     map[string]*klEnt
	hist     []string
	serial   int
	steps    int
	rejAt    int
	dead     bool // the run met an open known finding and left the model; nothing more is asserted
	quiet    bool // skip the invariants after a step (exhaustive part: prefixes were checked as sequences of their own)

	nRename, nRenameOK, nRenameExisting, nRenameMissing, nNewDup, nAppendDup, nNilKey, nDelMiss, nDelHit, nGOCExisting, nGOCNew, nGetMiss, nGetHit, nIns int
}

// keyLeafTypes gives the Go type of every key component of list field f (the map key type for a
// single key, the key struct's field types otherwise).
func keyLeafTypes(f *model.FieldInfo) []reflect.Type {
	kt := f.KeyType
	if len(f.KeyFields) == 1 {
		if _, isStruct := kt.MethodByName("IsYANGGoKeyStruct"); !isStruct {
			return []reflect.Type{kt}
		}
	}
	out := make([]reflect.Type, len(f.KeyNames))
	for i, kn := range f.KeyNames {
		for j := 0; j < kt.NumField(); j++ {
			if kt.Field(j).Tag.Get("path") == kn {
				out[i] = kt.Field(j).Type
			}
		}
		if out[i] == nil {
			panic(fmt.Sprintf("HARNESS-BUG: key struct %s has no field for key %s", kt, kn))
		}
	}
	return out
}

func newKlMachine(rec *ev.Rec, site *listSite, cands [][]model.Val, shared bool) *klMachine {
	m := &klMachine{site: site, rec: rec, cands: cands, shared: shared, ents: map[string]*klEnt{}, rejAt: -1}
	m.parent = site.newOwner()
	m.leafT = keyLeafTypes(site.f)
	m.mark = site.marker(cands[0])
	for _, kf := range site.f.KeyFields {
		if site.v.Wrapper && kf.ElemUnion {
			m.unionKey = true
		}
	}
	if shared {
		for _, k := range cands {
			m.cache = append(m.cache, m.buildLeaves(k))
		}
	}
	return m
}

func (m *klMachine) buildLeaves(k []model.Val) []reflect.Value {
	out := make([]reflect.Value, len(k))
	for i, kf := range m.site.f.KeyFields {
		out[i] = model.GoValue(m.site.v, kf, m.leafT[i], k[i], true)
	}
	return out
}

// leaves returns the Go values of candidate ci's key components.
func (m *klMachine) leaves(ci int) []reflect.Value {
	if m.shared {
		return m.cache[ci]
	}
	return m.buildLeaves(m.cands[ci])
}

// goKey builds the Go map key (scalar or key struct) of candidate ci.
func (m *klMachine) goKey(ci int) reflect.Value {
	lv := m.leaves(ci)
	f := m.site.f
	kt := f.KeyType
	if len(lv) == 1 {
		if _, isStruct := kt.MethodByName("IsYANGGoKeyStruct"); !isStruct {
			return lv[0]
		}
	}
	kv := reflect.New(kt).Elem()
	for i, kn := range f.KeyNames {
		for j := 0; j < kt.NumField(); j++ {
			if kt.Field(j).Tag.Get("path") == kn {
				kv.Field(j).Set(lv[i])
			}
		}
	}
	return kv
}

func (m *klMachine) mapField() reflect.Value { return m.parent.Elem().Field(m.site.f.Index) }

func (m *klMachine) modelKeys() string {
	var p []string
	for _, e := range m.ents {
		p = append(p, shortKey(e.key))
	}
	sort.Strings(p)
	return "{" + strings.Join(p, " ") + "}"
}

func (m *klMachine) describe() string {
	var c []string
	for i, k := range m.cands {
		c = append(c, fmt.Sprintf("k%d=%s", i, shortKey(k)))
	}
	return fmt.Sprintf("list %s (keys %s), Go key values %s\ncandidate keys: %s\nhistory (%d steps): %s\nmodel keys now: %s",
		m.site.id(), keyKindLabel(m.site.f), boolLabel(m.shared, "built once and reused", "built afresh for every call"),
		strings.Join(c, " "), len(m.hist), strings.Join(m.hist, " ; "), m.modelKeys())
}

func (m *klMachine) histKey() string {
	var c []string
	for _, k := range m.cands {
		c = append(c, model.KeyCanon(k))
	}
	return m.site.id() + "|" + boolLabel(m.shared, "s", "f") + "|" + strings.Join(c, ";") + "|" + strings.Join(m.hist, ";")
}

func (m *klMachine) nontrivial() bool {
	return m.nRename > 0 || (m.rejAt >= 0 && m.steps > m.rejAt+1)
}

func (m *klMachine) noteReject() {
	if m.rejAt < 0 {
		m.rejAt = m.steps - 1
	}
}

// entryNode builds the expected content of an entry appended with the given key.
func (m *klMachine) entryNode(key []model.Val) *model.Node {
	n := model.NewEntry(m.site.f, key).N
	m.serial++
	m.mark.set(n, m.serial)
	return n
}

// newNode is the expected content of an entry created by New / GetOrCreate: the key leaves only.
func (m *klMachine) newNode(key []model.Val) *model.Node {
	n := model.NewNode(m.site.f.Child)
	for i, kf := range m.site.f.KeyFields {
		n.Leaf[kf.Name] = key[i]
	}
	return n
}

// buildEntry makes the Go entry struct for node; in shared mode its union key leaves hold the cached
// Go values, so that the map key derived from the entry is the same Go value as in the other calls.
func (m *klMachine) buildEntry(node *model.Node, ci int) reflect.Value {
	ev := reflect.ValueOf(model.Build(node))
	if m.shared && m.unionKey {
		lv := m.leaves(ci)
		for i, kf := range m.site.f.KeyFields {
			if kf.ElemUnion {
				if _, set := node.Leaf[kf.Name]; set {
					ev.Elem().Field(kf.Index).Set(lv[i])
				}
			}
		}
	}
	return ev
}

// f41 reports whether a disagreement is explained by finding F41 (and counts the exclusion).
func (m *klMachine) f41() bool {
	if m.rec != nil && m.rec.Excuse(F41, m.unionKey && !m.shared) {
		m.dead = true
		return true
	}
	return false
}

// apply executes one helper call and checks its postconditions against the model.
func (m *klMachine) apply(op klOp) error {
	if m.dead {
		return nil
	}
	f := m.site.f
	L := f.Name
	m.steps++
	desc := op.String()
	m.hist = append(m.hist, desc)
	key := m.cands[op.cand]
	kc := model.KeyCanon(key)
	cur := m.ents[kc]

	switch op.kind {
	case kNew:
		r := call(m.parent, "New"+L, m.leaves(op.cand)...)
		if r.panic != nil {
			return fmt.Errorf("%s panicked: %v", desc, r.panic)
		}
		err := errOf(r.out[1])
		if cur == nil {
			if err != nil || r.out[0].IsNil() {
				return fmt.Errorf("%s with a key that is not in the list: entry nil=%v, err=%v", desc, r.out[0].IsNil(), err)
			}
			m.ents[kc] = &klEnt{key: key, kc: kc, node: m.newNode(key), ptr: r.out[0].Pointer()}
			m.nIns++
		} else {
			if err == nil {
				if m.f41() {
					return nil
				}
				return fmt.Errorf("%s with a key that is already in the list returned no error (duplicate accepted)", desc)
			}
			m.nNewDup++
			m.noteReject()
		}
	case kGetOrCreate:
		r := call(m.parent, "GetOrCreate"+L, m.leaves(op.cand)...)
		if r.panic != nil {
			return fmt.Errorf("%s panicked: %v", desc, r.panic)
		}
		got := ptrOf(r.out[0])
		if got == 0 {
			return fmt.Errorf("%s returned nil", desc)
		}
		if cur != nil {
			if got != cur.ptr {
				if m.f41() {
					return nil
				}
				return fmt.Errorf("%s returned %#x, but the list holds entry %#x for that key", desc, got, cur.ptr)
			}
			m.nGOCExisting++
		} else {
			m.ents[kc] = &klEnt{key: key, kc: kc, node: m.newNode(key), ptr: got}
			m.nGOCNew++
			m.nIns++
		}
		// idempotent: a second call returns the same entry and changes nothing
		r2 := call(m.parent, "GetOrCreate"+L, m.leaves(op.cand)...)
		if r2.panic != nil {
			return fmt.Errorf("second %s panicked: %v", desc, r2.panic)
		}
		if ptrOf(r2.out[0]) != got {
			if m.f41() {
				return nil
			}
			return fmt.Errorf("%s is not idempotent: first call returned %#x, second %#x", desc, got, ptrOf(r2.out[0]))
		}
	case kGet:
		before := m.mapField().Len()
		r := call(m.parent, "Get"+L, m.leaves(op.cand)...)
		if r.panic != nil {
			return fmt.Errorf("%s panicked: %v", desc, r.panic)
		}
		var want uintptr
		if cur != nil {
			want = cur.ptr
			m.nGetHit++
		} else {
			m.nGetMiss++
		}
		if ptrOf(r.out[0]) != want {
			if m.f41() {
				return nil
			}
			return fmt.Errorf("%s returned %#x, want %#x (0 = nil)", desc, ptrOf(r.out[0]), want)
		}
		if m.mapField().Len() != before {
			return fmt.Errorf("%s changed the size of the list from %d to %d", desc, before, m.mapField().Len())
		}
	case kAppend:
		node := m.entryNode(key)
		ev := m.buildEntry(node, op.cand)
		r := call(m.parent, "Append"+L, ev)
		if r.panic != nil {
			return fmt.Errorf("%s panicked: %v", desc, r.panic)
		}
		err := errOf(r.out[0])
		if cur == nil {
			if err != nil {
				return fmt.Errorf("%s with a key that is not in the list was rejected: %v", desc, err)
			}
			m.ents[kc] = &klEnt{key: key, kc: kc, node: node, ptr: ev.Pointer()}
			m.nIns++
		} else {
			if err == nil {
				if m.f41() {
					return nil
				}
				return fmt.Errorf("%s with a key that is already in the list returned no error (duplicate accepted)", desc)
			}
			m.nAppendDup++
			m.noteReject()
		}
	case kAppendNilKey:
		node := m.entryNode(key)
		onlyNonPtr := true
		var nilled []string
		for i, kf := range f.KeyFields {
			if op.nilMask&(1<<uint(i)) != 0 {
				delete(node.Leaf, kf.Name)
				nilled = append(nilled, kf.Name)
				if kf.GoType.Kind() == reflect.Ptr {
					onlyNonPtr = false
				}
			}
		}
		ev := m.buildEntry(node, op.cand)
		r := call(m.parent, "Append"+L, ev)
		if r.panic != nil {
			return fmt.Errorf("%s panicked: %v", desc, r.panic)
		}
		m.nNilKey++
		if errOf(r.out[0]) == nil {
			if m.rec != nil && m.rec.Excuse(F40, onlyNonPtr) {
				// the entry went in under the zero key: take it out again so that the run can go on
				it := m.mapField().MapRange()
				for it.Next() {
					if it.Value().Pointer() == ev.Pointer() {
						m.mapField().SetMapIndex(it.Key(), reflect.Value{})
						break
					}
				}
				m.noteReject()
				return nil
			}
			return fmt.Errorf("%s: Append of an entry whose key leaf %v is unset returned no error", desc, nilled)
		}
		m.noteReject()
	case kDelete:
		r := call(m.parent, "Delete"+L, m.leaves(op.cand)...)
		if r.panic != nil {
			return fmt.Errorf("%s panicked: %v", desc, r.panic)
		}
		if cur != nil {
			delete(m.ents, kc)
			m.nDelHit++
		} else {
			m.nDelMiss++ // documented no-op
		}
	case kRename:
		nkey := m.cands[op.to]
		nkc := model.KeyCanon(nkey)
		r := call(m.parent, "Rename"+L, m.goKey(op.cand), m.goKey(op.to))
		if r.panic != nil {
			return fmt.Errorf("%s panicked: %v", desc, r.panic)
		}
		err := errOf(r.out[0])
		m.nRename++
		switch {
		case m.ents[nkc] != nil: // also covers old == new for a present key
			if err == nil {
				if m.f41() {
					return nil
				}
				return fmt.Errorf("%s to a key that is already in the list returned no error", desc)
			}
			m.nRenameExisting++
			m.noteReject()
		case cur == nil:
			if err == nil {
				return fmt.Errorf("%s from a key that is not in the list returned no error", desc)
			}
			m.nRenameMissing++
			m.noteReject()
		default:
			if err != nil {
				if m.f41() {
					return nil
				}
				return fmt.Errorf("%s (old key present, new key absent) failed: %v", desc, err)
			}
			delete(m.ents, kc)
			n := cur.node.Clone()
			for i, kf := range f.KeyFields {
				n.Leaf[kf.Name] = nkey[i]
			}
			m.ents[nkc] = &klEnt{key: nkey, kc: nkc, node: n, ptr: cur.ptr}
			m.nRenameOK++
		}
	case kGetOrCreateMap:
		r := call(m.parent, "GetOrCreate"+L+"Map")
		if r.panic != nil {
			return fmt.Errorf("%s panicked: %v", desc, r.panic)
		}
		if r.out[0].IsNil() || m.mapField().IsNil() || r.out[0].Pointer() != m.mapField().Pointer() {
			return fmt.Errorf("%s returned %v; the field is nil=%v", desc, r.out[0], m.mapField().IsNil())
		}
	}
	if m.quiet {
		return nil
	}
	return m.invariants()
}

// invariants compares the Go map with the model: same key tuples, same entry addresses, every
// entry's key leaves equal to its map key, entry contents as expected.
func (m *klMachine) invariants() error {
	f := m.site.f
	mp := m.mapField()
	seen := map[string]bool{}
	if !mp.IsNil() {
		it := mp.MapRange()
		for it.Next() {
			kc := model.KeyCanon(m.site.obsKey(it.Key()))
			if seen[kc] {
				if m.f41() {
					return nil
				}
				return fmt.Errorf("the list holds two entries whose keys have the same value %s", kc)
			}
			seen[kc] = true
			e := m.ents[kc]
			if e == nil {
				if m.f41() {
					return nil
				}
				return fmt.Errorf("the list holds key %s, the model does not (model keys %s)", kc, m.modelKeys())
			}
			if it.Value().IsNil() || it.Value().Pointer() != e.ptr {
				return fmt.Errorf("the list holds entry %#x under key %s, want %#x", ptrOf(it.Value()), kc, e.ptr)
			}
		}
	}
	var mkeys []string
	for kc := range m.ents {
		mkeys = append(mkeys, kc)
	}
	sort.Strings(mkeys)
	for _, kc := range mkeys {
		if !seen[kc] {
			if m.f41() {
				return nil
			}
			return fmt.Errorf("the model holds key %s, the list does not", kc)
		}
	}
	// Get<L> of every candidate key: the entry for present keys, nil for absent ones
	for ci, k := range m.cands {
		var want uintptr
		if e := m.ents[model.KeyCanon(k)]; e != nil {
			want = e.ptr
		}
		r := call(m.parent, "Get"+f.Name, m.leaves(ci)...)
		if r.panic != nil {
			return fmt.Errorf("Get%s(k%d) panicked: %v", f.Name, ci, r.panic)
		}
		if ptrOf(r.out[0]) != want {
			if m.f41() {
				return nil
			}
			return fmt.Errorf("Get%s(k%d) = %#x, want %#x (0 = nil)", f.Name, ci, ptrOf(r.out[0]), want)
		}
	}
	obs := model.Observe(m.site.v, m.parent.Interface().(ygot.GoStruct))
	for _, e := range obs.List[f.Name] {
		leaves, all := m.site.entryKeyLeaves(e.N)
		if !all || model.KeyCanon(leaves) != model.KeyCanon(e.Key) {
			return fmt.Errorf("entry under map key %s has key leaves %s", model.KeyCanon(e.Key), model.KeyCanon(leaves))
		}
	}
	exp := model.NewNode(m.site.owner)
	for _, kc := range mkeys {
		e := m.ents[kc]
		exp.List[f.Name] = append(exp.List[f.Name], &model.Entry{Key: e.key, N: e.node.Clone()})
	}
	if d := model.Diff(exp.Normalize(), obs.Normalize(), model.DiffOpts{}); len(d) > 0 {
		return fmt.Errorf("list content differs from the model (a = model, b = generated):\n  %s", strings.Join(d, "\n  "))
	}
	return nil
}

func (m *klMachine) classes() []string {
	cl := []string{"list:" + m.site.id(), "keykind:" + keyKindLabel(m.site.f), fmt.Sprintf("keys:%d", len(m.site.f.KeyFields)), "variant:" + m.site.v.Name}
	add := func(c bool, n string) {
		if c {
			cl = append(cl, n)
		}
	}
	add(m.nRename > 0, "hist:rename")
	add(m.nRenameOK > 0, "hist:rename-ok")
	add(m.nRenameExisting > 0, "hist:rename-to-existing")
	add(m.nRenameMissing > 0, "hist:rename-from-missing")
	add(m.nNewDup > 0, "hist:new-duplicate")
	add(m.nAppendDup > 0, "hist:append-duplicate")
	add(m.nNilKey > 0, "hist:append-nil-key")
	add(m.nDelMiss > 0, "hist:delete-miss")
	add(m.nDelHit > 0, "hist:delete-hit")
	add(m.nGOCExisting > 0, "hist:getorcreate-existing")
	add(m.nGOCNew > 0, "hist:getorcreate-new")
	add(m.nGetMiss > 0, "hist:get-miss")
	add(m.nGetHit > 0, "hist:get-hit")
	add(m.rejAt >= 0 && m.steps > m.rejAt+1, "hist:rejected-then-more")
	add(m.unionKey, "wrapper-union-key")
	add(m.unionKey && !m.shared, "wrapper-union-key:fresh-go-values")
	add(m.dead, "ended-by-known-finding")
	add(len(m.ents) >= 3, "final:>=3-entries")
	return cl
}

// c34Sites lists every keyed (unordered) list of every variant.
func c34Sites() []*listSite {
	var out []*listSite
	for _, v := range variants.All {
		v.MustInit()
		out = append(out, listsOf(v, model.FList)...)
	}
	return out
}

const c34Rule = "rapid state machine (Repeat) per keyed list of all six variants (every key type of the vt corpus: int8..uint64, string, boolean, decimal64, enumeration, identityref, unions, leafref keys, 2- and 3-key lists; voc lists with leafref keys, nested lists, the multi-key pair) over 2-4 candidate keys drawn with model.GenVal: " +
	"New/GetOrCreate(twice)/Get/Append(new|duplicate|unset key leaf)/Delete/Rename(ok|to existing|from missing|old==new)/GetOrCreateMap through reflection on a standalone parent struct; " +
	"oracle: map from key tuples to (entry address, expected content); after every step the Go map has exactly the model's keys and entry addresses, every entry's key leaves equal its map key, contents unchanged; New/Append reject duplicates (Append also unset keys) without change; GetOrCreate idempotent; Get creates nothing; Delete of a missing key is a no-op; Rename moves the entry and rewrites its key leaves, fails without change when new exists or old is missing; " +
	"plus bounded-exhaustive enumeration of all sequences of length <= 4 over 22 operations on 3 keys of vtu k-str and mk2. " +
	"non-trivial = history contains a Rename call or a rejected call followed by another operation; distinct by list + key mode + candidate keys + history"

var c34Need = map[string]float64{
	"hist:rename-ok":           0.25,
	"hist:rename-to-existing":  0.10,
	"hist:rename-from-missing": 0.10,
	"hist:new-duplicate":       0.10,
	"hist:append-duplicate":    0.10,
	"hist:append-nil-key":      0.15,
	"hist:delete-miss":         0.10,
	"hist:getorcreate-existing": 0.10,
	"hist:rejected-then-more":  0.40,
	"keys:2":                   0.03,
	"keys:3":                   0.01,
	"final:>=3-entries":        0.05,
}

// witnessF40 replays the minimal input of F40 on the real generated code (vtu /top/keyed).
func witnessF40(rec *ev.Rec) {
	rec.Witness(F40, func() (bool, string) {
		var bad []string
		for _, s := range c34Sites() {
			if s.v.Name != "vtu" || s.owner.T.Name() != "Vt_Top_Keyed" || (s.f.Name != "KEnum" && s.f.Name != "KUnion") {
				continue
			}
			parent := s.newOwner()
			r := call(parent, "Append"+s.f.Name, reflect.New(s.f.Child.T)) // entry with no key leaf set
			if r.panic == nil && errOf(r.out[0]) == nil {
				bad = append(bad, fmt.Sprintf("vtu Vt_Top_Keyed.Append%s(&%s{}) = nil error, list now has %d entry", s.f.Name, s.f.Child.T.Name(), parent.Elem().Field(s.f.Index).Len()))
			}
		}
		return len(bad) > 0, strings.Join(bad, "; ")
	})
}

// witnessF41 replays the minimal input of F41 (vtw /top/keyed/k-union).
func witnessF41(rec *ev.Rec) {
	rec.Witness(F41, func() (bool, string) {
		for _, s := range c34Sites() {
			if s.v.Name != "vtw" || s.owner.T.Name() != "Vt_Top_Keyed" || s.f.Name != "KUnion" {
				continue
			}
			m := newKlMachine(nil, s, [][]model.Val{{{K: model.KStr, S: "a"}}}, false)
			r1 := call(m.parent, "NewKUnion", m.leaves(0)...)
			r2 := call(m.parent, "NewKUnion", m.leaves(0)...)
			if r1.panic == nil && r2.panic == nil && errOf(r1.out[1]) == nil && errOf(r2.out[1]) == nil {
				return true, fmt.Sprintf("vtw Vt_Top_Keyed.NewKUnion(\"a\") twice (two To_..._Union(\"a\") values): both succeed, list has %d entries with key a", m.mapField().Len())
			}
		}
		return false, ""
	})
}

func TestC34_Machine(t *testing.T) {
	rec := ev.Start(t, "C34")
	rec.Rule(c34Rule)
	rec.Assume("helpers are called on a non-nil parent struct with non-nil entries; key values are in the value space of the key leaf's type")
	witnessF40(rec)
	witnessF41(rec)
	sites := c34Sites()
	if len(sites) < 30 {
		t.Fatalf("HARNESS-BUG: expected the keyed lists of six variants, found %d", len(sites))
	}
	tl := newTally()
	rapid.Check(t, func(rt *rapid.T) {
		site := sites[pickIndex(rt, len(sites), "list")]
		cands := drawCands(rt, site, model.GenOpts{}, rapid.IntRange(2, 4).Draw(rt, "ncand"))
		if len(cands) < 2 {
			rt.Skip("fewer than two distinct candidate keys")
		}
		shared := true
		for _, kf := range site.f.KeyFields {
			if site.v.Wrapper && kf.ElemUnion {
				shared = rapid.IntRange(0, 3).Draw(rt, "keyValueMode") != 0
			}
		}
		m := newKlMachine(rec, site, cands, shared)
		step := func(rt *rapid.T, op klOp) {
			if err := m.apply(op); err != nil {
				rt.Fatalf("C34 violated: %v\n%s", err, m.describe())
			}
		}
		cand := func(rt *rapid.T, label string) int { return rapid.IntRange(0, len(cands)-1).Draw(rt, label) }
		sel := func(present bool) []int {
			var r []int
			for i, k := range cands {
				if (m.ents[model.KeyCanon(k)] != nil) == present {
					r = append(r, i)
				}
			}
			return r
		}
		pickFrom := func(rt *rapid.T, l []int, label string) int {
			if len(l) == 0 {
				rt.Skip("no such key")
			}
			return l[rapid.IntRange(0, len(l)-1).Draw(rt, label)]
		}
		nkeys := len(site.f.KeyFields)
		rt.Repeat(map[string]func(*rapid.T){
			"New":             func(rt *rapid.T) { step(rt, klOp{kind: kNew, cand: cand(rt, "k")}) },
			"NewDup":          func(rt *rapid.T) { step(rt, klOp{kind: kNew, cand: pickFrom(rt, sel(true), "k")}) },
			"GetOrCreate":     func(rt *rapid.T) { step(rt, klOp{kind: kGetOrCreate, cand: cand(rt, "k")}) },
			"Get":             func(rt *rapid.T) { step(rt, klOp{kind: kGet, cand: cand(rt, "k")}) },
			"Append":          func(rt *rapid.T) { step(rt, klOp{kind: kAppend, cand: cand(rt, "k")}) },
			"AppendFresh":     func(rt *rapid.T) { step(rt, klOp{kind: kAppend, cand: pickFrom(rt, sel(false), "k")}) },
			"AppendDup":       func(rt *rapid.T) { step(rt, klOp{kind: kAppend, cand: pickFrom(rt, sel(true), "k")}) },
			"AppendNilKey":    func(rt *rapid.T) { step(rt, klOp{kind: kAppendNilKey, cand: cand(rt, "k"), nilMask: rapid.IntRange(1, 1<<uint(nkeys)-1).Draw(rt, "mask")}) },
			"Delete":          func(rt *rapid.T) { step(rt, klOp{kind: kDelete, cand: cand(rt, "k")}) },
			"Rename":          func(rt *rapid.T) { step(rt, klOp{kind: kRename, cand: cand(rt, "old"), to: cand(rt, "new")}) },
			"RenameOK":        func(rt *rapid.T) { step(rt, klOp{kind: kRename, cand: pickFrom(rt, sel(true), "old"), to: pickFrom(rt, sel(false), "new")}) },
			"RenameToExisting": func(rt *rapid.T) { step(rt, klOp{kind: kRename, cand: pickFrom(rt, sel(true), "old"), to: pickFrom(rt, sel(true), "new")}) },
			"RenameMissing":   func(rt *rapid.T) { step(rt, klOp{kind: kRename, cand: pickFrom(rt, sel(false), "old"), to: cand(rt, "new")}) },
			"GetOrCreateMap":  func(rt *rapid.T) { step(rt, klOp{kind: kGetOrCreateMap}) },
		})
		cl := m.classes()
		rec.Case(m.histKey(), m.nontrivial(), cl...)
		tl.add(cl)
		if rec.WantSample() {
			rec.Sample(map[string]interface{}{"list": site.id(), "keys": keyKindLabel(site.f), "history": strings.Join(m.hist, " ; "), "final_keys": m.modelKeys()})
		}
	})
	tl.require(t, "C34", 100, c34Need)
}

// ---- bounded-exhaustive part ---------------------------------------------------------------------------

func c34Alphabet() []klOp {
	var a []klOp
	for k := 0; k < 3; k++ {
		a = append(a, klOp{kind: kNew, cand: k}, klOp{kind: kGetOrCreate, cand: k}, klOp{kind: kAppend, cand: k}, klOp{kind: kDelete, cand: k})
	}
	a = append(a, klOp{kind: kAppendNilKey, cand: 0, nilMask: 1})
	for i := 0; i < 3; i++ {
		for j := 0; j < 3; j++ {
			a = append(a, klOp{kind: kRename, cand: i, to: j})
		}
	}
	return a
}

func TestC34_Exhaustive(t *testing.T) {
	rec := ev.Start(t, "C34")
	rec.Rule(c34Rule)
	witnessF40(rec)
	witnessF41(rec)
	type target struct {
		list  string
		cands [][]model.Val
	}
	u32 := func(n uint64) model.Val { return model.Val{K: model.KUint32, U: n} }
	str := func(s string) model.Val { return model.Val{K: model.KStr, S: s} }
	targets := []target{
		{"KStr", [][]model.Val{{str("a")}, {str("b")}, {str("c")}}},
		{"Mk2", [][]model.Val{{str("a"), u32(1)}, {str("a"), u32(2)}, {str("b"), u32(1)}}},
	}
	alpha := c34Alphabet()
	shard, shards := ev.Shard(), ev.Shards()
	var total int64
	for ti, tg := range targets {
		// bound: length <= 4; in the quick tier the second list stops at length 3 (quick budget)
		maxLen := 4
		if ti > 0 {
			maxLen = ev.Scale(3, 4)
		}
		var site *listSite
		for _, s := range c34Sites() {
			if s.v.Name == "vtu" && s.owner.T.Name() == "Vt_Top_Keyed" && s.f.Name == tg.list {
				site = s
			}
		}
		if site == nil {
			t.Fatalf("HARNESS-BUG: vtu Vt_Top_Keyed.%s not found", tg.list)
		}
		seq := make([]int, 0, maxLen)
		var dfs func()
		run := func() {
			m := newKlMachine(rec, site, tg.cands, true)
			for i, li := range seq {
				m.quiet = i < len(seq)-1 // apply checks the invariants after the last step
				if err := m.apply(alpha[li]); err != nil {
					t.Fatalf("C34 violated (exhaustive, step %d): %v\n%s", i+1, err, m.describe())
				}
			}
			total++
			rec.Case(m.histKey(), m.nontrivial(), "exhaustive", "exhaustive:"+tg.list,
				boolLabel(m.nRename > 0, "hist:rename", "hist:no-rename"),
				boolLabel(m.rejAt >= 0 && m.steps > m.rejAt+1, "hist:rejected-then-more", "hist:no-rejected-then-more"))
			if rec.WantSample() && total%1000 == 7 {
				rec.Sample(map[string]interface{}{"list": site.id(), "exhaustive": true, "history": strings.Join(m.hist, " ; "), "final_keys": m.modelKeys()})
			}
		}
		// shorter sequences first, so that the first failure is a shortest one
		want := 0
		dfs = func() {
			if len(seq) == want {
				run()
				return
			}
			for li := range alpha {
				if len(seq) == 0 && li%shards != shard {
					continue // partitioned over the shards by the first operation
				}
				seq = append(seq, li)
				dfs()
				seq = seq[:len(seq)-1]
			}
		}
		for want = 1; want <= maxLen; want++ {
			dfs()
		}
	}
	rec.Exhaustive()
	rec.Add("exhaustive_sequences", total)
	rec.Set("exhaustive_bound", fmt.Sprintf("all sequences of length 1..%d over %d operations (New/GetOrCreate/Append/Delete x 3 keys, Append with unset key, Rename x 9 key pairs; Get of all 3 keys after every sequence) on vtu /top/keyed/k-str, and up to length %d on /top/keyed/mk2", 4, len(alpha), ev.Scale(3, 4)))
}
