package t2

import (
	"fmt"
	"reflect"
	"strings"
	"testing"

	"github.com/openconfig/ygot/ygot"
	"github.com/openconfig/ygot/ytypes"
	"pgregory.net/rapid"
	"verifharness/ev"
	"verifharness/model"
	"verifharness/variants"
)

// ---- C15: generated ordered maps behave as insertion-ordered unique-key maps -----------------------
//
// Reference model: a slice of (key tuple, expected entry content, expected entry address) in
// insertion order. Every generated method is called through reflection; after every step the
// generated Keys/Values/Len/Get results, the parent's Get helper and the unexported keys/valueMap
// fields (read by model.Observe) must agree with the model.

type omEnt struct {
	key  []model.Val
	kc   string
	node *model.Node
	ptr  uintptr
}

type omOpKind int

const (
	oAppend       omOpKind = iota // Append(entry whose key is candidate k): accepted iff k is absent
	oAppendNil                    // Append(nil)
	oAppendNilKey                 // Append(entry with >= 1 nil key leaf)
	oAppendNew                    // AppendNew(k...)
	oDelete                       // Delete(k...)
	oGet                          // Get(k...)
	oKeys                         // Keys(), then overwrite the returned slice
	oValues                       // Values(), then overwrite the returned slice
	oLen                          // Len()
	oGetOrCreateMap               // parent's GetOrCreate<L>Map()
)

var omOpNames = map[omOpKind]string{oAppend: "Append", oAppendNil: "Append(nil)", oAppendNilKey: "Append(nil-key)", oAppendNew: "AppendNew",
	oDelete: "Delete", oGet: "Get", oKeys: "Keys+mutate", oValues: "Values+mutate", oLen: "Len", oGetOrCreateMap: "GetOrCreateMap"}

type omOp struct {
	kind      omOpKind
	cand      int         // index into the candidate keys
	viaParent bool        // use the parent's Append<L>/AppendNew<L>/Get<L>/Delete<L> helper
	nilMask   int         // oAppendNilKey: bit i set = key leaf i left nil (at least one bit)
	rich      *model.Node // oAppend: generated entry content (nil = key leaves + marker only)
}

func (o omOp) String() string {
	s := omOpNames[o.kind]
	switch o.kind {
	case oAppend, oAppendNew, oDelete, oGet:
		s += fmt.Sprintf("(k%d)", o.cand)
	case oAppendNilKey:
		s += fmt.Sprintf("(k%d,nil-mask=%b)", o.cand, o.nilMask)
	}
	if o.rich != nil {
		s += "+content"
	}
	if o.viaParent {
		s = "parent." + s
	}
	return s
}

type omMachine struct {
	site   *listSite
	root   ygot.GoStruct
	parent reflect.Value
	cands  [][]model.Val
	mark   *marker
	ents   []*omEnt
	hist   []string
	serial int

	deleted     map[string]bool
	delReappend bool // some key was deleted and appended again later
	rejAt       int  // step of the first rejected append (-1 = none)
	steps       int
	nRejDup, nRejNil, nRejNilKey, nKeysMut, nValsMut, nParent, nDelHit, nDelMiss, nAppOK, nRich int
}

func newOmMachine(site *listSite, cands [][]model.Val) *omMachine {
	m := &omMachine{site: site, cands: cands, deleted: map[string]bool{}, rejAt: -1}
	m.root, m.parent = site.newRooted()
	m.mark = site.marker(cands[0])
	return m
}

func (m *omMachine) omField() reflect.Value { return m.parent.Elem().Field(m.site.f.Index) }

func (m *omMachine) find(kc string) int {
	for i, e := range m.ents {
		if e.kc == kc {
			return i
		}
	}
	return -1
}

func (m *omMachine) modelKeys() string {
	var p []string
	for _, e := range m.ents {
		p = append(p, shortKey(e.key))
	}
	return "[" + strings.Join(p, " ") + "]"
}

// describe renders the whole case for failure messages.
func (m *omMachine) describe() string {
	var c []string
	for i, k := range m.cands {
		c = append(c, fmt.Sprintf("k%d=%s", i, shortKey(k)))
	}
	return fmt.Sprintf("list %s (keys %s)\ncandidate keys: %s\nhistory (%d steps): %s\nmodel order now: %s",
		m.site.id(), keyKindLabel(m.site.f), strings.Join(c, " "), len(m.hist), strings.Join(m.hist, " ; "), m.modelKeys())
}

// histKey is the canonical encoding of the case.
func (m *omMachine) histKey() string {
	var c []string
	for _, k := range m.cands {
		c = append(c, model.KeyCanon(k))
	}
	return m.site.id() + "|" + strings.Join(c, ";") + "|" + strings.Join(m.hist, ";")
}

func (m *omMachine) nontrivial() bool {
	return m.delReappend || (m.rejAt >= 0 && m.steps > m.rejAt+1)
}

// entryNode builds the expected content of a new entry with the given key.
func (m *omMachine) entryNode(key []model.Val, rich *model.Node) *model.Node {
	f := m.site.f
	var n *model.Node
	if rich != nil {
		n = rich.Clone()
		for i, kf := range f.KeyFields {
			n.Leaf[kf.Name] = key[i]
		}
		model.AlignKeyTargets(f, n, key)
	} else {
		n = model.NewEntry(f, key).N
	}
	m.serial++
	m.mark.set(n, m.serial)
	return n
}

func (m *omMachine) noteReject(kind *int) {
	*kind++
	if m.rejAt < 0 {
		m.rejAt = m.steps - 1
	}
}

func (m *omMachine) noteInsert(kc string) {
	m.nAppOK++
	if m.deleted[kc] {
		m.delReappend = true
	}
}

// apply executes one operation against the generated code and the model and checks the
// operation's own postconditions. The caller checks the invariants afterwards.
func (m *omMachine) apply(op omOp) error {
	f := m.site.f
	L := f.Name
	m.steps++
	desc := op.String()
	if op.kind == oKeys || op.kind == oValues || op.kind == oLen {
		op.viaParent = false
	}
	var recv reflect.Value
	mname := func(base string) string { return base }
	if op.viaParent || op.kind == oGetOrCreateMap {
		recv = m.parent
		mname = func(base string) string { return base + L }
		m.nParent++
	} else {
		if m.omField().IsNil() {
			// the ordered map does not exist yet: get it through the documented accessor
			r := call(m.parent, "GetOrCreate"+L+"Map")
			if r.panic != nil {
				return fmt.Errorf("GetOrCreate%sMap panicked: %v", L, r.panic)
			}
			if r.out[0].IsNil() || m.omField().IsNil() || r.out[0].Pointer() != m.omField().Pointer() {
				return fmt.Errorf("GetOrCreate%sMap on a nil field: returned %v, field now nil=%v", L, r.out[0], m.omField().IsNil())
			}
			desc = "GetOrCreateMap," + desc
		}
		recv = m.omField()
	}
	m.hist = append(m.hist, desc)

	var key []model.Val
	var kc string
	idx := -1
	if op.cand < len(m.cands) {
		key = m.cands[op.cand]
		kc = model.KeyCanon(key)
		idx = m.find(kc)
	}

	switch op.kind {
	case oAppend:
		node := m.entryNode(key, op.rich)
		if op.rich != nil {
			m.nRich++
		}
		ev := reflect.ValueOf(model.Build(node))
		r := call(recv, mname("Append"), ev)
		if r.panic != nil {
			return fmt.Errorf("%s panicked: %v", desc, r.panic)
		}
		err := errOf(r.out[0])
		if idx < 0 {
			if err != nil {
				return fmt.Errorf("%s with a key that is not in the list was rejected: %v", desc, err)
			}
			m.ents = append(m.ents, &omEnt{key: key, kc: kc, node: node, ptr: ev.Pointer()})
			m.noteInsert(kc)
		} else {
			if err == nil {
				return fmt.Errorf("%s with a key that is already in the list returned no error (duplicate accepted)", desc)
			}
			m.noteReject(&m.nRejDup)
		}
	case oAppendNil:
		r := call(recv, mname("Append"), reflect.Zero(reflect.PtrTo(f.Child.T)))
		if r.panic != nil {
			return fmt.Errorf("%s panicked: %v", desc, r.panic)
		}
		if errOf(r.out[0]) == nil {
			return fmt.Errorf("%s returned no error", desc)
		}
		m.noteReject(&m.nRejNil)
	case oAppendNilKey:
		node := m.entryNode(key, nil)
		for i, kf := range f.KeyFields {
			if op.nilMask&(1<<uint(i)) != 0 {
				delete(node.Leaf, kf.Name)
			}
		}
		r := call(recv, mname("Append"), reflect.ValueOf(model.Build(node)))
		if r.panic != nil {
			return fmt.Errorf("%s panicked: %v", desc, r.panic)
		}
		if errOf(r.out[0]) == nil {
			return fmt.Errorf("%s (entry whose key leaf is nil) returned no error", desc)
		}
		m.noteReject(&m.nRejNilKey)
	case oAppendNew:
		r := call(recv, mname("AppendNew"), m.site.keyArgs(recv, mname("AppendNew"), key)...)
		if r.panic != nil {
			return fmt.Errorf("%s panicked: %v", desc, r.panic)
		}
		err := errOf(r.out[1])
		if idx < 0 {
			if err != nil || r.out[0].IsNil() {
				return fmt.Errorf("%s with a key that is not in the list: entry nil=%v, err=%v", desc, r.out[0].IsNil(), err)
			}
			node := model.NewNode(f.Child)
			for i, kf := range f.KeyFields {
				node.Leaf[kf.Name] = key[i]
			}
			m.ents = append(m.ents, &omEnt{key: key, kc: kc, node: node, ptr: r.out[0].Pointer()})
			m.noteInsert(kc)
		} else {
			if err == nil {
				return fmt.Errorf("%s with a key that is already in the list returned no error", desc)
			}
			if !r.out[0].IsNil() {
				return fmt.Errorf("%s with a duplicate key returned an error and a non-nil entry", desc)
			}
			m.noteReject(&m.nRejDup)
		}
	case oDelete:
		r := call(recv, mname("Delete"), m.site.keyArgs(recv, mname("Delete"), key)...)
		if r.panic != nil {
			return fmt.Errorf("%s panicked: %v", desc, r.panic)
		}
		got := r.out[0].Bool()
		if got != (idx >= 0) {
			return fmt.Errorf("%s returned %v, key present in the model: %v", desc, got, idx >= 0)
		}
		if idx >= 0 {
			m.ents = append(m.ents[:idx:idx], m.ents[idx+1:]...)
			m.deleted[kc] = true
			m.nDelHit++
		} else {
			m.nDelMiss++
		}
	case oGet:
		r := call(recv, mname("Get"), m.site.keyArgs(recv, mname("Get"), key)...)
		if r.panic != nil {
			return fmt.Errorf("%s panicked: %v", desc, r.panic)
		}
		var want uintptr
		if idx >= 0 {
			want = m.ents[idx].ptr
		}
		if ptrOf(r.out[0]) != want {
			return fmt.Errorf("%s returned %#x, want %#x (0 = nil)", desc, ptrOf(r.out[0]), want)
		}
	case oKeys:
		r := call(recv, "Keys")
		if r.panic != nil {
			return fmt.Errorf("Keys panicked: %v", r.panic)
		}
		ks := r.out[0]
		if err := m.cmpKeys(ks); err != nil {
			return err
		}
		// overwrite the caller's slice: the map must not see it
		for i := 0; i < ks.Len(); i++ {
			other := m.cands[(op.cand+1+i)%len(m.cands)]
			ks.Index(i).Set(model.GoKey(f, other))
		}
		if ks.Len() >= 2 {
			a, b := ks.Index(0).Interface(), ks.Index(ks.Len()-1).Interface()
			ks.Index(0).Set(reflect.ValueOf(b))
			ks.Index(ks.Len() - 1).Set(reflect.ValueOf(a))
		}
		if ks.Len() > 0 {
			m.nKeysMut++
		}
	case oValues:
		r := call(recv, "Values")
		if r.panic != nil {
			return fmt.Errorf("Values panicked: %v", r.panic)
		}
		vs := r.out[0]
		if err := m.cmpValues(vs); err != nil {
			return err
		}
		for i := 0; i < vs.Len(); i++ {
			vs.Index(i).Set(reflect.Zero(vs.Type().Elem()))
		}
		if vs.Len() > 0 {
			m.nValsMut++
		}
	case oLen:
		r := call(recv, "Len")
		if r.panic != nil {
			return fmt.Errorf("Len panicked: %v", r.panic)
		}
		if int(r.out[0].Int()) != len(m.ents) {
			return fmt.Errorf("Len() = %d, model has %d entries", r.out[0].Int(), len(m.ents))
		}
	case oGetOrCreateMap:
		before := ptrOf(m.omField())
		r := call(m.parent, "GetOrCreate"+L+"Map")
		if r.panic != nil {
			return fmt.Errorf("%s panicked: %v", desc, r.panic)
		}
		got := ptrOf(r.out[0])
		if got == 0 || got != ptrOf(m.omField()) || (before != 0 && got != before) {
			return fmt.Errorf("%s returned %#x; field before %#x, after %#x", desc, got, before, ptrOf(m.omField()))
		}
	}
	return nil
}

func (m *omMachine) cmpKeys(ks reflect.Value) error {
	if ks.Len() != len(m.ents) {
		return fmt.Errorf("Keys() has %d elements, model has %d %s", ks.Len(), len(m.ents), m.modelKeys())
	}
	for i, e := range m.ents {
		if got := model.KeyCanon(m.site.obsKey(ks.Index(i))); got != e.kc {
			return fmt.Errorf("Keys()[%d] = %s, model has %s (model order %s)", i, got, e.kc, m.modelKeys())
		}
	}
	return nil
}

func (m *omMachine) cmpValues(vs reflect.Value) error {
	if vs.Len() != len(m.ents) {
		return fmt.Errorf("Values() has %d elements, model has %d %s", vs.Len(), len(m.ents), m.modelKeys())
	}
	for i, e := range m.ents {
		if got := ptrOf(vs.Index(i)); got != e.ptr {
			return fmt.Errorf("Values()[%d] = %#x, want the entry appended for %s (%#x)", i, got, shortKey(e.key), e.ptr)
		}
	}
	return nil
}

// expOwner is the expected content of the list's parent struct.
func (m *omMachine) expOwner() *model.Node {
	n := model.NewNode(m.site.owner)
	var l []*model.Entry
	for _, e := range m.ents {
		l = append(l, &model.Entry{Key: e.key, N: e.node.Clone()})
	}
	if len(l) > 0 {
		n.List[m.site.f.Name] = l
	}
	return n
}

// invariants compares the generated map with the model through Keys, Values, Len, Get (map and
// parent) and through the harness's observer, which reads keys/valueMap directly.
func (m *omMachine) invariants() error {
	f := m.site.f
	om := m.omField()
	if !om.IsNil() {
		r := call(om, "Len")
		if r.panic != nil {
			return fmt.Errorf("Len panicked: %v", r.panic)
		}
		if int(r.out[0].Int()) != len(m.ents) {
			return fmt.Errorf("Len() = %d, model has %d entries %s", r.out[0].Int(), len(m.ents), m.modelKeys())
		}
		if r = call(om, "Keys"); r.panic != nil {
			return fmt.Errorf("Keys panicked: %v", r.panic)
		}
		if err := m.cmpKeys(r.out[0]); err != nil {
			return err
		}
		if r = call(om, "Values"); r.panic != nil {
			return fmt.Errorf("Values panicked: %v", r.panic)
		}
		if err := m.cmpValues(r.out[0]); err != nil {
			return err
		}
	}
	for ci, k := range m.cands {
		var want uintptr
		if i := m.find(model.KeyCanon(k)); i >= 0 {
			want = m.ents[i].ptr
		}
		if !om.IsNil() {
			r := call(om, "Get", m.site.keyArgs(om, "Get", k)...)
			if r.panic != nil {
				return fmt.Errorf("Get(k%d) panicked: %v", ci, r.panic)
			}
			if ptrOf(r.out[0]) != want {
				return fmt.Errorf("Get(k%d) = %#x, want %#x (0 = nil: key not in the model)", ci, ptrOf(r.out[0]), want)
			}
		}
		r := call(m.parent, "Get"+f.Name, m.site.keyArgs(m.parent, "Get"+f.Name, k)...)
		if r.panic != nil {
			return fmt.Errorf("parent.Get%s(k%d) panicked: %v", f.Name, ci, r.panic)
		}
		if ptrOf(r.out[0]) != want {
			return fmt.Errorf("parent.Get%s(k%d) = %#x, want %#x (0 = nil: key not in the model)", f.Name, ci, ptrOf(r.out[0]), want)
		}
	}
	obs := model.Observe(m.site.v, m.parent.Interface().(ygot.GoStruct))
	for i, e := range obs.List[f.Name] {
		leaves, all := m.site.entryKeyLeaves(e.N)
		if !all || model.KeyCanon(leaves) != model.KeyCanon(e.Key) {
			return fmt.Errorf("entry %d of the map: key %s but key leaves %s", i, model.KeyCanon(e.Key), model.KeyCanon(leaves))
		}
	}
	if d := model.Diff(m.expOwner().Normalize(), obs.Normalize(), model.DiffOpts{}); len(d) > 0 {
		return fmt.Errorf("keys/valueMap of the generated map differ from the model (a = model, b = generated):\n  %s", strings.Join(d, "\n  "))
	}
	return nil
}

// roundTrip checks that order and content survive one of the three transports.
func (m *omMachine) roundTrip(how string) error {
	v := m.site.v
	want := m.site.expRoot(m.expOwner()).Normalize()
	var got *model.Node
	switch how {
	case "json":
		js, err := ygot.Marshal7951(m.root)
		if err != nil {
			return fmt.Errorf("Marshal7951 failed: %v", err)
		}
		fresh := v.NewRoot()
		if err := v.Unmarshal(js, fresh); err != nil {
			return fmt.Errorf("Unmarshal of Marshal7951 output failed: %v\njson: %s", err, js)
		}
		got = model.ObserveNorm(v, fresh)
		if d := model.Diff(want, got, model.DiffOpts{}); len(d) > 0 {
			return fmt.Errorf("order/content changed through JSON (a = model, b = after Marshal7951+Unmarshal):\n  %s\njson: %s", strings.Join(d, "\n  "), js)
		}
		return nil
	case "gnmi":
		ns, err := ygot.TogNMINotifications(m.root, 42, ygot.GNMINotificationsConfig{UsePathElem: true})
		if err != nil {
			return fmt.Errorf("TogNMINotifications failed: %v", err)
		}
		sch := &ytypes.Schema{Root: v.NewRoot(), SchemaTree: v.Schema().SchemaTree, Unmarshal: v.Unmarshal}
		if err := ytypes.UnmarshalNotifications(sch, ns); err != nil {
			return fmt.Errorf("UnmarshalNotifications of TogNMINotifications output failed: %v\nnotifications: %v", err, ns)
		}
		got = model.ObserveNorm(v, sch.Root)
		if d := model.Diff(want, got, model.DiffOpts{}); len(d) > 0 {
			return fmt.Errorf("order/content changed through gNMI (a = model, b = after TogNMINotifications+UnmarshalNotifications):\n  %s\nnotifications: %v", strings.Join(d, "\n  "), ns)
		}
		return nil
	case "copy":
		c, err := ygot.DeepCopy(m.root)
		if err != nil {
			return fmt.Errorf("DeepCopy failed: %v", err)
		}
		got = model.ObserveNorm(v, c)
		if d := model.Diff(want, got, model.DiffOpts{}); len(d) > 0 {
			return fmt.Errorf("order/content changed through DeepCopy (a = model, b = copy):\n  %s", strings.Join(d, "\n  "))
		}
		return nil
	}
	panic("HARNESS-BUG: unknown transport " + how)
}

func (m *omMachine) classes() []string {
	cl := []string{"list:" + m.site.id(), fmt.Sprintf("keys:%d", len(m.site.f.KeyFields))}
	add := func(c bool, n string) {
		if c {
			cl = append(cl, n)
		}
	}
	add(m.delReappend, "hist:delete-then-reappend")
	add(m.rejAt >= 0, "hist:rejected-append")
	add(m.rejAt >= 0 && m.steps > m.rejAt+1, "hist:rejected-append-then-more")
	add(m.nRejDup > 0, "hist:duplicate-rejected")
	add(m.nRejNil > 0, "hist:append-nil")
	add(m.nRejNilKey > 0, "hist:append-nil-key")
	add(m.nKeysMut > 0, "hist:keys-slice-mutated")
	add(m.nValsMut > 0, "hist:values-slice-mutated")
	add(m.nParent > 0, "hist:parent-helper")
	add(m.nDelHit > 0, "hist:delete-hit")
	add(m.nDelMiss > 0, "hist:delete-miss")
	add(m.nRich > 0, "hist:generated-entry-content")
	add(len(m.ents) >= 3, "final:>=3-entries")
	add(len(m.ents) == 0, "final:empty")
	switch {
	case m.steps <= 5:
		cl = append(cl, "len:<=5")
	case m.steps <= 20:
		cl = append(cl, "len:6-20")
	default:
		cl = append(cl, "len:>20")
	}
	return cl
}

// c15Sites lists the ordered-by-user lists of the variants named by the property.
func c15Sites() []*listSite {
	var out []*listSite
	for _, v := range variants.Pick("vtu", "vtw", "vocc", "vocu", "vtu2") {
		for _, s := range listsOf(v, model.FOrdList) {
			if s.reach {
				out = append(out, s)
			}
		}
	}
	return out
}

// drawCands draws n distinct candidate key tuples for the site's list (fewer when the key domain is
// smaller). Multi-key tuples are drawn from at most two values per component so that tuples share
// components.
func drawCands(rt *rapid.T, s *listSite, o model.GenOpts, n int) [][]model.Val {
	kfs := s.f.KeyFields
	pools := make([][]model.Val, len(kfs))
	per := n
	if len(kfs) > 1 {
		per = 2
	}
	for i, kf := range kfs {
		seen := map[string]bool{}
		for tries := 0; len(pools[i]) < per && tries < 8*per; tries++ {
			v := model.GenVal(rt, s.v, kf.Type, o, fmt.Sprintf("key%d", i))
			if seen[v.LooseCanon()] {
				continue
			}
			seen[v.LooseCanon()] = true
			pools[i] = append(pools[i], v)
		}
	}
	if len(kfs) == 1 {
		out := make([][]model.Val, len(pools[0]))
		for i, v := range pools[0] {
			out[i] = []model.Val{v}
		}
		return out
	}
	var out [][]model.Val
	seen := map[string]bool{}
	for tries := 0; len(out) < n && tries < 8*n; tries++ {
		k := make([]model.Val, len(kfs))
		for i := range kfs {
			k[i] = pools[i][rapid.IntRange(0, len(pools[i])-1).Draw(rt, "pick")]
		}
		if kc := model.KeyCanon(k); !seen[kc] {
			seen[kc] = true
			out = append(out, k)
		}
	}
	return out
}

const c15Rule = "rapid state machine (Repeat) per ordered-by-user list of vtu/vtw/vocc/vocu (single string key, uint16+string key, leafref key) over 2-4 candidate keys: " +
	"map-level Append(new|duplicate|nil|nil key leaf)/AppendNew/Delete/Get/Keys+overwrite returned slice/Values+overwrite returned slice/Len and the parent's AppendNew<L>/Append<L>/Get<L>/Delete<L>/GetOrCreate<L>Map, all through reflection; " +
	"oracle: insertion-ordered unique-key model (rejected calls change nothing); after every step Len/Keys/Values/Get/parent Get, the unexported keys+valueMap (model.Observe) and every entry's key leaves agree with it; " +
	"order and content survive Marshal7951->Unmarshal, TogNMINotifications->UnmarshalNotifications and DeepCopy (mid-run and at the end); " +
	"plus bounded-exhaustive enumeration of all sequences of length <= 5 over 13 operations on keys {a,b,c} of vtu /top/ordered/o1 (map-level and parent-level). " +
	"non-trivial = history deletes a key and appends it again later, or has a rejected append followed by >= 1 more operation; distinct by list + candidate keys + operation history"

func TestC15_Machine(t *testing.T) {
	rec := ev.Start(t, "C15")
	rec.Rule(c15Rule)
	rec.Assume("ordered-map methods are called on a non-nil map obtained from the parent's GetOrCreate<L>Map or created by the parent's Append helpers; candidate keys are plain [a-z0-9] strings / small integers (key encodings belong to C16)")
	sites := c15Sites()
	if len(sites) < 4 {
		t.Fatalf("HARNESS-BUG: expected the ordered lists of vtu, vtw, vocc, vocu, found %d", len(sites))
	}
	tl := newTally()
	rapid.Check(t, func(rt *rapid.T) {
		site := sites[pickIndex(rt, len(sites), "list")]
		// generated entry content: no presence containers (gNMI notifications carry leaves only, so an
		// empty presence container cannot survive that transport; C02's precondition, not C15's subject)
		gopts := model.GenOpts{PlainStrings: true, Sparse: true, NoUnkeyed: true, Skip: func(f *model.FieldInfo) bool { return f.Presence }}
		cands := drawCands(rt, site, gopts, rapid.IntRange(2, 4).Draw(rt, "ncand"))
		if len(cands) < 2 {
			rt.Skip("fewer than two distinct candidate keys")
		}
		m := newOmMachine(site, cands)
		step := func(rt *rapid.T, op omOp) {
			if err := m.apply(op); err != nil {
				rt.Fatalf("C15 violated: %v\n%s", err, m.describe())
			}
		}
		cand := func(rt *rapid.T) int { return rapid.IntRange(0, len(cands)-1).Draw(rt, "k") }
		via := func(rt *rapid.T) bool { return rapid.Bool().Draw(rt, "viaParent") }
		absent := func() []int {
			var r []int
			for i, k := range cands {
				if m.find(model.KeyCanon(k)) < 0 {
					r = append(r, i)
				}
			}
			return r
		}
		present := func() []int {
			var r []int
			for i, k := range cands {
				if m.find(model.KeyCanon(k)) >= 0 {
					r = append(r, i)
				}
			}
			return r
		}
		pickFrom := func(rt *rapid.T, l []int) int {
			if len(l) == 0 {
				rt.Skip("no such key")
			}
			return l[rapid.IntRange(0, len(l)-1).Draw(rt, "which")]
		}
		nkeys := len(site.f.KeyFields)
		trip := func(how string) func(*rapid.T) {
			return func(rt *rapid.T) {
				m.hist = append(m.hist, "roundtrip:"+how)
				m.steps++
				if err := m.roundTrip(how); err != nil {
					rt.Fatalf("C15 violated: %v\n%s", err, m.describe())
				}
			}
		}
		rt.Repeat(map[string]func(*rapid.T){
			"": func(rt *rapid.T) {
				if err := m.invariants(); err != nil {
					rt.Fatalf("C15 violated after the last step: %v\n%s", err, m.describe())
				}
			},
			"AppendFresh": func(rt *rapid.T) {
				op := omOp{kind: oAppend, cand: pickFrom(rt, absent()), viaParent: via(rt)}
				if rapid.IntRange(0, 2).Draw(rt, "content") == 0 {
					op.rich = model.GenNode(rt, site.f.Child, gopts)
				}
				step(rt, op)
			},
			"AppendDup":      func(rt *rapid.T) { step(rt, omOp{kind: oAppend, cand: pickFrom(rt, present()), viaParent: via(rt)}) },
			"AppendAny":      func(rt *rapid.T) { step(rt, omOp{kind: oAppend, cand: cand(rt), viaParent: via(rt)}) },
			"AppendNil":      func(rt *rapid.T) { step(rt, omOp{kind: oAppendNil, viaParent: via(rt)}) },
			"AppendNilKey":   func(rt *rapid.T) { step(rt, omOp{kind: oAppendNilKey, cand: cand(rt), nilMask: rapid.IntRange(1, 1<<uint(nkeys)-1).Draw(rt, "mask"), viaParent: via(rt)}) },
			"AppendNew":      func(rt *rapid.T) { step(rt, omOp{kind: oAppendNew, cand: cand(rt), viaParent: via(rt)}) },
			"AppendNewFresh": func(rt *rapid.T) { step(rt, omOp{kind: oAppendNew, cand: pickFrom(rt, absent()), viaParent: via(rt)}) },
			"Delete":         func(rt *rapid.T) { step(rt, omOp{kind: oDelete, cand: cand(rt), viaParent: via(rt)}) },
			"DeletePresent":  func(rt *rapid.T) { step(rt, omOp{kind: oDelete, cand: pickFrom(rt, present()), viaParent: via(rt)}) },
			"Get":            func(rt *rapid.T) { step(rt, omOp{kind: oGet, cand: cand(rt), viaParent: via(rt)}) },
			"Keys":           func(rt *rapid.T) { step(rt, omOp{kind: oKeys, cand: cand(rt)}) },
			"Values":         func(rt *rapid.T) { step(rt, omOp{kind: oValues}) },
			"Len":            func(rt *rapid.T) { step(rt, omOp{kind: oLen}) },
			"GetOrCreateMap": func(rt *rapid.T) { step(rt, omOp{kind: oGetOrCreateMap}) },
			"RoundTripJSON":  trip("json"),
			"RoundTripGNMI":  trip("gnmi"),
			"DeepCopy":       trip("copy"),
		})
		for _, how := range []string{"json", "gnmi", "copy"} {
			if err := m.roundTrip(how); err != nil {
				rt.Fatalf("C15 violated at the end of the history: %v\n%s", err, m.describe())
			}
		}
		cl := m.classes()
		rec.Case(m.histKey(), m.nontrivial(), cl...)
		tl.add(cl)
		if rec.WantSample() {
			rec.Sample(map[string]interface{}{"list": site.id(), "history": strings.Join(m.hist, " ; "), "final_order": m.modelKeys()})
		}
	})
	tl.require(t, "C15", 100, c15Need)
}

// c15Need lists the minimum frequencies of the essential history classes.
var c15Need = map[string]float64{
	"hist:rejected-append-then-more": 0.30,
	"hist:delete-then-reappend":      0.10,
	"hist:duplicate-rejected":        0.25,
	"hist:append-nil":                0.10,
	"hist:append-nil-key":            0.10,
	"hist:keys-slice-mutated":        0.10,
	"hist:values-slice-mutated":      0.10,
	"hist:parent-helper":             0.30,
	"keys:2":                         0.10,
	"final:>=3-entries":              0.05,
}

// ---- bounded-exhaustive part ---------------------------------------------------------------------------

func strKey(s string) []model.Val { return []model.Val{{K: model.KStr, S: s}} }

// c15Alphabet is the operation alphabet of the exhaustive enumeration: the three mutators on each of
// the three keys, the two always-rejected appends and the two slice-mutation probes. Get and Len are
// not letters: they are evaluated for every key after every sequence (invariants).
func c15Alphabet(viaParent bool) []omOp {
	var a []omOp
	for k := 0; k < 3; k++ {
		a = append(a, omOp{kind: oAppend, cand: k, viaParent: viaParent}, omOp{kind: oAppendNew, cand: k, viaParent: viaParent}, omOp{kind: oDelete, cand: k, viaParent: viaParent})
	}
	a = append(a, omOp{kind: oAppendNil, viaParent: viaParent}, omOp{kind: oAppendNilKey, cand: 0, nilMask: 1, viaParent: viaParent},
		omOp{kind: oKeys, cand: 0}, omOp{kind: oValues})
	return a
}

func TestC15_Exhaustive(t *testing.T) {
	rec := ev.Start(t, "C15")
	rec.Rule(c15Rule)
	var site *listSite
	for _, s := range c15Sites() {
		if s.v.Name == "vtu" && len(s.f.KeyFields) == 1 {
			site = s
		}
	}
	if site == nil {
		t.Fatalf("HARNESS-BUG: vtu single-key ordered list not found")
	}
	cands := [][]model.Val{strKey("a"), strKey("b"), strKey("c")}
	// bound: length <= 5; in the quick tier the parent-level pass (pure delegation to the map-level
	// methods) stops at length 4 to stay within the quick budget
	shard, shards := ev.Shard(), ev.Shards()
	var total, trips int64
	seenFinal := map[string]bool{}
	for _, viaParent := range []bool{false, true} {
		alpha := c15Alphabet(viaParent)
		maxLen := 5
		if viaParent {
			maxLen = ev.Scale(4, 5)
		}
		seq := make([]int, 0, maxLen)
		var dfs func()
		run := func() {
			m := newOmMachine(site, cands)
			for i, li := range seq {
				if err := m.apply(alpha[li]); err != nil {
					t.Fatalf("C15 violated (exhaustive, step %d): %v\n%s", i+1, err, m.describe())
				}
			}
			// prefixes were checked when they were enumerated as sequences of their own
			if err := m.invariants(); err != nil {
				t.Fatalf("C15 violated (exhaustive): %v\n%s", err, m.describe())
			}
			total++
			fk := boolLabel(viaParent, "p", "m") + m.modelKeys()
			if !seenFinal[fk] || total%499 == 0 {
				seenFinal[fk] = true
				trips++
				for _, how := range []string{"json", "gnmi", "copy"} {
					if err := m.roundTrip(how); err != nil {
						t.Fatalf("C15 violated (exhaustive): %v\n%s", err, m.describe())
					}
				}
			}
			rec.Case(m.histKey(), m.nontrivial(), "exhaustive", boolLabel(viaParent, "exhaustive:parent-level", "exhaustive:map-level"),
				boolLabel(m.delReappend, "hist:delete-then-reappend", "hist:no-delete-then-reappend"),
				boolLabel(m.rejAt >= 0 && m.steps > m.rejAt+1, "hist:rejected-append-then-more", "hist:no-rejected-append-then-more"))
			if rec.WantSample() && total%1000 == 7 {
				rec.Sample(map[string]interface{}{"list": site.id(), "exhaustive": true, "history": strings.Join(m.hist, " ; "), "final_order": m.modelKeys()})
			}
		}
		// shorter sequences first, so that the first failure is a shortest one
		want := 0
		dfs = func() {
			if len(seq) == want {
				run()
				return
			}
			for li := range alpha {
				if len(seq) == 0 && li%shards != shard {
					continue // sequences are partitioned over the shards by their first operation
				}
				seq = append(seq, li)
				dfs()
				seq = seq[:len(seq)-1]
			}
		}
		for want = 1; want <= maxLen; want++ {
			dfs()
		}
	}
	rec.Exhaustive()
	rec.Add("exhaustive_sequences", total)
	rec.Add("exhaustive_roundtrips", trips)
	rec.Set("exhaustive_bound", fmt.Sprintf("all sequences of length 1..5 over %d operations on keys {a,b,c}: map-level methods; the same through the parent's helpers up to length %d", len(c15Alphabet(false)), ev.Scale(4, 5)))
}
