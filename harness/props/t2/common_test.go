// Package t2 holds the checks C15 (generated ordered maps), C34 (generated keyed-list helpers) and
// C17 (enumeration / identity names). See /verif/DESIGN.md section 5.
//
// All generated methods are called through reflection, so the state machines are generic over the
// lists of the corpus variants; the oracles are plain Go models (slice of keys / map of key tuples)
// plus the harness's reflective observer (model.Observe), which never calls ygot.
package t2

import (
	"fmt"
	"reflect"
	"sort"
	"strings"
	"sync"

	"github.com/openconfig/ygot/ygot"
	"pgregory.net/rapid"
	"verifharness/model"
)

// listSite is one list field of one generated struct of one variant.
type listSite struct {
	v     *model.Variant
	owner *model.StructInfo
	f     *model.FieldInfo
	// conts are the container fields leading from the variant's root to owner; reach says whether
	// such a chain exists (owner is not below a list).
	conts []*model.FieldInfo
	reach bool

	markOnce sync.Once
	mark     *marker
}

// marker returns the payload leaf used to tell the entries of this list apart (nil if none).
func (s *listSite) marker(anyKey []model.Val) *marker {
	s.markOnce.Do(func() { s.mark = findMarker(s.f, anyKey) })
	return s.mark
}

func (s *listSite) id() string { return s.v.Name + ":" + s.owner.T.Name() + "." + s.f.Name }

// sortedStructs returns the struct table of v in a fixed order.
func sortedStructs(v *model.Variant) []*model.StructInfo {
	v.MustInit()
	var out []*model.StructInfo
	for _, si := range v.Structs {
		out = append(out, si)
	}
	sort.Slice(out, func(i, j int) bool { return out[i].T.Name() < out[j].T.Name() })
	return out
}

// contPath finds the chain of container fields from the root to target.
func contPath(v *model.Variant, target *model.StructInfo) ([]*model.FieldInfo, bool) {
	var walk func(si *model.StructInfo, acc []*model.FieldInfo) ([]*model.FieldInfo, bool)
	walk = func(si *model.StructInfo, acc []*model.FieldInfo) ([]*model.FieldInfo, bool) {
		if si == target {
			return append([]*model.FieldInfo{}, acc...), true
		}
		for _, f := range si.Fields {
			if f.Kind == model.FCont {
				if p, ok := walk(f.Child, append(acc, f)); ok {
					return p, true
				}
			}
		}
		return nil, false
	}
	return walk(v.Root, nil)
}

// listsOf returns every list field of the given kind in v, in a fixed order.
func listsOf(v *model.Variant, kind model.FKind) []*listSite {
	var out []*listSite
	for _, si := range sortedStructs(v) {
		for _, f := range si.Fields {
			if f.Kind != kind {
				continue
			}
			s := &listSite{v: v, owner: si, f: f}
			s.conts, s.reach = contPath(v, si)
			out = append(out, s)
		}
	}
	return out
}

// newRooted makes a fresh root with the containers down to the site's owner, and returns both.
func (s *listSite) newRooted() (ygot.GoStruct, reflect.Value) {
	if !s.reach {
		panic("HARNESS-BUG: " + s.id() + " is not reachable through containers")
	}
	root := s.v.NewRoot()
	cur := reflect.ValueOf(root)
	for _, cf := range s.conts {
		fv := cur.Elem().Field(cf.Index)
		fv.Set(reflect.New(fv.Type().Elem()))
		cur = fv
	}
	return root, cur
}

// newOwner makes a fresh, standalone owner struct.
func (s *listSite) newOwner() reflect.Value { return reflect.New(s.owner.T) }

// expRoot wraps the expected owner node into an expected root node.
func (s *listSite) expRoot(owner *model.Node) *model.Node {
	if len(s.conts) == 0 {
		return owner
	}
	root := model.NewNode(s.v.Root)
	cur := root
	for i, cf := range s.conts {
		var c *model.Node
		if i == len(s.conts)-1 {
			c = owner
		} else {
			c = model.NewNode(cf.Child)
		}
		cur.Cont[cf.Name] = c
		cur = c
	}
	return root
}

type methKey struct {
	t    reflect.Type
	name string
}

var (
	methMu  sync.Mutex
	methIdx = map[methKey]int{}
)

// method looks up a method by name (index cached: reflect's MethodByName is slow).
func method(recv reflect.Value, name string) reflect.Value {
	k := methKey{recv.Type(), name}
	methMu.Lock()
	i, ok := methIdx[k]
	methMu.Unlock()
	if !ok {
		m, found := recv.Type().MethodByName(name)
		if !found {
			panic(fmt.Sprintf("HARNESS-BUG: type %s has no method %s", recv.Type(), name))
		}
		i = m.Index
		methMu.Lock()
		methIdx[k] = i
		methMu.Unlock()
	}
	return recv.Method(i)
}

// callRes is the result of a reflective method call.
type callRes struct {
	out   []reflect.Value
	panic interface{}
}

// call invokes method name on recv; a panic of the generated code is captured, not propagated.
func call(recv reflect.Value, name string, args ...reflect.Value) (res callRes) {
	m := method(recv, name)
	if m.Type().NumIn() != len(args) {
		panic(fmt.Sprintf("HARNESS-BUG: method %s.%s takes %d arguments, have %d", recv.Type(), name, m.Type().NumIn(), len(args)))
	}
	defer func() {
		if p := recover(); p != nil {
			res.panic = p
		}
	}()
	res.out = m.Call(args)
	return res
}

// errOf converts a reflected error result.
func errOf(v reflect.Value) error {
	if v.IsNil() {
		return nil
	}
	return v.Interface().(error)
}

// ptrOf gives the address held by a pointer value (0 for nil).
func ptrOf(v reflect.Value) uintptr {
	if !v.IsValid() || v.IsNil() {
		return 0
	}
	return v.Pointer()
}

// keyArgs builds the key arguments for method name of recv: one argument per key leaf
// (New<L>(k1, k2 ...)), or the key struct when the method takes a single argument for a multi-key list.
func (s *listSite) keyArgs(recv reflect.Value, name string, key []model.Val) []reflect.Value {
	m := method(recv, name)
	if m.Type().NumIn() == 1 && len(key) > 1 {
		// map-level Get/Delete of a multi-key ordered map and Rename take the key struct
		return []reflect.Value{model.GoKey(s.f, key)}
	}
	if m.Type().NumIn() != len(key) {
		panic(fmt.Sprintf("HARNESS-BUG: %s.%s takes %d arguments, list has %d keys", recv.Type(), name, m.Type().NumIn(), len(key)))
	}
	args := make([]reflect.Value, len(key))
	for i, kf := range s.f.KeyFields {
		args[i] = model.GoValue(s.v, kf, m.Type().In(i), key[i], true)
	}
	return args
}

// obsKey reads a Go map key (scalar or key struct) of the site's list into key values, by
// reflection over the `path` tags of the key struct.
func (s *listSite) obsKey(kv reflect.Value) []model.Val {
	f := s.f
	if kv.Kind() == reflect.Struct {
		if _, ok := kv.Type().MethodByName("IsYANGGoKeyStruct"); ok {
			out := make([]model.Val, len(f.KeyNames))
			for i, kn := range f.KeyNames {
				for j := 0; j < kv.NumField(); j++ {
					if kv.Type().Field(j).Tag.Get("path") == kn {
						v, _ := model.ObserveValue(s.v, f.KeyFields[i].Type, kv.Field(j))
						out[i] = v
					}
				}
			}
			return out
		}
	}
	v, _ := model.ObserveValue(s.v, f.KeyFields[0].Type, kv)
	return []model.Val{v}
}

// entryKeyLeaves reads the key leaves of an observed entry node.
func (s *listSite) entryKeyLeaves(n *model.Node) ([]model.Val, bool) {
	out := make([]model.Val, len(s.f.KeyFields))
	all := true
	for i, kf := range s.f.KeyFields {
		v, ok := n.Leaf[kf.Name]
		if !ok {
			all = false
		}
		out[i] = v
	}
	return out, all
}

// marker locates a payload leaf of the entry struct that tells entries apart: the first non-key
// string leaf without restrictions, else an unrestricted unsigned leaf, searched through
// containers. It is nil when the entry struct has no such leaf.
type marker struct {
	path []*model.FieldInfo // containers, then the leaf
}

func findMarker(f *model.FieldInfo, key []model.Val) *marker {
	taken := model.NewEntry(f, key).N // key leaves and in-entry leafref targets
	var walk func(si *model.StructInfo, n *model.Node, acc []*model.FieldInfo, wantStr bool, depth int) *marker
	walk = func(si *model.StructInfo, n *model.Node, acc []*model.FieldInfo, wantStr bool, depth int) *marker {
		for _, lf := range si.Fields {
			if lf.Kind != model.FLeaf || lf.IsKey || lf.ElemUnion || lf.Type == nil || lf.Type.Leafref != "" {
				continue
			}
			if n != nil {
				if _, set := n.Leaf[lf.Name]; set {
					continue
				}
			}
			k := lf.Type.VKind()
			plain := len(lf.Type.Range) == 0 && len(lf.Type.Length) == 0 && len(lf.Type.Patterns) == 0
			if plain && ((wantStr && k == model.KStr) || (!wantStr && k.Unsigned())) {
				return &marker{path: append(append([]*model.FieldInfo{}, acc...), lf)}
			}
		}
		if depth >= 2 {
			return nil
		}
		for _, cf := range si.Fields {
			if cf.Kind != model.FCont || cf.Presence {
				continue
			}
			var sub *model.Node
			if n != nil {
				sub = n.Cont[cf.Name]
			}
			if m := walk(cf.Child, sub, append(acc, cf), wantStr, depth+1); m != nil {
				return m
			}
		}
		return nil
	}
	if m := walk(f.Child, taken, nil, true, 0); m != nil {
		return m
	}
	return walk(f.Child, taken, nil, false, 0)
}

// set writes serial into the marker leaf of entry node n.
func (m *marker) set(n *model.Node, serial int) {
	if m == nil {
		return
	}
	cur := n
	for _, pf := range m.path[:len(m.path)-1] {
		c := cur.Cont[pf.Name]
		if c == nil {
			c = model.NewNode(pf.Child)
			cur.Cont[pf.Name] = c
		}
		cur = c
	}
	lf := m.path[len(m.path)-1]
	k := lf.Type.VKind()
	if k == model.KStr {
		cur.Leaf[lf.Name] = model.Val{K: model.KStr, S: fmt.Sprintf("m%d", serial)}
	} else {
		cur.Leaf[lf.Name] = model.Val{K: k, U: uint64(serial % 250)}
	}
}

func (m *marker) String() string {
	if m == nil {
		return "<none>"
	}
	var p []string
	for _, f := range m.path {
		p = append(p, f.Name)
	}
	return strings.Join(p, ".")
}

// shortKey renders a key tuple compactly for histories.
func shortKey(k []model.Val) string {
	p := make([]string, len(k))
	for i, v := range k {
		p[i] = v.Canon()
	}
	return "(" + strings.Join(p, ",") + ")"
}

// keyKindLabel names the kinds of a list's key leaves.
func keyKindLabel(f *model.FieldInfo) string {
	var p []string
	for _, kf := range f.KeyFields {
		n := kf.Type.TypeName()
		if kf.Type.Leafref != "" {
			n = "leafref->" + n
		}
		p = append(p, n)
	}
	return strings.Join(p, "+")
}

func boolLabel(b bool, yes, no string) string {
	if b {
		return yes
	}
	return no
}

// tally counts classes locally for the generator-health assertion (ev.Rec does not expose its
// histogram). rapid runs the property function on one goroutine, so no locking is needed.
type tally struct {
	n int
	c map[string]int
}

func newTally() *tally { return &tally{c: map[string]int{}} }

func (tl *tally) add(classes []string) {
	tl.n++
	for _, c := range classes {
		tl.c[c]++
	}
}

// require fails the test as INCONCLUSIVE when a class occurred in fewer than the given fraction of
// the cases. Runs with fewer than minCases cases (replays) are not measured.
func (tl *tally) require(t interface {
	Failed() bool
	Errorf(string, ...interface{})
}, prop string, minCases int, need map[string]float64) {
	if t.Failed() || tl.n < minCases {
		return
	}
	var names []string
	for c := range need {
		names = append(names, c)
	}
	sort.Strings(names)
	for _, c := range names {
		if float64(tl.c[c]) < need[c]*float64(tl.n) {
			t.Errorf("INCONCLUSIVE: %s generator health: class %q occurred in %d of %d cases (need >= %.1f%%)", prop, c, tl.c[c], tl.n, need[c]*100)
		}
	}
}

// pickIndex draws an index in [0, n) that is spread evenly: rapid's integer generators favour small
// values, so the raw draw is passed through a fixed mixing function (still a pure function of the
// rapid bit stream, so failures replay and shrink).
func pickIndex(rt *rapid.T, n int, label string) int {
	x := rapid.Uint64().Draw(rt, label)
	x ^= x >> 33
	x *= 0xff51afd7ed558ccd
	x ^= x >> 33
	x *= 0xc4ceb9fe1a85ec53
	x ^= x >> 33
	return int(x % uint64(n))
}
