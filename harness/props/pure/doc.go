// Package pure holds the property checks that need no generated GoStruct code: they drive
// pure functions of ygot (restriction validators, path string encoding, path relations)
// with generated inputs and judge them with independent oracles.
//
//	C06  scalar restriction validators   (ytypes, util/yang.go)
//	C08  gNMI path string encoding       (ygot/pathstrings.go, util/path.go)
//	C09  gNMI path relations             (util/gnmi.go)
package pure
