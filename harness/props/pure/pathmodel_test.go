package pure

// Harness-side model of gNMI paths, shared by C08 and C09. It is deliberately independent of
// ygot: plain structs with keys kept sorted, own rendering, own conversion to the proto.

import (
	"sort"
	"strings"

	gpb "github.com/openconfig/gnmi/proto/gnmi"
)

// mKey is one key of a path element.
type mKey struct{ K, V string }

// mElem is one path element; Keys is sorted by key name and has no duplicates.
type mElem struct {
	Name string
	Keys []mKey
}

// mPath is a whole path.
type mPath struct {
	Origin, Target string
	Elems          []mElem
}

func (e mElem) get(k string) (string, bool) {
	for _, kv := range e.Keys {
		if kv.K == k {
			return kv.V, true
		}
	}
	return "", false
}

func (e mElem) clone() mElem {
	return mElem{Name: e.Name, Keys: append([]mKey(nil), e.Keys...)}
}

// with returns a copy of e in which key k has value v (added or replaced).
func (e mElem) with(k, v string) mElem {
	c := e.clone()
	for i := range c.Keys {
		if c.Keys[i].K == k {
			c.Keys[i].V = v
			return c
		}
	}
	c.Keys = append(c.Keys, mKey{k, v})
	sort.Slice(c.Keys, func(i, j int) bool { return c.Keys[i].K < c.Keys[j].K })
	return c
}

// without returns a copy of e lacking key k.
func (e mElem) without(k string) mElem {
	c := mElem{Name: e.Name}
	for _, kv := range e.Keys {
		if kv.K != k {
			c.Keys = append(c.Keys, kv)
		}
	}
	return c
}

func (e mElem) equal(o mElem) bool {
	if e.Name != o.Name || len(e.Keys) != len(o.Keys) {
		return false
	}
	for i := range e.Keys {
		if e.Keys[i] != o.Keys[i] {
			return false
		}
	}
	return true
}

func (p mPath) clone() mPath {
	c := mPath{Origin: p.Origin, Target: p.Target}
	for _, e := range p.Elems {
		c.Elems = append(c.Elems, e.clone())
	}
	return c
}

func (p mPath) equal(o mPath) bool {
	if p.Origin != o.Origin || p.Target != o.Target || len(p.Elems) != len(o.Elems) {
		return false
	}
	for i := range p.Elems {
		if !p.Elems[i].equal(o.Elems[i]) {
			return false
		}
	}
	return true
}

// String renders the path for keys, samples and failure messages. Go-quoted values, so that
// the rendering is unambiguous whatever the values contain (it is NOT the gNMI encoding).
func (p mPath) String() string {
	var b strings.Builder
	if p.Origin != "" || p.Target != "" {
		b.WriteString("{origin=" + p.Origin + " target=" + p.Target + "}")
	}
	if len(p.Elems) == 0 {
		b.WriteString("/")
	}
	for _, e := range p.Elems {
		b.WriteString("/")
		b.WriteString(e.Name)
		for _, kv := range e.Keys {
			b.WriteString("[" + kv.K + "=")
			if simpleValue(kv.V) {
				b.WriteString(kv.V)
			} else {
				b.WriteString(quoteGo(kv.V))
			}
			b.WriteString("]")
		}
	}
	return b.String()
}

func simpleValue(s string) bool {
	if s == "" {
		return false
	}
	for _, r := range s {
		if !(r >= 'a' && r <= 'z' || r >= 'A' && r <= 'Z' || r >= '0' && r <= '9' || r == '*' || r == '-' || r == '_' || r == '.') {
			return false
		}
	}
	return true
}

// proto builds a fresh gNMI proto for p. Elements without keys get a nil map (what hand-written
// code produces; StringToStructuredPath produces empty non-nil maps, which is why comparisons
// go through fromProto or proto.Equal, for both of which the two are the same).
func (p mPath) proto() *gpb.Path {
	g := &gpb.Path{Origin: p.Origin, Target: p.Target}
	for _, e := range p.Elems {
		pe := &gpb.PathElem{Name: e.Name}
		if len(e.Keys) > 0 {
			pe.Key = make(map[string]string, len(e.Keys))
			for _, kv := range e.Keys {
				pe.Key[kv.K] = kv.V
			}
		}
		g.Elem = append(g.Elem, pe)
	}
	return g
}

// fromProto reads a gNMI proto back into the model (keys sorted), for comparisons that must
// not depend on proto.Equal's treatment of nil vs empty maps.
func fromProto(g *gpb.Path) mPath {
	p := mPath{Origin: g.GetOrigin(), Target: g.GetTarget()}
	for _, pe := range g.GetElem() {
		e := mElem{Name: pe.GetName()}
		ks := make([]string, 0, len(pe.GetKey()))
		for k := range pe.GetKey() {
			ks = append(ks, k)
		}
		sort.Strings(ks)
		for _, k := range ks {
			e.Keys = append(e.Keys, mKey{k, pe.GetKey()[k]})
		}
		p.Elems = append(p.Elems, e)
	}
	return p
}

func quoteGo(s string) string {
	var b strings.Builder
	b.WriteByte('"')
	for _, r := range s {
		switch {
		case r == '"' || r == '\\':
			b.WriteByte('\\')
			b.WriteRune(r)
		case r < 0x20 || r == 0x7f:
			b.WriteString(`\x`)
			b.WriteByte("0123456789abcdef"[r>>4])
			b.WriteByte("0123456789abcdef"[r&15])
		default:
			b.WriteRune(r)
		}
	}
	b.WriteByte('"')
	return b.String()
}
