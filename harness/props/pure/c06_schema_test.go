package pure

// Schema construction for C06: the restriction under test is written as YANG text and parsed
// by goyang, so the *yang.YangType handed to ygot's validators is exactly what a real schema
// would carry (ranges sorted and coalesced, min/max resolved, patterns collected through the
// typedef chain, posix-pattern read from the openconfig extension).

import (
	"fmt"
	"strings"

	"github.com/openconfig/goyang/pkg/yang"
)

const ocExtModule = `module openconfig-extensions {
  namespace "urn:verif:oc-ext";
  prefix oc-ext;
  extension posix-pattern { argument "pattern"; }
}`

// yangQuote renders s as a double-quoted YANG string (RFC 7950 section 6.1.3: inside double
// quotes only \n \t \" \\ are escapes).
func yangQuote(s string) string {
	var b strings.Builder
	b.WriteByte('"')
	for _, r := range s {
		switch r {
		case '"':
			b.WriteString(`\"`)
		case '\\':
			b.WriteString(`\\`)
		case '\n':
			b.WriteString(`\n`)
		case '\t':
			b.WriteString(`\t`)
		default:
			b.WriteRune(r)
		}
	}
	b.WriteByte('"')
	return b.String()
}

// typeSpec describes `type <Base> { <Body> }`, optionally derived from a typedef that itself
// restricts the base: `typedef td { type <Base> { <ParentBody> } }  leaf l { type td { <Body> } }`.
type typeSpec struct {
	Base       string
	ParentBody string // "" = no typedef level
	Body       string
	UseTypedef bool
}

func (ts typeSpec) yang() string {
	var b strings.Builder
	b.WriteString("module c06 {\n  namespace \"urn:verif:c06\";\n  prefix c;\n  import openconfig-extensions { prefix oc-ext; }\n")
	tn := ts.Base
	if ts.UseTypedef {
		fmt.Fprintf(&b, "  typedef td {\n    type %s {\n%s    }\n  }\n", ts.Base, ts.ParentBody)
		tn = "td"
	}
	fmt.Fprintf(&b, "  leaf l {\n    type %s {\n%s    }\n  }\n}\n", tn, ts.Body)
	return b.String()
}

// parseLeaf returns the schema entry of leaf l of the module described by ts.
func parseLeaf(ts typeSpec) (*yang.Entry, error) {
	ms := yang.NewModules()
	if err := ms.Parse(ocExtModule, "openconfig-extensions.yang"); err != nil {
		return nil, fmt.Errorf("extension module: %v", err)
	}
	if err := ms.Parse(ts.yang(), "c06.yang"); err != nil {
		return nil, err
	}
	if errs := ms.Process(); len(errs) > 0 {
		return nil, fmt.Errorf("%v", errs)
	}
	m, ok := ms.Modules["c06"]
	if !ok {
		return nil, fmt.Errorf("module c06 not found after parsing")
	}
	e := yang.ToEntry(m)
	if e == nil || e.Dir["l"] == nil || e.Dir["l"].Type == nil {
		return nil, fmt.Errorf("leaf l not found in the parsed module")
	}
	if len(e.Errors) > 0 {
		return nil, fmt.Errorf("%v", e.Errors)
	}
	return e.Dir["l"], nil
}
