package pure

// C09 — gNMI path relations agree with path-set semantics (util/gnmi.go).
//
//	TestC09_Exhaustive  all ordered pairs over the bounded alphabet, brute-force denotation oracle
//	TestC09_Random      larger random pairs, symbolic product-of-coordinates oracle, swap law
//	TestC09_Functions   PathMatchesQuery, PathMatchesPrefix, PathMatchesPathElemPrefix,
//	                    TrimGNMIPathElemPrefix, JoinPaths, FindPathElemPrefix
//
// Semantics used by the oracles (from the property statement): a path denotes the set of
// concrete data paths below it; a missing key and the value "*" are wildcards; two paths
// whose origins are not equivalent ("" and "openconfig" are equivalent) denote disjoint sets.

import (
	"fmt"
	"sort"
	"strings"
	"testing"

	gpb "github.com/openconfig/gnmi/proto/gnmi"
	"github.com/openconfig/ygot/util"
	"google.golang.org/protobuf/proto"
	"pgregory.net/rapid"

	"verifharness/ev"
)

const c09Rule = "ComparePaths: (i) every ordered pair of the 1057 paths over names {a,b}, <=2 elems, keys k,l each in {absent,1,2,*} " +
	"(denotation = bitset over the 584 concrete paths of length 1..3), (ii) random pairs up to 5 elems / 3 key names / 4 values, " +
	"b usually a mutation of a; every pair is evaluated 8x in both argument orders. Functions: generated (path, query/prefix/suffix/set) " +
	"tuples judged by set-theoretic definitions on the harness's own path model. Key of a case = function + canonical rendering of its " +
	"arguments. Non-trivial: ComparePaths pair whose common part has >=2 elems with differing per-elem relations; " +
	"function case whose path has >=2 elems and whose second argument is not simply a literal prefix of it."

const f13ID = "F13-comparepaths-early-partial"
const f98ID = "F98-comparepaths-empty-key-value"

// ---------------------------------------------------------------------------------------------
// relations

type rel int

const (
	relEqual rel = iota
	relDisjoint
	relSubset
	relSuperset
	relPartial
)

var relNames = [...]string{"Equal", "Disjoint", "Subset", "Superset", "PartialIntersect"}

func (r rel) String() string { return relNames[r] }

func (r rel) swapped() rel {
	switch r {
	case relSubset:
		return relSuperset
	case relSuperset:
		return relSubset
	}
	return r
}

// fromYgot maps ygot's enum to the harness's by constant name (not by number).
func fromYgot(c util.CompareRelation) (rel, bool) {
	switch c {
	case util.Equal:
		return relEqual, true
	case util.Disjoint:
		return relDisjoint, true
	case util.Subset:
		return relSubset, true
	case util.Superset:
		return relSuperset, true
	case util.PartialIntersect:
		return relPartial, true
	}
	return 0, false
}

func ygotRelName(c util.CompareRelation) string {
	if r, ok := fromYgot(c); ok {
		return r.String()
	}
	return fmt.Sprintf("CompareRelation(%d)", int(c))
}

// coordSummary says which kinds of per-coordinate relations occur between two paths. The
// coordinates are: the length, every element name of the common part, every key of every
// element of the common part, and the origin.
type coordSummary struct {
	disjoint, sub, sup bool
}

func (c coordSummary) rel() rel {
	switch {
	case c.disjoint:
		return relDisjoint
	case c.sub && c.sup:
		return relPartial
	case c.sub:
		return relSubset
	case c.sup:
		return relSuperset
	}
	return relEqual
}

func (c *coordSummary) add(o coordSummary) {
	c.disjoint = c.disjoint || o.disjoint
	c.sub = c.sub || o.sub
	c.sup = c.sup || o.sup
}

func originsEquivalent(a, b string) bool {
	norm := func(s string) string {
		if s == "openconfig" {
			return ""
		}
		return s
	}
	return norm(a) == norm(b)
}

// keyValue returns the value set of key k in e as a string: "*" = everything.
func keyValue(e mElem, k string) string {
	v, ok := e.get(k)
	if !ok {
		return "*"
	}
	return v
}

// elemCoords is the symbolic relation of two path elements.
func elemCoords(a, b mElem) coordSummary {
	var c coordSummary
	if a.Name != b.Name {
		c.disjoint = true
		return c
	}
	seen := map[string]bool{}
	var ks []string
	for _, kv := range a.Keys {
		if !seen[kv.K] {
			seen[kv.K] = true
			ks = append(ks, kv.K)
		}
	}
	for _, kv := range b.Keys {
		if !seen[kv.K] {
			seen[kv.K] = true
			ks = append(ks, kv.K)
		}
	}
	for _, k := range ks {
		va, vb := keyValue(a, k), keyValue(b, k)
		switch {
		case va == vb:
		case va == "*":
			c.sup = true
		case vb == "*":
			c.sub = true
		default:
			c.disjoint = true
		}
	}
	return c
}

// pathCoords is the symbolic product-of-coordinates oracle.
func pathCoords(a, b mPath) coordSummary {
	var c coordSummary
	if !originsEquivalent(a.Origin, b.Origin) {
		c.disjoint = true
	}
	switch {
	case len(a.Elems) > len(b.Elems):
		c.sub = true // a is deeper: it covers less
	case len(a.Elems) < len(b.Elems):
		c.sup = true
	}
	n := len(a.Elems)
	if len(b.Elems) < n {
		n = len(b.Elems)
	}
	for i := 0; i < n; i++ {
		c.add(elemCoords(a.Elems[i], b.Elems[i]))
	}
	return c
}

func symRelation(a, b mPath) rel { return pathCoords(a, b).rel() }

// elemRelationsDiffer implements the non-triviality rule.
func elemRelationsDiffer(a, b mPath) bool {
	n := len(a.Elems)
	if len(b.Elems) < n {
		n = len(b.Elems)
	}
	if n < 2 {
		return false
	}
	first := elemCoords(a.Elems[0], b.Elems[0]).rel()
	for i := 1; i < n; i++ {
		if elemCoords(a.Elems[i], b.Elems[i]).rel() != first {
			return true
		}
	}
	return false
}

// inF13Region: the input feature of finding F13 — the pair has coordinates related in both
// directions (so ygot decides "PartialIntersect" as soon as it has seen them) and another
// coordinate that is disjoint (which it then never looks at).
func inF13Region(c coordSummary) bool { return c.disjoint && c.sub && c.sup }

func c09Witnesses(rec *ev.Rec) {
	rec.Witness(f13ID, func() (bool, string) {
		a := mPath{Elems: []mElem{{Name: "a", Keys: []mKey{{"k", "1"}}}, {Name: "a"}}}
		b := mPath{Elems: []mElem{{Name: "a", Keys: []mKey{{"l", "1"}}}, {Name: "b"}}}
		got := util.ComparePaths(a.proto(), b.proto())
		if got != util.Disjoint {
			return true, fmt.Sprintf("ComparePaths(%s, %s) = %s, want Disjoint (second elements have different names)", a, b, ygotRelName(got))
		}
		return false, ""
	})
	// F98: a key whose value is the empty string is taken for an absent key when the other path does not
	// name that key (map lookup without the ok flag)
	rec.Witness(f98ID, func() (bool, string) {
		a := mPath{Elems: []mElem{{Name: "a", Keys: []mKey{{"m", ""}}}}}
		b := mPath{Elems: []mElem{{Name: "a"}}}
		got := util.ComparePaths(a.proto(), b.proto())
		if got != util.Subset {
			return true, fmt.Sprintf("ComparePaths(%s, %s) = %s, want Subset (the first path names one entry, the second all)", a, b, ygotRelName(got))
		}
		return false, ""
	})
}

// compare8 evaluates ComparePaths(a,b) 8 times (Go randomises every map iteration, so
// repeated calls expose order dependence) and returns the distinct answers.
func compare8(a, b *gpb.Path) []util.CompareRelation {
	var out []util.CompareRelation
	for i := 0; i < 8; i++ {
		g := util.ComparePaths(a, b)
		dup := false
		for _, o := range out {
			if o == g {
				dup = true
				break
			}
		}
		if !dup {
			out = append(out, g)
		}
	}
	// sorted, so that messages and samples do not depend on which answer came first
	sort.Slice(out, func(i, j int) bool { return out[i] < out[j] })
	return out
}

func relList(cs []util.CompareRelation) string {
	var s []string
	for _, c := range cs {
		s = append(s, ygotRelName(c))
	}
	return "{" + strings.Join(s, ",") + "}"
}

// judgeCompare checks the answers of ComparePaths(a,b) against want. It returns "" when fine
// or excused, otherwise a description. excused reports whether the F13 predicate was used.
func judgeCompare(rec *ev.Rec, answers []util.CompareRelation, want rel, c coordSummary) (msg string, excused bool) {
	wrong := false
	onlySignature := true
	for _, g := range answers {
		r, ok := fromYgot(g)
		if !ok || r != want {
			wrong = true
			// signature of F13: Disjoint expected, PartialIntersect returned
			if !(ok && r == relPartial && want == relDisjoint) {
				onlySignature = false
			}
		}
	}
	if !wrong {
		return "", false
	}
	if onlySignature && rec.Excuse(f13ID, inF13Region(c)) {
		return "", true
	}
	return fmt.Sprintf("got %s over 8 calls, want %s", relList(answers), want), false
}

// ---------------------------------------------------------------------------------------------
// (i) exhaustive

type bitset [10]uint64 // 584 concrete paths

func (s *bitset) set(i int) { s[i/64] |= 1 << uint(i%64) }

func setRelation(a, b *bitset) rel {
	var inter, aOnly, bOnly bool
	for i := range a {
		if a[i]&b[i] != 0 {
			inter = true
		}
		if a[i]&^b[i] != 0 {
			aOnly = true
		}
		if b[i]&^a[i] != 0 {
			bOnly = true
		}
	}
	switch {
	case !inter:
		return relDisjoint // denotations are never empty in this space (checked by the caller)
	case !aOnly && !bOnly:
		return relEqual
	case !aOnly:
		return relSubset
	case !bOnly:
		return relSuperset
	}
	return relPartial
}

func exhaustiveElems() []mElem {
	var out []mElem
	vals := []string{"", "1", "2", "*"} // "" = absent
	for _, n := range []string{"a", "b"} {
		for _, k := range vals {
			for _, l := range vals {
				e := mElem{Name: n}
				if k != "" {
					e.Keys = append(e.Keys, mKey{"k", k})
				}
				if l != "" {
					e.Keys = append(e.Keys, mKey{"l", l})
				}
				out = append(out, e)
			}
		}
	}
	return out
}

func exhaustivePaths() []mPath {
	es := exhaustiveElems()
	out := []mPath{{}}
	for _, e := range es {
		out = append(out, mPath{Elems: []mElem{e}})
	}
	for _, e := range es {
		for _, f := range es {
			out = append(out, mPath{Elems: []mElem{e, f}})
		}
	}
	return out
}

// concreteElem: name + both keys bound.
type concreteElem struct{ name, k, l string }

func concretePaths() [][]concreteElem {
	var es []concreteElem
	for _, n := range []string{"a", "b"} {
		for _, k := range []string{"1", "2"} {
			for _, l := range []string{"1", "2"} {
				es = append(es, concreteElem{n, k, l})
			}
		}
	}
	var out [][]concreteElem
	for _, e := range es {
		out = append(out, []concreteElem{e})
	}
	for _, e := range es {
		for _, f := range es {
			out = append(out, []concreteElem{e, f})
		}
	}
	for _, e := range es {
		for _, f := range es {
			for _, g := range es {
				out = append(out, []concreteElem{e, f, g})
			}
		}
	}
	return out
}

// covers: the brute-force denotation — does path p cover the concrete path c?
func covers(p mPath, c []concreteElem) bool {
	if len(c) < len(p.Elems) {
		return false
	}
	for i, e := range p.Elems {
		if e.Name != c[i].name {
			return false
		}
		if v, ok := e.get("k"); ok && v != "*" && v != c[i].k {
			return false
		}
		if v, ok := e.get("l"); ok && v != "*" && v != c[i].l {
			return false
		}
	}
	return true
}

// ---------------------------------------------------------------------------------------------
// (ii) random larger paths

var (
	c09Names  = []string{"a", "b", "c"}
	c09Keys   = []string{"k", "l", "m"}
	c09Values = []string{"1", "2", "3", "4", ""}
)

// genKeyState draws absent / * / a concrete value.
func genKeyState(rt *rapid.T, label string) string {
	switch rapid.IntRange(0, 9).Draw(rt, label) {
	case 0, 1, 2:
		return "" // absent
	case 3, 4:
		return "*"
	default:
		return rapid.SampledFrom(c09Values).Draw(rt, label+"-v")
	}
}

func genElemC09(rt *rapid.T, label string) mElem {
	e := mElem{Name: rapid.SampledFrom(c09Names).Draw(rt, label+"-name")}
	for _, k := range c09Keys {
		if v := genKeyState(rt, label+"-"+k); v != "" {
			e.Keys = append(e.Keys, mKey{k, v})
		}
	}
	return e
}

func genPathC09(rt *rapid.T, label string, maxElems int) mPath {
	n := rapid.IntRange(0, maxElems).Draw(rt, label+"-len")
	p := mPath{}
	for i := 0; i < n; i++ {
		p.Elems = append(p.Elems, genElemC09(rt, fmt.Sprintf("%s-e%d", label, i)))
	}
	return p
}

func genOrigin(rt *rapid.T, label string) string {
	switch rapid.IntRange(0, 11).Draw(rt, label) {
	case 0:
		return "openconfig"
	case 1:
		return "other"
	}
	return ""
}

// mutateElem changes e a little: the typical near-miss between two paths.
func mutateElem(rt *rapid.T, e mElem, label string) mElem {
	out := e.clone()
	if rapid.IntRange(0, 11).Draw(rt, label+"-rename") == 0 {
		out.Name = rapid.SampledFrom(c09Names).Draw(rt, label+"-name")
	}
	for _, k := range c09Keys {
		switch rapid.IntRange(0, 7).Draw(rt, label+"-op-"+k) {
		case 0: // make wildcard
			out = out.with(k, "*")
		case 1: // drop
			out = out.without(k)
		case 2: // other concrete value
			out = out.with(k, rapid.SampledFrom(c09Values).Draw(rt, label+"-v-"+k))
		}
	}
	return out
}

func mutatePathC09(rt *rapid.T, p mPath, label string) mPath {
	out := p.clone()
	for i := range out.Elems {
		if rapid.IntRange(0, 2).Draw(rt, fmt.Sprintf("%s-touch%d", label, i)) == 0 {
			out.Elems[i] = mutateElem(rt, out.Elems[i], fmt.Sprintf("%s-m%d", label, i))
		}
	}
	switch rapid.IntRange(0, 5).Draw(rt, label+"-len") {
	case 0:
		if len(out.Elems) > 0 {
			out.Elems = out.Elems[:rapid.IntRange(0, len(out.Elems)-1).Draw(rt, label+"-cut")]
		}
	case 1:
		for n := rapid.IntRange(1, 2).Draw(rt, label+"-ext"); n > 0 && len(out.Elems) < 5; n-- {
			out.Elems = append(out.Elems, genElemC09(rt, fmt.Sprintf("%s-x%d", label, n)))
		}
	}
	return out
}

// ---------------------------------------------------------------------------------------------
// the other functions

// literalPrefix: prefix is, element by element, literally equal to the beginning of path
// (same names, same key maps; "*" is just a value here). This is the documented contract of
// PathMatchesPathElemPrefix ("Paths must match exactly").
func literalPrefix(path, prefix mPath) bool {
	if len(prefix.Elems) > len(path.Elems) {
		return false
	}
	for i, e := range prefix.Elems {
		if !e.equal(path.Elems[i]) {
			return false
		}
	}
	return true
}

// queryMatches: den(path) ⊆ den(query) for a concrete path, where the query may also use "*"
// as an element name.
func queryMatches(path, query mPath) bool {
	if !originsEquivalent(path.Origin, query.Origin) {
		return false
	}
	if len(path.Elems) < len(query.Elems) {
		return false
	}
	for i, q := range query.Elems {
		p := path.Elems[i]
		if q.Name != "*" && q.Name != p.Name {
			return false
		}
		for _, kv := range q.Keys {
			pv, ok := p.get(kv.K)
			if !ok {
				// outside the domain: the path would not be concrete
				panic("HARNESS-BUG: query key missing from concrete path")
			}
			if kv.V != "*" && kv.V != pv {
				return false
			}
		}
	}
	return true
}

func elemsString(es []mElem) string { return mPath{Elems: es}.String() }

func names(p mPath) []string {
	var out []string
	for _, e := range p.Elems {
		out = append(out, e.Name)
	}
	return out
}

func TestC09_Functions(t *testing.T) {
	rec := ev.Start(t, "C09")
	rec.Rule(c09Rule)
	counts := map[string]int64{}
	cls := func(c string) string { counts[c]++; return c }
	var cases int64

	rapid.Check(t, func(rt *rapid.T) {
		cases++
		// ---- PathMatchesQuery: concrete path (every key of the position's key set bound), query
		// derived from it. Position i has the key set ks[i] (possibly empty: a container).
		n := rapid.IntRange(0, 5).Draw(rt, "q-len")
		path := mPath{Origin: genOrigin(rt, "q-po")}
		for i := 0; i < n; i++ {
			e := mElem{Name: rapid.SampledFrom(c09Names).Draw(rt, fmt.Sprintf("q-n%d", i))}
			for _, k := range c09Keys {
				if rapid.Bool().Draw(rt, fmt.Sprintf("q-has%d%s", i, k)) {
					e.Keys = append(e.Keys, mKey{k, rapid.SampledFrom(c09Values).Draw(rt, fmt.Sprintf("q-v%d%s", i, k))})
				}
			}
			path.Elems = append(path.Elems, e)
		}
		query := mPath{Origin: path.Origin}
		if rapid.IntRange(0, 5).Draw(rt, "q-qo") == 0 {
			query.Origin = genOrigin(rt, "q-qo2")
		}
		qn := n
		if n > 0 && rapid.Bool().Draw(rt, "q-shorter") {
			qn = rapid.IntRange(0, n).Draw(rt, "q-qlen")
		}
		wildName, wildKey, offValue := false, false, false
		for i := 0; i < qn; i++ {
			pe := path.Elems[i]
			qe := mElem{Name: pe.Name}
			switch rapid.IntRange(0, 11).Draw(rt, fmt.Sprintf("q-nameop%d", i)) {
			case 0:
				qe.Name, wildName = "*", true
			case 1:
				qe.Name = rapid.SampledFrom(c09Names).Draw(rt, fmt.Sprintf("q-qn%d", i))
			}
			for _, kv := range pe.Keys {
				switch rapid.IntRange(0, 9).Draw(rt, fmt.Sprintf("q-kop%d%s", i, kv.K)) {
				case 0, 1, 2: // omitted in the query: wildcard
				case 3, 4:
					qe.Keys = append(qe.Keys, mKey{kv.K, "*"})
					wildKey = true
				case 5:
					qe.Keys = append(qe.Keys, mKey{kv.K, rapid.SampledFrom(c09Values).Draw(rt, fmt.Sprintf("q-qv%d%s", i, kv.K))})
					offValue = true
				default:
					qe.Keys = append(qe.Keys, kv)
				}
			}
			query.Elems = append(query.Elems, qe)
		}
		if rapid.IntRange(0, 9).Draw(rt, "q-longer") == 0 { // query longer than the path: never matches
			query.Elems = append(query.Elems, mElem{Name: rapid.SampledFrom(append([]string{"*"}, c09Names...)).Draw(rt, "q-extra")})
			wildName = wildName || query.Elems[len(query.Elems)-1].Name == "*"
		}
		wantQ := queryMatches(path, query)
		if !wildName {
			// without wildcard names the query is an ordinary path: both oracles must agree
			r := symRelation(path, query)
			if (r == relEqual || r == relSubset) != wantQ {
				rt.Fatalf("HARNESS-BUG: query oracle (%v) and relation oracle (%s) disagree for path=%s query=%s", wantQ, r, path, query)
			}
		}
		pp, qp := path.proto(), query.proto()
		gotQ := util.PathMatchesQuery(pp, qp)
		c := []string{"fn:PathMatchesQuery", cls(fmt.Sprintf("query:want-%v", wantQ))}
		if wildName {
			c = append(c, cls("query:wildcard-name"))
		}
		if wildKey {
			c = append(c, cls("query:wildcard-key"))
		}
		rec.Case("query|"+path.String()+"|"+query.String(), len(path.Elems) >= 2 && (wildName || wildKey || offValue || !literalPrefix(path, query)), c...)
		if cases == 1 {
			rec.Sample(map[string]interface{}{"fn": "PathMatchesQuery", "path": path.String(), "query": query.String(), "want": wantQ, "got": gotQ})
		}
		if gotQ != wantQ {
			rt.Fatalf("PathMatchesQuery(path, query) = %v, want %v (den(path) ⊆ den(query))\n path  = %s\n query = %s", gotQ, wantQ, path, query)
		}
		if !fromProto(pp).equal(path) || !fromProto(qp).equal(query) {
			rt.Fatalf("PathMatchesQuery modified an argument: path=%s now %s, query=%s now %s", path, fromProto(pp), query, fromProto(qp))
		}

		// ---- a general path (wildcards allowed) and a candidate prefix derived from it
		gp := genPathC09(rt, "g", 5)
		gp.Origin = genOrigin(rt, "g-o")
		gp.Target = rapid.SampledFrom([]string{"", "", "dev1"}).Draw(rt, "g-t")
		cut := rapid.IntRange(0, len(gp.Elems)).Draw(rt, "g-cut")
		prefix := mPath{Origin: gp.Origin}
		for i := 0; i < cut; i++ {
			prefix.Elems = append(prefix.Elems, gp.Elems[i].clone())
		}
		prefixKind := "literal"
		switch rapid.IntRange(0, 9).Draw(rt, "g-mut") {
		case 0, 1, 2: // change one element a little (possibly to a semantically equal one: absent vs *)
			if cut > 0 {
				i := rapid.IntRange(0, cut-1).Draw(rt, "g-muti")
				prefix.Elems[i] = mutateElem(rt, prefix.Elems[i], "g-me")
				prefixKind = "mutated"
			}
		case 3: // longer than the path
			prefix.Elems = append(prefix.Elems, gp.Elems[cut:]...)
			prefix.Elems = append(prefix.Elems, genElemC09(rt, "g-extra"))
			prefixKind = "longer"
		case 4: // non-equivalent origin
			if prefix.Origin == "" {
				prefix.Origin = "other"
			} else {
				prefix.Origin = prefix.Origin + "2"
			}
			prefixKind = "origin"
		}

		// PathMatchesPrefix (names only; no empty strings in the prefix: documented guard)
		np := names(prefix)
		if rapid.IntRange(0, 7).Draw(rt, "n-mut") == 0 && len(np) > 0 {
			np = append([]string(nil), np...)
			np[rapid.IntRange(0, len(np)-1).Draw(rt, "n-i")] = rapid.SampledFrom(c09Names).Draw(rt, "n-name")
		}
		wantN := len(np) <= len(gp.Elems)
		if wantN {
			for i, s := range np {
				if gp.Elems[i].Name != s {
					wantN = false
				}
			}
		}
		{ // denotation cross-check: names-only prefix = keyless path
			kl := mPath{Origin: gp.Origin}
			for _, s := range np {
				kl.Elems = append(kl.Elems, mElem{Name: s})
			}
			r := symRelation(gp, kl)
			if (r == relEqual || r == relSubset) != wantN {
				rt.Fatalf("HARNESS-BUG: name-prefix oracle (%v) and relation oracle (%s) disagree for path=%s prefix=%v", wantN, r, gp, np)
			}
		}
		gpp := gp.proto()
		gotN := util.PathMatchesPrefix(gpp, np)
		rec.Case("nameprefix|"+gp.String()+"|"+strings.Join(np, "/"), len(gp.Elems) >= 2 && len(np) >= 1, "fn:PathMatchesPrefix", cls(fmt.Sprintf("nameprefix:want-%v", wantN)))
		if gotN != wantN {
			rt.Fatalf("PathMatchesPrefix(path, %q) = %v, want %v\n path = %s", np, gotN, wantN, gp)
		}

		// PathMatchesPathElemPrefix
		wantP := literalPrefix(gp, prefix) && gp.Origin == prefix.Origin
		prp := prefix.proto()
		gotP := util.PathMatchesPathElemPrefix(gpp, prp)
		semRel := symRelation(gp, prefix)
		rec.Case("elemprefix|"+gp.String()+"|"+prefix.String(), len(gp.Elems) >= 2 && prefixKind != "literal",
			"fn:PathMatchesPathElemPrefix", cls(fmt.Sprintf("elemprefix:want-%v", wantP)), cls("elemprefix:"+prefixKind))
		if gotP != wantP {
			rt.Fatalf("PathMatchesPathElemPrefix(path, prefix) = %v, want %v (literal element-wise prefix, as documented)\n path   = %s\n prefix = %s", gotP, wantP, gp, prefix)
		}
		if gotP && !(semRel == relEqual || semRel == relSubset) {
			rt.Fatalf("PathMatchesPathElemPrefix(path, prefix) = true although den(path) ⊄ den(prefix) (relation %s)\n path   = %s\n prefix = %s", semRel, gp, prefix)
		}

		// TrimGNMIPathElemPrefix, and JoinPaths ∘ Trim = id when the prefix matches
		trimmed := util.TrimGNMIPathElemPrefix(gpp, prp)
		if !fromProto(gpp).equal(gp) || !fromProto(prp).equal(prefix) {
			rt.Fatalf("TrimGNMIPathElemPrefix modified an argument: path=%s now %s, prefix=%s now %s", gp, fromProto(gpp), prefix, fromProto(prp))
		}
		if trimmed == nil {
			rt.Fatalf("TrimGNMIPathElemPrefix(%s, %s) returned nil", gp, prefix)
		}
		tm := fromProto(trimmed)
		rec.Case("trim|"+gp.String()+"|"+prefix.String(), len(gp.Elems) >= 2 && len(prefix.Elems) >= 1, "fn:TrimGNMIPathElemPrefix", cls(fmt.Sprintf("trim:matching-%v", wantP)))
		if wantP {
			wantT := mPath{Origin: gp.Origin, Target: gp.Target, Elems: gp.Elems[len(prefix.Elems):]}
			if !tm.equal(wantT) {
				rt.Fatalf("TrimGNMIPathElemPrefix(path, prefix) = %s, want %s\n path   = %s\n prefix = %s", tm, wantT, gp, prefix)
			}
			joined, err := util.JoinPaths(prp, trimmed)
			if err != nil {
				rt.Fatalf("JoinPaths(prefix, Trim(path, prefix)) failed: %v\n path   = %s\n prefix = %s", err, gp, prefix)
			}
			if jm := fromProto(joined); !jm.equal(gp) {
				rt.Fatalf("JoinPaths(prefix, Trim(path, prefix)) = %s, want the path itself\n path   = %s\n prefix = %s", jm, gp, prefix)
			}
		} else if !tm.equal(gp) {
			rt.Fatalf("TrimGNMIPathElemPrefix(path, prefix) = %s although the prefix does not match; want the unchanged path\n path   = %s\n prefix = %s", tm, gp, prefix)
		}

		// ---- JoinPaths on independent prefix / suffix with origins and targets; the prefix's
		// element slice gets spare capacity so that an append into it would be visible.
		jp, js := genPathC09(rt, "jp", 3), genPathC09(rt, "js", 3)
		jp.Origin, js.Origin = genOrigin(rt, "jp-o"), genOrigin(rt, "js-o")
		tg := []string{"", "", "dev1", "dev2"}
		jp.Target, js.Target = rapid.SampledFrom(tg).Draw(rt, "jp-t"), rapid.SampledFrom(tg).Draw(rt, "js-t")
		jpp, jsp := jp.proto(), js.proto()
		sentinel := &gpb.PathElem{Name: "SENTINEL"}
		spare := make([]*gpb.PathElem, len(jpp.Elem), len(jpp.Elem)+4)
		copy(spare, jpp.Elem)
		full := spare[:cap(spare)]
		for i := len(jpp.Elem); i < len(full); i++ {
			full[i] = sentinel
		}
		jpp.Elem = spare
		wantErr := (jp.Origin != "" && js.Origin != "" && jp.Origin != js.Origin) || (jp.Target != "" && js.Target != "" && jp.Target != js.Target)
		joined, err := util.JoinPaths(jpp, jsp)
		rec.Case("join|"+jp.String()+"|"+js.String(), len(jp.Elems) >= 1 && len(js.Elems) >= 1, "fn:JoinPaths", cls(fmt.Sprintf("join:want-error-%v", wantErr)))
		for i := len(jpp.Elem); i < len(full); i++ {
			if full[i] != sentinel {
				rt.Fatalf("JoinPaths wrote into the spare capacity of the caller's prefix.Elem slice\n prefix = %s\n suffix = %s", jp, js)
			}
		}
		if !fromProto(jpp).equal(jp) || !fromProto(jsp).equal(js) {
			rt.Fatalf("JoinPaths modified an argument: prefix=%s now %s, suffix=%s now %s", jp, fromProto(jpp), js, fromProto(jsp))
		}
		switch {
		case wantErr && err == nil:
			rt.Fatalf("JoinPaths(prefix, suffix) = %s, want an error (conflicting origin or target)\n prefix = %s\n suffix = %s", fromProto(joined), jp, js)
		case !wantErr && err != nil:
			rt.Fatalf("JoinPaths(prefix, suffix) failed: %v\n prefix = %s\n suffix = %s", err, jp, js)
		case !wantErr:
			wantJ := mPath{Origin: jp.Origin, Target: jp.Target, Elems: append(append([]mElem{}, jp.Elems...), js.Elems...)}
			if js.Origin != "" {
				wantJ.Origin = js.Origin
			}
			if js.Target != "" {
				wantJ.Target = js.Target
			}
			if jm := fromProto(joined); !jm.equal(wantJ) {
				rt.Fatalf("JoinPaths(prefix, suffix) = %s, want %s\n prefix = %s\n suffix = %s", jm, wantJ, jp, js)
			}
			// Trim ∘ Join = id: the joined path minus the prefix is the suffix. The trim contract
			// compares origins literally, so give the prefix the joined origin.
			pfx := proto.Clone(jpp).(*gpb.Path)
			pfx.Origin = joined.Origin
			back := fromProto(util.TrimGNMIPathElemPrefix(joined, pfx))
			if !elemsEqual(back.Elems, js.Elems) {
				rt.Fatalf("TrimGNMIPathElemPrefix(JoinPaths(prefix, suffix), prefix) has elems %s, want the suffix's %s\n prefix = %s\n suffix = %s",
					elemsString(back.Elems), elemsString(js.Elems), jp, js)
			}
		}

		// ---- FindPathElemPrefix: 1..4 paths sharing (usually) a common stem
		stem := genPathC09(rt, "f-stem", 3)
		np2 := rapid.IntRange(1, 4).Draw(rt, "f-n")
		var set []mPath
		for i := 0; i < np2; i++ {
			p := stem.clone()
			if rapid.IntRange(0, 3).Draw(rt, fmt.Sprintf("f-mut%d", i)) == 0 && len(p.Elems) > 0 {
				j := rapid.IntRange(0, len(p.Elems)-1).Draw(rt, fmt.Sprintf("f-muti%d", i))
				p.Elems[j] = mutateElem(rt, p.Elems[j], fmt.Sprintf("f-me%d", i))
			}
			if rapid.IntRange(0, 4).Draw(rt, fmt.Sprintf("f-cut%d", i)) == 0 && len(p.Elems) > 0 {
				p.Elems = p.Elems[:rapid.IntRange(0, len(p.Elems)-1).Draw(rt, fmt.Sprintf("f-cutn%d", i))]
			}
			tail := genPathC09(rt, fmt.Sprintf("f-tail%d", i), 2)
			p.Elems = append(p.Elems, tail.Elems...)
			set = append(set, p)
		}
		wantLen := len(set[0].Elems)
		for _, p := range set[1:] {
			k := 0
			for k < wantLen && k < len(p.Elems) && p.Elems[k].equal(set[0].Elems[k]) {
				k++
			}
			wantLen = k
		}
		var ps []*gpb.Path
		var keyParts []string
		for _, p := range set {
			ps = append(ps, p.proto())
			keyParts = append(keyParts, p.String())
		}
		got := util.FindPathElemPrefix(ps)
		gm := mPath{}
		if got != nil {
			gm = fromProto(got)
		}
		rec.Case("commonprefix|"+strings.Join(keyParts, "|"), len(set) >= 2 && wantLen < len(set[0].Elems), "fn:FindPathElemPrefix",
			cls(fmt.Sprintf("commonprefix:paths-%d", len(set))), cls(fmt.Sprintf("commonprefix:len-%d", minInt(wantLen, 3))))
		for i, p := range set {
			if !fromProto(ps[i]).equal(p) {
				rt.Fatalf("FindPathElemPrefix modified input %d: %s now %s", i, p, fromProto(ps[i]))
			}
		}
		if !elemsEqual(gm.Elems, set[0].Elems[:wantLen]) {
			rt.Fatalf("FindPathElemPrefix(%s) = %s, want the longest common literal prefix %s", strings.Join(keyParts, " , "), gm, elemsString(set[0].Elems[:wantLen]))
		}
	})

	if !t.Failed() && cases >= 500 {
		need := []string{"query:want-true", "query:want-false", "query:wildcard-name", "query:wildcard-key",
			"nameprefix:want-true", "nameprefix:want-false", "elemprefix:want-true", "elemprefix:want-false", "elemprefix:mutated",
			"trim:matching-true", "trim:matching-false", "join:want-error-true", "join:want-error-false",
			"commonprefix:len-0", "commonprefix:len-1", "commonprefix:len-2"}
		sort.Strings(need)
		for _, c := range need {
			if counts[c]*100 < cases {
				t.Errorf("INCONCLUSIVE: generator health: class %q occurred in only %d of %d cases (< 1%%)", c, counts[c], cases)
			}
		}
	}
}

func elemsEqual(a, b []mElem) bool {
	if len(a) != len(b) {
		return false
	}
	for i := range a {
		if !a[i].equal(b[i]) {
			return false
		}
	}
	return true
}

func minInt(a, b int) int {
	if a < b {
		return a
	}
	return b
}

// genConflictPair makes one element of a and b carry all three keys with the roles
// "a more specific", "b more specific" and a third role (equal / disjoint / either direction)
// assigned to the keys in a drawn order: the shape on which an answer that depends on the
// order of map iteration shows. The rest of b is a mutation of a.
func genConflictPair(rt *rapid.T, a mPath) (mPath, mPath) {
	a = a.clone()
	if len(a.Elems) == 0 {
		a.Elems = append(a.Elems, genElemC09(rt, "c-e"))
	}
	b := mutatePathC09(rt, a, "c-b")
	i := rapid.IntRange(0, minInt(len(a.Elems), len(b.Elems))).Draw(rt, "c-pos")
	if i >= len(a.Elems) || i >= len(b.Elems) { // position past one end: (re)build a common element there
		i = minInt(len(a.Elems), len(b.Elems))
		e := genElemC09(rt, "c-new")
		a.Elems = append(append(append([]mElem{}, a.Elems[:i]...), e), a.Elems[i:]...)
		b.Elems = append(append(append([]mElem{}, b.Elems[:i]...), e.clone()), b.Elems[i:]...)
	}
	keys := rapid.Permutation(c09Keys).Draw(rt, "c-perm")
	v1 := rapid.SampledFrom(c09Values).Draw(rt, "c-v1")
	v2 := rapid.SampledFrom(c09Values).Draw(rt, "c-v2")
	wild := func(label string) (mElem, bool) { return mElem{}, rapid.Bool().Draw(rt, label) }
	ea, eb := a.Elems[i].clone(), b.Elems[i].clone()
	eb.Name = ea.Name
	// keys[0]: a concrete, b wildcard (absent or *)
	ea = ea.with(keys[0], v1)
	if _, star := wild("c-w0"); star {
		eb = eb.with(keys[0], "*")
	} else {
		eb = eb.without(keys[0])
	}
	// keys[1]: a wildcard, b concrete
	eb = eb.with(keys[1], v2)
	if _, star := wild("c-w1"); star {
		ea = ea.with(keys[1], "*")
	} else {
		ea = ea.without(keys[1])
	}
	// keys[2]: drawn role
	switch rapid.IntRange(0, 3).Draw(rt, "c-third") {
	case 0: // disjoint
		ea = ea.with(keys[2], "1")
		eb = eb.with(keys[2], "2")
	case 1: // equal
		ea = ea.with(keys[2], v1)
		eb = eb.with(keys[2], v1)
	case 2:
		ea = ea.with(keys[2], v2)
		eb = eb.with(keys[2], "*")
	default:
		ea = ea.with(keys[2], "*")
		eb = eb.with(keys[2], v2)
	}
	a.Elems[i], b.Elems[i] = ea, eb
	return a, b
}

// elemConflict: some common element has one key in each direction plus a third key.
func elemConflict(a, b mPath) bool {
	n := minInt(len(a.Elems), len(b.Elems))
	for i := 0; i < n; i++ {
		c := elemCoords(a.Elems[i], b.Elems[i])
		if a.Elems[i].Name == b.Elems[i].Name && c.sub && c.sup && (len(a.Elems[i].Keys) >= 3 || len(b.Elems[i].Keys) >= 3) {
			return true
		}
	}
	return false
}

func TestC09_Random(t *testing.T) {
	rec := ev.Start(t, "C09")
	rec.Rule(c09Rule)
	c09Witnesses(rec)
	var cases, varying, conflicts int64
	hist := map[rel]int64{}
	if t.Failed() { // a witness of a fixed/unlisted finding failed: already a violation
		return
	}
	rapid.Check(t, func(rt *rapid.T) {
		a := genPathC09(rt, "a", 5)
		var b mPath
		switch rapid.IntRange(0, 9).Draw(rt, "how") {
		case 0:
			b = genPathC09(rt, "b", 5)
		case 1:
			a, b = genConflictPair(rt, a)
		default:
			b = mutatePathC09(rt, a, "b")
		}
		switch rapid.IntRange(0, 24).Draw(rt, "origins") { // mostly none; the middle values are the least favoured by rapid's bias
		case 7:
			a.Origin = "openconfig" // equivalent to ""
		case 8:
			b.Origin = "openconfig"
		case 9:
			a.Origin = "other"
		case 10:
			a.Origin, b.Origin = "other", "other"
		case 11:
			a.Origin, b.Origin = "openconfig", "other"
		}

		co := pathCoords(a, b)
		want := co.rel()
		pa, pb := a.proto(), b.proto()
		ab := compare8(pa, pb)
		ba := compare8(pb, pa)
		if !fromProto(pa).equal(a) || !fromProto(pb).equal(b) {
			rt.Fatalf("ComparePaths modified an argument: a=%s now %s, b=%s now %s", a, fromProto(pa), b, fromProto(pb))
		}

		classes := []string{"random", "r:want-" + want.String()}
		if inF13Region(co) {
			classes = append(classes, "r:f13-region")
		}
		if len(ab) > 1 || len(ba) > 1 {
			classes = append(classes, "r:answers-vary-between-calls")
			varying++
		}
		if a.Origin != b.Origin {
			classes = append(classes, "r:origins-differ")
		}
		if elemConflict(a, b) {
			classes = append(classes, "r:one-elem-sub+sup+third-key")
			conflicts++
		}
		cases++
		hist[want]++
		rec.Case("cmp|"+a.String()+"|"+b.String(), elemRelationsDiffer(a, b), classes...)
		if cases == 1 || (cases > 1 && len(ab)+len(ba) > 2 && rec.WantSample()) {
			rec.Sample(map[string]interface{}{"fn": "ComparePaths", "a": a.String(), "b": b.String(), "want": want.String(), "got": relList(ab), "got_swapped": relList(ba)})
		}

		if msg, _ := judgeCompare(rec, ab, want, co); msg != "" {
			rt.Fatalf("ComparePaths(a, b) disagrees with the set relation\n a = %s\n b = %s\n %s", a, b, msg)
		}
		// Swap law, judged against the oracle for the swapped pair (the coordinates of (b,a)
		// are those of (a,b) with sub and sup exchanged, so the F13 region is the same).
		cs := coordSummary{disjoint: co.disjoint, sub: co.sup, sup: co.sub}
		if msg, _ := judgeCompare(rec, ba, want.swapped(), cs); msg != "" {
			rt.Fatalf("ComparePaths(b, a) disagrees with the swapped set relation\n a = %s\n b = %s\n %s (ComparePaths(a,b) gave %s)", a, b, msg, relList(ab))
		}
	})
	rec.Add("random_pairs_with_varying_answers", varying)
	if !t.Failed() && cases >= 500 {
		if conflicts*100 < cases*3 {
			t.Errorf("INCONCLUSIVE: generator health: only %d of %d random pairs have an element with keys related in both directions plus a third key (< 3%%): map-order dependence would go unnoticed", conflicts, cases)
		}
		for r := relEqual; r <= relPartial; r++ {
			if hist[r]*100 < cases {
				t.Errorf("INCONCLUSIVE: generator health: relation %s expected in only %d of %d random pairs (< 1%%)", r, hist[r], cases)
			}
		}
	}
}

// TestC09_Exhaustive comes last in the file so that the first evidence samples are taken from
// the generated cases of the other two tests.
func TestC09_Exhaustive(t *testing.T) {
	rec := ev.Start(t, "C09")
	rec.Rule(c09Rule)
	c09Witnesses(rec)

	paths := exhaustivePaths()
	conc := concretePaths()
	if len(paths) != 1057 || len(conc) != 584 {
		t.Fatalf("HARNESS-BUG: exhaustive space has %d paths / %d concrete paths, want 1057 / 584", len(paths), len(conc))
	}
	den := make([]bitset, len(paths))
	protos := make([]*gpb.Path, len(paths))
	protos2 := make([]*gpb.Path, len(paths)) // second copy so that a and b never share maps
	for i, p := range paths {
		for ci, c := range conc {
			if covers(p, c) {
				den[i].set(ci)
			}
		}
		if den[i] == (bitset{}) {
			t.Fatalf("HARNESS-BUG: empty denotation for %s", p)
		}
		protos[i], protos2[i] = p.proto(), p.proto()
	}

	shard, shards := ev.Shard(), ev.Shards()
	var pairs, mismatching, excused int64
	failures := 0
	for i, a := range paths {
		if i%shards != shard {
			continue
		}
		for j, b := range paths {
			want := setRelation(&den[i], &den[j])
			co := pathCoords(a, b)
			if sym := co.rel(); sym != want {
				t.Fatalf("HARNESS-BUG: oracles disagree on (%s, %s): denotation says %s, symbolic says %s", a, b, want, sym)
			}
			if back := setRelation(&den[j], &den[i]); back != want.swapped() {
				t.Fatalf("HARNESS-BUG: denotation oracle violates the swap law on (%s, %s)", a, b)
			}
			answers := compare8(protos[i], protos2[j])
			pairs++
			region := inF13Region(co)
			classes := []string{"exhaustive", "x:want-" + want.String()}
			if region {
				classes = append(classes, "x:f13-region")
			}
			if len(answers) > 1 {
				classes = append(classes, "x:answers-vary-between-calls")
			}
			rec.Case("cmp|"+a.String()+"|"+b.String(), elemRelationsDiffer(a, b), classes...)
			if rec.WantSample() {
				rec.Sample(map[string]interface{}{"fn": "ComparePaths", "a": a.String(), "b": b.String(), "want": want.String(), "got": relList(answers)})
			}
			msg, exc := judgeCompare(rec, answers, want, co)
			if exc {
				excused++
			}
			if msg != "" {
				mismatching++
				if failures < 8 {
					failures++
					rec.Violation(map[string]interface{}{"fn": "ComparePaths", "a": a.String(), "b": b.String(), "detail": msg})
					t.Errorf("ComparePaths(%s, %s): %s (denotations: |a|=%d |b|=%d concrete paths)", a, b, msg, popcount(&den[i]), popcount(&den[j]))
				}
			}
		}
	}
	// the enumeration must not have disturbed its inputs
	for i, p := range paths {
		if !fromProto(protos[i]).equal(p) || !fromProto(protos2[i]).equal(p) {
			t.Errorf("ComparePaths modified its argument: %s became %s / %s", p, fromProto(protos[i]), fromProto(protos2[i]))
			break
		}
	}
	rec.Exhaustive()
	rec.Add("exhaustive_pairs", pairs)
	rec.Add("exhaustive_pairs_excused_F13", excused)
	rec.Set("exhaustive_space", "1057 paths x 1057 paths, partitioned over shards by index of the first path")
	if mismatching > 0 {
		t.Errorf("ComparePaths disagrees with the denotation on %d of %d enumerated ordered pairs (first %d shown)", mismatching, pairs, failures)
	}
	t.Logf("exhaustive: %d ordered pairs, %d excused by %s", pairs, excused, f13ID)
}

func popcount(s *bitset) int {
	n := 0
	for _, w := range s {
		for ; w != 0; w &= w - 1 {
			n++
		}
	}
	return n
}
