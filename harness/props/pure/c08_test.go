package pure

// C08 — gNMI path string encoding round-trips and is injective
// (ygot/pathstrings.go, util/path.go).
//
//	TestC08_RoundTrip    StringToStructuredPath(PathToString(p)) == p, and the legacy
//	                     string-slice form of the same path
//	TestC08_Injective    near-collision pairs (a character moved across an element / key /
//	                     escape boundary) must have different strings
//
// Domain (from the statement): element names are YANG identifiers, optionally prefixed
// "module:"; key names are identifiers; key values are arbitrary non-empty valid UTF-8.

import (
	"fmt"
	"sort"
	"strings"
	"testing"
	"unicode/utf8"

	gpb "github.com/openconfig/gnmi/proto/gnmi"
	"github.com/openconfig/ygot/ygot"
	"google.golang.org/protobuf/proto"
	"pgregory.net/rapid"

	"verifharness/ev"
)

const c08Rule = "paths of 0-6 elems; names = YANG identifiers (optional 'prefix:'); 0-3 keys per elem with identifier names; values = non-empty " +
	"valid UTF-8 built from pieces biased to / [ ] = \\ space, '..', '//', './', trailing backslash, non-ASCII and control characters. " +
	"Round trip: StringToStructuredPath(PathToString(p)) compared with p on the harness's own model and with proto.Equal; legacy form: " +
	"Path{Element: reference-encoded elems} through PathToString / StringToStringSlicePath, elements re-parsed. Injectivity: p and a " +
	"near-collision mutant p' (model-distinct) must have different strings. Key = canonical rendering of the path (pair). " +
	"Non-trivial: some key value contains one of / ] \\ = ."

const (
	f10Backslash    = "F10-backslash"
	f10BracketSlash = "F10-bracket-slash"
	f10PathClean    = "F10-pathclean"
)

// ---------------------------------------------------------------------------------------------
// generators

const identStart = "abcdefghijklmnopqrstuvwxyzABCDEFGHIJKLMNOPQRSTUVWXYZ_"
const identRest = identStart + "0123456789-."

func genIdent(rt *rapid.T, label string) string {
	n := rapid.IntRange(1, 8).Draw(rt, label+"-len")
	var b strings.Builder
	b.WriteByte(identStart[rapid.IntRange(0, len(identStart)-1).Draw(rt, label+"-c0")])
	for i := 1; i < n; i++ {
		b.WriteByte(identRest[rapid.IntRange(0, len(identRest)-1).Draw(rt, fmt.Sprintf("%s-c%d", label, i))])
	}
	return b.String()
}

var (
	plainPieces   = []string{"a", "b", "x", "y", "z", "0", "1", "7", "eth", "Ethernet", "10.0.0.1", "-", "_", ":", ".", "*", "@", "+", ",", "'", "\"", "%", "#", "?", "&", "|", "^", "$", "(", ")", "{", "}", "<", ">", "~", "!"}
	specialPieces = []string{"/", "[", "]", "=", " ", "/", "]", "=", "[", "]/", "=/", "[/", "/[", "a/b", "1/0/1", "[x]", "k=v", "[k=v]", " / "}
	cleanPieces   = []string{"..", "//", "/./", "/../", "./", "../", "/..", "/.", "///"}
	nonASCII      = []string{"é", "ß", "日本", "😀", "е", "e\u0301", "\u00a0", "\u2028", "ü/", "]é", "\ufeff", "\U0010ffff"}
	controlPieces = []string{"\t", "\n", "\r", "\x00", "\x7f", "\x1b"}
	bsPieces      = []string{`\`, `\\`, `\]`, `\=`, `\/`, `\[`, `a\b`, `\ `}
)

// genValue draws a non-empty key value. The weights keep the trigger regions of the open
// findings (backslash, '..' and '//' inside values) present but not dominant.
func genValue(rt *rapid.T, label string, allowBackslash, allowCleanable bool) string {
	n := rapid.IntRange(1, 6).Draw(rt, label+"-n")
	var b strings.Builder
	for i := 0; i < n; i++ {
		l := fmt.Sprintf("%s-p%d", label, i)
		var set []string
		switch w := rapid.IntRange(0, 39).Draw(rt, l+"-kind"); {
		case w < 14:
			set = plainPieces
		case w < 30:
			set = specialPieces
		case w < 33:
			set = cleanPieces
			if !allowCleanable {
				set = plainPieces
			}
		case w < 36:
			set = nonASCII
		case w < 37:
			set = controlPieces
		case w < 39:
			set = bsPieces
			if !allowBackslash {
				set = specialPieces
			}
		default: // arbitrary runes
			r := rapid.Rune().Draw(rt, l+"-rune")
			if r == utf8.RuneError || !utf8.ValidRune(r) || (r == '\\' && !allowBackslash) {
				r = 'q'
			}
			b.WriteRune(r)
			continue
		}
		b.WriteString(rapid.SampledFrom(set).Draw(rt, l))
	}
	v := b.String()
	if !utf8.ValidString(v) || v == "" {
		panic("HARNESS-BUG: generated an invalid value " + quoteGo(v))
	}
	return v
}

func genElemC08(rt *rapid.T, label string, allowBackslash, allowCleanable bool) mElem {
	e := mElem{Name: genIdent(rt, label+"-name")}
	if rapid.IntRange(0, 4).Draw(rt, label+"-pfx") == 0 {
		e.Name = genIdent(rt, label+"-prefix") + ":" + e.Name
	}
	nk := 0
	switch w := rapid.IntRange(0, 9).Draw(rt, label+"-nk"); {
	case w < 3:
		nk = 0
	case w < 7:
		nk = 1
	case w < 9:
		nk = 2
	default:
		nk = 3
	}
	for i := 0; i < nk; i++ {
		k := genIdent(rt, fmt.Sprintf("%s-k%d", label, i))
		if _, dup := e.get(k); dup {
			continue
		}
		e = e.with(k, genValue(rt, fmt.Sprintf("%s-v%d", label, i), allowBackslash, allowCleanable))
	}
	return e
}

func genPathC08(rt *rapid.T, label string) mPath {
	// lengths through a table: rapid favours the ends of a range, and the root path is one case
	n := []int{1, 0, 2, 3, 4, 5, 6, 2, 3, 1, 2, 4, 1, 2, 3, 1}[rapid.IntRange(0, 15).Draw(rt, label+"-len")]
	// The trigger regions of the open findings F10-backslash / F10-pathclean are enabled for a
	// minority of the paths, so that most failures elsewhere would not hide behind them.
	mode := rapid.IntRange(0, 9).Draw(rt, label+"-mode")
	allowBackslash, allowCleanable := mode == 3 || mode == 5, mode == 4 || mode == 5
	p := mPath{}
	for i := 0; i < n; i++ {
		p.Elems = append(p.Elems, genElemC08(rt, fmt.Sprintf("%s-e%d", label, i), allowBackslash, allowCleanable))
	}
	return p
}

// ---------------------------------------------------------------------------------------------
// trigger features of the open findings, and their removal

func valueHasBackslash(v string) bool { return strings.Contains(v, `\`) }

// valueBracketThenSlash: a ']' followed, before any later '[', by a '/' or by another ']'.
// The splitter (util.SplitPath) does not track escapes inside [..]: it leaves "key mode" at the
// escaped ']' and re-enters it at a '[', so exactly such a '/' is taken for an element
// separator, and the backslash of exactly such a second "\]" is swallowed by the splitter.
func valueBracketThenSlash(v string) bool {
	closed := false
	for _, r := range v {
		switch r {
		case ']':
			if closed {
				return true
			}
			closed = true
		case '[':
			closed = false
		case '/':
			if closed {
				return true
			}
		}
	}
	return false
}

// valueHasCleanableSegment: split on '/', an interior segment is "", "." or "..": the only
// segments of a value that form a whole slash-delimited component of the path string
// (the first is preceded by "name[key=", the last is followed by "]").
func valueHasCleanableSegment(v string) bool {
	segs := strings.Split(v, "/")
	for i := 1; i < len(segs)-1; i++ {
		if segs[i] == "" || segs[i] == "." || segs[i] == ".." {
			return true
		}
	}
	return false
}

type c08Triggers struct{ backslash, bracketSlash, pathClean bool }

func (t c08Triggers) any() bool { return t.backslash || t.bracketSlash || t.pathClean }

func (t c08Triggers) or(o c08Triggers) c08Triggers {
	return c08Triggers{t.backslash || o.backslash, t.bracketSlash || o.bracketSlash, t.pathClean || o.pathClean}
}

func triggersOf(p mPath) c08Triggers {
	var t c08Triggers
	for _, e := range p.Elems {
		for _, kv := range e.Keys {
			t.backslash = t.backslash || valueHasBackslash(kv.V)
			t.bracketSlash = t.bracketSlash || valueBracketThenSlash(kv.V)
			t.pathClean = t.pathClean || valueHasCleanableSegment(kv.V)
		}
	}
	return t
}

// activeOnly keeps the triggers whose finding is open and still reproduces.
func activeOnly(rec *ev.Rec, t c08Triggers) c08Triggers {
	return c08Triggers{
		backslash:    t.backslash && rec.Active(f10Backslash),
		bracketSlash: t.bracketSlash && rec.Active(f10BracketSlash),
		pathClean:    t.pathClean && rec.Active(f10PathClean),
	}
}

// sanitize returns p with the features in t removed from its values (and nothing else
// changed): a failing case is excused only if this twin passes, i.e. only if the failure
// goes away together with the trigger feature.
func sanitize(p mPath, t c08Triggers) mPath {
	out := p.clone()
	for i := range out.Elems {
		for j := range out.Elems[i].Keys {
			v := out.Elems[i].Keys[j].V
			if t.backslash {
				v = strings.ReplaceAll(v, `\`, "B")
			}
			if t.bracketSlash && valueBracketThenSlash(v) {
				v = strings.ReplaceAll(v, "]", "R")
			}
			if t.pathClean && valueHasCleanableSegment(v) {
				segs := strings.Split(v, "/")
				for k := 1; k < len(segs)-1; k++ {
					if segs[k] == "" || segs[k] == "." || segs[k] == ".." {
						segs[k] = "s"
					}
				}
				v = strings.Join(segs, "/")
			}
			out.Elems[i].Keys[j].V = v
		}
	}
	return out
}

func (t c08Triggers) excuse(rec *ev.Rec) {
	rec.Excuse(f10Backslash, t.backslash)
	rec.Excuse(f10BracketSlash, t.bracketSlash)
	rec.Excuse(f10PathClean, t.pathClean)
}

// ---------------------------------------------------------------------------------------------
// the laws

// refEncodeElem is the harness's reference rendering of one element in the legacy string
// form: keys in sorted order, and the escape character itself escaped as well as '=' and ']'.
func refEncodeElem(e mElem) string {
	var b strings.Builder
	b.WriteString(e.Name)
	for _, kv := range e.Keys {
		b.WriteString("[" + kv.K + "=")
		for _, r := range kv.V {
			if r == '\\' || r == '=' || r == ']' {
				b.WriteByte('\\')
			}
			b.WriteRune(r)
		}
		b.WriteString("]")
	}
	return b.String()
}

// roundTrip returns "" if p survives PathToString / StringToStructuredPath, else what went wrong.
func roundTrip(p mPath) (s string, problem string) {
	in := p.proto()
	s, err := ygot.PathToString(in)
	if err != nil {
		return s, fmt.Sprintf("PathToString failed: %v", err)
	}
	if !fromProto(in).equal(p) {
		return s, fmt.Sprintf("PathToString modified its argument, now %s", fromProto(in))
	}
	back, err := ygot.StringToStructuredPath(s)
	if err != nil {
		return s, fmt.Sprintf("StringToStructuredPath(%s) failed: %v", quoteGo(s), err)
	}
	if got := fromProto(back); !got.equal(p) {
		return s, fmt.Sprintf("StringToStructuredPath(%s) = %s", quoteGo(s), got)
	}
	if !proto.Equal(back, p.proto()) {
		return s, fmt.Sprintf("StringToStructuredPath(%s) is not proto.Equal to the original (%v)", quoteGo(s), back)
	}
	return s, ""
}

// legacyRoundTrip checks the string-slice form of p.
func legacyRoundTrip(p mPath) (problem string) {
	q := &gpb.Path{}
	for _, e := range p.Elems {
		q.Element = append(q.Element, refEncodeElem(e)) //lint:ignore SA1019 legacy field under test
	}
	want := append([]string(nil), q.Element...)
	if len(want) == 0 {
		// A nil Element slice selects the structured form; the empty legacy path is the root in
		// both forms and is covered by roundTrip.
		return ""
	}
	s, err := ygot.PathToString(q)
	if err != nil {
		return fmt.Sprintf("PathToString(legacy %q) failed: %v", want, err)
	}
	back, err := ygot.StringToStringSlicePath(s)
	if err != nil {
		return fmt.Sprintf("StringToStringSlicePath(%s) failed: %v (legacy elements %q)", quoteGo(s), err, want)
	}
	got := back.Element
	if len(got) != len(want) {
		return fmt.Sprintf("StringToStringSlicePath(%s) = %q, want %q", quoteGo(s), got, want)
	}
	for i := range want {
		if got[i] != want[i] {
			return fmt.Sprintf("StringToStringSlicePath(%s) = %q, want %q (element %d differs)", quoteGo(s), got, want, i)
		}
	}
	s2, err := ygot.PathToString(back)
	if err != nil || s2 != s {
		return fmt.Sprintf("legacy elements %q re-join to %s (err %v), want %s", got, quoteGo(s2), err, quoteGo(s))
	}
	for i, el := range got {
		one, err := ygot.StringToStructuredPath("/" + el)
		if err != nil {
			return fmt.Sprintf("legacy element %d %s does not re-parse: %v", i, quoteGo(el), err)
		}
		m := fromProto(one)
		if len(m.Elems) != 1 || !m.Elems[0].equal(p.Elems[i]) {
			return fmt.Sprintf("legacy element %d %s re-parses to %s, want %s", i, quoteGo(el), m, mPath{Elems: []mElem{p.Elems[i]}})
		}
	}
	return ""
}

func pathClasses(p mPath) (classes []string, nontrivial bool) {
	set := map[string]bool{}
	if len(p.Elems) == 0 {
		set["root-path"] = true
	}
	for _, e := range p.Elems {
		if strings.Contains(e.Name, ":") {
			set["prefixed-name"] = true
		}
		if len(e.Keys) >= 2 {
			set["multi-key-elem"] = true
		}
		for _, kv := range e.Keys {
			v := kv.V
			for _, c := range []struct{ sub, name string }{{"/", "value-has-slash"}, {"]", "value-has-rbracket"}, {"[", "value-has-lbracket"},
				{"=", "value-has-equals"}, {`\`, "value-has-backslash"}, {" ", "value-has-space"}, {"..", "value-has-dotdot"}, {"//", "value-has-double-slash"}} {
				if strings.Contains(v, c.sub) {
					set[c.name] = true
				}
			}
			if strings.ContainsAny(v, `/]\=`) {
				nontrivial = true
			}
			if strings.HasSuffix(v, `\`) {
				set["value-ends-in-backslash"] = true
			}
			for _, r := range v {
				if r >= 0x80 {
					set["value-non-ascii"] = true
				}
				if r < 0x20 || r == 0x7f {
					set["value-control-char"] = true
				}
			}
			if valueBracketThenSlash(v) {
				set["region:bracket-then-slash"] = true
			}
			if valueHasCleanableSegment(v) {
				set["region:cleanable-segment"] = true
			}
			if valueHasBackslash(v) {
				set["region:backslash"] = true
			}
		}
	}
	for c := range set {
		classes = append(classes, c)
	}
	sort.Strings(classes)
	return classes, nontrivial
}

func c08Witnesses(rec *ev.Rec) {
	one := func(v string) mPath { return mPath{Elems: []mElem{{Name: "a", Keys: []mKey{{"k", v}}}}} }
	w := func(id, v string) {
		rec.Witness(id, func() (bool, string) {
			p := one(v)
			s, problem := roundTrip(p)
			if problem != "" {
				return true, fmt.Sprintf("path %s: PathToString = %s; %s", p, quoteGo(s), problem)
			}
			return false, ""
		})
	}
	w(f10Backslash, `x\y`)
	w(f10BracketSlash, `x]y/z`)
	w(f10PathClean, `x/../y`)
}

// judge decides a failure of path p: excused only when p has an active trigger feature and its
// sanitized twin passes the same law.
func judgeC08(rec *ev.Rec, p mPath, problem string, law func(mPath) string) (violation string) {
	if problem == "" {
		return ""
	}
	act := activeOnly(rec, triggersOf(p))
	if !act.any() {
		return problem
	}
	twin := sanitize(p, act)
	if tp := law(twin); tp != "" {
		return fmt.Sprintf("%s\n (the path has the trigger feature of an open finding, but the same path without that feature fails too)\n twin = %s\n twin: %s", problem, twin, tp)
	}
	act.excuse(rec)
	return ""
}

func TestC08_RoundTrip(t *testing.T) {
	rec := ev.Start(t, "C08")
	rec.Rule(c08Rule)
	c08Witnesses(rec)
	if t.Failed() {
		return
	}
	counts := map[string]int64{}
	var cases int64
	rapid.Check(t, func(rt *rapid.T) {
		p := genPathC08(rt, "p")
		classes, nt := pathClasses(p)
		cases++
		for _, c := range classes {
			counts[c]++
		}
		s, problem := roundTrip(p)
		lproblem := legacyRoundTrip(p)
		rec.Case("rt|"+p.String(), nt, append(classes, "law:round-trip")...)
		if cases == 1 || rec.WantSample() {
			rec.Sample(map[string]interface{}{"path": p.String(), "string": s, "round_trip_ok": problem == "", "legacy_ok": lproblem == ""})
		}
		if v := judgeC08(rec, p, problem, func(q mPath) string { _, pr := roundTrip(q); return pr }); v != "" {
			rt.Fatalf("structured round trip fails\n path = %s\n PathToString = %s\n %s", p, quoteGo(s), v)
		}
		if v := judgeC08(rec, p, lproblem, legacyRoundTrip); v != "" {
			rt.Fatalf("legacy string-slice round trip fails\n path = %s\n %s", p, v)
		}
	})
	if !t.Failed() && cases >= 500 {
		for _, c := range []string{"value-has-slash", "value-has-rbracket", "value-has-lbracket", "value-has-equals", "value-has-space", "value-non-ascii",
			"multi-key-elem", "prefixed-name", "region:backslash", "region:bracket-then-slash", "region:cleanable-segment"} {
			if counts[c]*200 < cases {
				t.Errorf("INCONCLUSIVE: generator health: class %q occurred in only %d of %d cases (< 0.5%%)", c, counts[c], cases)
			}
		}
	}
}

// ---------------------------------------------------------------------------------------------
// injectivity on near-collision pairs

// nearCollision derives from p a path that is different in the model but whose naive rendering
// is close or identical. It returns ok=false when the drawn operator does not apply.
func nearCollision(rt *rapid.T, p mPath) (q mPath, op string, ok bool) {
	q = p.clone()
	// positions of keyed elements
	var keyed []int
	for i, e := range q.Elems {
		if len(e.Keys) > 0 {
			keyed = append(keyed, i)
		}
	}
	if len(keyed) == 0 {
		return q, "", false
	}
	i := rapid.SampledFrom(keyed).Draw(rt, "nc-elem")
	j := rapid.IntRange(0, len(q.Elems[i].Keys)-1).Draw(rt, "nc-key")
	kv := &q.Elems[i].Keys[j]
	ops := []string{"absorb-next-elem", "absorb-next-key", "split-at-slash", "toggle-escape", "move-rune-to-next-key", "squeeze-slashes", "drop-dot-segment", "bracket-swap"}
	op = rapid.SampledFrom(ops).Draw(rt, "nc-op")
	switch op {
	case "absorb-next-elem": // /a[k=x]/b  ->  /a[k=x]/b] as one value "x]/b" etc.
		if i+1 >= len(q.Elems) || j != len(q.Elems[i].Keys)-1 {
			return q, op, false
		}
		glue := rapid.SampledFrom([]string{"/", "]/", `\]/`}).Draw(rt, "nc-glue")
		kv.V = kv.V + glue + refEncodeElem(q.Elems[i+1])
		q.Elems = append(q.Elems[:i+1], q.Elems[i+2:]...)
	case "absorb-next-key": // [k=x][l=y] -> [k=x][l=y] as the single value "x][l=y"
		if j+1 >= len(q.Elems[i].Keys) {
			return q, op, false
		}
		next := q.Elems[i].Keys[j+1]
		glue := rapid.SampledFrom([]string{"][", `\][`, "]["}).Draw(rt, "nc-glue")
		kv.V = kv.V + glue + next.K + "=" + next.V
		q.Elems[i] = q.Elems[i].without(next.K)
	case "split-at-slash": // value "x/b" -> value "x" and a following element b
		idx := strings.LastIndex(kv.V, "/")
		if idx <= 0 || j != len(q.Elems[i].Keys)-1 {
			return q, op, false
		}
		rest := kv.V[idx+1:]
		if !isIdent(rest) {
			return q, op, false
		}
		kv.V = kv.V[:idx]
		tail := append([]mElem{{Name: rest}}, q.Elems[i+1:]...)
		q.Elems = append(q.Elems[:i+1:i+1], tail...)
	case "toggle-escape": // "a=b" <-> "a\=b", "a]b" <-> "a\]b"
		switch {
		case strings.Contains(kv.V, `\=`):
			kv.V = strings.Replace(kv.V, `\=`, `=`, 1)
		case strings.Contains(kv.V, `\]`):
			kv.V = strings.Replace(kv.V, `\]`, `]`, 1)
		case strings.Contains(kv.V, `=`):
			kv.V = strings.Replace(kv.V, `=`, `\=`, 1)
		case strings.Contains(kv.V, `]`):
			kv.V = strings.Replace(kv.V, `]`, `\]`, 1)
		case strings.Contains(kv.V, `\\`):
			kv.V = strings.Replace(kv.V, `\\`, `\`, 1)
		default:
			return q, op, false
		}
	case "move-rune-to-next-key":
		if j+1 >= len(q.Elems[i].Keys) || utf8.RuneCountInString(kv.V) < 2 {
			return q, op, false
		}
		r, size := utf8.DecodeLastRuneInString(kv.V)
		kv.V = kv.V[:len(kv.V)-size]
		q.Elems[i].Keys[j+1].V = string(r) + q.Elems[i].Keys[j+1].V
	case "squeeze-slashes": // "a//b" <-> "a/b"
		switch {
		case strings.Contains(kv.V, "//"):
			kv.V = strings.Replace(kv.V, "//", "/", 1)
		case strings.Contains(kv.V, "/"):
			kv.V = strings.Replace(kv.V, "/", "//", 1)
		default:
			return q, op, false
		}
	case "drop-dot-segment": // "a/./b" -> "a/b", "a/x/../b" -> "a/b"
		switch {
		case strings.Contains(kv.V, "/./"):
			kv.V = strings.Replace(kv.V, "/./", "/", 1)
		case strings.Contains(kv.V, "/"):
			kv.V = strings.Replace(kv.V, "/", rapid.SampledFrom([]string{"/./", "/zz/../"}).Draw(rt, "nc-dot"), 1)
		default:
			return q, op, false
		}
	case "bracket-swap": // "[x" <-> "x", "x]" <-> "x"
		switch {
		case strings.HasPrefix(kv.V, "[") && len(kv.V) > 1:
			kv.V = kv.V[1:]
		case strings.HasSuffix(kv.V, "]") && len(kv.V) > 1:
			kv.V = kv.V[:len(kv.V)-1]
		default:
			kv.V = rapid.SampledFrom([]string{"[" + kv.V, kv.V + "]", kv.V + `\`}).Draw(rt, "nc-br")
		}
	}
	if kv.V == "" {
		return q, op, false
	}
	return q, op, true
}

func isIdent(s string) bool {
	if s == "" || !strings.ContainsRune(identStart, rune(s[0])) {
		return false
	}
	for _, r := range s[1:] {
		if r >= 0x80 || !strings.ContainsRune(identRest, r) {
			return false
		}
	}
	return true
}

func TestC08_Injective(t *testing.T) {
	rec := ev.Start(t, "C08")
	rec.Rule(c08Rule)
	c08Witnesses(rec)
	if t.Failed() {
		return
	}
	var cases, applied int64
	ops := map[string]int64{}
	rapid.Check(t, func(rt *rapid.T) {
		p := genPathC08(rt, "p")
		keyed := false
		for _, e := range p.Elems {
			keyed = keyed || len(e.Keys) > 0
		}
		if !keyed { // the operators work on key values
			p.Elems = append(p.Elems, mElem{Name: genIdent(rt, "forced-name"), Keys: []mKey{{genIdent(rt, "forced-key"), genValue(rt, "forced-value", false, false)}}})
		}
		var q mPath
		var op string
		ok := false
		for try := 0; try < 6 && !ok; try++ {
			q, op, ok = nearCollision(rt, p)
			ok = ok && !p.equal(q)
		}
		cases++
		if !ok || p.equal(q) {
			rec.Case("inj|"+p.String()+"|-", false, "law:injective", "injective:operator-not-applicable")
			return
		}
		applied++
		ops[op]++
		classes, nt := pathClasses(p)
		_, nt2 := pathClasses(q)
		rec.Case("inj|"+p.String()+"|"+q.String(), nt || nt2, append(classes, "law:injective", "injective:"+op)...)
		sp, err1 := ygot.PathToString(p.proto())
		sq, err2 := ygot.PathToString(q.proto())
		if applied == 1 || rec.WantSample() {
			rec.Sample(map[string]interface{}{"p": p.String(), "q": q.String(), "op": op, "string_p": sp, "string_q": sq})
		}
		if err1 != nil || err2 != nil {
			rt.Fatalf("PathToString failed on a path of the domain: %v / %v\n p = %s\n q = %s", err1, err2, p, q)
		}
		if sp != sq {
			return
		}
		// collision: excused only if a trigger feature of an open finding is present and the
		// collision disappears together with it
		act := activeOnly(rec, triggersOf(p).or(triggersOf(q)))
		if act.any() {
			tp, tq := sanitize(p, act), sanitize(q, act)
			if tp.equal(tq) {
				act.excuse(rec)
				return
			}
			s1, _ := ygot.PathToString(tp.proto())
			s2, _ := ygot.PathToString(tq.proto())
			if s1 != s2 {
				act.excuse(rec)
				return
			}
			rt.Fatalf("PathToString is not injective, also without the trigger features of the open findings\n p = %s\n q = %s\n both -> %s\n twins %s and %s both -> %s", p, q, quoteGo(sp), tp, tq, quoteGo(s1))
		}
		rt.Fatalf("PathToString is not injective (operator %s)\n p = %s\n q = %s\n both -> %s", op, p, q, quoteGo(sp))
	})
	if !t.Failed() && cases >= 500 {
		if applied*4 < cases {
			t.Errorf("INCONCLUSIVE: generator health: a near-collision operator applied in only %d of %d cases (< 25%%)", applied, cases)
		}
		for _, op := range []string{"absorb-next-elem", "absorb-next-key", "toggle-escape", "squeeze-slashes", "bracket-swap"} {
			if ops[op]*200 < cases {
				t.Errorf("INCONCLUSIVE: generator health: near-collision operator %q applied in only %d of %d cases (< 0.5%%)", op, ops[op], cases)
			}
		}
	}
}
